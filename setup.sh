#!/bin/sh
# Builds the framework from files on disk only (offline): Coq development, extracted model runner, Rust harness.
set -e
cd "$(dirname "$0")"
export CARGO_NET_OFFLINE=true
( cd coq && coq_makefile -f _CoqProject -o Makefile >/dev/null && timeout 1500 make -j16 >/dev/null )
( cd extract && timeout 300 ./build.sh )
cp -f /repo/Cargo.lock harness/Cargo.lock
( cd harness && timeout 1700 cargo build --offline 2>&1 | tail -3 )
echo setup done
