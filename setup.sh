#!/bin/sh
# Builds the framework from files on disk only (offline): Coq development, extracted model runner, Rust harnesses.
set -e
cd "$(dirname "$0")"
export CARGO_NET_OFFLINE=true
( cd coq && coq_makefile -f _CoqProject -o Makefile >/dev/null && timeout 1500 make -j16 >/dev/null )
( cd extract && timeout 300 ./build.sh )
cp -f /repo/Cargo.lock harness/Cargo.lock
cp -f /repo/Cargo.lock textharness/Cargo.lock
cp -f /repo/Cargo.lock staticharness/Cargo.lock
( cd harness && timeout 1700 cargo build --offline 2>&1 | tail -2 )
( cd textharness && timeout 900 cargo build --offline 2>&1 | tail -2 )
( cd staticharness && timeout 900 cargo build --offline 2>&1 | tail -2 )
echo setup done
