//! Input kinds (`HInput`) and the user state (`HState`).
//!
//! To add an input kind: implement `HInput` for it, add a variant to `ast::IKind`, and add an arm to
//! `main::run_case`. Kinds without `SliceInput` keep the default `to_slice` / `extra_slice` (unsupported).

use chumsky::input::{Checkpoint, Cursor, Input, MapExtra, ValueInput};
use chumsky::inspector::Inspector;
use chumsky::span::SimpleSpan;
use chumsky::Parser;

use crate::build::{Ex, P};
use crate::errs::HErr;
use crate::val::{Pos, Val};

// ---------- user state ----------

/// `h = (h*31 + t + 1) % 1000003` on every token; saved and restored with checkpoints.
#[derive(Clone, Debug, Default)]
pub struct HState {
    pub h: u64,
}

impl<'a, I: Input<'a, Token = char>> Inspector<'a, I> for HState {
    type Checkpoint = u64;

    #[inline]
    fn on_token(&mut self, t: &char) {
        self.h = (self.h * 31 + *t as u64 + 1) % 1_000_003;
    }
    #[inline]
    fn on_save<'parse>(&self, _cursor: &Cursor<'a, 'parse, I>) -> u64 {
        self.h
    }
    #[inline]
    fn on_rewind<'parse>(&mut self, marker: &Checkpoint<'a, 'parse, I, u64>) {
        self.h = *marker.inspector();
    }
}

// ---------- input kinds ----------

pub trait HInput<'a>:
    ValueInput<'a, Token = char, Span = SimpleSpan<usize>> + Clone + 'a
{
    /// Whether `just`/`one_of`/`none_of` sequences are given as `String` (else `Vec<char>`).
    const SEQ_IS_STRING: bool;
    /// Whether the kind implements `SliceInput` (`ToSlice`, `MWSlice`).
    const HAS_SLICE: bool = false;

    /// Convert a raw span offset of this kind (e.g. a byte offset) to a token index.
    fn pos(&self, raw: usize) -> Pos;

    /// `p.to_slice()` mapped to `Val::Slice` (token-index range computed from the pointer offsets of the
    /// returned slice relative to `self`, the caller's buffer). `None`: kind has no `SliceInput`.
    fn to_slice<E: HErr<'a, Self>>(&self, _p: P<'a, Self, E>) -> Option<P<'a, Self, E>> {
        None
    }

    /// `e.slice()` as a token-index range. `None`: kind has no `SliceInput`.
    fn extra_slice<E: HErr<'a, Self>>(
        &self,
        _e: &mut MapExtra<'a, '_, Self, Ex<E>>,
    ) -> Option<(Pos, Pos)> {
        None
    }
}

/// Byte range of `part` inside `whole`, from the pointers alone (so that a copy would be detected).
fn byte_range(whole_ptr: *const u8, part_ptr: *const u8, part_bytes: usize) -> (usize, usize) {
    let start = (part_ptr as usize).wrapping_sub(whole_ptr as usize);
    (start, start.wrapping_add(part_bytes))
}

// ----- &str -----

fn str_pos(s: &str, raw: usize) -> Pos {
    if raw <= s.len() && s.is_char_boundary(raw) {
        Pos::Ix(s[..raw].chars().count())
    } else {
        Pos::Bad(raw)
    }
}

fn str_slice_range(whole: &str, part: &str) -> (Pos, Pos) {
    let (s, e) = byte_range(whole.as_ptr(), part.as_ptr(), part.len());
    (str_pos(whole, s), str_pos(whole, e))
}

impl<'a> HInput<'a> for &'a str {
    const SEQ_IS_STRING: bool = true;
    const HAS_SLICE: bool = true;

    fn pos(&self, raw: usize) -> Pos {
        str_pos(self, raw)
    }

    fn to_slice<E: HErr<'a, Self>>(&self, p: P<'a, Self, E>) -> Option<P<'a, Self, E>> {
        let whole: &'a str = self;
        Some(
            p.to_slice()
                .map(move |part: &'a str| {
                    let (s, e) = str_slice_range(whole, part);
                    Val::Slice(s, e)
                })
                .boxed(),
        )
    }

    fn extra_slice<E: HErr<'a, Self>>(
        &self,
        e: &mut MapExtra<'a, '_, Self, Ex<E>>,
    ) -> Option<(Pos, Pos)> {
        Some(str_slice_range(self, e.slice()))
    }
}

// ----- &[char] -----

fn chars_pos(s: &[char], raw: usize) -> Pos {
    if raw <= s.len() {
        Pos::Ix(raw)
    } else {
        Pos::Bad(raw)
    }
}

fn chars_slice_range(whole: &[char], part: &[char]) -> (Pos, Pos) {
    const SZ: usize = std::mem::size_of::<char>();
    let (s, e) = byte_range(whole.as_ptr() as *const u8, part.as_ptr() as *const u8, part.len() * SZ);
    let conv = |b: usize| {
        if b % SZ == 0 {
            chars_pos(whole, b / SZ)
        } else {
            Pos::Bad(b)
        }
    };
    (conv(s), conv(e))
}

impl<'a> HInput<'a> for &'a [char] {
    const SEQ_IS_STRING: bool = false;
    const HAS_SLICE: bool = true;

    fn pos(&self, raw: usize) -> Pos {
        chars_pos(self, raw)
    }

    fn to_slice<E: HErr<'a, Self>>(&self, p: P<'a, Self, E>) -> Option<P<'a, Self, E>> {
        let whole: &'a [char] = self;
        Some(
            p.to_slice()
                .map(move |part: &'a [char]| {
                    let (s, e) = chars_slice_range(whole, part);
                    Val::Slice(s, e)
                })
                .boxed(),
        )
    }

    fn extra_slice<E: HErr<'a, Self>>(
        &self,
        e: &mut MapExtra<'a, '_, Self, Ex<E>>,
    ) -> Option<(Pos, Pos)> {
        Some(chars_slice_range(self, e.slice()))
    }
}
