//! `harness <casefile>`: run every case of the file through chumsky and print one canonical result line
//! per case (`<id> <result>`, see /verif/FORMAT.md), in input order, flushed after every line.
//!
//! This is the front end only. The parsers are built and run by worker executables that sit next to this one
//! (`hw-<ikind>-<ekind>`, `hw-array<N>-<ekind>`; see `hcore::worker`), one per input kind and error type: that
//! way the generic instantiations of chumsky compile in parallel. History lines (`(H ...)`) go to the `str` /
//! `slice` worker of their combination, thread lines (`(T ...)`) to `hw-threads`. Each worker that a case file needs is spawned
//! once; a case line is written to its stdin and the result line read back from its stdout before the next
//! case is looked at, so the per-case behaviour (`catch_unwind`, silenced panic hook, panic classification —
//! all inside the worker) and the output order are those of a single process.

use std::collections::HashMap;
use std::io::{BufRead, BufReader, BufWriter, Write};
use std::path::PathBuf;
use std::process::{Child, ChildStdin, Command, Stdio};
use std::sync::mpsc::{self, RecvTimeoutError};
use std::time::Duration;

use hcore::ast::{self, IKind, LineKind};
use hcore::sexp;
use hcore::worker::{worker_name, ARRAY_MAX, THREADS_WORKER};

struct Worker {
    child: Child,
    to: BufWriter<ChildStdin>,
    /// result lines, forwarded by a reader thread so that a request can time out
    from: mpsc::Receiver<String>,
}

/// What a request to a worker came back with.
enum Answer {
    Line(String),
    /// no answer within the per-case limit (`HARNESS_CASE_TIMEOUT_S`, default 20 s): the worker was killed
    TimedOut,
    /// the worker died inside the case (abort, stack overflow, kill)
    Died,
}

struct Pool {
    dir: PathBuf,
    /// `None`: the executable could not be started (reported once)
    workers: HashMap<String, Option<Worker>>,
}

impl Pool {
    fn get(&mut self, name: &str) -> Option<&mut Worker> {
        if !self.workers.contains_key(name) {
            let path = self.dir.join(name);
            // the worker runs under an address-space limit (HARNESS_WORKER_MEM_KB, default 8 GiB): a runaway recursion on a
            // stack grown on the heap (stacker) ends in an allocation failure of the worker (reported as CRASH), not of the machine
            let mem_kb = std::env::var("HARNESS_WORKER_MEM_KB").ok().and_then(|v| v.parse::<u64>().ok()).unwrap_or(8 * 1024 * 1024);
            let spawned = Command::new("sh")
                .arg("-c")
                .arg(format!("ulimit -v {}; exec \"$0\"", mem_kb))
                .arg(&path)
                .env("HARNESS_WORKER", "1")
                .stdin(Stdio::piped())
                .stdout(Stdio::piped())
                .stderr(Stdio::inherit())
                .spawn();
            let w = match spawned {
                Ok(mut child) => {
                    let to = BufWriter::new(child.stdin.take().expect("piped stdin"));
                    let mut out = BufReader::new(child.stdout.take().expect("piped stdout"));
                    let (tx, from) = mpsc::channel();
                    std::thread::spawn(move || loop {
                        let mut line = String::new();
                        match out.read_line(&mut line) {
                            Ok(n) if n > 0 && line.ends_with('\n') => {
                                line.pop();
                                if tx.send(line).is_err() {
                                    break;
                                }
                            }
                            _ => break,
                        }
                    });
                    Some(Worker { child, to, from })
                }
                Err(e) => {
                    eprintln!("harness: cannot start worker {}: {e}", path.display());
                    None
                }
            };
            self.workers.insert(name.to_string(), w);
        }
        self.workers.get_mut(name).and_then(|w| w.as_mut())
    }

    /// Close the pipes and reap the workers.
    fn shutdown(&mut self) {
        for (_, w) in self.workers.drain() {
            if let Some(Worker { mut child, to, from }) = w {
                drop(to);
                drop(from);
                let _ = child.wait();
            }
        }
    }
}

fn main() {
    let args: Vec<String> = std::env::args().collect();
    if args.len() != 2 {
        eprintln!("usage: harness <casefile>");
        std::process::exit(2);
    }
    let file = match std::fs::File::open(&args[1]) {
        Ok(f) => f,
        Err(e) => {
            eprintln!("harness: cannot open {}: {e}", args[1]);
            std::process::exit(2);
        }
    };
    // `HARNESS_WHY=1`: explain UNSUPPORTED results on stderr (the workers read it too)
    let why = std::env::var_os("HARNESS_WHY").is_some();

    let dir = std::env::current_exe()
        .ok()
        .and_then(|p| p.parent().map(|d| d.to_path_buf()))
        .unwrap_or_else(|| PathBuf::from("."));
    let mut pool = Pool { dir, workers: HashMap::new() };
    let limit = Duration::from_secs(
        std::env::var("HARNESS_CASE_TIMEOUT_S").ok().and_then(|v| v.parse().ok()).unwrap_or(20),
    );

    // after this many cases that hung or killed their worker, the rest of the file is answered SKIPPED (the driver
    // treats that like UNSUPPORTED): a change that makes parsing loop would otherwise cost the limit for every case
    let max_bad: usize = std::env::var("HARNESS_MAX_TIMEOUTS").ok().and_then(|v| v.parse().ok()).unwrap_or(3);
    let mut bad = 0usize;

    let stdout = std::io::stdout();
    let mut out = stdout.lock();
    for line in BufReader::new(file).lines() {
        let line = match line {
            Ok(l) => l,
            Err(e) => {
                eprintln!("harness: read error: {e}");
                std::process::exit(2);
            }
        };
        if line.trim().is_empty() {
            continue;
        }
        match route(&line, why) {
            Route::Skip => {}
            Route::Answer(id, result) => {
                let _ = writeln!(out, "{id} {result}");
                let _ = out.flush();
            }
            Route::Worker(id, _) if bad >= max_bad => {
                let _ = writeln!(out, "{id} SKIPPED");
                let _ = out.flush();
            }
            Route::Worker(id, name) => match pool.get(&name) {
                None => {
                    let _ = writeln!(out, "{id} UNSUPPORTED");
                    let _ = out.flush();
                }
                Some(w) => match ask(w, &line, limit) {
                    Answer::Line(answer) => {
                        let _ = writeln!(out, "{answer}");
                        let _ = out.flush();
                    }
                    Answer::TimedOut => {
                        // The case did not come back in time (an unbounded loop): kill the worker, report the case and go
                        // on with a fresh worker.
                        eprintln!("harness: worker {name} timed out in case {id}");
                        if let Some(Some(mut w)) = pool.workers.remove(&name) {
                            let _ = w.child.kill();
                            let _ = w.child.wait();
                        }
                        bad += 1;
                        let _ = writeln!(out, "{id} TIMEOUT");
                        let _ = out.flush();
                    }
                    Answer::Died => {
                        // The worker died inside this case (abort, stack overflow, kill): report it and go on with a
                        // fresh worker.
                        eprintln!("harness: worker {name} died in case {id}");
                        if let Some(Some(mut w)) = pool.workers.remove(&name) {
                            let _ = w.child.kill();
                            let _ = w.child.wait();
                        }
                        bad += 1;
                        let _ = writeln!(out, "{id} CRASH");
                        let _ = out.flush();
                    }
                },
            },
        }
    }
    pool.shutdown();
}

enum Route {
    /// no id can be read from the line
    Skip,
    /// answered by the front end
    Answer(u64, &'static str),
    /// to be answered by the named worker
    Worker(u64, String),
}

fn route(line: &str, why: bool) -> Route {
    let sexp = match sexp::parse_line(line) {
        Some(s) => s,
        None => {
            return match sexp::salvage_id(line) {
                Some(id) => Route::Answer(id, "UNSUPPORTED"),
                None => Route::Skip,
            }
        }
    };
    let id = match ast::case_id(&sexp) {
        Some(id) => id,
        None => return Route::Skip,
    };
    match ast::line_kind(&sexp) {
        LineKind::Plain => {}
        LineKind::Threads => return Route::Worker(id, THREADS_WORKER.to_string()),
        LineKind::History => {
            return match ast::hcase_kinds(&sexp) {
                // only the `str` and `slice` workers serve histories
                Some((ikind @ (IKind::Str | IKind::Slice), ekind)) => Route::Worker(id, worker_name(ikind, ekind, 0)),
                _ => {
                    if why {
                        eprintln!("{id}: malformed history case, or input kind other than str / slice");
                    }
                    Route::Answer(id, "UNSUPPORTED")
                }
            };
        }
    }
    let (ikind, ekind) = match ast::case_kinds(&sexp) {
        Some(k) => k,
        None => {
            if why {
                eprintln!("{id}: malformed case or unknown input kind / error type");
            }
            return Route::Answer(id, "UNSUPPORTED");
        }
    };
    let mut n = 0;
    if ikind == IKind::Array {
        // one worker per array length
        n = match sexp.list().and_then(|l| l[5].list()) {
            Some(toks) if toks.len() <= ARRAY_MAX => toks.len(),
            _ => {
                if why {
                    eprintln!("{id}: array: the input must be a list of at most {ARRAY_MAX} tokens");
                }
                return Route::Answer(id, "UNSUPPORTED");
            }
        };
    }
    Route::Worker(id, worker_name(ikind, ekind, n))
}

/// One request/response round trip.
fn ask(w: &mut Worker, line: &str, limit: Duration) -> Answer {
    let sent = w.to.write_all(line.as_bytes()).and_then(|_| w.to.write_all(b"\n")).and_then(|_| w.to.flush());
    if sent.is_err() {
        return Answer::Died;
    }
    match w.from.recv_timeout(limit) {
        Ok(answer) => Answer::Line(answer),
        Err(RecvTimeoutError::Timeout) => Answer::TimedOut,
        Err(RecvTimeoutError::Disconnected) => Answer::Died,
    }
}
