//! `harness <casefile>`: run every case of the file through chumsky and print one canonical result line
//! per case (`<id> <result>`, see /verif/FORMAT.md), in input order.

mod ast;
mod build;
mod errs;
mod input;
mod sexp;
mod val;

use std::io::{BufRead, BufReader, Write};
use std::panic::{catch_unwind, AssertUnwindSafe};

use chumsky::error::{Cheap, EmptyErr, Rich, Simple};
use chumsky::Parser;

use ast::{Case, EKind, IKind, Mode};
use build::Builder;
use errs::HErr;
use input::{HInput, HState};
use val::Val;

fn main() {
    let args: Vec<String> = std::env::args().collect();
    if args.len() != 2 {
        eprintln!("usage: harness <casefile>");
        std::process::exit(2);
    }
    let file = match std::fs::File::open(&args[1]) {
        Ok(f) => f,
        Err(e) => {
            eprintln!("harness: cannot open {}: {e}", args[1]);
            std::process::exit(2);
        }
    };
    // `HARNESS_WHY=1`: explain UNSUPPORTED results on stderr
    let why = std::env::var_os("HARNESS_WHY").is_some();

    // panics are results, not noise
    std::panic::set_hook(Box::new(|_| {}));

    let stdout = std::io::stdout();
    let mut out = stdout.lock();
    for line in BufReader::new(file).lines() {
        let line = match line {
            Ok(l) => l,
            Err(e) => {
                eprintln!("harness: read error: {e}");
                std::process::exit(2);
            }
        };
        if line.trim().is_empty() {
            continue;
        }
        if let Some((id, result)) = run_line(&line, why) {
            let _ = writeln!(out, "{id} {result}");
            let _ = out.flush();
        }
    }
}

/// `None`: no id can be read from the line (it is skipped).
fn run_line(line: &str, why: bool) -> Option<(u64, String)> {
    let sexp = match sexp::parse_line(line) {
        Some(s) => s,
        None => return sexp::salvage_id(line).map(|id| (id, "UNSUPPORTED".to_string())),
    };
    let id = ast::case_id(&sexp)?;
    let case = match ast::parse_case(&sexp) {
        Some(c) => c,
        None => {
            if why {
                eprintln!("{id}: malformed case or unknown constructor/kind");
            }
            return Some((id, "UNSUPPORTED".to_string()));
        }
    };
    let result = match catch_unwind(AssertUnwindSafe(|| run_case(&case, why))) {
        Ok(r) => r,
        Err(payload) => {
            let msg = if let Some(s) = payload.downcast_ref::<&'static str>() {
                (*s).to_string()
            } else if let Some(s) = payload.downcast_ref::<String>() {
                s.clone()
            } else {
                String::new()
            };
            format!("PANIC {}", classify_panic(&msg))
        }
    };
    Some((id, result))
}

fn classify_panic(msg: &str) -> &'static str {
    if msg.contains("making no progress") {
        "progress"
    } else if msg.contains("called `Option::unwrap()` on a `None` value") {
        "unwrap"
    } else {
        "other"
    }
}

/// Dispatch on the input kind. The input buffer lives here, outside the parser.
fn run_case(case: &Case, why: bool) -> String {
    match case.ikind {
        IKind::Str => {
            let buf: String = case.input.iter().collect();
            run_ekind::<&str>(case, &buf, why)
        }
        IKind::Slice => run_ekind::<&[char]>(case, &case.input[..], why),
    }
}

/// Dispatch on the error type.
fn run_ekind<'a, I: HInput<'a>>(case: &Case, input: I, why: bool) -> String {
    match case.ekind {
        EKind::Empty => run::<I, EmptyErr>(case, input, why),
        EKind::Cheap => run::<I, Cheap>(case, input, why),
        EKind::Simple => run::<I, Simple<'a, char>>(case, input, why),
        EKind::Rich => run::<I, Rich<'a, char>>(case, input, why),
    }
}

fn run<'a, I: HInput<'a>, E: HErr<'a, I>>(case: &Case, input: I, why: bool) -> String {
    let parser = match Builder::<I, E>::new(input.clone()).g(&case.grammar) {
        Ok(p) => p,
        Err(u) => {
            if why {
                eprintln!("{}: {}", case.id, u.0);
            }
            return "UNSUPPORTED".to_string();
        }
    };
    let mut state = HState::default();
    let (output, errs): (Option<Option<Val>>, Vec<E>) = match case.mode {
        Mode::Parse => {
            let (o, e) = parser.parse_with_state(input.clone(), &mut state).into_output_errors();
            (o.map(Some), e)
        }
        Mode::Check => {
            let (o, e) = parser.check_with_state(input.clone(), &mut state).into_output_errors();
            (o.map(|()| None), e)
        }
    };

    let mut out = String::new();
    match output {
        Some(Some(v)) => {
            out.push_str("OK ");
            v.canon(&mut out);
            out.push(' ');
        }
        Some(None) => out.push_str("OK - "),
        None => out.push_str("FAIL "),
    }
    out.push_str("E[");
    let conv = |raw: usize| input.pos(raw);
    for (i, e) in errs.iter().enumerate() {
        if i > 0 {
            out.push(';');
        }
        e.canon(&conv, &mut out);
    }
    out.push(']');
    out
}
