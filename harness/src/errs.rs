//! The harness view of chumsky's four stock error types: construction of "custom error number k"
//! and canonical printing (FORMAT.md, `err`).
//!
//! Pattern codes: `Any`=0, `SomethingElse`=1, `EndOfInput`=2, `Label(l)`=4+2l, `Token(t)`=5+2t.
//! (`Identifier` never occurs with the harness grammars; it would print as code 3.)

use std::fmt::Write;

use chumsky::error::{Cheap, EmptyErr, LabelError, Rich, RichPattern, RichReason, Simple};
use chumsky::span::SimpleSpan;

use crate::input::HInput;
use crate::val::Pos;

/// Converts a raw span offset of the input kind (bytes for `&str`) to a token position.
pub type Conv<'c> = &'c dyn Fn(usize) -> Pos;

pub trait HErr<'a, I: HInput<'a>>:
    chumsky::error::Error<'a, I> + LabelError<'a, I, String> + 'a
{
    /// `E::custom(k, span)` of FORMAT.md.
    fn custom(k: usize, span: SimpleSpan<usize>) -> Self;
    /// The error's span (`0..0` for `EmptyErr`, which has none); used by `MapErr`.
    fn hspan(&self) -> SimpleSpan<usize>;
    /// Append the canonical form `<s>..<e>:<reason>:[<ctx>,...]`.
    fn canon(&self, conv: Conv<'_>, out: &mut String);
}

fn span_str(sp: &SimpleSpan<usize>, conv: Conv<'_>, out: &mut String) {
    let _ = write!(out, "{}..{}", conv(sp.start), conv(sp.end));
}

impl<'a, I: HInput<'a>> HErr<'a, I> for EmptyErr {
    fn custom(_k: usize, _span: SimpleSpan<usize>) -> Self {
        EmptyErr::default()
    }
    fn hspan(&self) -> SimpleSpan<usize> {
        SimpleSpan::from(0..0)
    }
    fn canon(&self, _conv: Conv<'_>, out: &mut String) {
        out.push_str("0..0:X[]F-:[]");
    }
}

impl<'a, I: HInput<'a>> HErr<'a, I> for Cheap<SimpleSpan<usize>> {
    fn custom(_k: usize, span: SimpleSpan<usize>) -> Self {
        Cheap::new(span)
    }
    fn hspan(&self) -> SimpleSpan<usize> {
        *self.span()
    }
    fn canon(&self, conv: Conv<'_>, out: &mut String) {
        span_str(self.span(), conv, out);
        out.push_str(":X[]F-:[]");
    }
}

impl<'a, I: HInput<'a>> HErr<'a, I> for Simple<'a, char, SimpleSpan<usize>> {
    fn custom(_k: usize, span: SimpleSpan<usize>) -> Self {
        Simple::new(None, span)
    }
    fn hspan(&self) -> SimpleSpan<usize> {
        *self.span()
    }
    fn canon(&self, conv: Conv<'_>, out: &mut String) {
        span_str(self.span(), conv, out);
        out.push_str(":X[]F");
        found_str(self.found(), out);
        out.push_str(":[]");
    }
}

impl<'a, I: HInput<'a>> HErr<'a, I> for Rich<'a, char, SimpleSpan<usize>> {
    fn custom(k: usize, span: SimpleSpan<usize>) -> Self {
        Rich::custom(span, k.to_string())
    }
    fn hspan(&self) -> SimpleSpan<usize> {
        *self.span()
    }
    fn canon(&self, conv: Conv<'_>, out: &mut String) {
        span_str(self.span(), conv, out);
        out.push(':');
        match self.reason() {
            RichReason::Custom(msg) => {
                out.push('C');
                out.push_str(&numeric_or_q(msg));
            }
            RichReason::ExpectedFound { .. } => {
                // only the *set* of expected patterns is observable: sort and de-duplicate
                let mut codes: Vec<Option<u64>> = self.expected().map(pattern_code).collect();
                codes.sort();
                codes.dedup();
                out.push_str("X[");
                for (i, c) in codes.iter().enumerate() {
                    if i > 0 {
                        out.push(',');
                    }
                    match c {
                        Some(c) => {
                            let _ = write!(out, "{c}");
                        }
                        None => out.push('?'),
                    }
                }
                out.push_str("]F");
                found_str(self.found(), out);
            }
        }
        out.push_str(":[");
        for (i, (pat, sp)) in self.contexts().enumerate() {
            if i > 0 {
                out.push(',');
            }
            match pat {
                RichPattern::Label(l) => out.push_str(&numeric_or_q(l)),
                _ => out.push('?'),
            }
            out.push('@');
            span_str(sp, conv, out);
        }
        out.push(']');
    }
}

fn found_str(found: Option<&char>, out: &mut String) {
    match found {
        Some(c) => {
            let _ = write!(out, "{}", *c as u32);
        }
        None => out.push('-'),
    }
}

/// Labels and custom messages are decimal numbers written by the harness itself; anything else prints `?`.
fn numeric_or_q(s: &str) -> String {
    match s.parse::<u64>() {
        Ok(n) => n.to_string(),
        Err(_) => "?".to_string(),
    }
}

fn pattern_code(p: &RichPattern<'_, char>) -> Option<u64> {
    Some(match p {
        RichPattern::Any => 0,
        RichPattern::SomethingElse => 1,
        RichPattern::EndOfInput => 2,
        RichPattern::Identifier(_) => 3,
        RichPattern::Label(l) => 4 + 2 * l.parse::<u64>().ok()?,
        RichPattern::Token(t) => 5 + 2 * (**t as u64),
    })
}
