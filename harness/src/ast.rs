//! Grammar AST (`G`, `IT` of /verif/coq/Model/Syntax.v), the case record, and parsing from s-expressions.
//!
//! Constructor names and argument order are exactly those of Syntax.v / FORMAT.md.

use crate::sexp::Sexp;
use crate::val::{Fn1, Mw, Pos, Pred, Val};

#[derive(Clone, Copy, Debug, PartialEq)]
pub enum CKind {
    Vec,
    Count,
    Unit,
}

#[derive(Clone, Debug, PartialEq)]
pub enum G {
    // primitives
    End,
    Empty,
    Any,
    Just(Vec<char>),
    OneOf(Vec<char>),
    NoneOf(Vec<char>),
    Select(Pred, Fn1),
    Custom(Vec<char>, usize),
    // output shaping
    Map(Fn1, Box<G>),
    MapWith(Mw, Box<G>),
    To(usize, Box<G>),
    Ignored(Box<G>),
    ToSpan(Box<G>),
    ToSlice(Box<G>),
    Filter(Pred, Box<G>),
    TryMap(Pred, Fn1, usize, Box<G>),
    TryMapWith(Pred, Fn1, usize, Box<G>),
    Validate(Pred, usize, Box<G>),
    // sequencing
    Then(Box<G>, Box<G>),
    IgnoreThen(Box<G>, Box<G>),
    ThenIgnore(Box<G>, Box<G>),
    DelimitedBy(Box<G>, Box<G>, Box<G>),
    PaddedBy(Box<G>, Box<G>),
    Group(Vec<G>),
    // choice / option / lookahead
    Or(Box<G>, Box<G>),
    Choice(Vec<G>),
    ChoiceVec(Vec<G>),
    OrNot(Box<G>),
    Not(Box<G>),
    AndIs(Box<G>, Box<G>),
    Rewind(Box<G>),
    // iteration
    RepUnit(Box<IT>),
    Collect(CKind, Box<IT>),
    CollectExactly(usize, Box<IT>),
    Foldl(Box<G>, Box<IT>, usize),
    Foldr(Box<IT>, Box<G>, usize),
    FoldlWith(Box<G>, Box<IT>, usize),
    FoldrWith(Box<IT>, Box<G>, usize),
    // recovery
    RecoverVia(Box<G>, Box<G>),
    RecoverSkipUntil(Box<G>, Box<G>, Box<G>, usize),
    RecoverSkipRetry(Box<G>, Box<G>, Box<G>),
    // error decoration
    Labelled(usize, bool, Box<G>),
    MapErr(usize, Box<G>),
    // context
    WithCtx(Val, Box<G>),
    IgnoreWithCtx(Box<G>, Box<G>),
    ThenWithCtx(Box<G>, Box<G>),
    MapCtx(Fn1, Box<G>),
    JustCfg(Vec<char>),
}

#[derive(Clone, Debug, PartialEq)]
pub enum IT {
    IRep(G, usize, Option<usize>),
    ISep(G, G, usize, Option<usize>, bool, bool),
    IEnum(Box<IT>),
    IMap(Fn1, Box<IT>),
    IMapWith(Mw, Box<IT>),
    IOrNot(G),
    IRepCfg(G, usize, Option<usize>),
}

#[derive(Clone, Copy, Debug, PartialEq)]
pub enum IKind {
    Str,
    Slice,
}

#[derive(Clone, Copy, Debug, PartialEq)]
pub enum EKind {
    Empty,
    Cheap,
    Simple,
    Rich,
}

#[derive(Clone, Copy, Debug, PartialEq)]
pub enum Mode {
    Parse,
    Check,
}

#[derive(Clone, Debug)]
pub struct Case {
    pub id: u64,
    pub ikind: IKind,
    pub ekind: EKind,
    pub mode: Mode,
    pub grammar: G,
    pub input: Vec<char>,
}

// ---------- parsing ----------

type R<T> = Option<T>;

/// The id of a syntactically well-formed line, even if the rest of the case is not understood.
pub fn case_id(s: &Sexp) -> R<u64> {
    s.list()?.first()?.nat()
}

pub fn parse_case(s: &Sexp) -> R<Case> {
    let l = s.list()?;
    if l.len() != 6 {
        return None;
    }
    let id = l[0].nat()?;
    let ikind = match l[1].atom()? {
        "str" => IKind::Str,
        "slice" => IKind::Slice,
        // reserved kinds (array, stream, bstream, mapped, ...) are not implemented yet
        _ => return None,
    };
    let ekind = match l[2].atom()? {
        "empty" => EKind::Empty,
        "cheap" => EKind::Cheap,
        "simple" => EKind::Simple,
        "rich" => EKind::Rich,
        _ => return None,
    };
    let mode = match l[3].atom()? {
        "parse" => Mode::Parse,
        "check" => Mode::Check,
        _ => return None,
    };
    let grammar = parse_g(&l[4])?;
    let input = toks(&l[5])?;
    Some(Case { id, ikind, ekind, mode, grammar, input })
}

fn nat(s: &Sexp) -> R<usize> {
    usize::try_from(s.nat()?).ok()
}

fn boolean(s: &Sexp) -> R<bool> {
    match s.atom()? {
        "0" => Some(false),
        "1" => Some(true),
        _ => None,
    }
}

fn opt_nat(s: &Sexp) -> R<Option<usize>> {
    if s.atom()? == "inf" {
        Some(None)
    } else {
        nat(s).map(Some)
    }
}

/// A token: a decimal Unicode scalar value.
fn tok(s: &Sexp) -> R<char> {
    char::from_u32(u32::try_from(s.nat()?).ok()?)
}

fn toks(s: &Sexp) -> R<Vec<char>> {
    s.list()?.iter().map(tok).collect()
}

/// Split `Ctor` or `(Ctor args...)` into the constructor name and its arguments.
fn ctor(s: &Sexp) -> R<(&str, &[Sexp])> {
    match s {
        Sexp::Atom(a) => Some((a.as_str(), &[])),
        Sexp::List(l) => {
            let (h, rest) = l.split_first()?;
            Some((h.atom()?, rest))
        }
    }
}

fn parse_fn1(s: &Sexp) -> R<Fn1> {
    Some(match ctor(s)? {
        ("FId", []) => Fn1::Id,
        ("FTag", [k]) => Fn1::Tag(nat(k)?),
        ("FConst", [n]) => Fn1::Const(nat(n)?),
        ("FFst", []) => Fn1::Fst,
        ("FSnd", []) => Fn1::Snd,
        ("FDup", []) => Fn1::Dup,
        _ => return None,
    })
}

fn parse_pred(s: &Sexp) -> R<Pred> {
    Some(match ctor(s)? {
        ("PTrue", []) => Pred::True,
        ("PFalse", []) => Pred::False,
        ("PTokIn", [ts]) => Pred::TokIn(toks(ts)?),
        ("PTokNotIn", [ts]) => Pred::TokNotIn(toks(ts)?),
        _ => return None,
    })
}

fn parse_mw(s: &Sexp) -> R<Mw> {
    Some(match ctor(s)? {
        ("MWSpan", []) => Mw::Span,
        ("MWState", []) => Mw::State,
        ("MWCtx", []) => Mw::Ctx,
        ("MWAll", []) => Mw::All,
        ("MWSlice", []) => Mw::Slice,
        _ => return None,
    })
}

fn parse_ck(s: &Sexp) -> R<CKind> {
    Some(match ctor(s)? {
        ("CVec", []) => CKind::Vec,
        ("CCount", []) => CKind::Count,
        ("CUnit", []) => CKind::Unit,
        _ => return None,
    })
}

pub fn parse_val(s: &Sexp) -> R<Val> {
    Some(match ctor(s)? {
        ("VUnit", []) => Val::Unit,
        ("VTok", [t]) => Val::Tok(tok(t)?),
        ("VNat", [n]) => Val::Nat(nat(n)?),
        ("VPair", [a, b]) => Val::pair(parse_val(a)?, parse_val(b)?),
        ("VList", [l]) => Val::List(l.list()?.iter().map(parse_val).collect::<R<_>>()?),
        ("VOpt", [o]) => {
            if o.atom() == Some("none") {
                Val::Opt(None)
            } else {
                Val::opt(Some(parse_val(o)?))
            }
        }
        ("VSpan", [a, b]) => Val::Span(Pos::Ix(nat(a)?), Pos::Ix(nat(b)?)),
        ("VSlice", [a, b]) => Val::Slice(Pos::Ix(nat(a)?), Pos::Ix(nat(b)?)),
        ("VTag", [k, v]) => Val::tag(nat(k)?, parse_val(v)?),
        _ => return None,
    })
}

fn gs(s: &Sexp) -> R<Vec<G>> {
    s.list()?.iter().map(parse_g).collect()
}

fn bg(s: &Sexp) -> R<Box<G>> {
    parse_g(s).map(Box::new)
}

fn bit(s: &Sexp) -> R<Box<IT>> {
    parse_it(s).map(Box::new)
}

pub fn parse_g(s: &Sexp) -> R<G> {
    Some(match ctor(s)? {
        ("End", []) => G::End,
        ("Empty", []) => G::Empty,
        ("Any", []) => G::Any,
        ("Just", [ts]) => G::Just(toks(ts)?),
        ("OneOf", [ts]) => G::OneOf(toks(ts)?),
        ("NoneOf", [ts]) => G::NoneOf(toks(ts)?),
        ("Select", [p, f]) => G::Select(parse_pred(p)?, parse_fn1(f)?),
        ("Custom", [ts, k]) => G::Custom(toks(ts)?, nat(k)?),
        ("Map", [f, a]) => G::Map(parse_fn1(f)?, bg(a)?),
        ("MapWith", [m, a]) => G::MapWith(parse_mw(m)?, bg(a)?),
        ("To", [n, a]) => G::To(nat(n)?, bg(a)?),
        ("Ignored", [a]) => G::Ignored(bg(a)?),
        ("ToSpan", [a]) => G::ToSpan(bg(a)?),
        ("ToSlice", [a]) => G::ToSlice(bg(a)?),
        ("Filter", [p, a]) => G::Filter(parse_pred(p)?, bg(a)?),
        ("TryMap", [p, f, k, a]) => G::TryMap(parse_pred(p)?, parse_fn1(f)?, nat(k)?, bg(a)?),
        ("TryMapWith", [p, f, k, a]) => G::TryMapWith(parse_pred(p)?, parse_fn1(f)?, nat(k)?, bg(a)?),
        ("Validate", [p, k, a]) => G::Validate(parse_pred(p)?, nat(k)?, bg(a)?),
        ("Then", [a, b]) => G::Then(bg(a)?, bg(b)?),
        ("IgnoreThen", [a, b]) => G::IgnoreThen(bg(a)?, bg(b)?),
        ("ThenIgnore", [a, b]) => G::ThenIgnore(bg(a)?, bg(b)?),
        ("DelimitedBy", [a, l, r]) => G::DelimitedBy(bg(a)?, bg(l)?, bg(r)?),
        ("PaddedBy", [a, p]) => G::PaddedBy(bg(a)?, bg(p)?),
        ("Group", [l]) => G::Group(gs(l)?),
        ("Or", [a, b]) => G::Or(bg(a)?, bg(b)?),
        ("Choice", [l]) => G::Choice(gs(l)?),
        ("ChoiceVec", [l]) => G::ChoiceVec(gs(l)?),
        ("OrNot", [a]) => G::OrNot(bg(a)?),
        ("Not", [a]) => G::Not(bg(a)?),
        ("AndIs", [a, b]) => G::AndIs(bg(a)?, bg(b)?),
        ("Rewind", [a]) => G::Rewind(bg(a)?),
        ("RepUnit", [i]) => G::RepUnit(bit(i)?),
        ("Collect", [c, i]) => G::Collect(parse_ck(c)?, bit(i)?),
        ("CollectExactly", [n, i]) => G::CollectExactly(nat(n)?, bit(i)?),
        ("Foldl", [a, i, k]) => G::Foldl(bg(a)?, bit(i)?, nat(k)?),
        ("Foldr", [i, b, k]) => G::Foldr(bit(i)?, bg(b)?, nat(k)?),
        ("FoldlWith", [a, i, k]) => G::FoldlWith(bg(a)?, bit(i)?, nat(k)?),
        ("FoldrWith", [i, b, k]) => G::FoldrWith(bit(i)?, bg(b)?, nat(k)?),
        ("RecoverVia", [a, b]) => G::RecoverVia(bg(a)?, bg(b)?),
        ("RecoverSkipUntil", [a, s, u, fb]) => G::RecoverSkipUntil(bg(a)?, bg(s)?, bg(u)?, nat(fb)?),
        ("RecoverSkipRetry", [a, s, u]) => G::RecoverSkipRetry(bg(a)?, bg(s)?, bg(u)?),
        ("Labelled", [l, b, a]) => G::Labelled(nat(l)?, boolean(b)?, bg(a)?),
        ("MapErr", [k, a]) => G::MapErr(nat(k)?, bg(a)?),
        ("WithCtx", [v, a]) => G::WithCtx(parse_val(v)?, bg(a)?),
        ("IgnoreWithCtx", [a, b]) => G::IgnoreWithCtx(bg(a)?, bg(b)?),
        ("ThenWithCtx", [a, b]) => G::ThenWithCtx(bg(a)?, bg(b)?),
        ("MapCtx", [f, a]) => G::MapCtx(parse_fn1(f)?, bg(a)?),
        ("JustCfg", [ts]) => G::JustCfg(toks(ts)?),
        _ => return None,
    })
}

pub fn parse_it(s: &Sexp) -> R<IT> {
    Some(match ctor(s)? {
        ("IRep", [a, lo, hi]) => IT::IRep(parse_g(a)?, nat(lo)?, opt_nat(hi)?),
        ("ISep", [a, sep, lo, hi, lead, trail]) => IT::ISep(
            parse_g(a)?,
            parse_g(sep)?,
            nat(lo)?,
            opt_nat(hi)?,
            boolean(lead)?,
            boolean(trail)?,
        ),
        ("IEnum", [i]) => IT::IEnum(bit(i)?),
        ("IMap", [f, i]) => IT::IMap(parse_fn1(f)?, bit(i)?),
        ("IMapWith", [m, i]) => IT::IMapWith(parse_mw(m)?, bit(i)?),
        ("IOrNot", [a]) => IT::IOrNot(parse_g(a)?),
        ("IRepCfg", [a, lo, hi]) => IT::IRepCfg(parse_g(a)?, nat(lo)?, opt_nat(hi)?),
        _ => return None,
    })
}
