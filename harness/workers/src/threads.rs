//! `hw-threads`: the thread cases (FORMAT.md, version 3, property C13)
//!
//!     (T <id> <nthreads> <static-id> (<input> ...))        tokens are chars
//!
//! One of a fixed list of **statically typed** grammars (no `Boxed`: it is `Rc`-based) over `&str` with
//! `extra::Err<Rich<char>>` is shared as `Arc<dyn Parser<..> + Send + Sync>` between `<nthreads>` threads. Every
//! thread parses all inputs, thread `k` starting at input `k` (a different rotation of the list per thread), all
//! threads released together by a barrier, `ROUNDS` times over. The result line is
//!
//!     <id> T same <result_0> | <result_1> | ...
//!
//! where the results are those of a sequential run with a *fresh* parser and `same` says that every thread
//! obtained exactly these results every time; otherwise `DIFF[t<thread>,i<input>]` (the first differing
//! thread, and the first differing input of that thread) stands in place of `same`.
//! Outputs and errors are printed with `{:?}`: they are only compared for equality.
//!
//! The inputs are leaked `'static` strings, so that the trait-object type is nameable:
//! `Arc<dyn Parser<'static, &'static str, Out, extra::Err<Rich<'static, char>>> + Send + Sync>`.
//!
//! | static-id | grammar |
//! |-----------|---------|
//! | 0 | `json`: a JSON-ish value parser with `recursive` (null/true/false, integers, strings without escapes, arrays, objects). **Not shared**: `Recursive` is `Rc` + `Cell` inside, neither `Send` nor `Sync`, so the compiler refuses to put it behind `Arc<dyn Parser + Send + Sync>`; every thread builds its own instance and the threads run side by side |
//! | 1 | `arith`: an arithmetic Pratt parser over integers (`+ -` left 1, `* /` left 2, `^` right 3, prefix `-` 4, postfix `!` 5), evaluating with wrapping arithmetic |
//! | 2 | `list`: `[n, n, ...]` with `separated_by(',').allow_trailing()`; `validate` reports numbers above 255 and clamps them |
//! | 3 | `stmts`: a statement list `ident = int ;` with `recover_with(skip_until(any, ';', ..))` per statement |
//! | 4 | `lexer`: keywords (`text::ascii::keyword`), identifiers (`text::unicode::ident`), integers (`text::int`), punctuation, `padded`, each with its span |
//! | 5 | `memo`: alternatives `head x | head y | head z` over one `memoized` head shared by all three (an `Arc`, so the memo key -- the address of the memoized parser -- is the same in each alternative), separated by `,` |
//! | 6 | `json3`: the JSON-ish value parser without `recursive`: nesting is unrolled statically to depth 3; shared |

use std::fmt::Debug;
use std::panic::{catch_unwind, AssertUnwindSafe};
use std::sync::{Arc, Barrier};

use chumsky::pratt::{infix, left, postfix, prefix, right};
use chumsky::prelude::*;
use chumsky::text;

use hcore::ast::{self, LineKind, TCase};
use hcore::sexp;
use hcore::worker::{panic_class, serve_lines};

/// How often every thread goes through the inputs.
const ROUNDS: usize = 8;
const MAX_THREADS: usize = 64;

type X<'a> = extra::Err<Rich<'a, char>>;
type Shared<O> = Arc<dyn Parser<'static, &'static str, O, X<'static>> + Send + Sync>;

// ---------- the grammars ----------

#[derive(Debug, Clone, PartialEq)]
#[allow(dead_code)] // the fields are only printed
enum Json {
    Null,
    Bool(bool),
    Num(i64),
    Str(String),
    Arr(Vec<Json>),
    Obj(Vec<(String, Json)>),
}

fn json_string<'a>() -> impl Parser<'a, &'a str, String, X<'a>> + Clone + Send + Sync {
    none_of("\"\\")
        .repeated()
        .to_slice()
        .delimited_by(just('"'), just('"'))
        .map(|s: &str| s.to_string())
}

fn json_scalar<'a>() -> impl Parser<'a, &'a str, Json, X<'a>> + Clone + Send + Sync {
    let num = just('-')
        .or_not()
        .then(text::int(10))
        .to_slice()
        .map(|s: &str| Json::Num(s.parse().unwrap_or(i64::MAX)));
    choice((
        text::ascii::keyword("null").to(Json::Null),
        text::ascii::keyword("true").to(Json::Bool(true)),
        text::ascii::keyword("false").to(Json::Bool(false)),
        num,
        json_string().map(Json::Str),
    ))
}

/// A value whose arrays and objects contain `inner` values.
fn json_over<'a, V>(inner: V) -> impl Parser<'a, &'a str, Json, X<'a>> + Clone
where
    V: Parser<'a, &'a str, Json, X<'a>> + Clone + 'a,
{
    let arr = inner
        .clone()
        .separated_by(just(',').padded())
        .allow_trailing()
        .collect::<Vec<_>>()
        .delimited_by(just('[').padded(), just(']'))
        .map(Json::Arr);
    let member = json_string().then_ignore(just(':').padded()).then(inner);
    let obj = member
        .separated_by(just(',').padded())
        .collect::<Vec<_>>()
        .delimited_by(just('{').padded(), just('}'))
        .map(Json::Obj);
    choice((json_scalar(), arr, obj)).padded()
}

/// 0: with `recursive` (not `Send`/`Sync`)
fn json<'a>() -> impl Parser<'a, &'a str, Json, X<'a>> {
    recursive(|value| json_over(value))
}

/// 6: nesting unrolled to depth 3
fn json3<'a>() -> impl Parser<'a, &'a str, Json, X<'a>> + Send + Sync {
    fn level<'a, V>(inner: V) -> impl Parser<'a, &'a str, Json, X<'a>> + Clone + Send + Sync
    where
        V: Parser<'a, &'a str, Json, X<'a>> + Clone + Send + Sync + 'a,
    {
        json_over(inner)
    }
    level(level(level(json_scalar().padded())))
}

/// 1
fn arith<'a>() -> impl Parser<'a, &'a str, i64, X<'a>> + Send + Sync {
    let atom = text::int(10).map(|s: &str| s.parse::<i64>().unwrap_or(i64::MAX)).padded();
    let op = |c: char| just(c).padded();
    atom.pratt((
        infix(left(1), op('+'), |l: i64, _, r: i64, _| l.wrapping_add(r)),
        infix(left(1), op('-'), |l: i64, _, r: i64, _| l.wrapping_sub(r)),
        infix(left(2), op('*'), |l: i64, _, r: i64, _| l.wrapping_mul(r)),
        infix(left(2), op('/'), |l: i64, _, r: i64, _| l.checked_div(r).unwrap_or(0)),
        infix(right(3), op('^'), |l: i64, _, r: i64, _| l.wrapping_pow((r & 7) as u32)),
        prefix(4, op('-'), |_, r: i64, _| r.wrapping_neg()),
        postfix(5, op('!'), |l: i64, _, _| (1..=l.clamp(0, 12)).product::<i64>()),
    ))
}

/// 2
fn list<'a>() -> impl Parser<'a, &'a str, Vec<u32>, X<'a>> + Send + Sync {
    text::int(10)
        .padded()
        .validate(|s: &str, e, em| {
            let n = s.parse::<u64>().unwrap_or(u64::MAX);
            if n > 255 {
                em.emit(Rich::custom(e.span(), format!("{n} is out of range")));
                255
            } else {
                n as u32
            }
        })
        .separated_by(just(','))
        .allow_trailing()
        .collect::<Vec<u32>>()
        .delimited_by(just('['), just(']'))
        .padded()
}

#[derive(Debug, Clone, PartialEq)]
#[allow(dead_code)]
enum Stmt<'a> {
    Let(&'a str, i64),
    Error,
}

/// 3
fn stmts<'a>() -> impl Parser<'a, &'a str, Vec<Stmt<'a>>, X<'a>> + Send + Sync {
    text::ascii::ident()
        .padded()
        .then_ignore(just('=').padded())
        .then(text::int(10).padded())
        .then_ignore(just(';'))
        .map(|(name, n): (&str, &str)| Stmt::Let(name, n.parse().unwrap_or(i64::MAX)))
        .recover_with(skip_until(any().ignored(), just(';').ignored(), || Stmt::Error))
        .padded()
        .repeated()
        .collect::<Vec<_>>()
}

#[derive(Debug, Clone, PartialEq)]
#[allow(dead_code)]
enum Tok<'a> {
    Kw(&'a str),
    Ident(&'a str),
    Int(&'a str),
    Punct(char),
}

/// 4
fn lexer<'a>() -> impl Parser<'a, &'a str, Vec<(Tok<'a>, SimpleSpan)>, X<'a>> + Send + Sync {
    let kw = choice((
        text::ascii::keyword("let"),
        text::ascii::keyword("fn"),
        text::ascii::keyword("if"),
        text::ascii::keyword("else"),
    ))
    .map(Tok::Kw);
    let ident = text::unicode::ident().map(Tok::Ident);
    let int = text::int(10).map(Tok::Int);
    let punct = one_of("=+-*/;,(){}<>").map(Tok::Punct);
    choice((kw, ident, int, punct))
        .map_with(|t, e| (t, e.span()))
        .padded()
        .repeated()
        .collect::<Vec<_>>()
}

/// 5
fn memo<'a>() -> impl Parser<'a, &'a str, Vec<(&'a str, char)>, X<'a>> + Send + Sync {
    // one memoized head behind an `Arc`: the clones in the three alternatives are the same parser at the same
    // address, which is what `memoized` keys its table on
    let head = Arc::new(text::ascii::ident().then_ignore(just('(')).memoized());
    choice((
        head.clone().then(just('x')),
        head.clone().then(just('y')),
        head.then(just('z')),
    ))
    .then_ignore(just(')'))
    .padded()
    .separated_by(just(','))
    .collect::<Vec<_>>()
}

// ---------- running ----------

/// One parse, printed: `OK <output> E[<err>;...]` / `FAIL E[...]` / `PANIC <class>`.
fn one<O, P>(p: &P, input: &'static str) -> String
where
    O: Debug,
    P: Parser<'static, &'static str, O, X<'static>> + ?Sized,
{
    let res = catch_unwind(AssertUnwindSafe(|| {
        let (out, errs) = p.parse(input).into_output_errors();
        let mut s = match out {
            Some(o) => format!("OK {o:?} E["),
            None => "FAIL E[".to_string(),
        };
        for (i, e) in errs.iter().enumerate() {
            if i > 0 {
                s.push(';');
            }
            s.push_str(&format!("{e:?}"));
        }
        s.push(']');
        s
    }));
    match res {
        Ok(s) => s,
        Err(payload) => format!("PANIC {}", panic_class(&*payload)),
    }
}

/// What a thread reports: the first input on which it did not get the sequential result.
type Diff = Option<usize>;

/// Thread `k`: all inputs, starting at input `k`, `ROUNDS` times.
fn thread_body<O, P>(p: &P, k: usize, inputs: &[&'static str], expected: &[String]) -> Diff
where
    O: Debug,
    P: Parser<'static, &'static str, O, X<'static>> + ?Sized,
{
    let n = inputs.len();
    for _ in 0..ROUNDS {
        for j in 0..n {
            let i = (k + j) % n;
            if one(p, inputs[i]) != expected[i] {
                return Some(i);
            }
        }
    }
    None
}

fn verdict(expected: Vec<String>, diffs: Vec<Diff>) -> String {
    let mut out = String::from("T ");
    match diffs.iter().enumerate().find_map(|(k, d)| d.map(|i| (k, i))) {
        None => out.push_str("same"),
        Some((k, i)) => out.push_str(&format!("DIFF[t{k},i{i}]")),
    }
    for (i, r) in expected.iter().enumerate() {
        out.push_str(if i == 0 { " " } else { " | " });
        out.push_str(r);
    }
    out
}

fn in_threads(nthreads: usize, body: impl Fn(usize, &Barrier) -> Diff + Sync) -> Vec<Diff> {
    let barrier = Barrier::new(nthreads);
    std::thread::scope(|s| {
        let handles: Vec<_> = (0..nthreads)
            .map(|k| {
                let (body, barrier) = (&body, &barrier);
                s.spawn(move || body(k, barrier))
            })
            .collect();
        // a thread that died outside `one` (it cannot, short of a panic while printing) differs everywhere
        handles.into_iter().map(|h| h.join().unwrap_or(Some(0))).collect()
    })
}

/// One parser shared by all threads.
fn run_shared<O: Debug + 'static>(make: fn() -> Shared<O>, nthreads: usize, inputs: &[&'static str]) -> String {
    let expected: Vec<String> = {
        let fresh = make();
        inputs.iter().map(|i| one(&*fresh, i)).collect()
    };
    let shared = make();
    let diffs = in_threads(nthreads, |k, barrier| {
        let mine = shared.clone();
        barrier.wait();
        thread_body(&*mine, k, inputs, &expected)
    });
    verdict(expected, diffs)
}

/// A parser that is neither `Send` nor `Sync`: one instance per thread.
fn run_confined<O, P>(make: fn() -> P, nthreads: usize, inputs: &[&'static str]) -> String
where
    O: Debug,
    P: Parser<'static, &'static str, O, X<'static>>,
{
    let expected: Vec<String> = {
        let fresh = make();
        inputs.iter().map(|i| one(&fresh, i)).collect()
    };
    let diffs = in_threads(nthreads, |k, barrier| {
        let mine = make();
        barrier.wait();
        thread_body(&mine, k, inputs, &expected)
    });
    verdict(expected, diffs)
}

fn run(case: &TCase) -> Option<String> {
    if case.nthreads == 0 || case.nthreads > MAX_THREADS {
        return None;
    }
    let inputs: Vec<&'static str> = case
        .inputs
        .iter()
        .map(|ts| {
            let s: String = ts.iter().map(|&n| char::from_u32(n).expect("validated by ast::parse_tcase")).collect();
            &*Box::leak(s.into_boxed_str())
        })
        .collect();
    let n = case.nthreads;
    Some(match case.static_id {
        0 => run_confined(json::<'static>, n, &inputs),
        1 => run_shared(|| Arc::new(arith()), n, &inputs),
        2 => run_shared(|| Arc::new(list()), n, &inputs),
        3 => run_shared(|| Arc::new(stmts()), n, &inputs),
        4 => run_shared(|| Arc::new(lexer()), n, &inputs),
        5 => run_shared(|| Arc::new(memo()), n, &inputs),
        6 => run_shared(|| Arc::new(json3()), n, &inputs),
        _ => return None,
    })
}

fn run_line(line: &str, why: bool) -> Option<(u64, String)> {
    let sexp = match sexp::parse_line(line) {
        Some(s) => s,
        None => return sexp::salvage_id(line).map(|id| (id, "UNSUPPORTED".to_string())),
    };
    let id = ast::case_id(&sexp)?;
    let unsupported = |reason: &str| {
        if why {
            eprintln!("{id}: {reason}");
        }
        Some((id, "UNSUPPORTED".to_string()))
    };
    if ast::line_kind(&sexp) != LineKind::Threads {
        return unsupported("hw-threads serves thread cases only");
    }
    let Some(case) = ast::parse_tcase(&sexp) else {
        return unsupported("malformed thread case");
    };
    match catch_unwind(AssertUnwindSafe(|| run(&case))) {
        Ok(Some(result)) => Some((id, result)),
        Ok(None) => unsupported("unknown static grammar, or thread count outside 1..=64"),
        Err(payload) => Some((id, format!("PANIC {}", panic_class(&*payload)))),
    }
}

pub fn main() {
    serve_lines(run_line);
}
