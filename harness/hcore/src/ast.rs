//! Grammar AST (`G`, `IT` of /verif/coq/Model/Syntax.v), the case record, and parsing from s-expressions.
//!
//! Constructor names and argument order are exactly those of Syntax.v / FORMAT.md.

use crate::sexp::Sexp;
use crate::val::{Fn1, Mw, Pos, Pred, Val};

#[derive(Clone, Copy, Debug, PartialEq)]
pub enum CKind {
    Vec,
    Count,
    Unit,
}

#[derive(Clone, Debug, PartialEq)]
pub enum G {
    // primitives
    End,
    Empty,
    Any,
    Just(Vec<u32>),
    OneOf(Vec<u32>),
    NoneOf(Vec<u32>),
    Select(Pred, Fn1),
    Custom(Vec<u32>, usize),
    // output shaping
    Map(Fn1, Box<G>),
    MapWith(Mw, Box<G>),
    To(usize, Box<G>),
    Ignored(Box<G>),
    ToSpan(Box<G>),
    ToSlice(Box<G>),
    Filter(Pred, Box<G>),
    TryMap(Pred, Fn1, usize, Box<G>),
    TryMapWith(Pred, Fn1, usize, Box<G>),
    Validate(Pred, usize, Box<G>),
    // sequencing
    Then(Box<G>, Box<G>),
    IgnoreThen(Box<G>, Box<G>),
    ThenIgnore(Box<G>, Box<G>),
    DelimitedBy(Box<G>, Box<G>, Box<G>),
    PaddedBy(Box<G>, Box<G>),
    Group(Vec<G>),
    /// version 3: `group([g1, .., gn])`, the array form
    GroupArr(Vec<G>),
    // choice / option / lookahead
    Or(Box<G>, Box<G>),
    Choice(Vec<G>),
    ChoiceVec(Vec<G>),
    OrNot(Box<G>),
    Not(Box<G>),
    AndIs(Box<G>, Box<G>),
    Rewind(Box<G>),
    // iteration
    RepUnit(Box<IT>),
    Collect(CKind, Box<IT>),
    CollectExactly(usize, Box<IT>),
    Foldl(Box<G>, Box<IT>, usize),
    Foldr(Box<IT>, Box<G>, usize),
    FoldlWith(Box<G>, Box<IT>, usize),
    FoldrWith(Box<IT>, Box<G>, usize),
    // recovery
    RecoverVia(Box<G>, Box<G>),
    RecoverSkipUntil(Box<G>, Box<G>, Box<G>, usize),
    RecoverSkipRetry(Box<G>, Box<G>, Box<G>),
    // error decoration
    Labelled(usize, bool, Box<G>),
    MapErr(usize, Box<G>),
    // context
    WithCtx(Val, Box<G>),
    IgnoreWithCtx(Box<G>, Box<G>),
    ThenWithCtx(Box<G>, Box<G>),
    MapCtx(Fn1, Box<G>),
    JustCfg(Vec<u32>),
    // version 2: memoization, recursion, pratt
    Memo(usize, Box<G>),
    Rec(Box<G>),
    RecDecl(Box<G>),
    Var(usize),
    Boxed(Box<G>),
    Pratt(PForm, Box<G>, Vec<POp>),
    // version 3: token trees
    NestedIn(Box<G>),
    /// `(NestedVia a)`: `a.nested_in(never.or(group))`: the compound `b` of FORMAT.md
    NestedVia(Box<G>),
    /// `(ExtWrap a)`: `Ext(W(a))` with `ExtParser::parse = inp.parse(&a)` and `ExtParser::check = inp.check(&a)`
    ExtWrap(Box<G>),
    /// `(Skip n)`: `custom(|inp| { n times inp.skip(); Ok(()) })`
    Skip(usize),
    /// `(Lazy a)`: `a.lazy()`
    Lazy(Box<G>),
    /// `(WithState k a)`: `a.with_state(HState { h: k })`
    WithState(u64, Box<G>),
    /// `(NestedDelims s e ((s1 e1) ..))`: `recovery::nested_delimiters`
    NestedDelims(u32, u32, Vec<(u32, u32)>),
    /// `AnyRef` / `(SelectRef p f)`: `any_ref()` / `select_ref!`-style `select_ref(..)`: the by-reference primitives (`BorrowInput::next_ref`);
    /// the model treats them as `Any` / `Select`
    AnyRef,
    SelectRef(Pred, Fn1),
    /// `(Prog (op ..) k)`: `custom(|inp| ..)` running a straight-line program over `InputRef`'s public API
    Prog(Vec<Cop>, usize),
    /// `(Padded ws a)`: `a.padded()`; `ws` = the whitespace characters of the alphabet in use (checked against `char::is_whitespace`)
    Padded(Vec<u32>, Box<G>),
}

/// One instruction of a `(Prog ops k)` custom parser (coq/Model/Syntax.v `cop`).
#[derive(Clone, Debug, PartialEq)]
pub enum Cop {
    Next,
    NextRef,
    Peek,
    Skip,
    Save,
    Rewind,
    Expect(u32),
    Span,
    State,
}

#[derive(Clone, Copy, Debug, PartialEq)]
pub enum PForm {
    Vec,
    Tuple,
}

#[derive(Clone, Debug, PartialEq)]
pub enum POp {
    /// `(PInfix r bp g k)`: right-associative when `r`
    Infix(bool, u16, G, usize),
    Prefix(u16, G, usize),
    Postfix(u16, G, usize),
}

#[derive(Clone, Debug, PartialEq)]
pub enum IT {
    IRep(G, usize, Option<usize>),
    ISep(G, G, usize, Option<usize>, bool, bool),
    IEnum(Box<IT>),
    IMap(Fn1, Box<IT>),
    IMapWith(Mw, Box<IT>),
    IOrNot(G),
    /// last field: which bounds the configuring closure sets from `n = val_count(ctx)`:
    /// 0 = exactly(n), 1 = at_least(n), 2 = at_most(n), 3 = none (config returned unchanged)
    IRepCfg(G, usize, Option<usize>, usize),
    /// `(IIntoIter a)`: `a.map(val_items).into_iter()`
    IIntoIter(G),
    /// `(IThen i j)`: `i.then(j)` used as an iterable (both halves out of `IRep | ISep | IOrNot`)
    IThen(Box<IT>, Box<IT>),
}

#[derive(Clone, Copy, Debug, PartialEq, Eq, Hash)]
pub enum IKind {
    Str,
    Slice,
    Array,
    Stream,
    BStream,
    Mapped,
    MappedStream,
    Iter,
    MapSpan,
    WithCtx,
    Bytes,
    Io,
    Tree,
    /// version 4: `&chumsky::text::Graphemes`
    Graphemes,
    /// version 4: `&[&Grapheme]`
    GSlice,
}

impl IKind {
    pub const ALL: [IKind; 15] = [
        IKind::Str,
        IKind::Slice,
        IKind::Array,
        IKind::Stream,
        IKind::BStream,
        IKind::Mapped,
        IKind::MappedStream,
        IKind::Iter,
        IKind::MapSpan,
        IKind::WithCtx,
        IKind::Bytes,
        IKind::Io,
        IKind::Tree,
        IKind::Graphemes,
        IKind::GSlice,
    ];

    pub fn name(self) -> &'static str {
        match self {
            IKind::Str => "str",
            IKind::Slice => "slice",
            IKind::Array => "array",
            IKind::Stream => "stream",
            IKind::BStream => "bstream",
            IKind::Mapped => "mapped",
            IKind::MappedStream => "mappedstream",
            IKind::Iter => "iter",
            IKind::MapSpan => "mapspan",
            IKind::WithCtx => "withctx",
            IKind::Bytes => "bytes",
            IKind::Io => "io",
            IKind::Tree => "tree",
            IKind::Graphemes => "graphemes",
            IKind::GSlice => "gslice",
        }
    }

    pub fn from_name(s: &str) -> Option<IKind> {
        IKind::ALL.iter().copied().find(|k| k.name() == s)
    }

    /// Tokens are `u8` (else `char`).
    pub fn byte_tokens(self) -> bool {
        matches!(self, IKind::Bytes | IKind::Io)
    }

    /// Tokens are grapheme clusters, written as cluster ids (FORMAT.md, version 4).
    pub fn grapheme_tokens(self) -> bool {
        matches!(self, IKind::Graphemes | IKind::GSlice)
    }

    /// The input is written `((t s e) ...)`: every token carries its own span.
    pub fn spanned_input(self) -> bool {
        matches!(self, IKind::Mapped | IKind::MappedStream | IKind::Iter)
    }
}

#[derive(Clone, Copy, Debug, PartialEq, Eq, Hash)]
pub enum EKind {
    Empty,
    Cheap,
    Simple,
    Rich,
}

impl EKind {
    pub const ALL: [EKind; 4] = [EKind::Empty, EKind::Cheap, EKind::Simple, EKind::Rich];

    pub fn name(self) -> &'static str {
        match self {
            EKind::Empty => "empty",
            EKind::Cheap => "cheap",
            EKind::Simple => "simple",
            EKind::Rich => "rich",
        }
    }

    pub fn from_name(s: &str) -> Option<EKind> {
        EKind::ALL.iter().copied().find(|k| k.name() == s)
    }
}

#[derive(Clone, Copy, Debug, PartialEq)]
pub enum Mode {
    Parse,
    Check,
}

#[derive(Clone, Debug)]
pub struct Case {
    pub id: u64,
    pub ikind: IKind,
    pub ekind: EKind,
    pub mode: Mode,
    pub grammar: G,
    /// the tokens (as numbers, valid for the token type of `ikind`)
    pub input: Vec<u32>,
    /// `s..e` of every token, for the kinds with `IKind::spanned_input` (else empty)
    pub spans: Vec<(usize, usize)>,
    /// the token trees of the `tree` kind (else empty; `input`/`spans` then hold the top-level tokens)
    pub tree: Vec<STree>,
}

/// A token of the `tree` kind as written in the case file.
#[derive(Clone, Debug, PartialEq)]
pub enum TTree {
    Leaf(u32),
    /// `(G <id> (<tt> ...))`, id >= `GROUP_ID_MIN`
    Group(u32, Vec<STree>),
}

/// `(<token> <s> <e>)`
pub type STree = (TTree, usize, usize);

/// Group ids of the `tree` kind start here (above every `char`).
pub const GROUP_ID_MIN: u32 = 2_000_000;

/// Cluster ids of the grapheme kinds: an id below `0x110000` is the cluster made of that single code point,
/// `CLUSTER_ID_MIN + k` is entry `k` of `CLUSTERS` (FORMAT.md, version 4).
pub const CLUSTER_ID_MIN: u32 = 3_000_000;

/// The fixed table of multi-code-point clusters.
pub const CLUSTERS: [&str; 8] = [
    "\r\n",
    "e\u{301}",
    "\u{1F1E9}\u{1F1EA}",
    "\u{1F468}\u{200D}\u{1F469}\u{200D}\u{1F467}",
    "\u{1100}\u{1161}\u{11A8}",
    "a\u{308}\u{323}",
    // clusters that exist only under the EXTENDED rules (a legacy segmentation splits them): base + spacing mark, prepend + base
    "\u{0928}\u{093F}",
    "\u{0600}1",
];

/// What a cluster prints as when it is neither a single code point nor in `CLUSTERS`.
pub const CLUSTER_ID_UNKNOWN: u32 = 3_999_999;

/// The wrappers of a history case.
#[derive(Clone, Copy, Debug, PartialEq, Eq)]
pub enum Wrapper {
    Value,
    Clone,
    Ref,
    Box,
    Rc,
    Boxed,
    Either,
    Cache,
}

impl Wrapper {
    pub fn from_name(s: &str) -> Option<Wrapper> {
        Some(match s {
            "value" => Wrapper::Value,
            "clone" => Wrapper::Clone,
            "ref" => Wrapper::Ref,
            "box" => Wrapper::Box,
            "rc" => Wrapper::Rc,
            "boxed" => Wrapper::Boxed,
            "either" => Wrapper::Either,
            "cache" => Wrapper::Cache,
            _ => return None,
        })
    }
}

/// `(H <id> <ikind> <ekind> <wrapper> <grammar> (<input> ...))`
#[derive(Clone, Debug)]
pub struct HCase {
    pub id: u64,
    pub ikind: IKind,
    pub ekind: EKind,
    pub wrapper: Wrapper,
    pub grammar: G,
    pub inputs: Vec<Vec<u32>>,
}

/// `(T <id> <nthreads> <static-id> (<input> ...))`; tokens are chars
#[derive(Clone, Debug)]
pub struct TCase {
    pub id: u64,
    pub nthreads: usize,
    pub static_id: usize,
    pub inputs: Vec<Vec<u32>>,
}

/// What kind of line an s-expression is.
#[derive(Clone, Copy, Debug, PartialEq, Eq)]
pub enum LineKind {
    Plain,
    History,
    Threads,
}

pub fn line_kind(s: &Sexp) -> LineKind {
    match s.list().and_then(|l| l.first()).and_then(|h| h.atom()) {
        Some("H") => LineKind::History,
        Some("T") => LineKind::Threads,
        _ => LineKind::Plain,
    }
}

// ---------- parsing ----------

type R<T> = Option<T>;

/// Which numbers are tokens: Unicode scalar values (`char` kinds), `0..=255` (`u8` kinds), chars and group ids
/// (`tree`), cluster ids (`graphemes`, `gslice`).
#[derive(Clone, Copy, Debug, PartialEq)]
pub enum Tk {
    Char,
    Byte,
    /// `tree`: a char (leaf) or a group id
    Tree,
    /// `graphemes`, `gslice`: a cluster id (a char, or `CLUSTER_ID_MIN + k` for entry `k` of `CLUSTERS`)
    Cluster,
}

impl Tk {
    fn ok(self, n: u32) -> bool {
        match self {
            Tk::Char => char::from_u32(n).is_some(),
            Tk::Byte => n < 256,
            Tk::Tree => char::from_u32(n).is_some() || n >= GROUP_ID_MIN,
            Tk::Cluster => {
                char::from_u32(n).is_some() || (CLUSTER_ID_MIN..CLUSTER_ID_MIN + CLUSTERS.len() as u32).contains(&n)
            }
        }
    }
}

/// The id of a syntactically well-formed line, even if the rest of the case is not understood.
pub fn case_id(s: &Sexp) -> R<u64> {
    match line_kind(s) {
        LineKind::Plain => s.list()?.first()?.nat(),
        LineKind::History | LineKind::Threads => s.list()?.get(1)?.nat(),
    }
}

/// `(<ikind>, <ekind>)` of a history line (for routing), when both are known names.
pub fn hcase_kinds(s: &Sexp) -> R<(IKind, EKind)> {
    let l = s.list()?;
    if l.len() != 7 {
        return None;
    }
    Some((IKind::from_name(l[2].atom()?)?, EKind::from_name(l[3].atom()?)?))
}

pub fn parse_hcase(s: &Sexp) -> R<HCase> {
    let l = s.list()?;
    if l.len() != 7 || l[0].atom()? != "H" {
        return None;
    }
    let id = l[1].nat()?;
    let ikind = IKind::from_name(l[2].atom()?)?;
    let ekind = EKind::from_name(l[3].atom()?)?;
    let wrapper = Wrapper::from_name(l[4].atom()?)?;
    let tk = if ikind.byte_tokens() { Tk::Byte } else { Tk::Char };
    let grammar = parse_g(tk, &l[5])?;
    let inputs = l[6].list()?.iter().map(|i| toks(tk, i)).collect::<R<Vec<_>>>()?;
    Some(HCase { id, ikind, ekind, wrapper, grammar, inputs })
}

pub fn parse_tcase(s: &Sexp) -> R<TCase> {
    let l = s.list()?;
    if l.len() != 5 || l[0].atom()? != "T" {
        return None;
    }
    let id = l[1].nat()?;
    let nthreads = nat(&l[2])?;
    let static_id = nat(&l[3])?;
    let inputs = l[4].list()?.iter().map(|i| toks(Tk::Char, i)).collect::<R<Vec<_>>>()?;
    Some(TCase { id, nthreads, static_id, inputs })
}

/// `(<ikind>, <ekind>)` of a case line (for routing), when both are known names.
pub fn case_kinds(s: &Sexp) -> R<(IKind, EKind)> {
    let l = s.list()?;
    if l.len() != 6 {
        return None;
    }
    Some((IKind::from_name(l[1].atom()?)?, EKind::from_name(l[2].atom()?)?))
}

pub fn parse_case(s: &Sexp) -> R<Case> {
    let l = s.list()?;
    if l.len() != 6 {
        return None;
    }
    let id = l[0].nat()?;
    let ikind = IKind::from_name(l[1].atom()?)?;
    let ekind = EKind::from_name(l[2].atom()?)?;
    let mode = match l[3].atom()? {
        "parse" => Mode::Parse,
        "check" => Mode::Check,
        _ => return None,
    };
    let tk = if ikind.byte_tokens() {
        Tk::Byte
    } else if ikind == IKind::Tree {
        Tk::Tree
    } else if ikind.grapheme_tokens() {
        Tk::Cluster
    } else {
        Tk::Char
    };
    let grammar = parse_g(tk, &l[4])?;
    let mut tree = Vec::new();
    let (input, spans) = if ikind == IKind::Tree {
        tree = strees(&l[5])?;
        let input = tree
            .iter()
            .map(|(t, _, _)| match t {
                TTree::Leaf(c) => *c,
                TTree::Group(id, _) => *id,
            })
            .collect();
        (input, tree.iter().map(|&(_, s, e)| (s, e)).collect())
    } else if ikind.spanned_input() {
        let mut input = Vec::new();
        let mut spans = Vec::new();
        for item in l[5].list()? {
            match item.list()? {
                [t, s, e] => {
                    input.push(tok(tk, t)?);
                    spans.push((nat(s)?, nat(e)?));
                }
                _ => return None,
            }
        }
        (input, spans)
    } else {
        (toks(tk, &l[5])?, Vec::new())
    };
    Some(Case { id, ikind, ekind, mode, grammar, input, spans, tree })
}

/// `(<tt> ...)` with `<tt>` := `(<t> <s> <e>)` | `((G <id> (<tt> ...)) <s> <e>)`
fn strees(s: &Sexp) -> R<Vec<STree>> {
    s.list()?.iter().map(stree).collect()
}

fn stree(s: &Sexp) -> R<STree> {
    match s.list()? {
        [t, st, en] => {
            let t = match t {
                Sexp::Atom(_) => TTree::Leaf(tok(Tk::Char, t)?),
                Sexp::List(g) => match g.as_slice() {
                    [h, id, children] if h.atom() == Some("G") => {
                        let id = u32::try_from(id.nat()?).ok()?;
                        if id < GROUP_ID_MIN {
                            return None;
                        }
                        TTree::Group(id, strees(children)?)
                    }
                    _ => return None,
                },
            };
            Some((t, nat(st)?, nat(en)?))
        }
        _ => None,
    }
}

fn nat(s: &Sexp) -> R<usize> {
    usize::try_from(s.nat()?).ok()
}

fn nat16(s: &Sexp) -> R<u16> {
    u16::try_from(s.nat()?).ok()
}

fn boolean(s: &Sexp) -> R<bool> {
    match s.atom()? {
        "0" => Some(false),
        "1" => Some(true),
        _ => None,
    }
}

fn opt_nat(s: &Sexp) -> R<Option<usize>> {
    if s.atom()? == "inf" {
        Some(None)
    } else {
        nat(s).map(Some)
    }
}

/// A token: a decimal number that is a token of the kind's token type.
fn tok(tk: Tk, s: &Sexp) -> R<u32> {
    let n = u32::try_from(s.nat()?).ok()?;
    if tk.ok(n) {
        Some(n)
    } else {
        None
    }
}

fn toks(tk: Tk, s: &Sexp) -> R<Vec<u32>> {
    s.list()?.iter().map(|t| tok(tk, t)).collect()
}

/// Split `Ctor` or `(Ctor args...)` into the constructor name and its arguments.
fn ctor(s: &Sexp) -> R<(&str, &[Sexp])> {
    match s {
        Sexp::Atom(a) => Some((a.as_str(), &[])),
        Sexp::List(l) => {
            let (h, rest) = l.split_first()?;
            Some((h.atom()?, rest))
        }
    }
}

fn parse_fn1(s: &Sexp) -> R<Fn1> {
    Some(match ctor(s)? {
        ("FId", []) => Fn1::Id,
        ("FTag", [k]) => Fn1::Tag(nat(k)?),
        ("FConst", [n]) => Fn1::Const(nat(n)?),
        ("FFst", []) => Fn1::Fst,
        ("FSnd", []) => Fn1::Snd,
        ("FDup", []) => Fn1::Dup,
        ("FNew", []) => Fn1::New,
        _ => return None,
    })
}

fn parse_pred(tk: Tk, s: &Sexp) -> R<Pred> {
    Some(match ctor(s)? {
        ("PTrue", []) => Pred::True,
        ("PFalse", []) => Pred::False,
        ("PTokIn", [ts]) => Pred::TokIn(toks(tk, ts)?),
        ("PTokNotIn", [ts]) => Pred::TokNotIn(toks(tk, ts)?),
        _ => return None,
    })
}

fn parse_mw(s: &Sexp) -> R<Mw> {
    Some(match ctor(s)? {
        ("MWSpan", []) => Mw::Span,
        ("MWState", []) => Mw::State,
        ("MWCtx", []) => Mw::Ctx,
        ("MWAll", []) => Mw::All,
        ("MWSlice", []) => Mw::Slice,
        _ => return None,
    })
}

fn parse_ck(s: &Sexp) -> R<CKind> {
    Some(match ctor(s)? {
        ("CVec", []) => CKind::Vec,
        ("CCount", []) => CKind::Count,
        ("CUnit", []) => CKind::Unit,
        _ => return None,
    })
}

pub fn parse_val(tk: Tk, s: &Sexp) -> R<Val> {
    Some(match ctor(s)? {
        ("VUnit", []) => Val::Unit,
        ("VTok", [t]) => Val::Tok(tok(tk, t)?),
        ("VNat", [n]) => Val::Nat(nat(n)?),
        ("VPair", [a, b]) => Val::pair(parse_val(tk, a)?, parse_val(tk, b)?),
        ("VList", [l]) => Val::List(l.list()?.iter().map(|v| parse_val(tk, v)).collect::<R<_>>()?),
        ("VOpt", [o]) => {
            if o.atom() == Some("none") {
                Val::Opt(None)
            } else {
                Val::opt(Some(parse_val(tk, o)?))
            }
        }
        ("VSpan", [a, b]) => Val::Span(Pos::Ix(nat(a)?), Pos::Ix(nat(b)?)),
        ("VSlice", [a, b]) => Val::Slice(Pos::Ix(nat(a)?), Pos::Ix(nat(b)?)),
        ("VTag", [k, v]) => Val::tag(nat(k)?, parse_val(tk, v)?),
        _ => return None,
    })
}

fn gs(tk: Tk, s: &Sexp) -> R<Vec<G>> {
    s.list()?.iter().map(|g| parse_g(tk, g)).collect()
}

fn parse_pop(tk: Tk, s: &Sexp) -> R<POp> {
    Some(match ctor(s)? {
        ("PInfix", [r, bp, g, k]) => POp::Infix(boolean(r)?, nat16(bp)?, parse_g(tk, g)?, nat(k)?),
        ("PPrefix", [bp, g, k]) => POp::Prefix(nat16(bp)?, parse_g(tk, g)?, nat(k)?),
        ("PPostfix", [bp, g, k]) => POp::Postfix(nat16(bp)?, parse_g(tk, g)?, nat(k)?),
        _ => return None,
    })
}

pub fn parse_g(tk: Tk, s: &Sexp) -> R<G> {
    let bg = |s: &Sexp| parse_g(tk, s).map(Box::new);
    let bit = |s: &Sexp| parse_it(tk, s).map(Box::new);
    Some(match ctor(s)? {
        ("End", []) => G::End,
        ("Empty", []) => G::Empty,
        ("Any", []) => G::Any,
        ("AnyRef", []) => G::AnyRef,
        ("Just", [ts]) => G::Just(toks(tk, ts)?),
        ("OneOf", [ts]) => G::OneOf(toks(tk, ts)?),
        ("NoneOf", [ts]) => G::NoneOf(toks(tk, ts)?),
        ("Select", [p, f]) => G::Select(parse_pred(tk, p)?, parse_fn1(f)?),
        ("SelectRef", [p, f]) => G::SelectRef(parse_pred(tk, p)?, parse_fn1(f)?),
        ("Custom", [ts, k]) => G::Custom(toks(tk, ts)?, nat(k)?),
        ("Map", [f, a]) => G::Map(parse_fn1(f)?, bg(a)?),
        ("MapWith", [m, a]) => G::MapWith(parse_mw(m)?, bg(a)?),
        ("To", [n, a]) => G::To(nat(n)?, bg(a)?),
        ("Ignored", [a]) => G::Ignored(bg(a)?),
        ("ToSpan", [a]) => G::ToSpan(bg(a)?),
        ("ToSlice", [a]) => G::ToSlice(bg(a)?),
        ("Filter", [p, a]) => G::Filter(parse_pred(tk, p)?, bg(a)?),
        ("TryMap", [p, f, k, a]) => G::TryMap(parse_pred(tk, p)?, parse_fn1(f)?, nat(k)?, bg(a)?),
        ("TryMapWith", [p, f, k, a]) => G::TryMapWith(parse_pred(tk, p)?, parse_fn1(f)?, nat(k)?, bg(a)?),
        ("Validate", [p, k, a]) => G::Validate(parse_pred(tk, p)?, nat(k)?, bg(a)?),
        ("Then", [a, b]) => G::Then(bg(a)?, bg(b)?),
        ("IgnoreThen", [a, b]) => G::IgnoreThen(bg(a)?, bg(b)?),
        ("ThenIgnore", [a, b]) => G::ThenIgnore(bg(a)?, bg(b)?),
        ("DelimitedBy", [a, l, r]) => G::DelimitedBy(bg(a)?, bg(l)?, bg(r)?),
        ("PaddedBy", [a, p]) => G::PaddedBy(bg(a)?, bg(p)?),
        ("Group", [l]) => G::Group(gs(tk, l)?),
        ("GroupArr", [l]) => G::GroupArr(gs(tk, l)?),
        ("Or", [a, b]) => G::Or(bg(a)?, bg(b)?),
        ("Choice", [l]) => G::Choice(gs(tk, l)?),
        ("ChoiceVec", [l]) => G::ChoiceVec(gs(tk, l)?),
        ("OrNot", [a]) => G::OrNot(bg(a)?),
        ("Not", [a]) => G::Not(bg(a)?),
        ("AndIs", [a, b]) => G::AndIs(bg(a)?, bg(b)?),
        ("Rewind", [a]) => G::Rewind(bg(a)?),
        ("RepUnit", [i]) => G::RepUnit(bit(i)?),
        ("Collect", [c, i]) => G::Collect(parse_ck(c)?, bit(i)?),
        ("CollectExactly", [n, i]) => G::CollectExactly(nat(n)?, bit(i)?),
        ("Foldl", [a, i, k]) => G::Foldl(bg(a)?, bit(i)?, nat(k)?),
        ("Foldr", [i, b, k]) => G::Foldr(bit(i)?, bg(b)?, nat(k)?),
        ("FoldlWith", [a, i, k]) => G::FoldlWith(bg(a)?, bit(i)?, nat(k)?),
        ("FoldrWith", [i, b, k]) => G::FoldrWith(bit(i)?, bg(b)?, nat(k)?),
        ("RecoverVia", [a, b]) => G::RecoverVia(bg(a)?, bg(b)?),
        ("RecoverSkipUntil", [a, s, u, fb]) => G::RecoverSkipUntil(bg(a)?, bg(s)?, bg(u)?, nat(fb)?),
        ("RecoverSkipRetry", [a, s, u]) => G::RecoverSkipRetry(bg(a)?, bg(s)?, bg(u)?),
        ("Labelled", [l, b, a]) => G::Labelled(nat(l)?, boolean(b)?, bg(a)?),
        ("MapErr", [k, a]) => G::MapErr(nat(k)?, bg(a)?),
        ("WithCtx", [v, a]) => G::WithCtx(parse_val(tk, v)?, bg(a)?),
        ("IgnoreWithCtx", [a, b]) => G::IgnoreWithCtx(bg(a)?, bg(b)?),
        ("ThenWithCtx", [a, b]) => G::ThenWithCtx(bg(a)?, bg(b)?),
        ("MapCtx", [f, a]) => G::MapCtx(parse_fn1(f)?, bg(a)?),
        ("JustCfg", [ts]) => G::JustCfg(toks(tk, ts)?),
        ("Memo", [id, a]) => G::Memo(nat(id)?, bg(a)?),
        ("Rec", [a]) => G::Rec(bg(a)?),
        ("RecDecl", [a]) => G::RecDecl(bg(a)?),
        ("Var", [k]) => G::Var(nat(k)?),
        ("Boxed", [a]) => G::Boxed(bg(a)?),
        ("Pratt", [form, atom, ops]) => {
            let form = match form.atom()? {
                "vec" => PForm::Vec,
                "tuple" => PForm::Tuple,
                _ => return None,
            };
            let ops = ops.list()?.iter().map(|o| parse_pop(tk, o)).collect::<R<Vec<_>>>()?;
            G::Pratt(form, bg(atom)?, ops)
        }
        ("NestedIn", [a]) => G::NestedIn(bg(a)?),
        ("NestedVia", [a]) => G::NestedVia(bg(a)?),
        ("ExtWrap", [a]) => G::ExtWrap(bg(a)?),
        ("Skip", [n]) => G::Skip(nat(n)?),
        ("Padded", [ws, a]) => G::Padded(toks(tk, ws)?, bg(a)?),
        ("Prog", [ops, k]) => {
            let ops = ops
                .list()?
                .iter()
                .map(|o| match ctor(o) {
                    Some(("CExpect", [t])) => Some(Cop::Expect(tok(tk, t)?)),
                    _ => match o.atom()? {
                        "CNext" => Some(Cop::Next),
                        "CNextRef" => Some(Cop::NextRef),
                        "CPeek" => Some(Cop::Peek),
                        "CSkip" => Some(Cop::Skip),
                        "CSave" => Some(Cop::Save),
                        "CRewind" => Some(Cop::Rewind),
                        "CSpan" => Some(Cop::Span),
                        "CState" => Some(Cop::State),
                        _ => None,
                    },
                })
                .collect::<R<Vec<_>>>()?;
            G::Prog(ops, nat(k)?)
        }
        ("Lazy", [a]) => G::Lazy(bg(a)?),
        ("WithState", [k, a]) => G::WithState(k.nat()? as u64, bg(a)?),
        ("NestedDelims", [s, e, others]) => {
            let others = others
                .list()?
                .iter()
                .map(|p| {
                    let l = p.list()?;
                    match l {
                        [a, b] => Some((tok(tk, a)?, tok(tk, b)?)),
                        _ => None,
                    }
                })
                .collect::<R<Vec<_>>>()?;
            G::NestedDelims(tok(tk, s)?, tok(tk, e)?, others)
        }
        _ => return None,
    })
}

pub fn parse_it(tk: Tk, s: &Sexp) -> R<IT> {
    let bit = |s: &Sexp| parse_it(tk, s).map(Box::new);
    Some(match ctor(s)? {
        ("IRep", [a, lo, hi]) => IT::IRep(parse_g(tk, a)?, nat(lo)?, opt_nat(hi)?),
        ("ISep", [a, sep, lo, hi, lead, trail]) => IT::ISep(
            parse_g(tk, a)?,
            parse_g(tk, sep)?,
            nat(lo)?,
            opt_nat(hi)?,
            boolean(lead)?,
            boolean(trail)?,
        ),
        ("IEnum", [i]) => IT::IEnum(bit(i)?),
        ("IMap", [f, i]) => IT::IMap(parse_fn1(f)?, bit(i)?),
        ("IMapWith", [m, i]) => IT::IMapWith(parse_mw(m)?, bit(i)?),
        ("IOrNot", [a]) => IT::IOrNot(parse_g(tk, a)?),
        ("IIntoIter", [a]) => IT::IIntoIter(parse_g(tk, a)?),
        ("IThen", [i, j]) => IT::IThen(bit(i)?, bit(j)?),
        ("IRepCfg", [a, lo, hi]) => IT::IRepCfg(parse_g(tk, a)?, nat(lo)?, opt_nat(hi)?, 0),
        ("IRepCfg", [a, lo, hi, ck]) => IT::IRepCfg(parse_g(tk, a)?, nat(lo)?, opt_nat(hi)?, nat(ck)?),
        _ => return None,
    })
}

// ---------- does a grammar contain `FNew` (drop accounting) ----------

impl G {
    /// Whether `FNew` occurs anywhere in the grammar.
    pub fn has_fnew(&self) -> bool {
        let new = |f: &Fn1| *f == Fn1::New;
        match self {
            G::End | G::Empty | G::Any | G::AnyRef | G::Prog(..) | G::Just(_) | G::OneOf(_) | G::NoneOf(_) | G::Custom(..) | G::Skip(_) | G::NestedDelims(..) => false,
            G::JustCfg(_) | G::Var(_) => false,
            G::Select(_, f) | G::SelectRef(_, f) => new(f),
            G::Map(f, a) | G::TryMap(_, f, _, a) | G::TryMapWith(_, f, _, a) | G::MapCtx(f, a) => {
                new(f) || a.has_fnew()
            }
            G::MapWith(_, a)
            | G::To(_, a)
            | G::Ignored(a)
            | G::ToSpan(a)
            | G::ToSlice(a)
            | G::Filter(_, a)
            | G::Validate(_, _, a)
            | G::OrNot(a)
            | G::Not(a)
            | G::Rewind(a)
            | G::Labelled(_, _, a)
            | G::MapErr(_, a)
            | G::WithCtx(_, a)
            | G::Memo(_, a)
            | G::Rec(a)
            | G::RecDecl(a)
            | G::Boxed(a)
            | G::NestedIn(a)
            | G::NestedVia(a)
            | G::ExtWrap(a)
            | G::Lazy(a)
            | G::Padded(_, a)
            | G::WithState(_, a) => a.has_fnew(),
            G::Then(a, b)
            | G::IgnoreThen(a, b)
            | G::ThenIgnore(a, b)
            | G::PaddedBy(a, b)
            | G::Or(a, b)
            | G::AndIs(a, b)
            | G::RecoverVia(a, b)
            | G::IgnoreWithCtx(a, b)
            | G::ThenWithCtx(a, b) => a.has_fnew() || b.has_fnew(),
            G::DelimitedBy(a, b, c) | G::RecoverSkipRetry(a, b, c) | G::RecoverSkipUntil(a, b, c, _) => {
                a.has_fnew() || b.has_fnew() || c.has_fnew()
            }
            G::Group(l) | G::GroupArr(l) | G::Choice(l) | G::ChoiceVec(l) => l.iter().any(G::has_fnew),
            G::RepUnit(it) | G::Collect(_, it) | G::CollectExactly(_, it) => it.has_fnew(),
            G::Foldl(a, it, _) | G::FoldlWith(a, it, _) => a.has_fnew() || it.has_fnew(),
            G::Foldr(it, b, _) | G::FoldrWith(it, b, _) => it.has_fnew() || b.has_fnew(),
            G::Pratt(_, atom, ops) => {
                atom.has_fnew()
                    || ops.iter().any(|o| match o {
                        POp::Infix(_, _, g, _) | POp::Prefix(_, g, _) | POp::Postfix(_, g, _) => g.has_fnew(),
                    })
            }
        }
    }
}

impl IT {
    pub fn has_fnew(&self) -> bool {
        match self {
            IT::IRep(a, ..) | IT::IOrNot(a) | IT::IRepCfg(a, ..) | IT::IIntoIter(a) => a.has_fnew(),
            IT::ISep(a, sep, ..) => a.has_fnew() || sep.has_fnew(),
            IT::IEnum(i) | IT::IMapWith(_, i) => i.has_fnew(),
            IT::IThen(i, j) => i.has_fnew() || j.has_fnew(),
            IT::IMap(f, i) => *f == Fn1::New || i.has_fnew(),
        }
    }
}
