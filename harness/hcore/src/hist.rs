//! History cases (FORMAT.md, version 3): `(H <id> <ikind> <ekind> <wrapper> <grammar> (<input> ...))`.
//!
//! The parser is built **once**, wrapped as `<wrapper>`, and parses the inputs in the given order through the
//! wrapper, `parse` at the even positions and `check` at the odd ones. One parser can only parse several
//! buffers if they all live as long as the parser's `'src`: the inputs are leaked `'static` buffers (they are
//! reclaimed when the parser and every result are gone). The closures of the built parser find the buffer
//! that is being parsed through the `Cur` handle of the kind, which is pointed at each input in turn.
//!
//! Served by the `str` and `slice` workers.

use std::marker::PhantomData;
use std::panic::{catch_unwind, AssertUnwindSafe};
use std::rc::Rc;

use chumsky::cache::{Cache, Cached};
use chumsky::Parser;
use either::Either;

use crate::ast::{HCase, Wrapper, G};
use crate::build::{Builder, Ex, Res, P};
use crate::input::{Cur, HInput};
use crate::kinds::{exec_check, exec_parse, ESel};
use crate::val::{track, HTok, Val};
use crate::worker::panic_class;

/// An input kind as a family of input types over the lifetime of the buffer.
pub trait HFam: 'static {
    /// the owned buffer
    type Buf: 'static;
    type In<'a>: HInput<'a>;
    fn buf(tokens: &[u32]) -> Self::Buf;
    fn input<'a>(b: &'a Self::Buf) -> Self::In<'a>;
    fn conv<'a>(b: &'a Self::Buf) -> <Self::In<'a> as HInput<'a>>::Conv;
    /// a handle that points at an empty buffer (before the first input)
    fn empty_conv<'a>() -> <Self::In<'a> as HInput<'a>>::Conv;
}

/// `str`: `&str`
pub struct StrFam;

impl HFam for StrFam {
    type Buf = String;
    type In<'a> = &'a str;
    fn buf(tokens: &[u32]) -> String {
        char::seq(tokens).into_iter().collect()
    }
    fn input<'a>(b: &'a String) -> &'a str {
        b
    }
    fn conv<'a>(b: &'a String) -> Cur<&'a str> {
        Cur::new(b)
    }
    fn empty_conv<'a>() -> Cur<&'a str> {
        Cur::new("")
    }
}

/// `slice`: `&[char]`
pub struct SliceFam;

impl HFam for SliceFam {
    type Buf = Vec<char>;
    type In<'a> = &'a [char];
    fn buf(tokens: &[u32]) -> Vec<char> {
        char::seq(tokens)
    }
    fn input<'a>(b: &'a Vec<char>) -> &'a [char] {
        b
    }
    fn conv<'a>(b: &'a Vec<char>) -> Cur<&'a [char]> {
        Cur::new(b)
    }
    fn empty_conv<'a>() -> Cur<&'a [char]> {
        Cur::new(&[])
    }
}

type In<'a, F> = <F as HFam>::In<'a>;
type Er<'a, F, S> = <S as ESel>::Err<'a, In<'a, F>>;
type Cv<'a, F> = <In<'a, F> as HInput<'a>>::Conv;
/// What the builder yields: the parser and the handle its closures read the current buffer from.
type Built<'a, F, S> = Res<(P<'a, In<'a, F>, Er<'a, F, S>>, Cv<'a, F>)>;

fn build<'a, F: HFam, S: ESel>(g: &G) -> Built<'a, F, S> {
    let cv: Cv<'a, F> = F::empty_conv();
    let p = Builder::<In<'a, F>, Er<'a, F, S>>::new(cv.clone()).g(g)?;
    Ok((p, cv))
}

/// `build` with every typed combinator structurally cloned before boxing (wrapper `clone`)
fn build_cloned<'a, F: HFam, S: ESel>(g: &G) -> Built<'a, F, S> {
    let old = crate::build::CLONE_TYPED.with(|c| c.replace(true));
    let r = build::<F, S>(g);
    crate::build::CLONE_TYPED.with(|c| c.set(old));
    r
}

/// `chumsky::cache::Cache` over the builder: the grammar is the cached description, the built parser (for
/// whatever lifetime the cache is asked for) the cached parser.
struct HCached<F, S> {
    g: G,
    _p: PhantomData<fn() -> (F, S)>,
}

impl<F: HFam, S: ESel> Cached for HCached<F, S> {
    type Parser<'src> = Built<'src, F, S>;

    fn make_parser<'src>(self) -> Self::Parser<'src> {
        build::<F, S>(&self.g)
    }
}

pub fn run_hist<F: HFam, S: ESel>(h: &HCase, why: bool) -> String {
    // the inputs are leaked ...
    let bufs: Vec<*mut F::Buf> = h.inputs.iter().map(|t| Box::into_raw(Box::new(F::buf(t)))).collect();
    let text = {
        // SAFETY: the boxes stay allocated until they are reclaimed below
        let refs: Vec<&'static F::Buf> = bufs.iter().map(|p| unsafe { &**p }).collect();
        run_leaked::<F, S>(h, &refs, why)
    };
    // ... and reclaimed: the parser, the wrappers, every output and every error have been dropped inside
    // `run_leaked`, only the result text is left. (If a panic escapes `run_leaked` they stay leaked.)
    for p in bufs {
        // SAFETY: made by `Box::into_raw` above; no reference into the buffer is alive
        unsafe { drop(Box::from_raw(p)) }
    }
    text
}

fn run_leaked<F: HFam, S: ESel>(h: &HCase, bufs: &[&'static F::Buf], why: bool) -> String {
    type DynP<F, S> = dyn Parser<'static, In<'static, F>, Val, Ex<Er<'static, F, S>>>;
    type PP<F, S> = P<'static, In<'static, F>, Er<'static, F, S>>;

    let cache: Option<Cache<HCached<F, S>>> = (h.wrapper == Wrapper::Cache)
        .then(|| Cache::new(HCached::<F, S> { g: h.grammar.clone(), _p: PhantomData }));
    /// `cache.get::<'static>()`
    fn get_static<F: HFam, S: ESel>(cache: &Cache<HCached<F, S>>) -> &Built<'static, F, S> {
        cache.get()
    }
    let (p, cv): (PP<F, S>, Cv<'static, F>) = {
        let built: Result<(PP<F, S>, Cv<'static, F>), &'static str> = match &cache {
            // the cached parser is used through the reference the cache hands out: see `Wrapper::Cache` below
            Some(cache) => match get_static(cache) {
                Ok((p, cv)) => Ok((p.clone(), cv.clone())),
                Err(u) => Err(u.0),
            },
            None if h.wrapper == Wrapper::Clone => build_cloned::<F, S>(&h.grammar).map_err(|u| u.0),
            None => build::<F, S>(&h.grammar).map_err(|u| u.0),
        };
        match built {
            Ok(b) => b,
            Err(reason) => {
                if why {
                    eprintln!("{}: {}", h.id, reason);
                }
                return "UNSUPPORTED".to_string();
            }
        }
    };

    // the wrappers that are made once
    let boxed_dyn: Option<Box<DynP<F, S>>> = (h.wrapper == Wrapper::Box).then(|| Box::new(p.clone()) as _);
    let boxed_p: Option<Box<PP<F, S>>> = (h.wrapper == Wrapper::Box).then(|| Box::new(p.clone()));
    let rc: Option<Rc<PP<F, S>>> = (h.wrapper == Wrapper::Rc).then(|| Rc::new(p.clone()));
    let reboxed: Option<PP<F, S>> = (h.wrapper == Wrapper::Boxed).then(|| p.clone().boxed());

    let fnew = h.grammar.has_fnew();
    let mut out = String::from("H");
    for (i, buf) in bufs.iter().enumerate() {
        <In<'static, F> as HInput<'static>>::retarget(&cv, &F::conv(buf));
        let input = F::input(buf);
        let parse = i % 2 == 0;
        if fnew {
            track::reset();
        }
        macro_rules! through {
            ($w:expr) => {
                if parse {
                    exec_parse::<In<'static, F>, Er<'static, F, S>, _>($w, input, &cv)
                } else {
                    exec_check::<In<'static, F>, Er<'static, F, S>, _>($w, input, &cv)
                }
            };
        }
        let res = catch_unwind(AssertUnwindSafe(|| match h.wrapper {
            Wrapper::Value => through!(&p),
            Wrapper::Clone => through!(&p.clone()),
            Wrapper::Ref => through!(&&p),
            Wrapper::Box => {
                // `Box<dyn Parser>` can only `parse` (`check` needs `Self: Sized`); `Box<P>` is a `Parser`
                if parse {
                    let w: &DynP<F, S> = boxed_dyn.as_deref().expect("made above");
                    exec_parse::<In<'static, F>, Er<'static, F, S>, DynP<F, S>>(w, input, &cv)
                } else {
                    exec_check::<In<'static, F>, Er<'static, F, S>, _>(boxed_p.as_ref().expect("made above"), input, &cv)
                }
            }
            Wrapper::Rc => through!(rc.as_ref().expect("made above")),
            Wrapper::Boxed => through!(reboxed.as_ref().expect("made above")),
            Wrapper::Either => {
                let w: Either<PP<F, S>, PP<F, S>> =
                    if parse { Either::Left(p.clone()) } else { Either::Right(p.clone()) };
                through!(&w)
            }
            Wrapper::Cache => match get_static(cache.as_ref().expect("made above")) {
                Ok((cached, _)) => through!(cached),
                Err(_) => unreachable!("the cached build succeeded"),
            },
        }));
        let mut text = match res {
            Ok(t) => t,
            Err(payload) => format!("PANIC {}", panic_class(&*payload)),
        };
        if fnew {
            // the result of this input is gone (the parser is not: it parses the next input)
            text.push_str(&track::suffix());
        }
        out.push_str(if i == 0 { " " } else { " | " });
        out.push_str(&text);
    }
    out
}
