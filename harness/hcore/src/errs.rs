//! The harness view of chumsky's four stock error types: construction of "custom error number k"
//! and canonical printing (FORMAT.md, `err`).
//!
//! Pattern codes: `Any`=0, `SomethingElse`=1, `EndOfInput`=2, `Label(l)`=4+2l, `Token(t)`=5+2t.
//! (`Identifier` never occurs with the harness grammars; it would print as code 3.)

use std::fmt::Write;

use chumsky::error::{Cheap, EmptyErr, LabelError, Rich, RichPattern, RichReason, Simple};

use crate::input::{HInput, HSpan};
use crate::val::{HTok, Pos};

/// Converts a raw span offset of the input kind (bytes for `&str`) to a token position.
pub type Conv<'c> = &'c dyn Fn(usize) -> Pos;

pub trait HErr<'a, I: HInput<'a>>:
    chumsky::error::Error<'a, I> + LabelError<'a, I, String> + Clone + 'a
{
    /// `E::custom(k, span)` of FORMAT.md.
    fn custom(k: usize, span: I::Span) -> Self;
    /// The error's span (`0..0` for `EmptyErr`, which has none); used by `MapErr`.
    fn hspan(&self) -> I::Span;
    /// Append the canonical form `<s>..<e>:<reason>:[<ctx>,...]`.
    fn canon(&self, conv: Conv<'_>, out: &mut String);
}

fn span_str<S: HSpan>(sp: &S, conv: Conv<'_>, out: &mut String) {
    let (s, e) = sp.raw();
    let _ = write!(out, "{}..{}", conv(s), conv(e));
}

impl<'a, I: HInput<'a>> HErr<'a, I> for EmptyErr {
    fn custom(_k: usize, _span: I::Span) -> Self {
        EmptyErr::default()
    }
    fn hspan(&self) -> I::Span {
        <I::Span as HSpan>::zero()
    }
    fn canon(&self, _conv: Conv<'_>, out: &mut String) {
        out.push_str("0..0:X[]F-:[]");
    }
}

impl<'a, I: HInput<'a>> HErr<'a, I> for Cheap<I::Span> {
    fn custom(_k: usize, span: I::Span) -> Self {
        Cheap::new(span)
    }
    fn hspan(&self) -> I::Span {
        self.span().clone()
    }
    fn canon(&self, conv: Conv<'_>, out: &mut String) {
        span_str(self.span(), conv, out);
        out.push_str(":X[]F-:[]");
    }
}

impl<'a, I: HInput<'a>> HErr<'a, I> for Simple<'a, I::Token, I::Span> {
    fn custom(_k: usize, span: I::Span) -> Self {
        Simple::new(None, span)
    }
    fn hspan(&self) -> I::Span {
        self.span().clone()
    }
    fn canon(&self, conv: Conv<'_>, out: &mut String) {
        span_str(self.span(), conv, out);
        out.push_str(":X[]F");
        found_str(self.found(), out);
        out.push_str(":[]");
    }
}

impl<'a, I: HInput<'a>> HErr<'a, I> for Rich<'a, I::Token, I::Span> {
    fn custom(k: usize, span: I::Span) -> Self {
        Rich::custom(span, k.to_string())
    }
    fn hspan(&self) -> I::Span {
        self.span().clone()
    }
    fn canon(&self, conv: Conv<'_>, out: &mut String) {
        span_str(self.span(), conv, out);
        out.push(':');
        match self.reason() {
            RichReason::Custom(msg) => {
                out.push('C');
                out.push_str(&numeric_or_q(msg));
            }
            RichReason::ExpectedFound { .. } => {
                // only the *set* of expected patterns is observable: sort and de-duplicate
                let mut codes: Vec<Option<u64>> = self.expected().map(pattern_code).collect();
                codes.sort();
                codes.dedup();
                out.push_str("X[");
                for (i, c) in codes.iter().enumerate() {
                    if i > 0 {
                        out.push(',');
                    }
                    match c {
                        Some(c) => {
                            let _ = write!(out, "{c}");
                        }
                        None => out.push('?'),
                    }
                }
                out.push_str("]F");
                found_str(self.found(), out);
            }
        }
        out.push_str(":[");
        for (i, (pat, sp)) in self.contexts().enumerate() {
            if i > 0 {
                out.push(',');
            }
            match pat {
                RichPattern::Label(l) => out.push_str(&numeric_or_q(l)),
                _ => out.push('?'),
            }
            out.push('@');
            span_str(sp, conv, out);
        }
        out.push(']');
    }
}

fn found_str<T: HTok>(found: Option<&T>, out: &mut String) {
    match found {
        Some(c) => {
            let _ = write!(out, "{}", c.to_u32());
        }
        None => out.push('-'),
    }
}

/// Labels and custom messages are decimal numbers written by the harness itself; anything else prints `?`.
fn numeric_or_q(s: &str) -> String {
    match s.parse::<u64>() {
        Ok(n) => n.to_string(),
        Err(_) => "?".to_string(),
    }
}

fn pattern_code<T: HTok>(p: &RichPattern<'_, T>) -> Option<u64> {
    Some(match p {
        RichPattern::Any => 0,
        RichPattern::SomethingElse => 1,
        RichPattern::EndOfInput => 2,
        RichPattern::Identifier(_) => 3,
        RichPattern::Label(l) => 4 + 2 * l.parse::<u64>().ok()?,
        RichPattern::Token(t) => 5 + 2 * ((**t).to_u32() as u64),
    })
}
