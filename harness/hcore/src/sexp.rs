//! Minimal s-expression reader for the case-file format (see /verif/FORMAT.md).
//!
//! Atoms are maximal runs of characters other than whitespace and parentheses.

#[derive(Clone, Debug, PartialEq)]
pub enum Sexp {
    Atom(String),
    List(Vec<Sexp>),
}

impl Sexp {
    pub fn atom(&self) -> Option<&str> {
        match self {
            Sexp::Atom(a) => Some(a),
            Sexp::List(_) => None,
        }
    }

    pub fn list(&self) -> Option<&[Sexp]> {
        match self {
            Sexp::Atom(_) => None,
            Sexp::List(l) => Some(l),
        }
    }

    /// Decimal natural number.
    pub fn nat(&self) -> Option<u64> {
        let a = self.atom()?;
        if a.is_empty() || !a.bytes().all(|b| b.is_ascii_digit()) {
            return None;
        }
        a.parse().ok()
    }
}

/// Parse exactly one s-expression covering the whole line (surrounding whitespace allowed).
pub fn parse_line(line: &str) -> Option<Sexp> {
    let bytes = line.as_bytes();
    let mut pos = 0;
    let s = parse_one(line, bytes, &mut pos)?;
    skip_ws(bytes, &mut pos);
    if pos == bytes.len() {
        Some(s)
    } else {
        None
    }
}

fn skip_ws(b: &[u8], pos: &mut usize) {
    while *pos < b.len() && b[*pos].is_ascii_whitespace() {
        *pos += 1;
    }
}

fn parse_one(src: &str, b: &[u8], pos: &mut usize) -> Option<Sexp> {
    skip_ws(b, pos);
    match b.get(*pos)? {
        b'(' => {
            *pos += 1;
            let mut items = Vec::new();
            loop {
                skip_ws(b, pos);
                match b.get(*pos)? {
                    b')' => {
                        *pos += 1;
                        return Some(Sexp::List(items));
                    }
                    _ => items.push(parse_one(src, b, pos)?),
                }
            }
        }
        b')' => None,
        _ => {
            let start = *pos;
            while *pos < b.len() && !b[*pos].is_ascii_whitespace() && b[*pos] != b'(' && b[*pos] != b')' {
                *pos += 1;
            }
            Some(Sexp::Atom(src[start..*pos].to_string()))
        }
    }
}

/// Best-effort extraction of the case id from a line that failed to parse: `( <digits> ...`, `(H <digits> ...`.
pub fn salvage_id(line: &str) -> Option<u64> {
    let t = line.trim_start();
    let t = t.strip_prefix('(')?.trim_start();
    // history / thread lines: `(H <id> ...`, `(T <id> ...`
    let t = match t.strip_prefix("H ").or_else(|| t.strip_prefix("T ")) {
        Some(rest) => rest.trim_start(),
        None => t,
    };
    let end = t.find(|c: char| !c.is_ascii_digit()).unwrap_or(t.len());
    if end == 0 {
        return None;
    }
    t[..end].parse().ok()
}
