//! Input kinds (`HInput`), span types (`HSpan`), the user state (`HState`) and the counting iterator under
//! the stream kinds.
//!
//! `HInput` is implemented on the chumsky input type of each kind. Inputs such as `Stream` are not `Clone`,
//! so the builder never holds the input itself: it holds the kind's `Conv`, a cheap handle with which raw span
//! offsets are converted to printed positions and slices are located in the caller's buffer.
//!
//! To add an input kind: implement `HInput` for its input type here, add a variant to `ast::IKind`, a runner
//! to `kinds.rs`, and a worker crate (`./gen-workers.sh`).
//!
//! Version 4: the grapheme kinds `graphemes` (`&Graphemes`) and `gslice` (`&[&Grapheme]`) at the end of the file.

use std::cell::{Cell, RefCell};
use std::rc::Rc;

use chumsky::input::{
    BoxedStream, Checkpoint, Cursor, Input, IoInput, IterInput, MapExtra, MappedInput, MappedSpan, Stream,
    WithContext,
};
use chumsky::inspector::Inspector;
use chumsky::span::{SimpleSpan, Span};
use chumsky::text::{Grapheme, Graphemes};
use unicode_segmentation::UnicodeSegmentation;

use crate::ast::{CLUSTERS, CLUSTER_ID_MIN, CLUSTER_ID_UNKNOWN, GROUP_ID_MIN};
use crate::build::{self, Ex, Res, P, PU};
use crate::errs::HErr;
use crate::val::{Fn1, HTok, Pos, Pred};

// ---------- user state ----------

/// `h = (h*31 + t + 1) % 1000003` on every token; saved and restored with checkpoints.
#[derive(Clone, Debug, Default)]
pub struct HState {
    pub h: u64,
}

impl<'a, I: Input<'a>> Inspector<'a, I> for HState
where
    I::Token: HTok,
{
    type Checkpoint = u64;

    #[inline]
    fn on_token(&mut self, t: &I::Token) {
        self.h = (self.h * 31 + t.to_u32() as u64 + 1) % 1_000_003;
    }
    #[inline]
    fn on_save<'parse>(&self, _cursor: &Cursor<'a, 'parse, I>) -> u64 {
        self.h
    }
    #[inline]
    fn on_rewind<'parse>(&mut self, marker: &Checkpoint<'a, 'parse, I, u64>) {
        self.h = *marker.inspector();
    }
}

// ---------- span types ----------

/// The span types of the input kinds.
pub trait HSpan: Span + Clone + 'static {
    /// `(start, end)` as raw offsets of the kind.
    fn raw(&self) -> (usize, usize);
    /// Some span (for `EmptyErr`, which carries none); never printed.
    fn zero() -> Self;
}

impl HSpan for SimpleSpan<usize> {
    fn raw(&self) -> (usize, usize) {
        (self.start, self.end)
    }
    fn zero() -> Self {
        SimpleSpan::from(0..0)
    }
}

/// The context carried by the spans of the `withctx` kind.
pub const WITHCTX_CONTEXT: u8 = 7;

impl HSpan for SimpleSpan<usize, u8> {
    fn raw(&self) -> (usize, usize) {
        (self.start, self.end)
    }
    fn zero() -> Self {
        <Self as Span>::new(WITHCTX_CONTEXT, 0..0)
    }
}

// ---------- the caller's buffer ----------

/// A shared handle on "the buffer that is being parsed": what the closures of a built parser use to convert
/// raw offsets to token indices and to locate slices. For an ordinary case it is set once; a history case
/// builds the parser once and points the handle at each input in turn (`HInput::retarget`).
pub struct Cur<T: Copy>(Rc<Cell<T>>);

impl<T: Copy> Cur<T> {
    pub fn new(t: T) -> Self {
        Cur(Rc::new(Cell::new(t)))
    }
    #[inline]
    pub fn get(&self) -> T {
        self.0.get()
    }
    pub fn set(&self, t: T) {
        self.0.set(t)
    }
}

impl<T: Copy> Clone for Cur<T> {
    fn clone(&self) -> Self {
        Cur(self.0.clone())
    }
}

// ---------- input kinds ----------

pub trait HInput<'a>: Input<'a, Token: HTok, Span: HSpan> + Sized + 'a {
    /// What the builder keeps of the caller's buffer.
    type Conv: Clone + 'a;

    /// Whether the kind implements `SliceInput` (`ToSlice`, `MWSlice`).
    const HAS_SLICE: bool = false;

    /// Convert a raw span offset of this kind (e.g. a byte offset) to a printed position.
    fn pos(cv: &Self::Conv, raw: usize) -> Pos;

    /// Point the handle `cv` (shared with the closures of a built parser) at the buffer of `to`.
    /// Only the kinds whose `Conv` is a `Cur` can do that; history cases need it.
    fn retarget(_cv: &Self::Conv, _to: &Self::Conv) {}

    /// `(NestedIn a)`: only the `tree` kind has tokens that contain inputs.
    fn nested_in<E: HErr<'a, Self>>(_a: P<'a, Self, E>) -> Res<P<'a, Self, E>> {
        build::unsupported("NestedIn: only on the tree kind")
    }
    /// `(NestedVia a)`: `nested_in` with a compound `b`.
    fn nested_via<E: HErr<'a, Self>>(_a: P<'a, Self, E>) -> Res<P<'a, Self, E>> {
        build::unsupported("NestedVia: only on the tree kind")
    }

    /// `(Just ts)`: `just(c)` for one token, else `just(String)` / `just(Vec<Token>)`.
    fn just<E: HErr<'a, Self>>(ts: &[u32]) -> P<'a, Self, E>;
    /// `(JustCfg ts)`.
    fn just_cfg<E: HErr<'a, Self>>(ts: &[u32]) -> P<'a, Self, E>;

    // ----- primitives that need `ValueInput` -----
    fn any<E: HErr<'a, Self>>() -> Res<P<'a, Self, E>>;
    fn skip<E: HErr<'a, Self>>(n: usize) -> Res<P<'a, Self, E>>;
    fn lazy<E: HErr<'a, Self>>(a: P<'a, Self, E>) -> Res<P<'a, Self, E>>;
    /// `(Prog ops k)`: needs `ValueInput`; `CNextRef` uses `next_ref` on the `BorrowInput` kinds slice / bytes / array / mapped
    fn prog<E: HErr<'a, Self>>(cv: &Self::Conv, ops: Vec<crate::ast::Cop>, k: usize) -> Res<P<'a, Self, E>>;
    /// `AnyRef` / `(SelectRef p f)`: `any_ref()` / `select_ref(..)` on the `BorrowInput` kinds slice, bytes, array, mapped;
    /// on the other kinds the by-value primitive (the model does not distinguish them)
    fn any_ref<E: HErr<'a, Self>>() -> Res<P<'a, Self, E>> {
        Self::any()
    }
    fn select_ref<E: HErr<'a, Self>>(p: Pred, f: Fn1) -> Res<P<'a, Self, E>> {
        Self::select(p, f)
    }
    /// `(Padded ws a)`: needs `ValueInput` and `Token: text::Char`; built for str, slice, bytes
    fn padded<E: HErr<'a, Self>>(_ws: &[u32], _a: P<'a, Self, E>) -> Res<P<'a, Self, E>> {
        build::unsupported("Padded: built for the str / slice / bytes kinds only")
    }
    fn nested_delims<E: HErr<'a, Self>>(cv: &Self::Conv, s: u32, e: u32, others: &[(u32, u32)]) -> Res<P<'a, Self, E>>;
    fn one_of<E: HErr<'a, Self>>(ts: &[u32]) -> Res<P<'a, Self, E>>;
    fn none_of<E: HErr<'a, Self>>(ts: &[u32]) -> Res<P<'a, Self, E>>;
    fn select<E: HErr<'a, Self>>(p: Pred, f: Fn1) -> Res<P<'a, Self, E>>;
    fn not<E: HErr<'a, Self>>(a: P<'a, Self, E>) -> Res<PU<'a, Self, E>>;

    // ----- `SliceInput` -----
    /// `p.to_slice()` mapped to `Val::Slice` (token-index range computed from the pointer offsets of the
    /// returned slice relative to the caller's buffer).
    fn to_slice<E: HErr<'a, Self>>(_cv: &Self::Conv, _p: P<'a, Self, E>) -> Res<P<'a, Self, E>> {
        build::unsupported("ToSlice: input kind has no SliceInput")
    }
    /// `e.slice()` as a token-index range. `None`: kind has no `SliceInput`.
    fn extra_slice<E: HErr<'a, Self>>(
        _cv: &Self::Conv,
        _e: &mut MapExtra<'a, '_, Self, Ex<E>>,
    ) -> Option<(Pos, Pos)> {
        None
    }
}

/// `just` / `just_cfg` with `String` or `Vec<Token>` sequences.
macro_rules! seq_impl {
    (string) => {
        fn just<E: HErr<'a, Self>>(ts: &[u32]) -> P<'a, Self, E> {
            build::just_string(ts)
        }
        fn just_cfg<E: HErr<'a, Self>>(ts: &[u32]) -> P<'a, Self, E> {
            build::just_cfg_string(ts)
        }
    };
    (grapheme) => {
        fn just<E: HErr<'a, Self>>(ts: &[u32]) -> P<'a, Self, E> {
            build::just_gr(ts)
        }
        fn just_cfg<E: HErr<'a, Self>>(ts: &[u32]) -> P<'a, Self, E> {
            build::just_cfg_vec(ts)
        }
    };
    (vec) => {
        fn just<E: HErr<'a, Self>>(ts: &[u32]) -> P<'a, Self, E> {
            build::just_vec(ts)
        }
        fn just_cfg<E: HErr<'a, Self>>(ts: &[u32]) -> P<'a, Self, E> {
            build::just_cfg_vec(ts)
        }
    };
}

/// The `ValueInput` primitives; `string`/`vec` selects the sequence type of `one_of` / `none_of`.
macro_rules! value_impl {
    (@common) => {
        fn any<E: HErr<'a, Self>>() -> Res<P<'a, Self, E>> {
            Ok(build::v_any())
        }
        fn skip<E: HErr<'a, Self>>(n: usize) -> Res<P<'a, Self, E>> {
            Ok(build::v_skip(n))
        }
        fn lazy<E: HErr<'a, Self>>(a: P<'a, Self, E>) -> Res<P<'a, Self, E>> {
            Ok(build::v_lazy(a))
        }
        fn prog<E: HErr<'a, Self>>(cv: &Self::Conv, ops: Vec<crate::ast::Cop>, k: usize) -> Res<P<'a, Self, E>> {
            Ok(build::v_prog(cv, ops, k))
        }
        fn nested_delims<E: HErr<'a, Self>>(cv: &Self::Conv, s: u32, e: u32, others: &[(u32, u32)]) -> Res<P<'a, Self, E>> {
            build::v_nested_delims(cv, s, e, others)
        }
        fn select<E: HErr<'a, Self>>(p: Pred, f: Fn1) -> Res<P<'a, Self, E>> {
            Ok(build::v_select(p, f))
        }
        fn not<E: HErr<'a, Self>>(a: P<'a, Self, E>) -> Res<PU<'a, Self, E>> {
            Ok(build::v_not(a))
        }
    };
    (string) => {
        value_impl!(@common);
        fn one_of<E: HErr<'a, Self>>(ts: &[u32]) -> Res<P<'a, Self, E>> {
            Ok(build::v_one_of_string(ts))
        }
        fn none_of<E: HErr<'a, Self>>(ts: &[u32]) -> Res<P<'a, Self, E>> {
            Ok(build::v_none_of_string(ts))
        }
    };
    (grapheme) => {
        value_impl!(@common);
        fn one_of<E: HErr<'a, Self>>(ts: &[u32]) -> Res<P<'a, Self, E>> {
            Ok(build::v_one_of_gr(ts))
        }
        fn none_of<E: HErr<'a, Self>>(ts: &[u32]) -> Res<P<'a, Self, E>> {
            Ok(build::v_none_of_gr(ts))
        }
    };
    (vec) => {
        value_impl!(@common);
        fn one_of<E: HErr<'a, Self>>(ts: &[u32]) -> Res<P<'a, Self, E>> {
            Ok(build::v_one_of_vec(ts))
        }
        fn none_of<E: HErr<'a, Self>>(ts: &[u32]) -> Res<P<'a, Self, E>> {
            Ok(build::v_none_of_vec(ts))
        }
    };
    (none) => {
        fn any<E: HErr<'a, Self>>() -> Res<P<'a, Self, E>> {
            build::unsupported("Any: input kind is not a ValueInput")
        }
        fn skip<E: HErr<'a, Self>>(_n: usize) -> Res<P<'a, Self, E>> {
            build::unsupported("Skip: input kind is not a ValueInput")
        }
        fn lazy<E: HErr<'a, Self>>(_a: P<'a, Self, E>) -> Res<P<'a, Self, E>> {
            build::unsupported("Lazy: input kind is not a ValueInput")
        }
        fn prog<E: HErr<'a, Self>>(_cv: &Self::Conv, _ops: Vec<crate::ast::Cop>, _k: usize) -> Res<P<'a, Self, E>> {
            build::unsupported("Prog: input kind is not a ValueInput")
        }
        fn nested_delims<E: HErr<'a, Self>>(_cv: &Self::Conv, _s: u32, _e: u32, _o: &[(u32, u32)]) -> Res<P<'a, Self, E>> {
            build::unsupported("NestedDelims: input kind is not a ValueInput")
        }
        fn select<E: HErr<'a, Self>>(_p: Pred, _f: Fn1) -> Res<P<'a, Self, E>> {
            build::unsupported("Select: input kind is not a ValueInput")
        }
        fn not<E: HErr<'a, Self>>(_a: P<'a, Self, E>) -> Res<PU<'a, Self, E>> {
            build::unsupported("Not: input kind is not a ValueInput")
        }
        fn one_of<E: HErr<'a, Self>>(_ts: &[u32]) -> Res<P<'a, Self, E>> {
            build::unsupported("OneOf: input kind is not a ValueInput")
        }
        fn none_of<E: HErr<'a, Self>>(_ts: &[u32]) -> Res<P<'a, Self, E>> {
            build::unsupported("NoneOf: input kind is not a ValueInput")
        }
    };
}

/// `to_slice` / `extra_slice` for kinds whose slices are `&str` (located in the `&str` held by `Conv`) or
/// `&[T]` (located in the `&[T]` held by `Conv`).
macro_rules! slice_impl {
    (str) => {
        const HAS_SLICE: bool = true;
        fn to_slice<E: HErr<'a, Self>>(cv: &Self::Conv, p: P<'a, Self, E>) -> Res<P<'a, Self, E>> {
            let whole = cv.clone();
            Ok(build::to_slice_with(p, move |part: &'a str| str_slice_range(whole.get(), part)))
        }
        fn extra_slice<E: HErr<'a, Self>>(
            cv: &Self::Conv,
            e: &mut MapExtra<'a, '_, Self, Ex<E>>,
        ) -> Option<(Pos, Pos)> {
            Some(str_slice_range(cv.get(), e.slice()))
        }
    };
    (elems, $t:ty) => {
        const HAS_SLICE: bool = true;
        fn to_slice<E: HErr<'a, Self>>(cv: &Self::Conv, p: P<'a, Self, E>) -> Res<P<'a, Self, E>> {
            let whole = cv.clone();
            Ok(build::to_slice_with(p, move |part: &'a [$t]| elems_slice_range(whole.get(), part)))
        }
        fn extra_slice<E: HErr<'a, Self>>(
            cv: &Self::Conv,
            e: &mut MapExtra<'a, '_, Self, Ex<E>>,
        ) -> Option<(Pos, Pos)> {
            Some(elems_slice_range(cv.get(), e.slice()))
        }
    };
}

/// `retarget` for the kinds whose `Conv` is a `Cur`.
macro_rules! cur_impl {
    () => {
        fn retarget(cv: &Self::Conv, to: &Self::Conv) {
            cv.set(to.get());
        }
    };
}

/// Byte range of `part` inside `whole`, from the pointers alone (so that a copy would be detected).
fn byte_range(whole_ptr: *const u8, part_ptr: *const u8, part_bytes: usize) -> (usize, usize) {
    let start = (part_ptr as usize).wrapping_sub(whole_ptr as usize);
    (start, start.wrapping_add(part_bytes))
}

fn str_pos(s: &str, raw: usize) -> Pos {
    if raw <= s.len() && s.is_char_boundary(raw) {
        Pos::Ix(s[..raw].chars().count())
    } else {
        Pos::Bad(raw)
    }
}

fn str_slice_range(whole: &str, part: &str) -> (Pos, Pos) {
    let (s, e) = byte_range(whole.as_ptr(), part.as_ptr(), part.len());
    (str_pos(whole, s), str_pos(whole, e))
}

/// Positions of kinds whose raw offsets already are token indices into a buffer of `len` tokens.
fn index_pos(len: usize, raw: usize) -> Pos {
    if raw <= len {
        Pos::Ix(raw)
    } else {
        Pos::Bad(raw)
    }
}

fn elems_slice_range<T>(whole: &[T], part: &[T]) -> (Pos, Pos) {
    let sz = std::mem::size_of::<T>();
    let (s, e) = byte_range(whole.as_ptr() as *const u8, part.as_ptr() as *const u8, part.len() * sz);
    let conv = |b: usize| {
        if b % sz == 0 {
            index_pos(whole.len(), b / sz)
        } else {
            Pos::Bad(b)
        }
    };
    (conv(s), conv(e))
}

// ----- str: &str -----

impl<'a> HInput<'a> for &'a str {
    fn padded<E: HErr<'a, Self>>(ws: &[u32], a: P<'a, Self, E>) -> Res<P<'a, Self, E>> {
        build::v_padded(ws, a)
    }
    type Conv = Cur<&'a str>;
    fn pos(cv: &Self::Conv, raw: usize) -> Pos {
        str_pos(cv.get(), raw)
    }
    cur_impl!();
    seq_impl!(string);
    value_impl!(string);
    slice_impl!(str);
}

// ----- slice: &[char]; bytes: &[u8] -----

impl<'a> HInput<'a> for &'a [char] {
    fn any_ref<E: HErr<'a, Self>>() -> Res<P<'a, Self, E>> {
        Ok(build::v_any_ref())
    }
    fn select_ref<E: HErr<'a, Self>>(p: Pred, f: Fn1) -> Res<P<'a, Self, E>> {
        Ok(build::v_select_ref(p, f))
    }
    fn padded<E: HErr<'a, Self>>(ws: &[u32], a: P<'a, Self, E>) -> Res<P<'a, Self, E>> {
        build::v_padded(ws, a)
    }
    type Conv = Cur<&'a [char]>;
    fn pos(cv: &Self::Conv, raw: usize) -> Pos {
        index_pos(cv.get().len(), raw)
    }
    cur_impl!();
    seq_impl!(vec);
    value_impl!(vec);
    slice_impl!(elems, char);
}

impl<'a> HInput<'a> for &'a [u8] {
    fn any_ref<E: HErr<'a, Self>>() -> Res<P<'a, Self, E>> {
        Ok(build::v_any_ref())
    }
    fn select_ref<E: HErr<'a, Self>>(p: Pred, f: Fn1) -> Res<P<'a, Self, E>> {
        Ok(build::v_select_ref(p, f))
    }
    fn padded<E: HErr<'a, Self>>(ws: &[u32], a: P<'a, Self, E>) -> Res<P<'a, Self, E>> {
        build::v_padded(ws, a)
    }
    type Conv = Cur<&'a [u8]>;
    fn pos(cv: &Self::Conv, raw: usize) -> Pos {
        index_pos(cv.get().len(), raw)
    }
    cur_impl!();
    seq_impl!(vec);
    value_impl!(vec);
    slice_impl!(elems, u8);
}

// ----- array: &[char; N] -----

impl<'a, const N: usize> HInput<'a> for &'a [char; N] {
    fn any_ref<E: HErr<'a, Self>>() -> Res<P<'a, Self, E>> {
        Ok(build::v_any_ref())
    }
    fn select_ref<E: HErr<'a, Self>>(p: Pred, f: Fn1) -> Res<P<'a, Self, E>> {
        Ok(build::v_select_ref(p, f))
    }
    type Conv = Cur<&'a [char]>;
    fn pos(cv: &Self::Conv, raw: usize) -> Pos {
        index_pos(cv.get().len(), raw)
    }
    cur_impl!();
    seq_impl!(vec);
    value_impl!(vec);
    slice_impl!(elems, char);
}

// ----- stream / bstream: Stream over the counting iterator -----

/// What the counting iterator has seen.
#[derive(Debug, Default)]
pub struct PullLog {
    /// items handed out
    pub pulled: usize,
    /// index of the item expected next
    next_ix: usize,
    /// an item was pulled twice or out of order
    pub bad: bool,
}

impl PullLog {
    /// ` P<n>` or ` P!` (FORMAT.md).
    pub fn suffix(&self) -> String {
        if self.bad {
            " P!".to_string()
        } else {
            format!(" P{}", self.pulled)
        }
    }
}

/// The iterator under `stream` / `bstream` / `mappedstream`: hands out the items of a vector in order and
/// records every pull in a log shared with the harness. Like a lexer it gives no size hint.
pub struct Counting<T> {
    items: std::vec::IntoIter<T>,
    ix: usize,
    log: Rc<RefCell<PullLog>>,
}

impl<T> Counting<T> {
    pub fn new(items: Vec<T>) -> (Self, Rc<RefCell<PullLog>>) {
        let log = Rc::new(RefCell::new(PullLog::default()));
        (Counting { items: items.into_iter(), ix: 0, log: log.clone() }, log)
    }
}

impl<T> Iterator for Counting<T> {
    type Item = T;
    fn next(&mut self) -> Option<T> {
        let item = self.items.next()?;
        let mut log = self.log.borrow_mut();
        if self.ix != log.next_ix {
            log.bad = true;
        }
        log.next_ix = self.ix + 1;
        log.pulled += 1;
        self.ix += 1;
        Some(item)
    }
}

pub type StreamIn = Stream<Counting<char>>;

impl<'a> HInput<'a> for StreamIn {
    /// the number of tokens
    type Conv = usize;
    fn pos(cv: &usize, raw: usize) -> Pos {
        index_pos(*cv, raw)
    }
    seq_impl!(vec);
    value_impl!(vec);
}

impl<'a> HInput<'a> for BoxedStream<'a, char> {
    type Conv = usize;
    fn pos(cv: &usize, raw: usize) -> Pos {
        index_pos(*cv, raw)
    }
    seq_impl!(vec);
    value_impl!(vec);
}

// ----- mapped kinds: every token carries its span; spans are printed raw -----

pub type Spanned = (char, SimpleSpan<usize>);

/// `|(t, s)| (t, s)` on a borrowed pair (`Input::map` over a by-reference input).
pub fn split_ref<'a>(p: &'a Spanned) -> (&'a char, &'a SimpleSpan<usize>) {
    let (t, s) = p;
    (t, s)
}

/// `|(t, s): (_, _)| (t, s)` on an owned pair (`Input::map` over a by-value input).
pub fn split_val(p: Spanned) -> (char, SimpleSpan<usize>) {
    let (t, s): (_, _) = p;
    (t, s)
}

pub type MappedIn<'a> =
    MappedInput<char, SimpleSpan<usize>, &'a [Spanned], fn(&'a Spanned) -> (&'a char, &'a SimpleSpan<usize>)>;

impl<'a> HInput<'a> for MappedIn<'a> {
    fn any_ref<E: HErr<'a, Self>>() -> Res<P<'a, Self, E>> {
        Ok(build::v_any_ref())
    }
    fn select_ref<E: HErr<'a, Self>>(p: Pred, f: Fn1) -> Res<P<'a, Self, E>> {
        Ok(build::v_select_ref(p, f))
    }
    type Conv = Cur<&'a [Spanned]>;
    fn pos(_cv: &Self::Conv, raw: usize) -> Pos {
        Pos::Ix(raw)
    }
    cur_impl!();
    seq_impl!(vec);
    value_impl!(vec);
    // slices are slices of the original `&[(char, SimpleSpan)]`: printed as token indices
    slice_impl!(elems, Spanned);
}

pub type MappedStreamIn =
    MappedInput<char, SimpleSpan<usize>, Stream<Counting<Spanned>>, fn(Spanned) -> (char, SimpleSpan<usize>)>;

impl<'a> HInput<'a> for MappedStreamIn {
    type Conv = ();
    fn pos(_cv: &(), raw: usize) -> Pos {
        Pos::Ix(raw)
    }
    seq_impl!(vec);
    value_impl!(vec);
}

pub type IterIn = IterInput<std::vec::IntoIter<Spanned>, SimpleSpan<usize>>;

impl<'a> HInput<'a> for IterIn {
    type Conv = ();
    fn pos(_cv: &(), raw: usize) -> Pos {
        Pos::Ix(raw)
    }
    seq_impl!(vec);
    // `IterInput` is an `Input` but not a `ValueInput`
    value_impl!(none);
}

// ----- mapspan: &str with spans shifted by 100 -----

pub const MAPSPAN_SHIFT: usize = 100;

/// `|s: SimpleSpan| SimpleSpan::new(s.start + 100, s.end + 100)`
pub fn shift_span(s: SimpleSpan<usize>) -> SimpleSpan<usize> {
    SimpleSpan::from(s.start + MAPSPAN_SHIFT..s.end + MAPSPAN_SHIFT)
}

pub type MapSpanIn<'a> = MappedSpan<SimpleSpan<usize>, &'a str, fn(SimpleSpan<usize>) -> SimpleSpan<usize>>;

impl<'a> HInput<'a> for MapSpanIn<'a> {
    type Conv = Cur<&'a str>;
    cur_impl!();
    fn pos(cv: &Self::Conv, raw: usize) -> Pos {
        // convert back: subtract the shift, then byte offset -> char index
        match raw.checked_sub(MAPSPAN_SHIFT) {
            Some(b) => match str_pos(cv.get(), b) {
                Pos::Ix(i) => Pos::Ix(i),
                Pos::Bad(_) => Pos::Bad(raw),
            },
            None => Pos::Bad(raw),
        }
    }
    seq_impl!(string);
    value_impl!(string);
    slice_impl!(str);
}

// ----- withctx: &str with spans carrying a context -----

pub type WithCtxIn<'a> = WithContext<SimpleSpan<usize, u8>, &'a str>;

impl<'a> HInput<'a> for WithCtxIn<'a> {
    type Conv = Cur<&'a str>;
    fn pos(cv: &Self::Conv, raw: usize) -> Pos {
        str_pos(cv.get(), raw)
    }
    cur_impl!();
    seq_impl!(string);
    value_impl!(string);
    slice_impl!(str);
}

// ----- io: IoInput over a cursor -----

pub type IoIn = IoInput<std::io::Cursor<Vec<u8>>>;

impl<'a> HInput<'a> for IoIn {
    /// the number of bytes
    type Conv = usize;
    fn pos(cv: &usize, raw: usize) -> Pos {
        index_pos(*cv, raw)
    }
    seq_impl!(vec);
    value_impl!(vec);
}

// ----- tree: token trees (`nested_in`); spans are printed raw -----

/// A token of the `tree` kind: a leaf or a group of spanned tokens. Leaves compare by char, groups by id.
#[derive(Clone, Debug)]
pub enum TT {
    Leaf(char),
    Group(u32, Vec<STT>),
}

pub type STT = (TT, SimpleSpan<usize>);

impl PartialEq for TT {
    fn eq(&self, other: &TT) -> bool {
        match (self, other) {
            (TT::Leaf(a), TT::Leaf(b)) => a == b,
            (TT::Group(a, _), TT::Group(b, _)) => a == b,
            _ => false,
        }
    }
}

impl HTok for TT {
    /// A char is a leaf; a group id stands for "the group with that id" (equality is by id).
    fn from_u32(n: u32) -> Option<TT> {
        if n >= GROUP_ID_MIN {
            Some(TT::Group(n, Vec::new()))
        } else {
            char::from_u32(n).map(TT::Leaf)
        }
    }
    fn to_u32(&self) -> u32 {
        match self {
            TT::Leaf(c) => *c as u32,
            TT::Group(id, _) => *id,
        }
    }
}

/// `|(t, s)| (t, s)` on a borrowed spanned tree token.
pub fn split_tt<'a>(p: &'a STT) -> (&'a TT, &'a SimpleSpan<usize>) {
    let (t, s) = p;
    (t, s)
}

/// The end-of-input span of a token sequence of the mapped kinds and of the `tree` kind: `E-1..E` with
/// `E` = (end of the last token) + 2, or `2..3` for the empty sequence (not zero-width: chumsky only uses its end).
pub fn eoi_of<T>(toks: &[(T, SimpleSpan<usize>)]) -> SimpleSpan<usize> {
    let e = match toks.last() {
        Some((_, s)) => s.end + 2,
        None => 3,
    };
    SimpleSpan::from(e - 1..e)
}

pub type TreeIn<'a> =
    MappedInput<TT, SimpleSpan<usize>, &'a [STT], fn(&'a STT) -> (&'a TT, &'a SimpleSpan<usize>)>;

/// `toks.map(eoi_of(toks), |(t, s)| (t, s))`: the top-level input and the input made of a group's children.
pub fn tree_input<'a>(toks: &'a [STT]) -> TreeIn<'a> {
    <&'a [STT] as Input<'a>>::map(toks, eoi_of(toks), split_tt as fn(&'a STT) -> (&'a TT, &'a SimpleSpan<usize>))
}

/// The token sequence (the top level or the children of some group) that `part` is a slice of, found by
/// address; the slice is printed as a token-index range of that sequence.
fn tree_slice_range(root: &[STT], part: &[STT]) -> (Pos, Pos) {
    fn find<'t>(seq: &'t [STT], part: &[STT]) -> Option<&'t [STT]> {
        let (lo, hi) = (seq.as_ptr() as usize, seq.as_ptr() as usize + std::mem::size_of_val(seq));
        let (s, e) = (part.as_ptr() as usize, part.as_ptr() as usize + std::mem::size_of_val(part));
        if lo <= s && e <= hi {
            return Some(seq);
        }
        seq.iter().find_map(|(t, _)| match t {
            TT::Group(_, children) => find(children, part),
            TT::Leaf(_) => None,
        })
    }
    match find(root, part) {
        Some(seq) => elems_slice_range(seq, part),
        None => (Pos::Bad(part.as_ptr() as usize), Pos::Bad(part.len())),
    }
}

impl<'a> HInput<'a> for TreeIn<'a> {
    /// the top-level sequence
    type Conv = Cur<&'a [STT]>;
    fn pos(_cv: &Self::Conv, raw: usize) -> Pos {
        Pos::Ix(raw)
    }
    cur_impl!();
    seq_impl!(vec);
    value_impl!(vec);

    // slices are slices of the top-level `&[(TT, SimpleSpan)]` or of a group's children
    const HAS_SLICE: bool = true;
    fn to_slice<E: HErr<'a, Self>>(cv: &Self::Conv, p: P<'a, Self, E>) -> Res<P<'a, Self, E>> {
        let root = cv.clone();
        Ok(build::to_slice_with(p, move |part: &'a [STT]| tree_slice_range(root.get(), part)))
    }
    fn extra_slice<E: HErr<'a, Self>>(
        cv: &Self::Conv,
        e: &mut MapExtra<'a, '_, Self, Ex<E>>,
    ) -> Option<(Pos, Pos)> {
        Some(tree_slice_range(cv.get(), e.slice()))
    }

    fn nested_in<E: HErr<'a, Self>>(a: P<'a, Self, E>) -> Res<P<'a, Self, E>> {
        Ok(build::nested_tree(a))
    }
    fn nested_via<E: HErr<'a, Self>>(a: P<'a, Self, E>) -> Res<P<'a, Self, E>> {
        Ok(build::nested_tree_via(a))
    }
}

// ----- graphemes: &Graphemes; gslice: &[&Grapheme] (version 4) -----
//
// Tokens are `&Grapheme`. `HTok` wants `'static` tokens, so the buffers of these two kinds are leaked for the
// duration of a case (`kinds::Leaked`) and the input types are `&'static Graphemes` / `&'static [&'static Grapheme]`
// (written `impl<'a: 'static>` so that the macros above apply unchanged).
//
// Everything the harness itself does with clusters (the ids, the boundaries, making `&Grapheme`s for the grammar
// and for `gslice`) goes through `unicode_segmentation` directly or through plain bytes, never through chumsky's
// own iterators: the tokenizer of `&Graphemes` is what is being tested.

/// `&str -> &Grapheme` for a string that is one cluster. (chumsky's constructor `Grapheme::new` is private; the only
/// public way to a `&Grapheme` is its own tokenizer.)
pub fn grapheme_of(s: &str) -> &Grapheme {
    // SAFETY: `Grapheme` is `#[repr(transparent)]` over `str`; this is the cast chumsky's `Grapheme::new` does
    unsafe { &*(s as *const str as *const Grapheme) }
}

/// The string of a cluster id: the code point itself, or entry `id - CLUSTER_ID_MIN` of `CLUSTERS`.
pub fn cluster_str(id: u32) -> Option<String> {
    match id.checked_sub(CLUSTER_ID_MIN) {
        Some(k) => CLUSTERS.get(k as usize).map(|s| s.to_string()),
        None => char::from_u32(id).map(String::from),
    }
}

/// The id of a cluster given as bytes (bytes: a broken tokenizer may hand out something that is not UTF-8).
pub fn cluster_id(b: &[u8]) -> u32 {
    if let Ok(s) = std::str::from_utf8(b) {
        let mut cs = s.chars();
        if let (Some(c), None) = (cs.next(), cs.next()) {
            return c as u32;
        }
        if let Some(k) = CLUSTERS.iter().position(|c| *c == s) {
            return CLUSTER_ID_MIN + k as u32;
        }
    }
    CLUSTER_ID_UNKNOWN
}

thread_local! {
    /// The `&'static Grapheme`s made for the token lists of grammars, one per id (a worker serves many cases).
    static CLUSTER_TOKENS: RefCell<std::collections::HashMap<u32, &'static Grapheme>> =
        RefCell::new(std::collections::HashMap::new());
}

impl HTok for &'static Grapheme {
    fn from_u32(n: u32) -> Option<&'static Grapheme> {
        CLUSTER_TOKENS.with(|m| {
            if let Some(g) = m.borrow().get(&n) {
                return Some(*g);
            }
            let s: &'static str = Box::leak(cluster_str(n)?.into_boxed_str());
            let g = grapheme_of(s);
            m.borrow_mut().insert(n, g);
            Some(g)
        })
    }
    fn to_u32(&self) -> u32 {
        cluster_id(self.as_bytes())
    }
}

/// The text of a case of the grapheme kinds with its reference segmentation.
pub struct GText {
    /// the concatenation of the clusters
    pub s: String,
    /// byte offsets of the reference cluster boundaries: `bounds[i]` = start of cluster `i`, `bounds[n] = s.len()`
    pub bounds: Vec<usize>,
}

impl GText {
    /// `None`: `unicode_segmentation::graphemes(s, true)` does not give back the tokens one for one (neighbours
    /// merge, e.g. 13 followed by 10), or an id is not a cluster id.
    pub fn new(ids: &[u32]) -> Option<GText> {
        let parts: Vec<String> = ids.iter().map(|&id| cluster_str(id)).collect::<Option<_>>()?;
        let s: String = parts.concat();
        let mut bounds = Vec::with_capacity(ids.len() + 1);
        let mut n = 0;
        for (at, piece) in s.grapheme_indices(true) {
            if parts.get(n).map(String::as_str) != Some(piece) {
                return None;
            }
            bounds.push(at);
            n += 1;
        }
        if n != parts.len() {
            return None;
        }
        bounds.push(s.len());
        Some(GText { s, bounds })
    }

    /// The reference clusters.
    pub fn clusters(&self) -> impl Iterator<Item = &str> {
        self.bounds.windows(2).map(|w| &self.s[w[0]..w[1]])
    }

    /// Byte offset -> index of the reference cluster that starts there (`len` for the end of the text).
    fn pos(&self, raw: usize) -> Pos {
        match self.bounds.binary_search(&raw) {
            Ok(i) => Pos::Ix(i),
            Err(_) => Pos::Bad(raw),
        }
    }

    /// Token-index range of `part`, located in the text by address.
    fn slice_range(&self, part: &[u8]) -> (Pos, Pos) {
        let (s, e) = byte_range(self.s.as_ptr(), part.as_ptr(), part.len());
        (self.pos(s), self.pos(e))
    }
}

impl<'a: 'static> HInput<'a> for &'a Graphemes {
    type Conv = Cur<&'a GText>;
    /// byte offsets, printed as token indices like `str`; not a reference cluster boundary: `!<raw>`
    fn pos(cv: &Self::Conv, raw: usize) -> Pos {
        cv.get().pos(raw)
    }
    cur_impl!();
    seq_impl!(grapheme);
    value_impl!(grapheme);

    // slices are `&Graphemes` into the text
    const HAS_SLICE: bool = true;
    fn to_slice<E: HErr<'a, Self>>(cv: &Self::Conv, p: P<'a, Self, E>) -> Res<P<'a, Self, E>> {
        let whole = cv.clone();
        Ok(build::to_slice_with(p, move |part: &'a Graphemes| whole.get().slice_range(part.as_bytes())))
    }
    fn extra_slice<E: HErr<'a, Self>>(
        cv: &Self::Conv,
        e: &mut MapExtra<'a, '_, Self, Ex<E>>,
    ) -> Option<(Pos, Pos)> {
        Some(cv.get().slice_range(e.slice().as_bytes()))
    }
}

impl<'a: 'static> HInput<'a> for &'a [&'a Grapheme] {
    type Conv = Cur<&'a [&'a Grapheme]>;
    fn pos(cv: &Self::Conv, raw: usize) -> Pos {
        index_pos(cv.get().len(), raw)
    }
    cur_impl!();
    seq_impl!(grapheme);
    value_impl!(grapheme);
    slice_impl!(elems, &'a Grapheme);
}
