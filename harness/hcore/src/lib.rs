//! The generic part of the chumsky test harness (see /verif/FORMAT.md): case files, the grammar AST, the
//! universal value, canonical printing of errors, the input kinds and the generic builder.
//!
//! Nothing here is instantiated for a concrete input kind / error type: that happens in the worker crates
//! (`workers/*`, one per combination), so that the instantiations compile in parallel.
//!
//! Version 3: drop accounting (`val::Tracked`, `val::track`; applied in `worker::run_line` and `hist`), history
//! cases (`hist`, served by the `str`/`slice` workers), the `tree` input kind with `NestedIn` (`input::TT`,
//! `build::nested_tree`). The thread cases live in `workers/src/threads.rs` (statically typed grammars).
//!
//! Version 4: the grapheme kinds `graphemes` (`&chumsky::text::Graphemes`) and `gslice` (`&[&Grapheme]`): cluster
//! ids (`ast::CLUSTERS`), the reference segmentation (`input::GText`), the runners `kinds::run_graphemes` /
//! `kinds::run_gslice`.

pub mod ast;
pub mod build;
pub mod errs;
pub mod hist;
pub mod input;
pub mod kinds;
pub mod sexp;
pub mod val;
pub mod worker;
