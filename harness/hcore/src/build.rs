//! The dynamic builder: grammar AST -> boxed chumsky parser, following the table in /verif/FORMAT.md.
//!
//! Every `G` node becomes a `P<'a, I, E>` = `Boxed<'a, 'a, I, Val, extra::Full<E, HState, Val>>`.
//! The builder is generic over the input kind (`HInput`) and the error type (`HErr`).
//!
//! Iterable grammars (`IT`) cannot be boxed (`IterParser` is not object safe), so they are composed
//! statically: a base (`IRep | ISep | IOrNot | IRepCfg`), an adaptor stack of depth 0..=2
//! (`IEnum | IMap | IMapWith`) and the finisher are put together inside generic functions of fixed depth
//! (`both2 -> both1 -> iter0`, `iter2 -> iter1 -> iter0`, `finish`). See the section "iterables" below for
//! what chumsky's API admits.

use std::marker::PhantomData;

use chumsky::input::{Emitter, InputRef, MapExtra};
use chumsky::prelude::*;
use chumsky::primitive::select;

use crate::ast::{CKind, G, IT};
use crate::errs::HErr;
use crate::input::{HInput, HState};
use crate::val::{ap1, apmw, holds, val_count, val_toks, Fn1, Mw, Pos, Val};

/// The extra type used everywhere: error `E`, state `HState`, context `Val`.
pub type Ex<E> = extra::Full<E, HState, Val>;
/// A boxed parser with output `Val`.
pub type P<'a, I, E> = Boxed<'a, 'a, I, Val, Ex<E>>;
/// A boxed parser with (native) output `()`.
pub type PU<'a, I, E> = Boxed<'a, 'a, I, (), Ex<E>>;

/// The grammar cannot be built for this input kind (result `UNSUPPORTED`); the text says why.
#[derive(Debug)]
pub struct Unsupported(pub &'static str);
pub type Res<T> = Result<T, Unsupported>;

fn unsupported<T>(why: &'static str) -> Res<T> {
    Err(Unsupported(why))
}

pub struct Builder<'a, I: HInput<'a>, E: HErr<'a, I>> {
    /// The caller's input: needed to convert raw offsets to token indices and to locate slices.
    input: I,
    _p: PhantomData<fn() -> (&'a (), E)>,
}

/// Box a parser, pinning down input, output and extra types (helps inference of the primitives).
fn bx<'a, I, E, T>(p: T) -> P<'a, I, E>
where
    I: HInput<'a>,
    E: HErr<'a, I>,
    T: Parser<'a, I, Val, Ex<E>> + 'a,
{
    p.boxed()
}

fn bxu<'a, I, E, T>(p: T) -> PU<'a, I, E>
where
    I: HInput<'a>,
    E: HErr<'a, I>,
    T: Parser<'a, I, (), Ex<E>> + 'a,
{
    p.boxed()
}

fn span_val<'a, I: HInput<'a>>(inp: &I, s: SimpleSpan<usize>) -> Val {
    Val::Span(inp.pos(s.start), inp.pos(s.end))
}

/// The `map_with` closure body: `apmw(mw, v, e.span(), e.slice(), e.state().h, e.ctx())`.
fn mw_apply<'a, I, E>(inp: &I, mw: Mw, v: Val, e: &mut MapExtra<'a, '_, I, Ex<E>>) -> Val
where
    I: HInput<'a>,
    E: HErr<'a, I>,
{
    let sp = e.span();
    let sp = (inp.pos(sp.start), inp.pos(sp.end));
    let sl = if mw == Mw::Slice {
        inp.extra_slice(e).expect("MWSlice is only built for kinds with HAS_SLICE")
    } else {
        (Pos::Ix(0), Pos::Ix(0))
    };
    let h = e.state().h;
    apmw(mw, v, sp, sl, h, e.ctx())
}

/// The `foldl_with` / `foldr_with` closure body.
fn fold_with<'a, I, E>(inp: &I, k: usize, x: Val, y: Val, e: &mut MapExtra<'a, '_, I, Ex<E>>) -> Val
where
    I: HInput<'a>,
    E: HErr<'a, I>,
{
    let sp = e.span();
    let h = e.state().h;
    Val::tag(
        k,
        Val::pair(Val::pair(x, y), Val::pair(span_val(inp, sp), Val::Nat(h as usize))),
    )
}

macro_rules! tuple_of {
    ($ps:ident; $($n:tt)*) => { ( $( $ps[$n].clone(), )* ) };
}

impl<'a, I: HInput<'a>, E: HErr<'a, I>> Builder<'a, I, E> {
    pub fn new(input: I) -> Self {
        Builder { input, _p: PhantomData }
    }

    fn seq_string(ts: &[char]) -> String {
        ts.iter().collect()
    }

    /// Build the parser for a grammar.
    pub fn g(&self, g: &G) -> Res<P<'a, I, E>> {
        Ok(match g {
            // ---------- primitives ----------
            G::End => bx(end::<I, Ex<E>>().map(|()| Val::Unit)),
            G::Empty => bx(empty::<I, Ex<E>>().map(|()| Val::Unit)),
            G::Any => bx(any::<I, Ex<E>>().map(Val::Tok)),
            G::Just(ts) => match ts.as_slice() {
                [c] => bx(just::<char, I, Ex<E>>(*c).map(|c: char| Val::toks([c]))),
                _ if I::SEQ_IS_STRING => bx(just::<String, I, Ex<E>>(Self::seq_string(ts))
                    .map(|s: String| Val::toks(s.chars()))),
                _ => bx(just::<Vec<char>, I, Ex<E>>(ts.clone()).map(|v: Vec<char>| Val::toks(v))),
            },
            G::OneOf(ts) => {
                if I::SEQ_IS_STRING {
                    bx(one_of::<String, I, Ex<E>>(Self::seq_string(ts)).map(Val::Tok))
                } else {
                    bx(one_of::<Vec<char>, I, Ex<E>>(ts.clone()).map(Val::Tok))
                }
            }
            G::NoneOf(ts) => {
                if I::SEQ_IS_STRING {
                    bx(none_of::<String, I, Ex<E>>(Self::seq_string(ts)).map(Val::Tok))
                } else {
                    bx(none_of::<Vec<char>, I, Ex<E>>(ts.clone()).map(Val::Tok))
                }
            }
            G::Select(p, f) => {
                let (p, f) = (p.clone(), f.clone());
                bx(select(move |t: char, _e: &mut MapExtra<'a, '_, I, Ex<E>>| {
                    let v = Val::Tok(t);
                    if holds(&p, &v) {
                        Some(ap1(&f, v))
                    } else {
                        None
                    }
                }))
            }
            G::Custom(ts, k) => {
                let (ts, k) = (ts.clone(), *k);
                // no rewind on failure: the cursor stays where the mismatch was read
                bx(custom(move |inp: &mut InputRef<'a, '_, I, Ex<E>>| {
                    let b = inp.cursor();
                    for &t in &ts {
                        match inp.next() {
                            Some(u) if u == t => {}
                            _ => return Err(E::custom(k, inp.span_since(&b))),
                        }
                    }
                    Ok(Val::toks(ts.iter().copied()))
                }))
            }

            // ---------- output shaping ----------
            G::Map(f, a) => {
                let f = f.clone();
                bx(self.g(a)?.map(move |v: Val| ap1(&f, v)))
            }
            G::MapWith(mw, a) => {
                let a = self.g(a)?;
                let mw = self.check_mw(*mw)?;
                let inp = self.input.clone();
                bx(a.map_with(move |v: Val, e: &mut MapExtra<'a, '_, I, Ex<E>>| mw_apply(&inp, mw, v, e)))
            }
            G::To(n, a) => bx(self.g(a)?.to(Val::Nat(*n))),
            G::Ignored(a) => bx(self.g(a)?.ignored().map(|()| Val::Unit)),
            G::ToSpan(a) => {
                let inp = self.input.clone();
                bx(self.g(a)?.to_span().map(move |s: SimpleSpan<usize>| span_val(&inp, s)))
            }
            G::ToSlice(a) => {
                let a = self.g(a)?;
                match self.input.to_slice(a) {
                    Some(p) => p,
                    None => return unsupported("ToSlice: input kind has no SliceInput"),
                }
            }
            G::Filter(p, a) => {
                let p = p.clone();
                bx(self.g(a)?.filter(move |v: &Val| holds(&p, v)))
            }
            G::TryMap(p, f, k, a) => {
                let (p, f, k) = (p.clone(), f.clone(), *k);
                bx(self.g(a)?.try_map(move |v: Val, span: SimpleSpan<usize>| {
                    if holds(&p, &v) {
                        Ok(ap1(&f, v))
                    } else {
                        Err(E::custom(k, span))
                    }
                }))
            }
            G::TryMapWith(p, f, k, a) => {
                let (p, f, k) = (p.clone(), f.clone(), *k);
                bx(self.g(a)?.try_map_with(move |v: Val, e: &mut MapExtra<'a, '_, I, Ex<E>>| {
                    if holds(&p, &v) {
                        Ok(ap1(&f, v))
                    } else {
                        Err(E::custom(k, e.span()))
                    }
                }))
            }
            G::Validate(p, k, a) => {
                let (p, k) = (p.clone(), *k);
                bx(self.g(a)?.validate(
                    move |v: Val, e: &mut MapExtra<'a, '_, I, Ex<E>>, em: &mut Emitter<E>| {
                        if holds(&p, &v) {
                            em.emit(E::custom(k, e.span()));
                        }
                        v
                    },
                ))
            }

            // ---------- sequencing ----------
            G::Then(a, b) => bx(self.g(a)?.then(self.g(b)?).map(|(x, y): (Val, Val)| Val::pair(x, y))),
            G::IgnoreThen(a, b) => bx(self.g(a)?.ignore_then(self.g(b)?)),
            G::ThenIgnore(a, b) => bx(self.g(a)?.then_ignore(self.g(b)?)),
            G::DelimitedBy(a, l, r) => bx(self.g(a)?.delimited_by(self.g(l)?, self.g(r)?)),
            G::PaddedBy(a, p) => bx(self.g(a)?.padded_by(self.g(p)?)),
            G::Group(gs) => {
                let ps = self.gs(gs)?;
                match ps.len() {
                    1 => bx(group(tuple_of!(ps; 0)).map(|(a,)| Val::List(vec![a]))),
                    2 => bx(group(tuple_of!(ps; 0 1)).map(|(a, b)| Val::List(vec![a, b]))),
                    3 => bx(group(tuple_of!(ps; 0 1 2)).map(|(a, b, c)| Val::List(vec![a, b, c]))),
                    4 => bx(group(tuple_of!(ps; 0 1 2 3)).map(|(a, b, c, d)| Val::List(vec![a, b, c, d]))),
                    5 => bx(group(tuple_of!(ps; 0 1 2 3 4))
                        .map(|(a, b, c, d, e)| Val::List(vec![a, b, c, d, e]))),
                    6 => bx(group(tuple_of!(ps; 0 1 2 3 4 5))
                        .map(|(a, b, c, d, e, f)| Val::List(vec![a, b, c, d, e, f]))),
                    _ => return unsupported("Group: the tuple form is built for 1..=6 elements"),
                }
            }

            // ---------- choice / option / lookahead ----------
            G::Or(a, b) => bx(self.g(a)?.or(self.g(b)?)),
            G::Choice(gs) => {
                let ps = self.gs(gs)?;
                match ps.len() {
                    1 => bx(choice(tuple_of!(ps; 0))),
                    2 => bx(choice(tuple_of!(ps; 0 1))),
                    3 => bx(choice(tuple_of!(ps; 0 1 2))),
                    4 => bx(choice(tuple_of!(ps; 0 1 2 3))),
                    5 => bx(choice(tuple_of!(ps; 0 1 2 3 4))),
                    6 => bx(choice(tuple_of!(ps; 0 1 2 3 4 5))),
                    _ => return unsupported("Choice: tuple form is built for 1..=6 elements"),
                }
            }
            G::ChoiceVec(gs) => bx(choice(self.gs(gs)?)),
            G::OrNot(a) => bx(self.g(a)?.or_not().map(Val::opt)),
            G::Not(a) => bx(self.g(a)?.not().map(|()| Val::Unit)),
            G::AndIs(a, b) => bx(self.g(a)?.and_is(self.g(b)?)),
            G::Rewind(a) => bx(self.g(a)?.rewind()),

            // ---------- iteration ----------
            G::RepUnit(it) => bx(self.rep_unit(it)?.map(|()| Val::Unit)),
            G::Collect(ck, it) => self.iterable(it, Fin::Collect(*ck))?,
            G::CollectExactly(n, it) => self.iterable(it, Fin::Exactly(*n))?,
            G::Foldl(a, it, k) => self.iterable(it, Fin::Foldl(self.g(a)?, *k))?,
            G::Foldr(it, b, k) => self.iterable(it, Fin::Foldr(self.g(b)?, *k))?,
            G::FoldlWith(a, it, k) => self.iterable(it, Fin::FoldlWith(self.g(a)?, *k))?,
            G::FoldrWith(it, b, k) => self.iterable(it, Fin::FoldrWith(self.g(b)?, *k))?,

            // ---------- recovery ----------
            G::RecoverVia(a, b) => bx(self.g(a)?.recover_with(via_parser(self.g(b)?))),
            G::RecoverSkipUntil(a, skip, until, fb) => {
                let fb = *fb;
                bx(self.g(a)?.recover_with(skip_until(
                    self.g(skip)?.ignored(),
                    self.g(until)?.ignored(),
                    move || Val::Nat(fb),
                )))
            }
            G::RecoverSkipRetry(a, skip, until) => bx(self.g(a)?.recover_with(skip_then_retry_until(
                self.g(skip)?.ignored(),
                self.g(until)?.ignored(),
            ))),

            // ---------- error decoration ----------
            G::Labelled(l, is_ctx, a) => {
                let p = self.g(a)?.labelled(l.to_string());
                if *is_ctx {
                    bx(p.as_context())
                } else {
                    bx(p)
                }
            }
            G::MapErr(k, a) => {
                let k = *k;
                bx(self.g(a)?.map_err(move |e: E| E::custom(k, e.hspan())))
            }

            // ---------- context ----------
            G::WithCtx(v, a) => bx(self.g(a)?.with_ctx(v.clone())),
            G::IgnoreWithCtx(a, b) => bx(self.g(a)?.ignore_with_ctx(self.g(b)?)),
            G::ThenWithCtx(a, b) => {
                bx(self.g(a)?.then_with_ctx(self.g(b)?).map(|(c, v): (Val, Val)| Val::pair(c, v)))
            }
            G::MapCtx(f, a) => {
                let f = f.clone();
                bx(map_ctx::<_, Val, I, Ex<E>, Ex<E>, _>(move |c: &Val| ap1(&f, c.clone()), self.g(a)?))
            }
            G::JustCfg(ts) => {
                // the sequence type must be the same for the built-in and the configured sequence
                if I::SEQ_IS_STRING {
                    bx(just::<String, I, Ex<E>>(Self::seq_string(ts))
                        .configure(|cfg, ctx: &Val| cfg.seq(val_toks(ctx).into_iter().collect::<String>()))
                        .map(|s: String| Val::toks(s.chars())))
                } else {
                    bx(just::<Vec<char>, I, Ex<E>>(ts.clone())
                        .configure(|cfg, ctx: &Val| cfg.seq(val_toks(ctx)))
                        .map(|v: Vec<char>| Val::toks(v)))
                }
            }
        })
    }

    fn gs(&self, gs: &[G]) -> Res<Vec<P<'a, I, E>>> {
        gs.iter().map(|g| self.g(g)).collect()
    }

    fn check_mw(&self, mw: Mw) -> Res<Mw> {
        if mw == Mw::Slice && !I::HAS_SLICE {
            unsupported("MWSlice: input kind has no SliceInput")
        } else {
            Ok(mw)
        }
    }

    /// A grammar whose chumsky parser has the *native* output type `()` (not mapped into `Val`).
    /// Needed as the item of iterables that are adapted with `IMap`/`IMapWith` (see below).
    fn g_unit(&self, g: &G) -> Res<PU<'a, I, E>> {
        Ok(match g {
            G::End => bxu(end::<I, Ex<E>>()),
            G::Empty => bxu(empty::<I, Ex<E>>()),
            G::Ignored(a) => bxu(self.g(a)?.ignored()),
            G::Not(a) => bxu(self.g(a)?.not()),
            G::RepUnit(it) => self.rep_unit(it)?,
            _ => {
                return unsupported(
                    "IMap/IMapWith: the item grammar must have native output () (End, Empty, Ignored, Not, RepUnit)",
                )
            }
        })
    }

    // =====================================================================================
    // iterables
    //
    // What chumsky 0.10 admits (and therefore what the menu is):
    //  * `enumerate()` exists on every `IterParser`; its items are `(usize, T)`. `Enumerate` is *not* a
    //    `Parser`, so nothing can be mapped over it; the conversion of items to `Pair(Nat(i), v)` is done by
    //    the finisher (`Item::into_val`).
    //  * There is no `IterParser::map` / `IterParser::map_with` method. `Map`/`MapWith` implement
    //    `IterParser` when their inner parser does, but they can only be constructed with `Parser::map` /
    //    `Parser::map_with`, whose closure takes the *parser* output of the receiver. For `Repeated`,
    //    `SeparatedBy` and `IterConfigure` that output is `()`, and the `IterParser` impl of `Map` then needs
    //    the item type to be `()` as well. Hence `IMap`/`IMapWith` are buildable exactly when the base is
    //    `IRep | ISep | IRepCfg` over an item parser with native output `()` (`g_unit`), and no `IEnum` sits
    //    below them. `OrNot` is a `Parser<Option<O>>` but an `IterParser<O>`: never mappable.
    // =====================================================================================

    /// `RepUnit`: the iterable used directly as a `Parser<_, ()>`; only for un-adapted `IRep | ISep | IRepCfg`.
    fn rep_unit(&self, it: &IT) -> Res<PU<'a, I, E>> {
        Ok(match it {
            IT::IRep(a, lo, hi) => bxu(self.rep(self.g(a)?, *lo, *hi)),
            IT::ISep(a, sep, lo, hi, lead, trail) => {
                bxu(self.sep(self.g(a)?, self.g(sep)?, *lo, *hi, *lead, *trail))
            }
            IT::IRepCfg(a, lo, hi) => bxu(
                self.rep(self.g(a)?, *lo, *hi)
                    .configure(|cfg, ctx: &Val| cfg.exactly(val_count(ctx))),
            ),
            _ => return unsupported("RepUnit: only IRep, ISep, IRepCfg at the root"),
        })
    }

    fn rep<T: 'a, A>(&self, a: A, lo: usize, hi: Option<usize>) -> chumsky::combinator::Repeated<A, T, I, Ex<E>>
    where
        A: Parser<'a, I, T, Ex<E>>,
    {
        let r = a.repeated().at_least(lo);
        match hi {
            Some(h) => r.at_most(h),
            None => r,
        }
    }

    fn sep<T: 'a, A>(
        &self,
        a: A,
        sep: P<'a, I, E>,
        lo: usize,
        hi: Option<usize>,
        lead: bool,
        trail: bool,
    ) -> chumsky::combinator::SeparatedBy<A, P<'a, I, E>, T, Val, I, Ex<E>>
    where
        A: Parser<'a, I, T, Ex<E>>,
    {
        let mut s = a.separated_by(sep).at_least(lo);
        if let Some(h) = hi {
            s = s.at_most(h);
        }
        if lead {
            s = s.allow_leading();
        }
        if trail {
            s = s.allow_trailing();
        }
        s
    }

    /// Build `finisher(adaptors(base))`.
    fn iterable(&self, it: &IT, fin: Fin<'a, I, E>) -> Res<P<'a, I, E>> {
        // peel the adaptor stack; `ads` is ordered from the innermost (applied first) to the outermost
        let mut ads = Vec::new();
        let mut base = it;
        loop {
            match base {
                IT::IEnum(j) => {
                    ads.push(Ad::Enum);
                    base = j;
                }
                IT::IMap(f, j) => {
                    ads.push(Ad::Map(f.clone()));
                    base = j;
                }
                IT::IMapWith(mw, j) => {
                    ads.push(Ad::MapWith(self.check_mw(*mw)?));
                    base = j;
                }
                _ => break,
            }
        }
        ads.reverse();
        if ads.len() > 2 {
            return unsupported("iterable: adaptor stack deeper than 2");
        }
        let mapped = ads.iter().any(|a| !matches!(a, Ad::Enum));

        match base {
            // items are `Val`: only `IEnum` adaptors possible
            IT::IRep(a, lo, hi) if !mapped => self.iter2(self.rep(self.g(a)?, *lo, *hi), &ads, fin),
            IT::ISep(a, sep, lo, hi, lead, trail) if !mapped => {
                self.iter2(self.sep(self.g(a)?, self.g(sep)?, *lo, *hi, *lead, *trail), &ads, fin)
            }
            IT::IRepCfg(a, lo, hi) if !mapped => self.iter2(
                self.rep(self.g(a)?, *lo, *hi)
                    .configure(|cfg, ctx: &Val| cfg.exactly(val_count(ctx))),
                &ads,
                fin,
            ),
            IT::IOrNot(a) if !mapped => self.iter2(self.g(a)?.or_not(), &ads, fin),
            IT::IOrNot(_) => unsupported("IMap/IMapWith over IOrNot does not type-check in chumsky"),

            // items are `()`: `Parser::map` / `Parser::map_with` apply
            IT::IRep(a, lo, hi) => self.both2(self.rep(self.g_unit(a)?, *lo, *hi), &ads, fin),
            IT::ISep(a, sep, lo, hi, lead, trail) => {
                self.both2(self.sep(self.g_unit(a)?, self.g(sep)?, *lo, *hi, *lead, *trail), &ads, fin)
            }
            IT::IRepCfg(a, lo, hi) => self.both2(
                self.rep(self.g_unit(a)?, *lo, *hi)
                    .configure(|cfg, ctx: &Val| cfg.exactly(val_count(ctx))),
                &ads,
                fin,
            ),
            IT::IEnum(_) | IT::IMap(..) | IT::IMapWith(..) => unreachable!("adaptors were peeled"),
        }
    }

    // ----- adaptor levels for iterables that are only `IterParser`s: `IEnum` is the only adaptor -----

    fn iter2<T: Item, X>(&self, it: X, ads: &[Ad], fin: Fin<'a, I, E>) -> Res<P<'a, I, E>>
    where
        X: IterParser<'a, I, T, Ex<E>> + 'a,
    {
        match ads.split_first() {
            None => self.finish(it, fin),
            Some((Ad::Enum, rest)) => self.iter1(it.enumerate(), rest, fin),
            Some(_) => unsupported("IMap/IMapWith over an iterable that is not also a Parser of its item type"),
        }
    }

    fn iter1<T: Item, X>(&self, it: X, ads: &[Ad], fin: Fin<'a, I, E>) -> Res<P<'a, I, E>>
    where
        X: IterParser<'a, I, T, Ex<E>> + 'a,
    {
        match ads.split_first() {
            None => self.finish(it, fin),
            Some((Ad::Enum, rest)) => self.iter0(it.enumerate(), rest, fin),
            Some(_) => unsupported("IMap/IMapWith over an iterable that is not also a Parser of its item type"),
        }
    }

    fn iter0<T: Item, X>(&self, it: X, ads: &[Ad], fin: Fin<'a, I, E>) -> Res<P<'a, I, E>>
    where
        X: IterParser<'a, I, T, Ex<E>> + 'a,
    {
        match ads.split_first() {
            None => self.finish(it, fin),
            Some(_) => unsupported("iterable: adaptor stack deeper than 2"),
        }
    }

    // ----- adaptor levels for iterables that are also `Parser`s of their item type -----

    /// Entry level: only reached with a stack that starts (innermost) with `IMap`/`IMapWith`
    /// (`iterable` routes un-mapped stacks to `iter2`), which keeps the number of instantiations down.
    fn both2<T: Item, X>(&self, it: X, ads: &[Ad], fin: Fin<'a, I, E>) -> Res<P<'a, I, E>>
    where
        X: Parser<'a, I, T, Ex<E>> + IterParser<'a, I, T, Ex<E>> + 'a,
    {
        match ads.split_first() {
            Some((Ad::Map(f), rest)) => {
                let f = f.clone();
                self.both1(Parser::map(it, move |x: T| ap1(&f, x.into_val())), rest, fin)
            }
            Some((Ad::MapWith(mw), rest)) => {
                let (mw, inp) = (*mw, self.input.clone());
                self.both1(
                    Parser::map_with(it, move |x: T, e: &mut MapExtra<'a, '_, I, Ex<E>>| {
                        mw_apply(&inp, mw, x.into_val(), e)
                    }),
                    rest,
                    fin,
                )
            }
            // `Enumerate` is not a `Parser`: nothing can be mapped over it
            _ => unsupported("IMap/IMapWith above IEnum does not type-check in chumsky"),
        }
    }

    fn both1<T: Item, X>(&self, it: X, ads: &[Ad], fin: Fin<'a, I, E>) -> Res<P<'a, I, E>>
    where
        X: Parser<'a, I, T, Ex<E>> + IterParser<'a, I, T, Ex<E>> + 'a,
    {
        match ads.split_first() {
            None => self.finish(it, fin),
            Some((Ad::Enum, rest)) => self.iter0(IterParser::enumerate(it), rest, fin),
            Some((Ad::Map(f), rest)) => {
                let f = f.clone();
                self.iter0(Parser::map(it, move |x: T| ap1(&f, x.into_val())), rest, fin)
            }
            Some((Ad::MapWith(mw), rest)) => {
                let (mw, inp) = (*mw, self.input.clone());
                self.iter0(
                    Parser::map_with(it, move |x: T, e: &mut MapExtra<'a, '_, I, Ex<E>>| {
                        mw_apply(&inp, mw, x.into_val(), e)
                    }),
                    rest,
                    fin,
                )
            }
        }
    }

    // ----- finishers -----

    fn finish<T: Item, X>(&self, it: X, fin: Fin<'a, I, E>) -> Res<P<'a, I, E>>
    where
        X: IterParser<'a, I, T, Ex<E>> + 'a,
    {
        Ok(match fin {
            Fin::Collect(CKind::Vec) => bx(it.collect::<Vec<T>>().map(items_val::<T, _>)),
            Fin::Collect(CKind::Count) => bx(it.collect::<usize>().map(Val::Nat)),
            Fin::Collect(CKind::Unit) => bx(it.collect::<()>().map(|()| Val::Unit)),
            Fin::Exactly(0) => bx(it.collect_exactly::<[T; 0]>().map(items_val::<T, _>)),
            Fin::Exactly(1) => bx(it.collect_exactly::<[T; 1]>().map(items_val::<T, _>)),
            Fin::Exactly(2) => bx(it.collect_exactly::<[T; 2]>().map(items_val::<T, _>)),
            Fin::Exactly(3) => bx(it.collect_exactly::<[T; 3]>().map(items_val::<T, _>)),
            Fin::Exactly(4) => bx(it.collect_exactly::<[T; 4]>().map(items_val::<T, _>)),
            Fin::Exactly(_) => return unsupported("CollectExactly: built for n in 0..=4"),
            Fin::Foldl(a, k) => {
                bx(a.foldl(it, move |acc: Val, x: T| Val::tag(k, Val::pair(acc, x.into_val()))))
            }
            Fin::Foldr(b, k) => {
                bx(it.foldr(b, move |x: T, acc: Val| Val::tag(k, Val::pair(x.into_val(), acc))))
            }
            Fin::FoldlWith(a, k) => {
                let inp = self.input.clone();
                bx(a.foldl_with(it, move |acc: Val, x: T, e: &mut MapExtra<'a, '_, I, Ex<E>>| {
                    fold_with(&inp, k, acc, x.into_val(), e)
                }))
            }
            Fin::FoldrWith(b, k) => {
                let inp = self.input.clone();
                bx(it.foldr_with(b, move |x: T, acc: Val, e: &mut MapExtra<'a, '_, I, Ex<E>>| {
                    fold_with(&inp, k, x.into_val(), acc, e)
                }))
            }
        })
    }
}

/// An adaptor of an iterable.
enum Ad {
    Enum,
    Map(Fn1),
    MapWith(Mw),
}

/// What consumes the iterable.
enum Fin<'a, I: HInput<'a>, E: HErr<'a, I>> {
    Collect(CKind),
    Exactly(usize),
    Foldl(P<'a, I, E>, usize),
    Foldr(P<'a, I, E>, usize),
    FoldlWith(P<'a, I, E>, usize),
    FoldrWith(P<'a, I, E>, usize),
}

/// Item types of the iterables in the menu, and their image in `Val`.
pub trait Item: 'static {
    fn into_val(self) -> Val;
}

impl Item for Val {
    fn into_val(self) -> Val {
        self
    }
}

impl Item for () {
    fn into_val(self) -> Val {
        Val::Unit
    }
}

/// `enumerate()` items: `Pair(Nat(i), v)`.
impl<T: Item> Item for (usize, T) {
    fn into_val(self) -> Val {
        Val::pair(Val::Nat(self.0), self.1.into_val())
    }
}

fn items_val<T: Item, C: IntoIterator<Item = T>>(items: C) -> Val {
    Val::List(items.into_iter().map(T::into_val).collect())
}
