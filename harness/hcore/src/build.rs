//! The dynamic builder: grammar AST -> boxed chumsky parser, following the table in /verif/FORMAT.md.
//!
//! Every `G` node becomes a `P<'a, I, E>` = `Boxed<'a, 'a, I, Val, extra::Full<E, HState, Val>>`.
//! The builder is generic over the input kind (`HInput`) and the error type (`HErr`); it is instantiated in the
//! worker crates only (one per input kind and error type).
//!
//! Iterable grammars (`IT`) cannot be boxed (`IterParser` is not object safe), so they are composed
//! statically: a base (`IRep | ISep | IOrNot | IRepCfg`), an adaptor stack of depth 0..=2
//! (`IEnum | IMap | IMapWith`) and the finisher are put together inside generic functions of fixed depth
//! (`both2 -> both1 -> iter0`, `iter2 -> iter1 -> iter0`, `finish`). See the section "iterables" below for
//! what chumsky's API admits.

use std::cell::RefCell;
use std::marker::PhantomData;

use chumsky::input::{Emitter, InputRef, MapExtra, SliceInput, ValueInput};
use chumsky::pratt::{self, Operator};
use chumsky::prelude::*;
use chumsky::primitive::select;
use chumsky::recursive::{Direct, Indirect};

use crate::ast::{CKind, Cop, PForm, POp, G, IT};
use crate::errs::HErr;
use crate::input::{tree_input, HInput, HSpan, HState, TreeIn, TT};
use crate::val::{ap1, apmw, holds, val_count, Fn1, HTok, Mw, Pos, Pred, Val};

/// The extra type used everywhere: error `E`, state `HState`, context `Val`.
pub type Ex<E> = extra::Full<E, HState, Val>;
/// A boxed parser with output `Val`.
pub type P<'a, I, E> = Boxed<'a, 'a, I, Val, Ex<E>>;
/// A boxed parser with (native) output `()`.
pub type PU<'a, I, E> = Boxed<'a, 'a, I, (), Ex<E>>;
/// A boxed pratt operator.
pub type POpBox<'a, I, E> = pratt::Boxed<'a, 'a, I, Val, Ex<E>>;

/// `(ExtWrap a)`: an extension parser with a separate check path (`InputRef::parse` / `InputRef::check` of the wrapped parser).
pub struct ExtW<'a, I: HInput<'a>, E: HErr<'a, I>>(pub P<'a, I, E>);

impl<'a, I: HInput<'a>, E: HErr<'a, I>> Clone for ExtW<'a, I, E> {
    fn clone(&self) -> Self {
        ExtW(self.0.clone())
    }
}

impl<'a, I: HInput<'a>, E: HErr<'a, I>> chumsky::extension::v1::ExtParser<'a, I, Val, Ex<E>> for ExtW<'a, I, E> {
    // Both entry points keep a 36 KiB scratch buffer alive across the call of the wrapped parser: a level of a recursive grammar
    // that goes through an extension parser needs that much stack (between two stack-growth checks of `recursive`), which the
    // growth check's red zone (64 KiB) must cover.
    // (three sizes in rotation, so that the ends of the stack segments are met at varying offsets)
    fn parse(&self, inp: &mut InputRef<'a, '_, I, Ex<E>>) -> Result<Val, E> {
        match FAT.fetch_add(1, std::sync::atomic::Ordering::Relaxed) % 3 {
            0 => fat::<{ 36 * 1024 }, _>(|| inp.parse(&self.0)),
            1 => fat::<{ 44 * 1024 }, _>(|| inp.parse(&self.0)),
            _ => fat::<{ 40 * 1024 }, _>(|| inp.parse(&self.0)),
        }
    }
    fn check(&self, inp: &mut InputRef<'a, '_, I, Ex<E>>) -> Result<(), E> {
        match FAT.fetch_add(1, std::sync::atomic::Ordering::Relaxed) % 3 {
            0 => fat::<{ 36 * 1024 }, _>(|| inp.check(&self.0)),
            1 => fat::<{ 44 * 1024 }, _>(|| inp.check(&self.0)),
            _ => fat::<{ 40 * 1024 }, _>(|| inp.check(&self.0)),
        }
    }
}

static FAT: std::sync::atomic::AtomicUsize = std::sync::atomic::AtomicUsize::new(0);
#[inline(never)]
fn fat<const N: usize, R>(f: impl FnOnce() -> R) -> R {
    let mut scratch = [0u8; N];
    scratch[0] = 1;
    let r = f();
    std::hint::black_box(&scratch);
    r
}

/// The grammar cannot be built for this input kind (result `UNSUPPORTED`); the text says why.
#[derive(Debug)]
pub struct Unsupported(pub &'static str);
pub type Res<T> = Result<T, Unsupported>;

pub fn unsupported<T>(why: &'static str) -> Res<T> {
    Err(Unsupported(why))
}

/// A handle of an enclosing `Rec` (`recursive(..)`) or `RecDecl` (`Recursive::declare()`).
enum Handle<'a, I: HInput<'a>, E: HErr<'a, I>> {
    Direct(Recursive<Direct<'a, 'a, I, Val, Ex<E>>>),
    Indirect(Recursive<Indirect<'a, 'a, I, Val, Ex<E>>>),
}

pub struct Builder<'a, I: HInput<'a>, E: HErr<'a, I>> {
    /// The caller's buffer as far as needed to convert raw offsets to token indices and to locate slices.
    cv: I::Conv,
    /// Handles of the enclosing `Rec`/`RecDecl` nodes, innermost last (`(Var k)` counts from the end).
    env: RefCell<Vec<Handle<'a, I, E>>>,
    /// `(Memo id a)`: one `memoized()` per id; a second occurrence of the id is a clone of the first (clones of a memoized
    /// parser share its cache key)
    memo: RefCell<std::collections::HashMap<usize, chumsky::combinator::Memoized<P<'a, I, E>>>>,
    _p: PhantomData<fn() -> (&'a (), E)>,
}

thread_local! {
    /// When set, every typed combinator is `.clone()`d before it is boxed and the original is dropped: the parser
    /// that runs is then made of structural clones (exercises the hand-written `Clone` impls; property C13).
    pub static CLONE_TYPED: std::cell::Cell<bool> = std::cell::Cell::new(std::env::var("CHUM_CLONE_TYPED").map_or(false, |v| v == "1"));
}

/// Box a parser, pinning down input, output and extra types (helps inference of the primitives).
fn bx<'a, I, E, T>(p: T) -> P<'a, I, E>
where
    I: HInput<'a>,
    E: HErr<'a, I>,
    T: Parser<'a, I, Val, Ex<E>> + Clone + 'a,
{
    if CLONE_TYPED.with(|c| c.get()) {
        let q = p.clone();
        drop(p);
        q.boxed()
    } else {
        p.boxed()
    }
}

fn bxu<'a, I, E, T>(p: T) -> PU<'a, I, E>
where
    I: HInput<'a>,
    E: HErr<'a, I>,
    T: Parser<'a, I, (), Ex<E>> + Clone + 'a,
{
    if CLONE_TYPED.with(|c| c.get()) {
        let q = p.clone();
        drop(p);
        q.boxed()
    } else {
        p.boxed()
    }
}

fn span_val<'a, I: HInput<'a>>(cv: &I::Conv, s: I::Span) -> Val {
    let (st, en) = s.raw();
    Val::Span(I::pos(cv, st), I::pos(cv, en))
}

/// The `map_with` closure body: `apmw(mw, v, e.span(), e.slice(), e.state().h, e.ctx())`.
fn mw_apply<'a, I, E>(cv: &I::Conv, mw: Mw, v: Val, e: &mut MapExtra<'a, '_, I, Ex<E>>) -> Val
where
    I: HInput<'a>,
    E: HErr<'a, I>,
{
    let (st, en) = e.span().raw();
    let sp = (I::pos(cv, st), I::pos(cv, en));
    let sl = if mw == Mw::Slice {
        I::extra_slice(cv, e).expect("MWSlice is only built for kinds with HAS_SLICE")
    } else {
        (Pos::Ix(0), Pos::Ix(0))
    };
    let h = e.state().h;
    apmw(mw, v, sp, sl, h, e.ctx())
}

/// The `foldl_with` / `foldr_with` closure body.
fn fold_with<'a, I, E>(cv: &I::Conv, k: usize, x: Val, y: Val, e: &mut MapExtra<'a, '_, I, Ex<E>>) -> Val
where
    I: HInput<'a>,
    E: HErr<'a, I>,
{
    let sp = e.span();
    let h = e.state().h;
    Val::tag(
        k,
        Val::pair(Val::pair(x, y), Val::pair(span_val::<I>(cv, sp), Val::Nat(h as usize))),
    )
}

// ---------- primitives whose chumsky bounds go beyond `Input` (called from the `HInput` impls) ----------

fn string_of(ts: &[u32]) -> String {
    ts.iter().map(|&n| char::from_u32(n).expect("token validated by ast::parse_case")).collect()
}

pub fn just_string<'a, I, E>(ts: &[u32]) -> P<'a, I, E>
where
    I: HInput<'a, Token = char>,
    E: HErr<'a, I>,
{
    match ts {
        [c] => bx(just::<char, I, Ex<E>>(char::seq(&[*c])[0]).map(|c: char| Val::toks([c]))),
        _ => bx(just::<String, I, Ex<E>>(string_of(ts)).map(|s: String| Val::toks(s.chars()))),
    }
}

pub fn just_vec<'a, I, E>(ts: &[u32]) -> P<'a, I, E>
where
    I: HInput<'a>,
    E: HErr<'a, I>,
{
    match ts {
        [c] => bx(just::<I::Token, I, Ex<E>>(I::Token::seq(&[*c]).remove(0)).map(|c: I::Token| Val::toks([c]))),
        _ => bx(just::<Vec<I::Token>, I, Ex<E>>(I::Token::seq(ts)).map(|v: Vec<I::Token>| Val::toks(v))),
    }
}

/// Every other configured `just` is configured through a REFERENCE to the parser (`(&just(..)).configure(..)`: the blanket
/// `ConfigParser for &T`, which goes through `Mode::invoke_cfg`); the referent is leaked (a few bytes per case).
static CFG_BY_REF: std::sync::atomic::AtomicUsize = std::sync::atomic::AtomicUsize::new(0);
/// 0: by value, 1: through a reference, 2: the `Configure` value boxed directly
fn cfg_form() -> usize {
    CFG_BY_REF.fetch_add(1, std::sync::atomic::Ordering::Relaxed) % 3
}

// the sequence type must be the same for the built-in and the configured sequence
pub fn just_cfg_string<'a, I, E>(ts: &[u32]) -> P<'a, I, E>
where
    I: HInput<'a, Token = char>,
    E: HErr<'a, I>,
{
    let j = just::<String, I, Ex<E>>(string_of(ts));
    match cfg_form() {
        1 => {
            let r: &'a _ = Box::leak(Box::new(j));
            bx(r.configure(|cfg, ctx: &Val| cfg.seq(char::ctx_seq(ctx).into_iter().collect::<String>()))
                .map(|s: String| Val::toks(s.chars())))
        }
        // the `Configure` value itself is type-erased (its own `go_emit` / `go_check` entry points), the mapper sits outside
        2 => {
            let c: Boxed<'a, 'a, I, String, Ex<E>> =
                j.configure(|cfg, ctx: &Val| cfg.seq(char::ctx_seq(ctx).into_iter().collect::<String>())).boxed();
            bx(c.map(|s: String| Val::toks(s.chars())))
        }
        _ => bx(j
            .configure(|cfg, ctx: &Val| cfg.seq(char::ctx_seq(ctx).into_iter().collect::<String>()))
            .map(|s: String| Val::toks(s.chars()))),
    }
}

pub fn just_cfg_vec<'a, I, E>(ts: &[u32]) -> P<'a, I, E>
where
    I: HInput<'a>,
    E: HErr<'a, I>,
{
    let j = just::<Vec<I::Token>, I, Ex<E>>(I::Token::seq(ts));
    match cfg_form() {
        1 => {
            let r: &'a _ = Box::leak(Box::new(j));
            bx(r.configure(|cfg, ctx: &Val| cfg.seq(I::Token::ctx_seq(ctx))).map(|v: Vec<I::Token>| Val::toks(v)))
        }
        2 => {
            let c: Boxed<'a, 'a, I, Vec<I::Token>, Ex<E>> = j.configure(|cfg, ctx: &Val| cfg.seq(I::Token::ctx_seq(ctx))).boxed();
            bx(c.map(|v: Vec<I::Token>| Val::toks(v)))
        }
        _ => bx(j.configure(|cfg, ctx: &Val| cfg.seq(I::Token::ctx_seq(ctx))).map(|v: Vec<I::Token>| Val::toks(v))),
    }
}

/// `(Skip n)`: a custom parser that calls `InputRef::skip` n times.
pub fn v_skip<'a, I, E>(n: usize) -> P<'a, I, E>
where
    I: HInput<'a> + ValueInput<'a>,
    E: HErr<'a, I>,
{
    bx(custom(move |inp: &mut InputRef<'a, '_, I, Ex<E>>| {
        for _ in 0..n {
            inp.skip();
        }
        Ok(Val::Unit)
    }))
}

/// `(NestedDelims s e ((s1 e1) ..))`: `chumsky::recovery::nested_delimiters(s, e, [(s1, e1), ..], |span| Val::Span(span))`.
pub fn v_nested_delims<'a, I, E>(cv: &I::Conv, s: u32, e: u32, others: &[(u32, u32)]) -> Res<P<'a, I, E>>
where
    I: HInput<'a> + ValueInput<'a>,
    E: HErr<'a, I>,
{
    use chumsky::recovery::nested_delimiters;
    let t = |x: u32| I::Token::seq(&[x]).into_iter().next().expect("one token");
    let cv = cv.clone();
    let fb = move |sp: I::Span| span_val::<I>(&cv, sp);
    Ok(match others {
        [] => bx(nested_delimiters::<I, Val, Ex<E>, _, 0>(t(s), t(e), [], fb)),
        [a] => bx(nested_delimiters::<I, Val, Ex<E>, _, 1>(t(s), t(e), [(t(a.0), t(a.1))], fb)),
        [a, b] => bx(nested_delimiters::<I, Val, Ex<E>, _, 2>(t(s), t(e), [(t(a.0), t(a.1)), (t(b.0), t(b.1))], fb)),
        _ => return unsupported("NestedDelims: built for at most 2 other delimiter pairs"),
    })
}

/// `(Padded ws a)`: `a.padded()` (the whitespace set `ws` of the case file must agree with `char::is_whitespace`)
pub fn v_padded<'a, I, E>(ws: &[u32], a: P<'a, I, E>) -> Res<P<'a, I, E>>
where
    I: HInput<'a> + ValueInput<'a>,
    I::Token: chumsky::text::Char,
    E: HErr<'a, I>,
{
    for &t in ws {
        if !char::from_u32(t).map_or(false, |c| c.is_whitespace()) {
            return unsupported("Padded: a token of the whitespace list is not whitespace");
        }
    }
    for t in [97u32, 98, 99, 233, 44, 8364, 40, 41, 59] {
        if char::from_u32(t).map_or(false, |c| c.is_whitespace()) {
            return unsupported("Padded: alphabet token is whitespace");
        }
    }
    Ok(bx(a.padded()))
}

/// the items of a container output, for `(IIntoIter a)` (coq/Model/Syntax.v `val_items`)
pub fn val_items(v: Val) -> Vec<Val> {
    match v {
        Val::List(l) => l,
        Val::Opt(Some(x)) => vec![*x],
        Val::Opt(None) => vec![],
        Val::Unit => vec![],
        v => vec![v],
    }
}

/// `(Prog ops k)`: a custom parser over `InputRef`'s public API (next / next_ref / peek / skip / save / rewind / span_since / state)
macro_rules! prog_body {
    ($cv:ident, $ops:ident, $k:ident, $exp:ident, $inp:ident, $next_ref:expr) => {{
        let start = $inp.cursor();
        let mut stack = Vec::new();
        let mut out: Vec<Val> = Vec::new();
        for (i, op) in $ops.iter().enumerate() {
            match op {
                Cop::Next => match $inp.next() {
                    Some(t) => out.push(Val::tok(t)),
                    None => out.push(Val::Unit),
                },
                Cop::NextRef => match $next_ref {
                    Some(t) => out.push(Val::tok(t)),
                    None => out.push(Val::Unit),
                },
                Cop::Peek => match $inp.peek() {
                    Some(t) => out.push(Val::tok(t)),
                    None => out.push(Val::Unit),
                },
                Cop::Skip => $inp.skip(),
                Cop::Save => stack.push($inp.save()),
                Cop::Rewind => {
                    if let Some(c) = stack.pop() {
                        $inp.rewind(c)
                    }
                }
                Cop::Expect(_) => match $inp.next() {
                    Some(u) if Some(&u) == $exp[i].as_ref() => {}
                    _ => return Err(E::custom($k, $inp.span_since(&start))),
                },
                Cop::Span => out.push(span_val::<I>(&$cv, $inp.span_since(&start))),
                Cop::State => out.push(Val::Nat($inp.state().h as usize)),
            }
        }
        Ok(Val::List(out))
    }};
}

fn prog_expected<T: HTok>(ops: &[Cop]) -> Vec<Option<T>> {
    ops.iter().map(|o| match o { Cop::Expect(t) => T::seq(&[*t]).into_iter().next(), _ => None }).collect()
}

pub fn v_prog<'a, I, E>(cv: &I::Conv, ops: Vec<Cop>, k: usize) -> P<'a, I, E>
where
    I: HInput<'a> + ValueInput<'a>,
    E: HErr<'a, I>,
{
    let cv = cv.clone();
    let exp = prog_expected::<I::Token>(&ops);
    bx(custom(move |inp: &mut InputRef<'a, '_, I, Ex<E>>| prog_body!(cv, ops, k, exp, inp, inp.next())))
}

/// the same with `CNextRef` going through `InputRef::next_ref` (`BorrowInput` kinds)
pub fn v_prog_ref<'a, I, E>(cv: &I::Conv, ops: Vec<Cop>, k: usize) -> P<'a, I, E>
where
    I: HInput<'a> + ValueInput<'a> + chumsky::input::BorrowInput<'a>,
    E: HErr<'a, I>,
{
    let cv = cv.clone();
    let exp = prog_expected::<I::Token>(&ops);
    bx(custom(move |inp: &mut InputRef<'a, '_, I, Ex<E>>| prog_body!(cv, ops, k, exp, inp, inp.next_ref().cloned())))
}

/// `(Lazy a)`: `a.lazy()`
pub fn v_lazy<'a, I, E>(a: P<'a, I, E>) -> P<'a, I, E>
where
    I: HInput<'a> + ValueInput<'a>,
    E: HErr<'a, I>,
{
    bx(a.lazy())
}

pub fn v_any<'a, I, E>() -> P<'a, I, E>
where
    I: HInput<'a> + ValueInput<'a>,
    E: HErr<'a, I>,
{
    bx(any::<I, Ex<E>>().map(Val::tok))
}

pub fn v_one_of_string<'a, I, E>(ts: &[u32]) -> P<'a, I, E>
where
    I: HInput<'a, Token = char> + ValueInput<'a>,
    E: HErr<'a, I>,
{
    bx(one_of::<String, I, Ex<E>>(string_of(ts)).map(Val::tok))
}

pub fn v_none_of_string<'a, I, E>(ts: &[u32]) -> P<'a, I, E>
where
    I: HInput<'a, Token = char> + ValueInput<'a>,
    E: HErr<'a, I>,
{
    bx(none_of::<String, I, Ex<E>>(string_of(ts)).map(Val::tok))
}

pub fn v_one_of_vec<'a, I, E>(ts: &[u32]) -> P<'a, I, E>
where
    I: HInput<'a> + ValueInput<'a>,
    E: HErr<'a, I>,
{
    bx(one_of::<Vec<I::Token>, I, Ex<E>>(I::Token::seq(ts)).map(Val::tok))
}

pub fn v_none_of_vec<'a, I, E>(ts: &[u32]) -> P<'a, I, E>
where
    I: HInput<'a> + ValueInput<'a>,
    E: HErr<'a, I>,
{
    bx(none_of::<Vec<I::Token>, I, Ex<E>>(I::Token::seq(ts)).map(Val::tok))
}

// ----- the grapheme kinds: the sequence of `just` / `one_of` / `none_of` as `&str`, `&Graphemes` or `Vec<&Grapheme>` -----
//
// chumsky implements `Seq<&Grapheme>` for `&str` and `&Graphemes` (container.rs) next to the generic `Vec<T>`; the three forms
// must denote the same class. The text forms are used (chosen by the content of the sequence) whenever the concatenation of the clusters segments back
// into exactly those clusters (the reference segmentation of `input::GText`), otherwise the `Vec` form.

fn gr_text(ts: &[u32]) -> Option<&'static str> {
    let t = crate::input::GText::new(ts)?;
    if ts.is_empty() {
        return None;
    }
    Some(Box::leak(t.s.clone().into_boxed_str()))
}

fn gr_form(ts: &[u32]) -> (usize, Option<&'static str>) {
    // the form is a function of the sequence (so a case always runs the same way): 0 `&str`, 1 `&Graphemes`, 2 `Vec`
    let k = (ts.iter().map(|&t| t as usize % 7).sum::<usize>() + ts.len()) % 3;
    if k == 2 {
        (2, None)
    } else {
        match gr_text(ts) {
            Some(s) => (k, Some(s)),
            None => (2, None),
        }
    }
}

pub fn v_one_of_gr<'a, I, E>(ts: &[u32]) -> P<'a, I, E>
where
    I: HInput<'a, Token = &'a chumsky::text::Grapheme> + ValueInput<'a>,
    E: HErr<'a, I>,
    &'a chumsky::text::Grapheme: HTok,
{
    match gr_form(ts) {
        (0, Some(s)) => bx(one_of::<&'a str, I, Ex<E>>(s).map(Val::tok)),
        (1, Some(s)) => bx(one_of::<&'a chumsky::text::Graphemes, I, Ex<E>>(chumsky::text::Graphemes::new(s)).map(Val::tok)),
        _ => v_one_of_vec(ts),
    }
}

pub fn v_none_of_gr<'a, I, E>(ts: &[u32]) -> P<'a, I, E>
where
    I: HInput<'a, Token = &'a chumsky::text::Grapheme> + ValueInput<'a>,
    E: HErr<'a, I>,
    &'a chumsky::text::Grapheme: HTok,
{
    match gr_form(ts) {
        (0, Some(s)) => bx(none_of::<&'a str, I, Ex<E>>(s).map(Val::tok)),
        (1, Some(s)) => bx(none_of::<&'a chumsky::text::Graphemes, I, Ex<E>>(chumsky::text::Graphemes::new(s)).map(Val::tok)),
        _ => v_none_of_vec(ts),
    }
}

pub fn just_gr<'a, I, E>(ts: &[u32]) -> P<'a, I, E>
where
    I: HInput<'a, Token = &'a chumsky::text::Grapheme>,
    E: HErr<'a, I>,
    &'a chumsky::text::Grapheme: HTok,
{
    let ids: Vec<u32> = ts.to_vec();
    let out = move || Val::List(ids.iter().map(|&t| Val::Tok(t)).collect());
    match (ts.len(), gr_form(ts)) {
        (0 | 1, _) => just_vec(ts),
        (_, (0, Some(s))) => bx(just::<&'a str, I, Ex<E>>(s).map(move |_| out())),
        (_, (1, Some(s))) => bx(just::<&'a chumsky::text::Graphemes, I, Ex<E>>(chumsky::text::Graphemes::new(s)).map(move |_| out())),
        _ => just_vec(ts),
    }
}

pub fn v_select<'a, I, E>(p: Pred, f: Fn1) -> P<'a, I, E>
where
    I: HInput<'a> + ValueInput<'a>,
    E: HErr<'a, I>,
{
    bx(select(move |t: I::Token, _e: &mut MapExtra<'a, '_, I, Ex<E>>| {
        let v = Val::tok(t);
        if holds(&p, &v) {
            Some(ap1(&f, v))
        } else {
            None
        }
    }))
}

/// `AnyRef`: `any_ref()` (`BorrowInput::next_ref`)
pub fn v_any_ref<'a, I, E>() -> P<'a, I, E>
where
    I: HInput<'a> + chumsky::input::BorrowInput<'a>,
    E: HErr<'a, I>,
{
    bx(chumsky::primitive::any_ref::<I, Ex<E>>().map(|t: &'a I::Token| Val::tok(t.clone())))
}

/// `(SelectRef p f)`: `select_ref(..)`, what `select_ref!` expands to
pub fn v_select_ref<'a, I, E>(p: Pred, f: Fn1) -> P<'a, I, E>
where
    I: HInput<'a> + chumsky::input::BorrowInput<'a>,
    E: HErr<'a, I>,
{
    bx(chumsky::primitive::select_ref(move |t: &'a I::Token, _e: &mut MapExtra<'a, '_, I, Ex<E>>| {
        let v = Val::tok(t.clone());
        if holds(&p, &v) {
            Some(ap1(&f, v))
        } else {
            None
        }
    }))
}

pub fn v_not<'a, I, E>(a: P<'a, I, E>) -> PU<'a, I, E>
where
    I: HInput<'a> + ValueInput<'a>,
    E: HErr<'a, I>,
{
    bxu(a.not())
}

/// `p.to_slice()` with the slice located by `range` and mapped to `Val::Slice`.
pub fn to_slice_with<'a, I, E, F>(p: P<'a, I, E>, range: F) -> P<'a, I, E>
where
    I: HInput<'a> + SliceInput<'a>,
    E: HErr<'a, I>,
    F: Fn(I::Slice) -> (Pos, Pos) + Clone + 'a,
{
    bx(p.to_slice().map(move |part: I::Slice| {
        let (s, e) = range(part);
        Val::Slice(s, e)
    }))
}

/// `a.nested_in(select_ref! { TT::Group(_, children) => children.as_slice().map(eoi_of(children), |(t, s)| (t, s)) })`
pub fn nested_tree<'a, E>(a: P<'a, TreeIn<'a>, E>) -> P<'a, TreeIn<'a>, E>
where
    E: HErr<'a, TreeIn<'a>>,
{
    let children = chumsky::select_ref! { TT::Group(_, children) => tree_input(children.as_slice()) };
    bx(a.nested_in::<_, TreeIn<'a>, Ex<E>>(children))
}

/// `(NestedVia a)`: the same with a compound `b`: a first alternative that looks at the token and rejects it (leaving its
/// pending error behind), then the group selector: `a.nested_in(never.or(group))`.
pub fn nested_tree_via<'a, E>(a: P<'a, TreeIn<'a>, E>) -> P<'a, TreeIn<'a>, E>
where
    E: HErr<'a, TreeIn<'a>>,
{
    fn never() -> bool {
        false
    }
    let no = chumsky::select_ref! { TT::Group(_, children) if never() => tree_input(children.as_slice()) };
    let children = chumsky::select_ref! { TT::Group(_, children) => tree_input(children.as_slice()) };
    bx(a.nested_in::<_, TreeIn<'a>, Ex<E>>(no.or(children)))
}

macro_rules! tuple_of {
    ($ps:ident; $($n:tt)*) => { ( $( $ps[$n].clone(), )* ) };
}

macro_rules! array_of {
    ($ps:ident; $($n:tt)*) => { [ $( $ps[$n].clone(), )* ] };
}


impl<'a, I: HInput<'a>, E: HErr<'a, I>> Builder<'a, I, E> {
    pub fn new(cv: I::Conv) -> Self {
        Builder { cv, env: RefCell::new(Vec::new()), memo: RefCell::new(std::collections::HashMap::new()), _p: PhantomData }
    }

    /// Build the parser for a grammar.
    pub fn g(&self, g: &G) -> Res<P<'a, I, E>> {
        Ok(match g {
            // ---------- primitives ----------
            G::End => bx(end::<I, Ex<E>>().map(|()| Val::Unit)),
            G::Empty => bx(empty::<I, Ex<E>>().map(|()| Val::Unit)),
            G::Any => I::any()?,
            G::Just(ts) => I::just(ts),
            G::OneOf(ts) => I::one_of(ts)?,
            G::NoneOf(ts) => I::none_of(ts)?,
            G::Select(p, f) => I::select(p.clone(), f.clone())?,
            G::AnyRef => I::any_ref()?,
            G::SelectRef(p, f) => I::select_ref(p.clone(), f.clone())?,
            G::Custom(ts, k) => {
                let (ts, k) = (I::Token::seq(ts), *k);
                // no rewind on failure: the cursor stays where the mismatch was read.
                // `next_maybe` instead of `next`: the same token stream, but available on every `Input`
                bx(custom(move |inp: &mut InputRef<'a, '_, I, Ex<E>>| {
                    let b = inp.cursor();
                    for t in &ts {
                        match inp.next_maybe() {
                            Some(u) if *u == *t => {}
                            _ => return Err(E::custom(k, inp.span_since(&b))),
                        }
                    }
                    Ok(Val::toks(ts.iter().cloned()))
                }))
            }

            // ---------- output shaping ----------
            G::Map(f, a) => {
                let f = f.clone();
                bx(self.g(a)?.map(move |v: Val| ap1(&f, v)))
            }
            G::MapWith(mw, a) => {
                let a = self.g(a)?;
                let mw = self.check_mw(*mw)?;
                let cv = self.cv.clone();
                bx(a.map_with(move |v: Val, e: &mut MapExtra<'a, '_, I, Ex<E>>| mw_apply(&cv, mw, v, e)))
            }
            G::To(n, a) => bx(self.g(a)?.to(Val::Nat(*n))),
            G::Ignored(a) => bx(self.g(a)?.ignored().map(|()| Val::Unit)),
            G::ToSpan(a) => {
                let cv = self.cv.clone();
                bx(self.g(a)?.to_span().map(move |s: I::Span| span_val::<I>(&cv, s)))
            }
            G::ToSlice(a) => {
                let a = self.g(a)?;
                I::to_slice(&self.cv, a)?
            }
            G::Filter(p, a) => {
                let p = p.clone();
                bx(self.g(a)?.filter(move |v: &Val| holds(&p, v)))
            }
            G::TryMap(p, f, k, a) => {
                let (p, f, k) = (p.clone(), f.clone(), *k);
                bx(self.g(a)?.try_map(move |v: Val, span: I::Span| {
                    if holds(&p, &v) {
                        Ok(ap1(&f, v))
                    } else {
                        Err(E::custom(k, span))
                    }
                }))
            }
            G::TryMapWith(p, f, k, a) => {
                let (p, f, k) = (p.clone(), f.clone(), *k);
                bx(self.g(a)?.try_map_with(move |v: Val, e: &mut MapExtra<'a, '_, I, Ex<E>>| {
                    if holds(&p, &v) {
                        Ok(ap1(&f, v))
                    } else {
                        Err(E::custom(k, e.span()))
                    }
                }))
            }
            G::Validate(p, k, a) => {
                let (p, k) = (p.clone(), *k);
                bx(self.g(a)?.validate(
                    move |v: Val, e: &mut MapExtra<'a, '_, I, Ex<E>>, em: &mut Emitter<E>| {
                        if holds(&p, &v) {
                            em.emit(E::custom(k, e.span()));
                        }
                        v
                    },
                ))
            }

            // ---------- sequencing ----------
            G::Then(a, b) => bx(self.g(a)?.then(self.g(b)?).map(|(x, y): (Val, Val)| Val::pair(x, y))),
            G::IgnoreThen(a, b) => bx(self.g(a)?.ignore_then(self.g(b)?)),
            G::ThenIgnore(a, b) => bx(self.g(a)?.then_ignore(self.g(b)?)),
            G::DelimitedBy(a, l, r) => bx(self.g(a)?.delimited_by(self.g(l)?, self.g(r)?)),
            G::PaddedBy(a, p) => bx(self.g(a)?.padded_by(self.g(p)?)),
            G::Group(gs) => {
                let ps = self.gs(gs)?;
                match ps.len() {
                    1 => bx(group(tuple_of!(ps; 0)).map(|(a,)| Val::List(vec![a]))),
                    2 => bx(group(tuple_of!(ps; 0 1)).map(|(a, b)| Val::List(vec![a, b]))),
                    3 => bx(group(tuple_of!(ps; 0 1 2)).map(|(a, b, c)| Val::List(vec![a, b, c]))),
                    4 => bx(group(tuple_of!(ps; 0 1 2 3)).map(|(a, b, c, d)| Val::List(vec![a, b, c, d]))),
                    5 => bx(group(tuple_of!(ps; 0 1 2 3 4))
                        .map(|(a, b, c, d, e)| Val::List(vec![a, b, c, d, e]))),
                    6 => bx(group(tuple_of!(ps; 0 1 2 3 4 5))
                        .map(|(a, b, c, d, e, f)| Val::List(vec![a, b, c, d, e, f]))),
                    _ => return unsupported("Group: the tuple form is built for 1..=6 elements"),
                }
            }
            G::GroupArr(gs) => {
                let ps = self.gs(gs)?;
                match ps.len() {
                    1 => bx(group(array_of!(ps; 0)).map(|a: [Val; 1]| Val::List(a.into()))),
                    2 => bx(group(array_of!(ps; 0 1)).map(|a: [Val; 2]| Val::List(a.into()))),
                    3 => bx(group(array_of!(ps; 0 1 2)).map(|a: [Val; 3]| Val::List(a.into()))),
                    4 => bx(group(array_of!(ps; 0 1 2 3)).map(|a: [Val; 4]| Val::List(a.into()))),
                    _ => return unsupported("GroupArr: the array form is built for 1..=4 elements"),
                }
            }

            // ---------- choice / option / lookahead ----------
            G::Or(a, b) => bx(self.g(a)?.or(self.g(b)?)),
            G::Choice(gs) => {
                let ps = self.gs(gs)?;
                match ps.len() {
                    1 => bx(choice(tuple_of!(ps; 0))),
                    2 => bx(choice(tuple_of!(ps; 0 1))),
                    3 => bx(choice(tuple_of!(ps; 0 1 2))),
                    4 => bx(choice(tuple_of!(ps; 0 1 2 3))),
                    5 => bx(choice(tuple_of!(ps; 0 1 2 3 4))),
                    6 => bx(choice(tuple_of!(ps; 0 1 2 3 4 5))),
                    _ => return unsupported("Choice: tuple form is built for 1..=6 elements"),
                }
            }
            G::ChoiceVec(gs) => bx(choice(self.gs(gs)?)),
            G::OrNot(a) => bx(self.g(a)?.or_not().map(Val::opt)),
            G::Not(a) => bx(I::not(self.g(a)?)?.map(|()| Val::Unit)),
            G::AndIs(a, b) => bx(self.g(a)?.and_is(self.g(b)?)),
            G::Rewind(a) => bx(self.g(a)?.rewind()),

            // ---------- iteration ----------
            G::RepUnit(it) => bx(self.rep_unit(it)?.map(|()| Val::Unit)),
            G::Collect(ck, it) => self.iterable(it, Fin::Collect(*ck))?,
            G::CollectExactly(n, it) => self.iterable(it, Fin::Exactly(*n))?,
            G::Foldl(a, it, k) => self.iterable(it, Fin::Foldl(self.g(a)?, *k))?,
            G::Foldr(it, b, k) => self.iterable(it, Fin::Foldr(self.g(b)?, *k))?,
            G::FoldlWith(a, it, k) => self.iterable(it, Fin::FoldlWith(self.g(a)?, *k))?,
            G::FoldrWith(it, b, k) => self.iterable(it, Fin::FoldrWith(self.g(b)?, *k))?,

            // ---------- recovery ----------
            G::RecoverVia(a, b) => bx(self.g(a)?.recover_with(via_parser(self.g(b)?))),
            G::RecoverSkipUntil(a, skip, until, fb) => {
                let fb = *fb;
                bx(self.g(a)?.recover_with(skip_until(
                    self.g(skip)?.ignored(),
                    self.g(until)?.ignored(),
                    move || Val::Nat(fb),
                )))
            }
            G::RecoverSkipRetry(a, skip, until) => bx(self.g(a)?.recover_with(skip_then_retry_until(
                self.g(skip)?.ignored(),
                self.g(until)?.ignored(),
            ))),

            // ---------- error decoration ----------
            G::Labelled(l, is_ctx, a) => {
                let p = self.g(a)?.labelled(l.to_string());
                if *is_ctx {
                    bx(p.as_context())
                } else {
                    bx(p)
                }
            }
            G::MapErr(k, a) => {
                let k = *k;
                bx(self.g(a)?.map_err(move |e: E| E::custom(k, e.hspan())))
            }

            // ---------- context ----------
            G::WithCtx(v, a) => bx(self.g(a)?.with_ctx(v.clone())),
            G::IgnoreWithCtx(a, b) => bx(self.g(a)?.ignore_with_ctx(self.g(b)?)),
            G::ThenWithCtx(a, b) => {
                bx(self.g(a)?.then_with_ctx(self.g(b)?).map(|(c, v): (Val, Val)| Val::pair(c, v)))
            }
            G::MapCtx(f, a) => {
                let f = f.clone();
                bx(map_ctx::<_, Val, I, Ex<E>, Ex<E>, _>(move |c: &Val| ap1(&f, c.clone()), self.g(a)?))
            }
            G::JustCfg(ts) => I::just_cfg(ts),

            // ---------- version 2: memoization, recursion, pratt ----------
            G::Memo(id, a) => {
                // a second occurrence of the id is `Clone::clone` of the `Memoized` value itself (not of a box around it)
                let hit = self.memo.borrow().get(id).cloned();
                match hit {
                    Some(m) => bx(m),
                    None => {
                        let m = self.g(a)?.memoized();
                        self.memo.borrow_mut().insert(*id, m.clone());
                        bx(m)
                    }
                }
            }
            G::Rec(a) => {
                let mut failed = None;
                let p = recursive(|h| {
                    self.env.borrow_mut().push(Handle::Direct(h));
                    let body = self.g(a);
                    self.env.borrow_mut().pop();
                    match body {
                        Ok(p) => p,
                        Err(u) => {
                            // `recursive` wants a parser; it is thrown away below
                            failed = Some(u);
                            bx(empty::<I, Ex<E>>().map(|()| Val::Unit))
                        }
                    }
                });
                if let Some(u) = failed {
                    return Err(u);
                }
                bx(p)
            }
            G::RecDecl(a) => {
                let mut p = Recursive::declare();
                self.env.borrow_mut().push(Handle::Indirect(p.clone()));
                let body = self.g(a);
                self.env.borrow_mut().pop();
                p.define(body?);
                bx(p)
            }
            G::Var(k) => {
                let env = self.env.borrow();
                match env.len().checked_sub(k + 1).map(|i| &env[i]) {
                    Some(Handle::Direct(h)) => bx(h.clone()),
                    Some(Handle::Indirect(h)) => bx(h.clone()),
                    None => return unsupported("Var: no enclosing Rec/RecDecl with that index"),
                }
            }
            G::Boxed(a) => bx(self.g(a)?.boxed()),
            G::NestedIn(a) => I::nested_in(self.g(a)?)?,
            G::NestedVia(a) => I::nested_via(self.g(a)?)?,
            G::WithState(k, a) => bx(self.g(a)?.with_state(HState { h: *k })),
            G::Skip(n) => I::skip(*n)?,
            G::Lazy(a) => I::lazy(self.g(a)?)?,
            G::Padded(ws, a) => I::padded(ws, self.g(a)?)?,
            G::Prog(ops, k) => I::prog(&self.cv, ops.clone(), *k)?,
            G::NestedDelims(s, e, others) => I::nested_delims(&self.cv, *s, *e, others)?,
            G::ExtWrap(a) => bx(chumsky::extension::v1::Ext(ExtW(self.g(a)?))),
            G::Pratt(form, atom, ops) => {
                let atom = self.g(atom)?;
                let ops: Vec<POpBox<'a, I, E>> = ops.iter().map(|o| self.pop(o)).collect::<Res<_>>()?;
                match form {
                    PForm::Vec => bx(atom.pratt(ops)),
                    PForm::Tuple => match ops.len() {
                        1 => bx(atom.pratt(tuple_of!(ops; 0))),
                        2 => bx(atom.pratt(tuple_of!(ops; 0 1))),
                        3 => bx(atom.pratt(tuple_of!(ops; 0 1 2))),
                        4 => bx(atom.pratt(tuple_of!(ops; 0 1 2 3))),
                        5 => bx(atom.pratt(tuple_of!(ops; 0 1 2 3 4))),
                        6 => bx(atom.pratt(tuple_of!(ops; 0 1 2 3 4 5))),
                        _ => return unsupported("Pratt: the tuple form is built for 1..=6 operators"),
                    },
                }
            }
        })
    }

    /// A boxed pratt operator.
    fn pop(&self, op: &POp) -> Res<POpBox<'a, I, E>> {
        let cv = self.cv.clone();
        Ok(match op {
            POp::Infix(r, bp, g, k) => {
                let k = *k;
                let assoc = if *r { pratt::right(*bp) } else { pratt::left(*bp) };
                pratt::infix(
                    assoc,
                    self.g(g)?,
                    move |l: Val, op: Val, rhs: Val, e: &mut MapExtra<'a, '_, I, Ex<E>>| {
                        Val::tag(k, Val::List(vec![l, op, rhs, span_val::<I>(&cv, e.span())]))
                    },
                )
                .boxed()
            }
            POp::Prefix(bp, g, k) => {
                let k = *k;
                pratt::prefix(
                    *bp,
                    self.g(g)?,
                    move |op: Val, rhs: Val, e: &mut MapExtra<'a, '_, I, Ex<E>>| {
                        Val::tag(k, Val::List(vec![op, rhs, span_val::<I>(&cv, e.span())]))
                    },
                )
                .boxed()
            }
            POp::Postfix(bp, g, k) => {
                let k = *k;
                pratt::postfix(
                    *bp,
                    self.g(g)?,
                    move |l: Val, op: Val, e: &mut MapExtra<'a, '_, I, Ex<E>>| {
                        Val::tag(k, Val::List(vec![l, op, span_val::<I>(&cv, e.span())]))
                    },
                )
                .boxed()
            }
        })
    }

    fn gs(&self, gs: &[G]) -> Res<Vec<P<'a, I, E>>> {
        gs.iter().map(|g| self.g(g)).collect()
    }

    fn check_mw(&self, mw: Mw) -> Res<Mw> {
        if mw == Mw::Slice && !I::HAS_SLICE {
            unsupported("MWSlice: input kind has no SliceInput")
        } else {
            Ok(mw)
        }
    }

    /// A grammar whose chumsky parser has the *native* output type `()` (not mapped into `Val`).
    /// Needed as the item of iterables that are adapted with `IMap`/`IMapWith` (see below).
    fn g_unit(&self, g: &G) -> Res<PU<'a, I, E>> {
        Ok(match g {
            G::End => bxu(end::<I, Ex<E>>()),
            G::Empty => bxu(empty::<I, Ex<E>>()),
            G::Ignored(a) => bxu(self.g(a)?.ignored()),
            G::Not(a) => I::not(self.g(a)?)?,
            G::RepUnit(it) => self.rep_unit(it)?,
            _ => {
                return unsupported(
                    "IMap/IMapWith: the item grammar must have native output () (End, Empty, Ignored, Not, RepUnit)",
                )
            }
        })
    }

    // =====================================================================================
    // iterables
    //
    // What chumsky 0.10 admits (and therefore what the menu is):
    //  * `enumerate()` exists on every `IterParser`; its items are `(usize, T)`. `Enumerate` is *not* a
    //    `Parser`, so nothing can be mapped over it; the conversion of items to `Pair(Nat(i), v)` is done by
    //    the finisher (`Item::into_val`).
    //  * There is no `IterParser::map` / `IterParser::map_with` method. `Map`/`MapWith` implement
    //    `IterParser` when their inner parser does, but they can only be constructed with `Parser::map` /
    //    `Parser::map_with`, whose closure takes the *parser* output of the receiver. For `Repeated`,
    //    `SeparatedBy` and `IterConfigure` that output is `()`, and the `IterParser` impl of `Map` then needs
    //    the item type to be `()` as well. Hence `IMap`/`IMapWith` are buildable exactly when the base is
    //    `IRep | ISep | IRepCfg` over an item parser with native output `()` (`g_unit`), and no `IEnum` sits
    //    below them. `OrNot` is a `Parser<Option<O>>` but an `IterParser<O>`: never mappable.
    // =====================================================================================

    /// `RepUnit`: the iterable used directly as a `Parser<_, ()>`; only for un-adapted `IRep | ISep | IRepCfg`.
    fn rep_unit(&self, it: &IT) -> Res<PU<'a, I, E>> {
        Ok(match it {
            IT::IRep(a, lo, hi) => bxu(self.rep(self.g(a)?, *lo, *hi)),
            IT::ISep(a, sep, lo, hi, lead, trail) => {
                bxu(self.sep(self.g(a)?, self.g(sep)?, *lo, *hi, *lead, *trail))
            }
            IT::IRepCfg(a, lo, hi, ck) if (4..=8).contains(ck) => bxu(
                self.rep(self.g(a)?, *lo, *hi).try_configure(rep_try_cfg::<I, E>(*ck, *lo)),
            ),
            IT::IRepCfg(a, lo, hi, ck) => bxu(
                self.rep(self.g(a)?, *lo, *hi)
                    .configure({ let ck = *ck; move |cfg, ctx: &Val| rep_cfg(cfg, ck, val_count(ctx)) }),
            ),
            IT::IIntoIter(a) => bxu(self.g(a)?.map(val_items).into_iter()),
            _ => return unsupported("RepUnit: only IRep, ISep, IRepCfg, IIntoIter at the root"),
        })
    }

    fn rep<T: 'a, A>(&self, a: A, lo: usize, hi: Option<usize>) -> chumsky::combinator::Repeated<A, T, I, Ex<E>>
    where
        A: Parser<'a, I, T, Ex<E>>,
    {
        let r = a.repeated().at_least(lo);
        match hi {
            Some(h) => r.at_most(h),
            None => r,
        }
    }

    fn sep<T: 'a, A>(
        &self,
        a: A,
        sep: P<'a, I, E>,
        lo: usize,
        hi: Option<usize>,
        lead: bool,
        trail: bool,
    ) -> chumsky::combinator::SeparatedBy<A, P<'a, I, E>, T, Val, I, Ex<E>>
    where
        A: Parser<'a, I, T, Ex<E>>,
    {
        let mut s = a.separated_by(sep).at_least(lo);
        if let Some(h) = hi {
            s = s.at_most(h);
        }
        if lead {
            s = s.allow_leading();
        }
        if trail {
            s = s.allow_trailing();
        }
        s
    }

    /// Build `finisher(adaptors(base))`.
    fn iterable(&self, it: &IT, fin: Fin<'a, I, E>) -> Res<P<'a, I, E>> {
        // peel the adaptor stack; `ads` is ordered from the innermost (applied first) to the outermost
        let mut ads = Vec::new();
        let mut base = it;
        loop {
            match base {
                IT::IEnum(j) => {
                    ads.push(Ad::Enum);
                    base = j;
                }
                IT::IMap(f, j) => {
                    ads.push(Ad::Map(f.clone()));
                    base = j;
                }
                IT::IMapWith(mw, j) => {
                    ads.push(Ad::MapWith(self.check_mw(*mw)?));
                    base = j;
                }
                _ => break,
            }
        }
        ads.reverse();
        if ads.len() > 2 {
            return unsupported("iterable: adaptor stack deeper than 2");
        }
        let mapped = ads.iter().any(|a| !matches!(a, Ad::Enum));

        match base {
            // items are `Val`: only `IEnum` adaptors possible
            IT::IRep(a, lo, hi) if !mapped => self.iter2(self.rep(self.g(a)?, *lo, *hi), &ads, fin),
            IT::ISep(a, sep, lo, hi, lead, trail) if !mapped => {
                self.iter2(self.sep(self.g(a)?, self.g(sep)?, *lo, *hi, *lead, *trail), &ads, fin)
            }
            IT::IRepCfg(a, lo, hi, ck) if !mapped && (4..=8).contains(ck) => self.iter2(
                self.rep(self.g(a)?, *lo, *hi).try_configure(rep_try_cfg::<I, E>(*ck, *lo)),
                &ads,
                fin,
            ),
            IT::IRepCfg(a, lo, hi, ck) if !mapped => self.iter2(
                self.rep(self.g(a)?, *lo, *hi)
                    .configure({ let ck = *ck; move |cfg, ctx: &Val| rep_cfg(cfg, ck, val_count(ctx)) }),
                &ads,
                fin,
            ),
            IT::IOrNot(a) if !mapped => self.iter2(self.g(a)?.or_not(), &ads, fin),
            IT::IOrNot(_) => unsupported("IMap/IMapWith over IOrNot does not type-check in chumsky"),
            IT::IIntoIter(a) if !mapped => self.iter2(self.g(a)?.map(val_items).into_iter(), &ads, fin),
            // `i.then(j)` as an iterable: `Parser::then` wants both halves to be parsers as well, which the bases are
            IT::IThen(i, j) if !mapped => {
                macro_rules! second {
                    ($x:expr) => {
                        match &**j {
                            IT::IRep(b, lo, hi) => self.iter2(Parser::then($x, self.rep(self.g(b)?, *lo, *hi)), &ads, fin),
                            IT::ISep(b, sep, lo, hi, lead, trail) => self.iter2(
                                Parser::then($x, self.sep(self.g(b)?, self.g(sep)?, *lo, *hi, *lead, *trail)),
                                &ads,
                                fin,
                            ),
                            IT::IOrNot(b) => self.iter2(Parser::then($x, self.g(b)?.or_not()), &ads, fin),
                            _ => unsupported("IThen: the second iterable must be IRep, ISep or IOrNot"),
                        }
                    };
                }
                match &**i {
                    IT::IRep(a, lo, hi) => second!(self.rep(self.g(a)?, *lo, *hi)),
                    IT::ISep(a, sep, lo, hi, lead, trail) => {
                        second!(self.sep(self.g(a)?, self.g(sep)?, *lo, *hi, *lead, *trail))
                    }
                    IT::IOrNot(a) => second!(self.g(a)?.or_not()),
                    IT::IIntoIter(a) => second!(self.g(a)?.map(val_items).into_iter()),
                    _ => unsupported("IThen: the first iterable must be IRep, ISep, IOrNot or IIntoIter"),
                }
            }
            IT::IThen(..) => unsupported("IMap/IMapWith over IThen"),
            IT::IIntoIter(_) => unsupported("IMap/IMapWith over IIntoIter: items are not ()"),

            // items are `()`: `Parser::map` / `Parser::map_with` apply
            IT::IRep(a, lo, hi) => self.both2(self.rep(self.g_unit(a)?, *lo, *hi), &ads, fin),
            IT::ISep(a, sep, lo, hi, lead, trail) => {
                self.both2(self.sep(self.g_unit(a)?, self.g(sep)?, *lo, *hi, *lead, *trail), &ads, fin)
            }
            IT::IRepCfg(a, lo, hi, ck) if (4..=8).contains(ck) => self.both2(
                self.rep(self.g_unit(a)?, *lo, *hi).try_configure(rep_try_cfg::<I, E>(*ck, *lo)),
                &ads,
                fin,
            ),
            IT::IRepCfg(a, lo, hi, ck) => self.both2(
                self.rep(self.g_unit(a)?, *lo, *hi)
                    .configure({ let ck = *ck; move |cfg, ctx: &Val| rep_cfg(cfg, ck, val_count(ctx)) }),
                &ads,
                fin,
            ),
            IT::IEnum(_) | IT::IMap(..) | IT::IMapWith(..) => unreachable!("adaptors were peeled"),
        }
    }

    // ----- adaptor levels for iterables that are only `IterParser`s: `IEnum` is the only adaptor -----

    fn iter2<T: Item, X>(&self, it: X, ads: &[Ad], fin: Fin<'a, I, E>) -> Res<P<'a, I, E>>
    where
        X: IterParser<'a, I, T, Ex<E>> + Clone + 'a,
    {
        match ads.split_first() {
            None => self.finish(it, fin),
            Some((Ad::Enum, rest)) => self.iter1(it.enumerate(), rest, fin),
            Some(_) => unsupported("IMap/IMapWith over an iterable that is not also a Parser of its item type"),
        }
    }

    fn iter1<T: Item, X>(&self, it: X, ads: &[Ad], fin: Fin<'a, I, E>) -> Res<P<'a, I, E>>
    where
        X: IterParser<'a, I, T, Ex<E>> + Clone + 'a,
    {
        match ads.split_first() {
            None => self.finish(it, fin),
            Some((Ad::Enum, rest)) => self.iter0(it.enumerate(), rest, fin),
            Some(_) => unsupported("IMap/IMapWith over an iterable that is not also a Parser of its item type"),
        }
    }

    fn iter0<T: Item, X>(&self, it: X, ads: &[Ad], fin: Fin<'a, I, E>) -> Res<P<'a, I, E>>
    where
        X: IterParser<'a, I, T, Ex<E>> + Clone + 'a,
    {
        match ads.split_first() {
            None => self.finish(it, fin),
            Some(_) => unsupported("iterable: adaptor stack deeper than 2"),
        }
    }

    // ----- adaptor levels for iterables that are also `Parser`s of their item type -----

    /// Entry level: only reached with a stack that starts (innermost) with `IMap`/`IMapWith`
    /// (`iterable` routes un-mapped stacks to `iter2`), which keeps the number of instantiations down.
    fn both2<T: Item, X>(&self, it: X, ads: &[Ad], fin: Fin<'a, I, E>) -> Res<P<'a, I, E>>
    where
        X: Parser<'a, I, T, Ex<E>> + IterParser<'a, I, T, Ex<E>> + Clone + 'a,
    {
        match ads.split_first() {
            Some((Ad::Map(f), rest)) => {
                let f = f.clone();
                self.both1(Parser::map(it, move |x: T| ap1(&f, x.into_val())), rest, fin)
            }
            Some((Ad::MapWith(mw), rest)) => {
                let (mw, cv) = (*mw, self.cv.clone());
                self.both1(
                    Parser::map_with(it, move |x: T, e: &mut MapExtra<'a, '_, I, Ex<E>>| {
                        mw_apply(&cv, mw, x.into_val(), e)
                    }),
                    rest,
                    fin,
                )
            }
            // `Enumerate` is not a `Parser`: nothing can be mapped over it
            _ => unsupported("IMap/IMapWith above IEnum does not type-check in chumsky"),
        }
    }

    fn both1<T: Item, X>(&self, it: X, ads: &[Ad], fin: Fin<'a, I, E>) -> Res<P<'a, I, E>>
    where
        X: Parser<'a, I, T, Ex<E>> + IterParser<'a, I, T, Ex<E>> + Clone + 'a,
    {
        match ads.split_first() {
            None => self.finish(it, fin),
            Some((Ad::Enum, rest)) => self.iter0(IterParser::enumerate(it), rest, fin),
            Some((Ad::Map(f), rest)) => {
                let f = f.clone();
                self.iter0(Parser::map(it, move |x: T| ap1(&f, x.into_val())), rest, fin)
            }
            Some((Ad::MapWith(mw), rest)) => {
                let (mw, cv) = (*mw, self.cv.clone());
                self.iter0(
                    Parser::map_with(it, move |x: T, e: &mut MapExtra<'a, '_, I, Ex<E>>| {
                        mw_apply(&cv, mw, x.into_val(), e)
                    }),
                    rest,
                    fin,
                )
            }
        }
    }

    // ----- finishers -----

    fn finish<T: Item, X>(&self, it: X, fin: Fin<'a, I, E>) -> Res<P<'a, I, E>>
    where
        X: IterParser<'a, I, T, Ex<E>> + Clone + 'a,
    {
        Ok(match fin {
            Fin::Collect(CKind::Vec) => bx(it.collect::<Vec<T>>().map(items_val::<T, _>)),
            Fin::Collect(CKind::Count) => bx(it.collect::<usize>().map(Val::Nat)),
            Fin::Collect(CKind::Unit) => bx(it.collect::<()>().map(|()| Val::Unit)),
            // every other fixed-size collection goes into the boxed container `Box<[T; N]>` (its own `ContainerExactly` impl)
            Fin::Exactly(1) if boxed_exactly() => bx(it.collect_exactly::<Box<[T; 1]>>().map(|b| items_val::<T, _>(*b))),
            Fin::Exactly(2) if boxed_exactly() => bx(it.collect_exactly::<Box<[T; 2]>>().map(|b| items_val::<T, _>(*b))),
            Fin::Exactly(3) if boxed_exactly() => bx(it.collect_exactly::<Box<[T; 3]>>().map(|b| items_val::<T, _>(*b))),
            Fin::Exactly(4) if boxed_exactly() => bx(it.collect_exactly::<Box<[T; 4]>>().map(|b| items_val::<T, _>(*b))),
            Fin::Exactly(0) => bx(it.collect_exactly::<[T; 0]>().map(items_val::<T, _>)),
            Fin::Exactly(1) => bx(it.collect_exactly::<[T; 1]>().map(items_val::<T, _>)),
            Fin::Exactly(2) => bx(it.collect_exactly::<[T; 2]>().map(items_val::<T, _>)),
            Fin::Exactly(3) => bx(it.collect_exactly::<[T; 3]>().map(items_val::<T, _>)),
            Fin::Exactly(4) => bx(it.collect_exactly::<[T; 4]>().map(items_val::<T, _>)),
            Fin::Exactly(_) => return unsupported("CollectExactly: built for n in 0..=4"),
            Fin::Foldl(a, k) => {
                bx(a.foldl(it, move |acc: Val, x: T| Val::tag(k, Val::pair(acc, x.into_val()))))
            }
            Fin::Foldr(b, k) => {
                bx(it.foldr(b, move |x: T, acc: Val| Val::tag(k, Val::pair(x.into_val(), acc))))
            }
            Fin::FoldlWith(a, k) => {
                let cv = self.cv.clone();
                bx(a.foldl_with(it, move |acc: Val, x: T, e: &mut MapExtra<'a, '_, I, Ex<E>>| {
                    fold_with(&cv, k, acc, x.into_val(), e)
                }))
            }
            Fin::FoldrWith(b, k) => {
                let cv = self.cv.clone();
                bx(it.foldr_with(b, move |x: T, acc: Val, e: &mut MapExtra<'a, '_, I, Ex<E>>| {
                    fold_with(&cv, k, x.into_val(), acc, e)
                }))
            }
        })
    }
}

/// An adaptor of an iterable.
enum Ad {
    Enum,
    Map(Fn1),
    MapWith(Mw),
}

/// What consumes the iterable.
enum Fin<'a, I: HInput<'a>, E: HErr<'a, I>> {
    Collect(CKind),
    Exactly(usize),
    Foldl(P<'a, I, E>, usize),
    Foldr(P<'a, I, E>, usize),
    FoldlWith(P<'a, I, E>, usize),
    FoldrWith(P<'a, I, E>, usize),
}

/// Item types of the iterables in the menu, and their image in `Val`.
pub trait Item: 'static {
    fn into_val(self) -> Val;
}

impl Item for Val {
    fn into_val(self) -> Val {
        self
    }
}

impl Item for () {
    fn into_val(self) -> Val {
        Val::Unit
    }
}

/// `enumerate()` items: `Pair(Nat(i), v)`.
impl<T: Item> Item for (usize, T) {
    fn into_val(self) -> Val {
        Val::pair(Val::Nat(self.0), self.1.into_val())
    }
}

fn items_val<T: Item, C: IntoIterator<Item = T>>(items: C) -> Val {
    Val::List(items.into_iter().map(T::into_val).collect())
}


/// The fallible configuring closure of `IRepCfg` with `ck >= 4` (`try_configure`): 4..7 are the shapes 0..3 returned as
/// `Ok`; 8 returns `Err(custom lo)` when the context holds no token and `Ok(exactly(n))` otherwise.
fn rep_try_cfg<'a, I: HInput<'a>, E: HErr<'a, I>>(
    ck: usize,
    lo: usize,
) -> impl Fn(chumsky::combinator::RepeatedCfg, &Val, I::Span) -> Result<chumsky::combinator::RepeatedCfg, E> + Clone {
    move |cfg, ctx: &Val, span: I::Span| {
        let n = val_count(ctx);
        if ck == 8 {
            if n == 0 {
                Err(E::custom(lo, span))
            } else {
                Ok(cfg.exactly(n))
            }
        } else {
            Ok(rep_cfg(cfg, ck - 4, n))
        }
    }
}

static BOXED_EXACTLY: std::sync::atomic::AtomicUsize = std::sync::atomic::AtomicUsize::new(0);
fn boxed_exactly() -> bool {
    BOXED_EXACTLY.fetch_add(1, std::sync::atomic::Ordering::Relaxed) % 2 == 1
}

/// The configuring closure of `IRepCfg`: which bounds it sets from the context-derived count `n`.
fn rep_cfg(cfg: chumsky::combinator::RepeatedCfg, ck: usize, n: usize) -> chumsky::combinator::RepeatedCfg {
    match ck {
        0 => cfg.exactly(n),
        1 => cfg.at_least(n),
        2 => cfg.at_most(n),
        // the same two bounds set in the two builder orders
        9 => cfg.at_most(n).at_least(n / 2),
        10 => cfg.at_least(n / 2).at_most(n),
        _ => cfg,
    }
}
