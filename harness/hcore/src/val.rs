//! The universal output value `Val` and the closure language of /verif/coq/Model/Syntax.v
//! (`first_tok ap1 holds apmw val_toks val_count memN`), ported with identical semantics.

use std::fmt::{self, Write};

/// A position inside the input, as printed in results.
///
/// `Ix(i)` is a token index. `Bad(raw)` is a raw offset that could not be converted to a token index
/// (not on a char boundary of a `&str`, or out of range); it prints as `!<raw>`.
#[derive(Clone, Copy, Debug, PartialEq, Eq)]
pub enum Pos {
    Ix(usize),
    Bad(usize),
}

impl fmt::Display for Pos {
    fn fmt(&self, f: &mut fmt::Formatter<'_>) -> fmt::Result {
        match self {
            Pos::Ix(i) => write!(f, "{i}"),
            Pos::Bad(r) => write!(f, "!{r}"),
        }
    }
}

/// `val` of Syntax.v. Tokens are stored as their number (`char as u32` / `u8 as u32`), see `HTok`.
#[derive(Clone, Debug, PartialEq, Default)]
pub enum Val {
    #[default]
    Unit,
    Tok(u32),
    Nat(usize),
    Pair(Box<Val>, Box<Val>),
    List(Vec<Val>),
    Opt(Option<Box<Val>>),
    Span(Pos, Pos),
    /// token-index range of a `to_slice` / `e.slice()` result
    Slice(Pos, Pos),
    Tag(usize, Box<Val>),
    /// a drop-tracked value (`FNew`, property C19); prints as `K`
    Tracked(Tracked),
}

impl Val {
    pub fn pair(a: Val, b: Val) -> Val {
        Val::Pair(Box::new(a), Box::new(b))
    }
    pub fn tag(k: usize, v: Val) -> Val {
        Val::Tag(k, Box::new(v))
    }
    pub fn opt(o: Option<Val>) -> Val {
        Val::Opt(o.map(Box::new))
    }
    pub fn tok<T: HTok>(t: T) -> Val {
        Val::Tok(t.to_u32())
    }
    pub fn toks<T: HTok, C: IntoIterator<Item = T>>(ts: C) -> Val {
        Val::List(ts.into_iter().map(|t| Val::Tok(t.to_u32())).collect())
    }

    /// Canonical printing (FORMAT.md, `val`).
    pub fn canon(&self, out: &mut String) {
        match self {
            Val::Unit => out.push('U'),
            Val::Tok(t) => {
                let _ = write!(out, "T{}", *t);
            }
            Val::Nat(n) => {
                let _ = write!(out, "N{n}");
            }
            Val::Pair(a, b) => {
                out.push_str("(P ");
                a.canon(out);
                out.push(' ');
                b.canon(out);
                out.push(')');
            }
            Val::List(l) => {
                out.push_str("(L");
                for v in l {
                    out.push(' ');
                    v.canon(out);
                }
                out.push(')');
            }
            Val::Opt(None) => out.push_str("O-"),
            Val::Opt(Some(v)) => {
                out.push_str("(O ");
                v.canon(out);
                out.push(')');
            }
            Val::Span(s, e) => {
                let _ = write!(out, "S{s}.{e}");
            }
            Val::Slice(s, e) => {
                let _ = write!(out, "Z{s}.{e}");
            }
            Val::Tag(k, v) => {
                let _ = write!(out, "(G{k} ");
                v.canon(out);
                out.push(')');
            }
            Val::Tracked(_) => out.push('K'),
        }
    }

    /// The number of tracked values reachable from this value (`O<n>` of the drop accounting).
    pub fn tracked_count(&self) -> usize {
        match self {
            Val::Tracked(_) => 1,
            Val::Pair(a, b) => a.tracked_count() + b.tracked_count(),
            Val::List(l) => l.iter().map(Val::tracked_count).sum(),
            Val::Opt(Some(v)) | Val::Tag(_, v) => v.tracked_count(),
            _ => 0,
        }
    }
}

// ---------- drop accounting (FORMAT.md, version 3) ----------

/// A value whose lifetime is observed: every instance (a clone is a new instance) has a unique id that is
/// registered in a live-set on creation and removed on drop. Dropping an id that is not registered sets the
/// double-drop flag. The accounting state is per thread (a worker runs its cases on one thread).
#[derive(Debug)]
pub struct Tracked {
    id: u64,
    /// the accounting period the value was created in (`track::reset` starts a new one); a value that
    /// outlives its period (e.g. it was leaked, or is kept alive by a parser that is used again) is not
    /// accounted to a later one
    epoch: u64,
}

pub mod track {
    use std::cell::{Cell, RefCell};
    use std::collections::HashSet;

    thread_local! {
        static NEXT: Cell<u64> = const { Cell::new(0) };
        static EPOCH: Cell<u64> = const { Cell::new(0) };
        static LIVE: RefCell<HashSet<u64>> = RefCell::new(HashSet::new());
        static DOUBLE: Cell<bool> = const { Cell::new(false) };
        static OUT: Cell<usize> = const { Cell::new(0) };
    }

    /// Start a new accounting period: nothing live, no double drop, no output counted.
    pub fn reset() {
        EPOCH.with(|e| e.set(e.get() + 1));
        LIVE.with(|l| l.borrow_mut().clear());
        DOUBLE.with(|d| d.set(false));
        OUT.with(|o| o.set(0));
    }

    pub(super) fn register() -> (u64, u64) {
        let id = NEXT.with(|n| {
            let id = n.get();
            n.set(id + 1);
            id
        });
        LIVE.with(|l| l.borrow_mut().insert(id));
        (id, EPOCH.with(|e| e.get()))
    }

    pub(super) fn unregister(id: u64, epoch: u64) {
        // (thread-local storage may be gone when a leaked value dies with its thread)
        match EPOCH.try_with(|e| e.get()) {
            Ok(cur) if cur == epoch => {}
            _ => return,
        }
        if let Ok(false) = LIVE.try_with(|l| l.borrow_mut().remove(&id)) {
            let _ = DOUBLE.try_with(|d| d.set(true));
        }
    }

    /// Record the number of tracked values reachable from the output of the parse.
    pub fn note_output(n: usize) {
        OUT.with(|o| o.set(n));
    }

    /// Values still registered (leaks, once everything of the case has been dropped).
    pub fn live() -> usize {
        LIVE.with(|l| l.borrow().len())
    }

    pub fn double_drop() -> bool {
        DOUBLE.with(|d| d.get())
    }

    /// ` L<live> D<0|1> O<n>`
    pub fn suffix() -> String {
        format!(" L{} D{} O{}", live(), double_drop() as u8, OUT.with(|o| o.get()))
    }
}

impl Tracked {
    #[allow(clippy::new_without_default)]
    pub fn new() -> Tracked {
        let (id, epoch) = track::register();
        Tracked { id, epoch }
    }
}

impl Clone for Tracked {
    /// A clone is a new value.
    fn clone(&self) -> Tracked {
        Tracked::new()
    }
}

impl Drop for Tracked {
    fn drop(&mut self) {
        track::unregister(self.id, self.epoch);
    }
}

/// All tracked values print alike (`K`); they compare equal.
impl PartialEq for Tracked {
    fn eq(&self, _other: &Tracked) -> bool {
        true
    }
}

// ---------- tokens ----------

/// The token types of the input kinds: `char` (most kinds), `u8` (`bytes`, `io`), `TT` (`tree`, see input.rs) and
/// `&'static Grapheme` (`graphemes`, `gslice`: the number is the cluster id, see input.rs).
/// Everywhere outside the chumsky parsers themselves a token is its number.
pub trait HTok: Clone + PartialEq + std::fmt::Debug + 'static {
    fn from_u32(n: u32) -> Option<Self>;
    fn to_u32(&self) -> u32;
    /// The tokens of an AST node (validated when the case was read).
    fn seq(ts: &[u32]) -> Vec<Self> {
        ts.iter().map(|&n| Self::from_u32(n).expect("token validated by ast::parse_case")).collect()
    }
    /// `val_toks(ctx)` as tokens of this type. A context value can only contain tokens that were validated
    /// when the case was read or that came out of the input, so the conversion cannot fail.
    fn ctx_seq(v: &Val) -> Vec<Self> {
        Self::seq(&val_toks(v))
    }
}

impl HTok for char {
    fn from_u32(n: u32) -> Option<char> {
        char::from_u32(n)
    }
    fn to_u32(&self) -> u32 {
        *self as u32
    }
}

impl HTok for u8 {
    fn from_u32(n: u32) -> Option<u8> {
        u8::try_from(n).ok()
    }
    fn to_u32(&self) -> u32 {
        *self as u32
    }
}

// ---------- closure language ----------

#[derive(Clone, Debug, PartialEq)]
pub enum Fn1 {
    Id,
    Tag(usize),
    Const(usize),
    Fst,
    Snd,
    Dup,
    /// `FNew`: drop the argument, return a fresh drop-tracked value
    New,
}

#[derive(Clone, Debug, PartialEq)]
pub enum Pred {
    True,
    False,
    TokIn(Vec<u32>),
    TokNotIn(Vec<u32>),
}

#[derive(Clone, Copy, Debug, PartialEq)]
pub enum Mw {
    Span,
    State,
    Ctx,
    All,
    Slice,
}

pub fn first_tok(v: &Val) -> Option<u32> {
    match v {
        Val::Tok(t) => Some(*t),
        Val::Pair(a, b) => first_tok(a).or_else(|| first_tok(b)),
        Val::List(l) => l.first().and_then(first_tok),
        Val::Opt(Some(x)) => first_tok(x),
        Val::Tag(_, x) => first_tok(x),
        _ => None,
    }
}

pub fn ap1(f: &Fn1, v: Val) -> Val {
    match f {
        Fn1::Id => v,
        Fn1::Tag(k) => Val::tag(*k, v),
        Fn1::Const(n) => Val::Nat(*n),
        Fn1::Fst => match v {
            Val::Pair(a, _) => *a,
            v => v,
        },
        Fn1::Snd => match v {
            Val::Pair(_, b) => *b,
            v => v,
        },
        Fn1::Dup => Val::pair(v.clone(), v),
        Fn1::New => {
            drop(v);
            Val::Tracked(Tracked::new())
        }
    }
}

pub fn mem_n(t: u32, l: &[u32]) -> bool {
    l.iter().any(|x| *x == t)
}

pub fn holds(p: &Pred, v: &Val) -> bool {
    match p {
        Pred::True => true,
        Pred::False => false,
        Pred::TokIn(ts) => match first_tok(v) {
            Some(t) => mem_n(t, ts),
            None => false,
        },
        Pred::TokNotIn(ts) => match first_tok(v) {
            Some(t) => !mem_n(t, ts),
            None => true,
        },
    }
}

/// `apmw f v sp sl ust ctx`. `sl` is only read for `MWSlice`.
pub fn apmw(f: Mw, v: Val, sp: (Pos, Pos), sl: (Pos, Pos), ust: u64, ctx: &Val) -> Val {
    match f {
        Mw::Span => Val::pair(v, Val::Span(sp.0, sp.1)),
        Mw::State => Val::pair(v, Val::Nat(ust as usize)),
        Mw::Ctx => Val::pair(v, ctx.clone()),
        Mw::All => Val::pair(
            v,
            Val::pair(Val::Span(sp.0, sp.1), Val::pair(Val::Nat(ust as usize), ctx.clone())),
        ),
        Mw::Slice => Val::pair(v, Val::Slice(sl.0, sl.1)),
    }
}

pub fn val_toks(v: &Val) -> Vec<u32> {
    fn go(v: &Val, out: &mut Vec<u32>) {
        match v {
            Val::Tok(t) => out.push(*t),
            Val::List(l) => l.iter().for_each(|x| go(x, out)),
            Val::Pair(a, b) => {
                go(a, out);
                go(b, out);
            }
            Val::Opt(Some(x)) => go(x, out),
            Val::Tag(_, x) => go(x, out),
            _ => {}
        }
    }
    let mut out = Vec::new();
    go(v, &mut out);
    out
}

pub fn val_count(v: &Val) -> usize {
    val_toks(v).len()
}
