//! The main loop of a worker binary (`hw-<ikind>-<ekind>`): case lines on stdin (or in the file named by the
//! first argument), one result line `<id> <result>` per input line on stdout, flushed after every line.
//!
//! The front end (`harness`) routes every case line to the worker of its input kind and error type.

use std::io::{BufRead, BufReader, Write};
use std::panic::{catch_unwind, AssertUnwindSafe};

use crate::ast::{self, Case, EKind, HCase, IKind, LineKind};
use crate::sexp;
use crate::val::track;

/// The name of the worker executable for a combination (`n`: input length, only for `array`).
pub fn worker_name(ikind: IKind, ekind: EKind, n: usize) -> String {
    match ikind {
        IKind::Array => format!("hw-array{n}-{}", ekind.name()),
        _ => format!("hw-{}-{}", ikind.name(), ekind.name()),
    }
}

/// Largest input length of the `array` kind.
pub const ARRAY_MAX: usize = 8;

pub fn classify_panic(msg: &str) -> &'static str {
    if msg.contains("making no progress") {
        "progress"
    } else if msg.contains("called `Option::unwrap()` on a `None` value") {
        "unwrap"
    } else {
        "other"
    }
}

/// The class of a caught panic (FORMAT.md, panic classification).
pub fn panic_class(payload: &(dyn std::any::Any + Send)) -> &'static str {
    let msg = if let Some(s) = payload.downcast_ref::<&'static str>() {
        (*s).to_string()
    } else if let Some(s) = payload.downcast_ref::<String>() {
        s.clone()
    } else {
        String::new()
    };
    classify_panic(&msg)
}

/// The name of the worker executable for the thread cases.
pub const THREADS_WORKER: &str = "hw-threads";

/// Die with the front end: a worker stuck in a non-terminating parse must not outlive a killed `harness`.
pub fn die_with_parent() {
    #[cfg(target_os = "linux")]
    {
        extern "C" {
            fn prctl(option: i32, ...) -> i32;
            fn getppid() -> i32;
        }
        const PR_SET_PDEATHSIG: i32 = 1;
        const SIGKILL: u64 = 9;
        // SAFETY: plain libc calls without pointers
        unsafe {
            prctl(PR_SET_PDEATHSIG, SIGKILL, 0u64, 0u64, 0u64);
            if std::env::var_os("HARNESS_WORKER").is_some() && getppid() == 1 {
                // the front end died before the request took effect
                std::process::exit(0);
            }
        }
    }
}

/// Cap the address space (default 1 GiB, `HARNESS_MEM_MB=<n>` overrides, `0` = no cap): a parse that does not
/// terminate usually allocates without bound (e.g. a pratt postfix operator that consumes nothing), and the
/// driver runs many harnesses side by side. When the cap is hit the allocation failure aborts the worker and
/// the front end stops without a result for the case, which the driver reports as TIMEOUT.
pub fn cap_memory() {
    #[cfg(target_os = "linux")]
    {
        #[repr(C)]
        struct RLimit {
            cur: u64,
            max: u64,
        }
        extern "C" {
            fn setrlimit(resource: i32, rlim: *const RLimit) -> i32;
        }
        const RLIMIT_AS: i32 = 9;
        let mb = std::env::var("HARNESS_MEM_MB").ok().and_then(|v| v.parse::<u64>().ok()).unwrap_or(1024);
        if mb > 0 {
            let lim = RLimit { cur: mb << 20, max: mb << 20 };
            // SAFETY: `lim` is a valid `struct rlimit` (two 64-bit words on 64-bit Linux)
            unsafe {
                setrlimit(RLIMIT_AS, &lim);
            }
        }
    }
}

/// The runner of ordinary cases and (where there is one) of history cases.
pub type Run = fn(&Case, bool) -> String;
pub type RunHist = fn(&HCase, bool) -> String;

/// `run`: the runner of this worker's combination (`hcore::kinds::run_*::<Sel*>`).
pub fn main(ikind: IKind, ekind: EKind, run: Run) {
    serve(ikind, ekind, run, None)
}

/// A worker that also serves the history cases of its combination (`hcore::hist::run_hist::<Fam, Sel*>`).
pub fn main_h(ikind: IKind, ekind: EKind, run: Run, hist: RunHist) {
    serve(ikind, ekind, run, Some(hist))
}

fn serve(ikind: IKind, ekind: EKind, run: Run, hist: Option<RunHist>) {
    serve_lines(|line, why| run_line(line, ikind, ekind, run, hist, why))
}

/// The loop of every worker: `handle(line, why)` yields the id and the result of a non-blank input line
/// (`None`: no id can be read from the line).
pub fn serve_lines(mut handle: impl FnMut(&str, bool) -> Option<(u64, String)>) {
    die_with_parent();
    cap_memory();
    let args: Vec<String> = std::env::args().collect();
    let reader: Box<dyn BufRead> = match args.len() {
        1 => Box::new(BufReader::new(std::io::stdin())),
        2 => match std::fs::File::open(&args[1]) {
            Ok(f) => Box::new(BufReader::new(f)),
            Err(e) => {
                eprintln!("{}: cannot open {}: {e}", args[0], args[1]);
                std::process::exit(2);
            }
        },
        _ => {
            eprintln!("usage: {} [<casefile>]   (default: stdin)", args[0]);
            std::process::exit(2);
        }
    };
    // `HARNESS_WHY=1`: explain UNSUPPORTED results on stderr
    let why = std::env::var_os("HARNESS_WHY").is_some();

    // panics are results, not noise
    std::panic::set_hook(Box::new(|_| {}));

    let stdout = std::io::stdout();
    let mut out = stdout.lock();
    for line in reader.lines() {
        let line = match line {
            Ok(l) => l,
            Err(e) => {
                eprintln!("{}: read error: {e}", args[0]);
                std::process::exit(2);
            }
        };
        if line.trim().is_empty() {
            continue;
        }
        // exactly one output line per non-blank input line
        let res = match handle(&line, why) {
            Some((id, result)) => writeln!(out, "{id} {result}"),
            None => writeln!(out, "? UNSUPPORTED"),
        };
        if res.is_err() || out.flush().is_err() {
            // the front end is gone
            std::process::exit(0);
        }
    }
}

/// `None`: no id can be read from the line.
fn run_line(
    line: &str,
    ikind: IKind,
    ekind: EKind,
    run: Run,
    hist: Option<RunHist>,
    why: bool,
) -> Option<(u64, String)> {
    let sexp = match sexp::parse_line(line) {
        Some(s) => s,
        None => return sexp::salvage_id(line).map(|id| (id, "UNSUPPORTED".to_string())),
    };
    let id = ast::case_id(&sexp)?;
    let unsupported = |reason: &str| {
        if why {
            eprintln!("{id}: {reason}");
        }
        Some((id, "UNSUPPORTED".to_string()))
    };
    match ast::line_kind(&sexp) {
        LineKind::Plain => {}
        LineKind::History => {
            let Some(hist) = hist else {
                return unsupported("history cases are served by the str and slice workers");
            };
            let Some(h) = ast::parse_hcase(&sexp) else {
                return unsupported("malformed history case or unknown constructor/kind/wrapper");
            };
            if h.ikind != ikind || h.ekind != ekind {
                return unsupported("case routed to the wrong worker");
            }
            // panics of the parses are caught per input inside; this one catches the builder
            let result = match catch_unwind(AssertUnwindSafe(|| hist(&h, why))) {
                Ok(r) => r,
                Err(payload) => format!("PANIC {}", panic_class(&*payload)),
            };
            return Some((id, result));
        }
        LineKind::Threads => return unsupported("thread cases are served by hw-threads"),
    }
    let case = match ast::parse_case(&sexp) {
        Some(c) => c,
        None => return unsupported("malformed case or unknown constructor/kind"),
    };
    if case.ikind != ikind || case.ekind != ekind {
        if why {
            eprintln!("{id}: case routed to the worker for {} {}", ikind.name(), ekind.name());
        }
        return Some((id, "UNSUPPORTED".to_string()));
    }
    // drop accounting (grammars with `FNew`): reset, run, and read the books when everything that belongs
    // to the case -- parser, input, `ParseResult` -- is gone: all of it lives inside `run`
    let accounted = case.grammar.has_fnew();
    if accounted {
        track::reset();
    }
    let mut result = match catch_unwind(AssertUnwindSafe(|| run(&case, why))) {
        Ok(r) => r,
        Err(payload) => format!("PANIC {}", panic_class(&*payload)),
    };
    if accounted && result != "UNSUPPORTED" {
        result.push_str(&track::suffix());
    }
    Some((id, result))
}
