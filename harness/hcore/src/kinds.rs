//! Running one case: the generic `run`, the error-type selectors and one runner per input kind.
//!
//! A worker binary instantiates exactly one runner with one selector, e.g. `run_str::<SelRich>`.

use chumsky::error::{Cheap, EmptyErr, Rich, Simple};
use chumsky::input::{Input, IoInput, IterInput, Stream};
use chumsky::span::SimpleSpan;
use chumsky::text::{Grapheme, Graphemes};
use chumsky::Parser;

use crate::ast::{Case, Mode, STree, TTree};
use crate::build::{Builder, Ex};
use crate::errs::HErr;
use crate::input::{
    grapheme_of, shift_span, split_ref, split_val, tree_input, Counting, Cur, GText, HInput, HState, IoIn, IterIn,
    MapSpanIn, MappedIn, MappedStreamIn, Spanned, StreamIn, TreeIn, WithCtxIn, STT, TT, WITHCTX_CONTEXT,
};
use crate::val::{track, HTok, Val};

// ---------- error types ----------

/// Selects the error type for an input kind (`<ekind>` of the case).
pub trait ESel: 'static {
    type Err<'a, I: HInput<'a>>: HErr<'a, I>;
}

pub struct SelEmpty;
pub struct SelCheap;
pub struct SelSimple;
pub struct SelRich;

impl ESel for SelEmpty {
    type Err<'a, I: HInput<'a>> = EmptyErr;
}
impl ESel for SelCheap {
    type Err<'a, I: HInput<'a>> = Cheap<I::Span>;
}
impl ESel for SelSimple {
    type Err<'a, I: HInput<'a>> = Simple<'a, I::Token, I::Span>;
}
impl ESel for SelRich {
    type Err<'a, I: HInput<'a>> = Rich<'a, I::Token, I::Span>;
}

// ---------- the generic run ----------

/// What `run` produced.
pub struct Outcome {
    /// the result (without the id)
    pub text: String,
    /// the parser was built and run to completion (`OK`/`FAIL`)
    pub parsed: bool,
}

/// Build the parser for the case's grammar, make the input, parse or check, print the result.
pub fn run<'a, I, E, M>(case: &Case, cv: I::Conv, make: M, why: bool) -> Outcome
where
    I: HInput<'a>,
    E: HErr<'a, I>,
    M: FnOnce() -> I,
{
    let parser = match Builder::<I, E>::new(cv.clone()).g(&case.grammar) {
        Ok(p) => p,
        Err(u) => {
            if why {
                eprintln!("{}: {}", case.id, u.0);
            }
            return Outcome { text: "UNSUPPORTED".to_string(), parsed: false };
        }
    };
    let input = make();
    let text = match case.mode {
        Mode::Parse => exec_parse::<I, E, _>(&parser, input, &cv),
        Mode::Check => exec_check::<I, E, _>(&parser, input, &cv),
    };
    Outcome { text, parsed: true }
}

/// `w.parse_with_state(input, &mut HState::default())`, printed. `W` may be a trait object.
pub fn exec_parse<'a, I, E, W>(w: &W, input: I, cv: &I::Conv) -> String
where
    I: HInput<'a>,
    E: HErr<'a, I>,
    W: Parser<'a, I, Val, Ex<E>> + ?Sized,
{
    let mut state = HState::default();
    let (o, e) = w.parse_with_state(input, &mut state).into_output_errors();
    render::<I, E>(o.map(Some), e, cv)
}

/// `w.check_with_state(input, &mut HState::default())`, printed.
pub fn exec_check<'a, I, E, W>(w: &W, input: I, cv: &I::Conv) -> String
where
    I: HInput<'a>,
    E: HErr<'a, I>,
    W: Parser<'a, I, Val, Ex<E>>,
{
    let mut state = HState::default();
    let (o, e) = w.check_with_state(input, &mut state).into_output_errors();
    render::<I, E>(o.map(|()| None), e, cv)
}

/// The result text of a completed parse (`OK ..`/`FAIL ..`). The number of tracked values in the output is
/// left with the drop accounting; the output and the errors are dropped here.
fn render<'a, I, E>(output: Option<Option<Val>>, errs: Vec<E>, cv: &I::Conv) -> String
where
    I: HInput<'a>,
    E: HErr<'a, I>,
{
    let mut out = String::new();
    match output {
        Some(Some(v)) => {
            track::note_output(v.tracked_count());
            out.push_str("OK ");
            v.canon(&mut out);
            out.push(' ');
        }
        Some(None) => out.push_str("OK - "),
        None => out.push_str("FAIL "),
    }
    out.push_str("E[");
    let conv = |raw: usize| I::pos(cv, raw);
    for (i, e) in errs.iter().enumerate() {
        if i > 0 {
            out.push(';');
        }
        e.canon(&conv, &mut out);
    }
    out.push(']');
    out
}

// ---------- buffers ----------

fn chars(case: &Case) -> Vec<char> {
    char::seq(&case.input)
}

fn bytes(case: &Case) -> Vec<u8> {
    u8::seq(&case.input)
}

fn spanned(case: &Case) -> Vec<Spanned> {
    chars(case)
        .into_iter()
        .zip(case.spans.iter())
        .map(|(c, &(s, e))| (c, SimpleSpan::from(s..e)))
        .collect()
}

/// The end-of-input span of the mapped kinds: `E-1..E` with `E` = (end of the last token) + 2, or `2..3` for the
/// empty input. Deliberately not zero-width (the 0.9-style `len..len+1`): chumsky only ever uses its end.
fn eoi(case: &Case) -> SimpleSpan<usize> {
    let e = match case.spans.last() {
        Some(&(_, e)) => e + 2,
        None => 3,
    };
    SimpleSpan::from(e - 1..e)
}

// ---------- one runner per input kind ----------

/// `str`: `&str`
pub fn run_str<S: ESel>(case: &Case, why: bool) -> String {
    let buf: String = chars(case).into_iter().collect();
    run::<&str, S::Err<'_, &str>, _>(case, Cur::new(&buf), || &buf, why).text
}

/// `slice`: `&[char]`
pub fn run_slice<S: ESel>(case: &Case, why: bool) -> String {
    let buf = chars(case);
    run::<&[char], S::Err<'_, &[char]>, _>(case, Cur::new(&buf[..]), || &buf[..], why).text
}

/// `bytes`: `&[u8]`
pub fn run_bytes<S: ESel>(case: &Case, why: bool) -> String {
    let buf = bytes(case);
    run::<&[u8], S::Err<'_, &[u8]>, _>(case, Cur::new(&buf[..]), || &buf[..], why).text
}

/// `array`: `&[char; N]` for inputs of exactly `N` tokens
pub fn run_array<S: ESel, const N: usize>(case: &Case, why: bool) -> String {
    let buf: [char; N] = match chars(case).try_into() {
        Ok(a) => a,
        Err(_) => {
            if why {
                eprintln!("{}: array: this instance takes inputs of length {N}", case.id);
            }
            return "UNSUPPORTED".to_string();
        }
    };
    run::<&[char; N], S::Err<'_, &[char; N]>, _>(case, Cur::new(&buf[..]), || &buf, why).text
}

/// `array` for every supported length (0..=8)
pub fn run_array_any<S: ESel>(case: &Case, why: bool) -> String {
    match case.input.len() {
        0 => run_array::<S, 0>(case, why),
        1 => run_array::<S, 1>(case, why),
        2 => run_array::<S, 2>(case, why),
        3 => run_array::<S, 3>(case, why),
        4 => run_array::<S, 4>(case, why),
        5 => run_array::<S, 5>(case, why),
        6 => run_array::<S, 6>(case, why),
        7 => run_array::<S, 7>(case, why),
        8 => run_array::<S, 8>(case, why),
        _ => {
            if why {
                eprintln!("{}: array: inputs longer than 8 are not built", case.id);
            }
            "UNSUPPORTED".to_string()
        }
    }
}

/// Append the pull count of the stream kinds to the result of a completed parse.
fn with_pulls(o: Outcome, log: &std::cell::RefCell<crate::input::PullLog>) -> String {
    let mut text = o.text;
    if o.parsed {
        text.push_str(&log.borrow().suffix());
    }
    text
}

/// `stream`: `Stream::from_iter(chars.into_iter())` (over the counting iterator)
pub fn run_stream<S: ESel>(case: &Case, why: bool) -> String {
    let buf = chars(case);
    let n = buf.len();
    let (it, log) = Counting::new(buf);
    let o = run::<StreamIn, S::Err<'_, StreamIn>, _>(case, n, move || Stream::from_iter(it), why);
    with_pulls(o, &log)
}

/// `bstream`: `Stream::from_iter(..).boxed()`
pub fn run_bstream<S: ESel>(case: &Case, why: bool) -> String {
    type In<'a> = chumsky::input::BoxedStream<'a, char>;
    let buf = chars(case);
    let n = buf.len();
    let (it, log) = Counting::new(buf);
    let o = run::<In<'_>, S::Err<'_, In<'_>>, _>(case, n, move || Stream::from_iter(it).boxed(), why);
    with_pulls(o, &log)
}

/// `mapped`: `slice.map(eoi, |(t, s)| (t, s))` over `&[(char, SimpleSpan)]`
pub fn run_mapped<S: ESel>(case: &Case, why: bool) -> String {
    let buf = spanned(case);
    let eoi = eoi(case);
    run::<MappedIn<'_>, S::Err<'_, MappedIn<'_>>, _>(
        case,
        Cur::new(&buf[..]),
        || <&[Spanned] as Input>::map(&buf[..], eoi, split_ref as fn(&Spanned) -> (&char, &SimpleSpan<usize>)),
        why,
    )
    .text
}

/// `mappedstream`: `Stream::from_iter(Vec<(char, SimpleSpan)>).map(eoi, |(t, s): (_, _)| (t, s))`
pub fn run_mappedstream<S: ESel>(case: &Case, why: bool) -> String {
    let buf = spanned(case);
    let eoi = eoi(case);
    let (it, log) = Counting::new(buf);
    let o = run::<MappedStreamIn, S::Err<'_, MappedStreamIn>, _>(
        case,
        (),
        move || Stream::from_iter(it).map(eoi, split_val as fn(Spanned) -> (char, SimpleSpan<usize>)),
        why,
    );
    with_pulls(o, &log)
}

/// `iter`: `IterInput::new(vec.into_iter(), eoi)`
pub fn run_iter<S: ESel>(case: &Case, why: bool) -> String {
    let buf = spanned(case);
    let eoi = eoi(case);
    run::<IterIn, S::Err<'_, IterIn>, _>(case, (), move || IterInput::new(buf.into_iter(), eoi), why).text
}

/// `mapspan`: `str_input.map_span(|s| SimpleSpan::new(s.start + 100, s.end + 100))`
pub fn run_mapspan<S: ESel>(case: &Case, why: bool) -> String {
    let buf: String = chars(case).into_iter().collect();
    run::<MapSpanIn<'_>, S::Err<'_, MapSpanIn<'_>>, _>(
        case,
        Cur::new(&buf),
        || <&str as Input>::map_span(&buf, shift_span as fn(SimpleSpan<usize>) -> SimpleSpan<usize>),
        why,
    )
    .text
}

/// `withctx`: `str_input.with_context(7u8)`
pub fn run_withctx<S: ESel>(case: &Case, why: bool) -> String {
    let buf: String = chars(case).into_iter().collect();
    run::<WithCtxIn<'_>, S::Err<'_, WithCtxIn<'_>>, _>(
        case,
        Cur::new(&buf),
        || <&str as Input>::with_context::<SimpleSpan<usize, u8>>(&buf, WITHCTX_CONTEXT),
        why,
    )
    .text
}

/// `io`: `IoInput::new(std::io::Cursor::new(Vec<u8>))`
pub fn run_io<S: ESel>(case: &Case, why: bool) -> String {
    let buf = bytes(case);
    let n = buf.len();
    run::<IoIn, S::Err<'_, IoIn>, _>(case, n, move || IoInput::new(std::io::Cursor::new(buf)), why).text
}

/// `tree`: `&[(TT, SimpleSpan)]` through `Input::map(eoi, |(t, s)| (t, s))`
pub fn run_tree<S: ESel>(case: &Case, why: bool) -> String {
    fn tokens(ts: &[STree]) -> Vec<STT> {
        ts.iter()
            .map(|(t, s, e)| {
                let t = match t {
                    TTree::Leaf(c) => TT::Leaf(char::from_u32(*c).expect("token validated by ast::parse_case")),
                    TTree::Group(id, children) => TT::Group(*id, tokens(children)),
                };
                (t, SimpleSpan::from(*s..*e))
            })
            .collect()
    }
    let buf = tokens(&case.tree);
    run::<TreeIn<'_>, S::Err<'_, TreeIn<'_>>, _>(case, Cur::new(&buf[..]), || tree_input(&buf[..]), why).text
}

// ---------- version 4: the grapheme kinds ----------

/// A buffer that is handed out as `&'static` while the guard lives (the tokens of the grapheme kinds are
/// references, and `HTok` wants `'static` tokens) and reclaimed when the guard is dropped.
struct Leaked<T: 'static>(*mut T);

impl<T: 'static> Leaked<T> {
    fn new(t: T) -> Self {
        Leaked(Box::into_raw(Box::new(t)))
    }
    /// SAFETY: nothing that holds the reference (or anything borrowed from it) may outlive the guard.
    unsafe fn get(&self) -> &'static T {
        &*self.0
    }
}

impl<T: 'static> Drop for Leaked<T> {
    fn drop(&mut self) {
        // SAFETY: made by `Box::into_raw`; see `get`
        unsafe { drop(Box::from_raw(self.0)) }
    }
}

/// The text of a case of the grapheme kinds, or `None` (`UNSUPPORTED`) when the reference segmentation
/// `unicode_segmentation::graphemes(s, true)` does not give back the case's tokens one for one.
fn gtext(case: &Case, why: bool) -> Option<GText> {
    let t = GText::new(&case.input);
    if t.is_none() && why {
        eprintln!("{}: {}: the reference segmentation of the text is not the given token sequence", case.id, case.ikind.name());
    }
    t
}

/// `graphemes`: `Graphemes::new(&s)`
pub fn run_graphemes<S: ESel>(case: &Case, why: bool) -> String {
    let Some(text) = gtext(case, why) else {
        return "UNSUPPORTED".to_string();
    };
    let text = Leaked::new(text);
    // SAFETY: the parser, the input, the output and the errors all die inside `run` (also when it unwinds);
    // what comes out is a `String`
    let t: &'static GText = unsafe { text.get() };
    type In = &'static Graphemes;
    run::<In, S::Err<'static, In>, _>(case, Cur::new(t), || Graphemes::new(&t.s), why).text
}

/// `gslice`: the reference clusters of the same text as `&[&Grapheme]`
pub fn run_gslice<S: ESel>(case: &Case, why: bool) -> String {
    let Some(text) = gtext(case, why) else {
        return "UNSUPPORTED".to_string();
    };
    let text = Leaked::new(text);
    // SAFETY: as in `run_graphemes`; `toks` (declared later) is dropped before `text`
    let t: &'static GText = unsafe { text.get() };
    let toks: Leaked<Vec<&'static Grapheme>> = Leaked::new(t.clusters().map(grapheme_of).collect());
    // SAFETY: as above
    let ts: &'static [&'static Grapheme] = unsafe { toks.get() };
    type In = &'static [&'static Grapheme];
    run::<In, S::Err<'static, In>, _>(case, Cur::new(ts), || ts, why).text
}
