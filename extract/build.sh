#!/bin/sh
# builds the extracted model runner; requires ../coq to be compiled
set -e
cd "$(dirname "$0")"
coqc -Q ../coq Chum Extract.v >/dev/null
ocamlfind ocamlopt -O2 -w -a Model.mli Model.ml driver.ml -o runner
