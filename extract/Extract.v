From Chum Require Import Machine Sem Inputs Text Nested.
Require Extraction.
Require ExtrOcamlBasic.
Extraction Language OCaml.
Extraction "Model.ml" run_top go init_st sem_top sem no_quirks spn_plain spn_mapped text_digits text_int text_ident text_keyword text_whitespace text_inline_whitespace text_newline text_padded nested_delims nest_q set_nested.
