From Chum Require Import Machine Sem Inputs.
Require Extraction.
Require ExtrOcamlBasic.
Extraction Language OCaml.
Extraction "Model.ml" run_top go init_st sem_top sem no_quirks spn_plain spn_mapped.
