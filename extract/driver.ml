(* Model runner: reads the case file of FORMAT.md, runs the extracted Coq machine, prints result lines. *)
open Model

(* ---------- s-expressions ---------- *)
type sx = A of string | L of sx list

let parse_sx (s : string) : sx =
  let n = String.length s in
  let i = ref 0 in
  let rec skip () = if !i < n && (s.[!i] = ' ' || s.[!i] = '\t' || s.[!i] = '\r' || s.[!i] = '\n') then (incr i; skip ()) in
  let rec one () =
    skip ();
    if !i >= n then failwith "eof"
    else if s.[!i] = '(' then begin
      incr i;
      let items = ref [] in
      let rec loop () =
        skip ();
        if !i >= n then failwith "unclosed"
        else if s.[!i] = ')' then incr i
        else (items := one () :: !items; loop ()) in
      loop ();
      L (List.rev !items)
    end else begin
      let st = !i in
      while !i < n && s.[!i] <> ' ' && s.[!i] <> '(' && s.[!i] <> ')' && s.[!i] <> '\t' && s.[!i] <> '\n' do incr i done;
      A (String.sub s st (!i - st))
    end in
  one ()

(* ---------- number conversions ---------- *)
let rec nat_of_int (k : int) : nat = if k <= 0 then O else S (nat_of_int (k - 1))
let rec int_of_nat (x : nat) : int = match x with O -> 0 | S y -> 1 + int_of_nat y
let rec pos_of_int (k : int) : positive =
  if k <= 1 then XH else if k land 1 = 0 then XO (pos_of_int (k lsr 1)) else XI (pos_of_int (k lsr 1))
let n_of_int (k : int) : n = if k = 0 then N0 else Npos (pos_of_int k)
let rec int_of_pos (p : positive) : int = match p with XH -> 1 | XO q -> 2 * int_of_pos q | XI q -> 2 * int_of_pos q + 1
let int_of_n (x : n) : int = match x with N0 -> 0 | Npos p -> int_of_pos p

let num = function A a -> int_of_string a | _ -> failwith "num"
let natx x = nat_of_int (num x)
let boolx x = num x <> 0
let toks = function L l -> List.map (fun x -> n_of_int (num x)) l | _ -> failwith "toks"
let optnat = function A "inf" -> None | x -> Some (natx x)

let fn1x = function
  | A "FId" -> FId | A "FFst" -> FFst | A "FSnd" -> FSnd | A "FDup" -> FDup | A "FNew" -> FNew
  | L [A "FTag"; k] -> FTag (natx k) | L [A "FConst"; k] -> FConst (natx k)
  | _ -> failwith "fn1"
let predx = function
  | A "PTrue" -> PTrue | A "PFalse" -> PFalse
  | L [A "PTokIn"; t] -> PTokIn (toks t) | L [A "PTokNotIn"; t] -> PTokNotIn (toks t)
  | L [A "PToksAre"; t] -> PToksAre (toks t)
  | _ -> failwith "pred"
let mwx = function
  | A "MWSpan" -> MWSpan | A "MWState" -> MWState | A "MWCtx" -> MWCtx | A "MWAll" -> MWAll | A "MWSlice" -> MWSlice
  | _ -> failwith "mw"
let ckx = function A "CVec" -> CVec | A "CCount" -> CCount | A "CUnit" -> CUnit | _ -> failwith "ck"
let rec valx = function
  | A "VUnit" -> VUnit
  | L [A "VTok"; t] -> VTok (n_of_int (num t))
  | L [A "VNat"; k] -> VNat (natx k)
  | L [A "VPair"; a; b] -> VPair (valx a, valx b)
  | L [A "VList"; L l] -> VList (List.map valx l)
  | L [A "VOpt"; A "none"] -> VOpt None
  | L [A "VOpt"; v] -> VOpt (Some (valx v))
  | L [A "VSpan"; s; e] -> VSpan (natx s, natx e)
  | L [A "VSlice"; s; e] -> VSlice (natx s, natx e)
  | L [A "VTag"; k; v] -> VTag (natx k, valx v)
  | _ -> failwith "val"

let rec gx (x : sx) : g =
  match x with
  | A "End" -> End | A "Empty" -> Empty | A "Any" -> Any
  | A "AnyRef" -> Any                                            (* any_ref(): the by-reference form of any() *)
  | L [A "SelectRef"; p; f] -> Select (predx p, fn1x f)          (* select_ref!: the by-reference form of select! *)
  | L [A "Just"; t] -> Just (toks t)
  | L [A "OneOf"; t] -> OneOf (toks t)
  | L [A "NoneOf"; t] -> NoneOf (toks t)
  | L [A "Select"; p; f] -> Select (predx p, fn1x f)
  | L [A "Custom"; t; k] -> Custom (toks t, natx k)
  | L [A "Map"; f; a] -> Map (fn1x f, gx a)
  | L [A "MapWith"; f; a] -> MapWith (mwx f, gx a)
  | L [A "To"; k; a] -> To (natx k, gx a)
  | L [A "Ignored"; a] -> Ignored (gx a)
  | L [A "ToSpan"; a] -> ToSpan (gx a)
  | L [A "ToSlice"; a] -> ToSlice (gx a)
  | L [A "Filter"; p; a] -> Filter (predx p, gx a)
  | L [A "TryMap"; p; f; k; a] -> TryMap (predx p, fn1x f, natx k, gx a)
  | L [A "TryMapWith"; p; f; k; a] -> TryMapWith (predx p, fn1x f, natx k, gx a)
  | L [A "Validate"; p; k; a] -> Validate (predx p, natx k, gx a)
  | L [A "Then"; a; b] -> Then (gx a, gx b)
  | L [A "IgnoreThen"; a; b] -> IgnoreThen (gx a, gx b)
  | L [A "ThenIgnore"; a; b] -> ThenIgnore (gx a, gx b)
  | L [A "DelimitedBy"; a; l; r] -> DelimitedBy (gx a, gx l, gx r)
  | L [A "PaddedBy"; a; p] -> PaddedBy (gx a, gx p)
  | L [A "Group"; L l] -> Group (List.map gx l)
  | L [A "Or"; a; b] -> Or (gx a, gx b)
  | L [A "Choice"; L l] -> Choice (List.map gx l)
  | L [A "ChoiceVec"; L l] -> ChoiceVec (List.map gx l)
  | L [A "OrNot"; a] -> OrNot (gx a)
  | L [A "Not"; a] -> Not (gx a)
  | L [A "AndIs"; a; b] -> AndIs (gx a, gx b)
  | L [A "Rewind"; a] -> Rewind (gx a)
  | L [A "RepUnit"; i] -> RepUnit (itx i)
  | L [A "Collect"; c; i] -> Collect (ckx c, itx i)
  | L [A "CollectExactly"; k; i] -> CollectExactly (natx k, itx i)
  | L [A "Foldl"; a; i; k] -> Foldl (gx a, itx i, natx k)
  | L [A "Foldr"; i; b; k] -> Foldr (itx i, gx b, natx k)
  | L [A "FoldlWith"; a; i; k] -> FoldlWith (gx a, itx i, natx k)
  | L [A "FoldrWith"; i; b; k] -> FoldrWith (itx i, gx b, natx k)
  | L [A "RecoverVia"; a; b] -> RecoverVia (gx a, gx b)
  | L [A "RecoverSkipUntil"; a; s; u; fb] -> RecoverSkipUntil (gx a, gx s, gx u, natx fb)
  | L [A "RecoverSkipRetry"; a; s; u] -> RecoverSkipRetry (gx a, gx s, gx u)
  | L [A "Labelled"; l; b; a] -> Labelled (natx l, boolx b, gx a)
  | L [A "MapErr"; k; a] -> MapErr (natx k, gx a)
  | L [A "WithCtx"; v; a] -> WithCtx (valx v, gx a)
  | L [A "IgnoreWithCtx"; a; b] -> IgnoreWithCtx (gx a, gx b)
  | L [A "ThenWithCtx"; a; b] -> ThenWithCtx (gx a, gx b)
  | L [A "MapCtx"; f; a] -> MapCtx (fn1x f, gx a)
  | L [A "JustCfg"; t] -> JustCfg (toks t)
  | L [A "Memo"; id; a] -> Memo (natx id, gx a)
  | L [A "Rec"; a] -> Rec (gx a)
  | L [A "RecDecl"; a] -> Rec (gx a)
  | L [A "Var"; k] -> Var (natx k)
  | L [A "Boxed"; a] -> gx a
  | L [A "Pratt"; _; a; L ops] -> Pratt (gx a, List.map opx ops)
  | L [A "GroupArr"; L l] -> GroupArr (List.map gx l)
  | L [A "NestedIn"; a] -> NestedIn (gx a)
  | L [A "NestedVia"; a] -> IgnoreThen (OrNot (Select (PFalse, FId)), NestedIn (gx a))
      (* a.nested_in(never.or(group)): the derived form - what the rejected first alternative of b left pending stays pending
         at b's start, and nothing is rewound when the nested parse fails (the choice is inside b) *)
  | L [A "ExtWrap"; a] -> ExtWrap (gx a)
  | L [A "Skip"; n] -> Skip (natx n)
  | L [A "Padded"; ws; a] -> Padded (toks ws, gx a)
  | L [A "Prog"; L ops; k] ->
      Prog (List.map (function
          | A "CNext" -> CNext | A "CNextRef" -> CNextRef | A "CPeek" -> CPeek | A "CSkip" -> CSkip | A "CSave" -> CSave
          | A "CRewind" -> CRewind | A "CSpan" -> CSpan | A "CState" -> CState
          | L [A "CExpect"; t] -> CExpect (n_of_int (num t))
          | _ -> failwith "cop") ops, natx k)
  | L [A "Lazy"; a] -> ThenIgnore (gx a, RepUnit (IRep (Any, O, None)))      (* Syntax.Lazy: lazy() = then_ignore(any().repeated()) *)
  | L [A "WithState"; k; a] -> WithState (n_of_int (num k), gx a)
  | L [A "NestedDelims"; s; e; L others] ->
      nested_delims (n_of_int (num s)) (n_of_int (num e))
        (List.map (function L [a; b] -> (n_of_int (num a), n_of_int (num b)) | _ -> failwith "NestedDelims pair") others)
  (* text parsers: the derived grammars of coq/Model/Text.v, classes given as token sets *)
  | L [A "TextDigits"; d] -> ToSlice (RepUnit (text_digits (PTokIn (toks d))))
  | L [A "TextInt"; d; nz; z] -> text_int (PTokIn (toks d)) (PTokIn (toks nz)) (n_of_int (num z))
  | L [A "TextIdent"; st; ct] -> text_ident (PTokIn (toks st)) (PTokIn (toks ct))
  | L [A "TextKeyword"; st; ct; k] -> text_keyword (PTokIn (toks st)) (PTokIn (toks ct)) (toks k)
  | L [A "TextWhitespace"; w] -> ToSlice (RepUnit (text_whitespace (PTokIn (toks w))))
  | L [A "TextNewline"; nl; cr; lf] -> ToSlice (text_newline (PTokIn (toks nl)) (n_of_int (num cr)) (n_of_int (num lf)))
  | L [A "TextPadded"; w; a] -> text_padded (PTokIn (toks w)) (gx a)
  | _ -> failwith "grammar"
and opx (x : sx) : pop =
  match x with
  | L [A "PInfix"; r; bp; g; k] -> PInfix (boolx r, natx bp, gx g, natx k)
  | L [A "PPrefix"; bp; g; k] -> PPrefix (natx bp, gx g, natx k)
  | L [A "PPostfix"; bp; g; k] -> PPostfix (natx bp, gx g, natx k)
  | _ -> failwith "op"
and itx (x : sx) : iT =
  match x with
  | L [A "IRep"; a; lo; hi] -> IRep (gx a, natx lo, optnat hi)
  | L [A "ISep"; a; s; lo; hi; ld; tr] -> ISep (gx a, gx s, natx lo, optnat hi, boolx ld, boolx tr)
  | L [A "IEnum"; i] -> IEnum (itx i)
  | L [A "IMap"; f; i] -> IMap (fn1x f, itx i)
  | L [A "IMapWith"; f; i] -> IMapWith (mwx f, itx i)
  | L [A "IOrNot"; a] -> IOrNot (gx a)
  | L [A "IIntoIter"; a] -> IIntoIter (gx a)
  | L [A "IThen"; i; j] -> IThen (itx i, itx j)
  | L [A "IRepCfg"; a; lo; hi] -> IRepCfg (gx a, natx lo, optnat hi, O)
  | L [A "IRepCfg"; a; lo; hi; ck] -> IRepCfg (gx a, natx lo, optnat hi, natx ck)
  | _ -> failwith "iter"

(* size of a grammar term, for the fuel *)
let rec sx_size = function A _ -> 1 | L l -> List.fold_left (fun a x -> a + sx_size x) 1 l

(* ---------- printing ---------- *)
let buf = Buffer.create 4096
let rec pv (v : val0) =
  match v with
  | VUnit -> Buffer.add_string buf "U"
  | VTok t -> Buffer.add_string buf ("T" ^ string_of_int (int_of_n t))
  | VNat k -> Buffer.add_string buf ("N" ^ string_of_int (int_of_nat k))
  | VNum k -> Buffer.add_string buf ("N" ^ string_of_int (int_of_n k))
  | VPair (a, b) -> Buffer.add_string buf "(P "; pv a; Buffer.add_char buf ' '; pv b; Buffer.add_char buf ')'
  | VList l -> Buffer.add_string buf "(L"; List.iter (fun x -> Buffer.add_char buf ' '; pv x) l; Buffer.add_char buf ')'
  | VOpt None -> Buffer.add_string buf "O-"
  | VOpt (Some x) -> Buffer.add_string buf "(O "; pv x; Buffer.add_char buf ')'
  | VSpan (s, e) -> Buffer.add_string buf (Printf.sprintf "S%d.%d" (int_of_nat s) (int_of_nat e))
  | VSlice (s, e) -> Buffer.add_string buf (Printf.sprintf "Z%d.%d" (int_of_nat s) (int_of_nat e))
  | VTag (k, x) -> Buffer.add_string buf (Printf.sprintf "(G%d " (int_of_nat k)); pv x; Buffer.add_char buf ')'
  | VNew -> Buffer.add_char buf 'K'

let perr (e : err) =
  let (s, en) = e.espan in
  Buffer.add_string buf (Printf.sprintf "%d..%d:" (int_of_nat s) (int_of_nat en));
  (match e.ereason with
   | RCustom k -> Buffer.add_string buf ("C" ^ string_of_int (int_of_nat k))
   | REF (exp, found) ->
     Buffer.add_string buf "X[";
     List.iteri (fun i c -> if i > 0 then Buffer.add_char buf ','; Buffer.add_string buf (string_of_int (int_of_n c))) exp;
     Buffer.add_string buf "]F";
     (match found with None -> Buffer.add_char buf '-' | Some t -> Buffer.add_string buf (string_of_int (int_of_n t))));
  Buffer.add_string buf ":[";
  List.iteri (fun i (l, (cs, ce)) ->
      if i > 0 then Buffer.add_char buf ',';
      Buffer.add_string buf (Printf.sprintf "%d@%d..%d" (int_of_nat l) (int_of_nat cs) (int_of_nat ce))) e.ectx;
  Buffer.add_char buf ']'

(* ---------- the result as a Coq term (CHUM_WHICH=coq / coqsem): for the in-Coq cross-check of extraction ---------- *)
let cn (k : nat) = string_of_int (int_of_nat k)
let cN (k : n) = "(" ^ string_of_int (int_of_n k) ^ ")%N"
let clist f l = "[" ^ String.concat "; " (List.map f l) ^ "]"
let rec cval (v : val0) : string =
  match v with
  | VUnit -> "VUnit"
  | VTok t -> "(VTok " ^ cN t ^ ")"
  | VNat k -> "(VNat " ^ cn k ^ ")"
  | VNum k -> "(VNum " ^ cN k ^ ")"
  | VPair (a, b) -> "(VPair " ^ cval a ^ " " ^ cval b ^ ")"
  | VList l -> "(VList " ^ clist cval l ^ ")"
  | VOpt None -> "(VOpt None)"
  | VOpt (Some x) -> "(VOpt (Some " ^ cval x ^ "))"
  | VSpan (s, e) -> "(VSpan " ^ cn s ^ " " ^ cn e ^ ")"
  | VSlice (s, e) -> "(VSlice " ^ cn s ^ " " ^ cn e ^ ")"
  | VTag (k, x) -> "(VTag " ^ cn k ^ " " ^ cval x ^ ")"
  | VNew -> "VNew"
let cerr (e : err) : string =
  let (s, en) = e.espan in
  let r = match e.ereason with
    | RCustom k -> "(RCustom " ^ cn k ^ ")"
    | REF (exp, found) -> "(REF " ^ clist cN exp ^ " " ^ (match found with None -> "None" | Some t -> "(Some " ^ cN t ^ ")") ^ ")" in
  "(mkErr (" ^ cn s ^ ", " ^ cn en ^ ") " ^ r ^ " " ^ clist (fun (l, (cs, ce)) -> "(" ^ cn l ^ ", (" ^ cn cs ^ ", " ^ cn ce ^ "))") e.ectx ^ ")"
let ctop (r : top_result) : string =
  match r with
  | TRes (o, errs) ->
    "(TRes " ^ (match o with None -> "None" | Some None -> "(Some None)" | Some (Some v) -> "(Some (Some " ^ cval v ^ "))") ^ " " ^ clist cerr errs ^ ")"
  | TPanic s -> "(TPanic " ^ cn s ^ ")"
  | TOOF -> "TOOF"
let csem (r : (val0 option * err list) option) : string =
  match r with
  | None -> "None"
  | Some (o, errs) -> "(Some (" ^ (match o with None -> "None" | Some v -> "(Some " ^ cval v ^ ")") ^ ", " ^ clist cerr errs ^ "))"

let perrs (l : err list) =
  Buffer.add_string buf "E[";
  List.iteri (fun i e -> if i > 0 then Buffer.add_char buf ';'; perr e) l;
  Buffer.add_char buf ']'

let ekx = function A "empty" -> KEmpty | A "cheap" -> KCheap | A "simple" -> KSimple | A "rich" -> KRich | _ -> failwith "ekind"

(* span functions per input kind: extracted from coq/Model/Inputs.v (spn_plain, spn_mapped) *)

let getenv_default k d = try Sys.getenv k with Not_found -> d
let which = getenv_default "CHUM_WHICH" "go"
let quirks =
  let q = getenv_default "CHUM_QUIRKS" "000000011" in
  let b i = String.length q > i && q.[i] = '1' in
  { q_zst_noop = b 0; q_look_trunc = b 1; q_trymap_drop = b 2; q_trymap_pos = b 3; q_maperr_drop = b 4;
    q_exact_noalt = b 5; q_emptychoice_none = b 6; q_memo_take = b 7; memo_on = b 8; memo_strict = b 10; nested = None }
let q_mapped_empty =
  let q = getenv_default "CHUM_QUIRKS" "000000011" in String.length q > 9 && q.[9] = '1'

let tree_sub : (n -> (n list * (nat * nat) list * nat) option) option ref = ref None

let run_line (line : string) =
  tree_sub := None;
  match parse_sx line with
  | L [id; ik; ek; md; gr; inp] ->
    let id = num id in
    Buffer.clear buf;
    Buffer.add_string buf (string_of_int id); Buffer.add_char buf ' ';
    (try
       let k = ekx ek in
       let m = (match md with A "parse" -> Emit | A "check" -> Check | _ -> failwith "mode") in
       let g = gx gr in
       let (tk, spn) =
         (match ik with
          | A "str" | A "slice" | A "array" | A "stream" | A "bstream" | A "mapspan" | A "withctx" | A "bytes" | A "io" | A "graphemes" | A "gslice" ->
            (toks inp, spn_plain)
          | A "mapped" | A "mappedstream" | A "iter" ->
            (match inp with
             | L l ->
               let trip = List.map (function L [t; s; e] -> (num t, num s, num e) | _ -> failwith "mapped token") l in
               let n = List.length trip in
               let eoi = if n = 0 then 3 else (let (_, _, e) = List.nth trip (n - 1) in e + 2) in
               let spans = List.map (fun (_, s, e) -> (nat_of_int s, nat_of_int e)) trip in
               let spn = spn_mapped q_mapped_empty spans (nat_of_int eoi) in
               (List.map (fun (t, _, _) -> n_of_int t) trip, spn)
             | _ -> failwith "mapped input")
          | A "tree" ->
            (* token trees: leaves (t s e) and groups ((G id (children)) s e); the table of children is [sub] *)
            let table : (int, (n list * (nat * nat) list * nat)) Hashtbl.t = Hashtbl.create 16 in
            let rec level (l : sx list) : n list * (nat * nat) list * nat =
              let items = List.map (function
                  | L [L [A "G"; id; L ch]; s; e] ->
                    let gid = num id in
                    Hashtbl.replace table gid (level ch);
                    (gid, num s, num e)
                  | L [t; s; e] -> (num t, num s, num e)
                  | _ -> failwith "tree token") l in
              let n = List.length items in
              let eoi = if n = 0 then 3 else (let (_, _, e) = List.nth items (n - 1) in e + 2) in
              (List.map (fun (t, _, _) -> n_of_int t) items,
               List.map (fun (_, s, e) -> (nat_of_int s, nat_of_int e)) items, nat_of_int eoi) in
            (match inp with
             | L l ->
               let (tk, spans, eoi) = level l in
               tree_sub := Some (fun t -> Hashtbl.find_opt table (int_of_n t));
               (tk, spn_mapped q_mapped_empty spans eoi)
             | _ -> failwith "tree input")
          | _ -> failwith "ikind") in
       let fuel = nat_of_int (3 * (sx_size gr + List.length tk) + 40) in
       if which = "coqsem" then
         Buffer.add_string buf (string_of_int (int_of_nat fuel) ^ " " ^ csem (sem_top k tk spn fuel g))
       else if which = "coq" then
         Buffer.add_string buf (string_of_int (int_of_nat fuel) ^ " " ^ ctop (run_top (set_nested quirks (Some (fun _ -> None))) k tk spn fuel m g))
       else
       if which = "sem" then
         (match sem_top k tk spn fuel g with
          | Some (Some v, errs) ->
            Buffer.add_string buf "OK ";
            (match m with Emit -> pv v | Check -> Buffer.add_char buf '-');
            Buffer.add_char buf ' '; perrs errs
          | Some (None, errs) -> Buffer.add_string buf "FAIL "; perrs errs
          | None -> Buffer.add_string buf "OOF")
       else
       let q = match !tree_sub with
         | None -> set_nested quirks (Some (fun _ -> None))      (* the extended configuration (with_state), no group tokens *)
         | Some sub -> nest_q (nat_of_int 6) quirks k q_mapped_empty (fun t -> match sub t with Some (a, b, c) -> Some ((a, b), c) | None -> None) fuel in
       (match run_top q k tk spn fuel m g with
        | TRes (Some v, errs) ->
          Buffer.add_string buf "OK ";
          (match v with Some x -> pv x | None -> Buffer.add_char buf '-');
          Buffer.add_char buf ' '; perrs errs
        | TRes (None, errs) -> Buffer.add_string buf "FAIL "; perrs errs
        | TPanic s ->
          let s = int_of_nat s in
          Buffer.add_string buf (if s = 3 then "PANIC progress" else if s = 1 || s = 2 then "PANIC unwrap" else "PANIC other")
        | TOOF -> Buffer.add_string buf "OOF")
     with Failure _ | Not_found -> Buffer.add_string buf "UNSUPPORTED");
    print_string (Buffer.contents buf); print_newline ()
  | _ -> ()

let () =
  let ic = if Array.length Sys.argv > 1 then open_in Sys.argv.(1) else stdin in
  (try
     while true do
       let line = input_line ic in
       if String.length line > 0 && line.[0] = '(' then (try run_line line with _ -> ())
     done
   with End_of_file -> ())
