(* Input kinds: how two cursors become a span (Input::span), per kind. *)
From Chum Require Export Syntax.

(* &str (after byte->char index canonicalisation), &[T], &[T; N], Stream: the cursor offsets themselves *)
Definition spn_plain (p1 p2 : nat) : span := (p1, p2).

(* Input::map / IterInput: tokens carry their own spans; the cursor remembers the end offset of the
   last token consumed on the way to it (None at the very start).
   [q_mapped_empty]: finding F8 - the unchanged code also uses this formula when nothing was consumed. *)
Definition spn_mapped (q_mapped_empty : bool) (spans : list span) (eoi : nat) (p1 p2 : nat) : span :=
  match nth_error spans p1 with
  | Some (s1, _) =>
      if andb (negb q_mapped_empty) (Nat.eqb p1 p2) then (s1, s1)
      else (s1, match p2 with
                | 0 => eoi
                | S k => match nth_error spans k with Some (_, e) => e | None => eoi end
                end)
  | None => (eoi, eoi)
  end.
