(* Input kinds: how two cursors become a span (Input::span), per kind. *)
From Chum Require Export Syntax.
From Coq Require Export ZArith.

(* &str (after byte->char index canonicalisation), &[T], &[T; N], Stream: the cursor offsets themselves *)
Definition spn_plain (p1 p2 : nat) : span := (p1, p2).

(* Input::map / IterInput: tokens carry their own spans; the cursor remembers the end offset of the
   last token consumed on the way to it (None at the very start).
   [q_mapped_empty]: finding F8 - the unchanged code also uses this formula when nothing was consumed. *)
Definition spn_mapped (q_mapped_empty : bool) (spans : list span) (eoi : nat) (p1 p2 : nat) : span :=
  match nth_error spans p1 with
  | Some (s1, _) =>
      if andb (negb q_mapped_empty) (Nat.eqb p1 p2) then (s1, s1)
      else (s1, match p2 with
                | 0 => eoi
                | S k => match nth_error spans k with Some (_, e) => e | None => eoi end
                end)
  | None => (eoi, eoi)
  end.

(* ---------- &str: byte-offset cursors over UTF-8 (input.rs:315-360) ---------- *)
(* width of a scalar value in UTF-8 *)
Definition utf8_width (t : tok) : nat :=
  if N.ltb t 128 then 1 else if N.ltb t 2048 then 2 else if N.ltb t 65536 then 3 else 4.

(* byte offset of the i-th character *)
Fixpoint str_off (l : list tok) (i : nat) : nat :=
  match i, l with
  | S j, t :: r => utf8_width t + str_off r j
  | _, _ => 0
  end.
Definition str_len (l : list tok) : nat := str_off l (length l).

(* Input::next_maybe for &str: `if cursor < len { decode the char starting at byte cursor }`.
   Decoding is only defined on a character boundary (the code uses get_unchecked): None = undefined *)
Fixpoint str_decode (l : list tok) (c : nat) : option (option (tok * nat)) :=
  match l with
  | [] => match c with 0 => Some None | _ => None end          (* cursor = len: end of input *)
  | t :: r =>
      match c with
      | 0 => Some (Some (t, utf8_width t))
      | _ => if Nat.ltb c (utf8_width t) then None               (* inside a character: undefined *)
             else match str_decode r (c - utf8_width t) with
                  | Some (Some (u, c')) => Some (Some (u, utf8_width t + c'))
                  | x => x
                  end
      end
  end.

(* The same machine for any token width: &Graphemes (text.rs:806-870) has byte-offset cursors too, its tokens are
   extended grapheme clusters and the width of a token is the byte length of the cluster (which clusters a string
   has is unicode-segmentation's business, not modelled) *)
Section Width.
Variable w : tok -> nat.
Fixpoint w_off (l : list tok) (i : nat) : nat :=
  match i, l with
  | S j, t :: r => w t + w_off r j
  | _, _ => 0
  end.
Fixpoint w_decode (l : list tok) (c : nat) : option (option (tok * nat)) :=
  match l with
  | [] => match c with 0 => Some None | _ => None end
  | t :: r =>
      match c with
      | 0 => Some (Some (t, w t))
      | _ => if Nat.ltb c (w t) then None
             else match w_decode r (c - w t) with
                  | Some (Some (u, c')) => Some (Some (u, w t + c'))
                  | x => x
                  end
      end
  end.
End Width.

(* ---------- Stream: tokens pulled from an iterator in batches and cached (stream.rs:110-128) ---------- *)
Record stream := mkStream { s_cache : list tok; s_rest : list tok; s_pulled : nat }.
Definition stream_init (l : list tok) : stream := mkStream [] l 0.
(* ValueInput::next: `if tokens.len() <= cursor { tokens.extend(iter.take(B)) }; tokens.get(cursor)` *)
Definition stream_next (B : nat) (s : stream) (c : nat) : option tok * stream :=
  let s' := if Nat.leb (length (s_cache s)) c
            then mkStream (s_cache s ++ firstn B (s_rest s)) (skipn B (s_rest s))
                          (s_pulled s + length (firstn B (s_rest s)))
            else s in
  (nth_error (s_cache s') c, s').

(* ---------- IoInput: a seekable buffered reader and the cursor it was last left at (input.rs:1076-1143) ---------- *)
(* ValueInput::next: `if *cursor != last_cursor { reader.seek_relative(cursor - last_cursor); last_cursor = cursor }`, then
   read one byte: on success both last_cursor and the cursor advance, at the end of the file nothing moves.
   The reader's position is an offset into the file (signed while seeking). *)
Record ioin := mkIo { io_rpos : Z; io_last : nat }.
Definition io_init : ioin := mkIo 0 0.
Definition io_next (bytes : list tok) (s : ioin) (c : nat) : option (tok * nat) * ioin :=
  let s1 := if Nat.eqb c (io_last s) then s
            else mkIo (io_rpos s + (Z.of_nat c - Z.of_nat (io_last s))) c in
  match (if Z.ltb (io_rpos s1) 0 then None else nth_error bytes (Z.to_nat (io_rpos s1))) with
  | Some b => (Some (b, S c), mkIo (io_rpos s1 + 1) (S (io_last s1)))
  | None => (None, s1)
  end.
(* a whole history of requests (the parser moves its cursor back and forth as it likes) *)
Fixpoint io_run (bytes : list tok) (s : ioin) (cs : list nat) : list (option (tok * nat)) :=
  match cs with
  | [] => []
  | c :: r => fst (io_next bytes s c) :: io_run bytes (snd (io_next bytes s c)) r
  end.

(* ---------- Input::map / IterInput: the cursor caches the end offset of the last token (input.rs:593-655) ---------- *)
(* Cursor = (inner cursor, Option<end offset of the token consumed last on the way here>); next_maybe stores the end of the
   token it hands out; span(start..end) takes the start of the token AT the start cursor and the cached end OF the end cursor.
   (Cursors are values: a rewind puts an earlier cursor back, cache included.) *)
Record mcur := mkMc { mc_idx : nat; mc_end : option nat }.
Definition mc_init : mcur := mkMc 0 None.
Definition mapped_next (spans : list span) (c : mcur) : option mcur :=
  match nth_error spans (mc_idx c) with
  | Some (_, e) => Some (mkMc (S (mc_idx c)) (Some e))
  | None => None
  end.
Definition mapped_span (spans : list span) (eoi : nat) (c1 c2 : mcur) : span :=
  match nth_error spans (mc_idx c1) with
  | Some (s1, _) =>
      (s1, if Nat.eqb (mc_idx c1) (mc_idx c2) then s1
           else match mc_end c2 with Some e => e | None => eoi end)
  | None => (eoi, eoi)
  end.
(* the cursor after k calls of next from the start *)
Fixpoint mc_walk (spans : list span) (k : nat) (c : mcur) : option mcur :=
  match k with
  | 0 => Some c
  | S k' => match mapped_next spans c with Some c' => mc_walk spans k' c' | None => None end
  end.
