(* C19: the two places where chumsky manages initialisation by hand ([MaybeUninit<T>; N]):
   group([p; N]) (primitive.rs Group<[P; N]>::go) and collect_exactly::<[T; N]>()
   (combinator.rs CollectExactly::go with ContainerExactly::{write, drop_before, take}).
   Everything else relies on Rust dropping locals, which is assumed (see DESIGN.md section 8).
   A produced output value is identified by a number; the ledger records where each one ends up. *)
From Coq Require Export List Arith Bool Lia.
Export ListNotations.

Inductive elem_result := EOk (id : nat) | EErr.

Record ledger := mkLedger { l_output : option (list nat); l_dropped : list nat; l_leaked : list nat }.

(* the element parsers run left to right, each success is written into the next slot;
   [q_leak] = finding F9: the early return of `?` forgets the slots already written *)
Fixpoint fill_array (q_leak : bool) (n : nat) (rs : list elem_result) (written : list nat) : ledger :=
  match n with
  | 0 => mkLedger (Some (rev written)) [] []                      (* array_assume_init / take *)
  | S n' =>
      match rs with
      | EOk id :: rest => fill_array q_leak n' rest (id :: written)
      | _ =>                                                      (* element failed / iterator ended *)
          if q_leak then mkLedger None [] (rev written)
          else mkLedger None (rev written) []                     (* drop_before(idx) *)
      end
  end.

(* the values created by the element parsers that ran *)
Fixpoint created (n : nat) (rs : list elem_result) : list nat :=
  match n, rs with
  | S n', EOk id :: rest => id :: created n' rest
  | _, _ => []
  end.
