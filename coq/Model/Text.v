(* text.rs: the text parsers as derived grammars, exactly as they are derived in Rust
   (any().try_map(class).repeated() ... .to_slice()), parametric in the character classes. *)
From Chum Require Export Syntax.

Section Text.
(* character classes (text::Char): instantiated with finite tables in case files (PTokIn),
   arbitrary functions (PFun) in theorems *)
Variables (p_ws p_iws p_nl : pred).
Variable p_digit : pred.            (* is_digit(radix) *)
Variable p_nzdigit : pred.          (* is_digit(radix) && != '0' *)
Variables (p_start p_cont : pred).  (* identifier start / continue (ascii or XID) *)
Variable zero cr lf : tok.

Definition t_class (p : pred) (k : nat) : G := TryMap p FId k Any.

(* text::digits(r): any().try_map(is_digit).repeated().at_least(1) *)
Definition text_digits : IT := IRep (t_class p_digit 20) 1 None.
(* text::int(r) *)
Definition text_int : G :=
  ToSlice (Or (Ignored (Then (t_class p_nzdigit 21) (RepUnit (IRep (t_class p_digit 20) 0 None))))
              (Ignored (Just [zero]))).
(* text::ascii::ident / text::unicode::ident *)
Definition text_ident : G := ToSlice (Then (t_class p_start 22) (RepUnit (IRep (t_class p_cont 22) 0 None))).
(* the same with the matched tokens as value, for keyword's comparison *)
Definition text_ident_toks : G := Then (t_class p_start 22) (Collect CVec (IRep (t_class p_cont 22) 0 None)).
(* text::keyword(k): ident().try_map(|s| s == k).to_slice() *)
Definition text_keyword (k : list tok) : G := ToSlice (TryMap (PToksAre k) FId 23 text_ident_toks).
(* text::whitespace() / inline_whitespace(): any().try_map(is_ws).repeated() *)
Definition text_whitespace : IT := IRep (t_class p_ws 24) 0 None.
Definition text_inline_whitespace : IT := IRep (t_class p_iws 25) 0 None.
(* text::newline(): "\r\n" | "\r" | one newline character (the custom closure peeks for CR first) *)
Definition text_newline : G := Or (Then (Just [cr]) (OrNot (Just [lf]))) (t_class p_nl 26).
(* a.padded(): whitespace* a whitespace* (Padded::go uses skip_while, which records no error;
   only acceptance and extent are claimed for this derived form) *)
Definition text_padded (a : G) : G := PaddedBy a (RepUnit text_whitespace).
End Text.

(* recovery::nested_delimiters(start, end, others, fallback) is a derived parser too (recovery.rs:234-275):
     recursive(|block| ((block delimited by start..end) or (block delimited by s_i..e_i) .. or any().and_is(none_of(all delimiters)).ignored()).repeated())
       .delimited_by(just(start), just(end)).map_with(|_, e| fallback(e.span()))
   with fallback = the span itself *)
Definition nested_delims (s e : tok) (others : list (tok * tok)) : G :=
  let skip := s :: e :: concat (map (fun se => [fst se; snd se]) others) in
  let many := fold_left (fun acc se => Or acc (DelimitedBy (Var 0) (Just [fst se]) (Just [snd se]))) others
                        (DelimitedBy (Var 0) (Just [s]) (Just [e])) in
  let block := Rec (RepUnit (IRep (Or many (Ignored (AndIs Any (NoneOf skip)))) 0 None)) in
  ToSpan (DelimitedBy block (Just [s]) (Just [e])).

