(* Error algebra: the four chumsky error types embedded in one carrier
   (transcribed from src/error.rs and src/label.rs), and the pending-error ("alt")
   bookkeeping of src/input.rs add_alt / add_alt_err. *)
From Chum Require Export Syntax.

Inductive ekind := KEmpty | KCheap | KSimple | KRich.

(* expected patterns, encoded as N so that sets are sorted lists *)
Definition pAny : N := 0.
Definition pSomethingElse : N := 1.
Definition pEoi : N := 2.
Definition pLabel (l : nat) : N := 4 + 2 * N.of_nat l.
Definition pTok (t : tok) : N := 5 + 2 * t.

Inductive reason := RCustom (k : nat) | REF (exp : list N) (found : option tok).
Record err := mkErr { espan : span; ereason : reason; ectx : list (nat * span) }.

(* sorted, duplicate-free insertion: Rich keeps a Vec with `contains` checks; only the set is observable *)
Fixpoint ins (x : N) (l : list N) : list N :=
  match l with
  | [] => [x]
  | y :: r => match N.compare x y with
              | Lt => x :: l
              | Eq => l
              | Gt => y :: ins x r
              end
  end.
Definition union (a b : list N) : list N := fold_right ins a b.
Definition mkset (l : list N) : list N := fold_right ins [] l.

Definition is_zst (K : ekind) : bool := match K with KEmpty => true | _ => false end.

Definition expected_found (K : ekind) (exp : list N) (found : option tok) (sp : span) : err :=
  match K with
  | KEmpty => mkErr (0, 0) (REF [] None) []
  | KCheap => mkErr sp (REF [] None) []
  | KSimple => mkErr sp (REF [] found) []
  | KRich => mkErr sp (REF (mkset exp) found) []
  end.

Definition custom_err (K : ekind) (k : nat) (sp : span) : err :=
  match K with
  | KEmpty => mkErr (0, 0) (REF [] None) []
  | KCheap => mkErr sp (REF [] None) []
  | KSimple => mkErr sp (REF [] None) []
  | KRich => mkErr sp (RCustom k) []
  end.

Definition or_found (f g : option tok) : option tok := match f with Some x => Some x | None => g end.

(* Rich::merge after the repair of finding F17: like merge_expected_found, an error that saw no token takes the
   other's `found` (before, memoized()/labelled() shelters changed the reported `found`) *)
Definition flat_merge (a b : reason) : reason :=
  match a, b with
  | RCustom k, _ => RCustom k
  | _, RCustom k => RCustom k
  | REF e1 f1, REF e2 f2 => REF (union e1 e2) (or_found f1 f2)
  end.

Definition merge (K : ekind) (a b : err) : err :=
  match K with
  | KRich => mkErr (espan a) (flat_merge (ereason a) (ereason b)) (ectx a)
  | _ => a
  end.

Definition merge_ef (K : ekind) (a : err) (exp : list N) (found : option tok) (sp : span) : err :=
  match K with
  | KRich => match ereason a with
             | REF e f => mkErr (espan a) (REF (union e (mkset exp)) (or_found f found)) (ectx a)
             | RCustom _ => a
             end
  | _ => a
  end.

(* replace_expected_found: for every error type the result equals expected_found *)
Definition replace_ef (K : ekind) (a : err) (exp : list N) (found : option tok) (sp : span) : err :=
  expected_found K exp found sp.

Definition label_with (K : ekind) (l : nat) (a : err) : err :=
  match K with
  | KRich => match ereason a with
             | REF _ f => mkErr (espan a) (REF [pLabel l] f) (ectx a)
             | RCustom _ => mkErr (espan a) (REF [pLabel l] None) (ectx a)
             end
  | _ => a
  end.

Fixpoint has_ctx (l : nat) (c : list (nat * span)) : bool :=
  match c with [] => false | (l', _) :: r => if Nat.eqb l l' then true else has_ctx l r end.

Definition in_context (K : ekind) (l : nat) (sp : span) (a : err) : err :=
  match K with
  | KRich => if has_ctx l (ectx a) then a else mkErr (espan a) (ereason a) (ectx a ++ [(l, sp)])
  | _ => a
  end.

(* the span-preserving user function given to map_err *)
Definition map_err_fn (K : ekind) (k : nat) (a : err) : err := custom_err K k (espan a).

(* ---------- the pending error register ---------- *)
Definition lerr := (nat * err)%type.

Definition add_alt (K : ekind) (a : option lerr) (p : nat) (exp : list N) (found : option tok) (sp : span)
  : option lerr :=
  if is_zst K then Some (p, expected_found K exp found sp) else
  Some match a with
       | Some (q, x) => match Nat.compare q p with
                        | Eq => (q, merge_ef K x exp found sp)
                        | Gt => (q, x)
                        | Lt => (p, replace_ef K x exp found sp)
                        end
       | None => (p, expected_found K exp found sp)
       end.

(* [zq]: the unchanged code makes add_alt_err a no-op for zero-sized error types (finding F7);
   with zq = false a zero-sized error is recorded like in add_alt. *)
Definition add_alt_err (zq : bool) (K : ekind) (a : option lerr) (p : nat) (e : err) : option lerr :=
  if is_zst K then (if zq then a else Some (p, e)) else
  Some match a with
       | Some (q, x) => match Nat.compare q p with
                        | Eq => (q, merge K x e)
                        | Gt => (q, x)
                        | Lt => (p, e)
                        end
       | None => (p, e)
       end.
