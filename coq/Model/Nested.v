(* nested_in (C16): tying the knot.  A group token carries its children (tokens with their own spans);
   [sub] is that table.  [nest_q d] is the configuration in which nested_in may nest d levels deep. *)
From Chum Require Export Machine Inputs.

Definition sub_t := tok -> option (list tok * list span * nat).      (* children, their spans, end-of-input offset *)

Definition set_nested (Q : quirks) (f : option nested_t) : quirks :=
  mkQ (q_zst_noop Q) (q_look_trunc Q) (q_trymap_drop Q) (q_trymap_pos Q) (q_maperr_drop Q) (q_exact_noalt Q)
      (q_emptychoice_none Q) (q_memo_take Q) (memo_on Q) (memo_strict Q) f.

(* the inner parse: a fresh InputRef over the children (cursor 0, no errors, fresh memo table), sharing the user
   state and the context with the outer one (InputRef::with_input) *)
Fixpoint nest_q (d : nat) (Q0 : quirks) (K : ekind) (mapped_empty : bool) (sub : sub_t) (fuel : nat) : quirks :=
  match d with
  | 0 => set_nested Q0 None
  | S d' =>
      set_nested Q0 (Some (fun t =>
        match sub t with
        | None => None
        | Some (itoks, ispans, ieoi) =>
            Some (fun u m g ctx =>
              match go (nest_q d' Q0 K mapped_empty sub fuel) K itoks (spn_mapped mapped_empty ispans ieoi) fuel m g ctx
                       (mkSt 0 [] None u []) with
              | (r, s) => (r, sec s, alt s, ust s)
              end)
        end))
  end.
