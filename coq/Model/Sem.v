(* The specification: a denotational PEG semantics with values, emissions and the pending-error
   register threaded functionally.  No cursor state, no checkpoints, no rewinds, no modes,
   no secondary-error list to truncate, no panics.

     sem n g ctx p a = Some (Some (v, p', ems), a')   g matches toks[p..p') with value v; ems are the
                                                      non-fatal errors of the successful path, in order
                     = Some (None, a')                g fails at p
                     = None                           undefined (fuel exhausted / divergent loop)

   a / a' is the pending-error register before / after.  *)
From Chum Require Export Machine.

Section Sem.
Variable K : ekind.
Variable toks : list tok.
Variable spn : nat -> nat -> span.

Definition ust_at (p : nat) : N := fold_left (fun h t => on_tok t h) (firstn p toks) 0%N.

(* the position after the longest run of tokens in [ws] starting at p *)
Fixpoint skip_ws (k : nat) (ws : list tok) (p : nat) : nat :=
  match k with
  | 0 => p
  | S k' => match nth_error toks p with
            | Some t => if memN t ws then skip_ws k' ws (S p) else p
            | None => p
            end
  end.

Definition reg := option lerr.
Definition sok := (val * nat * list lerr)%type.
Definition sres := (option sok * reg)%type.

Definition ef (a : reg) (p : nat) (exp : list N) (found : option tok) (sp : span) : reg :=
  add_alt K a p exp found sp.
Definition ee (a : reg) (p : nat) (e : err) : reg := add_alt_err false K a p e.
(* merge the register of a sheltered sub-parse back *)
Definition join (a : reg) (new : reg) : reg :=
  match new with Some (p, e) => ee a p e | None => a end.

(* "expected .. found <token at p>" recorded at p *)
Definition fail_at (a : reg) (p : nat) (exp : list N) : reg :=
  match nth_error toks p with
  | Some t => ef a p exp (Some t) (spn p (S p))
  | None => ef a p exp None (spn p p)
  end.

Definition one_tok_sem (acc : tok -> option val) (exp : list N) (p : nat) (a : reg) : sres :=
  match nth_error toks p with
  | Some t => match acc t with
              | Some v => (Some (v, S p, []), a)
              | None => (None, ef a p exp (Some t) (spn p (S p)))
              end
  | None => (None, ef a p exp None (spn p p))
  end.

(* just(ts): Some end position, or the failing position with what was expected and found *)
Fixpoint just_sem (ts : list tok) (p : nat) (a : reg) : option nat * reg :=
  match ts with
  | [] => (Some p, a)
  | t :: r =>
      match nth_error toks p with
      | Some u => if N.eqb t u then just_sem r (S p) a
                  else (None, ef a p [pTok t] (Some u) (spn p (S p)))
      | None => (None, ef a p [pTok t] None (spn p p))
      end
  end.

(* custom: Some end position, or the position where the closure gave up (after the offending token) *)
Fixpoint custom_sem (ts : list tok) (p : nat) : bool * nat :=
  match ts with
  | [] => (true, p)
  | t :: r =>
      match nth_error toks p with
      | Some u => if N.eqb t u then custom_sem r (S p) else (false, S p)
      | None => (false, p)
      end
  end.

(* the program of a custom parser, over positions: the checkpoint stack holds positions, the state read is ust_at *)
Fixpoint prog_sem (ops : list cop) (start : nat) (stack : list nat) (acc : list val) (p : nat) : bool * list val * nat :=
  match ops with
  | [] => (true, acc, p)
  | o :: r =>
      match o with
      | CNext | CNextRef =>
          match nth_error toks p with
          | Some t => prog_sem r start stack (VTok t :: acc) (S p)
          | None => prog_sem r start stack (VUnit :: acc) p
          end
      | CPeek => prog_sem r start stack (match nth_error toks p with Some t => VTok t | None => VUnit end :: acc) p
      | CSkip => prog_sem r start stack acc (match nth_error toks p with Some _ => S p | None => p end)
      | CSave => prog_sem r start (p :: stack) acc p
      | CRewind =>
          match stack with
          | q :: stack' => prog_sem r start stack' acc q
          | [] => prog_sem r start stack acc p
          end
      | CExpect t =>
          match nth_error toks p with
          | Some u => if N.eqb t u then prog_sem r start stack acc (S p) else (false, acc, S p)
          | None => (false, acc, p)
          end
      | CSpan => prog_sem r start stack (VSpan (fst (spn start p)) (snd (spn start p)) :: acc) p
      | CState => prog_sem r start stack (VNum (ust_at p) :: acc) p
      end
  end.

Definition srun_t := G -> env -> nat -> reg -> option sres.

Section SLoops.
Variable run : srun_t.

(* ordered choice: the first alternative that succeeds; never revisited *)
Fixpoint choice_sem (gs : list G) (ctx : env) (p : nat) (a : reg) : option sres :=
  match gs with
  | [] => Some (None, a)
  | g :: r =>
      match run g ctx p a with
      | Some (None, a1) => choice_sem r ctx p a1
      | res => res
      end
  end.

(* sequence: left to right, values collected *)
Fixpoint group_sem (gs : list G) (ctx : env) (p : nat) (a : reg) (accv : list val) (acce : list lerr)
  : option sres :=
  match gs with
  | [] => Some (Some (VList (rev accv), p, acce), a)
  | g :: r =>
      match run g ctx p a with
      | Some (Some (v, p1, e1), a1) => group_sem r ctx p1 a1 (v :: accv) (acce ++ e1)
      | Some (None, a1) => Some (None, a1)
      | None => None
      end
  end.

(* one step of an iterable parser: an item, the end of the iteration, or failure *)
Inductive snext :=
| SNone (p : nat) (ems : list lerr)
| SSome (v : val) (p : nat) (ems : list lerr)
| SErr.

Definition rep_snext (a : G) (lo : nat) (hi : option nat) (ctx : env) (c : nat) (p : nat) (r : reg)
  : option (snext * nat * reg) :=
  if at_cap c hi then Some (SNone p [], c, r) else
  match run a ctx p r with
  | Some (Some (v, p1, e1), r1) => Some (SSome v p1 e1, S c, r1)
  | Some (None, r1) => if Nat.leb lo c then Some (SNone p [], c, r1) else Some (SErr, c, r1)
  | None => None
  end.

(* the item part of a separated_by step; [p] is the position before the separator,
   [ps, es] the position and emissions after the (optional) separator *)
Definition sep_sitem (a : G) (lo : nat) (trail : bool) (ctx : env) (c : nat) (p : nat)
           (ps : nat) (es : list lerr) (r0 : reg) : option (snext * nat * reg) :=
  match run a ctx ps r0 with
  | Some (Some (v, p1, e1), r1) => Some (SSome v p1 (es ++ e1), S c, r1)
  | Some (None, r1) =>
      if Nat.ltb c lo then Some (SErr, c, r1)
      else if trail then Some (SNone ps es, c, r1)     (* the separator stays consumed *)
      else Some (SNone p [], c, r1)
  | None => None
  end.

Definition sep_snext (a sep : G) (lo : nat) (hi : option nat) (lead trail : bool) (ctx : env)
           (c : nat) (p : nat) (r : reg) : option (snext * nat * reg) :=
  if at_cap c hi then Some (SNone p [], c, r) else
  if andb (Nat.eqb c 0) lead then
    match run sep ctx p r with
    | Some (Some (_, p1, e1), r1) => sep_sitem a lo trail ctx c p p1 e1 r1
    | Some (None, r1) => sep_sitem a lo trail ctx c p p [] r1
    | None => None
    end
  else if Nat.ltb 0 c then
    match run sep ctx p r with
    | Some (Some (_, p1, e1), r1) => sep_sitem a lo trail ctx c p p1 e1 r1
    | Some (None, r1) => if Nat.ltb c lo then Some (SErr, c, r1) else Some (SNone p [], c, r1)
    | None => None
    end
  else sep_sitem a lo trail ctx c p p [] r.

Fixpoint it_snext (i : IT) (ctx : env) (its : itst) (p : nat) (r : reg) : option (snext * itst * reg) :=
  match i, its with
  | IRep a lo hi, SCount c =>
      match rep_snext a lo hi ctx c p r with
      | Some (x, c', r') => Some (x, SCount c', r') | None => None end
  | ISep a sep lo hi lead trail, SCount c =>
      match sep_snext a sep lo hi lead trail ctx c p r with
      | Some (x, c', r') => Some (x, SCount c', r') | None => None end
  | IRepCfg a lo hi _, SCfg c clo chi =>
      match rep_snext a clo chi ctx c p r with
      | Some (x, c', r') => Some (x, SCfg c' clo chi, r') | None => None end
  | IRepCfg _ _ _ _, SFail k =>
      match run (TryMap PFalse FId k Empty) ctx p r with
      | Some (None, r') => Some (SErr, its, r')
      | _ => None
      end
  | IEnum j, SEnum k js =>
      match it_snext j ctx js p r with
      | Some (SSome v p1 e1, js', r') => Some (SSome (VPair (VNat k) v) p1 e1, SEnum (S k) js', r')
      | Some (SNone p1 e1, js', r') => Some (SNone p1 e1, SEnum (S k) js', r')
      | Some (SErr, js', r') => Some (SErr, SEnum k js', r')
      | None => None
      end
  | IMap f j, _ =>
      match it_snext j ctx its p r with
      | Some (SSome v p1 e1, js', r') => Some (SSome (ap1 f v) p1 e1, js', r')
      | res => res
      end
  | IMapWith f j, _ =>
      match it_snext j ctx its p r with
      | Some (SSome v p1 e1, js', r') =>
          Some (SSome (apmw f v (spn p p1) (p, p1) (ust_at p1) (cval ctx)) p1 e1, js', r')
      | res => res
      end
  | IOrNot a, SFlag fin =>
      if fin then Some (SNone p [], its, r) else
      match run a ctx p r with
      | Some (Some (v, p1, e1), r1) => Some (SSome v p1 e1, SFlag true, r1)
      | Some (None, r1) => Some (SNone p [], SFlag true, r1)
      | None => None
      end
  | IIntoIter a, SInto None =>
      match run a ctx p r with
      | Some (Some (v, p1, e1), r1) =>
          match val_items v with
          | [] => Some (SNone p1 e1, SInto (Some []), r1)
          | x :: l => Some (SSome x p1 e1, SInto (Some l), r1)
          end
      | Some (None, r1) => Some (SErr, its, r1)
      | None => None
      end
  | IIntoIter _, SInto (Some l) =>
      match l with
      | [] => Some (SNone p [], its, r)
      | x :: l' => Some (SSome x p [], SInto (Some l'), r)
      end
  | IThen i j, SThen sa (Some sb) =>
      match it_snext j ctx sb p r with
      | Some (x, sb', r') => Some (x, SThen sa (Some sb'), r')
      | None => None
      end
  | IThen i j, SThen sa None =>
      match it_snext i ctx sa p r with
      | Some (SNone p1 e1, sa', r1) =>
          match it_snext j ctx (mk_iter j ctx) p1 r1 with
          | Some (SSome v p2 e2, sb', r2) => Some (SSome v p2 (e1 ++ e2), SThen sa' (Some sb'), r2)
          | Some (SNone p2 e2, sb', r2) => Some (SNone p2 (e1 ++ e2), SThen sa' (Some sb'), r2)
          | Some (SErr, sb', r2) => Some (SErr, SThen sa' (Some sb'), r2)
          | None => None
          end
      | Some (x, sa', r1) => Some (x, SThen sa' None, r1)
      | None => None
      end
  | _, _ => None
  end.

(* all items of an iteration (at most [lim] of them), greedily: the items with the positions
   before and after each, the end position, the emissions, and whether the iterator ended *)
Definition sitem := (val * nat * nat)%type.
Fixpoint sdrive (fuel : nat) (i : IT) (ctx : env) (its : itst) (lim : option nat)
         (acc : list sitem) (acce : list lerr) (p : nat) (r : reg)
  : option (option (list sitem * bool * nat * list lerr) * reg) :=
  match fuel with
  | 0 => None
  | S fuel' =>
      match lim with
      | Some 0 => Some (Some (acc, false, p, acce), r)
      | _ =>
        match it_snext i ctx its p r with
        | Some (SSome v p1 e1, its', r1) =>
            sdrive fuel' i ctx its' (option_map Nat.pred lim) ((v, p, p1) :: acc) (acce ++ e1) p1 r1
        | Some (SNone p1 e1, _, r1) => Some (Some (acc, true, p1, acce ++ e1), r1)
        | Some (SErr, _, r1) => Some (None, r1)
        | None => None
        end
      end
  end.

(* skip_until: the fewest skip steps after which `until` matches *)
Fixpoint skip_until_sem (fuel : nat) (skip until : G) (ctx : env) (p : nat) (r : reg) (acce : list lerr)
  : option (option (nat * list lerr) * reg) :=
  match fuel with
  | 0 => None
  | S fuel' =>
      match run until ctx p r with
      | Some (Some (_, p1, e1), r1) => Some (Some (p1, acce ++ e1), r1)
      | Some (None, r1) =>
          match run skip ctx p r1 with
          | Some (Some (_, p2, e2), r2) => skip_until_sem fuel' skip until ctx p2 r2 (acce ++ e2)
          | Some (None, r2) => Some (None, r2)
          | None => None
          end
      | None => None
      end
  end.

(* skip_then_retry_until: after each skip step retry g, accepting only an error-free retry;
   give up when `until` matches or skipping fails *)
Fixpoint skip_retry_sem (fuel : nat) (g skip until : G) (ctx : env) (p : nat) (r : reg) (acce : list lerr)
  : option (option (val * nat * list lerr) * reg) :=
  match fuel with
  | 0 => None
  | S fuel' =>
      match run until ctx p r with
      | Some (Some _, r1) => Some (None, r1)
      | Some (None, r1) =>
          match run skip ctx p r1 with
          | Some (Some (_, p2, e2), r2) =>
              match run g ctx p2 r2 with
              | Some (Some (v, p3, []), r3) => Some (Some (v, p3, acce ++ e2), r3)
              | Some (Some (_, _, _ :: _), _) => skip_retry_sem fuel' g skip until ctx p2 None (acce ++ e2)
              | Some (None, _) => skip_retry_sem fuel' g skip until ctx p2 None (acce ++ e2)
              | None => None
              end
          | Some (None, r2) => Some (None, r2)
          | None => None
          end
      | None => None
      end
  end.

(* ---------- Pratt: the binding-power algorithm over positions ---------- *)
Inductive spresult := SDone (x : option sres) | SNext (a : reg).

Section SPrattOps.
Variable rec : nat -> nat -> reg -> option sres.     (* min power -> position -> register -> result *)

(* the first prefix operator (in table order) whose operator and operand both match *)
Fixpoint pratt_sprefix (ops : list pop) (ctx : env) (start : nat) (a : reg) : spresult :=
  match ops with
  | [] => SNext a
  | PPrefix bp og k :: rest =>
      match run og ctx start a with
      | Some (Some (vop, p1, e1), a1) =>
          match rec (2 * bp) p1 a1 with
          | Some (Some (vr, p2, e2), a2) => SDone (Some (Some (pfold_prefix k vop vr (spn start p2), p2, e1 ++ e2), a2))
          | Some (None, a2) => pratt_sprefix rest ctx start a2
          | None => SDone None
          end
      | Some (None, a1) => pratt_sprefix rest ctx start a1
      | None => SDone None
      end
  | _ :: rest => pratt_sprefix rest ctx start a
  end.

(* the first postfix operator binding at least as tightly as required whose operator matches at p *)
Fixpoint pratt_spostfix (ops : list pop) (ctx : env) (minp : nat) (start : nat) (lhs : val) (p : nat) (a : reg)
  : spresult :=
  match ops with
  | [] => SNext a
  | PPostfix bp og k :: rest =>
      if Nat.leb minp (2 * bp + 1) then
        match run og ctx p a with
        | Some (Some (vop, p1, e1), a1) => SDone (Some (Some (pfold_postfix k lhs vop (spn start p1), p1, e1), a1))
        | Some (None, a1) => pratt_spostfix rest ctx minp start lhs p a1
        | None => SDone None
        end
      else pratt_spostfix rest ctx minp start lhs p a
  | _ :: rest => pratt_spostfix rest ctx minp start lhs p a
  end.

(* the first infix operator binding at least as tightly as required whose operator and right
   operand (parsed with the operator's right power) both match; an operator whose right
   operand is missing is left unconsumed and the next operator is tried *)
Fixpoint pratt_sinfix (ops : list pop) (ctx : env) (minp : nat) (start : nat) (lhs : val) (p : nat) (a : reg)
  : spresult :=
  match ops with
  | [] => SNext a
  | PInfix r bp og k :: rest =>
      if Nat.leb minp (lpow r bp) then
        match run og ctx p a with
        | Some (Some (vop, p1, e1), a1) =>
            match rec (rpow r bp) p1 a1 with
            | Some (Some (vr, p2, e2), a2) =>
                SDone (Some (Some (pfold_infix k lhs vop vr (spn start p2), p2, e1 ++ e2), a2))
            | Some (None, a2) => pratt_sinfix rest ctx minp start lhs p a2
            | None => SDone None
            end
        | Some (None, a1) => pratt_sinfix rest ctx minp start lhs p a1
        | None => SDone None
        end
      else pratt_sinfix rest ctx minp start lhs p a
  | _ :: rest => pratt_sinfix rest ctx minp start lhs p a
  end.
End SPrattOps.

Fixpoint pratt_sem (fuel : nat) (atom : G) (ops : list pop) (ctx : env) (minp : nat) (p : nat) (a : reg)
         {struct fuel} : option sres :=
  match fuel with
  | 0 => None
  | S f =>
      match pratt_sprefix (pratt_sem f atom ops ctx) ops ctx p a with
      | SDone (Some (Some (v, p1, e1), a1)) => pratt_sloop f atom ops ctx minp p v e1 p1 a1
      | SDone x => x
      | SNext a1 =>
          match run atom ctx p a1 with
          | Some (Some (v, p1, e1), a2) => pratt_sloop f atom ops ctx minp p v e1 p1 a2
          | x => x
          end
      end
  end
with pratt_sloop (fuel : nat) (atom : G) (ops : list pop) (ctx : env) (minp : nat) (start : nat)
                 (lhs : val) (acce : list lerr) (p : nat) (a : reg) {struct fuel} : option sres :=
  match fuel with
  | 0 => None
  | S f =>
      match pratt_spostfix ops ctx minp start lhs p a with
      | SDone (Some (Some (v, p1, e1), a1)) => pratt_sloop f atom ops ctx minp start v (acce ++ e1) p1 a1
      | SDone x => x
      | SNext a1 =>
          match pratt_sinfix (pratt_sem f atom ops ctx) ops ctx minp start lhs p a1 with
          | SDone (Some (Some (v, p1, e1), a2)) => pratt_sloop f atom ops ctx minp start v (acce ++ e1) p1 a2
          | SDone x => x
          | SNext a2 => Some (Some (lhs, p, acce), a2)
          end
      end
  end.

End SLoops.

Definition sitem_val (it : sitem) : val := match it with (v, _, _) => v end.
Definition sitem_before (it : sitem) : nat := match it with (_, b, _) => b end.
Definition sitem_after (it : sitem) : nat := match it with (_, _, a) => a end.

Definition sctxify (l : nat) (start : nat) (e : lerr) : lerr :=
  (fst e, in_context K l (spn start (fst e)) (snd e)).

Fixpoint sem (n : nat) (g : G) (ctx : env) (p : nat) (a : reg) {struct n} : option sres :=
  match n with
  | 0 => None
  | S n' =>
  let run := sem n' in
  (* bind: continue with a successful sub-parse *)
  let seq (x : option sres) (k : val -> nat -> list lerr -> reg -> option sres) : option sres :=
    match x with
    | Some (Some (v, p1, e1), a1) => k v p1 e1 a1
    | Some (None, a1) => Some (None, a1)
    | None => None
    end in
  match g with
  | End =>
      Some match nth_error toks p with
           | None => (Some (VUnit, p, []), a)
           | Some t => (None, ef a p [pEoi] (Some t) (spn p (S p)))
           end
  | Empty => Some (Some (VUnit, p, []), a)
  | Any => Some (one_tok_sem (fun t => Some (VTok t)) [pAny] p a)
  | Just ts =>
      Some match just_sem ts p a with
           | (Some p1, a1) => (Some (VList (map VTok ts), p1, []), a1)
           | (None, a1) => (None, a1)
           end
  | OneOf ts => Some (one_tok_sem (fun t => if memN t ts then Some (VTok t) else None) (map pTok ts) p a)
  | NoneOf ts => Some (one_tok_sem (fun t => if memN t ts then None else Some (VTok t)) [pSomethingElse] p a)
  | Select pr f =>
      Some (one_tok_sem (fun t => if holds pr (VTok t) then Some (ap1 f (VTok t)) else None) [pSomethingElse] p a)
  | Custom ts k =>
      Some match custom_sem ts p with
           | (true, p1) => (Some (VList (map VTok ts), p1, []), a)
           | (false, p1) => (None, ee a p (custom_err K k (spn p p1)))
           end
  | Prog ops k =>
      Some match prog_sem ops p [] [] p with
           | (true, acc, p1) => (Some (VList (rev acc), p1, []), a)
           | (false, _, p1) => (None, ee a p (custom_err K k (spn p p1)))
           end
  | Map f x => seq (run x ctx p a) (fun v p1 e1 a1 => Some (Some (ap1 f v, p1, e1), a1))
  | MapWith f x =>
      seq (run x ctx p a) (fun v p1 e1 a1 => Some (Some (apmw f v (spn p p1) (p, p1) (ust_at p1) (cval ctx), p1, e1), a1))
  | To k x => seq (run x ctx p a) (fun _ p1 e1 a1 => Some (Some (VNat k, p1, e1), a1))
  | Ignored x => seq (run x ctx p a) (fun _ p1 e1 a1 => Some (Some (VUnit, p1, e1), a1))
  | ToSpan x => seq (run x ctx p a) (fun _ p1 e1 a1 => Some (Some (vspan (spn p p1), p1, e1), a1))
  | ToSlice x => seq (run x ctx p a) (fun _ p1 e1 a1 => Some (Some (VSlice p p1, p1, e1), a1))
  | Filter pr x =>
      seq (run x ctx p a) (fun v p1 e1 a1 =>
        if holds pr v then Some (Some (v, p1, e1), a1)
        else Some (None, ef a1 p1 [pSomethingElse] None (spn p p1)))
  | TryMap pr f k x =>
      (* the sub-parse runs on an empty register whose outcome is merged back (shelter);
         a rejection supersedes the sub-parse's own pending error *)
      match run x ctx p None with
      | Some (Some (v, p1, e1), new) =>
          if holds pr v then Some (Some (ap1 f v, p1, e1), join a new)
          else Some (None, ee a p (custom_err K k (spn p p1)))
      | Some (None, new) => Some (None, join a new)
      | None => None
      end
  | TryMapWith pr f k x =>
      seq (run x ctx p a) (fun v p1 e1 a1 =>
        if holds pr v then Some (Some (ap1 f v, p1, e1), a1)
        else Some (None, ee a1 p1 (custom_err K k (spn p p1))))
  | Validate pr k x =>
      seq (run x ctx p a) (fun v p1 e1 a1 =>
        Some (Some (v, p1, if holds pr v then e1 ++ [(p, custom_err K k (spn p p1))] else e1), a1))
  | Then x y =>
      seq (run x ctx p a) (fun va p1 e1 a1 =>
      seq (run y ctx p1 a1) (fun vb p2 e2 a2 => Some (Some (VPair va vb, p2, e1 ++ e2), a2)))
  | IgnoreThen x y =>
      seq (run x ctx p a) (fun _ p1 e1 a1 =>
      seq (run y ctx p1 a1) (fun vb p2 e2 a2 => Some (Some (vb, p2, e1 ++ e2), a2)))
  | ThenIgnore x y =>
      seq (run x ctx p a) (fun va p1 e1 a1 =>
      seq (run y ctx p1 a1) (fun _ p2 e2 a2 => Some (Some (va, p2, e1 ++ e2), a2)))
  | DelimitedBy x l r =>
      seq (run l ctx p a) (fun _ p1 e1 a1 =>
      seq (run x ctx p1 a1) (fun va p2 e2 a2 =>
      seq (run r ctx p2 a2) (fun _ p3 e3 a3 => Some (Some (va, p3, (e1 ++ e2) ++ e3), a3))))
  | PaddedBy x pd =>
      seq (run pd ctx p a) (fun _ p1 e1 a1 =>
      seq (run x ctx p1 a1) (fun va p2 e2 a2 =>
      seq (run pd ctx p2 a2) (fun _ p3 e3 a3 => Some (Some (va, p3, (e1 ++ e2) ++ e3), a3))))
  | Group gs => group_sem run gs ctx p a [] []
  | Or x y => choice_sem run [x; y] ctx p a
  | Choice gs =>
      match gs with
      | [] => Some (None, fail_at a p [])
      | _ => choice_sem run gs ctx p a
      end
  | ChoiceVec gs =>
      match gs with
      | [] => Some (None, fail_at a p [])
      | _ => choice_sem run gs ctx p a
      end
  | OrNot x =>
      match run x ctx p a with
      | Some (Some (v, p1, e1), a1) => Some (Some (VOpt (Some v), p1, e1), a1)
      | Some (None, a1) => Some (Some (VOpt None, p, []), a1)
      | None => None
      end
  | Not x =>
      (* pinned bookkeeping: the failure is recorded one token past the start *)
      match run x ctx p None with
      | Some (Some (_, p1, _), _) =>
          Some (None, match nth_error toks p with
                      | Some t => ef a (S p) [pSomethingElse] (Some t) (spn p p1)
                      | None => ef a p [pSomethingElse] None (spn p p1)
                      end)
      | Some (None, _) => Some (Some (VUnit, p, []), a)
      | None => None
      end
  | AndIs x y =>
      (* y is pure lookahead at the same position: its emissions are not part of the path *)
      seq (run x ctx p a) (fun va p1 e1 a1 =>
      seq (run y ctx p a1) (fun _ _ _ a2 => Some (Some (va, p1, e1), a2)))
  | Rewind x => seq (run x ctx p a) (fun v _ e1 a1 => Some (Some (v, p, e1), a1))
  | RepUnit i =>
      match sdrive run n' i ctx (mk_iter i ctx) None [] [] p a with
      | Some (Some (_, _, p1, e1), a1) => Some (Some (VUnit, p1, e1), a1)
      | Some (None, a1) => Some (None, a1)
      | None => None
      end
  | Collect c i =>
      match sdrive run n' i ctx (mk_iter i ctx) None [] [] p a with
      | Some (Some (items, _, p1, e1), a1) =>
          Some (Some (match c with
                      | CVec => VList (rev (map sitem_val items))
                      | CCount => VNat (length items)
                      | CUnit => VUnit
                      end, p1, e1), a1)
      | Some (None, a1) => Some (None, a1)
      | None => None
      end
  | CollectExactly k i =>
      match k, it_eager i ctx with
      | 0, Some g => run g ctx p a       (* a failing try_configure fails, into_iter's parser runs, even when no item is asked for *)
      | _, _ =>
      match sdrive run (S k) i ctx (mk_iter i ctx) (Some k) [] [] p a with
      | Some (Some (items, false, p1, e1), a1) => Some (Some (VList (rev (map sitem_val items)), p1, e1), a1)
      | Some (Some (_, true, p1, _), a1) => Some (None, fail_at a1 p1 [pSomethingElse])
      | Some (None, a1) => Some (None, a1)
      | None => None
      end
      end
  | Foldl x i k =>
      seq (run x ctx p a) (fun va p1 e1 a1 =>
        match sdrive run n' i ctx (mk_iter i ctx) None [] [] p1 a1 with
        | Some (Some (items, _, p2, e2), a2) =>
            Some (Some (fold_left (fun acc it => VTag k (VPair acc (sitem_val it))) (rev items) va, p2, e1 ++ e2), a2)
        | Some (None, a2) => Some (None, a2)
        | None => None
        end)
  | FoldlWith x i k =>
      seq (run x ctx p a) (fun va p1 e1 a1 =>
        match sdrive run n' i ctx (mk_iter i ctx) None [] [] p1 a1 with
        | Some (Some (items, _, p2, e2), a2) =>
            Some (Some (fold_left (fun acc it =>
                          VTag k (VPair (VPair acc (sitem_val it))
                                        (VPair (vspan (spn p (sitem_after it)))
                                               (VNum (ust_at (sitem_after it))))))
                          (rev items) va, p2, e1 ++ e2), a2)
        | Some (None, a2) => Some (None, a2)
        | None => None
        end)
  | Foldr i y k =>
      match sdrive run n' i ctx (mk_iter i ctx) None [] [] p a with
      | Some (Some (items, _, p1, e1), a1) =>
          seq (run y ctx p1 a1) (fun vb p2 e2 a2 =>
            Some (Some (fold_left (fun acc it => VTag k (VPair (sitem_val it) acc)) items vb, p2, e1 ++ e2), a2))
      | Some (None, a1) => Some (None, a1)
      | None => None
      end
  | FoldrWith i y k =>
      match sdrive run n' i ctx (mk_iter i ctx) None [] [] p a with
      | Some (Some (items, _, p1, e1), a1) =>
          seq (run y ctx p1 a1) (fun vb p2 e2 a2 =>
            Some (Some (fold_left (fun acc it =>
                          VTag k (VPair (VPair (sitem_val it) acc)
                                        (VPair (vspan (spn (sitem_before it) p2)) (VNum (ust_at p2)))))
                          items vb, p2, e1 ++ e2), a2))
      | Some (None, a1) => Some (None, a1)
      | None => None
      end
  | RecoverVia x y =>
      match run x ctx p a with
      | Some (None, Some a0) =>
          (* loud: the strategy's output plus exactly one error, the pending one *)
          match run y ctx p None with
          | Some (Some (v, p1, e1), a1) => Some (Some (v, p1, e1 ++ [(p1, snd a0)]), a1)
          | Some (None, _) => Some (None, Some a0)
          | None => None
          end
      | Some (None, None) => None
      | res => res                                   (* transparent on success *)
      end
  | RecoverSkipUntil x skip until fb =>
      match run x ctx p a with
      | Some (None, Some a0) =>
          match skip_until_sem run n' skip until ctx p None [] with
          | Some (Some (p1, e1), a1) => Some (Some (VNat fb, p1, e1 ++ [(p1, snd a0)]), a1)
          | Some (None, _) => Some (None, Some a0)
          | None => None
          end
      | Some (None, None) => None
      | res => res
      end
  | RecoverSkipRetry x skip until =>
      match run x ctx p a with
      | Some (None, Some a0) =>
          match skip_retry_sem run n' x skip until ctx p None [] with
          | Some (Some (v, p1, e1), a1) => Some (Some (v, p1, e1 ++ [(p1, snd a0)]), a1)
          | Some (None, _) => Some (None, Some a0)
          | None => None
          end
      | Some (None, None) => None
      | res => res
      end
  | Labelled l is_ctx x =>
      (* a scope: the sub-parse's pending error is decorated, then merged into the register *)
      match run x ctx p None with
      | Some (o, new) =>
          let a' := match new with
                    | Some (q, e) =>
                        ee a q (if Nat.eqb q p then label_with K l e
                                else if andb is_ctx (Nat.ltb p q) then in_context K l (spn p q) e
                                else e)
                    | None => a
                    end in
          Some (match o with
                | Some (v, p1, e1) => Some (v, p1, if is_ctx then map (sctxify l p) e1 else e1)
                | None => None
                end, a')
      | None => None
      end
  | MapErr k x =>
      match run x ctx p None with
      | Some (Some r, new) => Some (Some r, join a new)
      | Some (None, Some (q, e)) => Some (None, ee a q (map_err_fn K k e))
      | Some (None, None) => None
      | None => None
      end
  | WithCtx c x => run x (with_ctx ctx c) p a
  | IgnoreWithCtx x y =>
      seq (run x ctx p a) (fun va p1 e1 a1 =>
      seq (run y (with_ctx ctx va) p1 a1) (fun vb p2 e2 a2 => Some (Some (vb, p2, e1 ++ e2), a2)))
  | ThenWithCtx x y =>
      seq (run x ctx p a) (fun va p1 e1 a1 =>
      seq (run y (with_ctx ctx va) p1 a1) (fun vb p2 e2 a2 => Some (Some (VPair va vb, p2, e1 ++ e2), a2)))
  | MapCtx f x => run x (with_ctx ctx (ap1 f (cval ctx))) p a
  | JustCfg _ =>
      Some match just_sem (val_toks (cval ctx)) p a with
           | (Some p1, a1) => (Some (VList (map VTok (val_toks (cval ctx))), p1, []), a1)
           | (None, a1) => (None, a1)
           end
  | Memo _ x =>
      (* Memoized::go without its table: the parser runs on an empty register and its pending error is merged back.
         (For parsers without recover_with this is running it directly: Proofs/Shelter.v, shelter_eq.) *)
      match run x ctx p None with
      | Some (o, new) => Some (o, join a new)
      | None => None
      end
  | Rec x => run x (mkEnv (cval ctx) (x :: crec ctx)) p a
  | Var k =>
      match nth_error (crec ctx) k with
      | Some x => run x (mkEnv (cval ctx) (skipn k (crec ctx))) p a
      | None => None
      end
  | Pratt atom ops => pratt_sem run n' atom ops ctx 0 p a
  | GroupArr gs => group_sem run gs ctx p a [] []
  | NestedIn _ => None                          (* not part of this specification: see Model/Nested.v *)
  | WithState _ _ => None                       (* not part of this specification (the observed state is not positional) *)
  | Skip k => Some (Some (VUnit, Nat.max p (Nat.min (p + k) (length toks)), []), a)
  | ExtWrap x =>
      (* an extension parser hands its failure back as a value: the pending error is re-recorded at the parser's start *)
      match run x ctx p a with
      | Some (None, Some (_, e)) => Some (None, ee None p e)
      | Some (None, None) => None
      | res => res
      end
  | Padded ws x =>
      match run x ctx (skip_ws (length toks) ws p) a with
      | Some (Some (v, p1, e1), a1) => Some (Some (v, skip_ws (length toks) ws p1, e1), a1)
      | res => res
      end
  end
  end.

(* the pure PEG reading: verdict, value, end position *)
Definition peg (n : nat) (g : G) (p : nat) : option (option (val * nat)) :=
  match sem n g env0 p None with
  | Some (Some (v, p1, _), _) => Some (Some (v, p1))
  | Some (None, _) => Some None
  | None => None
  end.

(* top level: the grammar must match the whole input *)
Definition sem_top (n : nat) (g : G) : option (option val * list err) :=
  match sem n (ThenIgnore g End) env0 0 None with
  | Some (Some (v, _, ems), _) => Some (Some v, map snd ems)
  | Some (None, a) =>
      Some (None, [match a with Some (_, e) => e | None => expected_found K [] None (spn 0 0) end])
  | None => None
  end.

End Sem.
