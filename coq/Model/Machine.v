(* The machine: a transliteration of each combinator's `go::<M>` over the InputRef state.
   This is the model OF THE CODE (faithful, not tidy).  ANCHORS.tsv maps clauses to Rust lines. *)
From Chum Require Export Err.

Inductive mode := Emit | Check.

(* panic sites *)
Definition PUnwrapRecovery : nat := 1.   (* recovery.rs: take_alt().unwrap() *)
Definition PUnwrapMapErr : nat := 2.     (* combinator.rs MapErrWithState: take_alt().unwrap() *)
Definition PUnwrapInputRef : nat := 4.   (* input.rs InputRef::parse / InputRef::check: take_alt().unwrap() *)
Definition PLeftRec : nat := 77.          (* memo_strict: a memoized parser re-entered at the position where it is in progress *)
Definition PProgress : nat := 3.         (* debug_assert!(before != cursor) in loops *)

Inductive outcome := Ok (v : option val) | Err | Panic (site : nat) | OutOfFuel.

(* memo table: (cursor location, parser id) -> None (in progress) | Some e (cached failure, e = the
   pending error it left, possibly none).  The last component is ghost data (not in the code): the fuel of the run that
   produced the entry; only the memo_strict machine (a proof device, see [quirks]) reads it. *)
Definition memo_t := list (nat * nat * option (option lerr) * nat).
Record st := mkSt { cur : nat; sec : list lerr; alt : option lerr; ust : N; memo : memo_t }.

Fixpoint memo_get (t : memo_t) (p id : nat) : option (option (option lerr)) :=
  match t with
  | [] => None
  | (q, j, e, _) :: r => if andb (Nat.eqb p q) (Nat.eqb id j) then Some e else memo_get r p id
  end.
Fixpoint memo_fuel (t : memo_t) (p id : nat) : nat :=
  match t with
  | [] => 0
  | (q, j, _, f) :: r => if andb (Nat.eqb p q) (Nat.eqb id j) then f else memo_fuel r p id
  end.
Fixpoint memo_del (t : memo_t) (p id : nat) : memo_t :=
  match t with
  | [] => []
  | (q, j, e, f) :: r => if andb (Nat.eqb p q) (Nat.eqb id j) then memo_del r p id else (q, j, e, f) :: memo_del r p id
  end.
Definition memo_put (t : memo_t) (p id : nat) (e : option (option lerr)) (f : nat) : memo_t := (p, id, e, f) :: memo_del t p id.

Definition on_tok (t : tok) (h : N) : N := ((h * 31 + t + 1) mod 1000003)%N.

Definition set_cur s c := mkSt c (sec s) (alt s) (ust s) (memo s).
Definition set_alt s a := mkSt (cur s) (sec s) a (ust s) (memo s).
Definition set_sec s l := mkSt (cur s) l (alt s) (ust s) (memo s).
Definition set_memo s t := mkSt (cur s) (sec s) (alt s) (ust s) t.
Definition set_ust s u := mkSt (cur s) (sec s) (alt s) u (memo s).

Definition ckpt := (nat * nat * N)%type.
Definition save (s : st) : ckpt := (cur s, length (sec s), ust s).
Definition rewind (s : st) (c : ckpt) : st :=
  match c with (p, k, u) => mkSt p (firstn k (sec s)) (alt s) u (memo s) end.
Definition emit (s : st) (p : nat) (e : err) : st := set_sec s (sec s ++ [(p, e)]).

Definition bindv (m : mode) (v : val) : option val := match m with Emit => Some v | Check => None end.
Definition getv (o : option val) : val := match o with Some v => v | None => VUnit end.
Definition mapv (m : mode) (f : val -> val) (o : option val) : option val :=
  match m with Emit => Some (f (getv o)) | Check => None end.

(* nested_in: given a token, None if it is not a group, else a runner for a parse of the group's children:
   user state in -> mode -> grammar -> environment -> (outcome, secondary errors, pending error, user state out) *)
Definition nested_t := tok -> option (N -> mode -> G -> env -> outcome * list lerr * option lerr * N).

(* Known defects of the code, each behind a flag.  The flag vector that matches /repo today is
   chosen by the correspondence check (and is tied to the code by it); the refinement theorems
   are about the machine with every flag off.  A flag is switched off for good when the
   corresponding `fix:` commit lands in /repo. *)
Record quirks := mkQ {
  q_zst_noop : bool;        (* F7: add_alt_err ignores zero-sized errors *)
  q_look_trunc : bool;      (* F1: and_is / rewind reposition with a truncating rewind *)
  q_trymap_drop : bool;     (* F2: try_map drops the sheltered alt when its parser fails *)
  q_trymap_pos : bool;      (* F12: a successful try_map re-adds the inner alt at its own start *)
  q_maperr_drop : bool;     (* F3: map_err drops the sheltered alt when its parser succeeds *)
  q_exact_noalt : bool;     (* F10: collect_exactly fails without recording an error when the iterator ends early *)
  q_emptychoice_none : bool; (* F16: choice(&[]) reports found = None although not at the end of input *)
  q_memo_take : bool;       (* F5: memoized takes the pending error on failure and replays it at the call position *)
  memo_on : bool;           (* not a defect: whether memoized() uses its table at all; the refinement theorems are
                               stated for the machine without tables, C11 relates the two *)
  memo_strict : bool;       (* not a defect, a proof device (C11): a visit that finds an entry in progress (left recursion) or a
                               cached failure without an error returns Panic PLeftRec instead of the cut-off failure, so that the
                               refinement theorem of the table-using machine can exclude left-recursive runs by their outcome *)
  nested : option nested_t  (* how nested_in runs a parser on the children of a group token (None: not available;
                               the theorems about [go] leave nested_in out, Model/Nested.v ties the knot) *)
}.
Definition no_quirks : quirks := mkQ false false false false false false false false false false None.

Section Machine.
Variable Q : quirks.
Variable K : ekind.
Variable toks : list tok.
Variable spn : nat -> nat -> span.     (* Input::span for two cursors, as token indices *)

Definition next (s : st) : option tok * st :=
  match nth_error toks (cur s) with
  | Some t => (Some t, mkSt (S (cur s)) (sec s) (alt s) (on_tok t (ust s)) (memo s))
  | None => (None, s)
  end.

(* InputRef::skip, n times: like next without looking at the token; stays put at the end of input *)
(* InputRef::skip_while(|t| t in ws): peeks; a matching token is consumed (the inspector sees it), the first non-matching
   token is left alone; no error is recorded.  [k] bounds the number of steps (the input length suffices). *)
Fixpoint skip_while (k : nat) (ws : list tok) (s : st) : st :=
  match k with
  | 0 => s
  | S k' =>
      match nth_error toks (cur s) with
      | Some t => if memN t ws then skip_while k' ws (mkSt (S (cur s)) (sec s) (alt s) (on_tok t (ust s)) (memo s)) else s
      | None => s
      end
  end.

Fixpoint skip_loop (n : nat) (s : st) : st :=
  match n with 0 => s | S k => skip_loop k (snd (next s)) end.

Definition alt_ef (s : st) (exp : list N) (found : option tok) (sp : span) : st :=
  set_alt s (add_alt K (alt s) (cur s) exp found sp).
Definition alt_err (s : st) (p : nat) (e : err) : st :=
  set_alt s (add_alt_err (q_zst_noop Q) K (alt s) p e).
(* restore cursor and inspector without touching the error list *)
Definition reposition (s : st) (c : ckpt) : st :=
  match c with (p, _, u) => mkSt p (sec s) (alt s) u (memo s) end.
(* merge a sheltered sub-parse's pending error back into the register *)
Definition join_alt (s : st) (new : option lerr) : st :=
  match new with Some (p, e) => alt_err s p e | None => s end.

(* "expected .. found <next token>" recorded at the cursor without consuming: save; next; span; rewind; add_alt *)
Definition fail_here (exp : list N) (s : st) : st :=
  let before := save s in
  match next s with
  | (found, s1) => alt_ef (rewind s1 before) exp found (spn (cur s) (cur s1))
  end.

(* one-token primitives share this shape: save; next; accept or (span; rewind; add_alt; Err) *)
Definition one_tok (m : mode) (acc : tok -> option val) (exp : list N) (s : st) : outcome * st :=
  let before := save s in
  match next s with
  | (Some t, s1) =>
      match acc t with
      | Some v => (Ok (bindv m v), s1)
      | None => (Err, alt_ef (rewind s1 before) exp (Some t) (spn (cur s) (cur s1)))
      end
  | (None, s1) => (Err, alt_ef (rewind s1 before) exp None (spn (cur s) (cur s1)))
  end.

Fixpoint just_loop (ts : list tok) (s : st) : bool * st :=
  match ts with
  | [] => (true, s)
  | t :: r =>
      let before := save s in
      match next s with
      | (Some u, s1) =>
          if N.eqb t u then just_loop r s1
          else (false, alt_ef (rewind s1 before) [pTok t] (Some u) (spn (cur s) (cur s1)))
      | (None, s1) => (false, alt_ef (rewind s1 before) [pTok t] None (spn (cur s) (cur s1)))
      end
  end.

Definition just_go (m : mode) (ts : list tok) (s : st) : outcome * st :=
  match just_loop ts s with
  | (true, s1) => (Ok (bindv m (VList (map VTok ts))), s1)
  | (false, s1) => (Err, s1)
  end.

(* custom(|inp| ..): consumes ts with inp.next(); on mismatch returns Err(custom k) WITHOUT rewinding *)
Fixpoint custom_loop (ts : list tok) (s : st) : bool * st :=
  match ts with
  | [] => (true, s)
  | t :: r =>
      match next s with
      | (Some u, s1) => if N.eqb t u then custom_loop r s1 else (false, s1)
      | (None, s1) => (false, s1)
      end
  end.

(* custom(|inp| ..) over InputRef's public API: next / next_ref / peek / skip / save / rewind / span_since / state *)
Fixpoint prog_loop (ops : list cop) (start : nat) (stack : list ckpt) (acc : list val) (s : st) : bool * list val * st :=
  match ops with
  | [] => (true, acc, s)
  | o :: r =>
      match o with
      | CNext | CNextRef =>
          match next s with
          | (Some t, s1) => prog_loop r start stack (VTok t :: acc) s1
          | (None, s1) => prog_loop r start stack (VUnit :: acc) s1
          end
      | CPeek =>        (* InputRef::peek: reads through a copy of the cursor; the inspector is not told *)
          prog_loop r start stack (match nth_error toks (cur s) with Some t => VTok t | None => VUnit end :: acc) s
      | CSkip => prog_loop r start stack acc (snd (next s))
      | CSave => prog_loop r start (save s :: stack) acc s
      | CRewind =>
          match stack with
          | c :: stack' => prog_loop r start stack' acc (rewind s c)
          | [] => prog_loop r start stack acc s
          end
      | CExpect t =>
          match next s with
          | (Some u, s1) => if N.eqb t u then prog_loop r start stack acc s1 else (false, acc, s1)
          | (None, s1) => (false, acc, s1)
          end
      | CSpan => prog_loop r start stack (VSpan (fst (spn start (cur s))) (snd (spn start (cur s))) :: acc) s
      | CState => prog_loop r start stack (VNum (ust s) :: acc) s
      end
  end.

Definition run_t := mode -> G -> env -> st -> outcome * st.

(* ---------- loops parameterised by the recursive interpreter ---------- *)
Section Loops.
Variable run : run_t.

(* choice((a, b, ..)): rewind after every failing alternative *)
Fixpoint choice_loop (m : mode) (gs : list G) (ctx : env) (before : ckpt) (s : st) : outcome * st :=
  match gs with
  | [] => (Err, s)
  | g :: r =>
      match run m g ctx s with
      | (Err, s1) => choice_loop m r ctx before (rewind s1 before)
      | res => res
      end
  end.

(* choice(&[..]): rewind before every alternative, not after the last failure *)
Fixpoint choicevec_loop (m : mode) (gs : list G) (ctx : env) (before : ckpt) (s : st) : outcome * st :=
  match gs with
  | [] => (Err, s)
  | g :: r =>
      match run m g ctx (rewind s before) with
      | (Err, s1) => choicevec_loop m r ctx before s1
      | res => res
      end
  end.

Fixpoint group_loop (m : mode) (gs : list G) (ctx : env) (acc : list val) (s : st) : outcome * st :=
  match gs with
  | [] => (Ok (bindv m (VList (rev acc))), s)
  | g :: r =>
      match run m g ctx s with
      | (Ok v, s1) => group_loop m r ctx (getv v :: acc) s1
      | res => res
      end
  end.

(* ---------- iterator protocol ---------- *)
Inductive itst := SCount (n : nat) | SEnum (i : nat) (s : itst) | SFlag (b : bool)
                | SCfg (n : nat) (lo : nat) (hi : option nat)
                | SFail (k : nat)         (* try_configure: the closure returned Err(custom k) in make_iter *)
                | SInto (o : option (list val))
                | SThen (sa : itst) (sb : option itst).   (* into_iter: None = make_iter not yet run (it is modelled at the first `next`:
                                                      nothing happens between the two), Some l = the items not yet handed out *)
Inductive ires := INone | ISome (v : option val) | IErr | IPanic (site : nat) | IOOF.

Fixpoint mk_iter (i : IT) (ctx : env) : itst :=
  match i with
  | IRep _ _ _ => SCount 0
  | ISep _ _ _ _ _ _ => SCount 0
  | IEnum j => SEnum 0 (mk_iter j ctx)
  | IMap _ j => mk_iter j ctx
  | IMapWith _ j => mk_iter j ctx
  | IOrNot _ => SFlag false
  | IRepCfg _ lo hi ck =>
      if cfg_fails ck (val_count (cval ctx)) then SFail lo
      else SCfg 0 (cfg_lo ck lo (val_count (cval ctx))) (cfg_hi ck hi (val_count (cval ctx)))
  | IIntoIter _ => SInto None
  | IThen i _ => SThen (mk_iter i ctx) None     (* Then::make_iter makes the first iterator only *)
  end.

(* What make_iter does before any item is asked for, when it does anything: a try_configure whose closure fails records
   its error and fails; into_iter runs its inner parser (whose output is the container).  The machine defers both to the
   first `next`; only collect_exactly::<[T; 0]> never calls `next`, and takes this instead. *)
Fixpoint it_eager (i : IT) (ctx : env) : option G :=
  match i with
  | IRepCfg _ lo _ ck => if cfg_fails ck (val_count (cval ctx)) then Some (TryMap PFalse FId lo Empty) else None
  | IEnum j | IMap _ j | IMapWith _ j => it_eager j ctx
  | IIntoIter a => Some (IgnoreThen a (Group []))       (* the parser runs, its output is discarded, the result is [] *)
  | IThen i _ => it_eager i ctx
  | _ => None
  end.

Fixpoint noncons_ok (i : IT) : bool :=
  match i with
  | IRep _ _ _ | ISep _ _ _ _ _ _ | IRepCfg _ _ _ _ => false
  | IEnum j | IMap _ j | IMapWith _ j => noncons_ok j
  | IOrNot _ => true
  | IIntoIter _ => true
  | IThen i j => andb (noncons_ok i) (noncons_ok j)
  end.

Definition at_cap (c : nat) (hi : option nat) : bool :=
  match hi with Some h => Nat.leb h c | None => false end.

Definition rep_next (m : mode) (a : G) (lo : nat) (hi : option nat) (ctx : env) (c : nat) (s : st)
  : ires * nat * st :=
  if at_cap c hi then (INone, c, s) else
  let before := save s in
  match run m a ctx s with
  | (Ok v, s1) => (ISome v, S c, s1)
  | (Err, s1) => if Nat.leb lo c then (INone, c, rewind s1 before) else (IErr, c, rewind s1 before)
  | (Panic k, s1) => (IPanic k, c, s1)
  | (OutOfFuel, s1) => (IOOF, c, s1)
  end.

(* the item part of SeparatedBy::next; [before_sep] is the checkpoint taken before the separator *)
Definition sep_item (m : mode) (a : G) (lo : nat) (trail : bool) (ctx : env) (c : nat)
           (before_sep : ckpt) (s0 : st) : ires * nat * st :=
  let before_item := save s0 in
  match run m a ctx s0 with
  | (Ok v, s1) => (ISome v, S c, s1)
  | (Err, s1) =>
      if Nat.ltb c lo then (IErr, c, rewind s1 before_sep)
      else if trail then (INone, c, rewind s1 before_item)
      else (INone, c, rewind s1 before_sep)
  | (Panic k, s1) => (IPanic k, c, s1)
  | (OutOfFuel, s1) => (IOOF, c, s1)
  end.

Definition sep_next (m : mode) (a sep : G) (lo : nat) (hi : option nat) (lead trail : bool)
           (ctx : env) (c : nat) (s : st) : ires * nat * st :=
  if at_cap c hi then (INone, c, s) else
  let before_sep := save s in
  if andb (Nat.eqb c 0) lead then
    match run Check sep ctx s with
    | (Ok _, s1) => sep_item m a lo trail ctx c before_sep s1
    | (Err, s1) => sep_item m a lo trail ctx c before_sep (rewind s1 before_sep)
    | (Panic k, s1) => (IPanic k, c, s1)
    | (OutOfFuel, s1) => (IOOF, c, s1)
    end
  else if Nat.ltb 0 c then
    match run Check sep ctx s with
    | (Ok _, s1) => sep_item m a lo trail ctx c before_sep s1
    | (Err, s1) =>
        if Nat.ltb c lo then (IErr, c, rewind s1 before_sep) else (INone, c, rewind s1 before_sep)
    | (Panic k, s1) => (IPanic k, c, s1)
    | (OutOfFuel, s1) => (IOOF, c, s1)
    end
  else sep_item m a lo trail ctx c before_sep s.

Definition cfg_or {A} (o : option A) (d : A) : A := match o with Some x => x | None => d end.

Fixpoint it_next (m : mode) (i : IT) (ctx : env) (its : itst) (s : st) : ires * itst * st :=
  match i, its with
  | IRep a lo hi, SCount c =>
      match rep_next m a lo hi ctx c s with (r, c', s') => (r, SCount c', s') end
  | ISep a sep lo hi lead trail, SCount c =>
      match sep_next m a sep lo hi lead trail ctx c s with (r, c', s') => (r, SCount c', s') end
  | IRepCfg a lo hi _, SCfg c clo chi =>
      (* next_cfg: cfg.at_most.unwrap_or(self.at_most), cfg.at_least.unwrap_or(self.at_least);
         the configuring closure always sets both *)
      match rep_next m a clo chi ctx c s with (r, c', s') => (r, SCfg c' clo chi, s') end
  | IRepCfg _ _ _ _, SFail k =>
      (* TryIterConfigure::make_iter: the closure's error is recorded at the cursor and the iteration fails before any item
         (modelled at the first `next`: nothing happens between make_iter and it) *)
      (* = a try_map that rejects an empty match with that error *)
      match run m (TryMap PFalse FId k Empty) ctx s with
      | (Err, s') => (IErr, its, s')
      | (Panic x, s') => (IPanic x, its, s')
      | (_, s') => (IOOF, its, s')
      end
  | IEnum j, SEnum k js =>
      match it_next m j ctx js s with
      | (ISome v, js', s') => (ISome (mapv m (fun x => VPair (VNat k) x) v), SEnum (S k) js', s')
      | (INone, js', s') => (INone, SEnum (S k) js', s')
      | (r, js', s') => (r, SEnum k js', s')
      end
  | IMap f j, _ =>
      match it_next m j ctx its s with
      | (ISome v, js', s') => (ISome (mapv m (ap1 f) v), js', s')
      | r => r
      end
  | IMapWith f j, _ =>
      match it_next m j ctx its s with
      | (ISome v, js', s') =>
          (ISome (mapv m (fun x => apmw f x (spn (cur s) (cur s')) (cur s, cur s') (ust s') (cval ctx)) v), js', s')
      | r => r
      end
  | IOrNot a, SFlag fin =>
      if fin then (INone, its, s) else
      let before := save s in
      match run m a ctx s with
      | (Ok v, s1) => (ISome v, SFlag true, s1)
      | (Err, s1) => (INone, SFlag true, rewind s1 before)
      | (Panic k, s1) => (IPanic k, its, s1)
      | (OutOfFuel, s1) => (IOOF, its, s1)
      end
  | IIntoIter a, SInto None =>
      (* IntoIter::make_iter: the inner parser always runs in Emit mode (its output is needed for the items) *)
      match run Emit a ctx s with
      | (Ok v, s1) =>
          match val_items (getv v) with
          | [] => (INone, SInto (Some []), s1)
          | x :: l => (ISome (bindv m x), SInto (Some l), s1)
          end
      | (Err, s1) => (IErr, its, s1)
      | (Panic k, s1) => (IPanic k, its, s1)
      | (OutOfFuel, s1) => (IOOF, its, s1)
      end
  | IIntoIter _, SInto (Some l) =>
      match l with
      | [] => (INone, its, s)
      | x :: l' => (ISome (bindv m x), SInto (Some l'), s)
      end
  | IThen i j, SThen sa (Some sb) =>
      (* Then::next: once the second iterator exists the first is never asked again *)
      match it_next m j ctx sb s with (r, sb', s') => (r, SThen sa (Some sb'), s') end
  | IThen i j, SThen sa None =>
      match it_next m i ctx sa s with
      | (INone, sa', s1) =>
          (* the first iterator ended: make the second one and ask it *)
          match it_next m j ctx (mk_iter j ctx) s1 with (r, sb', s2) => (r, SThen sa' (Some sb'), s2) end
      | (r, sa', s1) => (r, SThen sa' None, s1)
      end
  | _, _ => (IPanic 99, its, s)       (* ill-typed iterator state: unreachable from mk_iter *)
  end.

(* Repeated::go fast path for 0..inf *)
Fixpoint rep_fast (fuel : nat) (m : mode) (a : G) (ctx : env) (s : st) : outcome * st :=
  match fuel with
  | 0 => (OutOfFuel, s)
  | S fuel' =>
      let before := save s in
      match run Check a ctx s with
      | (Ok _, s1) =>
          if Nat.eqb (cur s) (cur s1) then (Panic PProgress, s1) else rep_fast fuel' m a ctx s1
      | (Err, s1) => (Ok (bindv m VUnit), rewind s1 before)
      | res => res
      end
  end.

(* The generic driver behind every finisher: call `next` until it yields None (or [lim] items
   have been taken), recording for every item its value, the cursor before and after the call and
   the user state after it.  [pa idx] says whether the debug progress assertion applies to
   iteration idx.  Result flag: true = the iterator ended (None), false = stopped by [lim]. *)
Definition item := (val * nat * nat * N)%type.
Fixpoint drive (fuel : nat) (m : mode) (i : IT) (ctx : env) (its : itst) (lim : option nat)
         (pa : nat -> bool) (idx : nat) (acc : list item) (s : st) : outcome * list item * bool * st :=
  match fuel with
  | 0 => (OutOfFuel, acc, false, s)
  | S fuel' =>
      match lim with
      | Some 0 => (Ok None, acc, false, s)
      | _ =>
        match it_next m i ctx its s with
        | (ISome v, its', s1) =>
            if andb (pa idx) (Nat.eqb (cur s) (cur s1)) then (Panic PProgress, acc, false, s1)
            else drive fuel' m i ctx its' (option_map Nat.pred lim) pa (S idx)
                       ((getv v, cur s, cur s1, ust s1) :: acc) s1
        | (INone, _, s1) => (Ok None, acc, true, s1)
        | (IErr, _, s1) => (Err, acc, false, s1)
        | (IPanic k, _, s1) => (Panic k, acc, false, s1)
        | (IOOF, _, s1) => (OutOfFuel, acc, false, s1)
        end
      end
  end.

(* skip_until strategy loop *)
Fixpoint skip_until_loop (fuel : nat) (m : mode) (skip until : G) (fb : nat) (ctx : env)
         (a0 : lerr) (s : st) : outcome * st :=
  match fuel with
  | 0 => (OutOfFuel, s)
  | S fuel' =>
      let before := save s in
      match run Check until ctx s with
      | (Ok _, s1) => (Ok (bindv m (VNat fb)), emit s1 (cur s1) (snd a0))
      | (Err, s1) =>
          match run Check skip ctx (rewind s1 before) with
          | (Ok _, s2) => skip_until_loop fuel' m skip until fb ctx a0 s2
          | (Err, s2) => (Err, set_alt s2 (Some a0))
          | res => res
          end
      | res => res
      end
  end.

(* skip_then_retry_until strategy loop *)
Fixpoint skip_retry_loop (fuel : nat) (m : mode) (p skip until : G) (ctx : env)
         (a0 : lerr) (s : st) : outcome * st :=
  match fuel with
  | 0 => (OutOfFuel, s)
  | S fuel' =>
      let before := save s in
      match run Check until ctx s with
      | (Ok _, s1) => (Err, rewind (set_alt s1 (Some a0)) before)
      | (Err, s1) =>
          match run Check skip ctx (rewind s1 before) with
          | (Ok _, s2) =>
              let before2 := save s2 in
              match run m p ctx s2 with
              | (Ok v, s3) =>
                  if Nat.leb (length (sec s3)) (length (sec s2))
                  then (Ok v, emit s3 (cur s3) (snd a0))
                  else skip_retry_loop fuel' m p skip until ctx a0 (rewind (set_alt s3 None) before2)
              | (Err, s3) => skip_retry_loop fuel' m p skip until ctx a0 (rewind (set_alt s3 None) before2)
              | res => res
              end
          | (Err, s2) => (Err, set_alt s2 (Some a0))
          | res => res
          end
      | res => res
      end
  end.

(* ---------- Pratt (pratt.rs) ---------- *)
Inductive presult := PDone (r : outcome) (s : st) | PNext (s : st).

Section PrattOps.
Variable rec : nat -> st -> outcome * st.     (* pratt_go at the recursion's fuel: min power -> run *)

(* Operator::do_parse_prefix over the table: the first prefix operator whose op parser and operand succeed *)
Fixpoint pratt_prefix (m : mode) (ops : list pop) (ctx : env) (pre_expr : ckpt) (start : nat) (s : st) : presult :=
  match ops with
  | [] => PNext s
  | PPrefix bp og k :: rest =>
      match run m og ctx s with
      | (Ok op, s1) =>
          match rec (2 * bp) s1 with
          | (Ok rhs, s2) => PDone (Ok (bindv m (pfold_prefix k (getv op) (getv rhs) (spn start (cur s2))))) s2
          | (Err, s2) => pratt_prefix m rest ctx pre_expr start (rewind s2 pre_expr)
          | (r, s2) => PDone r s2
          end
      | (Err, s1) => pratt_prefix m rest ctx pre_expr start (rewind s1 pre_expr)
      | (r, s1) => PDone r s1
      end
  | _ :: rest => pratt_prefix m rest ctx pre_expr start s
  end.

Fixpoint pratt_postfix (m : mode) (ops : list pop) (ctx : env) (minp : nat) (pre_op : ckpt) (start : nat)
         (lhs : option val) (s : st) : presult :=
  match ops with
  | [] => PNext s
  | PPostfix bp og k :: rest =>
      if Nat.leb minp (2 * bp + 1) then
        match run m og ctx s with
        | (Ok op, s1) => PDone (Ok (bindv m (pfold_postfix k (getv lhs) (getv op) (spn start (cur s1))))) s1
        | (Err, s1) => pratt_postfix m rest ctx minp pre_op start lhs (rewind s1 pre_op)
        | (r, s1) => PDone r s1
        end
      else pratt_postfix m rest ctx minp pre_op start lhs s
  | _ :: rest => pratt_postfix m rest ctx minp pre_op start lhs s
  end.

Fixpoint pratt_infix (m : mode) (ops : list pop) (ctx : env) (minp : nat) (pre_op : ckpt) (start : nat)
         (lhs : option val) (s : st) : presult :=
  match ops with
  | [] => PNext s
  | PInfix r bp og k :: rest =>
      if Nat.leb minp (lpow r bp) then
        match run m og ctx s with
        | (Ok op, s1) =>
            match rec (rpow r bp) s1 with
            | (Ok rhs, s2) =>
                PDone (Ok (bindv m (pfold_infix k (getv lhs) (getv op) (getv rhs) (spn start (cur s2))))) s2
            | (Err, s2) => pratt_infix m rest ctx minp pre_op start lhs (rewind s2 pre_op)
            | (r0, s2) => PDone r0 s2
            end
        | (Err, s1) => pratt_infix m rest ctx minp pre_op start lhs (rewind s1 pre_op)
        | (r0, s1) => PDone r0 s1
        end
      else pratt_infix m rest ctx minp pre_op start lhs s
  | _ :: rest => pratt_infix m rest ctx minp pre_op start lhs s
  end.
End PrattOps.

Fixpoint pratt_go (fuel : nat) (m : mode) (atom : G) (ops : list pop) (ctx : env) (minp : nat) (s : st)
         {struct fuel} : outcome * st :=
  match fuel with
  | 0 => (OutOfFuel, s)
  | S f =>
      let pre_expr := save s in
      match pratt_prefix (pratt_go f m atom ops ctx) m ops ctx pre_expr (cur s) s with
      | PDone (Ok v) s1 => pratt_loop f m atom ops ctx minp (cur s) v s1
      | PDone r s1 => (r, s1)
      | PNext s1 =>
          match run m atom ctx s1 with
          | (Ok v, s2) => pratt_loop f m atom ops ctx minp (cur s) v s2
          | res => res
          end
      end
  end
with pratt_loop (fuel : nat) (m : mode) (atom : G) (ops : list pop) (ctx : env) (minp : nat) (start : nat)
                (lhs : option val) (s : st) {struct fuel} : outcome * st :=
  match fuel with
  | 0 => (OutOfFuel, s)
  | S f =>
      let pre_op := save s in
      match pratt_postfix m ops ctx minp pre_op start lhs s with
      | PDone (Ok v) s1 => pratt_loop f m atom ops ctx minp start v s1
      | PDone r s1 => (r, s1)
      | PNext s1 =>
          match pratt_infix (pratt_go f m atom ops ctx) m ops ctx minp pre_op start lhs s1 with
          | PDone (Ok v) s2 => pratt_loop f m atom ops ctx minp start v s2
          | PDone r s2 => (r, s2)
          | PNext s2 => (Ok lhs, rewind s2 pre_op)
          end
      end
  end.

End Loops.

(* NestedIn::go + InputRef::with_input after the inner parse returned: inner secondary errors are appended
   re-located at the outer cursor, the sheltered pending error is restored and the inner one merged into it at
   the outer cursor, the user state (shared with the inner parse) is taken over; s1 = the state after `b` *)
Definition nested_glue (inner : outcome * list lerr * option lerr * N) (s1 : st) : outcome * st :=
  match inner with
  | (r, isec, ialt, iust) =>
      let s2 := mkSt (cur s1) (sec s1 ++ map (fun e => (cur s1, snd e)) isec) (alt s1) iust (memo s1) in
      (r, match ialt with Some (_, e) => alt_err s2 (cur s1) e | None => s2 end)
  end.

Definition ctxify (l : nat) (start : nat) (e : lerr) : lerr :=
  (fst e, in_context K l (spn start (fst e)) (snd e)).

Definition item_val (it : item) : val := match it with (v, _, _, _) => v end.
Definition item_before (it : item) : nat := match it with (_, b, _, _) => b end.
Definition item_after (it : item) : nat := match it with (_, _, a, _) => a end.
Definition item_ust (it : item) : N := match it with (_, _, _, u) => u end.
Definition vspan (sp : span) : val := VSpan (fst sp) (snd sp).

(* ---------- the interpreter ---------- *)
Fixpoint go (n : nat) (m : mode) (g : G) (ctx : env) (s : st) {struct n} : outcome * st :=
  match n with
  | 0 => (OutOfFuel, s)
  | S n' =>
  let run := go n' in
  match g with
  | End =>
      let before := save s in
      match next s with
      | (None, s1) => (Ok (bindv m VUnit), s1)
      | (Some t, s1) => (Err, alt_ef (rewind s1 before) [pEoi] (Some t) (spn (cur s) (cur s1)))
      end
  | Empty => (Ok (bindv m VUnit), s)
  | Any => one_tok m (fun t => Some (VTok t)) [pAny] s
  | Just ts => just_go m ts s
  | OneOf ts => one_tok m (fun t => if memN t ts then Some (VTok t) else None) (map pTok ts) s
  | NoneOf ts => one_tok m (fun t => if memN t ts then None else Some (VTok t)) [pSomethingElse] s
  | Select p f =>
      one_tok m (fun t => if holds p (VTok t) then Some (ap1 f (VTok t)) else None) [pSomethingElse] s
  | Custom ts k =>
      match custom_loop ts s with
      | (true, s1) => (Ok (bindv m (VList (map VTok ts))), s1)
      | (false, s1) => (Err, alt_err s1 (cur s) (custom_err K k (spn (cur s) (cur s1))))
      end
  | Prog ops k =>
      match prog_loop ops (cur s) [] [] s with
      | (true, acc, s1) => (Ok (bindv m (VList (rev acc))), s1)
      | (false, _, s1) => (Err, alt_err s1 (cur s) (custom_err K k (spn (cur s) (cur s1))))
      end
  | Map f a =>
      match run m a ctx s with
      | (Ok v, s1) => (Ok (mapv m (ap1 f) v), s1)
      | res => res
      end
  | MapWith f a =>
      match run m a ctx s with
      | (Ok v, s1) =>
          (Ok (mapv m (fun x => apmw f x (spn (cur s) (cur s1)) (cur s, cur s1) (ust s1) (cval ctx)) v), s1)
      | res => res
      end
  | To k a =>
      match run Check a ctx s with
      | (Ok _, s1) => (Ok (bindv m (VNat k)), s1)
      | res => res
      end
  | Ignored a =>
      match run Check a ctx s with
      | (Ok _, s1) => (Ok (bindv m VUnit), s1)
      | res => res
      end
  | ToSpan a =>
      match run m a ctx s with
      | (Ok _, s1) => (Ok (bindv m (vspan (spn (cur s) (cur s1)))), s1)
      | res => res
      end
  | ToSlice a =>
      match run Check a ctx s with
      | (Ok _, s1) => (Ok (bindv m (VSlice (cur s) (cur s1))), s1)
      | res => res
      end
  | Filter p a =>
      match run Emit a ctx s with
      | (Ok v, s1) =>
          if holds p (getv v) then (Ok (bindv m (getv v)), s1)
          else (Err, alt_ef s1 [pSomethingElse] None (spn (cur s) (cur s1)))
      | res => res
      end
  | TryMap p f k a =>
      let old := alt s in
      match run Emit a ctx (set_alt s None) with
      | (Ok v, s1) =>
          let new := alt s1 in
          if holds p (getv v) then
            let s2 := set_alt s1 old in
            (Ok (bindv m (ap1 f (getv v))),
             if q_trymap_pos Q
             then match new with Some (_, e) => alt_err s2 (cur s) e | None => s2 end
             else join_alt s2 new)
          else (Err, alt_err (set_alt s1 old) (cur s) (custom_err K k (spn (cur s) (cur s1))))
      | (Err, s1) =>
          if q_trymap_drop Q then (Err, s1)      (* `?`: the sheltered alt is dropped *)
          else (Err, join_alt (set_alt s1 old) (alt s1))
      | res => res
      end
  | TryMapWith p f k a =>
      match run Emit a ctx s with
      | (Ok v, s1) =>
          if holds p (getv v) then (Ok (bindv m (ap1 f (getv v))), s1)
          else (Err, alt_err s1 (cur s1) (custom_err K k (spn (cur s) (cur s1))))
      | res => res
      end
  | Validate p k a =>
      match run Emit a ctx s with
      | (Ok v, s1) =>
          (Ok (bindv m (getv v)),
           if holds p (getv v) then emit s1 (cur s) (custom_err K k (spn (cur s) (cur s1))) else s1)
      | res => res
      end
  | Then a b =>
      match run m a ctx s with
      | (Ok va, s1) =>
          match run m b ctx s1 with
          | (Ok vb, s2) => (Ok (bindv m (VPair (getv va) (getv vb))), s2)
          | res => res
          end
      | res => res
      end
  | IgnoreThen a b =>
      match run Check a ctx s with
      | (Ok _, s1) => run m b ctx s1
      | res => res
      end
  | ThenIgnore a b =>
      match run m a ctx s with
      | (Ok va, s1) =>
          match run Check b ctx s1 with
          | (Ok _, s2) => (Ok va, s2)
          | res => res
          end
      | res => res
      end
  | DelimitedBy a l r =>
      match run Check l ctx s with
      | (Ok _, s1) =>
          match run m a ctx s1 with
          | (Ok va, s2) =>
              match run Check r ctx s2 with
              | (Ok _, s3) => (Ok va, s3)
              | res => res
              end
          | res => res
          end
      | res => res
      end
  | PaddedBy a p =>
      match run Check p ctx s with
      | (Ok _, s1) =>
          match run m a ctx s1 with
          | (Ok va, s2) =>
              match run Check p ctx s2 with
              | (Ok _, s3) => (Ok va, s3)
              | res => res
              end
          | res => res
          end
      | res => res
      end
  | Group gs => group_loop run m gs ctx [] s
  | Or a b => choice_loop run m [a; b] ctx (save s) s
  | Choice gs =>
      match gs with
      | [] => (Err, fail_here [] s)         (* no such tuple exists in Rust; kept total and failing loudly *)
      | [g1] => run m g1 ctx s
      | _ => choice_loop run m gs ctx (save s) s
      end
  | ChoiceVec gs =>
      match gs with
      | [] => if q_emptychoice_none Q then (Err, alt_ef s [] None (spn (cur s) (cur s)))
              else (Err, fail_here [] s)
      | _ => choicevec_loop run m gs ctx (save s) s
      end
  | OrNot a =>
      let before := save s in
      match run m a ctx s with
      | (Ok v, s1) => (Ok (mapv m (fun x => VOpt (Some x)) v), s1)
      | (Err, s1) => (Ok (bindv m (VOpt None)), rewind s1 before)
      | res => res
      end
  | Not a =>
      let before := save s in
      match run Check a ctx (set_alt s None) with
      | (Ok _, s1) =>
          let sp := spn (cur s) (cur s1) in
          let s2 := set_alt (rewind s1 before) (alt s) in
          match next s2 with (found, s3) => (Err, alt_ef s3 [pSomethingElse] found sp) end
      | (Err, s1) => (Ok (bindv m VUnit), set_alt (rewind s1 before) (alt s))
      | res => res
      end
  | AndIs a b =>
      let before := save s in
      match run m a ctx s with
      | (Ok v, s1) =>
          let after := save s1 in
          match run Check b ctx (if q_look_trunc Q then rewind s1 before else reposition s1 before) with
          | (Ok _, s2) => (Ok v, rewind s2 after)
          | res => res
          end
      | (Err, s1) => (Err, rewind s1 before)
      | res => res
      end
  | Rewind a =>
      let before := save s in
      match run m a ctx s with
      | (Ok v, s1) => (Ok v, if q_look_trunc Q then rewind s1 before else reposition s1 before)
      | res => res
      end
  | RepUnit i =>
      match i with
      | IRep a 0 None => rep_fast run n' m a ctx s
      | _ =>
          let asserted := match i with IRep _ _ _ | ISep _ _ _ _ _ _ => true | _ => false end in
          match drive run n' Check i ctx (mk_iter i ctx) None (fun _ => asserted) 0 [] s with
          | (Ok _, _, _, s1) => (Ok (bindv m VUnit), s1)
          | (res, _, _, s1) => (res, s1)
          end
      end
  | Collect c i =>
      match drive run n' m i ctx (mk_iter i ctx) None
                  (fun idx => andb (negb (noncons_ok i)) (Nat.leb 1 idx)) 0 [] s with
      | (Ok _, acc, _, s1) =>
          (Ok (bindv m (match c with
                        | CVec => VList (rev (map item_val acc))
                        | CCount => VNat (length acc)
                        | CUnit => VUnit
                        end)), s1)
      | (res, _, _, s1) => (res, s1)
      end
  | CollectExactly k i =>
      match k, it_eager i ctx with
      | 0, Some g =>
          (* make_iter's own work (a failing try_configure, into_iter's inner parser); with N = 0 no `next` is ever called,
             so it has to be taken here *)
          run m g ctx s
      | _, _ =>
      match drive run (S k) m i ctx (mk_iter i ctx) (Some k) (fun _ => false) 0 [] s with
      | (Ok _, acc, false, s1) => (Ok (bindv m (VList (rev (map item_val acc)))), s1)
      | (Ok _, _, true, s1) =>                     (* the iterator ended early *)
          if q_exact_noalt Q then (Err, s1)        (* F10: Err without recording an alt *)
          else (Err, fail_here [pSomethingElse] s1)
      | (res, _, _, s1) => (res, s1)
      end
      end
  | Foldl a i k =>
      match run m a ctx s with
      | (Ok va, s1) =>
          match drive run n' m i ctx (mk_iter i ctx) None (fun _ => negb (noncons_ok i)) 0 [] s1 with
          | (Ok _, acc, _, s2) =>
              (Ok (mapv m (fun a0 => fold_left (fun acc it => VTag k (VPair acc (item_val it))) (rev acc) a0) va), s2)
          | (res, _, _, s2) => (res, s2)
          end
      | res => res
      end
  | FoldlWith a i k =>
      match run m a ctx s with
      | (Ok va, s1) =>
          match drive run n' m i ctx (mk_iter i ctx) None (fun _ => negb (noncons_ok i)) 0 [] s1 with
          | (Ok _, acc, _, s2) =>
              (Ok (mapv m (fun a0 =>
                     fold_left (fun acc it =>
                       VTag k (VPair (VPair acc (item_val it))
                                     (VPair (vspan (spn (cur s) (item_after it))) (VNum (item_ust it)))))
                       (rev acc) a0) va), s2)
          | (res, _, _, s2) => (res, s2)
          end
      | res => res
      end
  | Foldr i b k =>
      match drive run n' m i ctx (mk_iter i ctx) None (fun _ => negb (noncons_ok i)) 0 [] s with
      | (Ok _, acc, _, s1) =>
          match run m b ctx s1 with
          | (Ok vb, s2) =>
              (Ok (mapv m (fun b0 => fold_left (fun acc it => VTag k (VPair (item_val it) acc)) acc b0) vb), s2)
          | res => res
          end
      | (res, _, _, s1) => (res, s1)
      end
  | FoldrWith i b k =>
      match drive run n' m i ctx (mk_iter i ctx) None (fun _ => negb (noncons_ok i)) 0 [] s with
      | (Ok _, acc, _, s1) =>
          match run m b ctx s1 with
          | (Ok vb, s2) =>
              (Ok (mapv m (fun b0 =>
                     fold_left (fun acc it =>
                       VTag k (VPair (VPair (item_val it) acc)
                                     (VPair (vspan (spn (item_before it) (cur s2))) (VNum (ust s2)))))
                       acc b0) vb), s2)
          | res => res
          end
      | (res, _, _, s1) => (res, s1)
      end
  | RecoverVia a b =>
      let before := save s in
      match run m a ctx s with
      | (Err, s1) =>
          let s2 := rewind s1 before in
          match alt s2 with
          | None => (Panic PUnwrapRecovery, s2)
          | Some a0 =>
              match run m b ctx (set_alt s2 None) with
              | (Ok v, s3) => (Ok v, emit s3 (cur s3) (snd a0))
              | (Err, s3) => (Err, rewind (set_alt s3 (Some a0)) before)
              | res => res
              end
          end
      | res => res
      end
  | RecoverSkipUntil a skip until fb =>
      let before := save s in
      match run m a ctx s with
      | (Err, s1) =>
          let s2 := rewind s1 before in
          match alt s2 with
          | None => (Panic PUnwrapRecovery, s2)
          | Some a0 =>
              match skip_until_loop run n' m skip until fb ctx a0 (set_alt s2 None) with
              | (Err, s3) => (Err, rewind s3 before)
              | res => res
              end
          end
      | res => res
      end
  | RecoverSkipRetry a skip until =>
      let before := save s in
      match run m a ctx s with
      | (Err, s1) =>
          let s2 := rewind s1 before in
          match alt s2 with
          | None => (Panic PUnwrapRecovery, s2)
          | Some a0 =>
              match skip_retry_loop run n' m a skip until ctx a0 (set_alt s2 None) with
              | (Err, s3) => (Err, rewind s3 before)
              | res => res
              end
          end
      | res => res
      end
  | Labelled l is_ctx a =>
      let old := alt s in
      match run m a ctx (set_alt s None) with
      | (Panic k, s1) => (Panic k, s1)
      | (OutOfFuel, s1) => (OutOfFuel, s1)
      | (res, s1) =>
          let s2 := set_alt s1 old in
          let s3 :=
            match alt s1 with
            | Some (p, e) =>
                let e' := if Nat.eqb p (cur s) then label_with K l e
                          else if andb is_ctx (Nat.ltb (cur s) p) then in_context K l (spn (cur s) p) e
                          else e in
                alt_err s2 p e'
            | None => s2
            end in
          let s4 :=
            if is_ctx then
              set_sec s3 (firstn (length (sec s)) (sec s3)
                          ++ map (ctxify l (cur s)) (skipn (length (sec s)) (sec s3)))
            else s3 in
          (res, s4)
      end
  | MapErr k a =>
      let old := alt s in
      match run m a ctx (set_alt s None) with
      | (Err, s1) =>
          match alt s1 with
          | None => (Panic PUnwrapMapErr, s1)
          | Some (p, e) => (Err, alt_err (set_alt s1 old) p (map_err_fn K k e))
          end
      | (Ok v, s1) =>
          if q_maperr_drop Q then (Ok v, s1)     (* the sheltered alt is not restored *)
          else (Ok v, join_alt (set_alt s1 old) (alt s1))
      | res => res
      end
  | WithCtx c a => run m a (with_ctx ctx c) s
  | IgnoreWithCtx a b =>
      match run Emit a ctx s with
      | (Ok va, s1) => run m b (with_ctx ctx (getv va)) s1
      | res => res
      end
  | ThenWithCtx a b =>
      match run Emit a ctx s with
      | (Ok va, s1) =>
          match run m b (with_ctx ctx (getv va)) s1 with
          | (Ok vb, s2) => (Ok (mapv m (fun x => VPair (getv va) x) vb), s2)
          | res => res
          end
      | res => res
      end
  | MapCtx f a => run m a (with_ctx ctx (ap1 f (cval ctx))) s
  | JustCfg _ => just_go m (val_toks (cval ctx)) s
  | Memo id a =>
      if negb (memo_on Q) then
        (* the table switched off: what remains of Memoized::go is the shelter - the parser runs on an empty register and
           its pending error is merged back into the sheltered one *)
        match run m a ctx (set_alt s None) with
        | (Err, s1) => (Err, join_alt (set_alt s1 (alt s)) (alt s1))
        | (Ok v, s1) => (Ok v, join_alt (set_alt s1 (alt s)) (alt s1))
        | res => res
        end
      else
      match memo_get (memo s) (cur s) id with
      | Some (Some (Some (p, e))) =>             (* cached failure with its error *)
          (* (memo_strict: a hit with less fuel than the cached run had is no answer) *)
          if andb (memo_strict Q) (Nat.ltb n' (memo_fuel (memo s) (cur s) id)) then (OutOfFuel, s) else
          (Err, alt_err s (if q_memo_take Q then cur s else p) e)
      | Some _ =>                                (* in progress (left recursion) or cached failure without error *)
          if memo_strict Q then (Panic PLeftRec, s) else
          (Err, alt_ef s [] None (spn (cur s) (cur s)))
      | None =>
          let s0 := set_memo s (memo_put (memo s) (cur s) id None n') in
          if q_memo_take Q then
            match run m a ctx s0 with
            | (Err, s1) => (Err, set_memo (set_alt s1 None) (memo_put (memo s1) (cur s) id (Some (alt s1)) n'))
            | (Ok v, s1) => (Ok v, set_memo s1 (memo_del (memo s1) (cur s) id))
            | res => res
            end
          else
            (* shelter: the inner parser runs on an empty register; its pending error is cached and merged back *)
            match run m a ctx (set_alt s0 None) with
            | (Err, s1) =>
                (Err, set_memo (join_alt (set_alt s1 (alt s)) (alt s1)) (memo_put (memo s1) (cur s) id (Some (alt s1)) n'))
            | (Ok v, s1) => (Ok v, set_memo (join_alt (set_alt s1 (alt s)) (alt s1)) (memo_del (memo s1) (cur s) id))
            | res => res
            end
      end
  | Rec a => run m a (mkEnv (cval ctx) (a :: crec ctx)) s
  | Var k =>
      match nth_error (crec ctx) k with
      | Some a => run m a (mkEnv (cval ctx) (skipn k (crec ctx))) s
      | None => (Panic 98, s)                    (* unbound recursive reference: ill-formed grammar *)
      end
  | Pratt atom ops => pratt_go run n' m atom ops ctx 0 s
  | GroupArr gs => group_loop run m gs ctx [] s
  | WithState k a =>
      (* combinator.rs WithState::go: the sub-parser sees a clone of the given state, which receives the on_token calls
         of what it consumes; the outer state comes back untouched.  The user state is then no longer a function of the
         position, which the specification assumes: like nested_in this construct is only available in the extended
         configuration ([nested Q] set), the one tied to the code by the correspondence run *)
      match nested Q with
      | None => (Panic 96, s)
      | Some _ => match run m a ctx (set_ust s k) with (r, s1) => (r, set_ust s1 (ust s)) end
      end
  | Skip k => (Ok (bindv m VUnit), skip_loop k s)
  | ExtWrap a =>
      (* extension.rs Ext::go: M::choose(parse, check) = InputRef::parse / InputRef::check of the wrapped parser in the
         current mode; on failure the whole pending error is TAKEN and re-recorded at the position before the Ext *)
      match run m a ctx s with
      | (Err, s1) =>
          match alt s1 with
          | None => (Panic PUnwrapInputRef, s1)
          | Some (_, e) => (Err, alt_err (set_alt s1 None) (cur s) e)
          end
      | res => res
      end
  | Padded ws a =>
      (* text.rs Padded::go: skip_while, the parser in the current mode, skip_while; a failure leaves everything as it is *)
      match run m a ctx (skip_while (length toks) ws s) with
      | (Ok v, s1) => (Ok v, skip_while (length toks) ws s1)
      | res => res
      end
  | NestedIn a =>
      match nested Q with
      | None => (Panic 97, s)
      | Some f =>
          let before := save s in
          match next s with
          | (Some t, s1) =>
              match f t with
              | Some inner => nested_glue (inner (ust s1) m (ThenIgnore a End) ctx) s1
              | None => (Err, alt_ef (rewind s1 before) [pSomethingElse] (Some t) (spn (cur s) (cur s1)))
              end
          | (None, s1) => (Err, alt_ef (rewind s1 before) [pSomethingElse] None (spn (cur s) (cur s1)))
          end
      end
  end
  end.

(* ---------- top level: Parser::parse / Parser::check (lib.rs) ---------- *)
Definition init_st : st := mkSt 0 [] None 0%N [].

Inductive top_result :=
| TRes (out : option (option val)) (errs : list err)     (* ParseResult { output, errs } *)
| TPanic (site : nat)
| TOOF.

Definition run_top (n : nat) (m : mode) (g : G) : top_result :=
  match go n m (ThenIgnore g End) env0 init_st with
  | (Ok v, s) => TRes (Some v) (map snd (sec s))
  | (Err, s) =>
      let a := match alt s with
               | Some (_, e) => e
               | None => expected_found K [] None (spn (cur s) (cur s))
               end in
      TRes None (map snd (sec s) ++ [a])
  | (Panic k, _) => TPanic k
  | (OutOfFuel, _) => TOOF
  end.

End Machine.
