(* Syntax of the chumsky model: tokens, values, the closure language, grammars.
   No proofs in Model/*.v, so the model evaluates and extracts even when a proof breaks. *)
From Coq Require Export List Arith NArith Bool Lia.
Export ListNotations.

Definition tok := N.
Definition pos := nat.              (* token index *)
Definition span := (nat * nat)%type.

(* ---------- universal output values ---------- *)
Inductive val :=
| VUnit
| VTok (t : tok)
| VNat (n : nat)
| VNum (n : N)                      (* a user-state observation *)
| VPair (a b : val)
| VList (l : list val)
| VOpt (o : option val)
| VSpan (s e : nat)
| VSlice (s e : nat)               (* token-index range of a to_slice result *)
| VTag (k : nat) (v : val)
| VNew.                              (* a freshly created drop-tracked output (C19) *)

(* ---------- closure language (interpreted identically by the Rust harness) ---------- *)
Inductive fn1 := FId | FTag (k : nat) | FConst (n : nat) | FFst | FSnd | FDup | FNew.

Fixpoint first_tok (v : val) : option tok :=
  match v with
  | VTok t => Some t
  | VPair a b => match first_tok a with Some t => Some t | None => first_tok b end
  | VList (x :: _) => first_tok x
  | VOpt (Some x) => first_tok x
  | VTag _ x => first_tok x
  | _ => None
  end.

Definition ap1 (f : fn1) (v : val) : val :=
  match f with
  | FId => v
  | FTag k => VTag k v
  | FConst n => VNat n
  | FFst => match v with VPair a _ => a | _ => v end
  | FSnd => match v with VPair _ b => b | _ => v end
  | FDup => VPair v v
  | FNew => VNew
  end.

Fixpoint list_eqN (a b : list tok) : bool :=
  match a, b with
  | [], [] => true
  | x :: a', y :: b' => andb (N.eqb x y) (list_eqN a' b')
  | _, _ => false
  end.

(* the tokens a context value denotes, for just(..).configure(|cfg, ctx| cfg.seq(ctx)) *)
Fixpoint val_toks (v : val) : list tok :=
  match v with
  | VTok t => [t]
  | VList l => flat_map val_toks l
  | VPair a b => val_toks a ++ val_toks b
  | VOpt (Some x) => val_toks x
  | VTag _ x => val_toks x
  | _ => []
  end.

Inductive pred := PTrue | PFalse | PTokIn (ts : list tok) | PTokNotIn (ts : list tok)
| PFun (f : tok -> bool)            (* an arbitrary character class (only in theorems; case files use PTokIn) *)
| PToksAre (ts : list tok).         (* the tokens inside the value are exactly ts *)

Fixpoint memN (t : tok) (l : list tok) : bool :=
  match l with [] => false | x :: r => if N.eqb t x then true else memN t r end.

Definition holds (p : pred) (v : val) : bool :=
  match p with
  | PTrue => true
  | PFalse => false
  | PTokIn ts => match first_tok v with Some t => memN t ts | None => false end
  | PTokNotIn ts => match first_tok v with Some t => negb (memN t ts) | None => true end
  | PFun f => match first_tok v with Some t => f t | None => false end
  | PToksAre ts => list_eqN (val_toks v) ts
  end.

(* map_with closures: what they read from MapExtra *)
Inductive mw := MWSpan | MWState | MWCtx | MWAll | MWSlice.

Definition apmw (f : mw) (v : val) (sp : span) (sl : span) (ust : N) (ctx : val) : val :=
  match f with
  | MWSpan => VPair v (VSpan (fst sp) (snd sp))
  | MWState => VPair v (VNum ust)
  | MWCtx => VPair v ctx
  | MWAll => VPair v (VPair (VSpan (fst sp) (snd sp)) (VPair (VNum ust) ctx))
  | MWSlice => VPair v (VSlice (fst sl) (snd sl))
  end.

(* the number a context value denotes, for repeated().configure(|cfg, ctx| cfg.exactly(ctx)) *)
Definition val_count (v : val) : nat := length (val_toks v).

(* the items of a container output, for a.into_iter() (the harness converts a's universal output to a Vec the same way) *)
Definition val_items (v : val) : list val :=
  match v with
  | VList l => l
  | VOpt (Some x) => [x]
  | VOpt None => []
  | VUnit => []
  | _ => [v]
  end.

(* custom(|inp| ..) parsers written against InputRef's public API: a straight-line program (interpreted identically by the
   Rust harness).  Its output is the list of the values pushed. *)
Inductive cop :=
| CNext            (* inp.next():     push the token (or Unit at the end of input) *)
| CNextRef         (* inp.next_ref(): the same by reference (BorrowInput kinds; elsewhere inp.next()) *)
| CPeek            (* inp.peek():     push the token ahead (or Unit) without consuming it *)
| CSkip            (* inp.skip() *)
| CSave            (* push inp.save() on the program's checkpoint stack *)
| CRewind          (* pop a checkpoint and inp.rewind(it) (nothing when the stack is empty) *)
| CExpect (t : tok) (* inp.next() must be t, otherwise return Err(custom k, inp.span_since(&start)) without rewinding *)
| CSpan            (* push inp.span_since(&start) *)
| CState.          (* push the user state as the inspector has it now *)

(* collect containers *)
Inductive ckind := CVec | CCount | CUnit.

(* ---------- grammars ---------- *)
Inductive G :=
(* primitives *)
| End | Empty | Any
| Just (ts : list tok)
| OneOf (ts : list tok) | NoneOf (ts : list tok)
| Select (p : pred) (f : fn1)
| Custom (ts : list tok) (k : nat)
(* output shaping *)
| Map (f : fn1) (a : G)
| MapWith (f : mw) (a : G)
| To (n : nat) (a : G)
| Ignored (a : G)
| ToSpan (a : G)
| ToSlice (a : G)
| Filter (p : pred) (a : G)
| TryMap (p : pred) (f : fn1) (k : nat) (a : G)
| TryMapWith (p : pred) (f : fn1) (k : nat) (a : G)
| Validate (p : pred) (k : nat) (a : G)
(* sequencing *)
| Then (a b : G) | IgnoreThen (a b : G) | ThenIgnore (a b : G)
| DelimitedBy (a l r : G) | PaddedBy (a p : G)
| Group (gs : list G)
(* choice / option / lookahead *)
| Or (a b : G)
| Choice (gs : list G)              (* choice((..)) tuple form *)
| ChoiceVec (gs : list G)           (* choice(vec/array/slice) form *)
| OrNot (a : G) | Not (a : G) | AndIs (a b : G) | Rewind (a : G)
(* iteration *)
| RepUnit (i : IT)                  (* repeated()/separated_by() used as a unit parser *)
| Collect (c : ckind) (i : IT)
| CollectExactly (n : nat) (i : IT)
| Foldl (a : G) (i : IT) (k : nat)
| Foldr (i : IT) (b : G) (k : nat)
| FoldlWith (a : G) (i : IT) (k : nat)
| FoldrWith (i : IT) (b : G) (k : nat)
(* recovery *)
| RecoverVia (a b : G)
| RecoverSkipUntil (a skip until : G) (fb : nat)
| RecoverSkipRetry (a skip until : G)
(* error decoration *)
| Labelled (l : nat) (is_ctx : bool) (a : G)
| MapErr (k : nat) (a : G)
(* context *)
| WithCtx (c : val) (a : G)
| IgnoreWithCtx (a b : G)
| ThenWithCtx (a b : G)
| MapCtx (f : fn1) (a : G)
| JustCfg (ts : list tok)           (* just(ts).configure(|cfg, ctx| cfg.seq(toks ctx)) *)
(* memoization and recursion *)
| Memo (id : nat) (a : G)           (* a.memoized(); id stands for the address of the inner parser *)
| Rec (a : G)                       (* recursive(|p| a) / Recursive::declare + define; Var 0 is p *)
| Var (k : nat)                     (* de Bruijn reference to the k-th enclosing Rec *)
| Pratt (atom : G) (ops : list pop) (* atom.pratt(ops): operators are tried in list order *)
| GroupArr (gs : list G)            (* group([..; N]): the array form (MaybeUninit storage, see Model/Ledger.v) *)
| NestedIn (a : G)                  (* a.nested_in(select_ref! { Group(children) => children as input }) *)
| WithState (k : N) (a : G)         (* a.with_state(HState::seeded(k)): a runs on a fresh copy of that state, the outer state is untouched *)
| Skip (n : nat)                    (* custom(|inp| { for _ in 0..n { inp.skip() } Ok(()) }): InputRef::skip, n times *)
| ExtWrap (a : G)                   (* Ext(P) with ExtParser::parse = inp.parse(&a) and a separate ExtParser::check = inp.check(&a) *)
| Prog (ops : list cop) (k : nat)    (* custom(|inp| ..) running the program ops; k = the error it fails with *)
| Padded (ws : list tok) (a : G)    (* a.padded(): InputRef::skip_while(is_whitespace) before and after a; ws = the whitespace characters
                                       (text::Char::is_whitespace restricted to the alphabet in use); skip_while records no error *)
with pop :=
| PInfix (rassoc : bool) (bp : nat) (og : G) (k : nat)
| PPrefix (bp : nat) (og : G) (k : nat)
| PPostfix (bp : nat) (og : G) (k : nat)
with IT :=
| IRep (a : G) (lo : nat) (hi : option nat)
| ISep (a sep : G) (lo : nat) (hi : option nat) (lead trail : bool)
| IEnum (i : IT)
| IMap (f : fn1) (i : IT)
| IMapWith (f : mw) (i : IT)
| IOrNot (a : G)
| IRepCfg (a : G) (lo : nat) (hi : option nat) (ck : nat)
| IIntoIter (a : G)
| IThen (i j : IT).                (* a.into_iter(): a's output (a container) is produced by make_iter, `next` hands out its items *)
                                    (* IThen i j: i.then(j) used as an iterable: the items of i, then (a fresh) j's *)
    (* a.repeated().at_least(lo).at_most(hi).configure(|cfg, ctx| ..) with n = count ctx and
       ck = 0: cfg.exactly(n); 1: cfg.at_least(n); 2: cfg.at_most(n); otherwise cfg unchanged *)

(* the lexical environment of a parser: the context value (ParserExtra::Context) and the
   enclosing recursive definitions *)
Record env := mkEnv { cval : val; crec : list G }.
Definition env0 : env := mkEnv VUnit [].
Definition with_ctx (e : env) (c : val) : env := mkEnv c (crec e).

(* binding powers (pratt.rs Associativity::left_power / right_power) *)
Definition lpow (r : bool) (bp : nat) : nat := if r then 2 * bp + 1 else 2 * bp.
Definition rpow (r : bool) (bp : nat) : nat := if r then 2 * bp else 2 * bp + 1.
(* the fold closures of the generated operator tables *)
Definition pfold_infix (k : nat) (l op r : val) (sp : span) : val := VTag k (VList [l; op; r; VSpan (fst sp) (snd sp)]).
Definition pfold_prefix (k : nat) (op r : val) (sp : span) : val := VTag k (VList [op; r; VSpan (fst sp) (snd sp)]).
Definition pfold_postfix (k : nat) (l op : val) (sp : span) : val := VTag k (VList [l; op; VSpan (fst sp) (snd sp)]).

(* the bounds in force after configuration: what the closure set overrides the static bound *)
(* ck: 0 exactly(n), 1 at_least(n), 2 at_most(n), 3 nothing set, through configure; 4..7 the same through try_configure
   (closure returns Ok); 8: try_configure whose closure returns Err(custom lo) when the context holds no token, Ok(exactly(n)) otherwise *)
(* 9: cfg.at_most(n).at_least(n / 2), 10: cfg.at_least(n / 2).at_most(n) - the two builder orders of the same bounds *)
Definition cfg_lo (ck lo n : nat) : nat := match ck with 0 | 1 | 4 | 5 | 8 => n | 9 | 10 => Nat.div2 n | _ => lo end.
Definition cfg_hi (ck : nat) (hi : option nat) (n : nat) : option nat := match ck with 0 | 2 | 4 | 6 | 8 | 9 | 10 => Some n | _ => hi end.
Definition cfg_fails (ck n : nat) : bool := andb (Nat.eqb ck 8) (Nat.eqb n 0).

(* derived forms, as in Rust *)
Definition Lazy (a : G) : G := ThenIgnore a (RepUnit (IRep Any 0 None)).
