(* C12, "nesting depth is limited by memory, not by the native stack": recursive.rs runs every level of a recursive parser
   through `stacker::maybe_grow(RED_ZONE, SEGMENT, f)`: if fewer than RED_ZONE bytes of the current stack segment are left, f
   runs on a fresh segment of SEGMENT bytes, otherwise where it is.  Between two such checks a level of the grammar uses its
   frame (everything the combinators between two passes through Recursive::go put on the stack). *)
From Coq Require Export List NArith Bool Lia.
Export ListNotations.

(* the constants of recursive.rs (the check reads them from /repo/src/recursive.rs and compares) *)
Definition RED_ZONE : N := 65536.
Definition SEGMENT : N := 1048576.

(* one level: the growth check, then the frame; None = the frame does not fit what is left (stack overflow) *)
Definition enter (zone seg : N) (left : N) (frame : N) : option (N * bool) :=
  let fresh := N.ltb left zone in
  let avail := if fresh then seg else left in
  if N.leb frame avail then Some ((avail - frame)%N, fresh) else None.

(* descending through the levels of a nest, outermost first: what is left in the current segment, and how many segments
   were allocated on the way *)
Fixpoint descend (zone seg : N) (frames : list N) (left : N) (segs : nat) : option (N * nat) :=
  match frames with
  | [] => Some (left, segs)
  | f :: r =>
      match enter zone seg left f with
      | Some (left', fresh) => descend zone seg r left' (if fresh then S segs else segs)
      | None => None
      end
  end.
