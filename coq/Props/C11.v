(* C11 - Memoization is transparent and makes left recursion terminate.
   In the specification memoized() is the identity.  The machine with memo tables (flag memo_on,
   the configuration that is tied to the code by the correspondence run) is compared with that
   specification on every generated case; the theorems below are about the machine without tables
   and about the table-free reading.  A general proof that the table-using machine agrees with the
   table-free one (for injective keys and no left recursion) is not done; see DESIGN.md section 6. *)
From Chum Require Import Corollaries.

(* memoized() does not change the specification: acceptance, output, extent, emissions, pending error *)
Theorem C11_memoized_is_identity_in_the_specification :
  forall K toks spn n id x ctx p a,
    sem K toks spn (S n) (Memo id x) ctx p a = sem K toks spn n x ctx p a.
Proof. reflexivity. Qed.

(* the table-free machine refines that specification also through Memo nodes *)
Theorem C11_table_free_machine_is_specified :
  forall K toks spn n m id x ctx s v s',
    go no_quirks K toks spn n m (Memo id x) ctx s = (Ok v, s') -> inv toks s ->
    exists v' ems a', sem K toks spn n (Memo id x) ctx (cur s) (alt s) = Some (Some (v', cur s', ems), a') /\ v = bindv m v'.
Proof. intros K toks spn n m id x. exact (machine_ok_is_peg K toks spn n m (Memo id x)). Qed.

(* with tables: a left-recursive grammar whose recursive step is memoized terminates (fuel 40 suffices
   for these inputs) where the table-free reading diverges; and on a grammar without left recursion
   the table-using machine returns what the table-free one returns *)
Example C11_example :
  let on := mkQ false false false false false false false false true None in
  let lr := Rec (Or (Memo 1 (Then (Var 0) (Then (Just [43%N]) (Just [97%N])))) (Just [97%N])) in
  fst (go on KRich [97; 43; 97]%N (fun a b => (a, b)) 40 Check lr env0 init_st) = Ok None
  /\ sem KRich [97; 43; 97]%N (fun a b => (a, b)) 40 lr env0 0 None = None
  /\ let g := Then (Or (Memo 1 (Then (Just [97%N]) (Just [98%N]))) (Memo 2 (Just [97%N]))) (Memo 3 (OrNot (Just [99%N]))) in
     run_top on KRich [97; 99]%N (fun a b => (a, b)) 20 Emit g = run_top no_quirks KRich [97; 99]%N (fun a b => (a, b)) 20 Emit g.
Proof. repeat split; vm_compute; reflexivity. Qed.

(* the unchanged code (flag q_memo_take) loses the pending error of a failing memoized parser: finding F5 *)
Example C11_F5_refuted :
  let take := mkQ false false false false false false false true true None in
  let g := Or (Then (Just [97%N]) (Memo 1 (Just [98%N]))) (Just [120%N]) in
  run_top take KRich [97; 99]%N (fun a b => (a, b)) 20 Emit g
    <> run_top no_quirks KRich [97; 99]%N (fun a b => (a, b)) 20 Emit g.
Proof. vm_compute. discriminate. Qed.

Print Assumptions C11_memoized_is_identity_in_the_specification.
Print Assumptions C11_table_free_machine_is_specified.
