(* C11 - Memoization is transparent and makes left recursion terminate.

   The machine WITH memo tables refines the specification (Proofs/MemoG.v, [refine_memo]: the global induction, every entry
   of the table stays valid through every combinator), for every grammar in which nothing changes the context (finding F18 is
   the failure of the theorem beyond that) and every memoized() has its own id (clones share it), every input, error type,
   mode and start state, on every run that is not cut off by left recursion.  Hence parse / check with tables = without
   tables; and that machine is the machine tied to the code wherever it answers (Proofs/StrictOn.v, [strict_is_on]).  In the specification memoized() is Memoized::go without its table - the parser runs on an empty register and its
   pending error is merged back - which is the identity for parsers without recover_with (with it: finding F19).
   The theorems are about the machine [Q_strict] in which a left-recursive re-entry is flagged ([Panic PLeftRec]) instead of
   cut off, and a cached entry is only used with at least the fuel of the run that produced it (both proof devices, see
   Model/Machine.v); the correspondence check also runs both side by side.  MemoP.v keeps the memoization step for an abstract sub-interpreter. *)
From Chum Require Import Corollaries MemoP MemoG StrictOn Erase EraseM.

(* THE GLOBAL THEOREM: the table-using machine refines the specification and keeps every table entry valid *)
Theorem C11_machine_with_memo_tables_refines_the_specification :
  forall K toks spn mt c0 n m g ctx s r s1,
    go Q_strict K toks spn n m g ctx s = (r, s1) ->
    inv toks s -> TV K toks spn mt c0 (memo s) -> WF mt c0 g ctx ->
    postm K toks spn mt c0 m s r s1 (sem K toks spn n g ctx (cur s) (alt s)).
Proof. exact refine_memo. Qed.

(* parse / check with memo tables = without: same output; on success every reported error, on failure the primary error *)
Theorem C11_memo_tables_are_transparent_at_the_top_level :
  forall K toks spn mt n m g o errs o' errs',
    wfm mt g [] ->
    run_top Q_strict K toks spn n m g = TRes o errs -> run_top no_quirks K toks spn n m g = TRes o' errs' ->
    o = o' /\ (o <> None -> errs = errs') /\
    last errs (expected_found K [] None (spn 0 0)) = last errs' (expected_found K [] None (spn 0 0)).
Proof. exact memo_run_top_transparent. Qed.

(* the flagged machine IS the machine tied to the code wherever it answers (no left-recursive cut, enough fuel) *)
Theorem C11_the_flagged_machine_is_the_code_machine :
  forall K toks spn n m g ctx s r s1,
    go Q_strict K toks spn n m g ctx s = (r, s1) -> answered r -> go Q_on K toks spn n m g ctx s = (r, s1).
Proof. exact strict_is_on. Qed.

(* so: the code's machine, with its memo tables, returns what the machine without tables returns *)
Theorem C11_code_machine_with_tables_equals_without :
  forall K toks spn mt n m g o errs o' errs',
    wfm mt g [] ->
    run_top Q_strict K toks spn n m g = TRes o errs ->          (* the run is not cut off by left recursion *)
    run_top no_quirks K toks spn n m g = TRes o' errs' ->
    run_top Q_on K toks spn n m g = TRes o errs /\
    o = o' /\ (o <> None -> errs = errs') /\
    last errs (expected_found K [] None (spn 0 0)) = last errs' (expected_found K [] None (spn 0 0)).
Proof.
  intros K toks spn mt n m g o errs o' errs' Hw H H'. split; [exact (strict_run_top_is_on K toks spn n m g o errs H)|].
  exact (memo_run_top_transparent K toks spn mt n m g o errs o' errs' Hw H H').
Qed.

(* and from any state: verdict, value, end position, reported errors, pending error and user state *)
Theorem C11_memo_tables_are_transparent :
  forall K toks spn mt c0 n m g ctx s r s1 r' s1',
    inv toks s -> TV K toks spn mt c0 (memo s) -> WF mt c0 g ctx ->
    go Q_strict K toks spn n m g ctx s = (r, s1) -> go no_quirks K toks spn n m g ctx s = (r', s1') ->
    answered r -> answered r' ->
    r = r' /\ alt s1 = alt s1' /\ (r <> Err -> cur s1 = cur s1' /\ sec s1 = sec s1' /\ ust s1 = ust s1').
Proof. exact memo_tables_transparent. Qed.

(* In the specification memoized() is what Memoized::go is without its table: the parser runs on an empty register and its
   pending error is merged back.  That does not change anything - acceptance, output, extent, emissions, pending error -
   for a parser without recover_with / extension parsers, wherever it answers (with recover_with inside, the reported error
   differs: finding F19) *)
Theorem C11_memoized_is_identity_in_the_specification :
  forall K toks spn n id x ctx p a o new, norec x = true -> envok ctx -> wfr a ->
    sem K toks spn n x ctx p None = Some (o, new) ->
    sem K toks spn (S n) (Memo id x) ctx p a = sem K toks spn n x ctx p a.
Proof. exact sem_memo_identity. Qed.

(* the table-free machine refines that specification also through Memo nodes *)
Theorem C11_table_free_machine_is_specified :
  forall K toks spn n m id x ctx s v s',
    go no_quirks K toks spn n m (Memo id x) ctx s = (Ok v, s') -> inv toks s ->
    exists v' ems a', sem K toks spn n (Memo id x) ctx (cur s) (alt s) = Some (Some (v', cur s', ems), a') /\ v = bindv m v'.
Proof. intros K toks spn n m id x. exact (machine_ok_is_peg K toks spn n m (Memo id x)). Qed.

(* Register equivariance of the specification: for grammars without recover_with / extension parsers, running from the
   register (join a r) gives the same outcome and the register (join a r').  With r = None: running a parser on an empty
   register and merging the result back -- what memoized() does around its parser -- is running it on the register. *)
Theorem C11_running_sheltered_and_merging_back_is_running_directly :
  forall K toks spn n g ctx p a o new, norec g = true -> envok ctx -> wfr a ->
    sem K toks spn n g ctx p None = Some (o, new) ->
    sem K toks spn n g ctx p a = Some (o, Sem.join K a new).
Proof. exact shelter_eq. Qed.

(* the memoization step, first visit: transparent, and a failure is cached as a valid entry *)
Theorem C11_first_visit_is_transparent_and_caches_a_valid_entry :
  forall K toks spn n srun,
    R toks (go Q_on K toks spn n) srun -> Lift K srun ->
    forall m id x ctx s r s1,
      norec x = true -> envok ctx -> wfr (alt s) -> inv toks s ->
      memo_get (memo s) (cur s) id = None ->
      go Q_on K toks spn (S n) m (Memo id x) ctx s = (r, s1) ->
      post toks m s r s1 (srun x ctx (cur s) (alt s)) /\
      (r = Err -> exists new, memo_get (memo s1) (cur s) id = Some (Some new) /\ entry_valid srun x ctx (cur s) new).
Proof. exact memo_miss_transparent. Qed.

(* the memoization step, later visit: a valid cached failure is exactly what re-running the parser would give *)
Theorem C11_valid_entry_replays_what_a_rerun_gives :
  forall K toks spn n srun,
    Lift K srun ->
    forall m id x ctx s r s1 new,
      norec x = true -> envok ctx -> wfr (alt s) ->
      memo_get (memo s) (cur s) id = Some (Some (Some new)) ->
      entry_valid srun x ctx (cur s) (Some new) ->
      go Q_on K toks spn (S n) m (Memo id x) ctx s = (r, s1) ->
      r = Err /\ err_post s s1 (srun x ctx (cur s) (alt s)).
Proof. exact memo_hit_transparent. Qed.

(* THE WHOLE-GRAMMAR FORM.  [erase g] is g with every memoized() removed - under any combinator, inside iterables, operator
   tables and recursive definitions.  In the specification: wherever g answers, erase g gives the same answer (verdict, value,
   end position, emitted errors, pending error) from every position and register, and no memoized() is left in it *)
Theorem C11_erasing_every_memoized_changes_nothing_in_the_specification :
  forall K toks spn n g ctx p a x, norec g = true -> envok ctx -> wfr a ->
    sem K toks spn n g ctx p a = Some x ->
    sem K toks spn n (erase g) (eenv ctx) p a = Some x /\ memo_free (erase g) = true.
Proof. exact erase_memo_transparent. Qed.

(* and for the machines: the code's machine on g, with its memo tables, returns what the machine returns on the grammar with
   no memoized() at all (same output; on success every reported error, on failure the primary error) *)
Theorem C11_code_with_memo_tables_equals_the_grammar_without_memoized :
  forall K toks spn mt n m g o errs o' errs',
    wfm mt g [] -> norec g = true ->
    run_top Q_strict K toks spn n m g = TRes o errs ->          (* the run is not cut off by left recursion *)
    run_top no_quirks K toks spn n m (erase g) = TRes o' errs' ->
    run_top Q_on K toks spn n m g = TRes o errs /\
    o = o' /\ (o <> None -> errs = errs') /\
    last errs (expected_found K [] None (spn 0 0)) = last errs' (expected_found K [] None (spn 0 0)).
Proof. exact code_machine_equals_erased. Qed.

(* from any state: verdict, value, end position, reported errors, pending error and user state *)
Theorem C11_machine_with_tables_equals_machine_on_erased_grammar :
  forall K toks spn mt c0 n m g ctx s r s1 r' s1',
    inv toks s -> TV K toks spn mt c0 (memo s) -> WF mt c0 g ctx ->
    norec g = true -> envok ctx -> wfr (alt s) ->
    go Q_strict K toks spn n m g ctx s = (r, s1) -> go no_quirks K toks spn n m (erase g) (eenv ctx) s = (r', s1') ->
    answered r -> answered r' ->
    r = r' /\ alt s1 = alt s1' /\ (r <> Err -> cur s1 = cur s1' /\ sec s1 = sec s1' /\ ust s1 = ust s1').
Proof. exact memo_erased_transparent. Qed.

(* non-vacuity: the class example below is in the theorem's class, its erasure is the grammar one would write without
   memoized(), and both machines answer *)
Example C11_erase_example :
  let inner := Just [97%N] in
  let g := Rec (Or (Then (Memo 1 inner) (Memo 2 (Then (Memo 1 inner) (OrNot (Var 0))))) (Memo 1 inner)) in
  norec g = true /\ erase g = Rec (Or (Then inner (Then inner (OrNot (Var 0)))) inner) /\
  run_top Q_strict KRich [97; 97; 97]%N (fun a b => (a, b)) 30 Emit g
    = run_top no_quirks KRich [97; 97; 97]%N (fun a b => (a, b)) 30 Emit (erase g) /\
  run_top Q_strict KRich [97; 98]%N (fun a b => (a, b)) 30 Emit g
    = run_top no_quirks KRich [97; 98]%N (fun a b => (a, b)) 30 Emit (erase g) /\
  exists o errs, run_top Q_strict KRich [97; 98]%N (fun a b => (a, b)) 30 Emit g = TRes o errs.
Proof. repeat split; try (vm_compute; reflexivity). vm_compute. do 2 eexists. reflexivity. Qed.

(* with tables: a left-recursive grammar whose recursive step is memoized terminates (fuel 40 suffices
   for these inputs) where the table-free reading diverges; and on a grammar without left recursion
   the table-using machine returns what the table-free one returns *)
(* non-vacuity of the global theorem's class: a grammar with nested, adjacent and cloned memoized parsers under recursion *)
Example C11_class_example :
  let inner := Just [97%N] in
  let g := Rec (Or (Then (Memo 1 inner) (Memo 2 (Then (Memo 1 inner) (OrNot (Var 0))))) (Memo 1 inner)) in
  let mt := fun id => match id with
                      | 1 => Some (inner, [Or (Then (Memo 1 inner) (Memo 2 (Then (Memo 1 inner) (OrNot (Var 0))))) (Memo 1 inner)])
                      | 2 => Some (Then (Memo 1 inner) (OrNot (Var 0)), [Or (Then (Memo 1 inner) (Memo 2 (Then (Memo 1 inner) (OrNot (Var 0))))) (Memo 1 inner)])
                      | _ => None end in
  wfm mt g [] /\
  run_top Q_strict KRich [97; 97; 97]%N (fun a b => (a, b)) 30 Emit g = run_top no_quirks KRich [97; 97; 97]%N (fun a b => (a, b)) 30 Emit g.
Proof. split; [cbn; repeat split; reflexivity | vm_compute; reflexivity]. Qed.

Example C11_example :
  let on := mkQ false false false false false false false false true false None in
  let lr := Rec (Or (Memo 1 (Then (Var 0) (Then (Just [43%N]) (Just [97%N])))) (Just [97%N])) in
  fst (go on KRich [97; 43; 97]%N (fun a b => (a, b)) 40 Check lr env0 init_st) = Ok None
  /\ sem KRich [97; 43; 97]%N (fun a b => (a, b)) 40 lr env0 0 None = None
  /\ let g := Then (Or (Memo 1 (Then (Just [97%N]) (Just [98%N]))) (Memo 2 (Just [97%N]))) (Memo 3 (OrNot (Just [99%N]))) in
     run_top on KRich [97; 99]%N (fun a b => (a, b)) 20 Emit g = run_top no_quirks KRich [97; 99]%N (fun a b => (a, b)) 20 Emit g.
Proof. repeat split; vm_compute; reflexivity. Qed.

(* the unchanged code (flag q_memo_take) loses the pending error of a failing memoized parser: finding F5 *)
Example C11_F5_refuted :
  let take := mkQ false false false false false false false true true false None in
  let g := Or (Then (Just [97%N]) (Memo 1 (Just [98%N]))) (Just [120%N]) in
  run_top take KRich [97; 99]%N (fun a b => (a, b)) 20 Emit g
    <> run_top no_quirks KRich [97; 99]%N (fun a b => (a, b)) 20 Emit g.
Proof. vm_compute. discriminate. Qed.

Print Assumptions C11_machine_with_memo_tables_refines_the_specification.
Print Assumptions C11_memo_tables_are_transparent_at_the_top_level.
Print Assumptions C11_memo_tables_are_transparent.
Print Assumptions C11_the_flagged_machine_is_the_code_machine.
Print Assumptions C11_code_machine_with_tables_equals_without.
Print Assumptions C11_memoized_is_identity_in_the_specification.
Print Assumptions C11_table_free_machine_is_specified.
Print Assumptions C11_running_sheltered_and_merging_back_is_running_directly.
Print Assumptions C11_first_visit_is_transparent_and_caches_a_valid_entry.
Print Assumptions C11_valid_entry_replays_what_a_rerun_gives.
Print Assumptions C11_erasing_every_memoized_changes_nothing_in_the_specification.
Print Assumptions C11_code_with_memo_tables_equals_the_grammar_without_memoized.
Print Assumptions C11_machine_with_tables_equals_machine_on_erased_grammar.
