(* C11 - Memoization is transparent and makes left recursion terminate.
   In the specification memoized() is the identity.  The machine with memo tables (flag memo_on,
   the configuration that is tied to the code by the correspondence run) is compared with that
   specification on every generated case; the theorems below are about the machine without tables
   and about the table-free reading, plus the memoization step itself (Proofs/MemoP.v): for any interpreter of the
   sub-parsers that refines a specification with the register-equivariance property (which [sem] has: Proofs/Shelter.v),
   a first visit is transparent and caches a valid entry, and a visit that hits a valid entry returns what a re-run
   would.  Not proved: that every entry stays valid through the whole run (the global induction over the table-using
   machine); validity across contexts is false of the code (finding F18).  See DESIGN.md sections 6 and 10. *)
From Chum Require Import Corollaries MemoP.

(* memoized() does not change the specification: acceptance, output, extent, emissions, pending error *)
Theorem C11_memoized_is_identity_in_the_specification :
  forall K toks spn n id x ctx p a,
    sem K toks spn (S n) (Memo id x) ctx p a = sem K toks spn n x ctx p a.
Proof. reflexivity. Qed.

(* the table-free machine refines that specification also through Memo nodes *)
Theorem C11_table_free_machine_is_specified :
  forall K toks spn n m id x ctx s v s',
    go no_quirks K toks spn n m (Memo id x) ctx s = (Ok v, s') -> inv toks s ->
    exists v' ems a', sem K toks spn n (Memo id x) ctx (cur s) (alt s) = Some (Some (v', cur s', ems), a') /\ v = bindv m v'.
Proof. intros K toks spn n m id x. exact (machine_ok_is_peg K toks spn n m (Memo id x)). Qed.

(* Register equivariance of the specification: for grammars without recover_with / extension parsers, running from the
   register (join a r) gives the same outcome and the register (join a r').  With r = None: running a parser on an empty
   register and merging the result back -- what memoized() does around its parser -- is running it on the register. *)
Theorem C11_running_sheltered_and_merging_back_is_running_directly :
  forall K toks spn n g ctx p a o new, norec g = true -> envok ctx -> wfr a ->
    sem K toks spn n g ctx p None = Some (o, new) ->
    sem K toks spn n g ctx p a = Some (o, Sem.join K a new).
Proof. exact shelter_eq. Qed.

(* the memoization step, first visit: transparent, and a failure is cached as a valid entry *)
Theorem C11_first_visit_is_transparent_and_caches_a_valid_entry :
  forall K toks spn n srun,
    R toks (go Q_on K toks spn n) srun -> Lift K srun ->
    forall m id x ctx s r s1,
      norec x = true -> envok ctx -> wfr (alt s) -> inv toks s ->
      memo_get (memo s) (cur s) id = None ->
      go Q_on K toks spn (S n) m (Memo id x) ctx s = (r, s1) ->
      post toks m s r s1 (srun x ctx (cur s) (alt s)) /\
      (r = Err -> exists new, memo_get (memo s1) (cur s) id = Some (Some new) /\ entry_valid srun x ctx (cur s) new).
Proof. exact memo_miss_transparent. Qed.

(* the memoization step, later visit: a valid cached failure is exactly what re-running the parser would give *)
Theorem C11_valid_entry_replays_what_a_rerun_gives :
  forall K toks spn n srun,
    Lift K srun ->
    forall m id x ctx s r s1 new,
      norec x = true -> envok ctx -> wfr (alt s) ->
      memo_get (memo s) (cur s) id = Some (Some (Some new)) ->
      entry_valid srun x ctx (cur s) (Some new) ->
      go Q_on K toks spn (S n) m (Memo id x) ctx s = (r, s1) ->
      r = Err /\ err_post s s1 (srun x ctx (cur s) (alt s)).
Proof. exact memo_hit_transparent. Qed.

(* with tables: a left-recursive grammar whose recursive step is memoized terminates (fuel 40 suffices
   for these inputs) where the table-free reading diverges; and on a grammar without left recursion
   the table-using machine returns what the table-free one returns *)
Example C11_example :
  let on := mkQ false false false false false false false false true None in
  let lr := Rec (Or (Memo 1 (Then (Var 0) (Then (Just [43%N]) (Just [97%N])))) (Just [97%N])) in
  fst (go on KRich [97; 43; 97]%N (fun a b => (a, b)) 40 Check lr env0 init_st) = Ok None
  /\ sem KRich [97; 43; 97]%N (fun a b => (a, b)) 40 lr env0 0 None = None
  /\ let g := Then (Or (Memo 1 (Then (Just [97%N]) (Just [98%N]))) (Memo 2 (Just [97%N]))) (Memo 3 (OrNot (Just [99%N]))) in
     run_top on KRich [97; 99]%N (fun a b => (a, b)) 20 Emit g = run_top no_quirks KRich [97; 99]%N (fun a b => (a, b)) 20 Emit g.
Proof. repeat split; vm_compute; reflexivity. Qed.

(* the unchanged code (flag q_memo_take) loses the pending error of a failing memoized parser: finding F5 *)
Example C11_F5_refuted :
  let take := mkQ false false false false false false false true true None in
  let g := Or (Then (Just [97%N]) (Memo 1 (Just [98%N]))) (Just [120%N]) in
  run_top take KRich [97; 99]%N (fun a b => (a, b)) 20 Emit g
    <> run_top no_quirks KRich [97; 99]%N (fun a b => (a, b)) 20 Emit g.
Proof. vm_compute. discriminate. Qed.

Print Assumptions C11_memoized_is_identity_in_the_specification.
Print Assumptions C11_table_free_machine_is_specified.
Print Assumptions C11_running_sheltered_and_merging_back_is_running_directly.
Print Assumptions C11_first_visit_is_transparent_and_caches_a_valid_entry.
Print Assumptions C11_valid_entry_replays_what_a_rerun_gives.
