(* C01 - Combinators implement PEG semantics: sequence, ordered choice, option, lookahead.
   Only statements; every proof is `exact <lemma>`. *)
From Chum Require Import Corollaries.

(* The machine (model of the code, all known-defect flags off) accepts exactly what the PEG
   semantics accepts, with the same value and the same end position, in Emit and Check mode,
   for every grammar, context, input, error type and start state. *)
Theorem C01_accept_value_extent :
  forall K toks spn n m g ctx s v s',
    go no_quirks K toks spn n m g ctx s = (Ok v, s') -> inv toks s ->
    exists v' ems a', sem K toks spn n g ctx (cur s) (alt s) = Some (Some (v', cur s', ems), a') /\ v = bindv m v'.
Proof. exact machine_ok_is_peg. Qed.

Theorem C01_reject :
  forall K toks spn n m g ctx s s',
    go no_quirks K toks spn n m g ctx s = (Err, s') -> inv toks s ->
    exists a', sem K toks spn n g ctx (cur s) (alt s) = Some (None, a').
Proof. exact machine_err_is_peg. Qed.

(* The specification is a function of (grammar, context, position, register): fuel only decides whether it is defined.
   More fuel never changes an answer, and two defined answers agree whatever the fuels. *)
Theorem C01_specification_monotone_in_fuel :
  forall K toks spn n m g ctx p a r, n <= m ->
    sem K toks spn n g ctx p a = Some r -> sem K toks spn m g ctx p a = Some r.
Proof. exact sem_mono. Qed.

Theorem C01_specification_is_deterministic :
  forall K toks spn n m g ctx p a r r',
    sem K toks spn n g ctx p a = Some r -> sem K toks spn m g ctx p a = Some r' -> r = r'.
Proof. exact sem_deterministic. Qed.

(* The PEG reading itself *)
Theorem C01_choice_commits_to_first :
  forall K toks spn n x y ctx p a r a1,
    sem K toks spn n x ctx p a = Some (Some r, a1) ->
    sem K toks spn (S n) (Or x y) ctx p a = Some (Some r, a1).
Proof. exact sem_or_first. Qed.

Theorem C01_choice_second_only_after_first_fails :
  forall K toks spn n x y ctx p a a1,
    sem K toks spn n x ctx p a = Some (None, a1) ->
    sem K toks spn (S n) (Or x y) ctx p a = sem K toks spn n y ctx p a1.
Proof. exact sem_or_second. Qed.

Theorem C01_choice_never_revisits :
  forall run gs1 g gs2 ctx p a a1 r a2,
    choice_sem run gs1 ctx p a = Some (None, a1) ->
    run g ctx p a1 = Some (Some r, a2) ->
    choice_sem run (gs1 ++ g :: gs2) ctx p a = Some (Some r, a2).
Proof. exact choice_sem_first. Qed.

Theorem C01_sequence_left_to_right :
  forall K toks spn n x y ctx p a va p1 e1 a1,
    sem K toks spn n x ctx p a = Some (Some (va, p1, e1), a1) ->
    sem K toks spn (S n) (Then x y) ctx p a =
      match sem K toks spn n y ctx p1 a1 with
      | Some (Some (vb, p2, e2), a2) => Some (Some (VPair va vb, p2, e1 ++ e2), a2)
      | Some (None, a2) => Some (None, a2)
      | None => None
      end.
Proof. exact sem_then. Qed.

Theorem C01_not_consumes_nothing :
  forall K toks spn n x ctx p a v p1 e a1,
    sem K toks spn (S n) (Not x) ctx p a = Some (Some (v, p1, e), a1) -> p1 = p /\ e = [] /\ a1 = a.
Proof. exact sem_not_pos. Qed.

Theorem C01_rewind_consumes_nothing :
  forall K toks spn n x ctx p a v p1 e a1,
    sem K toks spn (S n) (Rewind x) ctx p a = Some (Some (v, p1, e), a1) -> p1 = p.
Proof. exact sem_rewind_pos. Qed.

Theorem C01_and_is_is_lookahead :
  forall K toks spn n x y ctx p a va p1 e1 a1,
    sem K toks spn n x ctx p a = Some (Some (va, p1, e1), a1) ->
    sem K toks spn (S n) (AndIs x y) ctx p a =
      match sem K toks spn n y ctx p a1 with
      | Some (Some (_, _, _), a2) => Some (Some (va, p1, e1), a2)
      | Some (None, a2) => Some (None, a2)
      | None => None
      end.
Proof. exact sem_and_is. Qed.

Theorem C01_rejecting_filter_is_failure :
  forall K toks spn n pr x ctx p a v p1 e1 a1,
    sem K toks spn n x ctx p a = Some (Some (v, p1, e1), a1) -> holds pr v = false ->
    exists a2, sem K toks spn (S n) (Filter pr x) ctx p a = Some (None, a2).
Proof. exact sem_filter_reject. Qed.

Theorem C01_rejecting_try_map_is_failure :
  forall K toks spn n pr f k x ctx p a v p1 e1 a1,
    sem K toks spn n x ctx p None = Some (Some (v, p1, e1), a1) -> holds pr v = false ->
    sem K toks spn (S n) (TryMap pr f k x) ctx p a
      = Some (None, add_alt_err false K a p (custom_err K k (spn p p1))).
Proof. exact sem_try_map_reject. Qed.

(* non-vacuity: a concrete grammar with choice, sequence, lookahead and a rejecting filter *)
Example C01_example :
  let toks := [97; 98; 99]%N in
  let g := Then (Or (Just [98%N]) (Just [97%N])) (AndIs (Filter (PTokIn [98%N]) Any) (Not (Just [99%N]))) in
  go no_quirks KRich toks (fun a b => (a, b)) 10 Emit g env0 init_st
    = (Ok (Some (VPair (VList [VTok 97%N]) (VTok 98%N))), mkSt 2 [] (Some (0, mkErr (0, 1) (REF [pTok 98%N] (Some 97%N)) [])) (ust_at toks 2) []).
Proof. vm_compute. reflexivity. Qed.

Print Assumptions C01_accept_value_extent.
Print Assumptions C01_reject.
Print Assumptions C01_specification_monotone_in_fuel.
Print Assumptions C01_specification_is_deterministic.
Print Assumptions C01_choice_commits_to_first.
Print Assumptions C01_choice_second_only_after_first_fails.
Print Assumptions C01_choice_never_revisits.
Print Assumptions C01_sequence_left_to_right.
Print Assumptions C01_not_consumes_nothing.
Print Assumptions C01_rewind_consumes_nothing.
Print Assumptions C01_and_is_is_lookahead.
Print Assumptions C01_rejecting_filter_is_failure.
Print Assumptions C01_rejecting_try_map_is_failure.
