(* C02 - Repetition and separators honour bounds, greediness and leading/trailing rules. *)
From Chum Require Import Corollaries Iter.

(* The machine's repeated()/separated_by(), through every finisher (collect, collect_exactly, count,
   foldl, foldr, *_with, unit parser incl. the 0..inf fast loop) and adaptor (enumerate, map,
   map_with, configure), compute the specification's iteration. *)
Theorem C02_machine_iterates_as_specified :
  forall K toks spn n m g ctx s v s',
    go no_quirks K toks spn n m g ctx s = (Ok v, s') -> inv toks s ->
    exists v' ems a', sem K toks spn n g ctx (cur s) (alt s) = Some (Some (v', cur s', ems), a') /\ v = bindv m v'.
Proof. exact machine_ok_is_peg. Qed.

(* repeated(): the iteration ends (never stopped early), the count is within [at_least, at_most],
   the items are contiguous from the start to the end position, and it is possessive: with fewer
   than at_most items the item parser fails at the end position. *)
Theorem C02_repeated_greedy_possessive_bounded :
  forall toks spn run a lo hi ctx fuel c sacc sacce p0 p r items fl p' ems r',
    sdrive toks spn run fuel (IRep a lo hi) ctx (SCount c) None sacc sacce p r = Some (Some (items, fl, p', ems), r') ->
    c = length sacc -> chain sacc p0 p -> le_opt c hi -> le_opt lo hi ->
    fl = true /\ lo <= length items /\ le_opt (length items) hi /\ chain items p0 p' /\
    (lt_opt (length items) hi -> exists r0 r1, run a ctx p' r0 = Some (None, r1)).
Proof. exact rep_spec. Qed.

Theorem C02_separated_by_bounded :
  forall toks spn run a sep lo hi lead trail ctx fuel c sacc sacce p r items fl p' ems r',
    sdrive toks spn run fuel (ISep a sep lo hi lead trail) ctx (SCount c) None sacc sacce p r
      = Some (Some (items, fl, p', ems), r') ->
    c = length sacc -> le_opt c hi -> le_opt lo hi ->
    fl = true /\ lo <= length items /\ le_opt (length items) hi.
Proof. exact sep_count_spec. Qed.

(* the same bounds apply when they come from configure(): what the closure sets overrides the static
   bound, what it leaves alone falls back to it, and the iteration is that of the static parser *)
Theorem C02_configure_is_static :
  forall toks spn run a lo hi ck clo chi ctx fuel c lim sacc sacce p r,
    sdrive toks spn run fuel (IRepCfg a lo hi ck) ctx (SCfg c clo chi) lim sacc sacce p r
    = sdrive toks spn run fuel (IRep a clo chi) ctx (SCount c) lim sacc sacce p r.
Proof. exact configure_is_static. Qed.

Theorem C02_configured_bounds :
  forall a lo hi ck ctx,
    cfg_fails ck (val_count (cval ctx)) = false ->      (* (try_configure whose closure returns Err: see C15) *)
    mk_iter (IRepCfg a lo hi ck) ctx
    = SCfg 0 (cfg_lo ck lo (val_count (cval ctx))) (cfg_hi ck hi (val_count (cval ctx))).
Proof. exact configured_bounds. Qed.

(* enumerate sees the items in input order, numbered from 0 *)
Theorem C02_enumerate_indices :
  forall toks spn run j ctx fuel k js lim sacc sacce p r items fl p' ems r',
    sdrive toks spn run fuel (IEnum j) ctx (SEnum k js) lim sacc sacce p r = Some (Some (items, fl, p', ems), r') ->
    indexed sacc k -> indexed items (length items).
Proof. exact enumerate_indices. Qed.

(* into_iter(): the inner parser runs once; the finisher sees exactly the items of its output, in order (none in any
   mode is skipped), the position is the inner parser's end position; a failing inner parser fails the iteration *)
Theorem C02_into_iter_items :
  forall toks spn run a ctx fuel p r v p1 e1 r1, length (val_items v) < fuel ->
    run a ctx p r = Some (Some (v, p1, e1), r1) ->
    exists items, sdrive toks spn run fuel (IIntoIter a) ctx (SInto None) None [] [] p r = Some (Some (items, true, p1, e1), r1)
      /\ map (fun it => fst (fst it)) (rev items) = val_items v.
Proof. exact into_iter_spec. Qed.

Theorem C02_into_iter_fails_with_its_parser :
  forall toks spn run a ctx fuel p r r1, run a ctx p r = Some (None, r1) ->
    sdrive toks spn run (S fuel) (IIntoIter a) ctx (SInto None) None [] [] p r = Some (None, r1).
Proof. exact into_iter_fail. Qed.

(* i.then(j) used as an iterable (collect / count / folds over it): i's items in order, then - from where i ended - a fresh j's;
   i is never asked again once j has started; a failure of i is a failure of the whole *)
Theorem C02_iterable_then_yields_first_then_second :
  forall toks spn run i j ctx,
    (forall sa p r v p1 e1 sa' r1, it_snext toks spn run i ctx sa p r = Some (SSome v p1 e1, sa', r1) ->
       it_snext toks spn run (IThen i j) ctx (SThen sa None) p r = Some (SSome v p1 e1, SThen sa' None, r1)) /\
    (forall sa p r p1 e1 sa' r1, it_snext toks spn run i ctx sa p r = Some (SNone p1 e1, sa', r1) ->
       it_snext toks spn run (IThen i j) ctx (SThen sa None) p r =
         match it_snext toks spn run j ctx (mk_iter j ctx) p1 r1 with
         | Some (SSome v p2 e2, sb', r2) => Some (SSome v p2 (e1 ++ e2), SThen sa' (Some sb'), r2)
         | Some (SNone p2 e2, sb', r2) => Some (SNone p2 (e1 ++ e2), SThen sa' (Some sb'), r2)
         | Some (SErr, sb', r2) => Some (SErr, SThen sa' (Some sb'), r2)
         | None => None
         end) /\
    (forall sa sb p r, it_snext toks spn run (IThen i j) ctx (SThen sa (Some sb)) p r =
         match it_snext toks spn run j ctx sb p r with
         | Some (x, sb', r') => Some (x, SThen sa (Some sb'), r')
         | None => None
         end) /\
    (forall sa p r sa' r1, it_snext toks spn run i ctx sa p r = Some (SErr, sa', r1) ->
       it_snext toks spn run (IThen i j) ctx (SThen sa None) p r = Some (SErr, SThen sa' None, r1)).
Proof.
  intros toks spn run i j ctx. split; [|split; [|split]].
  - intros; now apply ithen_first.
  - intros; now apply ithen_switch.
  - intros; apply ithen_second.
  - intros; now apply ithen_fails_with_first.
Qed.

(* non-vacuity, and what collect / count / foldl / foldr / collect_exactly see *)
(* the bounds a configuration closure sets do not depend on the order of the builder calls: cfg.at_most(n).at_least(n/2)
   (code 9) and cfg.at_least(n/2).at_most(n) (code 10) configure the same repetition; the harness calls them in those orders *)
Theorem C02_configured_bounds_do_not_depend_on_builder_order :
  forall a lo hi ctx,
    mk_iter (IRepCfg a lo hi 9) ctx = mk_iter (IRepCfg a lo hi 10) ctx /\
    mk_iter (IRepCfg a lo hi 9) ctx = SCfg 0 (Nat.div2 (val_count (cval ctx))) (Some (val_count (cval ctx))).
Proof. intros. split; reflexivity. Qed.

Example C02_example :
  let toks := [97; 44; 97; 44; 98]%N in
  let item := OneOf [97; 98]%N in
  let it := ISep item (Just [44%N]) 1 (Some 3) false false in
  let run g := run_top no_quirks KRich toks (fun a b => (a, b)) 20 Emit g in
  run (Collect CVec it) = TRes (Some (Some (VList [VTok 97; VTok 97; VTok 98]%N))) []
  /\ run (Collect CCount it) = TRes (Some (Some (VNat 3))) []
  /\ run (Foldl Empty it 7)
     = TRes (Some (Some (VTag 7 (VPair (VTag 7 (VPair (VTag 7 (VPair VUnit (VTok 97%N))) (VTok 97%N))) (VTok 98%N))))) []
  /\ run (Foldr it Empty 7)
     = TRes (Some (Some (VTag 7 (VPair (VTok 97%N) (VTag 7 (VPair (VTok 97%N) (VTag 7 (VPair (VTok 98%N) VUnit)))))))) []
  /\ run (CollectExactly 3 it) = TRes (Some (Some (VList [VTok 97; VTok 97; VTok 98]%N))) []
  /\ run (Collect CVec (IEnum it))
     = TRes (Some (Some (VList [VPair (VNat 0) (VTok 97%N); VPair (VNat 1) (VTok 97%N); VPair (VNat 2) (VTok 98%N)]))) []
  /\ run (Collect CVec (IEnum (IIntoIter (Collect CVec it))))
     = TRes (Some (Some (VList [VPair (VNat 0) (VTok 97%N); VPair (VNat 1) (VTok 97%N); VPair (VNat 2) (VTok 98%N)]))) []
  /\ run_top no_quirks KRich toks (fun a b => (a, b)) 20 Check (CollectExactly 3 (IIntoIter (Collect CVec it))) = TRes (Some None) []
  /\ run_top no_quirks KRich [97; 97; 98; 97]%N (fun a b => (a, b)) 20 Emit
        (Collect CVec (IThen (IRep (Just [97%N]) 0 None) (IRep (Just [98%N]) 0 None)))
      = TRes None [mkErr (3, 4) (REF [2; 201]%N (Some 97%N)) []].
Proof. repeat split; vm_compute; reflexivity. Qed.

(* at_least > at_most: the code (and hence the model) accepts at_most items: known finding F13 *)
Example C02_F13_refuted :
  run_top no_quirks KRich [97; 97]%N (fun a b => (a, b)) 12 Emit (Collect CVec (IRep (Just [97%N]) 3 (Some 2)))
    = TRes (Some (Some (VList [VList [VTok 97%N]; VList [VTok 97%N]]))) [].
Proof. vm_compute. reflexivity. Qed.

Print Assumptions C02_machine_iterates_as_specified.
Print Assumptions C02_repeated_greedy_possessive_bounded.
Print Assumptions C02_separated_by_bounded.
Print Assumptions C02_configure_is_static.
Print Assumptions C02_configured_bounds.
Print Assumptions C02_enumerate_indices.
Print Assumptions C02_into_iter_items.
Print Assumptions C02_into_iter_fails_with_its_parser.
Print Assumptions C02_iterable_then_yields_first_then_second.
Print Assumptions C02_configured_bounds_do_not_depend_on_builder_order.
