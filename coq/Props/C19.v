(* C19 - Every produced value is dropped exactly once or handed to the caller.
   Rust drops ordinary locals itself (assumed, see DESIGN.md section 8); the two places where chumsky manages
   initialisation by hand ([MaybeUninit<T>; N] in group([p; N]) and collect_exactly::<[T; N]>()) are modelled in
   Model/Ledger.v.  The balance itself is measured on the real code by the correspondence run (drop-counting
   output type: live = 0 and no double drop after every parse and check). *)
From Chum Require Import LedgerP.

(* filling the array left to right and, on the first failure, dropping exactly the written prefix:
   every created value is in the output or dropped, exactly once; nothing leaks *)
Theorem C19_array_fill_balanced :
  forall n rs written,
    let l := fill_array false n rs written in
    l_leaked l = [] /\
    rev written ++ created n rs = match l_output l with Some o => o | None => [] end ++ l_dropped l /\
    (l_output l <> None -> l_dropped l = []).
Proof. exact fill_balanced. Qed.

(* group([p; N]) before the repair returned early without dropping the written prefix: finding F9 *)
Example C19_F9_refuted :
  l_leaked (fill_array true 3 [EOk 1; EOk 2; EErr] []) = [1; 2].
Proof. reflexivity. Qed.

Example C19_example :
  fill_array false 3 [EOk 1; EOk 2; EOk 3] [] = mkLedger (Some [1; 2; 3]) [] []
  /\ fill_array false 3 [EOk 1; EOk 2; EErr] [] = mkLedger None [1; 2] [].
Proof. split; reflexivity. Qed.

Print Assumptions C19_array_fill_balanced.
