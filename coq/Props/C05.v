(* C05 - Backtracking is atomic: abandoned paths leave no trace, kept paths lose nothing. *)
From Chum Require Import Corollaries.

(* On success the secondary-error list grows by exactly the emissions of the path that produced
   the output, as defined by the specification (in which an abandoned alternative, repetition
   attempt, optional or lookahead contributes nothing and a kept sub-parse contributes all). *)
Theorem C05_reported_errors_are_the_paths_emissions :
  forall K toks spn n m g ctx s v s',
    go no_quirks K toks spn n m g ctx s = (Ok v, s') -> inv toks s ->
    exists v' ems a', sem K toks spn n g ctx (cur s) (alt s) = Some (Some (v', cur s', ems), a') /\
                      sec s' = sec s ++ ems.
Proof. exact emissions_exact. Qed.

(* Whatever a failing sub-parser (including one that fails after consuming tokens) leaves behind,
   the enclosing rewind restores position, error list and user state exactly. *)
Theorem C05_abandoned_leaves_no_trace :
  forall K toks spn n m g ctx s s',
    go no_quirks K toks spn n m g ctx s = (Err, s') -> inv toks s ->
    rewind s' (save s) = mkSt (cur s) (sec s) (alt s') (ust s) (memo s').
Proof. exact abandoned_leaves_no_trace. Qed.

(* kept sub-parsers lose nothing, including under rewind and and_is *)
Theorem C05_rewind_keeps_emissions :
  forall K toks spn n x ctx p a v p1 e a1,
    sem K toks spn n x ctx p a = Some (Some (v, p1, e), a1) ->
    sem K toks spn (S n) (Rewind x) ctx p a = Some (Some (v, p, e), a1).
Proof. exact sem_rewind_keeps. Qed.

Theorem C05_and_is_keeps_left_emissions :
  forall K toks spn n x y ctx p a va p1 e1 a1,
    sem K toks spn n x ctx p a = Some (Some (va, p1, e1), a1) ->
    sem K toks spn (S n) (AndIs x y) ctx p a =
      match sem K toks spn n y ctx p a1 with
      | Some (Some (_, _, _), a2) => Some (Some (va, p1, e1), a2)
      | Some (None, a2) => Some (None, a2)
      | None => None
      end.
Proof. exact sem_and_is. Qed.

(* the user state follows the same discipline *)
Theorem C05_user_state_rewinds :
  forall K toks spn n m g ctx s v s',
    go no_quirks K toks spn n m g ctx s = (Ok v, s') -> inv toks s -> inv toks s'.
Proof. exact inspector_consistent. Qed.

(* non-vacuity: an emitter in an abandoned alternative, one under and_is, one after a custom
   parser that fails having consumed *)
Example C05_example :
  let toks := [97; 98]%N in
  let g := Or (Then (Validate PTrue 1 (Just [97%N])) (Custom [98%N; 99%N] 5))
              (Then (AndIs (Validate PTrue 2 Any) Any) (Just [98%N])) in
  run_top no_quirks KRich toks (fun a b => (a, b)) 12 Emit g
    = TRes (Some (Some (VPair (VTok 97%N) (VList [VTok 98%N])))) [mkErr (0, 1) (RCustom 2) []].
Proof. vm_compute. reflexivity. Qed.

(* the unchanged code (flag q_look_trunc on) loses the kept emission: finding F1 *)
Example C05_F1_refuted :
  let toks := [97]%N in
  run_top (mkQ true true true true true true true true false false None) KRich toks (fun a b => (a, b)) 12 Emit (AndIs (Validate PTrue 3 Any) Any)
    = TRes (Some (Some (VTok 97%N))) []
  /\ sem_top KRich toks (fun a b => (a, b)) 12 (AndIs (Validate PTrue 3 Any) Any)
    = Some (Some (VTok 97%N), [mkErr (0, 1) (RCustom 3) []]).
Proof. split; vm_compute; reflexivity. Qed.

Print Assumptions C05_reported_errors_are_the_paths_emissions.
Print Assumptions C05_abandoned_leaves_no_trace.
Print Assumptions C05_rewind_keeps_emissions.
Print Assumptions C05_and_is_keeps_left_emissions.
Print Assumptions C05_user_state_rewinds.
