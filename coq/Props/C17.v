(* C17 - Labels and map_err change how a failure is described, never whether or where. *)
From Chum Require Import Corollaries.

(* the machine's labelled / as_context / map_err are the specification's scopes (refinement) *)
Theorem C17_machine_decorates_as_specified :
  forall K toks spn n m g ctx s r s',
    go no_quirks K toks spn n m g ctx s = (r, s') -> inv toks s -> (exists v, r = Ok v) \/ r = Err ->
    exists o, sem K toks spn n g ctx (cur s) (alt s) = Some (o, alt s').
Proof. exact alt_is_register. Qed.

(* labelled never changes acceptance, value, extent or the number of emitted errors *)
Theorem C17_labelled_preserves_outcome :
  forall K toks spn n l c x ctx p a,
    match sem K toks spn (S n) (Labelled l c x) ctx p a, sem K toks spn n x ctx p None with
    | Some (Some (v, p1, e1), _), Some (Some (v', p1', e1'), _) => v = v' /\ p1 = p1' /\ length e1 = length e1'
    | Some (None, _), Some (None, _) => True
    | None, None => True
    | _, _ => False
    end.
Proof. exact sem_labelled_outcome. Qed.

(* map_err never changes acceptance, value, extent or emissions *)
Theorem C17_map_err_preserves_outcome :
  forall K toks spn n k x ctx p a,
    match sem K toks spn (S n) (MapErr k x) ctx p a, sem K toks spn n x ctx p None with
    | Some (Some r, _), Some (Some r', _) => r = r'
    | Some (None, _), Some (None, Some _) => True
    | None, None => True
    | None, Some (None, None) => True
    | _, _ => False
    end.
Proof. exact sem_map_err_outcome. Qed.

(* failing at its very first token the labelled parser reports the label in place of its own
   expectations; failing further in, the inner expectations are kept and as_context adds
   (label, span from the labelled parser's start to the failure) *)
Theorem C17_label_at_first_token_and_context_when_deeper :
  forall K toks spn n l c x ctx p a q e o,
    sem K toks spn n x ctx p None = Some (o, Some (q, e)) ->
    snd_reg (sem K toks spn (S n) (Labelled l c x) ctx p a)
      = Some (add_alt_err false K a q
               (if Nat.eqb q p then label_with K l e
                else if andb c (Nat.ltb p q) then in_context K l (spn p q) e else e)).
Proof. exact sem_labelled_register. Qed.

(* map_err's function is applied to exactly the error produced by the failure of its parser *)
Theorem C17_map_err_applies_to_own_failure :
  forall K toks spn n k x ctx p a q e,
    sem K toks spn n x ctx p None = Some (None, Some (q, e)) ->
    sem K toks spn (S n) (MapErr k x) ctx p a = Some (None, add_alt_err false K a q (map_err_fn K k e)).
Proof. exact sem_map_err_failure. Qed.

Print Assumptions C17_machine_decorates_as_specified.
Print Assumptions C17_labelled_preserves_outcome.
Print Assumptions C17_map_err_preserves_outcome.
Print Assumptions C17_label_at_first_token_and_context_when_deeper.
Print Assumptions C17_map_err_applies_to_own_failure.
