(* C17 - Labels and map_err change how a failure is described, never whether or where. *)
From Chum Require Import Corollaries Shelter.

(* the machine's labelled / as_context / map_err are the specification's scopes (refinement) *)
Theorem C17_machine_decorates_as_specified :
  forall K toks spn n m g ctx s r s',
    go no_quirks K toks spn n m g ctx s = (r, s') -> inv toks s -> (exists v, r = Ok v) \/ r = Err ->
    exists o, sem K toks spn n g ctx (cur s) (alt s) = Some (o, alt s').
Proof. exact alt_is_register. Qed.

(* labelled never changes acceptance, value, extent or the number of emitted errors *)
Theorem C17_labelled_preserves_outcome :
  forall K toks spn n l c x ctx p a,
    match sem K toks spn (S n) (Labelled l c x) ctx p a, sem K toks spn n x ctx p None with
    | Some (Some (v, p1, e1), _), Some (Some (v', p1', e1'), _) => v = v' /\ p1 = p1' /\ length e1 = length e1'
    | Some (None, _), Some (None, _) => True
    | None, None => True
    | _, _ => False
    end.
Proof. exact sem_labelled_outcome. Qed.

(* map_err never changes acceptance, value, extent or emissions *)
Theorem C17_map_err_preserves_outcome :
  forall K toks spn n k x ctx p a,
    match sem K toks spn (S n) (MapErr k x) ctx p a, sem K toks spn n x ctx p None with
    | Some (Some r, _), Some (Some r', _) => r = r'
    | Some (None, _), Some (None, Some _) => True
    | None, None => True
    | None, Some (None, None) => True
    | _, _ => False
    end.
Proof. exact sem_map_err_outcome. Qed.

(* failing at its very first token the labelled parser reports the label in place of its own
   expectations; failing further in, the inner expectations are kept and as_context adds
   (label, span from the labelled parser's start to the failure) *)
Theorem C17_label_at_first_token_and_context_when_deeper :
  forall K toks spn n l c x ctx p a q e o,
    sem K toks spn n x ctx p None = Some (o, Some (q, e)) ->
    snd_reg (sem K toks spn (S n) (Labelled l c x) ctx p a)
      = Some (add_alt_err false K a q
               (if Nat.eqb q p then label_with K l e
                else if andb c (Nat.ltb p q) then in_context K l (spn p q) e else e)).
Proof. exact sem_labelled_register. Qed.

(* map_err's function is applied to exactly the error produced by the failure of its parser *)
Theorem C17_map_err_applies_to_own_failure :
  forall K toks spn n k x ctx p a q e,
    sem K toks spn n x ctx p None = Some (None, Some (q, e)) ->
    sem K toks spn (S n) (MapErr k x) ctx p a = Some (None, add_alt_err false K a q (map_err_fn K k e)).
Proof. exact sem_map_err_failure. Qed.

(* as_context records a label at most once per error, however deeply the same label is nested and whatever lies between two
   of its occurrences: Rich::in_context is idempotent per label and keeps the labels of an error's contexts distinct *)
Theorem C17_a_label_is_recorded_at_most_once :
  forall K l sp sp' e, NoDup (map fst (ectx e)) ->
    NoDup (map fst (ectx (in_context K l sp e))) /\
    in_context K l sp' (in_context K l sp e) = in_context K l sp e.
Proof.
  intros K l sp sp' e Hn. split; [|apply in_context_idem].
  unfold in_context. destruct K; auto. destruct (has_ctx l (ectx e)) eqn:E; auto.
  cbn [ectx]. apply nodup_snoc; auto. now apply has_ctx_false.
Qed.

(* and for whole grammars (without recover_with / extension parsers): the pending error the specification ends with carries
   each label at most once, through every combination of labelled / as_context / map_err / choices / repetitions *)
Theorem C17_pending_errors_carry_each_label_at_most_once :
  forall K toks spn n g ctx p o q e, norec g = true -> envok ctx ->
    sem K toks spn n g ctx p None = Some (o, Some (q, e)) -> NoDup (map fst (ectx e)).
Proof.
  intros K toks spn n g ctx p o q e Hn He H.
  exact (proj2 (proj1 (sem_lift K toks spn n g ctx p None o (Some (q, e)) Hn He I H))).
Qed.

Example C17_nested_same_label_example :
  let e0 := expected_found KRich [1%N] None (3, 4) in
  ectx (in_context KRich 7 (0, 4) (in_context KRich 8 (1, 4) (in_context KRich 7 (2, 4) e0))) = [(7, (2, 4)); (8, (1, 4))].
Proof. vm_compute. reflexivity. Qed.

Print Assumptions C17_machine_decorates_as_specified.
Print Assumptions C17_labelled_preserves_outcome.
Print Assumptions C17_map_err_preserves_outcome.
Print Assumptions C17_label_at_first_token_and_context_when_deeper.
Print Assumptions C17_map_err_applies_to_own_failure.
Print Assumptions C17_a_label_is_recorded_at_most_once.
Print Assumptions C17_pending_errors_carry_each_label_at_most_once.
