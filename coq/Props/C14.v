(* C14 - Text parsers recognise exactly their documented languages (for all inputs, arbitrary
   character classes: the std / unicode-ident classifiers are parameters, compared with the
   implementation's at run time by the correspondence check). *)
From Chum Require Import TextP.

(* text::digits(r): one or more radix-r digits, the maximal run; returns the matched slice *)
Theorem C14_digits_language :
  forall K toks spn n f ctx p a,
    run_len toks f p < S (S n) ->
    exists a',
      sem K toks spn (S (S (S (S n)))) (ToSlice (RepUnit (text_digits (PFun f)))) ctx p a =
        if 1 <=? run_len toks f p
        then Some (Some (VSlice p (p + run_len toks f p), p + run_len toks f p, []), a')
        else Some (None, a').
Proof. exact digits_lang. Qed.

(* text::int(r): a non-zero digit followed by the maximal digit run, or a single zero
   (so no superfluous leading zero) *)
Theorem C14_int_language :
  forall K toks spn n fnz fd zero ctx p a,
    run_len toks fd (S p) < S (S n) ->
    exists a',
      sem K toks spn (S (S (S (S (S (S (S n))))))) (text_int (PFun fd) (PFun fnz) zero) ctx p a =
        match nth_error toks p with
        | Some t =>
            if fnz t then Some (Some (VSlice p (S p + run_len toks fd (S p)), S p + run_len toks fd (S p), []), a')
            else if N.eqb zero t then Some (Some (VSlice p (S p), S p, []), a')
            else Some (None, a')
        | None => Some (None, a')
        end.
Proof. exact int_lang. Qed.

(* ascii::ident / unicode::ident: a start character followed by the maximal run of continue characters *)
Theorem C14_ident_language :
  forall K toks spn n fs fc ctx p a,
    run_len toks fc (S p) < S (S n) ->
    exists a',
      sem K toks spn (S (S (S (S (S n))))) (text_ident (PFun fs) (PFun fc)) ctx p a =
        match nth_error toks p with
        | Some t => if fs t then Some (Some (VSlice p (S p + run_len toks fc (S p)), S p + run_len toks fc (S p), []), a')
                    else Some (None, a')
        | None => Some (None, a')
        end.
Proof. exact ident_lang. Qed.

(* whitespace / inline_whitespace: any run of the class, including the empty one *)
Theorem C14_whitespace_language :
  forall K toks spn n f ctx p a,
    run_len toks f p < S (S n) ->
    exists a',
      sem K toks spn (S (S (S (S n)))) (ToSlice (RepUnit (text_whitespace (PFun f)))) ctx p a =
        Some (Some (VSlice p (p + run_len toks f p), p + run_len toks f p, []), a').
Proof. exact whitespace_lang. Qed.

(* newline: CR LF as one terminator, a lone CR, or one character of the newline class; nothing else.
   [newline_end] is the end of the match: after CR LF / CR / one class character, or None *)
Theorem C14_newline_language :
  forall K toks spn n fnl cr lf ctx p a,
    exists a',
      match newline_end toks fnl cr lf p with
      | Some p' => exists v, sem K toks spn (S (S (S (S n)))) (text_newline (PFun fnl) cr lf) ctx p a = Some (Some (v, p', []), a')
      | None => sem K toks spn (S (S (S (S n)))) (text_newline (PFun fnl) cr lf) ctx p a = Some (None, a')
      end.
Proof. exact newline_lang. Qed.

(* keyword(k): the MAXIMAL identifier at the position must be exactly k: neither k followed by further identifier
   characters (k as a prefix of a longer identifier) nor a proper prefix of k matches *)
Theorem C14_keyword_language :
  forall K toks spn n fs fc kw ctx p a,
    run_len toks fc (S p) < S (S n) ->
    exists a',
      sem K toks spn (S (S (S (S (S (S n)))))) (text_keyword (PFun fs) (PFun fc) kw) ctx p a =
        match nth_error toks p with
        | Some t =>
            if fs t then
              if list_eqN (t :: run_toks toks fc (S p)) kw
              then Some (Some (VSlice p (S p + run_len toks fc (S p)), S p + run_len toks fc (S p), []), a')
              else Some (None, a')
            else Some (None, a')
        | None => Some (None, a')
        end.
Proof. exact keyword_lang. Qed.

(* padded(): exactly the maximal whitespace runs before and after are skipped, nothing else; the value, the emissions
   and a failure are the padded parser's *)
Theorem C14_padded_skips_surrounding_whitespace_only :
  forall K toks spn n fws x ctx p a,
    run_len toks fws p < S (S n) ->
    exists a1,
      match sem K toks spn (S (S (S n))) x ctx (p + run_len toks fws p) a1 with
      | Some (Some (va, p2, e2), a2) =>
          run_len toks fws p2 < S (S n) ->
          exists a3, sem K toks spn (S (S (S (S n)))) (text_padded (PFun fws) x) ctx p a
                     = Some (Some (va, p2 + run_len toks fws p2, e2), a3)
      | Some (None, a2) => sem K toks spn (S (S (S (S n)))) (text_padded (PFun fws) x) ctx p a = Some (None, a2)
      | None => sem K toks spn (S (S (S (S n)))) (text_padded (PFun fws) x) ctx p a = None
      end.
Proof. exact padded_lang. Qed.

(* non-vacuity: int(10), keyword and newline on concrete inputs through the machine *)
Example C14_example :
  let digit := PTokIn [48; 49; 50; 51; 52; 53; 54; 55; 56; 57]%N in
  let nz := PTokIn [49; 50; 51; 52; 53; 54; 55; 56; 57]%N in
  let alpha := PTokIn [97; 98; 99; 95]%N in
  let alnum := PTokIn [97; 98; 99; 95; 48; 49]%N in
  let run toks g := fst (go no_quirks KRich toks (fun a b => (a, b)) 16 Emit g env0 init_st) in
  run [49; 48; 97]%N (text_int digit nz 48%N) = Ok (Some (VSlice 0 2))
  /\ run [48; 49]%N (text_int digit nz 48%N) = Ok (Some (VSlice 0 1))
  /\ run [97; 98; 49; 32]%N (text_keyword alpha alnum [97; 98; 49]%N) = Ok (Some (VSlice 0 3))
  /\ run [97; 98; 49; 32]%N (text_keyword alpha alnum [97; 98]%N) = Err
  /\ run [13; 10; 97]%N (ToSlice (text_newline (PTokIn [10; 13; 11; 12; 133; 8232; 8233]%N) 13%N 10%N)) = Ok (Some (VSlice 0 2)).
Proof. repeat split; vm_compute; reflexivity. Qed.

Print Assumptions C14_digits_language.
Print Assumptions C14_int_language.
Print Assumptions C14_ident_language.
Print Assumptions C14_whitespace_language.
Print Assumptions C14_newline_language.
Print Assumptions C14_keyword_language.
Print Assumptions C14_padded_skips_surrounding_whitespace_only.
