(* C03 - Parse result contract: whole input, output/error consistency. Statements only. *)
From Chum Require Import Corollaries.

(* a result with an output: the grammar matched [0, p') and no token remains at p'
   (parse and check both wrap the grammar in then_ignore(end())) *)
Theorem C03_output_means_whole_input :
  forall K toks spn n m g ov errs,
    run_top no_quirks K toks spn (S n) m g = TRes (Some ov) errs ->
    exists v' p' ems a', sem K toks spn n g env0 0 None = Some (Some (v', p', ems), a') /\
                         nth_error toks p' = None /\ ov = bindv m v'.
Proof. exact parse_complete. Qed.

(* a result without output always carries at least one error (for every quirk vector) *)
Theorem C03_no_output_has_error :
  forall K toks spn Q n m g errs, run_top Q K toks spn n m g = TRes None errs -> errs <> [].
Proof. exact no_output_has_error. Qed.

(* an error-free result always has an output *)
Theorem C03_error_free_has_output :
  forall K toks spn Q n m g o, run_top Q K toks spn n m g = TRes o [] -> o <> None.
Proof. exact no_error_has_output. Qed.

(* a result with errors never converts to Ok (model of ParseResult::into_result) *)
Theorem C03_errors_never_ok :
  forall (A : Type) (o : option A) errs, errs <> [] -> into_result o errs = None.
Proof. exact @errors_never_ok. Qed.

(* the reported errors of a result with output are exactly the specification's emissions *)
Theorem C03_output_errors_are_emissions :
  forall K toks spn n m g ov errs,
    run_top no_quirks K toks spn n m g = TRes (Some ov) errs ->
    exists v', sem_top K toks spn n g = Some (Some v', errs) /\ ov = bindv m v'.
Proof. exact run_top_ok. Qed.

(* lazy() is then_ignore(any().repeated()): it is how a proper prefix gets accepted *)
Example C03_lazy_accepts_prefix :
  let toks := [97; 98; 99]%N in
  run_top no_quirks KRich toks (fun a b => (a, b)) 12 Emit (Lazy (Just [97%N]))
    = TRes (Some (Some (VList [VTok 97%N]))) []
  /\ exists errs, run_top no_quirks KRich toks (fun a b => (a, b)) 12 Emit (Just [97%N]) = TRes None errs.
Proof. split; [vm_compute; reflexivity | eexists; vm_compute; reflexivity]. Qed.

Print Assumptions C03_output_means_whole_input.
Print Assumptions C03_no_output_has_error.
Print Assumptions C03_error_free_has_output.
Print Assumptions C03_errors_never_ok.
Print Assumptions C03_output_errors_are_emissions.
