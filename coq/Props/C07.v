(* C07 - Spans and slices are exact, well-formed and zero-copy. *)
From Chum Require Import Corollaries Extent InputsP.

(* the span / slice handed to to_span, to_slice, map_with is computed from the two positions that
   delimit exactly what the sub-parser consumed on the successful path *)
Theorem C07_to_span_is_consumed_extent :
  forall K toks spn n x ctx p a v p1 e1 a1,
    sem K toks spn n x ctx p a = Some (Some (v, p1, e1), a1) ->
    sem K toks spn (S n) (ToSpan x) ctx p a = Some (Some (vspan (spn p p1), p1, e1), a1).
Proof. exact sem_to_span. Qed.

Theorem C07_to_slice_is_consumed_extent :
  forall K toks spn n x ctx p a v p1 e1 a1,
    sem K toks spn n x ctx p a = Some (Some (v, p1, e1), a1) ->
    sem K toks spn (S n) (ToSlice x) ctx p a = Some (Some (VSlice p p1, p1, e1), a1).
Proof. exact sem_to_slice. Qed.

Theorem C07_map_with_span_is_consumed_extent :
  forall K toks spn n x ctx p a v p1 e1 a1,
    sem K toks spn n x ctx p a = Some (Some (v, p1, e1), a1) ->
    sem K toks spn (S n) (MapWith MWSpan x) ctx p a = Some (Some (VPair v (vspan (spn p p1)), p1, e1), a1).
Proof. exact sem_map_with_span. Qed.

(* every consumed extent is well-formed: start <= end, inside the input; a parent's extent
   contains its children's (they are extents of sub-runs started inside it) *)
Theorem C07_extent_wellformed :
  forall K toks spn n g ctx p a v p' e a',
    sem K toks spn n g ctx p a = Some (Some (v, p', e), a') -> p <= length toks -> p <= p' <= length toks.
Proof. exact sem_ext. Qed.

(* the machine hands exactly these spans to user closures (values agree with the specification) *)
Theorem C07_machine_spans_are_specified :
  forall K toks spn n m g ctx s v s',
    go no_quirks K toks spn n m g ctx s = (Ok v, s') -> inv toks s ->
    exists v' ems a', sem K toks spn n g ctx (cur s) (alt s) = Some (Some (v', cur s', ems), a') /\ v = bindv m v'.
Proof. exact machine_ok_is_peg. Qed.

(* token inputs with their own spans: a non-empty match spans from the start of its first token to
   the end of its last; an empty match gets an empty span at the start of the following token *)
Theorem C07_mapped_nonempty_first_to_last :
  forall (spans : list span) eoi p1 p2 s1 e1 s2 e2,
    p1 < p2 -> nth_error spans p1 = Some (s1, e1) -> nth_error spans (p2 - 1) = Some (s2, e2) ->
    spn_mapped false spans eoi p1 p2 = (s1, e2).
Proof. exact mapped_nonempty_first_to_last. Qed.

Theorem C07_mapped_empty_is_empty :
  forall (spans : list span) eoi p, fst (spn_mapped false spans eoi p p) = snd (spn_mapped false spans eoi p p).
Proof. exact mapped_empty_is_empty. Qed.

(* the unchanged code: inverted span for an empty match between gapped tokens, and the whole
   input for an empty match at the start - finding F8 *)
Example C07_F8_refuted :
  spn_mapped true [(0, 1); (5, 6)] 8 1 1 = (5, 1) /\ spn_mapped true [(0, 1); (5, 6)] 8 0 0 = (0, 8).
Proof. split; reflexivity. Qed.

Example C07_example :
  let toks := [97; 98; 99]%N in
  let g := Then (MapWith MWSpan (Just [97%N])) (Then (ToSpan Empty) (ToSlice (Then Any Any))) in
  fst (go no_quirks KRich toks spn_plain 12 Emit g env0 init_st)
    = Ok (Some (VPair (VPair (VList [VTok 97%N]) (VSpan 0 1)) (VPair (VSpan 1 1) (VSlice 1 3)))).
Proof. vm_compute. reflexivity. Qed.

(* Input::map / IterInput cursors cache the end offset of the token consumed last (written by next / next_ref, restored with the
   cursor on rewind): for every cursor the parser can hold - k tokens after the start - the cache is the end of token k-1, and
   the span the code computes from two such cursors is the model's span formula (first token's start to last token's end) *)
Theorem C07_mapped_cursor_cache_is_the_end_of_the_previous_token :
  forall spans k c, mc_walk spans k mc_init = Some c ->
    mc_idx c = k /\ mc_end c = match k with 0 => None | S j => option_map snd (nth_error spans j) end.
Proof.
  intros spans k c W. destruct (mc_walk_ok spans k mc_init c (mc_init_ok spans) W) as (H & I).
  cbn [mc_idx mc_init] in I. rewrite Nat.add_0_r in I. split; [exact I|]. unfold mc_ok in H. now rewrite I in H.
Qed.

Theorem C07_mapped_span_code_computes_the_span_formula :
  forall spans eoi k1 k2 c1 c2, mc_walk spans k1 mc_init = Some c1 -> mc_walk spans k2 mc_init = Some c2 ->
    mapped_span spans eoi c1 c2 = spn_mapped false spans eoi k1 k2.
Proof.
  intros spans eoi k1 k2 c1 c2 W1 W2.
  destruct (mc_walk_ok spans k1 mc_init c1 (mc_init_ok spans) W1) as (H1 & I1).
  destruct (mc_walk_ok spans k2 mc_init c2 (mc_init_ok spans) W2) as (H2 & I2).
  cbn [mc_idx mc_init] in I1, I2. rewrite Nat.add_0_r in I1, I2. rewrite <- I1, <- I2. now apply mapped_cursor_refines.
Qed.

Example C07_mapped_cursor_example :
  let spans := [(2, 4); (6, 9); (12, 13)] in
  option_map (fun c2 => mapped_span spans 20 mc_init c2) (mc_walk spans 2 mc_init) = Some (2, 9)
  /\ option_map (fun c1 => option_map (fun c2 => mapped_span spans 20 c1 c2) (mc_walk spans 3 mc_init)) (mc_walk spans 1 mc_init) = Some (Some (6, 13)).
Proof. split; vm_compute; reflexivity. Qed.

Print Assumptions C07_to_span_is_consumed_extent.
Print Assumptions C07_to_slice_is_consumed_extent.
Print Assumptions C07_map_with_span_is_consumed_extent.
Print Assumptions C07_extent_wellformed.
Print Assumptions C07_machine_spans_are_specified.
Print Assumptions C07_mapped_nonempty_first_to_last.
Print Assumptions C07_mapped_empty_is_empty.
Print Assumptions C07_mapped_cursor_cache_is_the_end_of_the_previous_token.
Print Assumptions C07_mapped_span_code_computes_the_span_formula.
