(* C07 - Spans and slices are exact, well-formed and zero-copy. *)
From Chum Require Import Corollaries Extent InputsP.

(* the span / slice handed to to_span, to_slice, map_with is computed from the two positions that
   delimit exactly what the sub-parser consumed on the successful path *)
Theorem C07_to_span_is_consumed_extent :
  forall K toks spn n x ctx p a v p1 e1 a1,
    sem K toks spn n x ctx p a = Some (Some (v, p1, e1), a1) ->
    sem K toks spn (S n) (ToSpan x) ctx p a = Some (Some (vspan (spn p p1), p1, e1), a1).
Proof. exact sem_to_span. Qed.

Theorem C07_to_slice_is_consumed_extent :
  forall K toks spn n x ctx p a v p1 e1 a1,
    sem K toks spn n x ctx p a = Some (Some (v, p1, e1), a1) ->
    sem K toks spn (S n) (ToSlice x) ctx p a = Some (Some (VSlice p p1, p1, e1), a1).
Proof. exact sem_to_slice. Qed.

Theorem C07_map_with_span_is_consumed_extent :
  forall K toks spn n x ctx p a v p1 e1 a1,
    sem K toks spn n x ctx p a = Some (Some (v, p1, e1), a1) ->
    sem K toks spn (S n) (MapWith MWSpan x) ctx p a = Some (Some (VPair v (vspan (spn p p1)), p1, e1), a1).
Proof. exact sem_map_with_span. Qed.

(* every consumed extent is well-formed: start <= end, inside the input; a parent's extent
   contains its children's (they are extents of sub-runs started inside it) *)
Theorem C07_extent_wellformed :
  forall K toks spn n g ctx p a v p' e a',
    sem K toks spn n g ctx p a = Some (Some (v, p', e), a') -> p <= length toks -> p <= p' <= length toks.
Proof. exact sem_ext. Qed.

(* the machine hands exactly these spans to user closures (values agree with the specification) *)
Theorem C07_machine_spans_are_specified :
  forall K toks spn n m g ctx s v s',
    go no_quirks K toks spn n m g ctx s = (Ok v, s') -> inv toks s ->
    exists v' ems a', sem K toks spn n g ctx (cur s) (alt s) = Some (Some (v', cur s', ems), a') /\ v = bindv m v'.
Proof. exact machine_ok_is_peg. Qed.

(* token inputs with their own spans: a non-empty match spans from the start of its first token to
   the end of its last; an empty match gets an empty span at the start of the following token *)
Theorem C07_mapped_nonempty_first_to_last :
  forall (spans : list span) eoi p1 p2 s1 e1 s2 e2,
    p1 < p2 -> nth_error spans p1 = Some (s1, e1) -> nth_error spans (p2 - 1) = Some (s2, e2) ->
    spn_mapped false spans eoi p1 p2 = (s1, e2).
Proof. exact mapped_nonempty_first_to_last. Qed.

Theorem C07_mapped_empty_is_empty :
  forall (spans : list span) eoi p, fst (spn_mapped false spans eoi p p) = snd (spn_mapped false spans eoi p p).
Proof. exact mapped_empty_is_empty. Qed.

(* the unchanged code: inverted span for an empty match between gapped tokens, and the whole
   input for an empty match at the start - finding F8 *)
Example C07_F8_refuted :
  spn_mapped true [(0, 1); (5, 6)] 8 1 1 = (5, 1) /\ spn_mapped true [(0, 1); (5, 6)] 8 0 0 = (0, 8).
Proof. split; reflexivity. Qed.

Example C07_example :
  let toks := [97; 98; 99]%N in
  let g := Then (MapWith MWSpan (Just [97%N])) (Then (ToSpan Empty) (ToSlice (Then Any Any))) in
  fst (go no_quirks KRich toks spn_plain 12 Emit g env0 init_st)
    = Ok (Some (VPair (VPair (VList [VTok 97%N]) (VSpan 0 1)) (VPair (VSpan 1 1) (VSlice 1 3)))).
Proof. vm_compute. reflexivity. Qed.

Print Assumptions C07_to_span_is_consumed_extent.
Print Assumptions C07_to_slice_is_consumed_extent.
Print Assumptions C07_map_with_span_is_consumed_extent.
Print Assumptions C07_extent_wellformed.
Print Assumptions C07_machine_spans_are_specified.
Print Assumptions C07_mapped_nonempty_first_to_last.
Print Assumptions C07_mapped_empty_is_empty.
