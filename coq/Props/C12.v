(* C12 - Recursive parsers equal their unrolling and nest to any depth (logic part; stack depth,
   define-twice panic and clone/drop behaviour are runtime observations of the correspondence run). *)
From Chum Require Import Corollaries PrattP StackP.

(* the machine's recursive / declare+define parsers compute the specification's *)
Theorem C12_machine_recursion_is_specified :
  forall K toks spn n m x ctx s v s',
    go no_quirks K toks spn n m (Rec x) ctx s = (Ok v, s') -> inv toks s ->
    exists v' ems a', sem K toks spn n (Rec x) ctx (cur s) (alt s) = Some (Some (v', cur s', ems), a') /\ v = bindv m v'.
Proof. intros K toks spn n m x. exact (machine_ok_is_peg K toks spn n m (Rec x)). Qed.

(* a recursive parser is its body with the self-reference bound to that body *)
Theorem C12_rec_is_body :
  forall K toks spn n x ctx p a,
    sem K toks spn (S n) (Rec x) ctx p a = sem K toks spn n x (mkEnv (cval ctx) (x :: crec ctx)) p a.
Proof. exact rec_unfold. Qed.

(* and the self-reference inside the body behaves exactly like the recursive parser: expanding it once
   more changes nothing, to whatever depth the input requires *)
Theorem C12_self_reference_is_the_recursive_parser :
  forall K toks spn n x ctx p a,
    sem K toks spn (S n) (Var 0) (mkEnv (cval ctx) (x :: crec ctx)) p a = sem K toks spn (S n) (Rec x) ctx p a.
Proof. exact var_is_rec. Qed.

(* mutually recursive definitions: an outer reference resolves to the outer definition *)
Theorem C12_mutual_reference :
  forall K toks spn n x y c rest p a,
    sem K toks spn (S n) (Var 1) (mkEnv c (y :: x :: rest)) p a = sem K toks spn n x (mkEnv c (x :: rest)) p a.
Proof. exact var_outer. Qed.

(* non-vacuity: balanced parentheses nested 12 deep, and a mutually recursive pair *)
Example C12_example :
  let g := Rec (Or (DelimitedBy (Var 0) (Just [40%N]) (Just [41%N])) (Just [97%N])) in
  let deep := (repeat 40%N 12 ++ [97%N] ++ repeat 41%N 12) in
  fst (go no_quirks KRich deep (fun a b => (a, b)) 80 Emit g env0 init_st) = Ok (Some (VList [VTok 97%N]))
  /\ let ab := Rec (Or (Then (Just [97%N]) (Rec (Or (Then (Just [98%N]) (Var 1)) (Just [98%N])))) (Just [97%N])) in
     fst (go no_quirks KRich [97; 98; 97; 98]%N (fun a b => (a, b)) 40 Check ab env0 init_st) = Ok None.
Proof. split; vm_compute; reflexivity. Qed.

(* "Nesting depth is limited by memory, not by the native stack": with the constants of recursive.rs (a red zone of 64 KiB,
   segments of 1 MiB; the check compares them with the source) a nest of ANY depth never overflows as long as no level of the
   grammar needs more than the red zone between two growth checks, and it allocates at most one segment per level.
   (The correspondence run nests 2*10^5 .. 10^6 levels of small frames and 3*10^3 .. 2*10^4 levels of 36-44 KiB frames.) *)
Theorem C12_no_depth_overflows_the_stack :
  forall frames left segs, (forall f, In f frames -> (f <= RED_ZONE)%N) ->
    exists left' segs', descend RED_ZONE SEGMENT frames left segs = Some (left', segs') /\ segs' <= segs + length frames.
Proof. apply descend_never_overflows. unfold RED_ZONE, SEGMENT. lia. Qed.

(* the red zone is exactly a level's budget: with half of it (32 KiB) a level of 44 KiB entered with 40000 bytes left passes the
   growth check and overflows; with 64 KiB it gets a fresh segment.  (Whether a given nest meets such a state depends on the
   offsets at which the segments are entered: the correspondence run rotates three frame sizes for that reason.) *)
Example C12_smaller_red_zone_refuted :
  descend 32768 SEGMENT [45056%N] 40000 0 = None /\
  descend RED_ZONE SEGMENT [45056%N] 40000 0 = Some (1003520%N, 1) /\
  (forall seg f, (32768 < f)%N -> (32768 <= seg)%N -> enter 32768 seg 32768 f = None).
Proof. split; [|split]; [vm_compute; reflexivity | vm_compute; reflexivity | intros; now apply frame_beyond_red_zone_can_overflow]. Qed.

Print Assumptions C12_machine_recursion_is_specified.
Print Assumptions C12_rec_is_body.
Print Assumptions C12_self_reference_is_the_recursive_parser.
Print Assumptions C12_mutual_reference.
Print Assumptions C12_no_depth_overflows_the_stack.
