(* C18 - User state and inspectors see a history consistent with the parse. *)
From Chum Require Import Corollaries.

(* For an inspector whose checkpoint is a snapshot: after every successful (sub-)parse the state
   equals the fold of on_token over exactly the tokens before the cursor, however much
   backtracking, lookahead or recovery happened on the way. *)
Theorem C18_state_is_fold_of_consumed_prefix :
  forall K toks spn n m g ctx s v s',
    go no_quirks K toks spn n m g ctx s = (Ok v, s') ->
    ust s = ust_at toks (cur s) -> ust s' = ust_at toks (cur s').
Proof. exact inspector_consistent. Qed.

(* what user code observes (map_with, foldl_with, foldr_with read the state through MapExtra) is what the
   specification computes from the input prefix alone: values agree with [sem], whose closures read
   [ust_at] of a position *)
Theorem C18_observed_state_is_prefix_fold :
  forall K toks spn n m g ctx s v s',
    go no_quirks K toks spn n m g ctx s = (Ok v, s') -> inv toks s ->
    exists v' ems a', sem K toks spn n g ctx (cur s) (alt s) = Some (Some (v', cur s', ems), a') /\ v = bindv m v'.
Proof. exact machine_ok_is_peg. Qed.

Theorem C18_initial_state_consistent : forall toks, inv toks init_st.
Proof. exact inv_init. Qed.

Example C18_example :
  let toks := [97; 98; 99]%N in
  (* state observed after backtracking out of a two-token alternative *)
  let g := Or (Then (Just [97; 98]%N) (Just [120%N])) (MapWith MWState (Just [97%N])) in
  fst (go no_quirks KRich toks (fun a b => (a, b)) 12 Emit g env0 init_st)
    = Ok (Some (VPair (VList [VTok 97%N]) (VNum (ust_at toks 1)))).
Proof. vm_compute. reflexivity. Qed.

Print Assumptions C18_state_is_fold_of_consumed_prefix.
Print Assumptions C18_observed_state_is_prefix_fold.
Print Assumptions C18_initial_state_consistent.
