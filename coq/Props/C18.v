(* C18 - User state and inspectors see a history consistent with the parse. *)
From Chum Require Import Corollaries NestedP.

(* For an inspector whose checkpoint is a snapshot: after every successful (sub-)parse the state
   equals the fold of on_token over exactly the tokens before the cursor, however much
   backtracking, lookahead or recovery happened on the way. *)
Theorem C18_state_is_fold_of_consumed_prefix :
  forall K toks spn n m g ctx s v s',
    go no_quirks K toks spn n m g ctx s = (Ok v, s') ->
    ust s = ust_at toks (cur s) -> ust s' = ust_at toks (cur s').
Proof. exact inspector_consistent. Qed.

(* what user code observes (map_with, foldl_with, foldr_with read the state through MapExtra) is what the
   specification computes from the input prefix alone: values agree with [sem], whose closures read
   [ust_at] of a position *)
Theorem C18_observed_state_is_prefix_fold :
  forall K toks spn n m g ctx s v s',
    go no_quirks K toks spn n m g ctx s = (Ok v, s') -> inv toks s ->
    exists v' ems a', sem K toks spn n g ctx (cur s) (alt s) = Some (Some (v', cur s', ems), a') /\ v = bindv m v'.
Proof. exact machine_ok_is_peg. Qed.

(* custom parsers written against InputRef's public API (next / next_ref / peek / skip / save / rewind / span_since / state):
   whatever the program does, the machine's run is the positional reading - the state a program reads is the fold over the
   tokens before the cursor at that moment (peek does not disturb it, rewind restores it), and when the program ends the
   inspector again holds the fold over the tokens before the cursor; nothing else (errors, pending error, memo table) moves *)
Theorem C18_custom_parser_api_keeps_the_inspector_consistent :
  forall toks spn ops start stack sstack acc s b acc' s1,
    prog_loop toks spn ops start stack acc s = (b, acc', s1) -> inv toks s ->
    Forall2 (fun c p => c = (p, length (sec s), ust_at toks p)) stack sstack ->
    prog_sem toks spn ops start sstack acc (cur s) = (b, acc', cur s1) /\
    alt s1 = alt s /\ sec s1 = sec s /\ ust s1 = ust_at toks (cur s1) /\ memo s1 = memo s.
Proof. exact prog_loop_refines. Qed.

Theorem C18_initial_state_consistent : forall toks, inv toks init_st.
Proof. exact inv_init. Qed.

Example C18_custom_program_example :
  let toks := [97; 98; 99]%N in
  (* save; next; peek; read the state; rewind; read the state; next *)
  let g := Prog [CSave; CNext; CPeek; CState; CRewind; CState; CNext] 4 in
  fst (go no_quirks KRich toks (fun a b => (a, b)) 12 Emit g env0 init_st)
    = Ok (Some (VList [VTok 97%N; VTok 98%N; VNum (ust_at toks 1); VNum (ust_at toks 0); VTok 97%N])).
Proof. vm_compute. reflexivity. Qed.

Example C18_example :
  let toks := [97; 98; 99]%N in
  (* state observed after backtracking out of a two-token alternative *)
  let g := Or (Then (Just [97; 98]%N) (Just [120%N])) (MapWith MWState (Just [97%N])) in
  fst (go no_quirks KRich toks (fun a b => (a, b)) 12 Emit g env0 init_st)
    = Ok (Some (VPair (VList [VTok 97%N]) (VNum (ust_at toks 1)))).
Proof. vm_compute. reflexivity. Qed.

(* with_state(st): the sub-parser runs on a copy of st (whatever the outer state is: two invocations that differ only in the
   outer state behave identically), and the outer state is untouched afterwards.  (The observed state is then no longer a
   function of the position, so grammars containing with_state are outside the positional theorems above; the machine
   clause is what the correspondence run ties to the code.) *)
Theorem C18_with_state_leaves_outer_state_untouched :
  forall Q K toks spn f n m k a ctx s,
    nested Q = Some f -> ust (snd (go Q K toks spn (S n) m (WithState k a) ctx s)) = ust s.
Proof. exact with_state_outer_untouched. Qed.

Theorem C18_with_state_starts_from_a_fresh_copy :
  forall Q K toks spn f n m k a ctx s s',
    nested Q = Some f -> cur s = cur s' -> sec s = sec s' -> alt s = alt s' -> memo s = memo s' ->
    fst (go Q K toks spn (S n) m (WithState k a) ctx s) = fst (go Q K toks spn (S n) m (WithState k a) ctx s').
Proof. exact with_state_inner_is_fresh. Qed.

Print Assumptions C18_state_is_fold_of_consumed_prefix.
Print Assumptions C18_with_state_leaves_outer_state_untouched.
Print Assumptions C18_with_state_starts_from_a_fresh_copy.
Print Assumptions C18_observed_state_is_prefix_fold.
Print Assumptions C18_initial_state_consistent.
Print Assumptions C18_custom_parser_api_keeps_the_inspector_consistent.
