(* C13 - Parsers are pure values.  In the model this is architectural: a parser is an immutable grammar term,
   and parse()/check() create every piece of per-parse state (cursor, secondary errors, pending error, user
   state, memo table).  The theorem is thin by design; the content of the check is the correspondence run:
   histories through the value, clones, references, Box, Rc, boxed(), Either, and threads sharing one
   Arc<dyn Parser + Send + Sync> (thread interleavings are a runtime matter Coq cannot exhibit). *)
From Chum Require Import SessionP.

Theorem C13_result_depends_only_on_its_input :
  forall Q K spn_of n g h1 m toks h2,
    nth_error (session Q K spn_of n g (h1 ++ (m, toks) :: h2)) (length h1)
    = Some (run_top Q K toks (spn_of toks) n m g).
Proof. exact session_independent. Qed.

Theorem C13_every_parse_starts_fresh : init_st = mkSt 0 [] None 0%N [].
Proof. exact fresh_state. Qed.

Example C13_example :
  let g := Collect CVec (IRep (Memo 1 (Just [97%N])) 0 None) in
  session (mkQ false false false false false false false false true false None) KRich (fun _ a b => (a, b)) 12 g
          [(Emit, [97; 97]%N); (Check, [98]%N); (Emit, [97; 97]%N)]
  = [TRes (Some (Some (VList [VList [VTok 97%N]; VList [VTok 97%N]]))) [];
     TRes None [mkErr (0, 1) (REF [pEoi; pTok 97%N] (Some 98%N)) []];
     TRes (Some (Some (VList [VList [VTok 97%N]; VList [VTok 97%N]]))) []].
Proof. vm_compute. reflexivity. Qed.

Print Assumptions C13_result_depends_only_on_its_input.
Print Assumptions C13_every_parse_starts_fresh.
