(* C06 - Primary error = furthest failure, with merged expectations and a truthful span. *)
From Chum Require Import Corollaries Furthest Shelter.

(* After any run, successful or failing, the pending (primary) error of the machine is the
   register computed by the specification: take/restore dances of try_map, labelled, map_err,
   not and the recovery strategies lose nothing and move nothing. *)
Theorem C06_pending_error_is_specified :
  forall K toks spn n m g ctx s r s',
    go no_quirks K toks spn n m g ctx s = (r, s') -> inv toks s -> (exists v, r = Ok v) \/ r = Err ->
    exists o, sem K toks spn n g ctx (cur s) (alt s) = Some (o, alt s').
Proof. exact alt_is_register. Qed.

(* parse()/check(): the last reported error of a failed parse is that register *)
Theorem C06_last_error_is_register :
  forall K toks spn n m g errs,
    run_top no_quirks K toks spn n m g = TRes None errs ->
    exists junk prim a', errs = junk ++ [prim] /\
      sem K toks spn n (ThenIgnore g End) env0 0 None = Some (None, a') /\
      (forall q e, a' = Some (q, e) -> prim = e).
Proof. exact run_top_fail. Qed.

(* Furthest failure, never earlier: for every error type that carries a position and every grammar
   without recover_with (which by design consumes the pending error), every sub-parse only ever moves
   the pending error forward, and a sub-parse that fails at p leaves it at or beyond p.  So the error
   finally reported lies at or beyond every position at which any attempted alternative failed. *)
Theorem C06_pending_error_only_moves_forward :
  forall K toks spn, is_zst K = false ->
  forall n g ctx p a o a', norec g = true -> envok ctx -> p <= length toks ->
    sem K toks spn n g ctx p a = Some (o, a') ->
    rle a a' /\ (o = None -> rge a' p).
Proof. exact sem_mn. Qed.

(* a user-supplied error (try_map) at the failure position is preserved, superseding the
   rejected sub-parse's own pending error, and merged into what earlier alternatives left *)
Theorem C06_try_map_error_preserved :
  forall K toks spn n pr f k x ctx p a v p1 e1 a1,
    sem K toks spn n x ctx p None = Some (Some (v, p1, e1), a1) -> holds pr v = false ->
    sem K toks spn (S n) (TryMap pr f k x) ctx p a
      = Some (None, add_alt_err false K a p (custom_err K k (spn p p1))).
Proof. exact sem_try_map_reject. Qed.

(* the unchanged try_map (flags q_trymap_drop / q_trymap_pos) violated this: findings F2, F12 *)
Example C06_F2_refuted :
  let toks := [97; 98; 100]%N in
  let g := Or (Then (Just [97; 98]%N) (Just [99%N])) (TryMap PTrue FId 7 (Just [120%N])) in
  run_top (mkQ false false true false false false false false false false None) KRich toks (fun a b => (a, b)) 12 Emit g
    = TRes None [mkErr (0, 1) (REF [pTok 120%N] (Some 97%N)) []]
  /\ run_top no_quirks KRich toks (fun a b => (a, b)) 12 Emit g
    = TRes None [mkErr (2, 3) (REF [pTok 99%N] (Some 100%N)) []].
Proof. split; vm_compute; reflexivity. Qed.

(* merging pending errors is associative (expected sets are kept as sorted lists, which every error the parsers create is) *)
Theorem C06_merging_pending_errors_is_associative :
  forall K a b c, wfr a -> wfr b -> Sem.join K (Sem.join K a b) c = Sem.join K a (Sem.join K b c).
Proof. exact join_assoc. Qed.

(* parsers (without recover_with / extension parsers, which read it) only ever MERGE their failures into the pending
   error: started from the register (join a r) they give the same outcome and the register (join a r'); so the union of
   expectations at the furthest position does not depend on how the alternatives are nested or sheltered *)
Theorem C06_parsers_only_merge_into_the_pending_error :
  forall K toks spn n g ctx p r o r', norec g = true -> envok ctx -> wfr r ->
    sem K toks spn n g ctx p r = Some (o, r') ->
    wfr r' /\ forall a, wfr a -> sem K toks spn n g ctx p (Sem.join K a r) = Some (o, Sem.join K a r').
Proof. exact sem_lift. Qed.

Print Assumptions C06_pending_error_is_specified.
Print Assumptions C06_merging_pending_errors_is_associative.
Print Assumptions C06_parsers_only_merge_into_the_pending_error.
Print Assumptions C06_pending_error_only_moves_forward.
Print Assumptions C06_last_error_is_register.
Print Assumptions C06_try_map_error_preserved.
