(* C10 - The result does not depend on how the input is represented. The machine runs on the
   canonical indexed token list with a span function; each Rust input kind is a small state
   machine shown here to present exactly that list (same grammar => same run), with spans differing
   only by the kind's re-basing. That InputRef touches an input only through these calls with
   previously returned cursors is checked by the correspondence run (all kinds side by side). *)
From Chum Require Import InputsP.

(* &str: a byte-offset cursor that is the offset of character i decodes to character i and moves to
   the offset of character i+1 (the unchecked UTF-8 decode is never reached off a boundary) *)
Theorem C10_str_cursor_refines_index :
  forall l i, i <= length l ->
    str_decode l (str_off l i) =
      Some (match nth_error l i with Some t => Some (t, str_off l (S i)) | None => None end).
Proof. exact str_refines. Qed.

(* byte offsets of characters are strictly increasing: spans differ from index spans only by this
   injective re-basing *)
Theorem C10_str_offsets_strictly_increasing :
  forall l i j, i < j -> j <= length l -> str_off l i < str_off l j.
Proof. exact str_off_mono. Qed.

(* &Graphemes (and any other input whose cursors are byte offsets of variable-width tokens): for every width function
   w >= 1 -- for Graphemes the byte length of each extended grapheme cluster -- a cursor that is the offset of token i
   decodes to token i and moves to the offset of token i+1, offsets are strictly increasing, and a cursor strictly inside
   a token is never decoded.  Which clusters a string consists of is unicode-segmentation's business; the correspondence
   run checks chumsky's tokenizer against it (kinds `graphemes` / `gslice`). *)
Theorem C10_byte_cursors_refine_the_index_machine_for_any_token_width :
  forall (w : tok -> nat), (forall t, 1 <= w t) ->
  forall l i, i <= length l ->
    w_decode w l (w_off w l i) =
      Some (match nth_error l i with Some t => Some (t, w_off w l (S i)) | None => None end).
Proof. exact w_refines. Qed.

Theorem C10_byte_offsets_strictly_increasing_for_any_token_width :
  forall (w : tok -> nat), (forall t, 1 <= w t) ->
  forall l i j, i < j -> j <= length l -> w_off w l i < w_off w l j.
Proof. exact w_off_mono. Qed.

Theorem C10_no_decoding_inside_a_token :
  forall (w : tok -> nat), (forall t, 1 <= w t) ->
  forall l i c, i < length l -> w_off w l i < c -> c < w_off w l (S i) -> w_decode w l c = None.
Proof. exact w_decode_inside. Qed.

(* Stream, for every batch size B > 0 (512 in the code): next at any previously returned cursor yields
   the token of the underlying sequence; cache ++ remaining iterator is invariant and the cache only
   grows, i.e. every item is pulled from the iterator at most once and in order however much the
   parser backtracks *)
Theorem C10_stream_refines_and_pulls_once :
  forall B l s c t s',
    0 < B -> stream_inv l s -> c <= length (s_cache s) ->
    stream_next B s c = (t, s') ->
    t = nth_error l c /\ stream_inv l s' /\
    (exists more, s_cache s' = s_cache s ++ more) /\
    (match t with Some _ => S c <= length (s_cache s') | None => True end).
Proof. exact stream_refines. Qed.

Theorem C10_stream_initial_state : forall l, stream_inv l (stream_init l).
Proof. exact stream_init_inv. Qed.

(* Input::map / IterInput: documented re-basing of spans to the tokens' own spans *)
Theorem C10_mapped_span_first_to_last :
  forall (spans : list span) eoi p1 p2 s1 e1 s2 e2,
    p1 < p2 -> nth_error spans p1 = Some (s1, e1) -> nth_error spans (p2 - 1) = Some (s2, e2) ->
    spn_mapped false spans eoi p1 p2 = (s1, e2).
Proof. exact mapped_nonempty_first_to_last. Qed.

Example C10_example :
  (* "aé€b": offsets 0 1 3 6 7; backtracking to offset 1 and decoding again gives é *)
  let l := [97; 233; 8364; 98]%N in
  str_off l 2 = 3 /\ str_decode l 1 = Some (Some (233%N, 3)) /\ str_decode l 2 = None
  /\ fst (stream_next 2 (snd (stream_next 2 (stream_init l) 0)) 1) = Some 233%N.
Proof. repeat split; vm_compute; reflexivity. Qed.

Print Assumptions C10_str_cursor_refines_index.
Print Assumptions C10_str_offsets_strictly_increasing.
(* IoInput: whatever order the parser asks in (backtracking, lookahead that ends before or after the parser it guards,
   the same position twice), the reader returns the byte at the cursor: every history of requests is answered by position *)
Theorem C10_io_input_answers_every_request_by_position :
  forall bytes cs, io_run bytes io_init cs = map (fun c => option_map (fun b => (b, S c)) (nth_error bytes c)) cs.
Proof. intros bytes cs. exact (io_refines bytes cs io_init io_init_ok). Qed.

(* the scenario of a.and_is(b) with b shorter than a: read 0, 1 (a), back to 0 (b), then on from 2 *)
Example C10_io_forward_jump :
  io_run [97; 98; 99]%N io_init [0; 1; 0; 2; 3] = [Some (97%N, 1); Some (98%N, 2); Some (97%N, 1); Some (99%N, 3); None].
Proof. vm_compute. reflexivity. Qed.

Print Assumptions C10_stream_refines_and_pulls_once.
Print Assumptions C10_stream_initial_state.
Print Assumptions C10_mapped_span_first_to_last.
Print Assumptions C10_byte_cursors_refine_the_index_machine_for_any_token_width.
Print Assumptions C10_byte_offsets_strictly_increasing_for_any_token_width.
Print Assumptions C10_no_decoding_inside_a_token.
Print Assumptions C10_io_input_answers_every_request_by_position.
