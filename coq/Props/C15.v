(* C15 - Context-sensitive parsing delivers the nearest context and honours configuration. *)
From Chum Require Import Corollaries Iter.

(* In the specification the context is an explicit environment: a provider replaces it for its
   sub-parser only, so a reader sees the nearest enclosing provider on the current path. *)
Theorem C15_with_ctx_provides :
  forall K toks spn n c x ctx p a, sem K toks spn (S n) (WithCtx c x) ctx p a = sem K toks spn n x (with_ctx ctx c) p a.
Proof. exact sem_with_ctx. Qed.

Theorem C15_ignore_with_ctx_passes_this_attempts_output :
  forall K toks spn n x y ctx p a va p1 e1 a1,
    sem K toks spn n x ctx p a = Some (Some (va, p1, e1), a1) ->
    sem K toks spn (S n) (IgnoreWithCtx x y) ctx p a =
      match sem K toks spn n y (with_ctx ctx va) p1 a1 with
      | Some (Some (vb, p2, e2), a2) => Some (Some (vb, p2, e1 ++ e2), a2)
      | Some (None, a2) => Some (None, a2)
      | None => None
      end.
Proof. exact sem_ignore_with_ctx. Qed.

(* just(..).configure(seq) matches exactly as the statically configured just *)
Theorem C15_configured_just_is_static_just :
  forall K toks spn n ts ctx p a,
    sem K toks spn (S n) (JustCfg ts) ctx p a = sem K toks spn (S n) (Just (val_toks (cval ctx))) ctx p a.
Proof. exact sem_just_cfg. Qed.

(* repeated().configure(..) / try_configure(.. Ok ..): the bounds in force are those the closure set from the context,
   falling back to the static ones, and the iteration is that of the statically bounded parser *)
Theorem C15_configured_repetition_bounds :
  forall a lo hi ck ctx,
    cfg_fails ck (val_count (cval ctx)) = false ->
    mk_iter (IRepCfg a lo hi ck) ctx
    = SCfg 0 (cfg_lo ck lo (val_count (cval ctx))) (cfg_hi ck hi (val_count (cval ctx))).
Proof. exact configured_bounds. Qed.

Theorem C15_configured_repetition_is_static :
  forall toks spn run a lo hi ck clo chi ctx fuel c lim sacc sacce p r,
    sdrive toks spn run fuel (IRepCfg a lo hi ck) ctx (SCfg c clo chi) lim sacc sacce p r
    = sdrive toks spn run fuel (IRep a clo chi) ctx (SCount c) lim sacc sacce p r.
Proof. exact configure_is_static. Qed.

(* try_configure whose closure returns an error: the iteration fails at once, with that error recorded at the cursor
   exactly as a try_map rejecting an empty match records it *)
Theorem C15_try_configure_error_is_failure :
  forall toks spn run a lo hi ck ctx k p r,
    (cfg_fails ck (val_count (cval ctx)) = true -> mk_iter (IRepCfg a lo hi ck) ctx = SFail lo) /\
    it_snext toks spn run (IRepCfg a lo hi ck) ctx (SFail k) p r
    = match run (TryMap PFalse FId k Empty) ctx p r with
      | Some (None, r') => Some (SErr, SFail k, r')
      | _ => None
      end.
Proof. exact try_configure_failure. Qed.

(* the machine threads the context exactly so, in every mode, through repetitions, choices and backtracking *)
Theorem C15_machine_delivers_context :
  forall K toks spn n m g ctx s v s',
    go no_quirks K toks spn n m g ctx s = (Ok v, s') -> inv toks s ->
    exists v' ems a', sem K toks spn n g ctx (cur s) (alt s) = Some (Some (v', cur s', ems), a') /\ v = bindv m v'.
Proof. exact machine_ok_is_peg. Qed.

Example C15_example :
  let toks := [97; 97; 98; 98]%N in
  (* one_of("ab") then the same letter again, twice: context from ignore_with_ctx inside a repetition *)
  let g := Collect CVec (IRep (IgnoreWithCtx (OneOf [97; 98]%N) (MapWith MWCtx (JustCfg [120%N]))) 0 None) in
  run_top no_quirks KRich toks (fun a b => (a, b)) 16 Emit g
    = TRes (Some (Some (VList [VPair (VList [VTok 97%N]) (VTok 97%N); VPair (VList [VTok 98%N]) (VTok 98%N)]))) [].
Proof. vm_compute. reflexivity. Qed.

Print Assumptions C15_with_ctx_provides.
Print Assumptions C15_ignore_with_ctx_passes_this_attempts_output.
Print Assumptions C15_configured_just_is_static_just.
Print Assumptions C15_machine_delivers_context.
Print Assumptions C15_configured_repetition_bounds.
Print Assumptions C15_configured_repetition_is_static.
Print Assumptions C15_try_configure_error_is_failure.
