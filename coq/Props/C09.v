(* C09 - Pratt parsing respects binding power and associativity and preserves token order. *)
From Chum Require Import Corollaries PrattP PrattOrder.

(* the machine's pratt_go (checkpoints, rewinds, table iteration, recursion for operands) computes
   the specification's binding-power algorithm [pratt_sem] *)
Theorem C09_machine_is_binding_power_algorithm :
  forall K toks spn n m atom ops ctx s v s',
    go no_quirks K toks spn n m (Pratt atom ops) ctx s = (Ok v, s') -> inv toks s ->
    exists v' ems a', sem K toks spn n (Pratt atom ops) ctx (cur s) (alt s) = Some (Some (v', cur s', ems), a') /\ v = bindv m v'.
Proof. intros K toks spn n m atom ops. exact (machine_ok_is_peg K toks spn n m (Pratt atom ops)). Qed.

(* an operator captures an operand only if the operand's operators bind at least as tightly *)
Theorem C09_looser_operator_not_applied :
  forall spn run rec r bp og k rest ctx minp start lhs p a,
    lpow r bp < minp ->
    pratt_sinfix spn run rec (PInfix r bp og k :: rest) ctx minp start lhs p a
    = pratt_sinfix spn run rec rest ctx minp start lhs p a.
Proof. exact infix_below_min_skipped. Qed.

Theorem C09_tighter_admitted_looser_excluded :
  (forall r r' bp bp', bp < bp' -> rpow r bp <= lpow r' bp') /\
  (forall r r' bp bp', bp' < bp -> lpow r' bp' < rpow r bp).
Proof. split; [exact tighter_admitted | exact looser_excluded]. Qed.

(* equal powers group to the left resp. to the right according to associativity *)
Theorem C09_associativity :
  (forall bp, lpow false bp < rpow false bp) /\ (forall bp, rpow true bp <= lpow true bp).
Proof. split; [exact left_assoc_excludes_equal | exact right_assoc_admits_equal]. Qed.

(* an operator whose right operand is missing is left unconsumed *)
Theorem C09_dangling_operator_unconsumed :
  forall spn run rec r bp og k rest ctx minp start lhs p a vop p1 e1 a1 a2,
    minp <= lpow r bp ->
    run og ctx p a = Some (Some (vop, p1, e1), a1) ->
    rec (rpow r bp) p1 a1 = Some (None, a2) ->
    pratt_sinfix spn run rec (PInfix r bp og k :: rest) ctx minp start lhs p a
    = pratt_sinfix spn run rec rest ctx minp start lhs p a2.
Proof. exact infix_missing_operand_unconsumed. Qed.

(* operators are tried in declaration order *)
Theorem C09_declaration_order :
  forall spn run rec r bp og k rest ctx minp start lhs p a vop p1 e1 a1 vr p2 e2 a2,
    minp <= lpow r bp ->
    run og ctx p a = Some (Some (vop, p1, e1), a1) ->
    rec (rpow r bp) p1 a1 = Some (Some (vr, p2, e2), a2) ->
    pratt_sinfix spn run rec (PInfix r bp og k :: rest) ctx minp start lhs p a
    = SDone (Some (Some (pfold_infix k lhs vop vr (spn start p2), p2, e1 ++ e2), a2)).
Proof. exact infix_first_applicable_wins. Qed.

(* flattening the tree yields the consumed tokens in order: if the atom and every operator parser keep exactly the tokens
   they consume in their output, so does atom.pratt(ops) - for every table, power, associativity, input, start position *)
Theorem C09_flattening_yields_the_consumed_tokens_in_order :
  forall K toks spn atom ops,
    sfaithful K toks spn atom ->
    Forall (fun o => forall n, faithful_op toks (sem K toks spn n) o) ops ->
    forall n ctx p a v p' e a',
      sem K toks spn n (Pratt atom ops) ctx p a = Some (Some (v, p', e), a') -> p <= length toks ->
      val_toks v = seg toks p p'.
Proof. intros K toks spn atom ops Ha Ho n. exact (pratt_faithful K toks spn atom ops Ha Ho n). Qed.

(* any() and one_of() are such parsers *)
Theorem C09_token_primitives_are_faithful :
  forall K toks spn, sfaithful K toks spn Any /\ forall ts, sfaithful K toks spn (OneOf ts).
Proof. intros K toks spn. split; [exact (any_faithful K toks spn) | exact (one_of_faithful K toks spn)]. Qed.

(* non-vacuity: - a + a * a ! with prefix 3, postfix 4, '*' left 2, '+' left 1; a ^ a ^ a right-assoc;
   a + (dangling) *)
Example C09_example :
  let ops := [PInfix false 1 (Just [43%N]) 1; PInfix false 2 (Just [42%N]) 2; PInfix true 3 (Just [94%N]) 5;
              PPrefix 3 (Just [45%N]) 3; PPostfix 4 (Just [33%N]) 4] in
  let run toks := fst (go no_quirks KRich toks (fun a b => (a, b)) 40 Emit (Pratt (Just [97%N]) ops) env0 init_st) in
  let a := VList [VTok 97%N] in
  run [97; 43; 97; 43; 97]%N
    = Ok (Some (VTag 1 (VList [VTag 1 (VList [a; VList [VTok 43%N]; a; VSpan 0 3]); VList [VTok 43%N]; a; VSpan 0 5])))
  /\ run [97; 94; 97; 94; 97]%N
    = Ok (Some (VTag 5 (VList [a; VList [VTok 94%N]; VTag 5 (VList [a; VList [VTok 94%N]; a; VSpan 2 5]); VSpan 0 5])))
  /\ run [97; 43; 97; 42; 97]%N
    = Ok (Some (VTag 1 (VList [a; VList [VTok 43%N]; VTag 2 (VList [a; VList [VTok 42%N]; a; VSpan 2 5]); VSpan 0 5])))
  /\ cur (snd (go no_quirks KRich [97; 43]%N (fun a b => (a, b)) 40 Emit (Pratt (Just [97%N]) ops) env0 init_st)) = 1.
Proof. repeat split; vm_compute; reflexivity. Qed.

Print Assumptions C09_machine_is_binding_power_algorithm.
Print Assumptions C09_looser_operator_not_applied.
Print Assumptions C09_tighter_admitted_looser_excluded.
Print Assumptions C09_associativity.
Print Assumptions C09_dangling_operator_unconsumed.
Print Assumptions C09_flattening_yields_the_consumed_tokens_in_order.
Print Assumptions C09_token_primitives_are_faithful.
Print Assumptions C09_declaration_order.
