(* C20 - Parsing is total: every input yields a result, never a panic on the "can't fail" unwraps;
   failure is always reported through the error list. *)
From Chum Require Import Total Refine Corollaries.
From Coq Require Import ZArith Lia.

(* For every grammar, context, input, error type (zero-sized included), mode, start state and fuel:
   a failing (sub-)parser always leaves a pending error, and therefore neither the recovery
   strategies', map_err's nor InputRef::parse / InputRef::check's (extension parsers) `take_alt().unwrap()` can fire. *)
Theorem C20_failure_leaves_error_and_unwraps_never_fire :
  forall K toks spn n m g ctx s,
    (fst (go no_quirks K toks spn n m g ctx s) = Err -> alt (snd (go no_quirks K toks spn n m g ctx s)) <> None) /\
    fst (go no_quirks K toks spn n m g ctx s) <> Panic PUnwrapRecovery /\
    fst (go no_quirks K toks spn n m g ctx s) <> Panic PUnwrapMapErr /\
    fst (go no_quirks K toks spn n m g ctx s) <> Panic PUnwrapInputRef.
Proof. exact go_good. Qed.

(* parse() / check(): a ParseResult is produced; without output there is at least one error *)
Theorem C20_top_level_reports_failure :
  forall K toks spn n m g,
    match run_top no_quirks K toks spn n m g with
    | TPanic k => k <> PUnwrapRecovery /\ k <> PUnwrapMapErr /\ k <> PUnwrapInputRef
    | TRes None errs => errs <> []
    | _ => True
    end.
Proof. exact run_top_total. Qed.

(* whenever the machine returns normally its result is the specification's: no stuck states *)
Theorem C20_normal_results_are_specified :
  forall K toks spn n m g ctx s r s1,
    go no_quirks K toks spn n m g ctx s = (r, s1) -> inv toks s ->
    post toks m s r s1 (sem K toks spn n g ctx (cur s) (alt s)).
Proof. exact refine. Qed.

(* the fuel bounding the model's recursion is not a semantic parameter: two runs from the same state that both answer
   (with whatever fuels) give the same answer *)
Theorem C20_answer_independent_of_fuel_ok :
  forall K toks spn n n' m g ctx s v s1 r' s2,
    inv toks s -> go no_quirks K toks spn n m g ctx s = (Ok v, s1) -> go no_quirks K toks spn n' m g ctx s = (r', s2) ->
    (r' = Err \/ exists v2, r' = Ok v2) ->
    r' = Ok v /\ cur s2 = cur s1 /\ alt s2 = alt s1 /\ sec s2 = sec s1 /\ ust s2 = ust s1.
Proof. exact machine_fuel_independent_ok. Qed.

Theorem C20_answer_independent_of_fuel_err :
  forall K toks spn n n' m g ctx s s1 r' s2,
    inv toks s -> go no_quirks K toks spn n m g ctx s = (Err, s1) -> go no_quirks K toks spn n' m g ctx s = (r', s2) ->
    (r' = Err \/ exists v2, r' = Ok v2) ->
    r' = Err /\ alt s2 = alt s1.
Proof. exact machine_fuel_independent_err. Qed.

(* non-vacuity: the zero-sized error type, a failing labelled parser under recover_with and map_err *)
(* the binding powers the Pratt algorithm compares (pratt.rs Associativity::left_power / right_power, prefix 2*bp, postfix
   2*bp+1) are computed from a u16 in u32: for every u16 they fit, so the model's unbounded arithmetic is the code's (a
   computation in u16 would overflow from 32768 on; the correspondence run uses powers up to 65535) *)
Theorem C20_binding_power_arithmetic_fits_u32 :
  forall r bp, (Z.of_nat bp < 2 ^ 16)%Z ->
    (Z.of_nat (lpow r bp) < 2 ^ 32 /\ Z.of_nat (rpow r bp) < 2 ^ 32 /\ Z.of_nat (2 * bp + 1) < 2 ^ 32)%Z.
Proof. intros r bp H. unfold lpow, rpow. destruct r; lia. Qed.

Example C20_example :
  let toks := [98]%N in
  let g := RecoverVia (Labelled 1 false (MapErr 2 (Custom [97%N] 3))) (Just [98%N]) in
  run_top no_quirks KEmpty toks (fun a b => (a, b)) 12 Emit g
    = TRes (Some (Some (VList [VTok 98%N]))) [mkErr (0, 0) (REF [] None) []].
Proof. vm_compute. reflexivity. Qed.

(* the unchanged code (flag q_zst_noop: add_alt_err ignores zero-sized errors) panicked here: finding F7 *)
Example C20_F7_refuted :
  let toks := [98]%N in
  let g := RecoverVia (Labelled 1 false (Just [97%N])) (Just [98%N]) in
  run_top (mkQ true false false false false false false false false false None) KEmpty toks (fun a b => (a, b)) 12 Emit g
    = TPanic PUnwrapRecovery.
Proof. vm_compute. reflexivity. Qed.

Print Assumptions C20_failure_leaves_error_and_unwraps_never_fire.
Print Assumptions C20_top_level_reports_failure.
Print Assumptions C20_normal_results_are_specified.
Print Assumptions C20_answer_independent_of_fuel_ok.
Print Assumptions C20_answer_independent_of_fuel_err.
Print Assumptions C20_binding_power_arithmetic_fits_u32.
