(* C08 - Error recovery is transparent on success, loud on failure, and never silent. *)
From Chum Require Import Corollaries DelimsP RecoveryP.

Theorem C08_transparent_on_success :
  forall K toks spn n x y ctx p a r a1,
    sem K toks spn n x ctx p a = Some (Some r, a1) ->
    sem K toks spn (S n) (RecoverVia x y) ctx p a = Some (Some r, a1).
Proof. exact sem_recover_transparent. Qed.

(* the strategy's output, its own emissions, plus exactly one error: the one that was pending
   when p failed (p's own failure merged with whatever earlier alternatives left further ahead) *)
Theorem C08_loud_on_failure :
  forall K toks spn n x y ctx p a a0 v p1 e1 a1,
    sem K toks spn n x ctx p a = Some (None, Some a0) ->
    sem K toks spn n y ctx p None = Some (Some (v, p1, e1), a1) ->
    sem K toks spn (S n) (RecoverVia x y) ctx p a = Some (Some (v, p1, e1 ++ [(p1, snd a0)]), a1).
Proof. exact sem_recover_loud. Qed.

Theorem C08_both_fail_same_error :
  forall K toks spn n x y ctx p a a0 a1,
    sem K toks spn n x ctx p a = Some (None, Some a0) ->
    sem K toks spn n y ctx p None = Some (None, a1) ->
    sem K toks spn (S n) (RecoverVia x y) ctx p a = Some (None, Some a0).
Proof. exact sem_recover_both_fail. Qed.

(* the machine implements exactly this (value, extent, emissions), for all three strategies *)
Theorem C08_machine_recovers_as_specified :
  forall K toks spn n m g ctx s v s',
    go no_quirks K toks spn n m g ctx s = (Ok v, s') -> inv toks s ->
    exists v' ems a', sem K toks spn n g ctx (cur s) (alt s) = Some (Some (v', cur s', ems), a') /\
                      sec s' = sec s ++ ems.
Proof. exact emissions_exact. Qed.

(* never silent: an error-free result of parse/check is an error-free specification result *)
Theorem C08_error_free_result_has_no_recovery_error :
  forall K toks spn n m g ov,
    run_top no_quirks K toks spn n m g = TRes (Some ov) [] ->
    exists v', sem_top K toks spn n g = Some (Some v', []) /\ ov = bindv m v'.
Proof. intros K toks spn n m g ov. exact (run_top_ok K toks spn n m g ov []). Qed.

(* nested_delimiters(start, end, others, fallback) -- a derived parser (Model/Text.v: nested_delims, the definition of
   recovery.rs:234-275) -- consumes exactly one balanced delimited region: whatever it matches is `start`, a balanced
   sequence (tokens that are no delimiter, and groups o .. c for the given pairs, each balanced inside), `end`; its
   output is the fallback applied to the span of exactly that region.  (Soundness; that every balanced region is matched
   is checked by the correspondence run only.) *)
Theorem C08_nested_delimiters_consumes_one_balanced_region :
  forall K toks spn s e others n ctx p a v p' em a',
    p <= length toks ->
    sem K toks spn n (nested_delims s e others) ctx p a = Some (Some (v, p', em), a') ->
    exists inner, seg toks p p' = s :: inner ++ [e] /\ bal s e others inner /\ v = vspan (spn p p').
Proof. exact nested_delims_sound. Qed.

(* skip_until consumes the fewest skip steps after which `until` matches: every skip step is taken only after `until` failed
   at that position, and the chain ends at the first position where it matches *)
Theorem C08_skip_until_takes_the_fewest_steps :
  forall run skip until ctx fuel p r acce p1 ems r',
    skip_until_sem run fuel skip until ctx p r acce = Some (Some (p1, ems), r') ->
    exists k, skips run skip until ctx p r k p1 r'.
Proof. exact skip_until_fewest. Qed.

Theorem C08_skip_until_gives_up_only_when_skipping_fails :
  forall run skip until ctx fuel p r acce r',
    skip_until_sem run fuel skip until ctx p r acce = Some (None, r') ->
    exists q ra rb, run until ctx q ra = Some (None, rb) /\ run skip ctx q rb = Some (None, r').
Proof. exact skip_until_gives_up_only_when_skipping_fails. Qed.

(* skip_then_retry_until retries the parser after each skip step, accepting only an error-free retry (any other retry is
   abandoned and the loop goes on from after the skip), and gives up when `until` matches or skipping fails *)
Theorem C08_skip_then_retry_accepts_only_clean_retries :
  forall run g skip until ctx fuel p r acce v p3 ems r',
    skip_retry_sem run fuel g skip until ctx p r acce = Some (Some (v, p3, ems), r') ->
    retries run g skip until ctx p r v p3 r'.
Proof. exact skip_then_retry_accepts_only_clean_retries. Qed.

Theorem C08_skip_then_retry_gives_up_when_until_matches_or_skipping_fails :
  forall run g skip until ctx fuel p r acce r',
    skip_retry_sem run fuel g skip until ctx p r acce = Some (None, r') ->
    exists q ra, (exists x, run until ctx q ra = Some (Some x, r')) \/
                 (exists rb, run until ctx q ra = Some (None, rb) /\ run skip ctx q rb = Some (None, r')).
Proof. exact skip_then_retry_gives_up. Qed.

Example C08_nested_delimiters_example :
  let toks := [40; 97; 91; 98; 93; 41; 99]%N in
  sem KRich toks (fun a b => (a, b)) 30 (nested_delims 40%N 41%N [(91%N, 93%N)]) env0 0 None
    = Some (Some (VSpan 0 6, 6, []), Some (5, mkErr (5, 6) (REF [pSomethingElse; pTok 40; pTok 91]%N (Some 41%N)) []))
  /\ fst (go no_quirks KRich [40; 97; 91; 98; 41]%N (fun a b => (a, b)) 30 Emit (nested_delims 40%N 41%N [(91%N, 93%N)]) env0 init_st) = Err.
Proof. split; vm_compute; reflexivity. Qed.

Example C08_example :
  let toks := [98; 120; 59]%N in
  let g := Then (RecoverSkipUntil (Just [97%N]) Any (Just [59%N]) 9) End in
  run_top no_quirks KRich toks (fun a b => (a, b)) 14 Emit g
    = TRes (Some (Some (VPair (VNat 9) VUnit))) [mkErr (0, 1) (REF [pTok 97%N] (Some 98%N)) []].
Proof. vm_compute. reflexivity. Qed.

Print Assumptions C08_transparent_on_success.
Print Assumptions C08_loud_on_failure.
Print Assumptions C08_both_fail_same_error.
Print Assumptions C08_machine_recovers_as_specified.
Print Assumptions C08_error_free_result_has_no_recovery_error.
Print Assumptions C08_nested_delimiters_consumes_one_balanced_region.
Print Assumptions C08_skip_until_takes_the_fewest_steps.
Print Assumptions C08_skip_until_gives_up_only_when_skipping_fails.
Print Assumptions C08_skip_then_retry_accepts_only_clean_retries.
Print Assumptions C08_skip_then_retry_gives_up_when_until_matches_or_skipping_fails.
