(* C04 - Check mode and internal output elision are unobservable. Statements only. *)
From Chum Require Import Corollaries.

(* For every grammar, context, start state, fuel and known-defect vector: the Check run and the Emit
   run end in the same outcome class and the same state (cursor, secondary errors, pending error,
   user state); only the value is elided. *)
Theorem C04_check_run_equals_emit_run :
  forall Q K toks spn, nested Q = None -> forall n g ctx s,
    go Q K toks spn n Check g ctx s
    = (strip (fst (go Q K toks spn n Emit g ctx s)), snd (go Q K toks spn n Emit g ctx s)).
Proof. exact mode_independent. Qed.

(* check(input) accepts exactly what parse(input) accepts and returns the identical error list *)
Theorem C04_check_equals_parse :
  forall K toks spn Q n g, nested Q = None ->
    run_top Q K toks spn n Check g =
      match run_top Q K toks spn n Emit g with
      | TRes (Some _) errs => TRes (Some None) errs
      | x => x
      end.
Proof. exact run_top_check_is_emit. Qed.

(* eliding combinators equal their value-building formulation (in the specification, to which
   the machine is tied by the refinement theorem C01) *)
Theorem C04_ignore_then_is_then_map_snd :
  forall K toks spn n x y ctx p a,
    sem K toks spn (S n) (IgnoreThen x y) ctx p a = sem K toks spn (S (S n)) (Map FSnd (Then x y)) ctx p a.
Proof. exact sem_ignore_then_is_then_snd. Qed.

Theorem C04_then_ignore_is_then_map_fst :
  forall K toks spn n x y ctx p a,
    sem K toks spn (S n) (ThenIgnore x y) ctx p a = sem K toks spn (S (S n)) (Map FFst (Then x y)) ctx p a.
Proof. exact sem_then_ignore_is_then_fst. Qed.

Theorem C04_to_is_map_const :
  forall K toks spn n k x ctx p a,
    sem K toks spn (S n) (To k x) ctx p a = sem K toks spn (S n) (Map (FConst k) x) ctx p a.
Proof. exact sem_to_is_map_const. Qed.

Theorem C04_repeated_unit_is_collect_unit :
  forall K toks spn n i ctx p a,
    sem K toks spn (S n) (RepUnit i) ctx p a = sem K toks spn (S n) (Collect CUnit i) ctx p a.
Proof. exact sem_rep_unit_is_collect_unit. Qed.

(* non-vacuity: an emitting validator under an eliding combinator, check vs parse *)
Example C04_example :
  let toks := [97; 98]%N in
  let g := IgnoreThen (Validate PTrue 7 Any) (To 3 (Just [98%N])) in
  run_top no_quirks KRich toks (fun a b => (a, b)) 12 Check g
    = TRes (Some None) [mkErr (0, 1) (RCustom 7) []]
  /\ run_top no_quirks KRich toks (fun a b => (a, b)) 12 Emit g
    = TRes (Some (Some (VNat 3))) [mkErr (0, 1) (RCustom 7) []].
Proof. split; vm_compute; reflexivity. Qed.

Print Assumptions C04_check_run_equals_emit_run.
Print Assumptions C04_check_equals_parse.
Print Assumptions C04_ignore_then_is_then_map_snd.
Print Assumptions C04_then_ignore_is_then_map_fst.
Print Assumptions C04_to_is_map_const.
Print Assumptions C04_repeated_unit_is_collect_unit.
