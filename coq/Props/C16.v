(* C16 - Nested inputs are parsed completely, in isolation, and report back faithfully.
   nested_in is glue around an inner parse of the group's children: [nested_glue] is the transcription of
   NestedIn::go + InputRef::with_input after the inner parse returned; the inner parse is
   `a.then_ignore(end())` run by the same machine on the children (Model/Nested.v ties the knot; that part
   is covered by the correspondence run on token trees, the theorems here are about the glue, for ANY inner run). *)
From Chum Require Import NestedP.

(* the outer input advances by exactly what `b` consumed, whatever happened inside *)
Theorem C16_outer_advances_by_b_only :
  forall Q K inner s1, cur (snd (nested_glue Q K inner s1)) = cur s1.
Proof. exact glue_cursor. Qed.

(* nested_in succeeds iff the inner parse (the inner grammar followed by end(): the whole inner input) succeeds *)
Theorem C16_succeeds_iff_inner_matches_completely :
  forall Q K inner s1, fst (nested_glue Q K inner s1) = fst (fst (fst inner)).
Proof. exact glue_outcome. Qed.

(* non-fatal errors emitted inside surface in the outer result, in order *)
Theorem C16_inner_emissions_surface :
  forall Q K inner s1,
    sec (snd (nested_glue Q K inner s1)) = sec s1 ++ map (fun e => (cur s1, snd e)) (snd (fst (fst inner))).
Proof. exact glue_emissions. Qed.

(* the inner failure surfaces: merged into the restored outer pending error at the outer position *)
Theorem C16_inner_failure_surfaces :
  forall Q K inner s1,
    alt (snd (nested_glue Q K inner s1)) =
      match snd (fst inner) with
      | Some (_, e) => add_alt_err (q_zst_noop Q) K (alt s1) (cur s1) e
      | None => alt s1
      end.
Proof. exact glue_alt. Qed.

(* the outer grammar backtracks over a failed nested parse like over any other failure *)
Theorem C16_outer_backtracks :
  forall Q K inner s s1 ext,
    sec s1 = sec s ++ ext ->
    rewind (snd (nested_glue Q K inner s1)) (save s) =
      mkSt (cur s) (sec s) (alt (snd (nested_glue Q K inner s1))) (ust s) (memo s1).
Proof. exact glue_backtracks. Qed.

(* non-vacuity: a group of two b's after an a; the ill-formed group (b c) makes the nested parse fail and the
   outer alternative is taken *)
Example C16_example :
  let sub := fun t : tok => if N.eqb t 2000001 then Some ([98; 98]%N, [(2, 3); (4, 5)], 7)
                            else if N.eqb t 2000002 then Some ([98; 99]%N, [(2, 3); (4, 5)], 7) else None in
  let q := nest_q 2 no_quirks KRich false sub 30 in
  let g := Then (Just [97%N]) (Or (NestedIn (Collect CVec (IRep (Just [98%N]) 0 None))) (To 5 Any)) in
  fst (go q KRich [97; 2000001]%N (spn_mapped false [(0, 1); (1, 7)] 9) 30 Emit g env0 init_st)
    = Ok (Some (VPair (VList [VTok 97%N]) (VList [VList [VTok 98%N]; VList [VTok 98%N]])))
  /\ fst (go q KRich [97; 2000002]%N (spn_mapped false [(0, 1); (1, 7)] 9) 30 Emit g env0 init_st)
    = Ok (Some (VPair (VList [VTok 97%N]) (VNat 5))).
Proof. split; vm_compute; reflexivity. Qed.

Print Assumptions C16_outer_advances_by_b_only.
Print Assumptions C16_succeeds_iff_inner_matches_completely.
Print Assumptions C16_inner_emissions_surface.
Print Assumptions C16_inner_failure_surfaces.
Print Assumptions C16_outer_backtracks.
