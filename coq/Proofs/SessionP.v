(* C13: in the model a parser is an immutable grammar term and every parse creates all of its state
   (cursor, error lists, user state, memo table) itself: a session is the map of single parses. *)
From Chum Require Export Machine.

Section SessionP.
Variable Q : quirks.
Variable K : ekind.
Variable spn_of : list tok -> nat -> nat -> span.

(* parsing a history of inputs one after the other with the same parser value *)
Fixpoint session (n : nat) (g : G) (history : list (mode * list tok)) : list top_result :=
  match history with
  | [] => []
  | (m, toks) :: rest => run_top Q K toks (spn_of toks) n m g :: session n g rest
  end.

(* the i-th result depends only on the i-th input: not on what was parsed before or after, nor how often *)
Lemma session_independent n g : forall h1 m toks h2,
  nth_error (session n g (h1 ++ (m, toks) :: h2)) (length h1) = Some (run_top Q K toks (spn_of toks) n m g).
Proof. induction h1 as [|[m0 t0] h1 IH]; intros; cbn; auto. Qed.

(* every parse starts from the same fresh state: nothing survives from one parse to the next *)
Lemma fresh_state : init_st = mkSt 0 [] None 0%N [].
Proof. reflexivity. Qed.
End SessionP.
