(* C06: the pending-error register only ever moves forward (for position-carrying error types and
   grammars without recovery, whose whole point is to consume the pending error), and a failing
   parse leaves it at or beyond its own start.  Hence the register after a run lies at or beyond every
   position at which a failure was recorded during the run: "furthest failure, never earlier". *)
From Chum Require Export SemLaws.

(* no recover_with anywhere (recovery turns the pending error into a reported one and starts afresh) *)
Fixpoint norec (g : G) : bool :=
  match g with
  | End | Empty | Any | Just _ | OneOf _ | NoneOf _ | Select _ _ | Custom _ _ | JustCfg _ | Var _ | Skip _ | Prog _ _ => true
  | Map _ a | MapWith _ a | To _ a | Ignored a | ToSpan a | ToSlice a | Filter _ a | TryMap _ _ _ a
  | TryMapWith _ _ _ a | Validate _ _ a | OrNot a | Not a | Rewind a | Labelled _ _ a | MapErr _ a
  | WithCtx _ a | MapCtx _ a | Memo _ a | Rec a | NestedIn a | WithState _ a | Padded _ a => norec a
  | Then a b | IgnoreThen a b | ThenIgnore a b | PaddedBy a b | Or a b | AndIs a b
  | IgnoreWithCtx a b | ThenWithCtx a b => norec a && norec b
  | DelimitedBy a b c => norec a && norec b && norec c
  | Group gs | Choice gs | ChoiceVec gs | GroupArr gs => forallb norec gs
  | RepUnit i | Collect _ i | CollectExactly _ i => norec_it i
  | Foldl a i _ | FoldlWith a i _ => norec a && norec_it i
  | Foldr i b _ | FoldrWith i b _ => norec_it i && norec b
  | RecoverVia _ _ | RecoverSkipUntil _ _ _ _ | RecoverSkipRetry _ _ _ => false
  | ExtWrap _ => false          (* hands its failure back as a value: the pending error is re-recorded at the parser's start *)
  | Pratt atom ops => norec atom && forallb norec_op ops
  end
with norec_it (i : IT) : bool :=
  match i with
  | IRep a _ _ | IOrNot a | IRepCfg a _ _ _ | IIntoIter a => norec a
  | ISep a s _ _ _ _ => norec a && norec s
  | IEnum j | IMap _ j | IMapWith _ j => norec_it j
  | IThen i j => norec_it i && norec_it j
  end
with norec_op (o : pop) : bool :=
  match o with PInfix _ _ g _ | PPrefix _ g _ | PPostfix _ g _ => norec g end.

From Chum Require Import Extent.

Lemma it_eager_norec ctx : forall i g, norec_it i = true -> it_eager i ctx = Some g -> norec g = true.
Proof.
  induction i as [a lo hi|a sep lo hi lead trail|j IHj|f j IHj|f j IHj|a|a lo hi ck|a|i1 IHi1 i2 IHi2]; intros g Hn H; cbn [it_eager] in H;
    try discriminate; cbn [norec_it] in Hn; eauto; try (apply andb_prop in Hn; destruct Hn; eauto; fail).
  - destruct (cfg_fails ck (val_count (cval ctx))); [|discriminate]. injection H as <-. reflexivity.
  - injection H as <-. cbn. now rewrite Hn.
Qed.

Section Furthest.
Variable K : ekind.
Variable toks : list tok.
Variable spn : nat -> nat -> span.
Hypothesis HK : is_zst K = false.           (* the error type carries a position *)
Notation sem := (sem K toks spn).

(* register order: by position *)
Definition rle (a a' : reg) : Prop :=
  match a, a' with
  | None, _ => True
  | Some (q, _), Some (q', _) => q <= q'
  | Some _, None => False
  end.
(* the register lies at or beyond position p *)
Definition rge (a : reg) (p : nat) : Prop := match a with Some (q, _) => p <= q | None => False end.

Lemma rle_refl a : rle a a.
Proof. destruct a as [[q e]|]; cbn; auto. Qed.
Lemma rle_trans a b c : rle a b -> rle b c -> rle a c.
Proof. destruct a as [[q e]|], b as [[q1 e1]|], c as [[q2 e2]|]; cbn; try tauto; lia. Qed.
Lemma rge_rle a a' p : rge a p -> rle a a' -> rge a' p.
Proof. destruct a as [[q e]|], a' as [[q1 e1]|]; cbn; try tauto; lia. Qed.
Lemma rge_le a p p' : rge a p -> p' <= p -> rge a p'.
Proof. destruct a as [[q e]|]; cbn; try tauto; lia. Qed.

Lemma ef_mono a p exp f sp : rle a (ef K a p exp f sp) /\ rge (ef K a p exp f sp) p.
Proof.
  unfold ef, add_alt. rewrite HK. destruct a as [[q e]|]; cbn; [|lia].
  destruct (Nat.compare q p) eqn:E; cbn.
  - apply Nat.compare_eq in E. lia.
  - apply Nat.compare_lt_iff in E. lia.
  - apply Nat.compare_gt_iff in E. lia.
Qed.
Lemma ee_mono a p e : rle a (ee K a p e) /\ rge (ee K a p e) p.
Proof.
  unfold ee, add_alt_err. rewrite HK. destruct a as [[q x]|]; cbn; [|lia].
  destruct (Nat.compare q p) eqn:E; cbn.
  - apply Nat.compare_eq in E. lia.
  - apply Nat.compare_lt_iff in E. lia.
  - apply Nat.compare_gt_iff in E. lia.
Qed.
Lemma fail_at_mono a p exp : rle a (fail_at K toks spn a p exp) /\ rge (fail_at K toks spn a p exp) p.
Proof. unfold fail_at. destruct (nth_error toks p); apply ef_mono. Qed.
Lemma join_mono a new : rle a (join K a new).
Proof. destruct new as [[q e]|]; cbn; [apply ee_mono | apply rle_refl]. Qed.
Lemma join_ge a new p : rge new p -> rge (join K a new) p.
Proof. destruct new as [[q e]|]; cbn; [|tauto]. intros H. eapply rge_le; [apply ee_mono|exact H]. Qed.

Definition envok (ctx : env) : Prop := forallb norec (crec ctx) = true.

(* the claim, for a semantic function *)
Definition MN (run : srun_t) : Prop :=
  forall g ctx p a o a', norec g = true -> envok ctx -> p <= length toks ->
    run g ctx p a = Some (o, a') -> rle a a' /\ (o = None -> rge a' p).

Lemma just_sem_mono ts : forall p a r a',
  just_sem K toks spn ts p a = (r, a') -> rle a a' /\ (r = None -> rge a' p).
Proof.
  induction ts as [|t ts IH]; intros p a r a' H; cbn in H.
  - injection H as <- <-. split; [apply rle_refl | discriminate].
  - destruct (nth_error toks p) as [u|].
    + destruct (N.eqb t u).
      * apply IH in H. destruct H as (H1 & H2). split; auto. intros Hr. eapply rge_le; [apply H2, Hr | lia].
      * injection H as <- <-. split; [apply ef_mono | intros _; apply ef_mono].
    + injection H as <- <-. split; [apply ef_mono | intros _; apply ef_mono].
Qed.

Section L.
Variable run : srun_t.
Hypothesis HM : MN run.
Hypothesis HE : Ext toks run.

Lemma choice_sem_mono : forall gs ctx p a o a', forallb norec gs = true -> envok ctx -> p <= length toks ->
  choice_sem run gs ctx p a = Some (o, a') -> rle a a' /\ (o = None -> gs <> [] -> rge a' p).
Proof.
  induction gs as [|g gs IH]; intros ctx p a o a' Hn He Hp H; cbn in H, Hn.
  - injection H as <- <-. split; [apply rle_refl | intros _ C; contradiction].
  - apply andb_prop in Hn. destruct Hn as (Hg & Hgs).
    destruct (run g ctx p a) as [[[r|] a1]|] eqn:E; try discriminate.
    + injection H as <- <-. apply HM in E; auto. destruct E. split; auto; intros; discriminate.
    + pose proof (HM _ _ _ _ _ _ Hg He Hp E) as (M1 & M2).
      apply IH in H; auto. destruct H as (H1 & H2). split; [eapply rle_trans; eauto|].
      intros Ho _. destruct gs as [|g2 gs2].
      * cbn in *. eapply rge_rle; [apply M2; reflexivity|exact H1].
      * apply H2; auto. discriminate.
Qed.

Lemma group_sem_mono : forall gs ctx p a accv acce o a' p0, forallb norec gs = true -> envok ctx -> p <= length toks -> p0 <= p ->
  group_sem run gs ctx p a accv acce = Some (o, a') -> rle a a' /\ (o = None -> rge a' p0).
Proof.
  induction gs as [|g gs IH]; intros ctx p a accv acce o a' p0 Hn He Hp H0 H; cbn in H, Hn.
  - injection H as <- <-. split; [apply rle_refl | discriminate].
  - apply andb_prop in Hn. destruct Hn as (Hg & Hgs).
    destruct (run g ctx p a) as [[[[[v1 p1] e1]|] a1]|] eqn:E; try discriminate.
    + pose proof (HM _ _ _ _ _ _ Hg He Hp E) as (M1 & _). pose proof (HE _ _ _ _ _ _ _ _ E Hp).
      apply (IH ctx p1 a1 _ _ o a' p0) in H; auto; try lia. destruct H as (G1 & G2). split; [eapply rle_trans; eauto | exact G2].
    + injection H as <- <-. pose proof (HM _ _ _ _ _ _ Hg He Hp E) as (M1 & M2). split; auto.
      intros _. eapply rge_le; [apply M2; reflexivity | lia].
Qed.

(* one iterator step *)
Definition step_ok (p : nat) (r : reg) (x : snext) (r' : reg) : Prop :=
  rle r r' /\ match x with SErr => rge r' p | _ => True end.

Lemma rep_snext_mono a lo hi ctx c p r x c' r' : norec a = true -> envok ctx -> p <= length toks ->
  rep_snext run a lo hi ctx c p r = Some (x, c', r') -> step_ok p r x r'.
Proof.
  unfold rep_snext. intros Hn He Hp H. destruct (at_cap c hi); [injection H as <- <- <-; split; [apply rle_refl|exact I]|].
  destruct (run a ctx p r) as [[[[[v1 p1] e1]|] a1]|] eqn:E; try discriminate.
  - injection H as <- <- <-. apply HM in E; auto. split; [apply E | exact I].
  - pose proof (HM _ _ _ _ _ _ Hn He Hp E) as (M1 & M2).
    destruct (lo <=? c); injection H as <- <- <-; split; auto; exact I.
Qed.

Lemma sep_sitem_mono a lo trail ctx c p ps es r0 x c' r' : norec a = true -> envok ctx -> p <= ps <= length toks ->
  sep_sitem run a lo trail ctx c p ps es r0 = Some (x, c', r') -> step_ok p r0 x r'.
Proof.
  unfold sep_sitem. intros Hn He Hp H.
  destruct (run a ctx ps r0) as [[[[[v1 p1] e1]|] a1]|] eqn:E; try discriminate.
  - injection H as <- <- <-. apply HM in E; auto; try lia. split; [apply E | exact I].
  - pose proof (HM _ _ _ _ _ _ Hn He (proj2 Hp) E) as (M1 & M2).
    destruct (c <? lo); [injection H as <- <- <-; split; auto; eapply rge_le; [apply M2; reflexivity | lia]|].
    destruct trail; injection H as <- <- <-; split; auto; exact I.
Qed.

Lemma sep_snext_mono a sep lo hi lead trail ctx c p r x c' r' : norec a = true -> norec sep = true -> envok ctx -> p <= length toks ->
  sep_snext run a sep lo hi lead trail ctx c p r = Some (x, c', r') -> step_ok p r x r'.
Proof.
  unfold sep_snext. intros Hn Hs He Hp H. destruct (at_cap c hi); [injection H as <- <- <-; split; [apply rle_refl|exact I]|].
  assert (Hsep : forall v1 p1 e1 a1, run sep ctx p r = Some (Some (v1, p1, e1), a1) ->
            sep_sitem run a lo trail ctx c p p1 e1 a1 = Some (x, c', r') -> step_ok p r x r').
  { intros v1 p1 e1 a1 E Hi. pose proof (HM _ _ _ _ _ _ Hs He Hp E) as (M1 & _). pose proof (HE _ _ _ _ _ _ _ _ E Hp).
    eapply sep_sitem_mono in Hi; eauto. destruct Hi as (I1 & I2). split; [eapply rle_trans; eauto | exact I2]. }
  assert (Hnone : forall a1, run sep ctx p r = Some (None, a1) ->
            sep_sitem run a lo trail ctx c p p [] a1 = Some (x, c', r') -> step_ok p r x r').
  { intros a1 E Hi. pose proof (HM _ _ _ _ _ _ Hs He Hp E) as (M1 & _).
    eapply sep_sitem_mono in Hi; eauto; try lia. destruct Hi as (I1 & I2). split; [eapply rle_trans; eauto | exact I2]. }
  destruct ((c =? 0) && lead).
  - destruct (run sep ctx p r) as [[[[[v1 p1] e1]|] a1]|] eqn:E; try discriminate; eauto.
  - destruct (0 <? c).
    + destruct (run sep ctx p r) as [[[[[v1 p1] e1]|] a1]|] eqn:E; try discriminate; eauto.
      pose proof (HM _ _ _ _ _ _ Hs He Hp E) as (M1 & M2).
      destruct (c <? lo); injection H as <- <- <-; split; auto; exact I.
    + apply (sep_sitem_mono a lo trail ctx c p p [] r x c' r' Hn He); [lia | exact H].
Qed.

Lemma it_snext_mono : forall i ctx its p r x its' r', norec_it i = true -> envok ctx -> p <= length toks ->
  it_snext toks spn run i ctx its p r = Some (x, its', r') -> step_ok p r x r'.
Proof.
  induction i as [a lo hi|a sep lo hi lead trail|j IHj|f j IHj|f j IHj|a|a lo hi ck|a|i1 IHi1 i2 IHi2];
    intros ctx its p r x its' r' Hn He Hp H; cbn [it_snext] in H; cbn [norec_it] in Hn.
  - destruct its; try discriminate.
    destruct (rep_snext run a lo hi ctx n p r) as [[[x0 c'] r0]|] eqn:E; [|discriminate].
    injection H as <- <- <-. exact (rep_snext_mono _ _ _ _ _ _ _ _ _ _ Hn He Hp E).
  - destruct its; try discriminate. apply andb_prop in Hn. destruct Hn as (Hna & Hns).
    destruct (sep_snext run a sep lo hi lead trail ctx n p r) as [[[x0 c'] r0]|] eqn:E; [|discriminate].
    injection H as <- <- <-. exact (sep_snext_mono _ _ _ _ _ _ _ _ _ _ _ _ _ Hna Hns He Hp E).
  - destruct its; try discriminate.
    destruct (it_snext toks spn run j ctx its p r) as [[[x0 c'] r0]|] eqn:E; [|discriminate].
    apply IHj in E; auto. destruct x0; injection H as <- <- <-; exact E.
  - destruct (it_snext toks spn run j ctx its p r) as [[[x0 c'] r0]|] eqn:E; [|discriminate].
    apply IHj in E; auto. destruct x0; injection H as <- <- <-; exact E.
  - destruct (it_snext toks spn run j ctx its p r) as [[[x0 c'] r0]|] eqn:E; [|discriminate].
    apply IHj in E; auto. destruct x0; injection H as <- <- <-; exact E.
  - destruct its; try discriminate. destruct b; [injection H as <- <- <-; split; [apply rle_refl|exact I]|].
    destruct (run a ctx p r) as [[[[[v1 p1] e1]|] a1]|] eqn:E; try discriminate; injection H as <- <- <-;
      apply HM in E; auto; split; try apply E; exact I.
  - destruct its; try discriminate.
    + destruct (rep_snext run a lo0 hi0 ctx n p r) as [[[x0 c'] r0]|] eqn:E; [|discriminate].
      injection H as <- <- <-. exact (rep_snext_mono _ _ _ _ _ _ _ _ _ _ Hn He Hp E).
    + destruct (run (TryMap PFalse FId k Empty) ctx p r) as [[[?|] r1]|] eqn:E; try discriminate.
      injection H as <- <- <-. apply HM in E; auto. destruct E as (E1 & E2). split; [exact E1 | apply E2; reflexivity].
  - destruct its as [| | | | |[l|]|]; try discriminate.
    + destruct l; injection H as <- <- <-; (split; [apply rle_refl|exact I]).
    + destruct (run a ctx p r) as [[[[[v1 p1] e1]|] a1]|] eqn:E; try discriminate.
      * apply HM in E; auto. destruct (val_items v1); injection H as <- <- <-; (split; [apply E | exact I]).
      * injection H as <- <- <-. apply HM in E; auto. destruct E as (E1 & E2). split; [exact E1 | apply E2; reflexivity].
  - apply andb_prop in Hn. destruct Hn as (Hn1 & Hn2).
    destruct its as [| | | | | |sa [sb|]]; try discriminate.
    + destruct (it_snext toks spn run i2 ctx sb p r) as [[[x0 c'] r0]|] eqn:E; [|discriminate].
      injection H as <- <- <-. eapply IHi2; eauto.
    + destruct (it_snext toks spn run i1 ctx sa p r) as [[[x0 c'] r0]|] eqn:E; [|discriminate].
      pose proof (IHi1 _ _ _ _ _ _ _ Hn1 He Hp E) as (S1 & S2).
      pose proof (it_snext_ext toks spn run HE _ _ _ _ _ _ _ _ E Hp) as X.
      destruct x0; try (injection H as <- <- <-; split; assumption). cbn in X.
      destruct (it_snext toks spn run i2 ctx (mk_iter i2 ctx) p0 r0) as [[[x1 c1] r1]|] eqn:E2; [|discriminate].
      pose proof (IHi2 _ _ _ _ _ _ _ Hn2 He (proj2 X) E2) as (T1 & T2).
      destruct x1; injection H as <- <- <-; (split; [eapply rle_trans; eauto|]); try exact I.
      cbn in T2 |- *. eapply rge_le; [exact T2 | lia].
Qed.

Lemma sdrive_mono : forall fuel i ctx its lim acc acce p r o r' p0, norec_it i = true -> envok ctx -> p <= length toks -> p0 <= p ->
  sdrive toks spn run fuel i ctx its lim acc acce p r = Some (o, r') -> rle r r' /\ (o = None -> rge r' p0).
Proof.
  induction fuel as [|fuel IH]; intros i ctx its lim acc acce p r o r' p0 Hn He Hp H0 H; cbn [sdrive] in H; [discriminate|].
  assert (Hstep :
    match it_snext toks spn run i ctx its p r with
    | Some (SSome v p1 e1, its', r1) =>
        sdrive toks spn run fuel i ctx its' (option_map Nat.pred lim) ((v, p, p1) :: acc) (acce ++ e1) p1 r1
    | Some (SNone p1 e1, _, r1) => Some (Some (acc, true, p1, acce ++ e1), r1)
    | Some (SErr, _, r1) => Some (None, r1)
    | None => None
    end = Some (o, r') -> rle r r' /\ (o = None -> rge r' p0)).
  { clear H. intros H.
    destruct (it_snext toks spn run i ctx its p r) as [[[x its'] r1]|] eqn:E; [|discriminate].
    pose proof (it_snext_mono _ _ _ _ _ _ _ _ Hn He Hp E) as (S1 & S2).
    pose proof (it_snext_ext toks spn run HE _ _ _ _ _ _ _ _ E Hp) as Hx.
    destruct x; cbn in Hx, S2.
    - injection H as <- <-. split; auto. discriminate.
    - apply (IH i ctx its' _ _ _ p1 r1 o r' p0) in H; auto; try lia. destruct H as (G1 & G2). split; [eapply rle_trans; eauto | exact G2].
    - injection H as <- <-. split; auto. intros _. eapply rge_le; eauto. }
  destruct lim as [[|l]|]; auto. injection H as <- <-. split; [apply rle_refl | discriminate].
Qed.

(* Pratt *)
Definition sp_ok (a : reg) (x : spresult) : Prop :=
  match x with
  | SDone (Some (Some _, a')) => rle a a'
  | SDone (Some (None, _)) => False
  | SDone None => True
  | SNext a' => rle a a'
  end.

Section PM.
Variable rec : nat -> nat -> reg -> option sres.
Hypothesis Hrec : forall minp p a o a', p <= length toks -> rec minp p a = Some (o, a') -> rle a a'.
Hypothesis HrecE : forall minp p a v p' e a', rec minp p a = Some (Some (v, p', e), a') ->
  p <= length toks -> p <= p' <= length toks.

Lemma sprefix_mono : forall ops ctx start a, forallb norec_op ops = true -> envok ctx -> start <= length toks ->
  sp_ok a (pratt_sprefix spn run rec ops ctx start a).
Proof.
  induction ops as [|o ops IH]; intros ctx start a Hn He Hp; cbn [pratt_sprefix]; [apply rle_refl|].
  cbn in Hn. apply andb_prop in Hn. destruct Hn as (Ho & Hops).
  destruct o as [r bp og k|bp og k|bp og k]; try (apply IH; auto). cbn in Ho.
  destruct (run og ctx start a) as [[[[[v1 p1] e1]|] a1]|] eqn:E; [| |exact I].
  - pose proof (HM _ _ _ _ _ _ Ho He Hp E) as (M1 & _). pose proof (HE _ _ _ _ _ _ _ _ E Hp) as X.
    destruct (rec (2 * bp) p1 a1) as [[[[[v2 p2] e2]|] a2]|] eqn:E2; [| |exact I].
    + cbn. eapply rle_trans; [exact M1|]. exact (Hrec _ _ _ _ _ (proj2 X) E2).
    + assert (rle a a2) by (eapply rle_trans; [exact M1 | exact (Hrec _ _ _ _ _ (proj2 X) E2)]).
      specialize (IH ctx start a2 Hops He Hp). destruct (pratt_sprefix spn run rec ops ctx start a2) as [[[[x|] a3]|]|a3]; cbn in *; auto;
        eapply rle_trans; eauto.
  - pose proof (HM _ _ _ _ _ _ Ho He Hp E) as (M1 & _).
    specialize (IH ctx start a1 Hops He Hp). destruct (pratt_sprefix spn run rec ops ctx start a1) as [[[[x|] a3]|]|a3]; cbn in *; auto;
      eapply rle_trans; eauto.
Qed.

Lemma spostfix_mono : forall ops ctx minp start lhs p a, forallb norec_op ops = true -> envok ctx -> p <= length toks ->
  sp_ok a (pratt_spostfix spn run ops ctx minp start lhs p a).
Proof.
  induction ops as [|o ops IH]; intros ctx minp start lhs p a Hn He Hp; cbn [pratt_spostfix]; [apply rle_refl|].
  cbn in Hn. apply andb_prop in Hn. destruct Hn as (Ho & Hops).
  destruct o as [r bp og k|bp og k|bp og k]; try (apply IH; auto). cbn in Ho.
  destruct (minp <=? 2 * bp + 1); [|apply IH; auto].
  destruct (run og ctx p a) as [[[[[v1 p1] e1]|] a1]|] eqn:E; [| |exact I].
  - pose proof (HM _ _ _ _ _ _ Ho He Hp E) as (M1 & _). exact M1.
  - pose proof (HM _ _ _ _ _ _ Ho He Hp E) as (M1 & _).
    specialize (IH ctx minp start lhs p a1 Hops He Hp).
    destruct (pratt_spostfix spn run ops ctx minp start lhs p a1) as [[[[x|] a3]|]|a3]; cbn in *; auto; eapply rle_trans; eauto.
Qed.

Lemma sinfix_mono : forall ops ctx minp start lhs p a, forallb norec_op ops = true -> envok ctx -> p <= length toks ->
  sp_ok a (pratt_sinfix spn run rec ops ctx minp start lhs p a).
Proof.
  induction ops as [|o ops IH]; intros ctx minp start lhs p a Hn He Hp; cbn [pratt_sinfix]; [apply rle_refl|].
  cbn in Hn. apply andb_prop in Hn. destruct Hn as (Ho & Hops).
  destruct o as [r bp og k|bp og k|bp og k]; try (apply IH; auto). cbn in Ho.
  destruct (minp <=? lpow r bp); [|apply IH; auto].
  destruct (run og ctx p a) as [[[[[v1 p1] e1]|] a1]|] eqn:E; [| |exact I].
  - pose proof (HM _ _ _ _ _ _ Ho He Hp E) as (M1 & _). pose proof (HE _ _ _ _ _ _ _ _ E Hp) as X.
    destruct (rec (rpow r bp) p1 a1) as [[[[[v2 p2] e2]|] a2]|] eqn:E2; [| |exact I].
    + cbn. eapply rle_trans; [exact M1|]. exact (Hrec _ _ _ _ _ (proj2 X) E2).
    + assert (rle a a2) by (eapply rle_trans; [exact M1 | exact (Hrec _ _ _ _ _ (proj2 X) E2)]).
      specialize (IH ctx minp start lhs p a2 Hops He Hp).
      destruct (pratt_sinfix spn run rec ops ctx minp start lhs p a2) as [[[[x|] a3]|]|a3]; cbn in *; auto; eapply rle_trans; eauto.
  - pose proof (HM _ _ _ _ _ _ Ho He Hp E) as (M1 & _).
    specialize (IH ctx minp start lhs p a1 Hops He Hp).
    destruct (pratt_sinfix spn run rec ops ctx minp start lhs p a1) as [[[[x|] a3]|]|a3]; cbn in *; auto; eapply rle_trans; eauto.
Qed.
End PM.

Lemma pratt_mono atom ops ctx : norec atom = true -> forallb norec_op ops = true -> envok ctx -> forall fuel,
  (forall minp p a o a', p <= length toks -> pratt_sem spn run fuel atom ops ctx minp p a = Some (o, a') ->
     rle a a' /\ (o = None -> rge a' p)) /\
  (forall minp start lhs acce p a o a', p <= length toks ->
     pratt_sloop spn run fuel atom ops ctx minp start lhs acce p a = Some (o, a') -> rle a a' /\ o <> None).
Proof.
  intros Ha Hops He. induction fuel as [|f [IHs IHl]]; [split; intros; discriminate|].
  assert (Hrec : forall minp p a o a', p <= length toks -> pratt_sem spn run f atom ops ctx minp p a = Some (o, a') -> rle a a')
    by (intros; eapply IHs; eauto).
  assert (HrecE := proj1 (pratt_ext toks spn run HE atom ops ctx f)).
  split.
  - intros minp p a o a' Hp H. rewrite pratt_sem_S in H.
    pose proof (sprefix_mono _ Hrec ops ctx p a Hops He Hp) as P.
    destruct (pratt_sprefix spn run (pratt_sem spn run f atom ops ctx) ops ctx p a) as [[[[[[v1 p1] e1]|] a1]|]|a1] eqn:E;
      cbn in P; try contradiction; try discriminate.
    + assert (p <= p1 <= length toks) by (eapply pratt_sprefix_ext; eauto).
      apply IHl in H; try lia. destruct H as (H1 & H2). split; [eapply rle_trans; eauto | intros; contradiction].
    + destruct (run atom ctx p a1) as [[[[[v1 p1] e1]|] a2]|] eqn:Ea; try discriminate.
      * pose proof (HM _ _ _ _ _ _ Ha He Hp Ea) as (M1 & _). pose proof (HE _ _ _ _ _ _ _ _ Ea Hp).
        apply IHl in H; try lia. destruct H as (H1 & H2).
        split; [eapply rle_trans; [exact P|eapply rle_trans; eauto] | intros; contradiction].
      * injection H as <- <-. pose proof (HM _ _ _ _ _ _ Ha He Hp Ea) as (M1 & M2).
        split; [eapply rle_trans; eauto | auto].
  - intros minp start lhs acce p a o a' Hp H. rewrite pratt_sloop_S in H.
    pose proof (spostfix_mono ops ctx minp start lhs p a Hops He Hp) as P.
    destruct (pratt_spostfix spn run ops ctx minp start lhs p a) as [[[[[[v1 p1] e1]|] a1]|]|a1] eqn:E;
      cbn in P; try contradiction; try discriminate.
    + assert (p <= p1 <= length toks) by (eapply pratt_spostfix_ext; eauto).
      apply IHl in H; try lia. destruct H as (H1 & H2). split; [eapply rle_trans; eauto | exact H2].
    + pose proof (sinfix_mono _ Hrec ops ctx minp start lhs p a1 Hops He Hp) as P2.
      destruct (pratt_sinfix spn run (pratt_sem spn run f atom ops ctx) ops ctx minp start lhs p a1) as [[[[[[v1 p1] e1]|] a2]|]|a2] eqn:Ei;
        cbn in P2; try contradiction; try discriminate.
      * assert (p <= p1 <= length toks) by (eapply pratt_sinfix_ext; eauto).
        apply IHl in H; try lia. destruct H as (H1 & H2).
        split; [eapply rle_trans; [exact P|eapply rle_trans; eauto] | exact H2].
      * injection H as <- <-. split; [eapply rle_trans; eauto | discriminate].
Qed.

End L.

Lemma envok_nth ctx k x : envok ctx -> nth_error (crec ctx) k = Some x ->
  norec x = true /\ envok (mkEnv (cval ctx) (skipn k (crec ctx))).
Proof.
  unfold envok. cbn. generalize (crec ctx). intros l. revert k.
  induction l as [|y l IH]; intros [|k] H E; cbn in *; try discriminate.
  - injection E as ->. apply andb_prop in H. destruct H. split; auto. cbn. now rewrite H, H0.
  - apply andb_prop in H. destruct H. eapply IH; eauto.
Qed.

Ltac mn_crush IH :=
  repeat match goal with
  | H : context [match sem ?n ?g ?c ?p ?a with _ => _ end] |- _ =>
      let E := fresh "E" in
      destruct (sem n g c p a) as [[[[[? ?] ?]|] ?]|] eqn:E; try discriminate
  | H : context [if ?b then _ else _] |- _ => destruct b; try discriminate
  | H : Some _ = Some _ |- _ => injection H as <- <-
  end.

(* use the induction hypothesis on a run E : sem n g ctx p a = Some (o, a1) *)
Ltac mn_use IH IHE E Hp :=
  let M := fresh "M" in let X := fresh "X" in
  pose proof (IH _ _ _ _ _ _ ltac:(assumption) ltac:(assumption) Hp E) as M;
  try (pose proof (IHE _ _ _ _ _ _ _ _ E Hp) as X).

(* destruct the next sub-run in H (started at the current position with the current register),
   bring in the induction hypothesis and the extent of the sub-run *)
Ltac c1 IH IHE Hn He Hp H :=
  match type of H with
  | context [match sem ?n ?g ?c ?p ?a with _ => _ end] =>
      let E := fresh "E" in let M1 := fresh "M1" in let M2 := fresh "M2" in let X := fresh "X" in
      destruct (sem n g c p a) as [[[[[? ?] ?]|] ?]|] eqn:E; try discriminate;
      pose proof (IH _ _ _ _ _ _ Hn He Hp E) as (M1 & M2);
      try (pose proof (IHE _ _ _ _ _ _ _ _ E Hp) as X)
  end.
(* the same for a later sub-run, whose start is bounded through the extents collected so far *)
Ltac c1' IH IHE Hn He H :=
  match type of H with
  | context [match sem ?n ?g ?c ?p ?a with _ => _ end] =>
      let E := fresh "E" in let M1 := fresh "M1" in let M2 := fresh "M2" in let X := fresh "X" in let Hq := fresh "Hq" in
      assert (Hq : p <= length toks) by lia;
      destruct (sem n g c p a) as [[[[[? ?] ?]|] ?]|] eqn:E; try discriminate;
      let T := fresh "T" in
      pose proof (fun H0 => IH _ _ _ _ _ _ Hn H0 Hq E) as T; specialize (T He); destruct T as (M1 & M2);
      try (pose proof (IHE _ _ _ _ _ _ _ _ E Hq) as X)
  end.
Ltac rtrans :=
  solve [ apply rle_refl | eassumption
        | eapply rle_trans; [eassumption|]; rtrans ].
Ltac fin :=
  try discriminate;
  match goal with H : Some _ = Some _ |- _ => injection H as <- <- end;
  (split; [ try rtrans | intros Ho; try discriminate; try (clear Ho);
            try solve [ match goal with M : None = None -> rge ?a ?q |- rge ?a' ?p =>
                          eapply rge_le; [eapply rge_rle; [apply M; reflexivity | try rtrans] | lia] end
                      | match goal with M : None = None -> rge ?a ?q |- rge ?a ?p =>
                          eapply rge_le; [apply M; reflexivity | lia] end ] ]).

Theorem sem_mn : forall n, MN (sem n).
Proof.
  induction n as [|n IH]; intros g ctx p a o a' Hn He Hp H; [discriminate|].
  pose proof (sem_ext K toks spn n) as IHE.
  destruct g; cbn [Sem.sem] in H; cbn [norec] in Hn.
  - (* End *) destruct (nth_error toks p); injection H as <- <-; (split; [|intros; try discriminate]);
      try apply rle_refl; apply ef_mono.
  - injection H as <- <-. split; [apply rle_refl | discriminate].
  - unfold one_tok_sem in H. destruct (nth_error toks p); injection H as <- <-; (split; [|intros; try discriminate]);
      try apply rle_refl; apply ef_mono.
  - destruct (just_sem K toks spn ts p a) as [[p1|] a1] eqn:E; injection H as <- <-;
      apply just_sem_mono in E; destruct E; split; auto; discriminate.
  - unfold one_tok_sem in H. destruct (nth_error toks p); [destruct (memN t ts)|]; injection H as <- <-;
      (split; [|intros; try discriminate]); try apply rle_refl; apply ef_mono.
  - unfold one_tok_sem in H. destruct (nth_error toks p); [destruct (memN t ts)|]; injection H as <- <-;
      (split; [|intros; try discriminate]); try apply rle_refl; apply ef_mono.
  - unfold one_tok_sem in H. destruct (nth_error toks p); [destruct (holds p0 (VTok t))|]; injection H as <- <-;
      (split; [|intros; try discriminate]); try apply rle_refl; apply ef_mono.
  - (* Custom *) destruct (custom_sem toks ts p) as [[] p1]; injection H as <- <-;
      (split; [|intros; try discriminate]); try apply rle_refl; apply ee_mono.
  (* single-child pass-through: Map MapWith To Ignored ToSpan ToSlice *)
  - c1 IH IHE Hn He Hp H; fin.
  - c1 IH IHE Hn He Hp H; fin.
  - c1 IH IHE Hn He Hp H; fin.
  - c1 IH IHE Hn He Hp H; fin.
  - c1 IH IHE Hn He Hp H; fin.
  - c1 IH IHE Hn He Hp H; fin.
  - (* Filter *) c1 IH IHE Hn He Hp H; [destruct (holds p0 v)|]; fin.
    + eapply rle_trans; [eassumption | apply ef_mono].
    + eapply rge_le; [apply ef_mono | lia].
  - (* TryMap *)
    destruct (sem n g ctx p None) as [[[[[v1 p1] e1]|] a1]|] eqn:E; try discriminate;
      pose proof (IH _ _ _ _ _ _ Hn He Hp E) as (M1 & M2).
    + destruct (holds p0 v1); injection H as <- <-; (split; [|intros; try discriminate]).
      * apply join_mono. * apply ee_mono. * apply ee_mono.
    + injection H as <- <-. split; [apply join_mono | intros _; apply join_ge; auto].
  - (* TryMapWith *) c1 IH IHE Hn He Hp H; [destruct (holds p0 v)|]; fin.
    + eapply rle_trans; [eassumption | apply ee_mono].
    + eapply rge_le; [apply ee_mono | lia].
  - (* Validate *) c1 IH IHE Hn He Hp H; fin.
  - (* Then *) apply andb_prop in Hn; destruct Hn as (Hn1 & Hn2). c1 IH IHE Hn1 He Hp H; [c1' IH IHE Hn2 He H|]; fin.
  - apply andb_prop in Hn; destruct Hn as (Hn1 & Hn2). c1 IH IHE Hn1 He Hp H; [c1' IH IHE Hn2 He H|]; fin.
  - apply andb_prop in Hn; destruct Hn as (Hn1 & Hn2). c1 IH IHE Hn1 He Hp H; [c1' IH IHE Hn2 He H|]; fin.
  - (* DelimitedBy: order l, x, r *)
    apply andb_prop in Hn; destruct Hn as (Hn12 & Hn3). apply andb_prop in Hn12; destruct Hn12 as (Hn1 & Hn2).
    c1 IH IHE Hn2 He Hp H; [c1' IH IHE Hn1 He H; [c1' IH IHE Hn3 He H|]|]; fin.
  - (* PaddedBy *)
    apply andb_prop in Hn; destruct Hn as (Hn1 & Hn2).
    c1 IH IHE Hn2 He Hp H; [c1' IH IHE Hn1 He H; [c1' IH IHE Hn2 He H|]|]; fin.
  - (* Group *) eapply (group_sem_mono _ IH IHE) in H; eauto.
  - (* Or *) apply andb_prop in Hn; destruct Hn as (Hn1 & Hn2).
    eapply (choice_sem_mono _ IH) in H; eauto; [|cbn; now rewrite Hn1, Hn2].
    destruct H as (H1 & H2). split; auto. intros Ho. apply H2; auto. discriminate.
  - (* Choice *) destruct gs as [|g1 gs]; [injection H as <- <-; split; [apply fail_at_mono | intros _; apply fail_at_mono]|].
    eapply (choice_sem_mono _ IH) in H; eauto. destruct H as (H1 & H2). split; auto. intros Ho. apply H2; auto. discriminate.
  - (* ChoiceVec *) destruct gs as [|g1 gs]; [injection H as <- <-; split; [apply fail_at_mono | intros _; apply fail_at_mono]|].
    eapply (choice_sem_mono _ IH) in H; eauto. destruct H as (H1 & H2). split; auto. intros Ho. apply H2; auto. discriminate.
  - (* OrNot *) c1 IH IHE Hn He Hp H; fin.
  - (* Not *)
    destruct (sem n g ctx p None) as [[[[[v1 p1] e1]|] a1]|] eqn:E; try discriminate; injection H as <- <-.
    + destruct (nth_error toks p); (split; [apply ef_mono | intros _; eapply rge_le; [apply ef_mono | lia]]).
    + split; [apply rle_refl | discriminate].
  - (* AndIs *) apply andb_prop in Hn; destruct Hn as (Hn1 & Hn2).
    c1 IH IHE Hn1 He Hp H; [|fin].
    destruct (sem n g2 ctx p r) as [[[[[v2 p2] e2]|] a2]|] eqn:E2; try discriminate;
      pose proof (IH _ _ _ _ _ _ Hn2 He Hp E2) as (N1 & N2); fin.
  - (* Rewind *) c1 IH IHE Hn He Hp H; fin.
  - (* RepUnit *)
    destruct (sdrive toks spn (sem n) n i ctx (mk_iter i ctx) None [] [] p a) as [[[[[[its fl] p1] e1]|] a1]|] eqn:E; try discriminate;
      eapply (sdrive_mono _ IH IHE) with (p0 := p) in E; eauto; destruct E as (S1 & S2); injection H as <- <-; split; auto; discriminate.
  - (* Collect *)
    destruct (sdrive toks spn (sem n) n i ctx (mk_iter i ctx) None [] [] p a) as [[[[[[its fl] p1] e1]|] a1]|] eqn:E; try discriminate;
      eapply (sdrive_mono _ IH IHE) with (p0 := p) in E; eauto; destruct E as (S1 & S2); injection H as <- <-; split; auto; discriminate.
  - (* CollectExactly *)
    match type of H with (match ?k with 0 => match ?x with Some e0 => _ | None => ?B end | S _ => _ end = ?rhs) =>
      match goal with |- ?Gl =>
        assert (HB : B = rhs -> Gl); [clear H; intros H|
          destruct k; [destruct x as [g0|] eqn:Eg; [exact (IH _ _ _ _ _ _ (it_eager_norec _ _ _ Hn Eg) He Hp H)|exact (HB H)]|exact (HB H)]] end end.
    destruct (sdrive toks spn (sem n) (S n0) i ctx (mk_iter i ctx) (Some n0) [] [] p a) as [[[[[[its fl] p1] e1]|] a1]|] eqn:E; try discriminate.
    + pose proof (sdrive_ext toks spn (sem n) IHE _ _ _ _ _ _ _ _ _ _ _ _ _ _ E Hp) as X.
      eapply (sdrive_mono _ IH IHE) with (p0 := p) in E; eauto. destruct E as (S1 & S2).
      destruct fl; injection H as <- <-.
      * split; [eapply rle_trans; [exact S1 | apply fail_at_mono] | intros _; eapply rge_le; [apply fail_at_mono | lia]].
      * split; auto; discriminate.
    + eapply (sdrive_mono _ IH IHE) with (p0 := p) in E; eauto. destruct E as (S1 & S2). injection H as <- <-. split; auto.
  - (* Foldl *) apply andb_prop in Hn; destruct Hn as (Hn1 & Hn2). c1 IH IHE Hn1 He Hp H; [|fin].
    match type of H with context [sdrive ?t ?sp ?rn ?f ?i0 ?c ?its0 ?lim ?acc ?acce ?q ?rr] =>
      destruct (sdrive t sp rn f i0 c its0 lim acc acce q rr) as [[[[[[its fl] p2] e2]|] a2]|] eqn:Ed; try discriminate;
      eapply (sdrive_mono _ IH IHE) with (p0 := p) in Ed; eauto; try lia; destruct Ed as (S1 & S2); fin end.
  - (* Foldr *) apply andb_prop in Hn; destruct Hn as (Hn1 & Hn2).
    destruct (sdrive toks spn (sem n) n i ctx (mk_iter i ctx) None [] [] p a) as [[[[[[its fl] p1] e1]|] a1]|] eqn:E; try discriminate.
    + pose proof (sdrive_ext toks spn (sem n) IHE _ _ _ _ _ _ _ _ _ _ _ _ _ _ E Hp) as X.
      eapply (sdrive_mono _ IH IHE) with (p0 := p) in E; eauto. destruct E as (S1 & S2).
      destruct (sem n g ctx p1 a1) as [[[[[v2 p2] e2]|] a2]|] eqn:E2; try discriminate;
        pose proof (IH _ _ _ _ _ _ Hn2 He (proj2 X) E2) as (N1 & N2); fin.
    + eapply (sdrive_mono _ IH IHE) with (p0 := p) in E; eauto. destruct E as (S1 & S2). injection H as <- <-. split; auto.
  - (* FoldlWith *) apply andb_prop in Hn; destruct Hn as (Hn1 & Hn2). c1 IH IHE Hn1 He Hp H; [|fin].
    match type of H with context [sdrive ?t ?sp ?rn ?f ?i0 ?c ?its0 ?lim ?acc ?acce ?q ?rr] =>
      destruct (sdrive t sp rn f i0 c its0 lim acc acce q rr) as [[[[[[its fl] p2] e2]|] a2]|] eqn:Ed; try discriminate;
      eapply (sdrive_mono _ IH IHE) with (p0 := p) in Ed; eauto; try lia; destruct Ed as (S1 & S2); fin end.
  - (* FoldrWith *) apply andb_prop in Hn; destruct Hn as (Hn1 & Hn2).
    destruct (sdrive toks spn (sem n) n i ctx (mk_iter i ctx) None [] [] p a) as [[[[[[its fl] p1] e1]|] a1]|] eqn:E; try discriminate.
    + pose proof (sdrive_ext toks spn (sem n) IHE _ _ _ _ _ _ _ _ _ _ _ _ _ _ E Hp) as X.
      eapply (sdrive_mono _ IH IHE) with (p0 := p) in E; eauto. destruct E as (S1 & S2).
      destruct (sem n g ctx p1 a1) as [[[[[v2 p2] e2]|] a2]|] eqn:E2; try discriminate;
        pose proof (IH _ _ _ _ _ _ Hn2 He (proj2 X) E2) as (N1 & N2); fin.
    + eapply (sdrive_mono _ IH IHE) with (p0 := p) in E; eauto. destruct E as (S1 & S2). injection H as <- <-. split; auto.
  - discriminate.
  - discriminate.
  - discriminate.
  - (* Labelled *)
    destruct (sem n g ctx p None) as [[o1 a1]|] eqn:E; try discriminate.
    pose proof (IH _ _ _ _ _ _ Hn He Hp E) as (M1 & M2). injection H as <- <-.
    split.
    + destruct a1 as [[q e]|]; [apply ee_mono | apply rle_refl].
    + intros Ho. destruct o1 as [[[v1 p1] e1]|]; [discriminate|]. specialize (M2 eq_refl).
      destruct a1 as [[q e]|]; [|contradiction]. cbn in M2. eapply rge_le; [apply ee_mono | exact M2].
  - (* MapErr *)
    destruct (sem n g ctx p None) as [[[[[v1 p1] e1]|] [[q e]|]]|] eqn:E; try discriminate;
      pose proof (IH _ _ _ _ _ _ Hn He Hp E) as (M1 & M2); injection H as <- <-.
    + split; [apply (join_mono a (Some (q, e))) | discriminate].
    + split; [apply (join_mono a None) | discriminate].
    + split; [apply ee_mono | intros _]. specialize (M2 eq_refl). cbn in M2. eapply rge_le; [apply ee_mono | exact M2].
  - (* WithCtx *) exact (IH _ _ _ _ _ _ Hn (He : envok (with_ctx ctx c)) Hp H).
  - (* IgnoreWithCtx *) apply andb_prop in Hn; destruct Hn as (Hn1 & Hn2). c1 IH IHE Hn1 He Hp H; [c1' IH IHE Hn2 He H|]; fin.
  - (* ThenWithCtx *) apply andb_prop in Hn; destruct Hn as (Hn1 & Hn2). c1 IH IHE Hn1 He Hp H; [c1' IH IHE Hn2 He H|]; fin.
  - (* MapCtx *) exact (IH _ _ _ _ _ _ Hn (He : envok (with_ctx ctx (ap1 f (cval ctx)))) Hp H).
  - (* JustCfg *) destruct (just_sem K toks spn (val_toks (cval ctx)) p a) as [[p1|] a1] eqn:E; injection H as <- <-;
      apply just_sem_mono in E; destruct E; split; auto; discriminate.
  - (* Memo *)
    destruct (sem n g ctx p None) as [[o1 a1]|] eqn:E; [|discriminate]. injection H as <- <-.
    pose proof (IH _ _ _ _ _ _ Hn He Hp E) as (M1 & M2).
    split; [apply join_mono | intros ->; apply join_ge; auto].
  - (* Rec *) refine (IH _ _ _ _ _ _ Hn _ Hp H). unfold envok in *. cbn. rewrite Hn. exact He.
  - (* Var *) destruct (nth_error (crec ctx) k) as [x|] eqn:Ek; [|discriminate].
    destruct (envok_nth _ _ _ He Ek). eapply IH; eauto.
  - (* Pratt *) apply andb_prop in Hn; destruct Hn as (Hn1 & Hn2).
    exact (proj1 (pratt_mono _ IH IHE g ops ctx Hn1 Hn2 He n) _ _ _ _ _ Hp H).
  - (* GroupArr *) eapply (group_sem_mono _ IH IHE) in H; eauto.
  - discriminate.
  - (* WithState *) discriminate.
  - (* Skip *) injection H as <- <-. split; [apply rle_refl | discriminate].
  - (* ExtWrap *) discriminate.
  - (* Prog *) destruct (prog_sem toks spn ops p [] [] p) as [[[] acc] p1]; injection H as <- <-;
      (split; [|intros; try discriminate]); try apply rle_refl; apply ee_mono.
  - (* Padded *)
    pose proof (skip_ws_ext toks ws (length toks) p Hp) as X0.
    destruct (sem n g ctx (skip_ws toks (length toks) ws p) a) as [[[[[v1 p1] e1]|] a1]|] eqn:E1; try discriminate;
      injection H as <- <-; destruct (IH _ _ _ _ _ _ Hn He (proj2 X0) E1) as (M1 & M2); split; auto; try discriminate.
    intros _. eapply rge_le; [apply M2; reflexivity | lia].
Qed.

End Furthest.