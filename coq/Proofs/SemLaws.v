(* Laws of the specification [sem]: the PEG reading, stated in isolation from the machine. *)
From Chum Require Export Refine.

Section SemLaws.
Variable K : ekind.
Variable toks : list tok.
Variable spn : nat -> nat -> span.
Notation sem := (sem K toks spn).

(* ordered choice: the first alternative that succeeds is taken, the second is not consulted *)
Lemma sem_or_first n x y ctx p a r a1 :
  sem n x ctx p a = Some (Some r, a1) -> sem (S n) (Or x y) ctx p a = Some (Some r, a1).
Proof. intros H. cbn. now rewrite H. Qed.

(* ... and the second is tried, at the same position, exactly when the first fails *)
Lemma sem_or_second n x y ctx p a a1 :
  sem n x ctx p a = Some (None, a1) -> sem (S n) (Or x y) ctx p a = sem n y ctx p a1.
Proof. intros H. cbn. rewrite H. destruct (sem n y ctx p a1) as [[[r|] a2]|]; reflexivity. Qed.

(* choice over a list never revisits an earlier alternative: the result is that of the first
   alternative that succeeds, run once, with the register left by its failed predecessors *)
Lemma choice_sem_first run gs1 g gs2 ctx p a a1 r a2 :
  choice_sem run gs1 ctx p a = Some (None, a1) ->
  run g ctx p a1 = Some (Some r, a2) ->
  choice_sem run (gs1 ++ g :: gs2) ctx p a = Some (Some r, a2).
Proof.
  revert a. induction gs1 as [|h t IH]; intros a H1 H2; cbn in *.
  - injection H1 as <-. now rewrite H2.
  - destruct (run h ctx p a) as [[[r0|] a0]|]; try discriminate. now apply IH.
Qed.

(* sequence runs left to right: the second parser starts where the first stopped *)
Lemma sem_then n x y ctx p a va p1 e1 a1 :
  sem n x ctx p a = Some (Some (va, p1, e1), a1) ->
  sem (S n) (Then x y) ctx p a =
    match sem n y ctx p1 a1 with
    | Some (Some (vb, p2, e2), a2) => Some (Some (VPair va vb, p2, e1 ++ e2), a2)
    | Some (None, a2) => Some (None, a2)
    | None => None
    end.
Proof. intros H. cbn. now rewrite H. Qed.

Lemma sem_then_fail_left n x y ctx p a a1 :
  sem n x ctx p a = Some (None, a1) -> sem (S n) (Then x y) ctx p a = Some (None, a1).
Proof. intros H. cbn. now rewrite H. Qed.

(* lookahead consumes nothing *)
Lemma sem_not_pos n x ctx p a v p1 e a1 :
  sem (S n) (Not x) ctx p a = Some (Some (v, p1, e), a1) -> p1 = p /\ e = [] /\ a1 = a.
Proof.
  cbn. destruct (sem n x ctx p None) as [[[[[v0 q] e0]|] a0]|]; intros H; inversion H; subst; auto.
Qed.

Lemma sem_rewind_pos n x ctx p a v p1 e a1 :
  sem (S n) (Rewind x) ctx p a = Some (Some (v, p1, e), a1) -> p1 = p.
Proof.
  cbn. destruct (sem n x ctx p a) as [[[[[v0 q] e0]|] a0]|]; intros H; inversion H; subst; auto.
Qed.

(* rewind keeps the value and the emissions of its parser *)
Lemma sem_rewind_keeps n x ctx p a v p1 e a1 :
  sem n x ctx p a = Some (Some (v, p1, e), a1) ->
  sem (S n) (Rewind x) ctx p a = Some (Some (v, p, e), a1).
Proof. intros H. cbn. now rewrite H. Qed.

(* and_is: the value, extent and emissions are those of the left parser; the right parser is
   pure lookahead from the same start position *)
Lemma sem_and_is n x y ctx p a va p1 e1 a1 :
  sem n x ctx p a = Some (Some (va, p1, e1), a1) ->
  sem (S n) (AndIs x y) ctx p a =
    match sem n y ctx p a1 with
    | Some (Some (_, _, _), a2) => Some (Some (va, p1, e1), a2)
    | Some (None, a2) => Some (None, a2)
    | None => None
    end.
Proof. intros H. cbn. rewrite H. destruct (sem n y ctx p a1) as [[[[[vb q] e2]|] a2]|]; reflexivity. Qed.

(* a rejecting filter / try_map counts as failure of the sub-parser *)
Lemma sem_filter_reject n pr x ctx p a v p1 e1 a1 :
  sem n x ctx p a = Some (Some (v, p1, e1), a1) -> holds pr v = false ->
  exists a2, sem (S n) (Filter pr x) ctx p a = Some (None, a2).
Proof. intros H Hp. cbn. rewrite H, Hp. eauto. Qed.

Lemma sem_try_map_reject n pr f k x ctx p a v p1 e1 a1 :
  sem n x ctx p None = Some (Some (v, p1, e1), a1) -> holds pr v = false ->
  sem (S n) (TryMap pr f k x) ctx p a
    = Some (None, add_alt_err false K a p (custom_err K k (spn p p1))).
Proof. intros H Hp. cbn. rewrite H, Hp. reflexivity. Qed.

(* recovery is transparent where the parser succeeds *)
Lemma sem_recover_transparent n x y ctx p a r a1 :
  sem n x ctx p a = Some (Some r, a1) -> sem (S n) (RecoverVia x y) ctx p a = Some (Some r, a1).
Proof. intros H. cbn. now rewrite H. Qed.

(* ... loud where it fails and the strategy succeeds: the strategy's output, its own emissions,
   plus exactly one error: the one pending at the moment of the failure *)
Lemma sem_recover_loud n x y ctx p a a0 v p1 e1 a1 :
  sem n x ctx p a = Some (None, Some a0) ->
  sem n y ctx p None = Some (Some (v, p1, e1), a1) ->
  sem (S n) (RecoverVia x y) ctx p a = Some (Some (v, p1, e1 ++ [(p1, snd a0)]), a1).
Proof. intros H1 H2. cbn. now rewrite H1, H2. Qed.

(* ... and fails with that same pending error where both fail *)
Lemma sem_recover_both_fail n x y ctx p a a0 a1 :
  sem n x ctx p a = Some (None, Some a0) ->
  sem n y ctx p None = Some (None, a1) ->
  sem (S n) (RecoverVia x y) ctx p a = Some (None, Some a0).
Proof. intros H1 H2. cbn. now rewrite H1, H2. Qed.

(* context: the nearest enclosing provider wins *)
Lemma sem_with_ctx n c x ctx p a : sem (S n) (WithCtx c x) ctx p a = sem n x (with_ctx ctx c) p a.
Proof. reflexivity. Qed.

Lemma sem_ignore_with_ctx n x y ctx p a va p1 e1 a1 :
  sem n x ctx p a = Some (Some (va, p1, e1), a1) ->
  sem (S n) (IgnoreWithCtx x y) ctx p a =
    match sem n y (with_ctx ctx va) p1 a1 with
    | Some (Some (vb, p2, e2), a2) => Some (Some (vb, p2, e1 ++ e2), a2)
    | Some (None, a2) => Some (None, a2)
    | None => None
    end.
Proof. intros H. cbn. now rewrite H. Qed.

Lemma sem_just_cfg n ts ctx p a : sem (S n) (JustCfg ts) ctx p a = sem (S n) (Just (val_toks (cval ctx))) ctx p a.
Proof. reflexivity. Qed.

(* ---------- output elision (C04): eliding combinators equal their value-building formulation ---------- *)
Lemma sem_ignore_then_is_then_snd n x y ctx p a :
  sem (S n) (IgnoreThen x y) ctx p a = sem (S (S n)) (Map FSnd (Then x y)) ctx p a.
Proof.
  cbn. destruct (sem n x ctx p a) as [[[[[va p1] e1]|] a1]|]; auto.
  destruct (sem n y ctx p1 a1) as [[[[[vb p2] e2]|] a2]|]; auto.
Qed.

Lemma sem_then_ignore_is_then_fst n x y ctx p a :
  sem (S n) (ThenIgnore x y) ctx p a = sem (S (S n)) (Map FFst (Then x y)) ctx p a.
Proof.
  cbn. destruct (sem n x ctx p a) as [[[[[va p1] e1]|] a1]|]; auto.
  destruct (sem n y ctx p1 a1) as [[[[[vb p2] e2]|] a2]|]; auto.
Qed.

Lemma sem_to_is_map_const n k x ctx p a :
  sem (S n) (To k x) ctx p a = sem (S n) (Map (FConst k) x) ctx p a.
Proof. cbn. destruct (sem n x ctx p a) as [[[[[va p1] e1]|] a1]|]; auto. Qed.

Lemma sem_rep_unit_is_collect_unit n i ctx p a :
  sem (S n) (RepUnit i) ctx p a = sem (S n) (Collect CUnit i) ctx p a.
Proof.
  cbn. destruct (sdrive toks spn (sem n) n i ctx (mk_iter i ctx) None [] [] p a) as [[[[[[its fl] p1] e1]|] a1]|]; auto.
Qed.

(* to_span / to_slice: the value is the extent, everything else is the sub-parser's *)
Lemma sem_to_span n x ctx p a v p1 e1 a1 :
  sem n x ctx p a = Some (Some (v, p1, e1), a1) ->
  sem (S n) (ToSpan x) ctx p a = Some (Some (vspan (spn p p1), p1, e1), a1).
Proof. intros H. cbn. now rewrite H. Qed.

Lemma sem_to_slice n x ctx p a v p1 e1 a1 :
  sem n x ctx p a = Some (Some (v, p1, e1), a1) ->
  sem (S n) (ToSlice x) ctx p a = Some (Some (VSlice p p1, p1, e1), a1).
Proof. intros H. cbn. now rewrite H. Qed.

Lemma sem_map_with_span n x ctx p a v p1 e1 a1 :
  sem n x ctx p a = Some (Some (v, p1, e1), a1) ->
  sem (S n) (MapWith MWSpan x) ctx p a = Some (Some (VPair v (vspan (spn p p1)), p1, e1), a1).
Proof. intros H. cbn. now rewrite H. Qed.

(* ---------- decorations (C17) ---------- *)
Definition snd_reg (x : option sres) : option reg := match x with Some (_, a) => Some a | None => None end.

Lemma sem_labelled_outcome n l c x ctx p a :
  match sem (S n) (Labelled l c x) ctx p a, sem n x ctx p None with
  | Some (Some (v, p1, e1), _), Some (Some (v', p1', e1'), _) => v = v' /\ p1 = p1' /\ length e1 = length e1'
  | Some (None, _), Some (None, _) => True
  | None, None => True
  | _, _ => False
  end.
Proof.
  cbn. destruct (sem n x ctx p None) as [[[[[v p1] e1]|] a1]|]; auto.
  repeat split; auto. destruct c; [now rewrite map_length | reflexivity].
Qed.

Lemma sem_map_err_outcome n k x ctx p a :
  match sem (S n) (MapErr k x) ctx p a, sem n x ctx p None with
  | Some (Some r, _), Some (Some r', _) => r = r'
  | Some (None, _), Some (None, Some _) => True
  | None, None => True
  | None, Some (None, None) => True
  | _, _ => False
  end.
Proof. cbn. destruct (sem n x ctx p None) as [[[r|] [[q e]|]]|]; auto. Qed.

Lemma sem_labelled_register n l c x ctx p a q e o :
  sem n x ctx p None = Some (o, Some (q, e)) ->
  snd_reg (sem (S n) (Labelled l c x) ctx p a)
    = Some (add_alt_err false K a q
             (if Nat.eqb q p then label_with K l e
              else if andb c (Nat.ltb p q) then in_context K l (spn p q) e else e)).
Proof. intros H. cbn. rewrite H. reflexivity. Qed.

Lemma sem_map_err_failure n k x ctx p a q e :
  sem n x ctx p None = Some (None, Some (q, e)) ->
  sem (S n) (MapErr k x) ctx p a = Some (None, add_alt_err false K a q (map_err_fn K k e)).
Proof. intros H. cbn. now rewrite H. Qed.

End SemLaws.
