(* C04: check mode is unobservable.  For every grammar, context, state, quirk vector and fuel the
   Check run and the Emit run take the same control path: same outcome class, same final state
   (cursor, error list, pending error, user state).  Only the value is elided. *)
From Chum Require Export Base.

Definition strip (r : outcome) : outcome := match r with Ok _ => Ok None | x => x end.
Definition istrip (r : ires) : ires := match r with ISome _ => ISome None | x => x end.

Section Modes.
Variable Q : quirks.
Variable K : ekind.
Variable toks : list tok.
Variable spn : nat -> nat -> span.
Notation go := (go Q K toks spn).

Definition MI (run : run_t) : Prop :=
  forall g ctx s, run Check g ctx s = (strip (fst (run Emit g ctx s)), snd (run Emit g ctx s)).

Lemma strip_bindv m v : strip (Ok (bindv m v)) = Ok None.
Proof. reflexivity. Qed.

Section L.
Variable run : run_t.
Hypothesis H : MI run.

Ltac run_emit :=
  match goal with
  | |- context [run Emit ?g ?c ?s] =>
      let r := fresh "r" in let s1 := fresh "s" in
      destruct (run Emit g c s) as [r s1]; destruct r; cbn [fst snd strip]
  end.

Lemma choice_loop_mi : forall gs ctx b s,
  choice_loop run Check gs ctx b s
  = (strip (fst (choice_loop run Emit gs ctx b s)), snd (choice_loop run Emit gs ctx b s)).
Proof.
  induction gs as [|g gs IH]; intros; cbn [choice_loop]; [reflexivity|].
  rewrite H. run_emit; auto.
Qed.

Lemma choicevec_loop_mi : forall gs ctx b s,
  choicevec_loop run Check gs ctx b s
  = (strip (fst (choicevec_loop run Emit gs ctx b s)), snd (choicevec_loop run Emit gs ctx b s)).
Proof.
  induction gs as [|g gs IH]; intros; cbn [choicevec_loop]; [reflexivity|].
  rewrite H. run_emit; auto.
Qed.

Lemma group_loop_mi : forall gs ctx acc acc' s,
  group_loop run Check gs ctx acc s
  = (strip (fst (group_loop run Emit gs ctx acc' s)), snd (group_loop run Emit gs ctx acc' s)).
Proof.
  induction gs as [|g gs IH]; intros; cbn [group_loop]; [reflexivity|].
  rewrite H. run_emit; auto.
Qed.

Lemma rep_next_mi a lo hi ctx c s :
  rep_next run Check a lo hi ctx c s
  = (let '(r, c', s') := rep_next run Emit a lo hi ctx c s in (istrip r, c', s')).
Proof.
  unfold rep_next. destruct (at_cap c hi); [reflexivity|]. rewrite H. run_emit; auto.
  destruct (lo <=? c); reflexivity.
Qed.

Lemma sep_item_mi a lo trail ctx c b s :
  sep_item run Check a lo trail ctx c b s
  = (let '(r, c', s') := sep_item run Emit a lo trail ctx c b s in (istrip r, c', s')).
Proof.
  unfold sep_item. rewrite H. run_emit; auto.
  destruct (c <? lo); [reflexivity|]. destruct trail; reflexivity.
Qed.

Lemma sep_next_mi a sep lo hi lead trail ctx c s :
  sep_next run Check a sep lo hi lead trail ctx c s
  = (let '(r, c', s') := sep_next run Emit a sep lo hi lead trail ctx c s in (istrip r, c', s')).
Proof.
  unfold sep_next. destruct (at_cap c hi); [reflexivity|].
  destruct ((c =? 0) && lead).
  - destruct (run Check sep ctx s) as [[] ?]; auto using sep_item_mi.
  - destruct (0 <? c); [|apply sep_item_mi].
    destruct (run Check sep ctx s) as [[] ?]; auto using sep_item_mi.
    destruct (c <? lo); reflexivity.
Qed.

Lemma it_next_mi : forall i ctx its s,
  it_next spn run Check i ctx its s
  = (let '(r, its', s') := it_next spn run Emit i ctx its s in (istrip r, its', s')).
Proof.
  induction i as [a lo hi|a sep lo hi lead trail|j IHj|f j IHj|f j IHj|a|a lo hi ck|a|i1 IHi1 i2 IHi2]; intros ctx its s;
    cbn [it_next].
  - destruct its; try reflexivity. rewrite rep_next_mi.
    destruct (rep_next run Emit a lo hi ctx n s) as [[r c'] s']. reflexivity.
  - destruct its; try reflexivity. rewrite sep_next_mi.
    destruct (sep_next run Emit a sep lo hi lead trail ctx n s) as [[r c'] s']. reflexivity.
  - destruct its; try reflexivity. rewrite IHj.
    destruct (it_next spn run Emit j ctx its s) as [[r js'] s']. destruct r; reflexivity.
  - rewrite IHj. destruct (it_next spn run Emit j ctx its s) as [[r js'] s']. destruct r; reflexivity.
  - rewrite IHj. destruct (it_next spn run Emit j ctx its s) as [[r js'] s']. destruct r; reflexivity.
  - destruct its; try reflexivity. destruct b; [reflexivity|]. rewrite H. run_emit; reflexivity.
  - destruct its; try reflexivity.
    + rewrite rep_next_mi. destruct (rep_next run Emit a lo0 hi0 ctx n s) as [[r c'] s']. reflexivity.
    + rewrite H. run_emit; reflexivity.
  - destruct its as [| | | | |[l|]|]; try reflexivity.
    + destruct l; reflexivity.
    + destruct (run Emit a ctx s) as [[v| | |] s1]; try reflexivity.
      destruct (val_items (getv v)); reflexivity.
  - destruct its as [| | | | | |sa [sb|]]; try reflexivity.
    + rewrite IHi2. destruct (it_next spn run Emit i2 ctx sb s) as [[r js'] s']. reflexivity.
    + rewrite IHi1. destruct (it_next spn run Emit i1 ctx sa s) as [[r sa'] s1]. destruct r; try reflexivity.
      cbn [istrip]. rewrite IHi2. destruct (it_next spn run Emit i2 ctx (mk_iter i2 ctx) s1) as [[r2 sb'] s2]. reflexivity.
Qed.

(* the driver: same outcome class, same "ended" flag, same number of items, same final state *)
Lemma drive_mi : forall fuel i ctx its lim pa idx acc acc' s,
  length acc = length acc' ->
  let '(r, a, fl, s1) := drive spn run fuel Check i ctx its lim pa idx acc s in
  let '(r', a', fl', s1') := drive spn run fuel Emit i ctx its lim pa idx acc' s in
  r = strip r' /\ fl = fl' /\ s1 = s1' /\ length a = length a'.
Proof.
  induction fuel as [|fuel IH]; intros i ctx its lim pa idx acc acc' s Hl; cbn [drive].
  { repeat split; auto. }
  assert (Hstep :
    let '(r, a, fl, s1) :=
      match it_next spn run Check i ctx its s with
      | (ISome v, its', s1) =>
          if pa idx && (cur s =? cur s1) then (Panic PProgress, acc, false, s1)
          else drive spn run fuel Check i ctx its' (option_map Nat.pred lim) pa (S idx) ((getv v, cur s, cur s1, ust s1) :: acc) s1
      | (INone, _, s1) => (Ok None, acc, true, s1)
      | (IErr, _, s1) => (Err, acc, false, s1)
      | (IPanic k, _, s1) => (Panic k, acc, false, s1)
      | (IOOF, _, s1) => (OutOfFuel, acc, false, s1)
      end in
    let '(r', a', fl', s1') :=
      match it_next spn run Emit i ctx its s with
      | (ISome v, its', s1) =>
          if pa idx && (cur s =? cur s1) then (Panic PProgress, acc', false, s1)
          else drive spn run fuel Emit i ctx its' (option_map Nat.pred lim) pa (S idx) ((getv v, cur s, cur s1, ust s1) :: acc') s1
      | (INone, _, s1) => (Ok None, acc', true, s1)
      | (IErr, _, s1) => (Err, acc', false, s1)
      | (IPanic k, _, s1) => (Panic k, acc', false, s1)
      | (IOOF, _, s1) => (OutOfFuel, acc', false, s1)
      end in
    r = strip r' /\ fl = fl' /\ s1 = s1' /\ length a = length a').
  { rewrite it_next_mi. destruct (it_next spn run Emit i ctx its s) as [[r its'] s1]. destruct r; cbn [istrip]; auto.
    destruct (pa idx && (cur s =? cur s1)); [repeat split; auto|].
    apply IH. cbn. now rewrite Hl. }
  destruct lim as [[|l]|]; [repeat split; auto | exact Hstep | exact Hstep].
Qed.

Lemma rep_fast_mi : forall fuel a ctx s,
  rep_fast run fuel Check a ctx s
  = (strip (fst (rep_fast run fuel Emit a ctx s)), snd (rep_fast run fuel Emit a ctx s)).
Proof.
  induction fuel as [|fuel IH]; intros; cbn [rep_fast]; [reflexivity|].
  destruct (run Check a ctx s) as [[] s1]; auto.
  destruct (cur s =? cur s1); auto.
Qed.

Lemma skip_until_mi : forall fuel skip until fb ctx a0 s,
  skip_until_loop run fuel Check skip until fb ctx a0 s
  = (strip (fst (skip_until_loop run fuel Emit skip until fb ctx a0 s)),
     snd (skip_until_loop run fuel Emit skip until fb ctx a0 s)).
Proof.
  induction fuel as [|fuel IH]; intros; cbn [skip_until_loop]; [reflexivity|].
  destruct (run Check until ctx s) as [[] s1]; auto.
  destruct (run Check skip ctx (rewind s1 (save s))) as [[] s2]; auto.
Qed.

Lemma skip_retry_mi : forall fuel p skip until ctx a0 s,
  skip_retry_loop run fuel Check p skip until ctx a0 s
  = (strip (fst (skip_retry_loop run fuel Emit p skip until ctx a0 s)),
     snd (skip_retry_loop run fuel Emit p skip until ctx a0 s)).
Proof.
  induction fuel as [|fuel IH]; intros; cbn [skip_retry_loop]; [reflexivity|].
  destruct (run Check until ctx s) as [[] s1]; auto.
  destruct (run Check skip ctx (rewind s1 (save s))) as [[] s2]; auto.
  rewrite H. run_emit; auto.
  destruct (length (sec s0) <=? length (sec s2)); auto.
Qed.

(* Pratt *)
Definition pstrip (x : presult) : presult := match x with PDone r s => PDone (strip r) s | PNext s => PNext s end.

Section PrattMI.
Variables recC recE : nat -> st -> outcome * st.
Hypothesis Hrec : forall minp s, recC minp s = (strip (fst (recE minp s)), snd (recE minp s)).

Lemma pratt_prefix_mi : forall ops ctx pre start s,
  pratt_prefix spn run recC Check ops ctx pre start s = pstrip (pratt_prefix spn run recE Emit ops ctx pre start s).
Proof.
  induction ops as [|o ops IH]; intros; cbn [pratt_prefix]; [reflexivity|].
  destruct o as [r bp og k|bp og k|bp og k]; auto.
  rewrite H. destruct (run Emit og ctx s) as [[] s1]; cbn [fst snd strip]; auto.
  rewrite Hrec. destruct (recE (2 * bp) s1) as [[] s2]; cbn [fst snd strip]; auto.
Qed.

Lemma pratt_postfix_mi : forall ops ctx minp pre start lhs lhs' s,
  pratt_postfix spn run Check ops ctx minp pre start lhs s = pstrip (pratt_postfix spn run Emit ops ctx minp pre start lhs' s).
Proof.
  induction ops as [|o ops IH]; intros; cbn [pratt_postfix]; [reflexivity|].
  destruct o as [r bp og k|bp og k|bp og k]; auto.
  destruct (minp <=? 2 * bp + 1); auto.
  rewrite H. destruct (run Emit og ctx s) as [[] s1]; cbn [fst snd strip]; auto.
Qed.

Lemma pratt_infix_mi : forall ops ctx minp pre start lhs lhs' s,
  pratt_infix spn run recC Check ops ctx minp pre start lhs s = pstrip (pratt_infix spn run recE Emit ops ctx minp pre start lhs' s).
Proof.
  induction ops as [|o ops IH]; intros; cbn [pratt_infix]; [reflexivity|].
  destruct o as [r bp og k|bp og k|bp og k]; auto.
  destruct (minp <=? lpow r bp); auto.
  rewrite H. destruct (run Emit og ctx s) as [[] s1]; cbn [fst snd strip]; auto.
  rewrite Hrec. destruct (recE (rpow r bp) s1) as [[] s2]; cbn [fst snd strip]; auto.
Qed.
End PrattMI.

Lemma pratt_go_S' f m atom ops ctx minp s :
  pratt_go spn run (S f) m atom ops ctx minp s =
    match pratt_prefix spn run (pratt_go spn run f m atom ops ctx) m ops ctx (save s) (cur s) s with
    | PDone (Ok v) s1 => pratt_loop spn run f m atom ops ctx minp (cur s) v s1
    | PDone r s1 => (r, s1)
    | PNext s1 =>
        match run m atom ctx s1 with
        | (Ok v, s2) => pratt_loop spn run f m atom ops ctx minp (cur s) v s2
        | res => res
        end
    end.
Proof. reflexivity. Qed.

Lemma pratt_loop_S' f m atom ops ctx minp start lhs s :
  pratt_loop spn run (S f) m atom ops ctx minp start lhs s =
    match pratt_postfix spn run m ops ctx minp (save s) start lhs s with
    | PDone (Ok v) s1 => pratt_loop spn run f m atom ops ctx minp start v s1
    | PDone r s1 => (r, s1)
    | PNext s1 =>
        match pratt_infix spn run (pratt_go spn run f m atom ops ctx) m ops ctx minp (save s) start lhs s1 with
        | PDone (Ok v) s2 => pratt_loop spn run f m atom ops ctx minp start v s2
        | PDone r s2 => (r, s2)
        | PNext s2 => (Ok lhs, rewind s2 (save s))
        end
    end.
Proof. reflexivity. Qed.

Lemma pratt_mi atom ops ctx : forall fuel,
  (forall minp s, pratt_go spn run fuel Check atom ops ctx minp s
     = (strip (fst (pratt_go spn run fuel Emit atom ops ctx minp s)), snd (pratt_go spn run fuel Emit atom ops ctx minp s)))
  /\
  (forall minp start lhs' s, pratt_loop spn run fuel Check atom ops ctx minp start None s
     = (strip (fst (pratt_loop spn run fuel Emit atom ops ctx minp start lhs' s)),
        snd (pratt_loop spn run fuel Emit atom ops ctx minp start lhs' s))).
Proof.
  induction fuel as [|f [IHgo IHloop]]; [split; reflexivity|].
  split.
  - intros. rewrite !pratt_go_S'. rewrite (pratt_prefix_mi _ _ IHgo).
    destruct (pratt_prefix spn run (pratt_go spn run f Emit atom ops ctx) Emit ops ctx (save s) (cur s) s) as [[] sp|sp];
      cbn [pstrip strip fst snd]; auto.
    rewrite H. destruct (run Emit atom ctx sp) as [[] sa]; cbn [strip fst snd]; auto.
  - intros. rewrite !pratt_loop_S'. rewrite (pratt_postfix_mi _ _ _ _ _ None lhs').
    destruct (pratt_postfix spn run Emit ops ctx minp (save s) start lhs' s) as [[] sp|sp]; cbn [pstrip strip fst snd]; auto.
    rewrite (pratt_infix_mi _ _ IHgo _ _ _ _ _ None lhs').
    destruct (pratt_infix spn run (pratt_go spn run f Emit atom ops ctx) Emit ops ctx minp (save s) start lhs' sp) as [[] si|si];
      cbn [pstrip strip fst snd]; auto.
Qed.

End L.

Ltac emit_step :=
  match goal with
  | |- context [go ?n Emit ?g ?c ?s] =>
      let r := fresh "r" in let s1 := fresh "s" in
      destruct (go n Emit g c s) as [r s1]; destruct r; cbn [fst snd strip]
  | |- context [go ?n Check ?g ?c ?s] =>
      let r := fresh "r" in let s1 := fresh "s" in
      destruct (go n Check g c s) as [r s1]; destruct r; cbn [fst snd strip]
  end.

Ltac crush IH :=
  repeat first
    [ reflexivity
    | rewrite IH
    | match goal with
      | |- context [Machine.go ?q ?k ?t ?sp ?n Emit ?g ?c ?s] =>
          destruct (Machine.go q k t sp n Emit g c s) as [[] ?]; cbn [fst snd strip]
      | |- context [Machine.go ?q ?k ?t ?sp ?n Check ?g ?c ?s] =>
          destruct (Machine.go q k t sp n Check g c s) as [[] ?]; cbn [fst snd strip]
      end
    | match goal with
      | |- context [match ?x with _ => _ end] => destruct x; cbn [fst snd strip]
      | |- context [if ?x then _ else _] => destruct x; cbn [fst snd strip]
      end ].

(* a finisher built on [drive]: the Check and Emit runs agree once both drives are destructed *)
Ltac drive_case IH :=
  match goal with
  | |- context [drive spn (go ?n) ?f Check ?i ?ctx ?its ?lim ?pa ?idx ?acc ?s] =>
      match goal with
      | |- context [drive spn (go n) f Emit i ctx its lim pa idx ?acc' s] =>
          let D := fresh "D" in
          pose proof (drive_mi (go n) IH f i ctx its lim pa idx acc acc' s eq_refl) as D;
          destruct (drive spn (go n) f Check i ctx its lim pa idx acc s) as [[[? ?] ?] ?];
          let r' := fresh "r'" in
          destruct (drive spn (go n) f Emit i ctx its lim pa idx acc' s) as [[[r' ?] ?] ?];
          destruct D as (-> & -> & -> & ?); destruct r'; cbn [strip fst snd]; try reflexivity
      end
  end.

Hypothesis HQ : nested Q = None.     (* nested_in is outside the modelled fragment: see Model/Nested.v *)

Theorem mode_independent : forall n, MI (go n).
Proof.
  induction n as [|n IH]; intros g ctx s; [reflexivity|].
  destruct g; cbn [Machine.go].
  - (* End *) crush IH.
  - (* Empty *) reflexivity.
  - (* Any *) unfold one_tok. crush IH.
  - (* Just *) unfold just_go. crush IH.
  - (* OneOf *) unfold one_tok. crush IH.
  - (* NoneOf *) unfold one_tok. crush IH.
  - (* Select *) unfold one_tok. crush IH.
  - (* Custom *) crush IH.
  - (* Map *) crush IH.
  - (* MapWith *) crush IH.
  - (* To *) crush IH.
  - (* Ignored *) crush IH.
  - (* ToSpan *) crush IH.
  - (* ToSlice *) crush IH.
  - (* Filter *) crush IH.
  - (* TryMap *) crush IH.
  - (* TryMapWith *) crush IH.
  - (* Validate *) crush IH.
  - (* Then *) crush IH.
  - (* IgnoreThen *) crush IH.
  - (* ThenIgnore *) crush IH.
  - (* DelimitedBy *) crush IH.
  - (* PaddedBy *) crush IH.
  - (* Group *) apply group_loop_mi; exact IH.
  - (* Or *) apply choice_loop_mi; exact IH.
  - (* Choice *) destruct gs as [|g1 [|g2 gs]]; [reflexivity | apply IH | apply choice_loop_mi; exact IH].
  - (* ChoiceVec *) destruct gs; [destruct (q_emptychoice_none Q); reflexivity | apply choicevec_loop_mi; exact IH].
  - (* OrNot *) crush IH.
  - (* Not *) crush IH.
  - (* AndIs *) crush IH.
  - (* Rewind *) crush IH.
  - (* RepUnit *)
    destruct i as [a lo hi| | | | | | | |];
      try (match goal with |- context [drive spn (go n) n Check ?i ?ctx ?its ?lim ?pa ?idx ?acc s] =>
             destruct (drive spn (go n) n Check i ctx its lim pa idx acc s) as [[[[] ?] ?] ?]; reflexivity end).
    destruct lo as [|lo]; [destruct hi as [hi|]|];
      try (match goal with |- context [drive spn (go n) n Check ?i ?ctx ?its ?lim ?pa ?idx ?acc s] =>
             destruct (drive spn (go n) n Check i ctx its lim pa idx acc s) as [[[[] ?] ?] ?]; reflexivity end).
    apply rep_fast_mi; exact IH.
  - (* Collect *) drive_case IH; crush IH.
  - (* CollectExactly *)
    destruct n0 as [|k0]; [destruct (it_eager i ctx) as [e0|]; [apply IH|]|]; drive_case IH; crush IH.
  - (* Foldl *)
    rewrite IH. destruct (go n Emit g ctx s) as [[] s1]; cbn [fst snd strip]; try reflexivity.
    drive_case IH; crush IH.
  - (* Foldr *)
    drive_case IH; crush IH.
  - (* FoldlWith *)
    rewrite IH. destruct (go n Emit g ctx s) as [[] s1]; cbn [fst snd strip]; try reflexivity.
    drive_case IH; crush IH.
  - (* FoldrWith *)
    drive_case IH; crush IH.
  - (* RecoverVia *) crush IH.
  - (* RecoverSkipUntil *)
    rewrite IH. destruct (go n Emit g1 ctx s) as [[] s1]; cbn [fst snd strip]; try reflexivity.
    destruct (alt (rewind s1 (save s))); [|reflexivity].
    rewrite skip_until_mi.
    match goal with |- context [skip_until_loop ?a ?b Emit ?c ?d ?e ?f ?g ?h] => destruct (skip_until_loop a b Emit c d e f g h) as [[] ?] end; reflexivity.
  - (* RecoverSkipRetry *)
    rewrite IH. destruct (go n Emit g1 ctx s) as [[] s1]; cbn [fst snd strip]; try reflexivity.
    destruct (alt (rewind s1 (save s))); [|reflexivity].
    rewrite (skip_retry_mi (go n) IH).
    match goal with |- context [skip_retry_loop ?a ?b Emit ?c ?d ?e ?f ?g ?h] => destruct (skip_retry_loop a b Emit c d e f g h) as [[] ?] end; reflexivity.
  - (* Labelled *) crush IH.
  - (* MapErr *) crush IH.
  - (* WithCtx *) apply IH.
  - (* IgnoreWithCtx *) crush IH.
  - (* ThenWithCtx *) crush IH.
  - (* MapCtx *) apply IH.
  - (* JustCfg *) unfold just_go. crush IH.
  - (* Memo *)
    destruct (negb (memo_on Q)); [crush IH|].
    destruct (memo_get (memo s) (cur s) id) as [[[[p e]|]|]|]; try reflexivity; try (destruct (memo_strict Q); reflexivity).
    { destruct (memo_strict Q && (n <? memo_fuel (memo s) (cur s) id)); reflexivity. }
    destruct (q_memo_take Q); crush IH.
  - (* Rec *) apply IH.
  - (* Var *) destruct (nth_error (crec ctx) k); [apply IH | reflexivity].
  - (* Pratt *) apply (proj1 (pratt_mi (go n) IH g ops ctx n)).
  - (* GroupArr *) apply group_loop_mi; exact IH.
  - (* NestedIn *) rewrite HQ. reflexivity.
  - (* WithState *) rewrite HQ. reflexivity.
  - (* Skip *) reflexivity.
  - (* ExtWrap *) crush IH.
  - (* Prog *) crush IH.
  - (* Padded *) crush IH.
Qed.

End Modes.
Print Assumptions mode_independent.
