(* C02: closed-form characterisation of repetition in the specification. *)
From Chum Require Export SemLaws.

Section Iter.
Variable K : ekind.
Variable toks : list tok.
Variable spn : nat -> nat -> span.
Variable run : srun_t.

Notation sdrive := (sdrive toks spn run).

(* items are kept most-recent-first: [chain items p0 p] says that, read in input order, each
   item starts where the previous one ended, the first at p0, the last ending at p *)
Fixpoint chain (items : list sitem) (p0 p : nat) : Prop :=
  match items with
  | [] => p = p0
  | (_, b, a) :: rest => a = p /\ chain rest p0 b
  end.

Definition le_opt (n : nat) (hi : option nat) : Prop := match hi with Some h => n <= h | None => True end.
Definition lt_opt (n : nat) (hi : option nat) : Prop := match hi with Some h => n < h | None => True end.

(* repeated(): greedy, possessive, bounded, contiguous *)
Lemma rep_spec a lo hi ctx : forall fuel c sacc sacce p0 p r items fl p' ems r',
  sdrive fuel (IRep a lo hi) ctx (SCount c) None sacc sacce p r = Some (Some (items, fl, p', ems), r') ->
  c = length sacc -> chain sacc p0 p -> le_opt c hi -> le_opt lo hi ->
  fl = true /\ lo <= length items /\ le_opt (length items) hi /\ chain items p0 p' /\
  (lt_opt (length items) hi -> exists r0 r1, run a ctx p' r0 = Some (None, r1)).
Proof.
  induction fuel as [|fuel IH]; intros c sacc sacce p0 p r items fl p' ems r' H Hc Hch Hle Hlo; cbn [Sem.sdrive it_snext] in H.
  { discriminate. }
  unfold rep_snext in H. destruct (at_cap c hi) eqn:Ecap.
  - injection H as <- <- <- <- <-. unfold at_cap in Ecap. destruct hi as [h|]; [|discriminate].
    apply Nat.leb_le in Ecap. cbn in Hle, Hlo. assert (c = h) by lia. subst h.
    rewrite <- Hc. cbn. repeat split; auto. intros; lia.
  - destruct (run a ctx p r) as [[[[[v p1] e1]|] r1]|] eqn:Ea; try discriminate.
    + eapply IH in H; eauto.
      * cbn. now rewrite Hc.
      * cbn. auto.
      * unfold at_cap in Ecap. destruct hi as [h|]; cbn; auto. apply Nat.leb_gt in Ecap. lia.
    + destruct (lo <=? c) eqn:El; [|discriminate].
      injection H as <- <- <- <- <-. apply Nat.leb_le in El.
      rewrite <- Hc. repeat split; auto. eauto.
Qed.

(* the same bounds for separated_by *)
Lemma sep_count_spec a sep lo hi lead trail ctx : forall fuel c sacc sacce p r items fl p' ems r',
  sdrive fuel (ISep a sep lo hi lead trail) ctx (SCount c) None sacc sacce p r = Some (Some (items, fl, p', ems), r') ->
  c = length sacc -> le_opt c hi -> le_opt lo hi ->
  fl = true /\ lo <= length items /\ le_opt (length items) hi.
Proof.
  induction fuel as [|fuel IH]; intros c sacc sacce p r items fl p' ems r' H Hc Hle Hlo; cbn [Sem.sdrive it_snext] in H.
  { discriminate. }
  destruct (sep_snext run a sep lo hi lead trail ctx c p r) as [[[x c'] r1]|] eqn:E; [|discriminate].
  unfold sep_snext in E. destruct (at_cap c hi) eqn:Ecap.
  - injection E as <- <- <-. injection H as <- <- <- <- <-.
    unfold at_cap in Ecap. destruct hi as [h|]; [|discriminate].
    apply Nat.leb_le in Ecap. cbn in Hle, Hlo. rewrite <- Hc. cbn. repeat split; auto; lia.
  - assert (Hitem : forall ps es r0, sep_sitem run a lo trail ctx c p ps es r0 = Some (x, c', r1) ->
      fl = true /\ lo <= length items /\ le_opt (length items) hi).
    { intros ps es r0 Ei. unfold sep_sitem in Ei.
      destruct (run a ctx ps r0) as [[[[[v p1] e1]|] r2]|]; try discriminate.
      - injection Ei as <- <- <-. eapply IH in H; eauto.
        + cbn. now rewrite Hc.
        + unfold at_cap in Ecap. destruct hi as [h|]; cbn; auto. apply Nat.leb_gt in Ecap. lia.
      - destruct (c <? lo) eqn:El; [injection Ei as <- <- <-; discriminate|].
        apply Nat.ltb_ge in El.
        destruct trail; injection Ei as <- <- <-; injection H as <- <- <- <- <-; rewrite <- Hc; repeat split; auto. }
    destruct ((c =? 0) && lead).
    + destruct (run sep ctx p r) as [[[[[v p1] e1]|] r2]|]; try discriminate; eauto.
    + destruct (0 <? c).
      * destruct (run sep ctx p r) as [[[[[v p1] e1]|] r2]|]; try discriminate; eauto.
        destruct (c <? lo) eqn:El; injection E as <- <- <-; [discriminate|].
        apply Nat.ltb_ge in El. injection H as <- <- <- <- <-. rewrite <- Hc. repeat split; auto.
      * eauto.
Qed.

(* a configured repetition behaves exactly as the statically bounded one with the bounds in force:
   what the closure sets overrides, what it leaves alone falls back to the static bound *)
Lemma configure_is_static a lo hi ck clo chi ctx : forall fuel c lim sacc sacce p r,
  sdrive fuel (IRepCfg a lo hi ck) ctx (SCfg c clo chi) lim sacc sacce p r
  = sdrive fuel (IRep a clo chi) ctx (SCount c) lim sacc sacce p r.
Proof.
  induction fuel as [|fuel IH]; intros; cbn [Sem.sdrive it_snext]; [reflexivity|].
  destruct lim as [[|l]|]; try reflexivity;
    destruct (rep_snext run a clo chi ctx c p r) as [[[x c'] r1]|]; try reflexivity;
    destruct x; try reflexivity; apply IH.
Qed.

Lemma configured_bounds a lo hi ck ctx :
  cfg_fails ck (val_count (cval ctx)) = false ->
  mk_iter (IRepCfg a lo hi ck) ctx
  = SCfg 0 (cfg_lo ck lo (val_count (cval ctx))) (cfg_hi ck hi (val_count (cval ctx))).
Proof. intros H. cbn [mk_iter]. now rewrite H. Qed.

(* try_configure whose closure returns an error: the iteration fails at once with that error recorded at the cursor,
   whatever the finisher (so the enclosing parser fails like a rejecting try_map would) *)
Lemma try_configure_error_is_failure a lo hi ck ctx : cfg_fails ck (val_count (cval ctx)) = true ->
  mk_iter (IRepCfg a lo hi ck) ctx = SFail lo.
Proof. intros H. cbn [mk_iter]. now rewrite H. Qed.

Lemma failed_configure_step a lo hi ck ctx k p r :
  it_snext toks spn run (IRepCfg a lo hi ck) ctx (SFail k) p r
  = match run (TryMap PFalse FId k Empty) ctx p r with
    | Some (None, r') => Some (SErr, SFail k, r')
    | _ => None
    end.
Proof. reflexivity. Qed.

Lemma try_configure_failure a lo hi ck ctx k p r :
  (cfg_fails ck (val_count (cval ctx)) = true -> mk_iter (IRepCfg a lo hi ck) ctx = SFail lo) /\
  it_snext toks spn run (IRepCfg a lo hi ck) ctx (SFail k) p r
  = match run (TryMap PFalse FId k Empty) ctx p r with
    | Some (None, r') => Some (SErr, SFail k, r')
    | _ => None
    end.
Proof. split; [apply try_configure_error_is_failure | apply failed_configure_step]. Qed.

(* enumerate pairs the i-th item (in input order) with i *)
Fixpoint indexed (items : list sitem) (n : nat) : Prop :=
  match items with
  | [] => n = 0
  | (v, _, _) :: rest => exists w n', n = S n' /\ v = VPair (VNat n') w /\ indexed rest n'
  end.

Lemma enumerate_indices j ctx : forall fuel k js lim sacc sacce p r items fl p' ems r',
  sdrive fuel (IEnum j) ctx (SEnum k js) lim sacc sacce p r = Some (Some (items, fl, p', ems), r') ->
  indexed sacc k -> indexed items (length items).
Proof.
  induction fuel as [|fuel IH]; intros k js lim sacc sacce p r items fl p' ems r' H Hix; cbn [Sem.sdrive] in H.
  { discriminate. }
  assert (Hlen : forall l n, indexed l n -> n = length l).
  { induction l as [|[[v b] a0] l IHl]; cbn; intros n0 Hn; [auto|].
    destruct Hn as (w & n' & -> & _ & Hr). f_equal. auto. }
  assert (Hstep :
    match it_snext toks spn run (IEnum j) ctx (SEnum k js) p r with
    | Some (SSome v p1 e1, its', r1) =>
        sdrive fuel (IEnum j) ctx its' (option_map Nat.pred lim) ((v, p, p1) :: sacc) (sacce ++ e1) p1 r1
    | Some (SNone p1 e1, _, r1) => Some (Some (sacc, true, p1, sacce ++ e1), r1)
    | Some (SErr, _, r1) => Some (None, r1)
    | None => None
    end = Some (Some (items, fl, p', ems), r') -> indexed items (length items)).
  { clear H. intros H. cbn [it_snext] in H.
    destruct (it_snext toks spn run j ctx js p r) as [[[x js'] r1]|]; [|discriminate].
    destruct x.
    - injection H as <- <- <- <- <-. rewrite <- (Hlen _ _ Hix). exact Hix.
    - eapply IH in H; eauto. cbn. do 2 eexists. split; [reflexivity|]. split; [reflexivity|]. exact Hix.
    - discriminate. }
  destruct lim as [[|l]|]; auto.
  injection H as <- <- <- <- <-. rewrite <- (Hlen _ _ Hix). exact Hix.
Qed.


(* into_iter(): the inner parser runs exactly once (in make_iter); the items are exactly the items of its output, in
   order, handed out without touching the input; a failing inner parser fails the whole iteration *)
Lemma into_iter_rest a ctx : forall l fuel sacc sacce p r, length l < fuel ->
  sdrive fuel (IIntoIter a) ctx (SInto (Some l)) None sacc sacce p r
  = Some (Some (rev (map (fun x => (x, p, p)) l) ++ sacc, true, p, sacce), r).
Proof.
  induction l as [|x l IH]; intros fuel sacc sacce p r Hf; (destruct fuel as [|fuel]; [cbn in Hf; lia|]); cbn [Sem.sdrive it_snext].
  - cbn. now rewrite app_nil_r.
  - cbn [option_map]. rewrite IH by (cbn in Hf; lia). rewrite app_nil_r. cbn [map rev]. now rewrite <- app_assoc.
Qed.

Lemma into_iter_spec a ctx fuel p r v p1 e1 r1 : length (val_items v) < fuel ->
  run a ctx p r = Some (Some (v, p1, e1), r1) ->
  exists items, sdrive fuel (IIntoIter a) ctx (SInto None) None [] [] p r = Some (Some (items, true, p1, e1), r1)
    /\ map (fun it => fst (fst it)) (rev items) = val_items v.
Proof.
  intros Hf E. destruct fuel as [|fuel]; [lia|]. cbn [Sem.sdrive it_snext]. rewrite E.
  destruct (val_items v) as [|x l] eqn:Ev.
  - exists []. split; reflexivity.
  - cbn [option_map]. cbn in Hf. rewrite into_iter_rest by lia. cbn [app].
    eexists. split; [reflexivity|]. rewrite rev_app_distr, rev_involutive. cbn. f_equal.
    rewrite map_map. cbn. now rewrite map_id.
Qed.

Lemma into_iter_fail a ctx fuel p r r1 : run a ctx p r = Some (None, r1) ->
  sdrive (S fuel) (IIntoIter a) ctx (SInto None) None [] [] p r = Some (None, r1).
Proof. intros E. cbn [Sem.sdrive it_snext]. now rewrite E. Qed.


(* i.then(j) used as an iterable: i's items first; when i ends j is made and asked (from where i ended, i's last emissions
   kept); once j has started i is never asked again *)
Lemma ithen_first i j ctx sa p r v p1 e1 sa' r1 :
  it_snext toks spn run i ctx sa p r = Some (SSome v p1 e1, sa', r1) ->
  it_snext toks spn run (IThen i j) ctx (SThen sa None) p r = Some (SSome v p1 e1, SThen sa' None, r1).
Proof. intros H. cbn [it_snext]. now rewrite H. Qed.

Lemma ithen_switch i j ctx sa p r p1 e1 sa' r1 :
  it_snext toks spn run i ctx sa p r = Some (SNone p1 e1, sa', r1) ->
  it_snext toks spn run (IThen i j) ctx (SThen sa None) p r =
    match it_snext toks spn run j ctx (mk_iter j ctx) p1 r1 with
    | Some (SSome v p2 e2, sb', r2) => Some (SSome v p2 (e1 ++ e2), SThen sa' (Some sb'), r2)
    | Some (SNone p2 e2, sb', r2) => Some (SNone p2 (e1 ++ e2), SThen sa' (Some sb'), r2)
    | Some (SErr, sb', r2) => Some (SErr, SThen sa' (Some sb'), r2)
    | None => None
    end.
Proof. intros H. cbn [it_snext]. now rewrite H. Qed.

Lemma ithen_second i j ctx sa sb p r :
  it_snext toks spn run (IThen i j) ctx (SThen sa (Some sb)) p r =
    match it_snext toks spn run j ctx sb p r with
    | Some (x, sb', r') => Some (x, SThen sa (Some sb'), r')
    | None => None
    end.
Proof. reflexivity. Qed.

Lemma ithen_fails_with_first i j ctx sa p r sa' r1 :
  it_snext toks spn run i ctx sa p r = Some (SErr, sa', r1) ->
  it_snext toks spn run (IThen i j) ctx (SThen sa None) p r = Some (SErr, SThen sa' None, r1).
Proof. intros H. cbn [it_snext]. now rewrite H. Qed.

End Iter.
