(* C11: the memoization step.  The machine with memo tables differs from the table-free one in the Memo clause only.
   This file proves that clause transparent, for ANY interpreter [run] of the sub-parsers that refines a specification
   [srun] with the register-equivariance (Lift) property:
     - a first visit (no table entry) returns what the memoized parser itself returns, merged into the pending error,
       and a failure is cached as an entry that is valid in the sense below;
     - a later visit that hits a valid entry returns exactly what re-running the parser would return.
   Not proved here: that the validity of every entry is maintained by all the other combinators (they never touch the
   table) for the whole run -- the global induction -- and validity across different contexts, which is false of the
   code (finding F18). *)
From Chum Require Export Refine Shelter.

Definition Q_on : quirks := mkQ false false false false false false false false true false None.

Section MemoP.
Variable K : ekind.
Variable toks : list tok.
Variable spn : nat -> nat -> span.
Notation inv := (inv toks).
Notation join := (Sem.join K).

(* an entry cached for parser x (under context ctx) at position p is valid when x, run from an empty register at p, fails
   leaving exactly the cached pending error *)
Definition entry_valid (srun : srun_t) (x : G) (ctx : env) (p : nat) (e : option lerr) : Prop :=
  srun x ctx p None = Some (None, e).

Lemma join_alt_on s new : alt (join_alt Q_on K s new) = join (alt s) new.
Proof. destruct new as [[q e]|]; reflexivity. Qed.
Lemma join_alt_on_sec s new : sec (join_alt Q_on K s new) = sec s.
Proof. destruct new as [[q e]|]; reflexivity. Qed.
Lemma join_alt_on_cur s new : cur (join_alt Q_on K s new) = cur s.
Proof. destruct new as [[q e]|]; reflexivity. Qed.
Lemma join_alt_on_ust s new : ust (join_alt Q_on K s new) = ust s.
Proof. destruct new as [[q e]|]; reflexivity. Qed.

Section Step.
Variable n : nat.
Variable srun : srun_t.
Hypothesis HR : R toks (go Q_on K toks spn n) srun.
Hypothesis HLift : Lift K srun.

(* first visit *)
Theorem memo_miss_transparent m id x ctx s r s1 :
  norec x = true -> envok ctx -> wfr (alt s) -> inv s ->
  memo_get (memo s) (cur s) id = None ->
  go Q_on K toks spn (S n) m (Memo id x) ctx s = (r, s1) ->
  post toks m s r s1 (srun x ctx (cur s) (alt s)) /\
  (r = Err -> exists new, memo_get (memo s1) (cur s) id = Some (Some new) /\ entry_valid srun x ctx (cur s) new).
Proof.
  intros Hn He Hw Hi Hg H. cbn [go memo_on Q_on negb q_memo_take] in H. rewrite Hg in H.
  set (s0 := set_memo s (memo_put (memo s) (cur s) id None n)) in H.
  destruct (go Q_on K toks spn n m x ctx (set_alt s0 None)) as [r1 s2] eqn:E.
  pose proof (HR _ _ _ _ _ _ E Hi) as P. cbn [cur alt sec set_alt s0 set_memo] in P.
  destruct r1.
  - (* Ok *) injection H as <- <-. destruct P as (v' & p' & ems & Hs & Hv & Hc & Hsec & Hu). cbn [cur sec] in *.
    destruct (HLift _ _ _ _ _ _ Hn He (I : wfr None) Hs) as (W & Lf).
    split; [|discriminate]. exists v', p', ems. cbn [post ok_post cur alt sec ust set_memo].
    rewrite join_alt_on, join_alt_on_cur, join_alt_on_sec, join_alt_on_ust. cbn [cur alt sec ust set_alt].
    repeat split; auto. exact (Lf (alt s) Hw).
  - (* Err *) injection H as <- <-. destruct P as (ext & Hs & Hsec). cbn [sec] in Hsec.
    destruct (HLift _ _ _ _ _ _ Hn He (I : wfr None) Hs) as (W & Lf).
    split.
    + exists ext. cbn [cur alt sec set_memo]. rewrite join_alt_on, join_alt_on_sec. cbn [alt sec set_alt].
      split; auto. exact (Lf (alt s) Hw).
    + intros _. exists (alt s2). cbn [memo set_memo]. split; [|exact Hs].
      unfold memo_put. cbn [memo_get]. now rewrite !Nat.eqb_refl.
  - injection H as <- <-. split; [exact I|discriminate].
  - injection H as <- <-. split; [exact I|discriminate].
Qed.

(* a later visit that finds a valid entry: the cached failure is what re-running the parser gives *)
Theorem memo_hit_transparent m id x ctx s r s1 new :
  norec x = true -> envok ctx -> wfr (alt s) ->
  memo_get (memo s) (cur s) id = Some (Some (Some new)) ->
  entry_valid srun x ctx (cur s) (Some new) ->
  go Q_on K toks spn (S n) m (Memo id x) ctx s = (r, s1) ->
  r = Err /\ err_post s s1 (srun x ctx (cur s) (alt s)).
Proof.
  intros Hn He Hw Hg Hv H. cbn [go memo_on Q_on negb q_memo_take memo_strict andb] in H. rewrite Hg in H. destruct new as [q e].
  injection H as <- <-. split; auto. exists []. rewrite app_nil_r. split; [|reflexivity].
  destruct (HLift _ _ _ _ _ _ Hn He (I : wfr None) Hv) as (W & Lf). exact (Lf (alt s) Hw).
Qed.
End Step.
End MemoP.
