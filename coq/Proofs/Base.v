(* Basic facts about the machine state, checkpoints and the user-state hash. *)
From Chum Require Export Sem.

Lemma firstn_app_exact {A} (l x : list A) : firstn (length l) (l ++ x) = l.
Proof. induction l as [|y l IH]; cbn; [destruct x; reflexivity | now rewrite IH]. Qed.

Lemma skipn_app_exact {A} (l x : list A) : skipn (length l) (l ++ x) = x.
Proof. induction l as [|y l IH]; cbn; auto. Qed.

Global Arguments Sem.ust_at : simpl never.
Global Arguments on_tok : simpl never.
Global Arguments rewind : simpl never.
Global Arguments save : simpl never.
Global Arguments reposition : simpl never.

Section Base.
Variable K : ekind.
Variable toks : list tok.
Variable spn : nat -> nat -> span.

Notation ust_at := (ust_at toks).

Lemma ust_at_0 : ust_at 0 = 0%N.
Proof. reflexivity. Qed.

Lemma firstn_S_nth {A} (l : list A) p t : nth_error l p = Some t -> firstn (S p) l = firstn p l ++ [t].
Proof.
  revert p; induction l as [|x l IH]; intros [|p] H; cbn in *; try discriminate.
  - now inversion H.
  - now rewrite (IH _ H).
Qed.

Lemma ust_at_S p t : nth_error toks p = Some t -> ust_at (S p) = on_tok t (ust_at p).
Proof.
  intros H. unfold Sem.ust_at. rewrite (firstn_S_nth _ _ _ H), fold_left_app. reflexivity.
Qed.

(* the inspector invariant: the user state is the hash of exactly the tokens before the cursor *)
Definition inv (s : st) : Prop := ust s = ust_at (cur s).

Lemma rewind_save s s1 ext :
  sec s1 = sec s ++ ext -> rewind s1 (save s) = mkSt (cur s) (sec s) (alt s1) (ust s) (memo s1).
Proof. intros H. unfold rewind, save. rewrite H, firstn_app_exact. reflexivity. Qed.

Lemma rewind_save0 s s1 :
  sec s1 = sec s -> rewind s1 (save s) = mkSt (cur s) (sec s) (alt s1) (ust s) (memo s1).
Proof. intros H. apply rewind_save with (ext := []). now rewrite app_nil_r. Qed.

Lemma alt_rewind s c : alt (rewind s c) = alt s.
Proof. destruct c as [[? ?] ?]; reflexivity. Qed.

Lemma next_some s t : nth_error toks (cur s) = Some t ->
  next toks s = (Some t, mkSt (S (cur s)) (sec s) (alt s) (on_tok t (ust s)) (memo s)).
Proof. intros H; unfold next; now rewrite H. Qed.

Lemma next_none s : nth_error toks (cur s) = None -> next toks s = (None, s).
Proof. intros H; unfold next; now rewrite H. Qed.

End Base.
