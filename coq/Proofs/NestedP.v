(* C16: what the glue of nested_in guarantees, for any inner run. *)
From Chum Require Export Nested Base.

Section NestedP.
Variable Q : quirks.
Variable K : ekind.

(* the outer input advances by exactly what `b` consumed (the group token), whatever happened inside *)
Lemma glue_cursor inner s1 : cur (snd (nested_glue Q K inner s1)) = cur s1.
Proof. destruct inner as [[[r isec] [[q e]|]] iust]; reflexivity. Qed.

(* the outcome is the inner outcome: nested_in succeeds iff the inner grammar (followed by end()) matched
   the inner input completely *)
Lemma glue_outcome inner s1 : fst (nested_glue Q K inner s1) = fst (fst (fst inner)).
Proof. destruct inner as [[[r isec] [[q e]|]] iust]; reflexivity. Qed.

(* non-fatal errors emitted inside surface in the outer result, in order, after the outer ones *)
Lemma glue_emissions inner s1 :
  sec (snd (nested_glue Q K inner s1)) = sec s1 ++ map (fun e => (cur s1, snd e)) (snd (fst (fst inner))).
Proof. destruct inner as [[[r isec] [[q e]|]] iust]; reflexivity. Qed.

(* the inner failure surfaces: merged into the (restored) outer pending error at the outer position *)
Lemma glue_alt inner s1 :
  alt (snd (nested_glue Q K inner s1)) =
    match snd (fst inner) with
    | Some (_, e) => add_alt_err (q_zst_noop Q) K (alt s1) (cur s1) e
    | None => alt s1
    end.
Proof. destruct inner as [[[r isec] [[q e]|]] iust]; reflexivity. Qed.

(* the outer grammar backtracks over a failed nested parse like over any other failure: the state after the
   glue extends the state before it, so rewinding to a checkpoint taken before restores it exactly *)
Lemma glue_backtracks inner s s1 ext :
  sec s1 = sec s ++ ext ->
  rewind (snd (nested_glue Q K inner s1)) (save s) =
    mkSt (cur s) (sec s) (alt (snd (nested_glue Q K inner s1))) (ust s) (memo s1).
Proof.
  intros H. eapply eq_trans; [eapply rewind_save with (ext := ext ++ map (fun e => (cur s1, snd e)) (snd (fst (fst inner))))|].
  - rewrite glue_emissions, H, app_assoc. reflexivity.
  - destruct inner as [[[r isec] [[q e]|]] iust]; reflexivity.
Qed.

End NestedP.

(* C18, with_state: in the extended configuration the sub-parser runs from the given state -- a fresh copy on every
   invocation, whatever the outer state is -- and the outer state is untouched afterwards; cursor, errors and outcome
   are those of the sub-parser *)
Section WithStateP.
Variable Q : quirks.
Variable K : ekind.
Variable toks : list tok.
Variable spn : nat -> nat -> span.

Lemma with_state_spec f n m k a ctx s :
  nested Q = Some f ->
  go Q K toks spn (S n) m (WithState k a) ctx s =
    (fst (go Q K toks spn n m a ctx (set_ust s k)), set_ust (snd (go Q K toks spn n m a ctx (set_ust s k))) (ust s)).
Proof. intros H. cbn [go]. rewrite H. destruct (go Q K toks spn n m a ctx (set_ust s k)); reflexivity. Qed.

Lemma with_state_outer_untouched f n m k a ctx s :
  nested Q = Some f -> ust (snd (go Q K toks spn (S n) m (WithState k a) ctx s)) = ust s.
Proof. intros H. rewrite (with_state_spec f) by assumption. reflexivity. Qed.

Lemma with_state_inner_is_fresh f n m k a ctx s s' :
  nested Q = Some f -> cur s = cur s' -> sec s = sec s' -> alt s = alt s' -> memo s = memo s' ->
  fst (go Q K toks spn (S n) m (WithState k a) ctx s) = fst (go Q K toks spn (S n) m (WithState k a) ctx s').
Proof.
  intros H Hc Hs Ha Hm. rewrite !(with_state_spec f) by assumption. cbn [fst].
  replace (set_ust s' k) with (set_ust s k); [reflexivity|]. unfold set_ust. now rewrite Hc, Hs, Ha, Hm.
Qed.
End WithStateP.

