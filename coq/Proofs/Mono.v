(* Fuel monotonicity of the specification: once [sem n] is defined, more fuel gives the same answer.
   So "sem is defined" names a fuel-independent relation, and two defined answers (at any two fuels) agree. *)
From Chum Require Export SemLaws.
From Coq Require Import Lia.

Section Mono.
Variable K : ekind.
Variable toks : list tok.
Variable spn : nat -> nat -> span.
Notation sem := (sem K toks spn).

Definition Mono (run run' : srun_t) : Prop :=
  forall g ctx p a r, run g ctx p a = Some r -> run' g ctx p a = Some r.

Section L.
Variables run run' : srun_t.
Hypothesis HM : Mono run run'.

Ltac use_run H :=
  match type of H with
  | context [run ?g ?c ?p ?a] =>
      let E := fresh "E" in
      destruct (run g c p a) as [[[[[? ?] ?]|] ?]|] eqn:E; try discriminate; rewrite (HM _ _ _ _ _ E)
  end.

Lemma choice_sem_mono : forall gs ctx p a r,
  choice_sem run gs ctx p a = Some r -> choice_sem run' gs ctx p a = Some r.
Proof.
  induction gs as [|g gs IH]; intros ctx p a r H; cbn in *; [exact H|].
  use_run H; auto.
Qed.

Lemma group_sem_mono : forall gs ctx p a accv acce r,
  group_sem run gs ctx p a accv acce = Some r -> group_sem run' gs ctx p a accv acce = Some r.
Proof.
  induction gs as [|g gs IH]; intros ctx p a accv acce r H; cbn in *; [exact H|].
  use_run H; auto.
Qed.

Lemma rep_snext_mono a lo hi ctx c p r x :
  rep_snext run a lo hi ctx c p r = Some x -> rep_snext run' a lo hi ctx c p r = Some x.
Proof. unfold rep_snext. intros H. destruct (at_cap c hi); [exact H|]. use_run H; auto. Qed.

Lemma sep_sitem_mono a lo trail ctx c p ps es r0 x :
  sep_sitem run a lo trail ctx c p ps es r0 = Some x -> sep_sitem run' a lo trail ctx c p ps es r0 = Some x.
Proof. unfold sep_sitem. intros H. use_run H; auto. Qed.

Lemma sep_snext_mono a sep lo hi lead trail ctx c p r x :
  sep_snext run a sep lo hi lead trail ctx c p r = Some x -> sep_snext run' a sep lo hi lead trail ctx c p r = Some x.
Proof.
  unfold sep_snext. intros H. destruct (at_cap c hi); [exact H|].
  destruct ((c =? 0) && lead).
  - use_run H; apply sep_sitem_mono; auto.
  - destruct (0 <? c); [|apply sep_sitem_mono; auto].
    use_run H; auto. apply sep_sitem_mono; auto.
Qed.

Lemma it_snext_mono : forall i ctx its p r x,
  it_snext toks spn run i ctx its p r = Some x -> it_snext toks spn run' i ctx its p r = Some x.
Proof.
  induction i as [a lo hi|a sep lo hi lead trail|j IHj|f j IHj|f j IHj|a|a lo hi ck|a|i1 IHi1 i2 IHi2];
    intros ctx its p r x H; cbn [it_snext] in *.
  - destruct its; try discriminate.
    destruct (rep_snext run a lo hi ctx n p r) as [[[x0 c'] r0]|] eqn:E; [|discriminate].
    now rewrite (rep_snext_mono _ _ _ _ _ _ _ _ E).
  - destruct its; try discriminate.
    destruct (sep_snext run a sep lo hi lead trail ctx n p r) as [[[x0 c'] r0]|] eqn:E; [|discriminate].
    now rewrite (sep_snext_mono _ _ _ _ _ _ _ _ _ _ _ E).
  - destruct its; try discriminate.
    destruct (it_snext toks spn run j ctx its p r) as [[[x0 c'] r0]|] eqn:E; [|discriminate].
    now rewrite (IHj _ _ _ _ _ E).
  - destruct (it_snext toks spn run j ctx its p r) as [[[x0 c'] r0]|] eqn:E; [|discriminate].
    now rewrite (IHj _ _ _ _ _ E).
  - destruct (it_snext toks spn run j ctx its p r) as [[[x0 c'] r0]|] eqn:E; [|discriminate].
    now rewrite (IHj _ _ _ _ _ E).
  - destruct its; try discriminate. destruct b; [exact H|]. use_run H; auto.
  - destruct its as [c|k js|b|c clo chi|k|o|sa sb]; try discriminate.
    + destruct (rep_snext run a clo chi ctx c p r) as [[[x0 c'] r0]|] eqn:E; [|discriminate].
      now rewrite (rep_snext_mono _ _ _ _ _ _ _ _ E).
    + use_run H; auto.
  - destruct its as [| | | | |[l|]|]; try discriminate; [exact H|]. use_run H; auto.
  - destruct its as [| | | | | |sa [sb|]]; try discriminate.
    + destruct (it_snext toks spn run i2 ctx sb p r) as [[[x0 c'] r0]|] eqn:E; [|discriminate]. now rewrite (IHi2 _ _ _ _ _ E).
    + destruct (it_snext toks spn run i1 ctx sa p r) as [[[x0 c'] r0]|] eqn:E; [|discriminate]. rewrite (IHi1 _ _ _ _ _ E).
      destruct x0; try exact H.
      destruct (it_snext toks spn run i2 ctx (mk_iter i2 ctx) p0 r0) as [[[x1 c1] r1]|] eqn:E2; [|discriminate].
      now rewrite (IHi2 _ _ _ _ _ E2).
Qed.

Lemma sdrive_mono : forall fuel fuel' i ctx its lim acc acce p r x, fuel <= fuel' ->
  sdrive toks spn run fuel i ctx its lim acc acce p r = Some x ->
  sdrive toks spn run' fuel' i ctx its lim acc acce p r = Some x.
Proof.
  induction fuel as [|fuel IH]; intros fuel' i ctx its lim acc acce p r x Hle H; [discriminate|].
  destruct fuel' as [|fuel']; [lia|]. cbn [sdrive] in *.
  assert (Hgo : match it_snext toks spn run i ctx its p r with
        | Some (SSome v p1 e1, its', r1) =>
            sdrive toks spn run fuel i ctx its' (option_map Nat.pred lim) ((v, p, p1) :: acc) (acce ++ e1) p1 r1
        | Some (SNone p1 e1, _, r1) => Some (Some (acc, true, p1, acce ++ e1), r1)
        | Some (SErr, _, r1) => Some (None, r1)
        | None => None
        end = Some x ->
        match it_snext toks spn run' i ctx its p r with
        | Some (SSome v p1 e1, its', r1) =>
            sdrive toks spn run' fuel' i ctx its' (option_map Nat.pred lim) ((v, p, p1) :: acc) (acce ++ e1) p1 r1
        | Some (SNone p1 e1, _, r1) => Some (Some (acc, true, p1, acce ++ e1), r1)
        | Some (SErr, _, r1) => Some (None, r1)
        | None => None
        end = Some x).
  { intros H0. destruct (it_snext toks spn run i ctx its p r) as [[[x0 its'] r1]|] eqn:E; [|discriminate].
    rewrite (it_snext_mono _ _ _ _ _ _ E). destruct x0; auto. apply IH; auto; lia. }
  destruct lim as [[|l]|]; auto.
Qed.

Lemma skip_until_sem_mono : forall fuel fuel' skip until ctx p r acce x, fuel <= fuel' ->
  skip_until_sem run fuel skip until ctx p r acce = Some x -> skip_until_sem run' fuel' skip until ctx p r acce = Some x.
Proof.
  induction fuel as [|fuel IH]; intros fuel' skip until ctx p r acce x Hle H; [discriminate|].
  destruct fuel' as [|fuel']; [lia|]. cbn [skip_until_sem] in *.
  use_run H; auto. use_run H; auto. apply IH; auto; lia.
Qed.

Lemma skip_retry_sem_mono : forall fuel fuel' g skip until ctx p r acce x, fuel <= fuel' ->
  skip_retry_sem run fuel g skip until ctx p r acce = Some x -> skip_retry_sem run' fuel' g skip until ctx p r acce = Some x.
Proof.
  induction fuel as [|fuel IH]; intros fuel' g skip until ctx p r acce x Hle H; [discriminate|].
  destruct fuel' as [|fuel']; [lia|]. cbn [skip_retry_sem] in *.
  use_run H; auto. use_run H; auto.
  match type of H with context [run g ctx ?q ?rr] =>
    destruct (run g ctx q rr) as [[[[[v3 p3] e3]|] a3]|] eqn:E3; try discriminate; rewrite (HM _ _ _ _ _ E3) end.
  - destruct e3; auto. apply IH; auto; lia.
  - apply IH; auto; lia.
Qed.

(* Pratt operator scans: SDone None is "undefined" *)
Section P.
Variables rec rec' : nat -> nat -> reg -> option sres.
Hypothesis HR : forall m p a r, rec m p a = Some r -> rec' m p a = Some r.

Lemma pratt_sprefix_mono : forall ops ctx start a,
  pratt_sprefix spn run rec ops ctx start a <> SDone None ->
  pratt_sprefix spn run' rec' ops ctx start a = pratt_sprefix spn run rec ops ctx start a.
Proof.
  induction ops as [|o ops IH]; intros ctx start a Hx; cbn [pratt_sprefix] in *; [reflexivity|].
  destruct o as [r bp og k|bp og k|bp og k]; auto.
  destruct (run og ctx start a) as [[[[[vop p1] e1]|] a1]|] eqn:E; [| |congruence]; rewrite (HM _ _ _ _ _ E); auto.
  destruct (rec (2 * bp) p1 a1) as [[[[[vr p2] e2]|] a2]|] eqn:E2; [| |congruence]; rewrite (HR _ _ _ _ E2); auto.
Qed.

Lemma pratt_spostfix_mono : forall ops ctx minp start lhs p a,
  pratt_spostfix spn run ops ctx minp start lhs p a <> SDone None ->
  pratt_spostfix spn run' ops ctx minp start lhs p a = pratt_spostfix spn run ops ctx minp start lhs p a.
Proof.
  induction ops as [|o ops IH]; intros ctx minp start lhs p a Hx; cbn [pratt_spostfix] in *; [reflexivity|].
  destruct o as [r bp og k|bp og k|bp og k]; auto.
  destruct (minp <=? 2 * bp + 1); auto.
  destruct (run og ctx p a) as [[[[[vop p1] e1]|] a1]|] eqn:E; [| |congruence]; rewrite (HM _ _ _ _ _ E); auto.
Qed.

Lemma pratt_sinfix_mono : forall ops ctx minp start lhs p a,
  pratt_sinfix spn run rec ops ctx minp start lhs p a <> SDone None ->
  pratt_sinfix spn run' rec' ops ctx minp start lhs p a = pratt_sinfix spn run rec ops ctx minp start lhs p a.
Proof.
  induction ops as [|o ops IH]; intros ctx minp start lhs p a Hx; cbn [pratt_sinfix] in *; [reflexivity|].
  destruct o as [r bp og k|bp og k|bp og k]; auto.
  destruct (minp <=? lpow r bp); auto.
  destruct (run og ctx p a) as [[[[[vop p1] e1]|] a1]|] eqn:E; [| |congruence]; rewrite (HM _ _ _ _ _ E); auto.
  destruct (rec (rpow r bp) p1 a1) as [[[[[vr p2] e2]|] a2]|] eqn:E2; [| |congruence]; rewrite (HR _ _ _ _ E2); auto.
Qed.
End P.
Lemma psem_S (rn : srun_t) f atom ops ctx minp p a :
  pratt_sem spn rn (S f) atom ops ctx minp p a =
    match pratt_sprefix spn rn (pratt_sem spn rn f atom ops ctx) ops ctx p a with
    | SDone (Some (Some (v, p1, e1), a1)) => pratt_sloop spn rn f atom ops ctx minp p v e1 p1 a1
    | SDone x => x
    | SNext a1 =>
        match rn atom ctx p a1 with
        | Some (Some (v, p1, e1), a2) => pratt_sloop spn rn f atom ops ctx minp p v e1 p1 a2
        | x => x
        end
    end.
Proof. reflexivity. Qed.

Lemma psloop_S (rn : srun_t) f atom ops ctx minp start lhs acce p a :
  pratt_sloop spn rn (S f) atom ops ctx minp start lhs acce p a =
    match pratt_spostfix spn rn ops ctx minp start lhs p a with
    | SDone (Some (Some (v, p1, e1), a1)) => pratt_sloop spn rn f atom ops ctx minp start v (acce ++ e1) p1 a1
    | SDone x => x
    | SNext a1 =>
        match pratt_sinfix spn rn (pratt_sem spn rn f atom ops ctx) ops ctx minp start lhs p a1 with
        | SDone (Some (Some (v, p1, e1), a2)) => pratt_sloop spn rn f atom ops ctx minp start v (acce ++ e1) p1 a2
        | SDone x => x
        | SNext a2 => Some (Some (lhs, p, acce), a2)
        end
    end.
Proof. reflexivity. Qed.

Lemma pratt_mono : forall fuel,
  (forall fuel' atom ops ctx minp p a r, fuel <= fuel' ->
     pratt_sem spn run fuel atom ops ctx minp p a = Some r -> pratt_sem spn run' fuel' atom ops ctx minp p a = Some r)
  /\ (forall fuel' atom ops ctx minp start lhs acce p a r, fuel <= fuel' ->
     pratt_sloop spn run fuel atom ops ctx minp start lhs acce p a = Some r ->
     pratt_sloop spn run' fuel' atom ops ctx minp start lhs acce p a = Some r).
Proof.
  induction fuel as [|f [IHs IHl]]; [split; intros; discriminate|].
  split.
  - intros fuel' atom ops ctx minp p a r Hle H. destruct fuel' as [|f']; [lia|]. rewrite psem_S in H |- *.
    assert (Hrec : forall m q b x, pratt_sem spn run f atom ops ctx m q b = Some x -> pratt_sem spn run' f' atom ops ctx m q b = Some x)
      by (intros; apply IHs; auto; lia).
    destruct (pratt_sprefix spn run (pratt_sem spn run f atom ops ctx) ops ctx p a) as [x|a1] eqn:EP.
    + destruct x as [[o a1]|]; [|discriminate].
      rewrite (pratt_sprefix_mono _ _ Hrec) by (rewrite EP; discriminate). rewrite EP.
      destruct o as [[[v p1] e1]|]; auto. apply IHl; auto; lia.
    + rewrite (pratt_sprefix_mono _ _ Hrec) by (rewrite EP; discriminate). rewrite EP.
      destruct (run atom ctx p a1) as [[[[[v p1] e1]|] a2]|] eqn:E; try discriminate; rewrite (HM _ _ _ _ _ E); auto.
      apply IHl; auto; lia.
  - intros fuel' atom ops ctx minp start lhs acce p a r Hle H. destruct fuel' as [|f']; [lia|]. rewrite psloop_S in H |- *.
    assert (Hrec : forall m q b x, pratt_sem spn run f atom ops ctx m q b = Some x -> pratt_sem spn run' f' atom ops ctx m q b = Some x)
      by (intros; apply IHs; auto; lia).
    destruct (pratt_spostfix spn run ops ctx minp start lhs p a) as [x|a1] eqn:EP.
    + destruct x as [[o a1]|]; [|discriminate].
      rewrite pratt_spostfix_mono by (rewrite EP; discriminate). rewrite EP.
      destruct o as [[[v p1] e1]|]; auto. apply IHl; auto; lia.
    + rewrite pratt_spostfix_mono by (rewrite EP; discriminate). rewrite EP.
      destruct (pratt_sinfix spn run (pratt_sem spn run f atom ops ctx) ops ctx minp start lhs p a1) as [x|a2] eqn:EI.
      * destruct x as [[o a2]|]; [|discriminate].
        rewrite (pratt_sinfix_mono _ _ Hrec) by (rewrite EI; discriminate). rewrite EI.
        destruct o as [[[v p1] e1]|]; auto. apply IHl; auto; lia.
      * rewrite (pratt_sinfix_mono _ _ Hrec) by (rewrite EI; discriminate). rewrite EI. exact H.
Qed.
End L.

(* ---------- the specification itself ---------- *)
Ltac step IH H :=
  match type of H with
  | context [Sem.sem K toks spn ?n ?g ?c ?p ?a] =>
      let E := fresh "E" in
      destruct (Sem.sem K toks spn n g c p a) as [[[[[? ?] ?]|] ?]|] eqn:E; try discriminate;
      rewrite (IH _ _ _ _ _ E)
  end.

Ltac stepd IH H :=
  match type of H with
  | context [sdrive toks spn (Sem.sem K toks spn ?n) ?f ?i ?c ?its ?lim ?acc ?acce ?p ?a] =>
    match goal with |- context [sdrive toks spn (Sem.sem K toks spn ?m) ?f' i c its lim acc acce p a] =>
      let E := fresh "E" in
      destruct (sdrive toks spn (Sem.sem K toks spn n) f i c its lim acc acce p a) as [[[[[[? ?] ?] ?]|] ?]|] eqn:E; try discriminate;
      rewrite (sdrive_mono _ _ IH f f' i c its lim acc acce p a _ ltac:(lia) E)
    end
  | context [skip_until_sem (Sem.sem K toks spn ?n) ?f ?sk ?un ?c ?p ?a ?acce] =>
    match goal with |- context [skip_until_sem (Sem.sem K toks spn ?m) ?f' sk un c p a acce] =>
      let E := fresh "E" in
      destruct (skip_until_sem (Sem.sem K toks spn n) f sk un c p a acce) as [[[[? ?]|] ?]|] eqn:E; try discriminate;
      rewrite (skip_until_sem_mono _ _ IH f f' sk un c p a acce _ ltac:(lia) E)
    end
  | context [skip_retry_sem (Sem.sem K toks spn ?n) ?f ?g ?sk ?un ?c ?p ?a ?acce] =>
    match goal with |- context [skip_retry_sem (Sem.sem K toks spn ?m) ?f' g sk un c p a acce] =>
      let E := fresh "E" in
      destruct (skip_retry_sem (Sem.sem K toks spn n) f g sk un c p a acce) as [[[[[? ?] ?]|] ?]|] eqn:E; try discriminate;
      rewrite (skip_retry_sem_mono _ _ IH f f' g sk un c p a acce _ ltac:(lia) E)
    end
  end.

Lemma sem_step_mono n m : n <= m -> Mono (sem n) (sem m) -> Mono (sem (S n)) (sem (S m)).
Proof.
  intros Hle IH g ctx p a r H.
  destruct g; cbn [Sem.sem] in H |- *; try exact H.
  all: try (solve [repeat (step IH H; cbn beta iota); try exact H; auto]).
  all: try (solve [eapply group_sem_mono; eauto | eapply choice_sem_mono; eauto
                  | destruct gs; [exact H | eapply choice_sem_mono; eauto]]).
  all: try (solve [repeat (first [step IH H | stepd IH H]; cbn beta iota); try exact H; auto]).
  - (* CollectExactly *)
    destruct n0; [destruct (it_eager i ctx); [apply IH; exact H|]|];
      stepd IH H; exact H.
  - (* RecoverVia *) step IH H; [exact H|]. destruct r0 as [a0|]; [|discriminate]. step IH H; exact H.
  - (* RecoverSkipUntil *) step IH H; [exact H|]. destruct r0 as [a0|]; [|discriminate]. stepd IH H; exact H.
  - (* RecoverSkipRetry *) step IH H; [exact H|]. destruct r0 as [a0|]; [|discriminate]. stepd IH H; exact H.
  - (* Var *) destruct (nth_error (crec ctx) k); [apply IH; exact H|discriminate].
  - (* Pratt *) eapply (proj1 (pratt_mono _ _ IH n)); eauto.
Qed.

Theorem sem_mono_S : forall n, Mono (sem n) (sem (S n)).
Proof. induction n as [|n IH]; [intros g ctx p a r H; discriminate|]. apply sem_step_mono; auto. Qed.

(* more fuel never changes an answer *)
Theorem sem_mono : forall n m g ctx p a r, n <= m -> sem n g ctx p a = Some r -> sem m g ctx p a = Some r.
Proof.
  intros n m g ctx p a r Hle H. induction Hle as [|m Hle IH]; [exact H|]. apply sem_mono_S. exact IH.
Qed.

(* two defined answers agree, whatever the fuels *)
Theorem sem_deterministic : forall n m g ctx p a r r',
  sem n g ctx p a = Some r -> sem m g ctx p a = Some r' -> r = r'.
Proof.
  intros n m g ctx p a r r' H H'.
  apply (sem_mono n (Nat.max n m)) in H; [|lia]. apply (sem_mono m (Nat.max n m)) in H'; [|lia]. congruence.
Qed.
End Mono.
