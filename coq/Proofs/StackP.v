From Chum Require Export Stack.

(* If no level needs more than the red zone (and a segment is at least a red zone), no nest of any depth overflows, whatever
   the frame sizes and wherever in its segment the descent starts; and it allocates at most one segment per level: the depth
   is bounded by memory only. *)
Theorem descend_never_overflows zone seg : (zone <= seg)%N ->
  forall frames left segs, (forall f, In f frames -> (f <= zone)%N) ->
    exists left' segs', descend zone seg frames left segs = Some (left', segs') /\ segs' <= segs + length frames.
Proof.
  intros Hz. induction frames as [|f r IH]; intros left segs Hf; cbn [descend].
  - exists left, segs. split; [reflexivity|cbn; lia].
  - assert (Hfz : (f <= zone)%N) by (apply Hf; now left).
    unfold enter. destruct (N.ltb_spec left zone) as [L|L].
    + destruct (N.leb_spec f seg) as [E|E]; [|lia].
      destruct (IH (seg - f)%N (S segs) (fun x Hx => Hf x (or_intror Hx))) as (l' & s' & H & B).
      exists l', s'. split; [exact H|cbn [length]; lia].
    + destruct (N.leb_spec f left) as [E|E]; [|lia].
      destruct (IH (left - f)%N segs (fun x Hx => Hf x (or_intror Hx))) as (l' & s' & H & B).
      exists l', s'. split; [exact H|cbn [length]; lia].
Qed.

(* conversely the red zone is exactly the budget of a level: a frame larger than the red zone overflows from some states
   that pass the growth check *)
Lemma frame_beyond_red_zone_can_overflow zone seg f : (zone < f)%N -> (zone <= seg)%N ->
  enter zone seg zone f = None.
Proof.
  intros Hf Hz. unfold enter. rewrite N.ltb_irrefl. destruct (N.leb_spec f zone); [lia|reflexivity].
Qed.
