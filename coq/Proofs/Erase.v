(* Whole-grammar memo erasure.  [erase g] removes every memoized() from g (at any depth: under combinators, inside
   iterables, operator tables and recursive definitions).  For grammars without recover_with / extension parsers the
   specification of g and of [erase g] agree wherever g's is defined: the same verdict, value, end position, emitted
   errors and pending-error register, from every position and register.  Together with refine_memo (the machine with
   its memo tables refines the specification of g) this is the property at full strength: a grammar with any number of
   memoized parsers behaves as the grammar with none. *)
From Chum Require Export Shelter Mono.
From Coq Require Import Lia.

Fixpoint erase (g : G) : G :=
  match g with
  | End | Empty | Any | Just _ | OneOf _ | NoneOf _ | Select _ _ | Custom _ _ | JustCfg _ | Var _ | Skip _ | Prog _ _ => g
  | Memo _ a => erase a
  | Map f a => Map f (erase a)
  | MapWith f a => MapWith f (erase a)
  | To k a => To k (erase a)
  | Ignored a => Ignored (erase a)
  | ToSpan a => ToSpan (erase a)
  | ToSlice a => ToSlice (erase a)
  | Filter p a => Filter p (erase a)
  | TryMap p f k a => TryMap p f k (erase a)
  | TryMapWith p f k a => TryMapWith p f k (erase a)
  | Validate p k a => Validate p k (erase a)
  | Then a b => Then (erase a) (erase b)
  | IgnoreThen a b => IgnoreThen (erase a) (erase b)
  | ThenIgnore a b => ThenIgnore (erase a) (erase b)
  | DelimitedBy a l r => DelimitedBy (erase a) (erase l) (erase r)
  | PaddedBy a b => PaddedBy (erase a) (erase b)
  | Group gs => Group (map erase gs)
  | Or a b => Or (erase a) (erase b)
  | Choice gs => Choice (map erase gs)
  | ChoiceVec gs => ChoiceVec (map erase gs)
  | OrNot a => OrNot (erase a)
  | Not a => Not (erase a)
  | AndIs a b => AndIs (erase a) (erase b)
  | Rewind a => Rewind (erase a)
  | RepUnit i => RepUnit (erase_it i)
  | Collect c i => Collect c (erase_it i)
  | CollectExactly k i => CollectExactly k (erase_it i)
  | Foldl a i k => Foldl (erase a) (erase_it i) k
  | Foldr i b k => Foldr (erase_it i) (erase b) k
  | FoldlWith a i k => FoldlWith (erase a) (erase_it i) k
  | FoldrWith i b k => FoldrWith (erase_it i) (erase b) k
  | RecoverVia a b => RecoverVia (erase a) (erase b)
  | RecoverSkipUntil a s u fb => RecoverSkipUntil (erase a) (erase s) (erase u) fb
  | RecoverSkipRetry a s u => RecoverSkipRetry (erase a) (erase s) (erase u)
  | Labelled l c a => Labelled l c (erase a)
  | MapErr k a => MapErr k (erase a)
  | WithCtx c a => WithCtx c (erase a)
  | IgnoreWithCtx a b => IgnoreWithCtx (erase a) (erase b)
  | ThenWithCtx a b => ThenWithCtx (erase a) (erase b)
  | MapCtx f a => MapCtx f (erase a)
  | Rec a => Rec (erase a)
  | Pratt atom ops => Pratt (erase atom) (map erase_op ops)
  | GroupArr gs => GroupArr (map erase gs)
  | NestedIn a => NestedIn (erase a)
  | WithState k a => WithState k (erase a)
  | ExtWrap a => ExtWrap (erase a)
  | Padded ws a => Padded ws (erase a)
  end
with erase_op (o : pop) : pop :=
  match o with
  | PInfix r bp g k => PInfix r bp (erase g) k
  | PPrefix bp g k => PPrefix bp (erase g) k
  | PPostfix bp g k => PPostfix bp (erase g) k
  end
with erase_it (i : IT) : IT :=
  match i with
  | IRep a lo hi => IRep (erase a) lo hi
  | ISep a s lo hi lead trail => ISep (erase a) (erase s) lo hi lead trail
  | IEnum j => IEnum (erase_it j)
  | IMap f j => IMap f (erase_it j)
  | IMapWith f j => IMapWith f (erase_it j)
  | IOrNot a => IOrNot (erase a)
  | IRepCfg a lo hi ck => IRepCfg (erase a) lo hi ck
  | IIntoIter a => IIntoIter (erase a)
  | IThen i j => IThen (erase_it i) (erase_it j)
  end.

Definition eenv (ctx : env) : env := mkEnv (cval ctx) (map erase (crec ctx)).

(* no memoized() is left *)
Fixpoint memo_free (g : G) : bool :=
  match g with
  | End | Empty | Any | Just _ | OneOf _ | NoneOf _ | Select _ _ | Custom _ _ | JustCfg _ | Var _ | Skip _ | Prog _ _ => true
  | Memo _ _ => false
  | Map _ a | MapWith _ a | To _ a | Ignored a | ToSpan a | ToSlice a | Filter _ a | TryMap _ _ _ a
  | TryMapWith _ _ _ a | Validate _ _ a | OrNot a | Not a | Rewind a | Labelled _ _ a | MapErr _ a
  | WithCtx _ a | MapCtx _ a | Rec a | NestedIn a | WithState _ a | Padded _ a | ExtWrap a => memo_free a
  | Then a b | IgnoreThen a b | ThenIgnore a b | PaddedBy a b | Or a b | AndIs a b
  | IgnoreWithCtx a b | ThenWithCtx a b | RecoverVia a b => memo_free a && memo_free b
  | DelimitedBy a b c | RecoverSkipUntil a b c _ | RecoverSkipRetry a b c => memo_free a && memo_free b && memo_free c
  | Group gs | Choice gs | ChoiceVec gs | GroupArr gs => forallb memo_free gs
  | RepUnit i | Collect _ i | CollectExactly _ i => memo_free_it i
  | Foldl a i _ | FoldlWith a i _ => memo_free a && memo_free_it i
  | Foldr i b _ | FoldrWith i b _ => memo_free_it i && memo_free b
  | Pratt atom ops => memo_free atom && forallb memo_free_op ops
  end
with memo_free_it (i : IT) : bool :=
  match i with
  | IRep a _ _ | IOrNot a | IRepCfg a _ _ _ | IIntoIter a => memo_free a
  | ISep a s _ _ _ _ => memo_free a && memo_free s
  | IEnum j | IMap _ j | IMapWith _ j => memo_free_it j
  | IThen i j => memo_free_it i && memo_free_it j
  end
with memo_free_op (o : pop) : bool :=
  match o with PInfix _ _ g _ | PPrefix _ g _ | PPostfix _ g _ => memo_free g end.

Fixpoint erase_memo_free (g : G) : memo_free (erase g) = true
with erase_memo_free_op (o : pop) : memo_free_op (erase_op o) = true
with erase_memo_free_it (i : IT) : memo_free_it (erase_it i) = true.
Proof.
  - assert (HL : forall gs, forallb memo_free (map erase gs) = true)
      by (induction gs as [|x gs IHgs]; cbn [map forallb]; [reflexivity | now rewrite erase_memo_free, IHgs]).
    assert (HO : forall ops, forallb memo_free_op (map erase_op ops) = true)
      by (induction ops as [|x ops IHops]; cbn [map forallb]; [reflexivity | now rewrite erase_memo_free_op, IHops]).
    destruct g; simpl; rewrite ?erase_memo_free, ?erase_memo_free_it, ?HL, ?HO; reflexivity.
  - destruct o; simpl; apply erase_memo_free.
  - destruct i; simpl; rewrite ?erase_memo_free, ?erase_memo_free_it; reflexivity.
Qed.

Lemma mk_iter_erase ctx : forall i, mk_iter (erase_it i) (eenv ctx) = mk_iter i ctx.
Proof. induction i; simpl; try reflexivity; try congruence. Qed.

Lemma it_eager_erase ctx : forall i, it_eager (erase_it i) (eenv ctx) = option_map erase (it_eager i ctx).
Proof.
  induction i; simpl; try reflexivity; try assumption.
  destruct (cfg_fails ck (val_count (cval ctx))); reflexivity.
Qed.

Section Er.
Variable K : ekind.
Variable toks : list tok.
Variable spn : nat -> nat -> span.
Notation sem := (Sem.sem K toks spn).
Notation ee := (Sem.ee K).
Notation ef := (Sem.ef K).
Notation join := (Sem.join K).
Notation fail_at := (Sem.fail_at K toks spn).

(* run' on the erased grammar answers what run answers on the grammar (and registers stay well formed) *)
Definition Er (run run' : srun_t) : Prop :=
  forall g ctx p a o r', norec g = true -> envok ctx -> wfr a -> run g ctx p a = Some (o, r') ->
    wfr r' /\ run' (erase g) (eenv ctx) p a = Some (o, r').

Section L.
Variables run run' : srun_t.
Hypothesis HB : Er run run'.

Ltac use_run H Hn He Hr :=
  match type of H with
  | context [run ?g ?c ?p ?a] =>
      let E := fresh "E" in let W := fresh "W" in let Ee := fresh "Ee" in
      destruct (run g c p a) as [[[[[? ?] ?]|] ?]|] eqn:E; try discriminate;
      destruct (HB _ _ _ _ _ _ Hn He Hr E) as (W & Ee); rewrite Ee
  end.

Lemma choice_sem_er : forall gs ctx p a o r', forallb norec gs = true -> envok ctx -> wfr a ->
  choice_sem run gs ctx p a = Some (o, r') -> wfr r' /\ choice_sem run' (map erase gs) (eenv ctx) p a = Some (o, r').
Proof.
  induction gs as [|g gs IH]; intros ctx p a o r' Hn He Hr H; cbn [choice_sem map forallb] in *.
  - injection H as <- <-. auto.
  - apply andb_prop in Hn. destruct Hn as (Hg & Hgs). use_run H Hg He Hr.
    + injection H as <- <-. auto.
    + eauto.
Qed.

Lemma group_sem_er : forall gs ctx p a accv acce o r', forallb norec gs = true -> envok ctx -> wfr a ->
  group_sem run gs ctx p a accv acce = Some (o, r') ->
  wfr r' /\ group_sem run' (map erase gs) (eenv ctx) p a accv acce = Some (o, r').
Proof.
  induction gs as [|g gs IH]; intros ctx p a accv acce o r' Hn He Hr H; cbn [group_sem map forallb] in *.
  - injection H as <- <-. auto.
  - apply andb_prop in Hn. destruct Hn as (Hg & Hgs). use_run H Hg He Hr.
    + eauto.
    + injection H as <- <-. auto.
Qed.

Lemma rep_snext_er a lo hi ctx c p r x c' r' : norec a = true -> envok ctx -> wfr r ->
  rep_snext run a lo hi ctx c p r = Some (x, c', r') ->
  wfr r' /\ rep_snext run' (erase a) lo hi (eenv ctx) c p r = Some (x, c', r').
Proof.
  unfold rep_snext. intros Hn He Hr H. destruct (at_cap c hi); [injection H as <- <- <-; auto|].
  use_run H Hn He Hr.
  - injection H as <- <- <-. auto.
  - destruct (lo <=? c); injection H as <- <- <-; auto.
Qed.

Lemma sep_sitem_er a lo trail ctx c p ps es r x c' r' : norec a = true -> envok ctx -> wfr r ->
  sep_sitem run a lo trail ctx c p ps es r = Some (x, c', r') ->
  wfr r' /\ sep_sitem run' (erase a) lo trail (eenv ctx) c p ps es r = Some (x, c', r').
Proof.
  unfold sep_sitem. intros Hn He Hr H. use_run H Hn He Hr.
  - injection H as <- <- <-. auto.
  - destruct (c <? lo); [|destruct trail]; injection H as <- <- <-; auto.
Qed.

Lemma sep_snext_er a sep lo hi lead trail ctx c p r x c' r' : norec a = true -> norec sep = true -> envok ctx -> wfr r ->
  sep_snext run a sep lo hi lead trail ctx c p r = Some (x, c', r') ->
  wfr r' /\ sep_snext run' (erase a) (erase sep) lo hi lead trail (eenv ctx) c p r = Some (x, c', r').
Proof.
  unfold sep_snext. intros Hn Hs He Hr H. destruct (at_cap c hi); [injection H as <- <- <-; auto|].
  destruct ((c =? 0) && lead).
  - use_run H Hs He Hr; eapply sep_sitem_er; eauto.
  - destruct (0 <? c); [|eapply sep_sitem_er; eauto].
    use_run H Hs He Hr; [eapply sep_sitem_er; eauto|].
    destruct (c <? lo); injection H as <- <- <-; auto.
Qed.

Lemma it_snext_er : forall i ctx its p r x its' r', norec_it i = true -> envok ctx -> wfr r ->
  it_snext toks spn run i ctx its p r = Some (x, its', r') ->
  wfr r' /\ it_snext toks spn run' (erase_it i) (eenv ctx) its p r = Some (x, its', r').
Proof.
  induction i as [a lo hi|a sep lo hi lead trail|j IHj|f j IHj|f j IHj|a|a lo hi ck|a|i1 IHi1 i2 IHi2];
    intros ctx its p r x its' r' Hn He Hr H; simpl erase_it; cbn [it_snext] in H |- *; cbn [norec_it] in Hn.
  - destruct its; try discriminate.
    destruct (rep_snext run a lo hi ctx n p r) as [[[x0 c'] r0]|] eqn:E; [|discriminate]. injection H as <- <- <-.
    destruct (rep_snext_er _ _ _ _ _ _ _ _ _ _ Hn He Hr E) as (W & Ee). now rewrite Ee.
  - destruct its; try discriminate. apply andb_prop in Hn. destruct Hn as (Hna & Hns).
    destruct (sep_snext run a sep lo hi lead trail ctx n p r) as [[[x0 c'] r0]|] eqn:E; [|discriminate]. injection H as <- <- <-.
    destruct (sep_snext_er _ _ _ _ _ _ _ _ _ _ _ _ _ Hna Hns He Hr E) as (W & Ee). now rewrite Ee.
  - destruct its; try discriminate.
    destruct (it_snext toks spn run j ctx its p r) as [[[x0 c'] r0]|] eqn:E; [|discriminate].
    destruct (IHj _ _ _ _ _ _ _ Hn He Hr E) as (W & Ee). rewrite Ee.
    destruct x0; injection H as <- <- <-; auto.
  - destruct (it_snext toks spn run j ctx its p r) as [[[x0 c'] r0]|] eqn:E; [|discriminate].
    destruct (IHj _ _ _ _ _ _ _ Hn He Hr E) as (W & Ee). rewrite Ee.
    destruct x0; injection H as <- <- <-; auto.
  - destruct (it_snext toks spn run j ctx its p r) as [[[x0 c'] r0]|] eqn:E; [|discriminate].
    destruct (IHj _ _ _ _ _ _ _ Hn He Hr E) as (W & Ee). rewrite Ee.
    destruct x0; injection H as <- <- <-; auto.
  - destruct its; try discriminate. destruct b; [injection H as <- <- <-; auto|].
    use_run H Hn He Hr; injection H as <- <- <-; auto.
  - destruct its as [c|k js|b|c clo chi|k|o|sa sb]; try discriminate.
    + destruct (rep_snext run a clo chi ctx c p r) as [[[x0 c'] r0]|] eqn:E; [|discriminate]. injection H as <- <- <-.
      destruct (rep_snext_er _ _ _ _ _ _ _ _ _ _ Hn He Hr E) as (W & Ee). now rewrite Ee.
    + destruct (run (TryMap PFalse FId k Empty) ctx p r) as [[[?|] r1]|] eqn:E; try discriminate.
      destruct (HB _ _ _ _ _ _ (eq_refl : norec (TryMap PFalse FId k Empty) = true) He Hr E) as (W & Ee).
      simpl erase in Ee. rewrite Ee. injection H as <- <- <-. auto.
  - destruct its as [| | | | |[l|]|]; try discriminate.
    + destruct l; injection H as <- <- <-; auto.
    + use_run H Hn He Hr.
      * destruct (val_items v); injection H as <- <- <-; auto.
      * injection H as <- <- <-. auto.
  - apply andb_prop in Hn. destruct Hn as (Hn1 & Hn2).
    destruct its as [| | | | | |sa [sb|]]; try discriminate.
    + destruct (it_snext toks spn run i2 ctx sb p r) as [[[x0 c'] r0]|] eqn:E; [|discriminate].
      destruct (IHi2 _ _ _ _ _ _ _ Hn2 He Hr E) as (W & Ee). rewrite Ee. injection H as <- <- <-. auto.
    + destruct (it_snext toks spn run i1 ctx sa p r) as [[[x0 c'] r0]|] eqn:E; [|discriminate].
      destruct (IHi1 _ _ _ _ _ _ _ Hn1 He Hr E) as (W & Ee). rewrite Ee.
      destruct x0; try (injection H as <- <- <-; auto; fail).
      rewrite mk_iter_erase.
      destruct (it_snext toks spn run i2 ctx (mk_iter i2 ctx) p0 r0) as [[[x1 c1] r1]|] eqn:E2; [|discriminate].
      destruct (IHi2 _ _ _ _ _ _ _ Hn2 He W E2) as (W2 & Ee2). rewrite Ee2.
      destruct x1; injection H as <- <- <-; auto.
Qed.

Lemma sdrive_er : forall fuel i ctx its lim acc acce p r o r', norec_it i = true -> envok ctx -> wfr r ->
  sdrive toks spn run fuel i ctx its lim acc acce p r = Some (o, r') ->
  wfr r' /\ sdrive toks spn run' fuel (erase_it i) (eenv ctx) its lim acc acce p r = Some (o, r').
Proof.
  induction fuel as [|fuel IH]; intros i ctx its lim acc acce p r o r' Hn He Hr H; [discriminate|]. cbn [sdrive] in H |- *.
  assert (Hgo : match it_snext toks spn run i ctx its p r with
        | Some (SSome v p1 e1, its', r1) =>
            sdrive toks spn run fuel i ctx its' (option_map Nat.pred lim) ((v, p, p1) :: acc) (acce ++ e1) p1 r1
        | Some (SNone p1 e1, _, r1) => Some (Some (acc, true, p1, acce ++ e1), r1)
        | Some (SErr, _, r1) => Some (None, r1)
        | None => None
        end = Some (o, r') ->
        wfr r' /\
        match it_snext toks spn run' (erase_it i) (eenv ctx) its p r with
        | Some (SSome v p1 e1, its', r1) =>
            sdrive toks spn run' fuel (erase_it i) (eenv ctx) its' (option_map Nat.pred lim) ((v, p, p1) :: acc) (acce ++ e1) p1 r1
        | Some (SNone p1 e1, _, r1) => Some (Some (acc, true, p1, acce ++ e1), r1)
        | Some (SErr, _, r1) => Some (None, r1)
        | None => None
        end = Some (o, r')).
  { intros H0. destruct (it_snext toks spn run i ctx its p r) as [[[x0 its'] r1]|] eqn:E; [|discriminate].
    destruct (it_snext_er _ _ _ _ _ _ _ _ Hn He Hr E) as (W & Ee). rewrite Ee.
    destruct x0.
    - injection H0 as <- <-. auto.
    - eauto.
    - injection H0 as <- <-. auto. }
  destruct lim as [[|l]|]; auto. injection H as <- <-. auto.
Qed.

(* ---------- Pratt ---------- *)
Section P.
Variables rec rec' : nat -> nat -> reg -> option sres.
Hypothesis HR : forall m p r o r', wfr r -> rec m p r = Some (o, r') -> wfr r' /\ rec' m p r = Some (o, r').

Lemma pratt_sprefix_er : forall ops ctx start r, forallb norec_op ops = true -> envok ctx -> wfr r ->
  pratt_sprefix spn run rec ops ctx start r <> SDone None ->
  wf_sp (pratt_sprefix spn run rec ops ctx start r) /\
  pratt_sprefix spn run' rec' (map erase_op ops) (eenv ctx) start r = pratt_sprefix spn run rec ops ctx start r.
Proof.
  induction ops as [|o ops IH]; intros ctx start r Hn He Hr Hx; cbn [pratt_sprefix map] in *; [split; auto|].
  cbn [forallb] in Hn. apply andb_prop in Hn. destruct Hn as (Ho & Hops).
  destruct o as [ra bp og k|bp og k|bp og k]; cbn [norec_op] in Ho; simpl erase_op; cbn [pratt_sprefix]; auto.
  destruct (run og ctx start r) as [[[[[vop p1] e1]|] r1]|] eqn:E; [| |congruence]; destruct (HB _ _ _ _ _ _ Ho He Hr E) as (W & Ee); rewrite Ee.
  - destruct (rec (2 * bp) p1 r1) as [[[[[vr p2] e2]|] r2]|] eqn:E2; [| |congruence]; destruct (HR _ _ _ _ _ W E2) as (W2 & L2); rewrite L2.
    + split; [exact W2|reflexivity].
    + apply IH; auto.
  - apply IH; auto.
Qed.

Lemma pratt_spostfix_er : forall ops ctx minp start lhs p r, forallb norec_op ops = true -> envok ctx -> wfr r ->
  pratt_spostfix spn run ops ctx minp start lhs p r <> SDone None ->
  wf_sp (pratt_spostfix spn run ops ctx minp start lhs p r) /\
  pratt_spostfix spn run' (map erase_op ops) (eenv ctx) minp start lhs p r = pratt_spostfix spn run ops ctx minp start lhs p r.
Proof.
  induction ops as [|o ops IH]; intros ctx minp start lhs p r Hn He Hr Hx; cbn [pratt_spostfix map] in *; [split; auto|].
  cbn [forallb] in Hn. apply andb_prop in Hn. destruct Hn as (Ho & Hops).
  destruct o as [ra bp og k|bp og k|bp og k]; cbn [norec_op] in Ho; simpl erase_op; cbn [pratt_spostfix]; auto.
  destruct (minp <=? 2 * bp + 1); auto.
  destruct (run og ctx p r) as [[[[[vop p1] e1]|] r1]|] eqn:E; [| |congruence]; destruct (HB _ _ _ _ _ _ Ho He Hr E) as (W & Ee); rewrite Ee.
  - split; [exact W|reflexivity].
  - apply IH; auto.
Qed.

Lemma pratt_sinfix_er : forall ops ctx minp start lhs p r, forallb norec_op ops = true -> envok ctx -> wfr r ->
  pratt_sinfix spn run rec ops ctx minp start lhs p r <> SDone None ->
  wf_sp (pratt_sinfix spn run rec ops ctx minp start lhs p r) /\
  pratt_sinfix spn run' rec' (map erase_op ops) (eenv ctx) minp start lhs p r = pratt_sinfix spn run rec ops ctx minp start lhs p r.
Proof.
  induction ops as [|o ops IH]; intros ctx minp start lhs p r Hn He Hr Hx; cbn [pratt_sinfix map] in *; [split; auto|].
  cbn [forallb] in Hn. apply andb_prop in Hn. destruct Hn as (Ho & Hops).
  destruct o as [ra bp og k|bp og k|bp og k]; cbn [norec_op] in Ho; simpl erase_op; cbn [pratt_sinfix]; auto.
  destruct (minp <=? lpow ra bp); auto.
  destruct (run og ctx p r) as [[[[[vop p1] e1]|] r1]|] eqn:E; [| |congruence]; destruct (HB _ _ _ _ _ _ Ho He Hr E) as (W & Ee); rewrite Ee.
  - destruct (rec (rpow ra bp) p1 r1) as [[[[[vr p2] e2]|] r2]|] eqn:E2; [| |congruence]; destruct (HR _ _ _ _ _ W E2) as (W2 & L2); rewrite L2.
    + split; [exact W2|reflexivity].
    + apply IH; auto.
  - apply IH; auto.
Qed.
End P.

Lemma psem_Se (rn : srun_t) f atom ops ctx minp p a :
  pratt_sem spn rn (S f) atom ops ctx minp p a =
    match pratt_sprefix spn rn (pratt_sem spn rn f atom ops ctx) ops ctx p a with
    | SDone (Some (Some (v, p1, e1), a1)) => pratt_sloop spn rn f atom ops ctx minp p v e1 p1 a1
    | SDone x => x
    | SNext a1 =>
        match rn atom ctx p a1 with
        | Some (Some (v, p1, e1), a2) => pratt_sloop spn rn f atom ops ctx minp p v e1 p1 a2
        | x => x
        end
    end.
Proof. reflexivity. Qed.

Lemma psloop_Se (rn : srun_t) f atom ops ctx minp start lhs acce p a :
  pratt_sloop spn rn (S f) atom ops ctx minp start lhs acce p a =
    match pratt_spostfix spn rn ops ctx minp start lhs p a with
    | SDone (Some (Some (v, p1, e1), a1)) => pratt_sloop spn rn f atom ops ctx minp start v (acce ++ e1) p1 a1
    | SDone x => x
    | SNext a1 =>
        match pratt_sinfix spn rn (pratt_sem spn rn f atom ops ctx) ops ctx minp start lhs p a1 with
        | SDone (Some (Some (v, p1, e1), a2)) => pratt_sloop spn rn f atom ops ctx minp start v (acce ++ e1) p1 a2
        | SDone x => x
        | SNext a2 => Some (Some (lhs, p, acce), a2)
        end
    end.
Proof. reflexivity. Qed.

Lemma pratt_er atom ops ctx : norec atom = true -> forallb norec_op ops = true -> envok ctx -> forall fuel,
  (forall minp p r o r', wfr r -> pratt_sem spn run fuel atom ops ctx minp p r = Some (o, r') ->
     wfr r' /\ pratt_sem spn run' fuel (erase atom) (map erase_op ops) (eenv ctx) minp p r = Some (o, r'))
  /\ (forall minp start lhs acce p r o r', wfr r -> pratt_sloop spn run fuel atom ops ctx minp start lhs acce p r = Some (o, r') ->
     wfr r' /\ pratt_sloop spn run' fuel (erase atom) (map erase_op ops) (eenv ctx) minp start lhs acce p r = Some (o, r')).
Proof.
  intros Ha Ho He. induction fuel as [|f [IHs IHl]]; [split; intros; discriminate|].
  assert (Hrec : forall m p r o r', wfr r -> pratt_sem spn run f atom ops ctx m p r = Some (o, r') ->
            wfr r' /\ pratt_sem spn run' f (erase atom) (map erase_op ops) (eenv ctx) m p r = Some (o, r')) by (intros; eapply IHs; eauto).
  split.
  - intros minp p r o r' Hr H. rewrite psem_Se in H |- *.
    assert (Hx : pratt_sprefix spn run (pratt_sem spn run f atom ops ctx) ops ctx p r <> SDone None)
      by (intros C; rewrite C in H; discriminate).
    destruct (pratt_sprefix_er _ _ Hrec ops ctx p r Ho He Hr Hx) as (W & Ee). rewrite Ee.
    destruct (pratt_sprefix spn run (pratt_sem spn run f atom ops ctx) ops ctx p r) as [[[ox r1]|]|r1] eqn:EP; [| congruence |]; cbn [wf_sp] in W.
    + destruct ox as [[[v p1] e1]|]; [eauto|]. injection H as <- <-. auto.
    + destruct (run atom ctx p r1) as [[[[[v p1] e1]|] r2]|] eqn:E; try discriminate; destruct (HB _ _ _ _ _ _ Ha He W E) as (W2 & E2); rewrite E2.
      * eauto.
      * injection H as <- <-. auto.
  - intros minp start lhs acce p r o r' Hr H. rewrite psloop_Se in H |- *.
    assert (Hx : pratt_spostfix spn run ops ctx minp start lhs p r <> SDone None) by (intros C; rewrite C in H; discriminate).
    destruct (pratt_spostfix_er ops ctx minp start lhs p r Ho He Hr Hx) as (W & Ee). rewrite Ee.
    destruct (pratt_spostfix spn run ops ctx minp start lhs p r) as [[[ox r1]|]|r1] eqn:EP; [| congruence |]; cbn [wf_sp] in W.
    + destruct ox as [[[v p1] e1]|]; [eauto|]. injection H as <- <-. auto.
    + assert (Hy : pratt_sinfix spn run (pratt_sem spn run f atom ops ctx) ops ctx minp start lhs p r1 <> SDone None)
        by (intros C; rewrite C in H; discriminate).
      destruct (pratt_sinfix_er _ _ Hrec ops ctx minp start lhs p r1 Ho He W Hy) as (W2 & E2). rewrite E2.
      destruct (pratt_sinfix spn run (pratt_sem spn run f atom ops ctx) ops ctx minp start lhs p r1) as [[[ox r2]|]|r2] eqn:EI; [| congruence |]; cbn [wf_sp] in W2.
      * destruct ox as [[[v p1] e1]|]; [eauto|]. injection H as <- <-. auto.
      * injection H as <- <-. auto.
Qed.
End L.

(* ---------- the specification ---------- *)
Hint Resolve ee_wfr ef_wfr fail_at_wfr join_wfr expected_found_wfe custom_err_wfe label_with_wfe in_context_wfe map_err_fn_wfe : wf.

Ltac hn Hn := cbn [norec] in Hn; repeat match goal with Hx : (_ && _)%bool = true |- _ => apply andb_prop in Hx; destruct Hx end.

Ltac stepE IH H :=
  match type of H with
  | context [Sem.sem K toks spn ?n ?x ?c ?p ?r] =>
      let E := fresh "E" in let W := fresh "W" in let Ee := fresh "Ee" in
      destruct (Sem.sem K toks spn n x c p r) as [[? ?]|] eqn:E; try discriminate;
      destruct (IH x c p r _ _ ltac:(assumption) ltac:(auto with wf) ltac:(cbn; auto with wf) E) as (W & Ee);
      try rewrite Ee
  end.

Ltac stepDE IH H :=
  match type of H with
  | context [sdrive toks spn (Sem.sem K toks spn ?n) ?f ?i ?c ?st ?lim ?acc ?acce ?p ?r] =>
      let E := fresh "E" in let W := fresh "W" in let Ee := fresh "Ee" in
      destruct (sdrive toks spn (Sem.sem K toks spn n) f i c st lim acc acce p r) as [[? ?]|] eqn:E; try discriminate;
      destruct (sdrive_er _ _ IH f i c st lim acc acce p r _ _ ltac:(assumption) ltac:(auto with wf) ltac:(cbn; auto with wf) E) as (W & Ee);
      rewrite ?mk_iter_erase; try rewrite Ee
  end.

Theorem sem_erase : forall n, Er (sem n) (sem n).
Proof.
  induction n as [|n IH]; intros g ctx p a o r' Hn He Hr H; [discriminate|].
  split; [exact (proj1 (sem_lift K toks spn (S n) g ctx p a o r' Hn He Hr H))|].
  destruct g; cbn [Sem.sem] in H; hn Hn;
    match goal with
    | |- Sem.sem _ _ _ _ (erase (Memo ?i ?x)) _ _ _ = _ => change (erase (Memo i x)) with (erase x)
    | _ => simpl erase; cbn [Sem.sem]
    end.
  all: try exact H.
  all: try (solve [ repeat (stepE IH H; try match goal with o : option sok |- _ => destruct o as [[[? ?] ?]|] end); exact H ]).
  all: try discriminate.
  - (* Group *) exact (proj2 (group_sem_er _ _ IH gs ctx p a [] [] o r' Hn He Hr H)).
  - (* Or *) refine (proj2 (choice_sem_er _ _ IH [g1; g2] ctx p a o r' _ He Hr H)). cbn. now rewrite H0, H1.
  - (* Choice *) destruct gs as [|g0 gs]; [exact H|]. exact (proj2 (choice_sem_er _ _ IH (g0 :: gs) ctx p a o r' Hn He Hr H)).
  - (* ChoiceVec *) destruct gs as [|g0 gs]; [exact H|]. exact (proj2 (choice_sem_er _ _ IH (g0 :: gs) ctx p a o r' Hn He Hr H)).
  - (* RepUnit *) stepDE IH H. exact H.
  - (* Collect *) stepDE IH H. exact H.
  - (* CollectExactly *)
    rewrite it_eager_erase.
    destruct n0 as [|k0]; [destruct (it_eager i ctx) as [e0|] eqn:Ef; cbn [option_map]|].
    { exact (proj2 (IH _ _ _ _ _ _ (it_eager_norec _ _ _ Hn Ef) He Hr H)). }
    all: stepDE IH H; exact H.
  - (* Foldl *) stepE IH H. destruct o0 as [[[v p1] e1]|]; [|exact H]. stepDE IH H. exact H.
  - (* Foldr *) stepDE IH H. destruct o0 as [[[[its fl] p1] e1]|]; [|exact H]. stepE IH H. exact H.
  - (* FoldlWith *) stepE IH H. destruct o0 as [[[v p1] e1]|]; [|exact H]. stepDE IH H. exact H.
  - (* FoldrWith *) stepDE IH H. destruct o0 as [[[[its fl] p1] e1]|]; [|exact H]. stepE IH H. exact H.
  - (* WithCtx *) exact (proj2 (IH _ _ _ _ _ _ Hn (He : envok (with_ctx ctx c)) Hr H)).
  - (* IgnoreWithCtx *) stepE IH H. destruct o0 as [[[v p1] e1]|]; [|exact H].
    destruct (sem n g2 (with_ctx ctx v) p1 r) as [[o2 r2]|] eqn:E2; [|discriminate].
    destruct (IH _ _ _ _ _ _ H1 (He : envok (with_ctx ctx v)) W E2) as (W2 & Ee2).
    change (eenv (with_ctx ctx v)) with (with_ctx (eenv ctx) v) in Ee2. rewrite Ee2. exact H.
  - (* ThenWithCtx *) stepE IH H. destruct o0 as [[[v p1] e1]|]; [|exact H].
    destruct (sem n g2 (with_ctx ctx v) p1 r) as [[o2 r2]|] eqn:E2; [|discriminate].
    destruct (IH _ _ _ _ _ _ H1 (He : envok (with_ctx ctx v)) W E2) as (W2 & Ee2).
    change (eenv (with_ctx ctx v)) with (with_ctx (eenv ctx) v) in Ee2. rewrite Ee2. exact H.
  - (* MapCtx *) exact (proj2 (IH _ _ _ _ _ _ Hn (He : envok (with_ctx ctx (ap1 f (cval ctx)))) Hr H)).
  - (* Memo *) destruct (sem n g ctx p None) as [[o1 new]|] eqn:E; [|discriminate]. injection H as <- <-.
    pose proof (shelter_eq K toks spn n g ctx p a o1 new Hn He Hr E) as E2.
    destruct (IH _ _ _ _ _ _ Hn He Hr E2) as (_ & E3). apply (sem_mono_S K toks spn). exact E3.
  - (* Rec *) refine (proj2 (IH _ _ _ _ _ _ Hn _ Hr H)). unfold envok in *. cbn. rewrite Hn. exact He.
  - (* Var *) destruct (nth_error (crec ctx) k) as [x|] eqn:Ek; [|discriminate].
    destruct (envok_nth _ _ _ He Ek) as (Hx & Hex). destruct (IH _ _ _ _ _ _ Hx Hex Hr H) as (_ & Ee).
    cbn [eenv crec cval]. rewrite (map_nth_error erase _ _ Ek).
    unfold eenv in Ee. cbn [crec cval] in Ee. rewrite <- skipn_map in Ee. exact Ee.
  - (* Pratt *) exact (proj2 (proj1 (pratt_er _ _ IH g ops ctx H0 H1 He n) _ _ _ _ _ Hr H)).
  - (* GroupArr *) exact (proj2 (group_sem_er _ _ IH gs ctx p a [] [] o r' Hn He Hr H)).
Qed.

(* Erasing every memoized() changes nothing: wherever the specification of g answers, the specification of the grammar
   with no memoized() left gives the same answer (verdict, value, end position, emitted errors, pending error), from
   every position and register, with the same fuel. *)
Corollary erase_memo_transparent n g ctx p a x : norec g = true -> envok ctx -> wfr a ->
  sem n g ctx p a = Some x -> sem n (erase g) (eenv ctx) p a = Some x /\ memo_free (erase g) = true.
Proof.
  intros Hn He Hr H. destruct x as [o r']. split; [exact (proj2 (sem_erase n g ctx p a o r' Hn He Hr H))|apply erase_memo_free].
Qed.

(* at the top level: parse(g) = parse(erase g) *)
Corollary erase_memo_top n g x : norec g = true ->
  sem_top K toks spn n g = Some x -> sem_top K toks spn n (erase g) = Some x.
Proof.
  unfold sem_top. intros Hn H.
  destruct (sem n (ThenIgnore g End) env0 0 None) as [[o r']|] eqn:E; [|discriminate].
  assert (Hn' : norec (ThenIgnore g End) = true) by (cbn; now rewrite Hn).
  pose proof (proj2 (sem_erase n _ env0 0 None o r' Hn' eq_refl I E)) as E2.
  change (erase (ThenIgnore g End)) with (ThenIgnore (erase g) End) in E2. change (eenv env0) with env0 in E2.
  rewrite E2. exact H.
Qed.
End Er.
Print Assumptions sem_erase.
Print Assumptions erase_memo_top.
