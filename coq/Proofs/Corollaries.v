(* Readable corollaries of the master refinement, one per property conjunct. *)
From Chum Require Export SemLaws Modes Mono.

Section Corollaries.
Variable K : ekind.
Variable toks : list tok.
Variable spn : nat -> nat -> span.
Notation go := (go no_quirks K toks spn).
Notation sem := (sem K toks spn).
Notation ust_at := (ust_at toks).
Notation inv := (inv toks).

(* C01: acceptance, value and consumed extent are those of the PEG reading, in both modes *)
Lemma machine_ok_is_peg n m g ctx s v s' :
  go n m g ctx s = (Ok v, s') -> inv s ->
  exists v' ems a', sem n g ctx (cur s) (alt s) = Some (Some (v', cur s', ems), a') /\ v = bindv m v'.
Proof.
  intros H Hi. pose proof (refine K toks spn n m g ctx s _ _ H Hi) as P. cbn in P.
  destruct P as (v' & p' & ems & Hs & Hv & Hc & _). subst p'. eauto.
Qed.

Lemma machine_err_is_peg n m g ctx s s' :
  go n m g ctx s = (Err, s') -> inv s -> exists a', sem n g ctx (cur s) (alt s) = Some (None, a').
Proof.
  intros H Hi. pose proof (refine K toks spn n m g ctx s _ _ H Hi) as P. cbn in P.
  destruct P as (ext & Hs & _). eauto.
Qed.

(* Fuel is not a semantic parameter: two runs of the machine from the same state that both give an answer (whatever
   their fuels) give the same answer: verdict, value, cursor, pending error, reported errors, inspector state *)
Lemma machine_fuel_independent_ok n n' m g ctx s v s1 r' s2 :
  inv s -> go n m g ctx s = (Ok v, s1) -> go n' m g ctx s = (r', s2) -> (r' = Err \/ exists v2, r' = Ok v2) ->
  r' = Ok v /\ cur s2 = cur s1 /\ alt s2 = alt s1 /\ sec s2 = sec s1 /\ ust s2 = ust s1.
Proof.
  intros Hi H H' Hr.
  pose proof (refine K toks spn n m g ctx s _ _ H Hi) as P. cbn in P.
  destruct P as (v' & p' & ems & Hs & Hv & Hc & Hsec & Hu).
  pose proof (refine K toks spn n' m g ctx s _ _ H' Hi) as P'.
  destruct Hr as [->|[v2 ->]]; cbn in P'.
  - destruct P' as (ext & Hs' & _). pose proof (sem_deterministic K toks spn _ _ _ _ _ _ _ _ Hs Hs'). discriminate.
  - destruct P' as (v2' & p2 & ems2 & Hs' & Hv' & Hc' & Hsec' & Hu').
    pose proof (sem_deterministic K toks spn _ _ _ _ _ _ _ _ Hs Hs') as E. injection E as -> -> -> Ea.
    subst. repeat split; congruence.
Qed.

Lemma machine_fuel_independent_err n n' m g ctx s s1 r' s2 :
  inv s -> go n m g ctx s = (Err, s1) -> go n' m g ctx s = (r', s2) -> (r' = Err \/ exists v2, r' = Ok v2) ->
  r' = Err /\ alt s2 = alt s1.
Proof.
  intros Hi H H' Hr.
  pose proof (refine K toks spn n m g ctx s _ _ H Hi) as P. cbn in P. destruct P as (ext & Hs & _).
  pose proof (refine K toks spn n' m g ctx s _ _ H' Hi) as P'.
  destruct Hr as [->|[v2 ->]]; cbn in P'.
  - destruct P' as (ext' & Hs' & _). pose proof (sem_deterministic K toks spn _ _ _ _ _ _ _ _ Hs Hs') as E.
    injection E as E. auto.
  - destruct P' as (v2' & p2 & ems2 & Hs' & _). pose proof (sem_deterministic K toks spn _ _ _ _ _ _ _ _ Hs Hs'). discriminate.
Qed.

(* C05: on success the reported non-fatal errors grow by exactly the emissions of the successful path *)
Lemma emissions_exact n m g ctx s v s' :
  go n m g ctx s = (Ok v, s') -> inv s ->
  exists v' ems a', sem n g ctx (cur s) (alt s) = Some (Some (v', cur s', ems), a') /\ sec s' = sec s ++ ems.
Proof.
  intros H Hi. pose proof (refine K toks spn n m g ctx s _ _ H Hi) as P. cbn in P.
  destruct P as (v' & p' & ems & Hs & Hv & Hc & Hsec & _). subst p'. eauto.
Qed.

(* C05: whatever a failing parser leaves behind, rewinding to a checkpoint taken before it
   restores position, error list and user state exactly *)
Lemma abandoned_leaves_no_trace n m g ctx s s' :
  go n m g ctx s = (Err, s') -> inv s ->
  rewind s' (save s) = mkSt (cur s) (sec s) (alt s') (ust s) (memo s').
Proof.
  intros H Hi. pose proof (refine K toks spn n m g ctx s _ _ H Hi) as P. cbn in P.
  destruct P as (ext & _ & Hsec). eapply rewind_save; eauto.
Qed.

(* C06: the pending (primary) error after any run is the specification's register *)
Lemma alt_is_register n m g ctx s r s' :
  go n m g ctx s = (r, s') -> inv s -> (exists v, r = Ok v) \/ r = Err ->
  exists o, sem n g ctx (cur s) (alt s) = Some (o, alt s').
Proof.
  intros H Hi Hr. pose proof (refine K toks spn n m g ctx s _ _ H Hi) as P.
  destruct Hr as [[v ->]| ->]; cbn in P.
  - destruct P as (v' & p' & ems & Hs & _). eauto.
  - destruct P as (ext & Hs & _). eauto.
Qed.

(* C18: after a successful run the user state is the hash of exactly the tokens before the cursor *)
Lemma inspector_consistent n m g ctx s v s' :
  go n m g ctx s = (Ok v, s') -> inv s -> inv s'.
Proof.
  intros H Hi. pose proof (refine K toks spn n m g ctx s _ _ H Hi) as P. cbn in P.
  eapply ok_post_inv; eauto.
Qed.

(* ---------- top level ---------- *)
Lemma inv_init : inv init_st.
Proof. reflexivity. Qed.

Lemma run_top_ok n m g ov errs :
  run_top no_quirks K toks spn n m g = TRes (Some ov) errs ->
  exists v', sem_top K toks spn n g = Some (Some v', errs) /\ ov = bindv m v'.
Proof.
  unfold run_top, sem_top. destruct (go n m (ThenIgnore g End) env0 init_st) as [r s'] eqn:E.
  pose proof (refine K toks spn n m _ _ _ _ _ E inv_init) as P.
  destruct r; try discriminate. intros H. injection H as <- <-.
  cbn in P. destruct P as (v' & p' & ems & Hs & Hv & Hc & Hsec & _). cbn in Hs, Hsec.
  rewrite Hs. exists v'. rewrite Hsec. auto.
Qed.

(* on failure the last reported error is the specification's register (when the failure
   recorded one; see finding F10 for the one way it cannot) *)
Lemma run_top_fail n m g errs :
  run_top no_quirks K toks spn n m g = TRes None errs ->
  exists junk prim a', errs = junk ++ [prim] /\
    sem n (ThenIgnore g End) env0 0 None = Some (None, a') /\
    (forall q e, a' = Some (q, e) -> prim = e).
Proof.
  unfold run_top. destruct (go n m (ThenIgnore g End) env0 init_st) as [r s'] eqn:E.
  pose proof (refine K toks spn n m _ _ _ _ _ E inv_init) as P.
  destruct r; try discriminate. intros H. injection H as <-.
  cbn in P. destruct P as (ext & Hs & Hsec). cbn in Hs. rewrite Hs.
  do 3 eexists. split; [reflexivity|]. split; [reflexivity|].
  intros q e Ha. rewrite Ha. reflexivity.
Qed.

(* C03 *)
Lemma no_output_has_error Q n m g errs :
  run_top Q K toks spn n m g = TRes None errs -> errs <> [].
Proof.
  unfold run_top. destruct (Machine.go Q K toks spn n m (ThenIgnore g End) env0 init_st) as [[] s']; try discriminate.
  intros H. injection H as <-. destruct (map snd (sec s')); discriminate.
Qed.

Lemma no_error_has_output Q n m g o :
  run_top Q K toks spn n m g = TRes o [] -> o <> None.
Proof. intros H ->. now apply no_output_has_error in H. Qed.

(* a result with an output means the grammar matched a prefix [0, p') and End held at p' *)
Lemma parse_complete n m g ov errs :
  run_top no_quirks K toks spn (S n) m g = TRes (Some ov) errs ->
  exists v' p' ems a', sem n g env0 0 None = Some (Some (v', p', ems), a') /\
                       nth_error toks p' = None /\ ov = bindv m v'.
Proof.
  intros H. apply run_top_ok in H. destruct H as (v' & Hs & ->). unfold sem_top in Hs. cbn in Hs.
  destruct (sem n g env0 0 None) as [[[[[v p'] e]|] a']|]; try discriminate.
  destruct n as [|n]; [discriminate|]. cbn in Hs.
  destruct (nth_error toks p') eqn:En; try discriminate.
  injection Hs as <- <-. do 4 eexists. repeat split; eauto.
Qed.

(* ParseResult::into_result (lib.rs:252) *)
Definition into_result {A} (o : option A) (errs : list err) : option A :=
  match errs with [] => o | _ => None end.

Lemma errors_never_ok {A} (o : option A) errs : errs <> [] -> into_result o errs = None.
Proof. destruct errs; [contradiction|reflexivity]. Qed.

(* C04: check() and parse() report the same verdict and the same error list, for every quirk vector *)
Lemma run_top_check_is_emit Q n g : nested Q = None ->
  run_top Q K toks spn n Check g =
    match run_top Q K toks spn n Emit g with
    | TRes (Some _) errs => TRes (Some None) errs
    | x => x
    end.
Proof.
  intros HQ. unfold run_top. rewrite (mode_independent Q K toks spn HQ n).
  destruct (Machine.go Q K toks spn n Emit (ThenIgnore g End) env0 init_st) as [[] s']; reflexivity.
Qed.

End Corollaries.
