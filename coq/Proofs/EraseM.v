(* Memo erasure at the level of the machine: the machine WITH memo tables on a grammar g and the machine on [erase g] -
   the grammar with every memoized() removed, which has no table to consult - return the same verdict, value, end position,
   reported errors, pending error and user state whenever both answer.  (refine_memo: the first refines the specification
   of g; refine: the second refines the specification of erase g; sem_erase: the two specifications agree.) *)
From Chum Require Export MemoG StrictOn Erase.

Theorem memo_erased_transparent K toks spn mt c0 n m g ctx s r s1 r' s1' :
  inv toks s -> TV K toks spn mt c0 (memo s) -> WF mt c0 g ctx ->
  norec g = true -> envok ctx -> wfr (alt s) ->
  go Q_strict K toks spn n m g ctx s = (r, s1) -> go no_quirks K toks spn n m (erase g) (eenv ctx) s = (r', s1') ->
  answered r -> answered r' ->
  r = r' /\ alt s1 = alt s1' /\ (r <> Err -> cur s1 = cur s1' /\ sec s1 = sec s1' /\ ust s1 = ust s1').
Proof.
  intros Hi HT Hw Hn He Hr H H' A A'.
  pose proof (refine_memo K toks spn mt c0 n _ _ _ _ _ _ H Hi HT Hw) as P.
  pose proof (refine K toks spn n _ _ _ _ _ _ H' Hi) as P'.
  destruct r; try contradiction; destruct r'; try contradiction; cbn [postm Refine.post] in P, P'.
  - destruct P as ((v1 & p1 & e1 & Hs & Hv & Hc & Hsec & Hu) & _).
    destruct P' as (v2 & p2 & e2 & Hs' & Hv' & Hc' & Hsec' & Hu').
    apply (sem_erase K toks spn n g ctx _ _ _ _ Hn He Hr) in Hs. destruct Hs as (_ & Hs).
    rewrite Hs in Hs'. injection Hs' as <- <- <- Ha. subst. repeat split; auto; try congruence.
  - destruct P as ((v1 & p1 & e1 & Hs & _) & _). destruct P' as (ext & Hs' & _).
    apply (sem_erase K toks spn n g ctx _ _ _ _ Hn He Hr) in Hs. destruct Hs as (_ & Hs). rewrite Hs in Hs'. discriminate.
  - destruct P as ((ext & Hs & _) & _). destruct P' as (v2 & p2 & e2 & Hs' & _).
    apply (sem_erase K toks spn n g ctx _ _ _ _ Hn He Hr) in Hs. destruct Hs as (_ & Hs). rewrite Hs in Hs'. discriminate.
  - destruct P as ((ext & Hs & _) & _). destruct P' as (ext' & Hs' & _).
    apply (sem_erase K toks spn n g ctx _ _ _ _ Hn He Hr) in Hs. destruct Hs as (_ & Hs). rewrite Hs in Hs'. injection Hs' as Ha.
    split; [reflexivity|]. split; [exact Ha|]. intros X. exfalso. apply X. reflexivity.
Qed.

(* at the top level: parse / check of g with its memo tables = parse / check of the grammar with no memoized() at all *)
Theorem memo_erased_run_top K toks spn mt n m g o errs o' errs' :
  wfm mt g [] -> norec g = true ->
  run_top Q_strict K toks spn n m g = TRes o errs -> run_top no_quirks K toks spn n m (erase g) = TRes o' errs' ->
  o = o' /\ (o <> None -> errs = errs') /\ last errs (expected_found K [] None (spn 0 0)) = last errs' (expected_found K [] None (spn 0 0)).
Proof.
  intros Hw Hn H H'. unfold run_top in H, H'.
  destruct (go Q_strict K toks spn n m (ThenIgnore g End) env0 init_st) as [r s1] eqn:E.
  destruct (go no_quirks K toks spn n m (ThenIgnore (erase g) End) env0 init_st) as [r' s1'] eqn:E'.
  assert (Hi : inv toks init_st) by reflexivity.
  assert (HT : TV K toks spn mt VUnit (memo init_st)) by apply TV_nil.
  assert (HW : WF mt VUnit (ThenIgnore g End) env0).
  { unfold WF. cbn. repeat split; auto. intros k a Hk. destruct k; discriminate. }
  assert (Hn' : norec (ThenIgnore g End) = true) by (cbn; now rewrite Hn).
  destruct r; try discriminate; destruct r'; try discriminate;
    destruct (memo_erased_transparent K toks spn mt VUnit n m _ _ _ _ _ _ _ Hi HT HW Hn' (eq_refl : envok env0) I E E' I I) as (Hr & Ha & Hrest).
  - injection Hr as <-. destruct (Hrest ltac:(discriminate)) as (_ & Hsec & _).
    injection H as <- <-. injection H' as <- <-. rewrite Hsec. repeat split; auto.
  - discriminate.
  - discriminate.
  - injection H as <- <-. injection H' as <- <-. split; [reflexivity|]. split; [intros X; contradiction|].
    rewrite !last_last. rewrite Ha.
    pose proof (go_good K toks spn n m (ThenIgnore (erase g) End) env0 init_st) as G. rewrite E' in G. destruct G as (G1 & _).
    cbn [fst snd] in G1. destruct (alt s1'); [reflexivity|]. exfalso. apply (G1 eq_refl). reflexivity.
Qed.

(* and the machine tied to the code (no flagged re-entry), with its tables, against the erased grammar *)
Corollary code_machine_equals_erased K toks spn mt n m g o errs o' errs' :
  wfm mt g [] -> norec g = true ->
  run_top Q_strict K toks spn n m g = TRes o errs ->
  run_top no_quirks K toks spn n m (erase g) = TRes o' errs' ->
  run_top Q_on K toks spn n m g = TRes o errs /\
  o = o' /\ (o <> None -> errs = errs') /\ last errs (expected_found K [] None (spn 0 0)) = last errs' (expected_found K [] None (spn 0 0)).
Proof.
  intros Hw Hn H H'. split; [exact (strict_run_top_is_on K toks spn n m g o errs H)|].
  exact (memo_erased_run_top K toks spn mt n m g o errs o' errs' Hw Hn H H').
Qed.

Print Assumptions memo_erased_transparent.
Print Assumptions code_machine_equals_erased.
