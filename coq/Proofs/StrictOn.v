(* C11: the machine of the global theorem (memo_strict: left-recursive re-entries flagged, cached entries used only with at
   least their run's fuel) IS the machine that is tied to the code (memo_on), wherever it answers.  With refine_memo
   (MemoG.v): every answering run of the strict machine is a run of the code's machine and meets the specification. *)
From Chum Require Export MemoG MemoP.

Section StrictOn.
Variable K : ekind.
Variable toks : list tok.
Variable spn : nat -> nat -> span.

Definition ians (r : ires) : Prop := match r with ISome _ | INone | IErr => True | _ => False end.
Definition pans (x : presult) : Prop := match x with PDone r _ => answered r | PNext _ => True end.

(* [Ag run run']: wherever run answers, run' returns the same *)
Definition Ag (run run' : run_t) : Prop :=
  forall m g ctx s r s1, run m g ctx s = (r, s1) -> answered r -> run' m g ctx s = (r, s1).

Section L.
Variables run run' : run_t.
Hypothesis HA : Ag run run'.

(* consume one sub-run in H : ... = (r, s1) with Hr : answered r *)
Ltac dead H Hr := cbn beta iota in H; first [ discriminate H | (injection H; intros; subst; cbn in Hr; contradiction) ].
Ltac use_run H Hr :=
  match type of H with
  | context [run ?m ?g ?c ?s] =>
      let E := fresh "E" in
      destruct (run m g c s) as [[?| | |] ?] eqn:E;
      [ rewrite (HA _ _ _ _ _ _ E I) | rewrite (HA _ _ _ _ _ _ E I) | try (dead H Hr) | try (dead H Hr) ];
      cbn beta iota in H |- *
  end.

Lemma choice_loop_ag m ctx c : forall gs s r s1,
  choice_loop run m gs ctx c s = (r, s1) -> answered r -> choice_loop run' m gs ctx c s = (r, s1).
Proof. induction gs as [|g gs IH]; intros s r s1 H Hr; cbn in *; [exact H|]. use_run H Hr; auto. Qed.

Lemma choicevec_loop_ag m ctx c : forall gs s r s1,
  choicevec_loop run m gs ctx c s = (r, s1) -> answered r -> choicevec_loop run' m gs ctx c s = (r, s1).
Proof. induction gs as [|g gs IH]; intros s r s1 H Hr; cbn in *; [exact H|]. use_run H Hr; auto. Qed.

Lemma group_loop_ag m ctx : forall gs acc s r s1,
  group_loop run m gs ctx acc s = (r, s1) -> answered r -> group_loop run' m gs ctx acc s = (r, s1).
Proof. induction gs as [|g gs IH]; intros acc s r s1 H Hr; cbn in *; [exact H|]. use_run H Hr; auto. Qed.

Lemma rep_next_ag m a lo hi ctx c s r c' s1 :
  rep_next run m a lo hi ctx c s = (r, c', s1) -> ians r -> rep_next run' m a lo hi ctx c s = (r, c', s1).
Proof. unfold rep_next. intros H Hr. destruct (at_cap c hi); [exact H|]. use_run H Hr; auto. Qed.

Lemma sep_item_ag m a lo trail ctx c b s r c' s1 :
  sep_item run m a lo trail ctx c b s = (r, c', s1) -> ians r -> sep_item run' m a lo trail ctx c b s = (r, c', s1).
Proof. unfold sep_item. intros H Hr. use_run H Hr; auto. Qed.

Lemma sep_next_ag m a sep lo hi lead trail ctx c s r c' s1 :
  sep_next run m a sep lo hi lead trail ctx c s = (r, c', s1) -> ians r -> sep_next run' m a sep lo hi lead trail ctx c s = (r, c', s1).
Proof.
  unfold sep_next. intros H Hr. destruct (at_cap c hi); [exact H|].
  destruct ((c =? 0) && lead).
  - use_run H Hr; apply sep_item_ag; auto.
  - destruct (0 <? c); [|apply sep_item_ag; auto].
    use_run H Hr; auto. apply sep_item_ag; auto.
Qed.

Lemma it_next_ag : forall i m ctx its s r its' s1,
  it_next spn run m i ctx its s = (r, its', s1) -> ians r -> it_next spn run' m i ctx its s = (r, its', s1).
Proof.
  induction i as [a lo hi|a sep lo hi lead trail|j IHj|f j IHj|f j IHj|a|a lo hi ck|a|i1 IHi1 i2 IHi2];
    intros m ctx its s r its' s1 H Hr; cbn [it_next] in *.
  - destruct its; try exact H.
    destruct (rep_next run m a lo hi ctx n s) as [[r0 c'] s2] eqn:E. injection H as <- <- <-.
    now rewrite (rep_next_ag _ _ _ _ _ _ _ _ _ _ E Hr).
  - destruct its; try exact H.
    destruct (sep_next run m a sep lo hi lead trail ctx n s) as [[r0 c'] s2] eqn:E. injection H as <- <- <-.
    now rewrite (sep_next_ag _ _ _ _ _ _ _ _ _ _ _ _ _ E Hr).
  - destruct its; try exact H.
    destruct (it_next spn run m j ctx its s) as [[r0 js'] s2] eqn:E.
    assert (Hr0 : ians r0) by (destruct r0; injection H as <- <- <-; exact Hr).
    rewrite (IHj _ _ _ _ _ _ _ E Hr0). exact H.
  - destruct (it_next spn run m j ctx its s) as [[r0 js'] s2] eqn:E.
    assert (Hr0 : ians r0) by (destruct r0; injection H as <- <- <-; exact Hr).
    rewrite (IHj _ _ _ _ _ _ _ E Hr0). exact H.
  - destruct (it_next spn run m j ctx its s) as [[r0 js'] s2] eqn:E.
    assert (Hr0 : ians r0) by (destruct r0; injection H as <- <- <-; exact Hr).
    rewrite (IHj _ _ _ _ _ _ _ E Hr0). exact H.
  - destruct its; try exact H. destruct b; [exact H|]. use_run H Hr; auto.
  - destruct its; try exact H.
    + destruct (rep_next run m a lo0 hi0 ctx n s) as [[r0 c'] s2] eqn:E. injection H as <- <- <-.
      now rewrite (rep_next_ag _ _ _ _ _ _ _ _ _ _ E Hr).
    + use_run H Hr; auto.
  - destruct its as [| | | | |[l|]|]; try exact H. use_run H Hr; auto.
  - destruct its as [| | | | | |sa [sb|]]; try exact H.
    + destruct (it_next spn run m i2 ctx sb s) as [[r0 sb'] s2] eqn:E. injection H as <- <- <-.
      now rewrite (IHi2 _ _ _ _ _ _ _ E Hr).
    + destruct (it_next spn run m i1 ctx sa s) as [[r0 sa'] s2] eqn:E.
      assert (Hr0 : ians r0) by (destruct r0; try exact I; injection H as <- <- <-; exact Hr).
      rewrite (IHi1 _ _ _ _ _ _ _ E Hr0). destruct r0; try exact H.
      destruct (it_next spn run m i2 ctx (mk_iter i2 ctx) s2) as [[r1 sb'] s3] eqn:E2. injection H as <- <- <-.
      now rewrite (IHi2 _ _ _ _ _ _ _ E2 Hr).
Qed.

Lemma drive_ag : forall fuel m i ctx its lim pa idx acc s r acc' fl s1,
  drive spn run fuel m i ctx its lim pa idx acc s = (r, acc', fl, s1) -> answered r ->
  drive spn run' fuel m i ctx its lim pa idx acc s = (r, acc', fl, s1).
Proof.
  induction fuel as [|fuel IH]; intros m i ctx its lim pa idx acc s r acc' fl s1 H Hr; cbn [drive] in *; [exact H|].
  destruct lim as [[|l]|]; try exact H;
  (destruct (it_next spn run m i ctx its s) as [[r0 its'] s2] eqn:E;
   assert (Hr0 : ians r0) by (destruct r0; try exact I; injection H as <- <- <- <-; exact Hr);
   rewrite (it_next_ag _ _ _ _ _ _ _ _ E Hr0);
   destruct r0; try exact H; destruct (pa idx && (cur s =? cur s2)); [exact H | apply IH; assumption]).
Qed.

Lemma rep_fast_ag m a ctx : forall fuel s r s1,
  rep_fast run fuel m a ctx s = (r, s1) -> answered r -> rep_fast run' fuel m a ctx s = (r, s1).
Proof.
  induction fuel as [|fuel IH]; intros s r s1 H Hr; cbn [rep_fast] in *; [exact H|].
  use_run H Hr; auto. destruct (cur s =? cur s0); [exact H | apply IH; assumption].
Qed.

Lemma skip_until_ag m skip until fb ctx a0 : forall fuel s r s1,
  skip_until_loop run fuel m skip until fb ctx a0 s = (r, s1) -> answered r ->
  skip_until_loop run' fuel m skip until fb ctx a0 s = (r, s1).
Proof.
  induction fuel as [|fuel IH]; intros s r s1 H Hr; cbn [skip_until_loop] in *; [exact H|].
  use_run H Hr; auto. use_run H Hr; auto.
Qed.

Lemma skip_retry_ag m p skip until ctx a0 : forall fuel s r s1,
  skip_retry_loop run fuel m p skip until ctx a0 s = (r, s1) -> answered r ->
  skip_retry_loop run' fuel m p skip until ctx a0 s = (r, s1).
Proof.
  induction fuel as [|fuel IH]; intros s r s1 H Hr; cbn [skip_retry_loop] in *; [exact H|].
  use_run H Hr; auto. use_run H Hr; auto. use_run H Hr; auto.
  - destruct (_ <=? _); [exact H | apply IH; assumption].
Qed.

(* ---------- Pratt ---------- *)
Section P.
Variables rec rec' : nat -> st -> outcome * st.
Hypothesis Hrec : forall minp s r s1, rec minp s = (r, s1) -> answered r -> rec' minp s = (r, s1).

Ltac use_rec H Hr :=
  match type of H with
  | context [rec ?k ?s] =>
      let E := fresh "E" in
      destruct (rec k s) as [[?| | |] ?] eqn:E;
      [ rewrite (Hrec _ _ _ _ E I) | rewrite (Hrec _ _ _ _ E I) | try (dead H Hr) | try (dead H Hr) ];
      cbn beta iota in H |- *
  end.

Lemma pratt_prefix_ag m ctx c start : forall ops s x,
  pratt_prefix spn run rec m ops ctx c start s = x -> pans x -> pratt_prefix spn run' rec' m ops ctx c start s = x.
Proof.
  induction ops as [|o ops IH]; intros s x H Hr; cbn [pratt_prefix] in *; [exact H|].
  destruct o as [r bp og k|bp og k|bp og k]; auto.
  destruct (run m og ctx s) as [[?| | |] ?] eqn:E.
  - rewrite (HA _ _ _ _ _ _ E I). destruct (rec (2 * bp) s0) as [[?| | |] ?] eqn:E2.
    + now rewrite (Hrec _ _ _ _ E2 I).
    + rewrite (Hrec _ _ _ _ E2 I). auto.
    + subst x. contradiction.
    + subst x. contradiction.
  - rewrite (HA _ _ _ _ _ _ E I). auto.
  - subst x. contradiction.
  - subst x. contradiction.
Qed.

Lemma pratt_infix_ag m ctx minp c start lhs : forall ops s x,
  pratt_infix spn run rec m ops ctx minp c start lhs s = x -> pans x -> pratt_infix spn run' rec' m ops ctx minp c start lhs s = x.
Proof.
  induction ops as [|o ops IH]; intros s x H Hr; cbn [pratt_infix] in *; [exact H|].
  destruct o as [r bp og k|bp og k|bp og k]; auto.
  destruct (minp <=? lpow r bp); auto.
  destruct (run m og ctx s) as [[?| | |] ?] eqn:E.
  - rewrite (HA _ _ _ _ _ _ E I). destruct (rec (rpow r bp) s0) as [[?| | |] ?] eqn:E2.
    + now rewrite (Hrec _ _ _ _ E2 I).
    + rewrite (Hrec _ _ _ _ E2 I). auto.
    + subst x. contradiction.
    + subst x. contradiction.
  - rewrite (HA _ _ _ _ _ _ E I). auto.
  - subst x. contradiction.
  - subst x. contradiction.
Qed.
End P.

Lemma pratt_postfix_ag m ctx minp c start lhs : forall ops s x,
  pratt_postfix spn run m ops ctx minp c start lhs s = x -> pans x -> pratt_postfix spn run' m ops ctx minp c start lhs s = x.
Proof.
  induction ops as [|o ops IH]; intros s x H Hr; cbn [pratt_postfix] in *; [exact H|].
  destruct o as [r bp og k|bp og k|bp og k]; auto.
  destruct (minp <=? 2 * bp + 1); auto.
  destruct (run m og ctx s) as [[?| | |] ?] eqn:E.
  - now rewrite (HA _ _ _ _ _ _ E I).
  - rewrite (HA _ _ _ _ _ _ E I). auto.
  - subst x. contradiction.
  - subst x. contradiction.
Qed.

Lemma pratt_ag m atom ops ctx : forall fuel,
  (forall minp s r s1, pratt_go spn run fuel m atom ops ctx minp s = (r, s1) -> answered r ->
     pratt_go spn run' fuel m atom ops ctx minp s = (r, s1))
  /\
  (forall minp start lhs s r s1, pratt_loop spn run fuel m atom ops ctx minp start lhs s = (r, s1) -> answered r ->
     pratt_loop spn run' fuel m atom ops ctx minp start lhs s = (r, s1)).
Proof.
  induction fuel as [|f [IHgo IHloop]]; [split; intros; cbn in *; assumption|].
  split.
  - intros minp s r s1 H Hr. rewrite pratt_go_S in H. rewrite pratt_go_S.
    destruct (pratt_prefix spn run (pratt_go spn run f m atom ops ctx) m ops ctx (save s) (cur s) s) as [rp sp|sp] eqn:EP.
    + assert (Hp : pans (PDone rp sp)) by (destruct rp; try exact I; cbn beta iota in H; injection H as <- <-; exact Hr).
      rewrite (pratt_prefix_ag _ _ IHgo _ _ _ _ _ _ _ EP Hp). destruct rp; auto.
    + rewrite (pratt_prefix_ag _ _ IHgo _ _ _ _ _ _ _ EP I). use_run H Hr; auto.
  - intros minp start lhs s r s1 H Hr. rewrite pratt_loop_S in H. rewrite pratt_loop_S.
    destruct (pratt_postfix spn run m ops ctx minp (save s) start lhs s) as [rp sp|sp] eqn:EP.
    + assert (Hp : pans (PDone rp sp)) by (destruct rp; try exact I; cbn beta iota in H; injection H as <- <-; exact Hr).
      rewrite (pratt_postfix_ag _ _ _ _ _ _ _ _ _ EP Hp). destruct rp; auto.
    + rewrite (pratt_postfix_ag _ _ _ _ _ _ _ _ _ EP I).
      destruct (pratt_infix spn run (pratt_go spn run f m atom ops ctx) m ops ctx minp (save s) start lhs sp) as [ri si|si] eqn:EI.
      * assert (Hp : pans (PDone ri si)) by (destruct ri; try exact I; cbn beta iota in H; injection H as <- <-; exact Hr).
        rewrite (pratt_infix_ag _ _ IHgo _ _ _ _ _ _ _ _ _ EI Hp). destruct ri; auto.
      * rewrite (pratt_infix_ag _ _ IHgo _ _ _ _ _ _ _ _ _ EI I). exact H.
Qed.
End L.

Ltac dead H Hr := cbn beta iota in H; first [ discriminate H | (injection H; intros; subst; cbn in Hr; contradiction) ].
Ltac use_go IH H Hr :=
  match type of H with
  | context [Machine.go Q_strict K toks spn ?n ?m ?g ?c ?s] =>
      let E := fresh "E" in
      destruct (Machine.go Q_strict K toks spn n m g c s) as [[?| | |] ?] eqn:E;
      [ rewrite (IH _ _ _ _ _ _ E I) | rewrite (IH _ _ _ _ _ _ E I) | try (dead H Hr) | try (dead H Hr) ];
      cbn beta iota in H |- *
  end.

Ltac use_drive IH H Hr :=
  match type of H with
  | context [drive spn (Machine.go Q_strict K toks spn ?n) ?f ?m ?i ?c ?its ?lim ?pa ?idx ?acc ?s] =>
      let E := fresh "E" in
      destruct (drive spn (Machine.go Q_strict K toks spn n) f m i c its lim pa idx acc s) as [[[[?| | |] ?] ?] ?] eqn:E;
      [ rewrite (drive_ag _ _ IH _ _ _ _ _ _ _ _ _ _ _ _ _ _ E I) | rewrite (drive_ag _ _ IH _ _ _ _ _ _ _ _ _ _ _ _ _ _ E I)
      | try (dead H Hr) | try (dead H Hr) ];
      cbn beta iota in H |- *
  | context [skip_until_loop (Machine.go Q_strict K toks spn ?n) ?f ?m ?sk ?un ?fb ?c ?a0 ?s] =>
      let E := fresh "E" in
      destruct (skip_until_loop (Machine.go Q_strict K toks spn n) f m sk un fb c a0 s) as [[?| | |] ?] eqn:E;
      [ rewrite (skip_until_ag _ _ IH _ _ _ _ _ _ _ _ _ _ E I) | rewrite (skip_until_ag _ _ IH _ _ _ _ _ _ _ _ _ _ E I)
      | try (dead H Hr) | try (dead H Hr) ];
      cbn beta iota in H |- *
  | context [skip_retry_loop (Machine.go Q_strict K toks spn ?n) ?f ?m ?p ?sk ?un ?c ?a0 ?s] =>
      let E := fresh "E" in
      destruct (skip_retry_loop (Machine.go Q_strict K toks spn n) f m p sk un c a0 s) as [[?| | |] ?] eqn:E;
      [ rewrite (skip_retry_ag _ _ IH _ _ _ _ _ _ _ _ _ _ E I) | rewrite (skip_retry_ag _ _ IH _ _ _ _ _ _ _ _ _ _ E I)
      | try (dead H Hr) | try (dead H Hr) ];
      cbn beta iota in H |- *
  end.

Theorem strict_is_on : forall n, Ag (go Q_strict K toks spn n) (go Q_on K toks spn n).
Proof.
  induction n as [|n IH]; intros m g ctx s r s1 H Hr; [exact H|].
  destruct g;
    cbn [Machine.go q_zst_noop q_look_trunc q_trymap_drop q_trymap_pos q_maperr_drop q_exact_noalt q_emptychoice_none
         q_memo_take memo_on memo_strict nested Q_strict Q_on negb andb] in H |- *;
    try exact H.
  all: try (solve [repeat (use_go IH H Hr); try exact H; auto]).
  all: try (solve [eapply group_loop_ag; eauto | eapply choice_loop_ag; eauto | eapply choicevec_loop_ag; eauto
                  | destruct gs as [|? [|? ?]]; [exact H | repeat (use_go IH H Hr); exact H | eapply choice_loop_ag; eauto]
                  | destruct gs; [exact H | eapply choicevec_loop_ag; eauto] ]).
  all: try (solve [repeat (first [use_go IH H Hr | use_drive IH H Hr]); try exact H; auto]).
  - (* RepUnit *)
    destruct i as [a [|lo] [hi|]| | | | | | | |]; try (solve [repeat (use_drive IH H Hr); try exact H]).
    eapply rep_fast_ag; eauto.
  - (* CollectExactly *)
    destruct n0; [destruct (it_eager i ctx); [apply IH; assumption|]|];
      repeat (use_drive IH H Hr); try exact H.
  - (* RecoverVia *)
    use_go IH H Hr; try exact H.
    match goal with |- context [alt (rewind ?x ?c)] => destruct (alt (rewind x c)) end; [|exact H].
    use_go IH H Hr; exact H.
  - (* RecoverSkipUntil *)
    use_go IH H Hr; try exact H.
    match goal with |- context [alt (rewind ?x ?c)] => destruct (alt (rewind x c)) end; [|exact H].
    use_drive IH H Hr; exact H.
  - (* RecoverSkipRetry *)
    use_go IH H Hr; try exact H.
    match goal with |- context [alt (rewind ?x ?c)] => destruct (alt (rewind x c)) end; [|exact H].
    use_drive IH H Hr; exact H.
  - (* Memo *)
    destruct (memo_get (memo s) (cur s) id) as [[[[p e]|]|]|]; try (dead H Hr).
    + destruct (n <? memo_fuel (memo s) (cur s) id); [dead H Hr | exact H].
    + use_go IH H Hr; exact H.
  - (* Var *)
    destruct (nth_error (crec ctx) k); [apply IH; assumption | exact H].
  - (* Pratt *)
    eapply (proj1 (pratt_ag _ _ IH m g ops ctx n)); eauto.
Qed.


(* at the top level: when the flagged machine answers, parse / check of the code's machine give exactly that *)
Corollary strict_run_top_is_on n m g o errs :
  run_top Q_strict K toks spn n m g = TRes o errs -> run_top Q_on K toks spn n m g = TRes o errs.
Proof.
  unfold run_top. intros H.
  destruct (go Q_strict K toks spn n m (ThenIgnore g End) env0 init_st) as [r s1] eqn:E.
  destruct r; try discriminate; rewrite (strict_is_on _ _ _ _ _ _ _ E I); exact H.
Qed.
End StrictOn.

Print Assumptions strict_is_on.
