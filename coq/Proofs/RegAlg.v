(* The algebra of the pending-error register: merging is associative (on well-formed errors: expected sets are
   sorted lists, which every error the parsers create satisfies), hence "run on an empty register and merge the
   result back" -- what try_map, labelled, map_err, memoized and nested_in do -- composes. *)
From Chum Require Export Sem.
From Coq Require Import Lia.

(* ---------- sorted duplicate-free lists of pattern codes ---------- *)
Fixpoint sorted (l : list N) : Prop :=
  match l with
  | [] => True
  | x :: r => (forall y, In y r -> (x < y)%N) /\ sorted r
  end.

Lemma ins_in x : forall l z, In z (ins x l) <-> z = x \/ In z l.
Proof.
  induction l as [|y r IH]; intros z; cbn.
  - intuition.
  - destruct (N.compare_spec x y) as [E|E|E]; cbn.
    + subst. intuition.
    + intuition.
    + rewrite IH. intuition.
Qed.

Lemma ins_sorted x : forall l, sorted l -> sorted (ins x l).
Proof.
  induction l as [|y r IH]; intros Hs; cbn.
  - split; [intros ? []|exact I].
  - destruct Hs as [Hy Hr]. destruct (N.compare_spec x y) as [E|E|E]; cbn.
    + split; assumption.
    + split; [|split; assumption]. intros z [<-|Hz]; [assumption|]. specialize (Hy z Hz). lia.
    + split; [|apply IH; assumption]. intros z Hz. apply ins_in in Hz. destruct Hz as [->|Hz]; [assumption|auto].
Qed.

Lemma sorted_ext : forall l1 l2, sorted l1 -> sorted l2 -> (forall z, In z l1 <-> In z l2) -> l1 = l2.
Proof.
  induction l1 as [|x r1 IH]; intros [|y r2] H1 H2 Hext; auto.
  - exfalso. apply (proj2 (Hext y)). now left.
  - exfalso. apply (proj1 (Hext x)). now left.
  - destruct H1 as [Hx H1], H2 as [Hy H2].
    assert (x = y).
    { destruct (proj1 (Hext x) (or_introl eq_refl)) as [->|Hin]; auto.
      destruct (proj2 (Hext y) (or_introl eq_refl)) as [->|Hin']; auto.
      specialize (Hy _ Hin). specialize (Hx _ Hin'). lia. }
    subst y. f_equal. apply IH; auto. intros z. split; intros Hz.
    + destruct (proj1 (Hext z) (or_intror Hz)) as [->|]; auto. specialize (Hx _ Hz). lia.
    + destruct (proj2 (Hext z) (or_intror Hz)) as [->|]; auto. specialize (Hy _ Hz). lia.
Qed.

Lemma union_in a : forall b z, In z (union a b) <-> In z a \/ In z b.
Proof.
  unfold union. induction b as [|x b IH]; intros z; cbn; [intuition|].
  rewrite ins_in, IH. intuition.
Qed.

Lemma union_sorted a b : sorted a -> sorted (union a b).
Proof. unfold union. intros Ha. induction b as [|x b IH]; cbn; auto. apply ins_sorted; auto. Qed.

Lemma mkset_sorted l : sorted (mkset l).
Proof. unfold mkset. induction l as [|x l IH]; cbn; [exact I|]. apply ins_sorted; auto. Qed.

Lemma union_assoc a b c : sorted a -> union (union a b) c = union a (union b c).
Proof.
  intros Ha. apply sorted_ext.
  - apply union_sorted, union_sorted, Ha.
  - apply union_sorted, Ha.
  - intros z. rewrite !union_in. intuition.
Qed.

(* ---------- well-formed errors and registers ---------- *)
(* well formed: the expected set is a sorted list, and a label occurs at most once among the contexts of the error *)
Definition wfe (e : err) : Prop :=
  match ereason e with REF exp _ => sorted exp | RCustom _ => True end /\ NoDup (map fst (ectx e)).

Lemma has_ctx_false l : forall c : list (nat * span), has_ctx l c = false -> ~ In l (map fst c).
Proof.
  induction c as [|[l' sp] r IH]; cbn; [tauto|]. destruct (Nat.eqb_spec l l') as [->|Hne]; [discriminate|].
  intros H [E|Hin]; [congruence|]. exact (IH H Hin).
Qed.

Lemma nodup_snoc (l : nat) (sp : span) (c : list (nat * span)) :
  NoDup (map fst c) -> ~ In l (map fst c) -> NoDup (map fst (c ++ [(l, sp)])).
Proof.
  intros Hn Hi. rewrite map_app. cbn [map fst].
  induction (map fst c) as [|x r IH]; cbn; [constructor; [intros []|constructor]|].
  inversion Hn as [|? ? Hx Hr]; subst. constructor.
  - rewrite in_app_iff. cbn. intros [H|[H|[]]]; [exact (Hx H)|]. subst. apply Hi. now left.
  - apply IH; auto. intros H. apply Hi. now right.
Qed.
Definition wfr (a : option lerr) : Prop := match a with Some (_, e) => wfe e | None => True end.

Lemma or_found_assoc f g h : or_found (or_found f g) h = or_found f (or_found g h).
Proof. destruct f; reflexivity. Qed.

Lemma flat_merge_assoc x y z :
  match x with REF e _ => sorted e | _ => True end ->
  flat_merge (flat_merge x y) z = flat_merge x (flat_merge y z).
Proof.
  destruct x as [kx|ex fx], y as [ky|ey fy], z as [kz|ez fz]; cbn; intros Hx; try reflexivity.
  now rewrite union_assoc, or_found_assoc.
Qed.

Section RegAlg.
Variable K : ekind.

Lemma merge_assoc x y z : wfe x -> merge K (merge K x y) z = merge K x (merge K y z).
Proof.
  unfold merge, wfe. destruct K; auto. intros [Hx _]. cbn [espan ereason ectx]. now rewrite flat_merge_assoc.
Qed.

Lemma merge_wfe x y : wfe x -> wfe (merge K x y).
Proof.
  unfold merge, wfe. destruct K; auto. cbn. intros [Hs Hn]. split; [|exact Hn].
  destruct (ereason x) as [k|e f], (ereason y) as [k'|e' f']; cbn; auto. apply union_sorted; auto.
Qed.

Lemma expected_found_wfe exp found sp : wfe (expected_found K exp found sp).
Proof. unfold expected_found, wfe. destruct K; cbn; (split; [auto|constructor]). apply mkset_sorted. Qed.

Lemma merge_ef_is_merge x exp found sp : merge_ef K x exp found sp = merge K x (expected_found K exp found sp).
Proof.
  unfold merge_ef, merge, expected_found. destruct K; auto. destruct x as [s [k|e f] c]; reflexivity.
Qed.

Lemma custom_err_wfe k sp : wfe (custom_err K k sp).
Proof. unfold custom_err, wfe. destruct K; cbn; (split; [auto|constructor]). Qed.

Lemma label_with_wfe l e : wfe e -> wfe (label_with K l e).
Proof.
  unfold label_with, wfe. destruct K; auto. intros [_ Hn]. destruct (ereason e); cbn; (split; [|exact Hn]); (split; [intros ? []|exact I]).
Qed.

Lemma in_context_wfe l sp e : wfe e -> wfe (in_context K l sp e).
Proof.
  unfold in_context, wfe. destruct K; auto. destruct (has_ctx l (ectx e)) eqn:E; auto.
  intros [Hs Hn]. cbn [ereason ectx]. split; [exact Hs|]. apply nodup_snoc; auto. now apply has_ctx_false.
Qed.

(* a label is recorded at most once: in_context on an error that already carries the label changes nothing *)
Lemma in_context_idem l sp sp' e : in_context K l sp' (in_context K l sp e) = in_context K l sp e.
Proof.
  unfold in_context. destruct K; auto. destruct (has_ctx l (ectx e)) eqn:E; [now rewrite E|].
  cbn [ectx]. assert (H : has_ctx l (ectx e ++ [(l, sp)]) = true).
  { clear E. induction (ectx e) as [|[l' s'] r IH]; cbn; [now rewrite Nat.eqb_refl|]. destruct (Nat.eqb l l'); auto. }
  now rewrite H.
Qed.

Lemma map_err_fn_wfe k e : wfe (map_err_fn K k e).
Proof. apply custom_err_wfe. Qed.

(* the register operations *)
Notation ee := (Sem.ee K).
Notation ef := (Sem.ef K).
Notation join := (Sem.join K).

Lemma ee_wfr a p e : wfr a -> wfe e -> wfr (ee a p e).
Proof.
  unfold Sem.ee, add_alt_err. destruct (is_zst K); [auto|]. destruct a as [[q x]|]; cbn; auto.
  destruct (Nat.compare q p); cbn; auto. intros; apply merge_wfe; auto.
Qed.

Lemma join_wfr a b : wfr a -> wfr b -> wfr (join a b).
Proof. destruct b as [[p e]|]; cbn; auto. intros; apply ee_wfr; auto. Qed.

(* add_alt is add_alt_err of the freshly made error *)
Lemma ef_is_ee a p exp found sp : ef a p exp found sp = ee a p (expected_found K exp found sp).
Proof.
  unfold Sem.ef, Sem.ee, add_alt, add_alt_err. destruct (is_zst K); auto. destruct a as [[q x]|]; auto.
  destruct (Nat.compare q p); auto. now rewrite merge_ef_is_merge.
Qed.

Lemma join_None_l b : join None b = b.
Proof. destruct b as [[p e]|]; cbn; auto. unfold Sem.ee, add_alt_err. destruct (is_zst K); reflexivity. Qed.

Lemma ee_zst a p e : is_zst K = true -> ee a p e = Some (p, e).
Proof. unfold Sem.ee, add_alt_err. now intros ->. Qed.

Lemma ee_nz a p e : is_zst K = false ->
  ee a p e = Some match a with
                  | Some (q, x) => match Nat.compare q p with Eq => (q, merge K x e) | Gt => (q, x) | Lt => (p, e) end
                  | None => (p, e)
                  end.
Proof. unfold Sem.ee, add_alt_err. now intros ->. Qed.

Lemma join_assoc a b c : wfr a -> wfr b -> join (join a b) c = join a (join b c).
Proof.
  intros Ha Hb. destruct c as [[pc ec]|]; [|reflexivity]. destruct b as [[pb eb]|]; [|now rewrite join_None_l].
  destruct (is_zst K) eqn:Z.
  - cbn [Sem.join]. rewrite !ee_zst by assumption. cbn [Sem.join]. now rewrite ee_zst.
  - cbn [Sem.join]. rewrite (ee_nz (Some (pb, eb))), (ee_nz a pb eb) by assumption.
    destruct a as [[pa ea]|].
    + destruct (Nat.compare_spec pa pb) as [E1|E1|E1]; destruct (Nat.compare_spec pb pc) as [E2|E2|E2]; subst;
        cbn [Sem.join]; rewrite !ee_nz by assumption; rewrite ?Nat.compare_refl;
        repeat match goal with
               | |- context [Nat.compare ?x ?y] => destruct (Nat.compare_spec x y); subst; try lia
               end; try reflexivity.
      now rewrite merge_assoc.
    + destruct (Nat.compare_spec pb pc); cbn [Sem.join]; rewrite !ee_nz by assumption; rewrite ?Nat.compare_refl;
        repeat match goal with
               | |- context [Nat.compare ?x ?y] => destruct (Nat.compare_spec x y); subst; try lia
               end; reflexivity.
Qed.
End RegAlg.
