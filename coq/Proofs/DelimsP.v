(* C08: recovery::nested_delimiters consumes exactly one balanced delimited region (soundness: whatever it matches is
   start, a balanced sequence, end). *)
From Chum Require Export Extent Text.
From Coq Require Import Lia.

Section DelimsP.
Variable K : ekind.
Variable toks : list tok.
Variable spn : nat -> nat -> span.
Notation sem := (Sem.sem K toks spn).
Variable s e : tok.
Variable others : list (tok * tok).

Definition nd_pairs : list (tok * tok) := (s, e) :: others.
Definition nd_skip : list tok := s :: e :: concat (map (fun se => [fst se; snd se]) others).
Definition nd_delim (se : tok * tok) : G := DelimitedBy (Var 0) (Just [fst se]) (Just [snd se]).
Definition nd_many : G := fold_left (fun acc se => Or acc (nd_delim se)) others (nd_delim (s, e)).
Definition nd_item : G := Or nd_many (Ignored (AndIs Any (NoneOf nd_skip))).
Definition nd_body : G := RepUnit (IRep nd_item 0 None).

Lemma nested_delims_unfold :
  nested_delims s e others = ToSpan (DelimitedBy (Rec nd_body) (Just [s]) (Just [e])).
Proof. reflexivity. Qed.

(* balanced sequences: tokens that are no delimiter, and delimited balanced groups *)
Inductive bal : list tok -> Prop :=
| bal_nil : bal []
| bal_tok t r : ~ In t nd_skip -> bal r -> bal (t :: r)
| bal_grp o c inner r : In (o, c) nd_pairs -> bal inner -> bal r -> bal (o :: inner ++ c :: r).

Lemma bal_app l r : bal l -> bal r -> bal (l ++ r).
Proof.
  induction 1 as [|t l0 Ht Hl IH|o c inner l0 Hin Hi IHi Hl IH]; intros Hr; cbn; auto.
  - constructor; auto.
  - rewrite <- app_assoc. cbn. apply bal_grp; auto.
Qed.

(* the tokens between two positions *)
Definition seg (p q : nat) : list tok := firstn (q - p) (skipn p toks).

Lemma seg_nil p : seg p p = [].
Proof. unfold seg. now rewrite Nat.sub_diag. Qed.

Lemma firstn_plus {A} : forall a b (l : list A), firstn (a + b) l = firstn a l ++ firstn b (skipn a l).
Proof. induction a as [|a IH]; intros b [|x l]; cbn; auto; [now rewrite firstn_nil | now rewrite IH]. Qed.
Lemma skipn_plus {A} : forall a b (l : list A), skipn a (skipn b l) = skipn (b + a) l.
Proof. induction b as [|b IH]; intros [|x l]; cbn; auto. now rewrite skipn_nil. Qed.

Lemma seg_app p q r : p <= q -> q <= r -> seg p r = seg p q ++ seg q r.
Proof.
  intros H1 H2. unfold seg. replace (r - p) with ((q - p) + (r - q)) by lia.
  rewrite firstn_plus. f_equal. rewrite skipn_plus. replace (p + (q - p)) with q by lia. reflexivity.
Qed.

Lemma seg_one p t : nth_error toks p = Some t -> seg p (S p) = [t].
Proof.
  intros H. unfold seg. replace (S p - p) with 1 by lia.
  revert p H. induction toks as [|x l IH]; intros [|p] H; cbn in *; try discriminate.
  - injection H as ->. reflexivity.
  - apply IH. exact H.
Qed.

Definition Good (p p' : nat) : Prop := p <= p' <= length toks /\ bal (seg p p').
Definition nd_env (ctx : env) : Prop := nth_error (crec ctx) 0 = Some nd_body.

(* ---------- inversion of the small combinators involved ---------- *)
Lemma just1_inv n t ctx p a v p' em a' :
  sem n (Just [t]) ctx p a = Some (Some (v, p', em), a') -> nth_error toks p = Some t /\ p' = S p.
Proof.
  destruct n as [|n]; [discriminate|]. cbn [Sem.sem just_sem]. destruct (nth_error toks p) as [u|]; [|discriminate].
  destruct (N.eqb t u) eqn:E; [|discriminate]. apply N.eqb_eq in E. subst u. intros H. injection H as _ <- _ _. auto.
Qed.

Lemma or_inv n x y ctx p a r a' :
  sem (S n) (Or x y) ctx p a = Some (Some r, a') ->
  (exists a1, sem n x ctx p a = Some (Some r, a1)) \/ (exists a0 a1, sem n y ctx p a0 = Some (Some r, a1)).
Proof.
  cbn [Sem.sem choice_sem]. destruct (sem n x ctx p a) as [[[r1|] a1]|]; try discriminate.
  - intros H. injection H as <- <-. eauto.
  - destruct (sem n y ctx p a1) as [[[r2|] a2]|] eqn:E; try discriminate. intros H. injection H as <- <-. eauto.
Qed.

Lemma delimited_inv n x l r ctx p a v p' em a' :
  sem (S n) (DelimitedBy x l r) ctx p a = Some (Some (v, p', em), a') ->
  exists v1 p1 e1 a1 v2 p2 e2 a2 v3 e3,
    sem n l ctx p a = Some (Some (v1, p1, e1), a1) /\ sem n x ctx p1 a1 = Some (Some (v2, p2, e2), a2) /\
    sem n r ctx p2 a2 = Some (Some (v3, p', e3), a').
Proof.
  cbn [Sem.sem]. destruct (sem n l ctx p a) as [[[[[v1 p1] e1]|] a1]|] eqn:E1; try discriminate.
  destruct (sem n x ctx p1 a1) as [[[[[v2 p2] e2]|] a2]|] eqn:E2; try discriminate.
  destruct (sem n r ctx p2 a2) as [[[[[v3 p3] e3]|] a3]|] eqn:E3; try discriminate.
  intros H. injection H as <- <- <- <-. do 10 eexists. eauto.
Qed.

Lemma var0_inv n ctx p a res : nd_env ctx ->
  sem (S n) (Var 0) ctx p a = Some res -> sem n nd_body (mkEnv (cval ctx) (crec ctx)) p a = Some res.
Proof. unfold nd_env. cbn [Sem.sem]. intros ->. cbn [skipn]. auto. Qed.

Lemma other_tok_inv n ctx p a v p' em a' :
  sem n (Ignored (AndIs Any (NoneOf nd_skip))) ctx p a = Some (Some (v, p', em), a') ->
  exists t, nth_error toks p = Some t /\ ~ In t nd_skip /\ p' = S p.
Proof.
  destruct n as [|n]; [discriminate|]. cbn [Sem.sem].
  destruct n as [|n]; [discriminate|]. cbn [Sem.sem].
  destruct n as [|n]; [discriminate|]. cbn [Sem.sem]. unfold one_tok_sem.
  destruct (nth_error toks p) as [t|]; [|discriminate].
  destruct (memN t nd_skip) eqn:Em; [discriminate|]. intros H. injection H as _ <- _ _.
  exists t. repeat split; auto. intros Hin. clear - Em Hin.
  induction nd_skip as [|x l IH]; [contradiction|]. cbn in Em. destruct (N.eqb t x) eqn:E; [discriminate|].
  destruct Hin as [->|Hin]; [rewrite N.eqb_refl in E; discriminate | auto].
Qed.

(* ---------- the repetition: a concatenation of good segments is good ---------- *)
Lemma good_refl p : p <= length toks -> Good p p.
Proof. intros. split; [lia|]. rewrite seg_nil. constructor. Qed.
Lemma good_trans p q r : Good p q -> Good q r -> Good p r.
Proof. intros ([? ?] & B1) ([? ?] & B2). split; [lia|]. rewrite (seg_app p q r) by lia. apply bal_app; auto. Qed.

Lemma sdrive_rep_good (run : srun_t) a ctx :
  (forall q r v q' em r1, q <= length toks -> run a ctx q r = Some (Some (v, q', em), r1) -> Good q q') ->
  forall fuel c sacc sacce p r items fl p' ems r', p <= length toks ->
    sdrive toks spn run fuel (IRep a 0 None) ctx (SCount c) None sacc sacce p r = Some (Some (items, fl, p', ems), r') ->
    Good p p'.
Proof.
  intros Ha. induction fuel as [|fuel IH]; intros c sacc sacce p r items fl p' ems r' Hp H; [discriminate|].
  cbn [sdrive it_snext] in H. unfold rep_snext in H. cbn [at_cap] in H.
  destruct (run a ctx p r) as [[[[[v q'] em]|] r1]|] eqn:E; try discriminate.
  - cbn [option_map] in H. pose proof (Ha _ _ _ _ _ _ Hp E) as G1. eapply good_trans; [exact G1|].
    eapply IH; [|exact H]. destruct G1 as ([? ?] & _). lia.
  - cbn [Nat.leb] in H. injection H as <- <- <- <- <-. apply good_refl; auto.
Qed.

(* ---------- the recursion ---------- *)
Definition body_sound (n : nat) : Prop :=
  forall ctx p a v p' em a', nd_env ctx -> p <= length toks ->
    sem n nd_body ctx p a = Some (Some (v, p', em), a') -> Good p p'.

Section Step.
Variable N : nat.
Hypothesis IHb : forall k, k < N -> body_sound k.

(* one delimited group *)
Lemma delim_sound se k ctx p a v p' em a' : In se nd_pairs -> k <= N -> nd_env ctx -> p <= length toks ->
  sem k (nd_delim se) ctx p a = Some (Some (v, p', em), a') -> Good p p'.
Proof.
  intros Hin Hk He Hp H. destruct se as [o c]. unfold nd_delim in H. cbn [fst snd] in H.
  destruct k as [|k]; [discriminate|].
  apply delimited_inv in H. destruct H as (v1 & p1 & e1 & a1 & v2 & p2 & e2 & a2 & v3 & e3 & H1 & H2 & H3).
  apply just1_inv in H1. destruct H1 as (Ho & ->).
  destruct k as [|k]; [discriminate|].
  apply (var0_inv k ctx (S p) a1 _ He) in H2.
  assert (Hlt' : p < length toks) by (apply nth_error_Some; congruence).
  apply (IHb k ltac:(lia)) in H2; [|exact He|lia].
  apply just1_inv in H3. destruct H3 as (Hc & ->).
  destruct H2 as ([Hq1 Hq2] & Hb).
  assert (Hp2 : p2 < length toks) by (apply nth_error_Some; congruence).
  split; [lia|].
  rewrite (seg_app p (S p) (S p2)) by lia. rewrite (seg_one p o Ho).
  rewrite (seg_app (S p) p2 (S p2)) by lia. rewrite (seg_one p2 c Hc). cbn [app].
  replace (seg (S p) p2 ++ [c]) with (seg (S p) p2 ++ c :: []) by reflexivity.
  apply bal_grp; auto. constructor.
Qed.

(* the alternatives over all delimiter pairs *)
Lemma many_sound : forall l acc,
  (forall se, In se l -> In se nd_pairs) ->
  (forall k ctx p a v p' em a', k <= N -> nd_env ctx -> p <= length toks ->
     sem k acc ctx p a = Some (Some (v, p', em), a') -> Good p p') ->
  forall k ctx p a v p' em a', k <= N -> nd_env ctx -> p <= length toks ->
    sem k (fold_left (fun acc se => Or acc (nd_delim se)) l acc) ctx p a = Some (Some (v, p', em), a') -> Good p p'.
Proof.
  induction l as [|se l IH]; intros acc Hl Hacc; cbn [fold_left]; [exact Hacc|].
  apply IH; [intros; apply Hl; now right|].
  intros k ctx p a v p' em a' Hk He Hp H. destruct k as [|k]; [discriminate|].
  apply or_inv in H. destruct H as [(a1 & H)|(a0 & a1 & H)].
  - eapply (Hacc k); [lia | exact He | exact Hp | exact H].
  - eapply (delim_sound se k); [apply Hl; now left | lia | exact He | exact Hp | exact H].
Qed.

Lemma item_sound k ctx p a v p' em a' : k <= N -> nd_env ctx -> p <= length toks ->
  sem k nd_item ctx p a = Some (Some (v, p', em), a') -> Good p p'.
Proof.
  intros Hk He Hp H. unfold nd_item in H. destruct k as [|k]; [discriminate|].
  apply or_inv in H. destruct H as [(a1 & H)|(a0 & a1 & H)].
  - unfold nd_many in H. eapply (many_sound others (nd_delim (s, e))); [intros; now right | | | exact He | exact Hp | exact H]; [|lia].
    intros k0 ctx0 p0 a2 v0 p0' em0 a0' Hk0 He0 Hp0 H0. eapply (delim_sound (s, e) k0); [now left | exact Hk0 | exact He0 | exact Hp0 | exact H0].
  - apply other_tok_inv in H. destruct H as (t & Ht & Hn & ->).
    assert (p < length toks) by (apply nth_error_Some; congruence).
    split; [lia|]. rewrite (seg_one p t Ht). constructor; [exact Hn|constructor].
Qed.
End Step.

Lemma body_sound_all : forall n, body_sound n.
Proof.
  induction n as [n IHn] using (well_founded_induction lt_wf).
  intros ctx p a v p' em a' He Hp H. destruct n as [|n]; [discriminate|].
  unfold nd_body in H. cbn [Sem.sem mk_iter] in H.
  destruct (sdrive toks spn (sem n) n (IRep nd_item 0 None) ctx (SCount 0) None [] [] p a)
    as [[[[[[its fl] p1] e1]|] a1]|] eqn:E; try discriminate.
  injection H as _ <- _ _.
  eapply (sdrive_rep_good (sem n) nd_item ctx); [|exact Hp|exact E].
  intros q r v0 q' em0 r1 Hq Hrun.
  refine (item_sound n _ n ctx q r v0 q' em0 r1 (le_n n) He Hq Hrun). intros k Hk. apply IHn. lia.
Qed.

(* nested_delimiters(start, end, others, ..) matches start, a balanced sequence, end -- and nothing else -- and
   yields (the fallback applied to) the span of exactly that region *)
Theorem nested_delims_sound n ctx p a v p' em a' : p <= length toks ->
  sem n (nested_delims s e others) ctx p a = Some (Some (v, p', em), a') ->
  exists inner, seg p p' = s :: inner ++ [e] /\ bal inner /\ v = vspan (spn p p').
Proof.
  intros Hp H. rewrite nested_delims_unfold in H.
  destruct n as [|n]; [discriminate|]. cbn [Sem.sem] in H.
  destruct (sem n (DelimitedBy (Rec nd_body) (Just [s]) (Just [e])) ctx p a) as [[[[[v1 p1] e1]|] a1]|] eqn:E; try discriminate.
  injection H as <- <- <- <-.
  destruct n as [|n]; [discriminate|].
  apply delimited_inv in E. destruct E as (v2 & p2 & e2 & a2 & v3 & p3 & e3 & a3 & v4 & e4 & H1 & H2 & H3).
  apply just1_inv in H1. destruct H1 as (Hs & ->).
  destruct n as [|n]; [discriminate|]. cbn [Sem.sem] in H2.
  assert (Hlt : p < length toks) by (apply nth_error_Some; congruence).
  apply (body_sound_all n) in H2; [|reflexivity|lia].
  apply just1_inv in H3. destruct H3 as (He & ->).
  destruct H2 as ([Hq1 Hq2] & Hb).
  assert (Hp3 : p3 < length toks) by (apply nth_error_Some; congruence).
  exists (seg (S p) p3). repeat split; auto.
  rewrite (seg_app p (S p) (S p3)) by lia. rewrite (seg_one p s Hs).
  rewrite (seg_app (S p) p3 (S p3)) by lia. rewrite (seg_one p3 e He). reflexivity.
Qed.
End DelimsP.

Print Assumptions nested_delims_sound.
