(* Extents: a successful sub-parse starting at p ends at some p' with p <= p' <= |input|.
   (C07: start <= end, inside the input; C03: matching the whole input means ending at |input|.) *)
From Chum Require Export SemLaws.

Section Extent.
Variable K : ekind.
Variable toks : list tok.
Variable spn : nat -> nat -> span.
Notation sem := (sem K toks spn).

Definition Ext (run : srun_t) : Prop :=
  forall g ctx p a v p' e a', run g ctx p a = Some (Some (v, p', e), a') ->
    p <= length toks -> p <= p' <= length toks.

Lemma nth_some_lt {A} (l : list A) p t : nth_error l p = Some t -> p < length l.
Proof. intros H. apply nth_error_Some. congruence. Qed.

Lemma just_sem_ext ts : forall p a p1 a1,
  just_sem K toks spn ts p a = (Some p1, a1) -> p <= p1 <= length toks \/ (ts = [] /\ p1 = p).
Proof.
  induction ts as [|t ts IH]; intros p a p1 a1 H; cbn in H.
  - injection H as <- <-. right; auto.
  - destruct (nth_error toks p) as [u|] eqn:E; [|discriminate].
    destruct (N.eqb t u); [|discriminate]. apply nth_some_lt in E.
    apply IH in H. destruct H as [H|[-> ->]]; left; lia.
Qed.

Lemma custom_sem_ext ts : forall p p1, custom_sem toks ts p = (true, p1) -> p <= length toks -> p <= p1 <= length toks.
Proof.
  induction ts as [|t ts IH]; intros p p1 H Hp; cbn in H.
  - injection H as <-. lia.
  - destruct (nth_error toks p) as [u|] eqn:E; [|discriminate].
    destruct (N.eqb t u); [|discriminate]. apply nth_some_lt in E.
    apply IH in H; lia.
Qed.

(* a custom parser's program never ends before its start: it moves forward with next / skip, and rewinds only to
   checkpoints it saved itself *)
Lemma prog_sem_ext ops : forall start stack acc p b acc' p1 lo,
  prog_sem toks spn ops start stack acc p = (b, acc', p1) -> lo <= p <= length toks ->
  Forall (fun q => lo <= q <= length toks) stack -> lo <= p1 <= length toks.
Proof.
  induction ops as [|o ops IH]; intros start stack acc p b acc' p1 lo H Hp Hst; cbn [prog_sem] in H.
  { injection H as <- <- <-. exact Hp. }
  destruct o.
  - destruct (nth_error toks p) eqn:E; [apply nth_some_lt in E|]; eapply IH in H; eauto; lia.
  - destruct (nth_error toks p) eqn:E; [apply nth_some_lt in E|]; eapply IH in H; eauto; lia.
  - eapply IH in H; eauto.
  - destruct (nth_error toks p) eqn:E; [apply nth_some_lt in E|]; eapply IH in H; eauto; lia.
  - eapply IH in H; eauto.
  - destruct stack as [|q stack']; [eapply IH in H; eauto|]. inversion Hst; subst. eapply IH in H; eauto.
  - destruct (nth_error toks p) eqn:E; [apply nth_some_lt in E|].
    + destruct (N.eqb t t0); [eapply IH in H; eauto; lia | injection H as <- <- <-; lia].
    + injection H as <- <- <-. lia.
  - eapply IH in H; eauto.
  - eapply IH in H; eauto.
Qed.

Section L.
Variable run : srun_t.
Hypothesis HE : Ext run.

Lemma choice_sem_ext : forall gs ctx p a v p' e a',
  choice_sem run gs ctx p a = Some (Some (v, p', e), a') -> p <= length toks -> p <= p' <= length toks.
Proof.
  induction gs as [|g gs IH]; intros ctx p a v p' e a' H Hp; cbn in H; [discriminate|].
  destruct (run g ctx p a) as [[[[[v1 p1] e1]|] a1]|] eqn:E; try discriminate.
  - injection H as <- <- <- <-. eapply HE; eauto.
  - eapply IH; eauto.
Qed.

Lemma group_sem_ext : forall gs ctx p a accv acce v p' e a',
  group_sem run gs ctx p a accv acce = Some (Some (v, p', e), a') -> p <= length toks -> p <= p' <= length toks.
Proof.
  induction gs as [|g gs IH]; intros ctx p a accv acce v p' e a' H Hp; cbn in H.
  - injection H as <- <- <- <-. lia.
  - destruct (run g ctx p a) as [[[[[v1 p1] e1]|] a1]|] eqn:E; try discriminate.
    pose proof (HE _ _ _ _ _ _ _ _ E Hp). apply IH in H; lia.
Qed.

(* one iterator step never moves backwards or past the end *)
Definition snext_pos (x : snext) (p : nat) : Prop :=
  match x with
  | SNone p1 _ => p <= p1 <= length toks
  | SSome _ p1 _ => p <= p1 <= length toks
  | SErr => True
  end.

Lemma rep_snext_ext a lo hi ctx c p r x c' r' :
  rep_snext run a lo hi ctx c p r = Some (x, c', r') -> p <= length toks -> snext_pos x p.
Proof.
  unfold rep_snext. intros H Hp. destruct (at_cap c hi); [injection H as <- <- <-; cbn; lia|].
  destruct (run a ctx p r) as [[[[[v1 p1] e1]|] a1]|] eqn:E; try discriminate.
  - injection H as <- <- <-. cbn. eapply HE; eauto.
  - destruct (lo <=? c); injection H as <- <- <-; cbn; auto.
Qed.

Lemma sep_sitem_ext a lo trail ctx c p ps es r0 x c' r' :
  sep_sitem run a lo trail ctx c p ps es r0 = Some (x, c', r') -> p <= ps <= length toks -> snext_pos x p.
Proof.
  unfold sep_sitem. intros H Hp.
  destruct (run a ctx ps r0) as [[[[[v1 p1] e1]|] a1]|] eqn:E; try discriminate.
  - injection H as <- <- <-. cbn. pose proof (HE _ _ _ _ _ _ _ _ E (proj2 Hp)). lia.
  - destruct (c <? lo); [injection H as <- <- <-; exact I|].
    destruct trail; injection H as <- <- <-; cbn; lia.
Qed.

Lemma sep_snext_ext a sep lo hi lead trail ctx c p r x c' r' :
  sep_snext run a sep lo hi lead trail ctx c p r = Some (x, c', r') -> p <= length toks -> snext_pos x p.
Proof.
  unfold sep_snext. intros H Hp. destruct (at_cap c hi); [injection H as <- <- <-; cbn; lia|].
  destruct ((c =? 0) && lead).
  - destruct (run sep ctx p r) as [[[[[v1 p1] e1]|] a1]|] eqn:E; try discriminate.
    + pose proof (HE _ _ _ _ _ _ _ _ E Hp). eapply sep_sitem_ext; eauto.
    + eapply sep_sitem_ext; eauto; lia.
  - destruct (0 <? c).
    + destruct (run sep ctx p r) as [[[[[v1 p1] e1]|] a1]|] eqn:E; try discriminate.
      * pose proof (HE _ _ _ _ _ _ _ _ E Hp). eapply sep_sitem_ext; eauto.
      * destruct (c <? lo); injection H as <- <- <-; cbn; auto; lia.
    + eapply sep_sitem_ext; eauto; lia.
Qed.

Lemma it_snext_ext : forall i ctx its p r x its' r',
  it_snext toks spn run i ctx its p r = Some (x, its', r') -> p <= length toks -> snext_pos x p.
Proof.
  induction i as [a lo hi|a sep lo hi lead trail|j IHj|f j IHj|f j IHj|a|a lo hi ck|a|i1 IHi1 i2 IHi2];
    intros ctx its p r x its' r' H Hp; cbn [it_snext] in H.
  - destruct its; try discriminate.
    destruct (rep_snext run a lo hi ctx n p r) as [[[x0 c'] r0]|] eqn:E; [|discriminate].
    injection H as <- <- <-. eapply rep_snext_ext; eauto.
  - destruct its; try discriminate.
    destruct (sep_snext run a sep lo hi lead trail ctx n p r) as [[[x0 c'] r0]|] eqn:E; [|discriminate].
    injection H as <- <- <-. eapply sep_snext_ext; eauto.
  - destruct its; try discriminate.
    destruct (it_snext toks spn run j ctx its p r) as [[[x0 c'] r0]|] eqn:E; [|discriminate].
    apply IHj in E; auto. destruct x0; injection H as <- <- <-; exact E.
  - destruct (it_snext toks spn run j ctx its p r) as [[[x0 c'] r0]|] eqn:E; [|discriminate].
    apply IHj in E; auto. destruct x0; injection H as <- <- <-; exact E.
  - destruct (it_snext toks spn run j ctx its p r) as [[[x0 c'] r0]|] eqn:E; [|discriminate].
    apply IHj in E; auto. destruct x0; injection H as <- <- <-; exact E.
  - destruct its; try discriminate. destruct b; [injection H as <- <- <-; cbn; lia|].
    destruct (run a ctx p r) as [[[[[v1 p1] e1]|] a1]|] eqn:E; try discriminate; injection H as <- <- <-; cbn.
    + eapply HE; eauto.
    + lia.
  - destruct its; try discriminate.
    + destruct (rep_snext run a lo0 hi0 ctx n p r) as [[[x0 c'] r0]|] eqn:E; [|discriminate].
      injection H as <- <- <-. eapply rep_snext_ext; eauto.
    + destruct (run (TryMap PFalse FId k Empty) ctx p r) as [[[?|] ?]|]; try discriminate.
      injection H as <- <- <-. exact I.
  - destruct its as [| | | | |[l|]|]; try discriminate.
    + destruct l; injection H as <- <- <-; cbn; lia.
    + destruct (run a ctx p r) as [[[[[v1 p1] e1]|] a1]|] eqn:E; try discriminate.
      * pose proof (HE _ _ _ _ _ _ _ _ E Hp). destruct (val_items v1); injection H as <- <- <-; cbn; auto.
      * injection H as <- <- <-. exact I.
  - destruct its as [| | | | | |sa [sb|]]; try discriminate.
    + destruct (it_snext toks spn run i2 ctx sb p r) as [[[x0 c'] r0]|] eqn:E; [|discriminate].
      injection H as <- <- <-. eapply IHi2; eauto.
    + destruct (it_snext toks spn run i1 ctx sa p r) as [[[x0 c'] r0]|] eqn:E; [|discriminate].
      pose proof (IHi1 _ _ _ _ _ _ _ E Hp) as X.
      destruct x0; try (injection H as <- <- <-; exact X). cbn in X.
      destruct (it_snext toks spn run i2 ctx (mk_iter i2 ctx) p0 r0) as [[[x1 c1] r1]|] eqn:E2; [|discriminate].
      pose proof (IHi2 _ _ _ _ _ _ _ E2 (proj2 X)) as X2.
      destruct x1; injection H as <- <- <-; cbn in *; try exact I; lia.
Qed.

Lemma sdrive_ext : forall fuel i ctx its lim acc acce p r items fl p' ems r',
  sdrive toks spn run fuel i ctx its lim acc acce p r = Some (Some (items, fl, p', ems), r') ->
  p <= length toks -> p <= p' <= length toks.
Proof.
  induction fuel as [|fuel IH]; intros i ctx its lim acc acce p r items fl p' ems r' H Hp; cbn [sdrive] in H;
    [discriminate|].
  assert (Hstep :
    match it_snext toks spn run i ctx its p r with
    | Some (SSome v p1 e1, its', r1) =>
        sdrive toks spn run fuel i ctx its' (option_map Nat.pred lim) ((v, p, p1) :: acc) (acce ++ e1) p1 r1
    | Some (SNone p1 e1, _, r1) => Some (Some (acc, true, p1, acce ++ e1), r1)
    | Some (SErr, _, r1) => Some (None, r1)
    | None => None
    end = Some (Some (items, fl, p', ems), r') -> p <= p' <= length toks).
  { clear H. intros H.
    destruct (it_snext toks spn run i ctx its p r) as [[[x its'] r1]|] eqn:E; [|discriminate].
    apply it_snext_ext in E; auto. destruct x; cbn in E.
    - injection H as <- <- <- <- <-. exact E.
    - apply IH in H; lia.
    - discriminate. }
  destruct lim as [[|l]|]; auto. injection H as <- <- <- <- <-. lia.
Qed.

Lemma skip_until_ext : forall fuel skip until ctx p r acce p' ems r',
  skip_until_sem run fuel skip until ctx p r acce = Some (Some (p', ems), r') ->
  p <= length toks -> p <= p' <= length toks.
Proof.
  induction fuel as [|fuel IH]; intros skip until ctx p r acce p' ems r' H Hp; cbn in H; [discriminate|].
  destruct (run until ctx p r) as [[[[[v1 p1] e1]|] a1]|] eqn:E; try discriminate.
  - injection H as <- <- <-. eapply HE; eauto.
  - destruct (run skip ctx p a1) as [[[[[v2 p2] e2]|] a2]|] eqn:E2; try discriminate.
    pose proof (HE _ _ _ _ _ _ _ _ E2 Hp). apply IH in H; lia.
Qed.

Lemma skip_retry_ext : forall fuel g skip until ctx p r acce v p' ems r',
  skip_retry_sem run fuel g skip until ctx p r acce = Some (Some (v, p', ems), r') ->
  p <= length toks -> p <= p' <= length toks.
Proof.
  induction fuel as [|fuel IH]; intros g skip until ctx p r acce v p' ems r' H Hp; cbn in H; [discriminate|].
  destruct (run until ctx p r) as [[[[[v1 p1] e1]|] a1]|] eqn:E; try discriminate.
  destruct (run skip ctx p a1) as [[[[[v2 p2] e2]|] a2]|] eqn:E2; try discriminate.
  pose proof (HE _ _ _ _ _ _ _ _ E2 Hp).
  destruct (run g ctx p2 a2) as [[[[[v3 p3] e3]|] a3]|] eqn:E3; try discriminate.
  - destruct e3.
    + injection H as <- <- <- <-. pose proof (HE _ _ _ _ _ _ _ _ E3 (proj2 H0)). lia.
    + apply IH in H; lia.
  - apply IH in H; lia.
Qed.

(* Pratt *)
Section PE.
Variable rec : nat -> nat -> reg -> option sres.
Hypothesis Hrec : forall minp p a v p' e a', rec minp p a = Some (Some (v, p', e), a') ->
  p <= length toks -> p <= p' <= length toks.

Lemma pratt_sprefix_ext : forall ops ctx start a v p' e a',
  pratt_sprefix spn run rec ops ctx start a = SDone (Some (Some (v, p', e), a')) ->
  start <= length toks -> start <= p' <= length toks.
Proof.
  induction ops as [|o ops IH]; intros ctx start a v p' e a' H Hp; cbn [pratt_sprefix] in H; [discriminate|].
  destruct o as [r bp og k|bp og k|bp og k]; try (eapply IH; eassumption).
  destruct (run og ctx start a) as [[[[[v1 p1] e1]|] a1]|] eqn:E; [|eapply IH; eassumption|discriminate].
  pose proof (HE _ _ _ _ _ _ _ _ E Hp).
  destruct (rec (2 * bp) p1 a1) as [[[[[v2 p2] e2]|] a2]|] eqn:E2; [|eapply IH; eassumption|discriminate].
  injection H as <- <- <- <-. apply Hrec in E2; lia.
Qed.

Lemma pratt_spostfix_ext : forall ops ctx minp start lhs p a v p' e a',
  pratt_spostfix spn run ops ctx minp start lhs p a = SDone (Some (Some (v, p', e), a')) ->
  p <= length toks -> p <= p' <= length toks.
Proof.
  induction ops as [|o ops IH]; intros ctx minp start lhs p a v p' e a' H Hp; cbn [pratt_spostfix] in H; [discriminate|].
  destruct o as [r bp og k|bp og k|bp og k]; try (eapply IH; eassumption).
  destruct (minp <=? 2 * bp + 1); [|eapply IH; eassumption].
  destruct (run og ctx p a) as [[[[[v1 p1] e1]|] a1]|] eqn:E; [|eapply IH; eassumption|discriminate].
  injection H as <- <- <- <-. eapply HE; eauto.
Qed.

Lemma pratt_sinfix_ext : forall ops ctx minp start lhs p a v p' e a',
  pratt_sinfix spn run rec ops ctx minp start lhs p a = SDone (Some (Some (v, p', e), a')) ->
  p <= length toks -> p <= p' <= length toks.
Proof.
  induction ops as [|o ops IH]; intros ctx minp start lhs p a v p' e a' H Hp; cbn [pratt_sinfix] in H; [discriminate|].
  destruct o as [r bp og k|bp og k|bp og k]; try (eapply IH; eassumption).
  destruct (minp <=? lpow r bp); [|eapply IH; eassumption].
  destruct (run og ctx p a) as [[[[[v1 p1] e1]|] a1]|] eqn:E; [|eapply IH; eassumption|discriminate].
  pose proof (HE _ _ _ _ _ _ _ _ E Hp).
  destruct (rec (rpow r bp) p1 a1) as [[[[[v2 p2] e2]|] a2]|] eqn:E2; [|eapply IH; eassumption|discriminate].
  injection H as <- <- <- <-. apply Hrec in E2; lia.
Qed.
End PE.

Lemma pratt_sem_S f atom ops ctx minp p a :
  pratt_sem spn run (S f) atom ops ctx minp p a =
    match pratt_sprefix spn run (pratt_sem spn run f atom ops ctx) ops ctx p a with
    | SDone (Some (Some (v, p1, e1), a1)) => pratt_sloop spn run f atom ops ctx minp p v e1 p1 a1
    | SDone x => x
    | SNext a1 =>
        match run atom ctx p a1 with
        | Some (Some (v, p1, e1), a2) => pratt_sloop spn run f atom ops ctx minp p v e1 p1 a2
        | x => x
        end
    end.
Proof. reflexivity. Qed.

Lemma pratt_sloop_S f atom ops ctx minp start lhs acce p a :
  pratt_sloop spn run (S f) atom ops ctx minp start lhs acce p a =
    match pratt_spostfix spn run ops ctx minp start lhs p a with
    | SDone (Some (Some (v, p1, e1), a1)) => pratt_sloop spn run f atom ops ctx minp start v (acce ++ e1) p1 a1
    | SDone x => x
    | SNext a1 =>
        match pratt_sinfix spn run (pratt_sem spn run f atom ops ctx) ops ctx minp start lhs p a1 with
        | SDone (Some (Some (v, p1, e1), a2)) => pratt_sloop spn run f atom ops ctx minp start v (acce ++ e1) p1 a2
        | SDone x => x
        | SNext a2 => Some (Some (lhs, p, acce), a2)
        end
    end.
Proof. reflexivity. Qed.

Lemma pratt_ext atom ops ctx : forall fuel,
  (forall minp p a v p' e a', pratt_sem spn run fuel atom ops ctx minp p a = Some (Some (v, p', e), a') ->
     p <= length toks -> p <= p' <= length toks) /\
  (forall minp start lhs acce p a v p' e a',
     pratt_sloop spn run fuel atom ops ctx minp start lhs acce p a = Some (Some (v, p', e), a') ->
     p <= length toks -> p <= p' <= length toks).
Proof.
  induction fuel as [|f [IHs IHl]]; [split; intros; discriminate|].
  split.
  - intros minp p a v p' e a' H Hp. rewrite pratt_sem_S in H.
    destruct (pratt_sprefix spn run (pratt_sem spn run f atom ops ctx) ops ctx p a) as [[[[[[v1 p1] e1]|] a1]|]|a1] eqn:E;
      try discriminate.
    + apply (pratt_sprefix_ext _ IHs) in E; auto. apply IHl in H; lia.
    + destruct (run atom ctx p a1) as [[[[[v1 p1] e1]|] a2]|] eqn:Ea; try discriminate.
      pose proof (HE _ _ _ _ _ _ _ _ Ea Hp). apply IHl in H; lia.
  - intros minp start lhs acce p a v p' e a' H Hp. rewrite pratt_sloop_S in H.
    destruct (pratt_spostfix spn run ops ctx minp start lhs p a) as [[[[[[v1 p1] e1]|] a1]|]|a1] eqn:E; try discriminate.
    + apply pratt_spostfix_ext in E; auto. apply IHl in H; lia.
    + destruct (pratt_sinfix spn run (pratt_sem spn run f atom ops ctx) ops ctx minp start lhs p a1)
        as [[[[[[v1 p1] e1]|] a2]|]|a2] eqn:Ei; try discriminate.
      * apply (pratt_sinfix_ext _ IHs) in Ei; auto. apply IHl in H; lia.
      * injection H as <- <- <- <-. lia.
Qed.

End L.

Ltac ext_crush IH :=
  repeat match goal with
  | H : context [match sem ?n ?g ?c ?p ?a with _ => _ end] |- _ =>
      let E := fresh "E" in
      destruct (sem n g c p a) as [[[[[? ?] ?]|] ?]|] eqn:E; try discriminate;
      try (let X := fresh "X" in assert (X := IH _ _ _ _ _ _ _ _ E ltac:(lia)))
  | H : context [if ?b then _ else _] |- _ => destruct b; try discriminate
  | H : Some _ = Some _ |- _ => injection H as <- <- <- <-
  end; try lia.

Lemma skip_ws_ext ws : forall k p, p <= length toks -> p <= skip_ws toks k ws p <= length toks.
Proof.
  induction k as [|k IH]; intros p Hp; cbn [skip_ws]; [lia|].
  destruct (nth_error toks p) as [t|] eqn:E; [|lia]. apply nth_some_lt in E.
  destruct (memN t ws); [|lia]. specialize (IH (S p) E). lia.
Qed.

Theorem sem_ext : forall n, Ext (sem n).
Proof.
  induction n as [|n IH]; intros g ctx p a v p' e a' H Hp; [discriminate|].
  destruct g; cbn [Sem.sem] in H.
  - (* End *) destruct (nth_error toks p); [discriminate|]. injection H as <- <- <- <-. lia.
  - injection H as <- <- <- <-. lia.
  - (* Any *) unfold one_tok_sem in H. destruct (nth_error toks p) eqn:E; [|discriminate].
    apply nth_some_lt in E. injection H as <- <- <- <-. lia.
  - (* Just *) destruct (just_sem K toks spn ts p a) as [[p1|] a1] eqn:E; [|discriminate].
    injection H as <- <- <- <-. apply just_sem_ext in E. destruct E as [E|[_ ->]]; lia.
  - unfold one_tok_sem in H. destruct (nth_error toks p) eqn:E; [|discriminate].
    apply nth_some_lt in E. destruct (memN t ts); [|discriminate]. injection H as <- <- <- <-. lia.
  - unfold one_tok_sem in H. destruct (nth_error toks p) eqn:E; [|discriminate].
    apply nth_some_lt in E. destruct (memN t ts); [discriminate|]. injection H as <- <- <- <-. lia.
  - unfold one_tok_sem in H. destruct (nth_error toks p) eqn:E; [|discriminate].
    apply nth_some_lt in E. destruct (holds p0 (VTok t)); [|discriminate]. injection H as <- <- <- <-. lia.
  - (* Custom *) destruct (custom_sem toks ts p) as [[] p1] eqn:E; [|discriminate].
    injection H as <- <- <- <-. eapply custom_sem_ext; eauto.
  - ext_crush IH. - ext_crush IH. - ext_crush IH. - ext_crush IH. - ext_crush IH. - ext_crush IH.
  - (* Filter *) ext_crush IH.
  - (* TryMap *) ext_crush IH.
  - ext_crush IH.
  - (* Validate *) ext_crush IH.
  - (* Then *) ext_crush IH.
  - ext_crush IH.
  - ext_crush IH.
  - ext_crush IH.
  - ext_crush IH.
  - (* Group *) eapply group_sem_ext; eauto.
  - (* Or *) eapply choice_sem_ext; eauto.
  - destruct gs; [discriminate|]. eapply choice_sem_ext; eauto.
  - destruct gs; [discriminate|]. eapply choice_sem_ext; eauto.
  - (* OrNot *) ext_crush IH.
  - (* Not *) destruct (sem n g ctx p None) as [[[[[? ?] ?]|] ?]|]; try discriminate.
    injection H as <- <- <- <-. lia.
  - (* AndIs *) ext_crush IH.
  - (* Rewind *) ext_crush IH.
  - (* RepUnit *)
    destruct (sdrive toks spn (sem n) n i ctx (mk_iter i ctx) None [] [] p a) as [[[[[[its fl] p1] e1]|] a1]|] eqn:E; try discriminate.
    injection H as <- <- <- <-. eapply sdrive_ext; eauto.
  - destruct (sdrive toks spn (sem n) n i ctx (mk_iter i ctx) None [] [] p a) as [[[[[[its fl] p1] e1]|] a1]|] eqn:E; try discriminate.
    injection H as <- <- <- <-. eapply sdrive_ext; eauto.
  - assert (HB : match sdrive toks spn (sem n) (S n0) i ctx (mk_iter i ctx) (Some n0) [] [] p a with
                 | Some (Some (items, false, p1, e1), a1) => Some (Some (VList (rev (map sitem_val items)), p1, e1), a1)
                 | Some (Some (_, true, p1, _), a1) => Some (None, fail_at K toks spn a1 p1 [pSomethingElse])
                 | Some (None, a1) => Some (None, a1)
                 | None => None
                 end = Some (Some (v, p', e), a') -> p <= p' <= length toks).
    { clear H. intros H.
      destruct (sdrive toks spn (sem n) (S n0) i ctx (mk_iter i ctx) (Some n0) [] [] p a) as [[[[[[its fl] p1] e1]|] a1]|] eqn:E; try discriminate.
      destruct fl; [discriminate|]. injection H as <- <- <- <-. eapply sdrive_ext; eauto. }
    destruct n0; [destruct (it_eager i ctx); [eapply IH; eauto|]|]; exact (HB H).
  - (* Foldl *)
    destruct (sem n g ctx p a) as [[[[[v1 p1] e1]|] a1]|] eqn:E1; try discriminate. apply IH in E1; auto.
    destruct (sdrive toks spn (sem n) n i ctx (mk_iter i ctx) None [] [] p1 a1) as [[[[[[its fl] p2] e2]|] a2]|] eqn:E; try discriminate.
    injection H as <- <- <- <-. eapply sdrive_ext in E; eauto; lia.
  - (* Foldr *)
    destruct (sdrive toks spn (sem n) n i ctx (mk_iter i ctx) None [] [] p a) as [[[[[[its fl] p1] e1]|] a1]|] eqn:E; try discriminate.
    eapply sdrive_ext in E; eauto. ext_crush IH.
  - destruct (sem n g ctx p a) as [[[[[v1 p1] e1]|] a1]|] eqn:E1; try discriminate. apply IH in E1; auto.
    destruct (sdrive toks spn (sem n) n i ctx (mk_iter i ctx) None [] [] p1 a1) as [[[[[[its fl] p2] e2]|] a2]|] eqn:E; try discriminate.
    injection H as <- <- <- <-. eapply sdrive_ext in E; eauto; lia.
  - destruct (sdrive toks spn (sem n) n i ctx (mk_iter i ctx) None [] [] p a) as [[[[[[its fl] p1] e1]|] a1]|] eqn:E; try discriminate.
    eapply sdrive_ext in E; eauto. ext_crush IH.
  - (* RecoverVia *)
    destruct (sem n g1 ctx p a) as [[[[[v1 p1] e1]|] [a0|]]|] eqn:E1; try discriminate.
    + injection H as <- <- <- <-. eapply IH; eauto.
    + injection H as <- <- <- <-. eapply IH; eauto.
    + ext_crush IH.
  - (* RecoverSkipUntil *)
    destruct (sem n g1 ctx p a) as [[[[[v1 p1] e1]|] [a0|]]|] eqn:E1; try discriminate.
    + injection H as <- <- <- <-. eapply IH; eauto.
    + injection H as <- <- <- <-. eapply IH; eauto.
    + destruct (skip_until_sem (sem n) n g2 g3 ctx p None []) as [[[[p1 e1]|] a1]|] eqn:E; try discriminate.
      injection H as <- <- <- <-. eapply skip_until_ext; eauto.
  - destruct (sem n g1 ctx p a) as [[[[[v1 p1] e1]|] [a0|]]|] eqn:E1; try discriminate.
    + injection H as <- <- <- <-. eapply IH; eauto.
    + injection H as <- <- <- <-. eapply IH; eauto.
    + destruct (skip_retry_sem (sem n) n g1 g2 g3 ctx p None []) as [[[[[v1 p1] e1]|] a1]|] eqn:E; try discriminate.
      injection H as <- <- <- <-. eapply skip_retry_ext; eauto.
  - (* Labelled *)
    destruct (sem n g ctx p None) as [[[[[v1 p1] e1]|] a1]|] eqn:E1; try discriminate.
    injection H as <- <- <- <-. eapply IH; eauto.
  - (* MapErr *)
    destruct (sem n g ctx p None) as [[[[[v1 p1] e1]|] [[q e0]|]]|] eqn:E1; try discriminate;
      injection H as <- <- <- <-; eapply IH; eauto.
  - eapply IH; eauto.
  - ext_crush IH.
  - ext_crush IH.
  - eapply IH; eauto.
  - (* JustCfg *) destruct (just_sem K toks spn (val_toks (cval ctx)) p a) as [[p1|] a1] eqn:E; [|discriminate].
    injection H as <- <- <- <-. apply just_sem_ext in E. destruct E as [E|[_ ->]]; lia.
  - (* Memo *) ext_crush IH.
  - eapply IH; eauto.
  - destruct (nth_error (crec ctx) k); [eapply IH; eauto|discriminate].
  - (* Pratt *) eapply (proj1 (pratt_ext _ IH g ops ctx n)); eauto.
  - (* GroupArr *) eapply group_sem_ext; eauto.
  - discriminate.
  - (* WithState *) discriminate.
  - (* Skip *) injection H as <- <- <- <-. lia.
  - (* ExtWrap *)
    destruct (sem n g ctx p a) as [[[[[v1 p1] e1]|] [[q e0]|]]|] eqn:E1; try discriminate;
      injection H as <- <- <- <-; eapply IH; eauto.
  - (* Prog *)
    destruct (prog_sem toks spn ops p [] [] p) as [[[] acc] p1] eqn:E; [|discriminate].
    injection H as <- <- <- <-. eapply prog_sem_ext in E; [exact E | lia | constructor].
  - (* Padded *)
    pose proof (skip_ws_ext ws (length toks) p Hp) as X0.
    destruct (sem n g ctx (skip_ws toks (length toks) ws p) a) as [[[[[v1 p1] e1]|] a1]|] eqn:E1; try discriminate.
    injection H as <- <- <- <-. pose proof (IH _ _ _ _ _ _ _ _ E1 (proj2 X0)) as X1.
    pose proof (skip_ws_ext ws (length toks) p1 (proj2 X1)). lia.
Qed.

End Extent.
