(* Register equivariance ("shelter") theorem.  For grammars without recover_with and extension parsers (the only
   combinators that READ the pending-error register), what a parser does to the register is to merge its own
   failures into it:  running from register (join a r) gives the same outcome and the register (join a r').
   In particular (r = None): running on an empty register and merging the result back -- which is what try_map,
   labelled, map_err, memoized and nested_in do -- is the same as running on the register directly. *)
From Chum Require Export RegAlg Furthest.
From Coq Require Import Lia.

Section Shelter.
Variable K : ekind.
Variable toks : list tok.
Variable spn : nat -> nat -> span.
Notation sem := (Sem.sem K toks spn).
Notation ee := (Sem.ee K).
Notation ef := (Sem.ef K).
Notation join := (Sem.join K).
Notation fail_at := (Sem.fail_at K toks spn).

Definition Lift (run : srun_t) : Prop :=
  forall g ctx p r o r', norec g = true -> envok ctx -> wfr r -> run g ctx p r = Some (o, r') ->
    wfr r' /\ forall a, wfr a -> run g ctx p (join a r) = Some (o, join a r').

(* ---------- the register operations commute with a merge on the left ---------- *)
Lemma ee_is_join a p e : ee a p e = join a (Some (p, e)).
Proof. reflexivity. Qed.

Lemma ee_lift a r p e : wfr a -> wfr r -> ee (join a r) p e = join a (ee r p e).
Proof. intros Ha Hr. rewrite !ee_is_join. apply join_assoc; assumption. Qed.

Lemma ef_lift a r p exp f sp : wfr a -> wfr r -> ef (join a r) p exp f sp = join a (ef r p exp f sp).
Proof. intros Ha Hr. rewrite !ef_is_ee. apply ee_lift; assumption. Qed.

Lemma fail_at_lift a r p exp : wfr a -> wfr r -> fail_at (join a r) p exp = join a (fail_at r p exp).
Proof. intros Ha Hr. unfold Sem.fail_at. destruct (nth_error toks p); apply ef_lift; assumption. Qed.

Lemma ef_wfr a p exp f sp : wfr a -> wfr (ef a p exp f sp).
Proof. intros Ha. rewrite ef_is_ee. apply ee_wfr; [assumption | apply expected_found_wfe]. Qed.

Lemma fail_at_wfr a p exp : wfr a -> wfr (fail_at a p exp).
Proof. intros Ha. unfold Sem.fail_at. destruct (nth_error toks p); apply ef_wfr; assumption. Qed.

Lemma join_None_r a : join a None = a.
Proof. reflexivity. Qed.

Hint Resolve ee_wfr ef_wfr fail_at_wfr join_wfr expected_found_wfe custom_err_wfe label_with_wfe in_context_wfe map_err_fn_wfe : wf.

(* ---------- primitives ---------- *)
Lemma one_tok_sem_lift acc exp p r o r' :
  wfr r -> one_tok_sem K toks spn acc exp p r = (o, r') ->
  wfr r' /\ forall a, wfr a -> one_tok_sem K toks spn acc exp p (join a r) = (o, join a r').
Proof.
  unfold one_tok_sem. intros Hr H. destruct (nth_error toks p) as [t|].
  - destruct (acc t); injection H as <- <-; (split; [auto with wf|]); intros a Ha; rewrite ?ef_lift by assumption; reflexivity.
  - injection H as <- <-. split; [auto with wf|]. intros a Ha. now rewrite ef_lift.
Qed.

Lemma just_sem_lift ts : forall p r o r',
  wfr r -> just_sem K toks spn ts p r = (o, r') ->
  wfr r' /\ forall a, wfr a -> just_sem K toks spn ts p (join a r) = (o, join a r').
Proof.
  induction ts as [|t ts IH]; intros p r o r' Hr H; cbn in *.
  - injection H as <- <-. auto.
  - destruct (nth_error toks p) as [u|].
    + destruct (N.eqb t u); [eapply IH; eauto|].
      injection H as <- <-. split; [auto with wf|]. intros a Ha. now rewrite ef_lift.
    + injection H as <- <-. split; [auto with wf|]. intros a Ha. now rewrite ef_lift.
Qed.

(* ---------- loops ---------- *)
Section L.
Variable run : srun_t.
Hypothesis HL : Lift run.

(* use the hypothesis on a sub-run found in H *)
Ltac sub H Hn He Hr :=
  match type of H with
  | context [run ?g ?c ?p ?r] =>
      let E := fresh "E" in let W := fresh "W" in let Lf := fresh "Lf" in
      destruct (run g c p r) as [[? ?]|] eqn:E; try discriminate;
      destruct (HL _ _ _ _ _ _ Hn He Hr E) as (W & Lf)
  end.

Lemma choice_sem_lift : forall gs ctx p r o r', forallb norec gs = true -> envok ctx -> wfr r ->
  choice_sem run gs ctx p r = Some (o, r') ->
  wfr r' /\ forall a, wfr a -> choice_sem run gs ctx p (join a r) = Some (o, join a r').
Proof.
  induction gs as [|g gs IH]; intros ctx p r o r' Hn He Hr H; cbn in H, Hn.
  - injection H as <- <-. split; auto.
  - apply andb_prop in Hn. destruct Hn as (Hg & Hgs).
    destruct (run g ctx p r) as [[[x|] r1]|] eqn:E; try discriminate; destruct (HL _ _ _ _ _ _ Hg He Hr E) as (W & Lf).
    + injection H as <- <-. split; auto. intros a Ha. cbn. now rewrite (Lf a Ha).
    + destruct (IH _ _ _ _ _ Hgs He W H) as (W2 & L2). split; auto. intros a Ha. cbn. rewrite (Lf a Ha). auto.
Qed.

Lemma group_sem_lift : forall gs ctx p r accv acce o r', forallb norec gs = true -> envok ctx -> wfr r ->
  group_sem run gs ctx p r accv acce = Some (o, r') ->
  wfr r' /\ forall a, wfr a -> group_sem run gs ctx p (join a r) accv acce = Some (o, join a r').
Proof.
  induction gs as [|g gs IH]; intros ctx p r accv acce o r' Hn He Hr H; cbn in H, Hn.
  - injection H as <- <-. split; auto.
  - apply andb_prop in Hn. destruct Hn as (Hg & Hgs).
    destruct (run g ctx p r) as [[[[[v1 p1] e1]|] r1]|] eqn:E; try discriminate; destruct (HL _ _ _ _ _ _ Hg He Hr E) as (W & Lf).
    + destruct (IH _ _ _ _ _ _ _ Hgs He W H) as (W2 & L2). split; auto. intros a Ha. cbn. rewrite (Lf a Ha). auto.
    + injection H as <- <-. split; auto. intros a Ha. cbn. now rewrite (Lf a Ha).
Qed.

Definition LiftN {St} (f : reg -> option (snext * St * reg)) (r : reg) : Prop :=
  forall x c' r', wfr r -> f r = Some (x, c', r') -> wfr r' /\ forall a, wfr a -> f (join a r) = Some (x, c', join a r').

Lemma rep_snext_lift a lo hi ctx c p r : norec a = true -> envok ctx -> LiftN (rep_snext run a lo hi ctx c p) r.
Proof.
  unfold LiftN, rep_snext. intros Hn He x c' r' Hr H. destruct (at_cap c hi); [injection H as <- <- <-; auto|].
  destruct (run a ctx p r) as [[[[[v1 p1] e1]|] r1]|] eqn:E; try discriminate; destruct (HL _ _ _ _ _ _ Hn He Hr E) as (W & Lf).
  - injection H as <- <- <-. split; auto. intros b Hb. now rewrite (Lf b Hb).
  - destruct (lo <=? c); injection H as <- <- <-; (split; auto); intros b Hb; now rewrite (Lf b Hb).
Qed.

Lemma sep_sitem_lift a lo trail ctx c p ps es r : norec a = true -> envok ctx -> LiftN (sep_sitem run a lo trail ctx c p ps es) r.
Proof.
  unfold LiftN, sep_sitem. intros Hn He x c' r' Hr H.
  destruct (run a ctx ps r) as [[[[[v1 p1] e1]|] r1]|] eqn:E; try discriminate; destruct (HL _ _ _ _ _ _ Hn He Hr E) as (W & Lf).
  - injection H as <- <- <-. split; auto. intros b Hb. now rewrite (Lf b Hb).
  - destruct (c <? lo); [|destruct trail]; injection H as <- <- <-; (split; auto); intros b Hb; now rewrite (Lf b Hb).
Qed.

Lemma sep_snext_lift a sep lo hi lead trail ctx c p r : norec a = true -> norec sep = true -> envok ctx ->
  LiftN (sep_snext run a sep lo hi lead trail ctx c p) r.
Proof.
  unfold LiftN, sep_snext. intros Hn Hs He x c' r' Hr H. destruct (at_cap c hi); [injection H as <- <- <-; auto|].
  destruct ((c =? 0) && lead).
  - destruct (run sep ctx p r) as [[[[[v1 p1] e1]|] r1]|] eqn:E; try discriminate; destruct (HL _ _ _ _ _ _ Hs He Hr E) as (W & Lf);
      destruct (sep_sitem_lift a lo trail ctx c p _ _ r1 Hn He _ _ _ W H) as (W2 & L2); (split; auto); intros b Hb; rewrite (Lf b Hb); auto.
  - destruct (0 <? c).
    + destruct (run sep ctx p r) as [[[[[v1 p1] e1]|] r1]|] eqn:E; try discriminate; destruct (HL _ _ _ _ _ _ Hs He Hr E) as (W & Lf).
      * destruct (sep_sitem_lift a lo trail ctx c p _ _ r1 Hn He _ _ _ W H) as (W2 & L2). split; auto. intros b Hb. rewrite (Lf b Hb). auto.
      * destruct (c <? lo); injection H as <- <- <-; (split; auto); intros b Hb; now rewrite (Lf b Hb).
    + exact (sep_sitem_lift a lo trail ctx c p p [] r Hn He _ _ _ Hr H).
Qed.

Lemma it_snext_lift : forall i ctx its p r, norec_it i = true -> envok ctx -> LiftN (it_snext toks spn run i ctx its p) r.
Proof.
  induction i as [a lo hi|a sep lo hi lead trail|j IHj|f j IHj|f j IHj|a|a lo hi ck|a|i1 IHi1 i2 IHi2];
    intros ctx its p r Hn He x its' r' Hr H; cbn [it_snext] in H |- *; cbn [norec_it] in Hn.
  - destruct its; try discriminate.
    destruct (rep_snext run a lo hi ctx n p r) as [[[x0 c'] r0]|] eqn:E; [|discriminate]. injection H as <- <- <-.
    destruct (rep_snext_lift a lo hi ctx n p r Hn He _ _ _ Hr E) as (W & Lf). split; auto. intros b Hb. now rewrite (Lf b Hb).
  - destruct its; try discriminate. apply andb_prop in Hn. destruct Hn as (Hna & Hns).
    destruct (sep_snext run a sep lo hi lead trail ctx n p r) as [[[x0 c'] r0]|] eqn:E; [|discriminate]. injection H as <- <- <-.
    destruct (sep_snext_lift a sep lo hi lead trail ctx n p r Hna Hns He _ _ _ Hr E) as (W & Lf). split; auto. intros b Hb. now rewrite (Lf b Hb).
  - destruct its; try discriminate.
    destruct (it_snext toks spn run j ctx its p r) as [[[x0 c'] r0]|] eqn:E; [|discriminate].
    destruct (IHj ctx its p r Hn He _ _ _ Hr E) as (W & Lf).
    destruct x0; injection H as <- <- <-; (split; auto); intros b Hb; now rewrite (Lf b Hb).
  - destruct (it_snext toks spn run j ctx its p r) as [[[x0 c'] r0]|] eqn:E; [|discriminate].
    destruct (IHj ctx its p r Hn He _ _ _ Hr E) as (W & Lf).
    destruct x0; injection H as <- <- <-; (split; auto); intros b Hb; now rewrite (Lf b Hb).
  - destruct (it_snext toks spn run j ctx its p r) as [[[x0 c'] r0]|] eqn:E; [|discriminate].
    destruct (IHj ctx its p r Hn He _ _ _ Hr E) as (W & Lf).
    destruct x0; injection H as <- <- <-; (split; auto); intros b Hb; now rewrite (Lf b Hb).
  - destruct its; try discriminate. destruct b; [injection H as <- <- <-; auto|].
    destruct (run a ctx p r) as [[[[[v1 p1] e1]|] r1]|] eqn:E; try discriminate; destruct (HL _ _ _ _ _ _ Hn He Hr E) as (W & Lf);
      injection H as <- <- <-; (split; auto); intros b Hb; now rewrite (Lf b Hb).
  - destruct its as [c|k js|b|c clo chi|k|o|sa sb]; try discriminate.
    + destruct (rep_snext run a clo chi ctx c p r) as [[[x0 c'] r0]|] eqn:E; [|discriminate]. injection H as <- <- <-.
      destruct (rep_snext_lift a clo chi ctx c p r Hn He _ _ _ Hr E) as (W & Lf). split; auto. intros b Hb. now rewrite (Lf b Hb).
    + destruct (run (TryMap PFalse FId k Empty) ctx p r) as [[[?|] r1]|] eqn:E; try discriminate.
      destruct (HL _ _ _ _ _ _ (eq_refl : norec (TryMap PFalse FId k Empty) = true) He Hr E) as (W & Lf).
      injection H as <- <- <-. split; auto. intros b Hb. now rewrite (Lf b Hb).
  - destruct its as [| | | | |[l|]|]; try discriminate.
    + destruct l; injection H as <- <- <-; auto.
    + destruct (run a ctx p r) as [[[[[v1 p1] e1]|] r1]|] eqn:E; try discriminate; destruct (HL _ _ _ _ _ _ Hn He Hr E) as (W & Lf).
      * destruct (val_items v1) eqn:Ev; injection H as <- <- <-; (split; auto); intros b Hb; rewrite (Lf b Hb), ?Ev; reflexivity.
      * injection H as <- <- <-. split; auto. intros b Hb. now rewrite (Lf b Hb).
  - apply andb_prop in Hn. destruct Hn as (Hn1 & Hn2).
    destruct its as [| | | | | |sa [sb|]]; try discriminate.
    + destruct (it_snext toks spn run i2 ctx sb p r) as [[[x0 c'] r0]|] eqn:E; [|discriminate].
      destruct (IHi2 ctx sb p r Hn2 He _ _ _ Hr E) as (W & Lf). injection H as <- <- <-. split; auto.
      intros b Hb. now rewrite (Lf b Hb).
    + destruct (it_snext toks spn run i1 ctx sa p r) as [[[x0 c'] r0]|] eqn:E; [|discriminate].
      destruct (IHi1 ctx sa p r Hn1 He _ _ _ Hr E) as (W & Lf).
      destruct x0; try (injection H as <- <- <-; (split; auto); intros b Hb; now rewrite (Lf b Hb)).
      destruct (it_snext toks spn run i2 ctx (mk_iter i2 ctx) p0 r0) as [[[x1 c1] r1]|] eqn:E2; [|discriminate].
      destruct (IHi2 ctx (mk_iter i2 ctx) p0 r0 Hn2 He _ _ _ W E2) as (W2 & L2).
      destruct x1; injection H as <- <- <-; (split; auto); intros b Hb; rewrite (Lf b Hb), (L2 b Hb); reflexivity.
Qed.

Lemma sdrive_lift : forall fuel i ctx its lim acc acce p r o r', norec_it i = true -> envok ctx -> wfr r ->
  sdrive toks spn run fuel i ctx its lim acc acce p r = Some (o, r') ->
  wfr r' /\ forall a, wfr a -> sdrive toks spn run fuel i ctx its lim acc acce p (join a r) = Some (o, join a r').
Proof.
  induction fuel as [|fuel IH]; intros i ctx its lim acc acce p r o r' Hn He Hr H; [discriminate|]. cbn [sdrive] in H |- *.
  assert (Hgo : match it_snext toks spn run i ctx its p r with
        | Some (SSome v p1 e1, its', r1) =>
            sdrive toks spn run fuel i ctx its' (option_map Nat.pred lim) ((v, p, p1) :: acc) (acce ++ e1) p1 r1
        | Some (SNone p1 e1, _, r1) => Some (Some (acc, true, p1, acce ++ e1), r1)
        | Some (SErr, _, r1) => Some (None, r1)
        | None => None
        end = Some (o, r') ->
        wfr r' /\ forall a, wfr a ->
        match it_snext toks spn run i ctx its p (join a r) with
        | Some (SSome v p1 e1, its', r1) =>
            sdrive toks spn run fuel i ctx its' (option_map Nat.pred lim) ((v, p, p1) :: acc) (acce ++ e1) p1 r1
        | Some (SNone p1 e1, _, r1) => Some (Some (acc, true, p1, acce ++ e1), r1)
        | Some (SErr, _, r1) => Some (None, r1)
        | None => None
        end = Some (o, join a r')).
  { intros H0. destruct (it_snext toks spn run i ctx its p r) as [[[x0 its'] r1]|] eqn:E; [|discriminate].
    destruct (it_snext_lift i ctx its p r Hn He _ _ _ Hr E) as (W & Lf).
    destruct x0.
    - injection H0 as <- <-. split; auto. intros a Ha. now rewrite (Lf a Ha).
    - destruct (IH _ _ _ _ _ _ _ _ _ _ Hn He W H0) as (W2 & L2). split; auto. intros a Ha. rewrite (Lf a Ha). auto.
    - injection H0 as <- <-. split; auto. intros a Ha. now rewrite (Lf a Ha). }
  destruct lim as [[|l]|]; auto. injection H as <- <-. auto.
Qed.

(* ---------- Pratt ---------- *)
Definition lift_sp (a : reg) (x : spresult) : spresult :=
  match x with
  | SDone (Some (o, r)) => SDone (Some (o, join a r))
  | SDone None => SDone None
  | SNext r => SNext (join a r)
  end.
Definition wf_sp (x : spresult) : Prop :=
  match x with SDone (Some (_, r)) => wfr r | SDone None => True | SNext r => wfr r end.

Section P.
Variable rec : nat -> nat -> reg -> option sres.
Hypothesis HR : forall m p r o r', wfr r -> rec m p r = Some (o, r') ->
  wfr r' /\ forall a, wfr a -> rec m p (join a r) = Some (o, join a r').

Lemma pratt_sprefix_lift : forall ops ctx start r, forallb norec_op ops = true -> envok ctx -> wfr r ->
  pratt_sprefix spn run rec ops ctx start r <> SDone None ->
  wf_sp (pratt_sprefix spn run rec ops ctx start r) /\
  forall a, wfr a -> pratt_sprefix spn run rec ops ctx start (join a r) = lift_sp a (pratt_sprefix spn run rec ops ctx start r).
Proof.
  induction ops as [|o ops IH]; intros ctx start r Hn He Hr Hx; cbn [pratt_sprefix] in *; [split; auto|].
  cbn [forallb] in Hn. apply andb_prop in Hn. destruct Hn as (Ho & Hops).
  destruct o as [ra bp og k|bp og k|bp og k]; cbn [norec_op] in Ho; auto.
  destruct (run og ctx start r) as [[[[[vop p1] e1]|] r1]|] eqn:E; [| |congruence]; destruct (HL _ _ _ _ _ _ Ho He Hr E) as (W & Lf).
  - destruct (rec (2 * bp) p1 r1) as [[[[[vr p2] e2]|] r2]|] eqn:E2; [| |congruence]; destruct (HR _ _ _ _ _ W E2) as (W2 & L2).
    + split; [exact W2|]. intros a Ha. rewrite (Lf a Ha), (L2 a Ha). reflexivity.
    + destruct (IH ctx start r2 Hops He W2 Hx) as (W3 & L3). split; auto. intros a Ha. rewrite (Lf a Ha), (L2 a Ha). auto.
  - destruct (IH ctx start r1 Hops He W Hx) as (W3 & L3). split; auto. intros a Ha. rewrite (Lf a Ha). auto.
Qed.

Lemma pratt_spostfix_lift : forall ops ctx minp start lhs p r, forallb norec_op ops = true -> envok ctx -> wfr r ->
  pratt_spostfix spn run ops ctx minp start lhs p r <> SDone None ->
  wf_sp (pratt_spostfix spn run ops ctx minp start lhs p r) /\
  forall a, wfr a -> pratt_spostfix spn run ops ctx minp start lhs p (join a r) = lift_sp a (pratt_spostfix spn run ops ctx minp start lhs p r).
Proof.
  induction ops as [|o ops IH]; intros ctx minp start lhs p r Hn He Hr Hx; cbn [pratt_spostfix] in *; [split; auto|].
  cbn [forallb] in Hn. apply andb_prop in Hn. destruct Hn as (Ho & Hops).
  destruct o as [ra bp og k|bp og k|bp og k]; cbn [norec_op] in Ho; auto.
  destruct (minp <=? 2 * bp + 1); auto.
  destruct (run og ctx p r) as [[[[[vop p1] e1]|] r1]|] eqn:E; [| |congruence]; destruct (HL _ _ _ _ _ _ Ho He Hr E) as (W & Lf).
  - split; [exact W|]. intros a Ha. rewrite (Lf a Ha). reflexivity.
  - destruct (IH ctx minp start lhs p r1 Hops He W Hx) as (W3 & L3). split; auto. intros a Ha. rewrite (Lf a Ha). auto.
Qed.

Lemma pratt_sinfix_lift : forall ops ctx minp start lhs p r, forallb norec_op ops = true -> envok ctx -> wfr r ->
  pratt_sinfix spn run rec ops ctx minp start lhs p r <> SDone None ->
  wf_sp (pratt_sinfix spn run rec ops ctx minp start lhs p r) /\
  forall a, wfr a -> pratt_sinfix spn run rec ops ctx minp start lhs p (join a r) = lift_sp a (pratt_sinfix spn run rec ops ctx minp start lhs p r).
Proof.
  induction ops as [|o ops IH]; intros ctx minp start lhs p r Hn He Hr Hx; cbn [pratt_sinfix] in *; [split; auto|].
  cbn [forallb] in Hn. apply andb_prop in Hn. destruct Hn as (Ho & Hops).
  destruct o as [ra bp og k|bp og k|bp og k]; cbn [norec_op] in Ho; auto.
  destruct (minp <=? lpow ra bp); auto.
  destruct (run og ctx p r) as [[[[[vop p1] e1]|] r1]|] eqn:E; [| |congruence]; destruct (HL _ _ _ _ _ _ Ho He Hr E) as (W & Lf).
  - destruct (rec (rpow ra bp) p1 r1) as [[[[[vr p2] e2]|] r2]|] eqn:E2; [| |congruence]; destruct (HR _ _ _ _ _ W E2) as (W2 & L2).
    + split; [exact W2|]. intros a Ha. rewrite (Lf a Ha), (L2 a Ha). reflexivity.
    + destruct (IH ctx minp start lhs p r2 Hops He W2 Hx) as (W3 & L3). split; auto. intros a Ha. rewrite (Lf a Ha), (L2 a Ha). auto.
  - destruct (IH ctx minp start lhs p r1 Hops He W Hx) as (W3 & L3). split; auto. intros a Ha. rewrite (Lf a Ha). auto.
Qed.
End P.

Lemma psem_S' f atom ops ctx minp p a :
  pratt_sem spn run (S f) atom ops ctx minp p a =
    match pratt_sprefix spn run (pratt_sem spn run f atom ops ctx) ops ctx p a with
    | SDone (Some (Some (v, p1, e1), a1)) => pratt_sloop spn run f atom ops ctx minp p v e1 p1 a1
    | SDone x => x
    | SNext a1 =>
        match run atom ctx p a1 with
        | Some (Some (v, p1, e1), a2) => pratt_sloop spn run f atom ops ctx minp p v e1 p1 a2
        | x => x
        end
    end.
Proof. reflexivity. Qed.

Lemma psloop_S' f atom ops ctx minp start lhs acce p a :
  pratt_sloop spn run (S f) atom ops ctx minp start lhs acce p a =
    match pratt_spostfix spn run ops ctx minp start lhs p a with
    | SDone (Some (Some (v, p1, e1), a1)) => pratt_sloop spn run f atom ops ctx minp start v (acce ++ e1) p1 a1
    | SDone x => x
    | SNext a1 =>
        match pratt_sinfix spn run (pratt_sem spn run f atom ops ctx) ops ctx minp start lhs p a1 with
        | SDone (Some (Some (v, p1, e1), a2)) => pratt_sloop spn run f atom ops ctx minp start v (acce ++ e1) p1 a2
        | SDone x => x
        | SNext a2 => Some (Some (lhs, p, acce), a2)
        end
    end.
Proof. reflexivity. Qed.

Lemma pratt_lift atom ops ctx : norec atom = true -> forallb norec_op ops = true -> envok ctx -> forall fuel,
  (forall minp p r o r', wfr r -> pratt_sem spn run fuel atom ops ctx minp p r = Some (o, r') ->
     wfr r' /\ forall a, wfr a -> pratt_sem spn run fuel atom ops ctx minp p (join a r) = Some (o, join a r'))
  /\ (forall minp start lhs acce p r o r', wfr r -> pratt_sloop spn run fuel atom ops ctx minp start lhs acce p r = Some (o, r') ->
     wfr r' /\ forall a, wfr a -> pratt_sloop spn run fuel atom ops ctx minp start lhs acce p (join a r) = Some (o, join a r')).
Proof.
  intros Ha Ho He. induction fuel as [|f [IHs IHl]]; [split; intros; discriminate|].
  assert (Hrec : forall m p r o r', wfr r -> pratt_sem spn run f atom ops ctx m p r = Some (o, r') ->
            wfr r' /\ forall a, wfr a -> pratt_sem spn run f atom ops ctx m p (join a r) = Some (o, join a r')) by (intros; eapply IHs; eauto).
  split.
  - intros minp p r o r' Hr H. rewrite psem_S' in H.
    assert (Hx : pratt_sprefix spn run (pratt_sem spn run f atom ops ctx) ops ctx p r <> SDone None)
      by (intros C; rewrite C in H; discriminate).
    destruct (pratt_sprefix_lift _ Hrec ops ctx p r Ho He Hr Hx) as (W & Lf).
    destruct (pratt_sprefix spn run (pratt_sem spn run f atom ops ctx) ops ctx p r) as [[[ox r1]|]|r1] eqn:EP; [| congruence |]; cbn [wf_sp lift_sp] in W, Lf.
    + destruct ox as [[[v p1] e1]|].
      * destruct (IHl _ _ _ _ _ _ _ _ W H) as (W2 & L2). split; auto. intros a Hwa. rewrite psem_S', (Lf a Hwa). auto.
      * injection H as <- <-. split; auto. intros a Hwa. rewrite psem_S', (Lf a Hwa). reflexivity.
    + destruct (run atom ctx p r1) as [[[[[v p1] e1]|] r2]|] eqn:E; try discriminate; destruct (HL _ _ _ _ _ _ Ha He W E) as (W2 & L2).
      * destruct (IHl _ _ _ _ _ _ _ _ W2 H) as (W3 & L3). split; auto. intros a Hwa. rewrite psem_S', (Lf a Hwa), (L2 a Hwa). auto.
      * injection H as <- <-. split; auto. intros a Hwa. rewrite psem_S', (Lf a Hwa), (L2 a Hwa). reflexivity.
  - intros minp start lhs acce p r o r' Hr H. rewrite psloop_S' in H.
    assert (Hx : pratt_spostfix spn run ops ctx minp start lhs p r <> SDone None) by (intros C; rewrite C in H; discriminate).
    destruct (pratt_spostfix_lift ops ctx minp start lhs p r Ho He Hr Hx) as (W & Lf).
    destruct (pratt_spostfix spn run ops ctx minp start lhs p r) as [[[ox r1]|]|r1] eqn:EP; [| congruence |]; cbn [wf_sp lift_sp] in W, Lf.
    + destruct ox as [[[v p1] e1]|].
      * destruct (IHl _ _ _ _ _ _ _ _ W H) as (W2 & L2). split; auto. intros a Hwa. rewrite psloop_S', (Lf a Hwa). auto.
      * injection H as <- <-. split; auto. intros a Hwa. rewrite psloop_S', (Lf a Hwa). reflexivity.
    + assert (Hy : pratt_sinfix spn run (pratt_sem spn run f atom ops ctx) ops ctx minp start lhs p r1 <> SDone None)
        by (intros C; rewrite C in H; discriminate).
      destruct (pratt_sinfix_lift _ Hrec ops ctx minp start lhs p r1 Ho He W Hy) as (W2 & L2).
      destruct (pratt_sinfix spn run (pratt_sem spn run f atom ops ctx) ops ctx minp start lhs p r1) as [[[ox r2]|]|r2] eqn:EI; [| congruence |]; cbn [wf_sp lift_sp] in W2, L2.
      * destruct ox as [[[v p1] e1]|].
        -- destruct (IHl _ _ _ _ _ _ _ _ W2 H) as (W3 & L3). split; auto. intros a Hwa. rewrite psloop_S', (Lf a Hwa), (L2 a Hwa). auto.
        -- injection H as <- <-. split; auto. intros a Hwa. rewrite psloop_S', (Lf a Hwa), (L2 a Hwa). reflexivity.
      * injection H as <- <-. split; auto. intros a Hwa. rewrite psloop_S', (Lf a Hwa), (L2 a Hwa). reflexivity.
Qed.
End L.

(* ---------- the specification ---------- *)
Lemma envok_with ctx v : envok ctx -> envok (with_ctx ctx v).
Proof. exact (fun H => H). Qed.
Hint Resolve envok_with : wf.

Ltac hn Hn := cbn [norec] in Hn; repeat match goal with Hx : (_ && _)%bool = true |- _ => apply andb_prop in Hx; destruct Hx end.

Ltac stepL IH H :=
  match type of H with
  | context [Sem.sem K toks spn ?n ?x ?c ?p ?r] =>
      let E := fresh "E" in let W := fresh "W" in let Lf := fresh "Lf" in
      destruct (Sem.sem K toks spn n x c p r) as [[? ?]|] eqn:E; try discriminate;
      destruct (IH x c p r _ _ ltac:(assumption) ltac:(auto with wf) ltac:(cbn; auto with wf) E) as (W & Lf)
  end.

Ltac stepD IH H :=
  match type of H with
  | context [sdrive toks spn (Sem.sem K toks spn ?n) ?f ?i ?c ?st ?lim ?acc ?acce ?p ?r] =>
      let E := fresh "E" in let W := fresh "W" in let Lf := fresh "Lf" in
      destruct (sdrive toks spn (Sem.sem K toks spn n) f i c st lim acc acce p r) as [[? ?]|] eqn:E; try discriminate;
      destruct (sdrive_lift _ IH f i c st lim acc acce p r _ _ ltac:(assumption) ltac:(auto with wf) ltac:(cbn; auto with wf) E) as (W & Lf)
  end.

Ltac fin a Ha :=
  cbn [Sem.sem];
  repeat match goal with
         | L : forall b, wfr b -> _ = _ |- _ => rewrite (L a Ha)
         | E : Sem.sem _ _ _ _ _ _ _ None = _ |- _ => rewrite E
         end;
  rewrite ?ef_lift, ?ee_lift, ?fail_at_lift, ?join_assoc by auto with wf;
  repeat match goal with Eb : ?b = _ |- context [if ?b then _ else _] => rewrite Eb end;
  try reflexivity.

Theorem sem_lift : forall n, Lift (sem n).
Proof.
  induction n as [|n IH]; intros g ctx p r o r' Hn He Hr H; [discriminate|].
  destruct g; cbn [Sem.sem] in H; hn Hn.
  all: try (solve [ repeat (stepL IH H; try match goal with o : option sok |- _ => destruct o as [[[? ?] ?]|] end);
                    repeat match type of H with context [if ?b then _ else _] => destruct b eqn:? end;
                    injection H as <- <-; (split; [auto with wf|]); intros a Ha; fin a Ha ]).
  - (* End *) destruct (nth_error toks p) eqn:Et; injection H as <- <-; (split; [auto with wf|]); intros a Ha; cbn [Sem.sem];
      rewrite Et, ?ef_lift by auto with wf; reflexivity.
  - (* Any *) destruct (one_tok_sem K toks spn (fun t => Some (VTok t)) [pAny] p r) as [o1 r1] eqn:E. injection H as <- <-.
    destruct (one_tok_sem_lift _ _ _ _ _ _ Hr E) as (W & Lf). split; auto. intros a Ha. cbn [Sem.sem]. now rewrite (Lf a Ha).
  - (* Just *) destruct (just_sem K toks spn ts p r) as [[p1|] r1] eqn:E; injection H as <- <-;
      destruct (just_sem_lift _ _ _ _ _ Hr E) as (W & Lf); (split; auto); intros a Ha; cbn [Sem.sem]; now rewrite (Lf a Ha).
  - (* OneOf *) match type of H with Some ?X = _ => destruct X as [o1 r1] eqn:E end. injection H as <- <-.
    destruct (one_tok_sem_lift _ _ _ _ _ _ Hr E) as (W & Lf). split; auto. intros a Ha. cbn [Sem.sem]. now rewrite (Lf a Ha).
  - (* NoneOf *) match type of H with Some ?X = _ => destruct X as [o1 r1] eqn:E end. injection H as <- <-.
    destruct (one_tok_sem_lift _ _ _ _ _ _ Hr E) as (W & Lf). split; auto. intros a Ha. cbn [Sem.sem]. now rewrite (Lf a Ha).
  - (* Select *) match type of H with Some ?X = _ => destruct X as [o1 r1] eqn:E end. injection H as <- <-.
    destruct (one_tok_sem_lift _ _ _ _ _ _ Hr E) as (W & Lf). split; auto. intros a Ha. cbn [Sem.sem]. now rewrite (Lf a Ha).
  - (* Custom *) destruct (custom_sem toks ts p) as [[] p1] eqn:E; injection H as <- <-; (split; [auto with wf|]); intros a Ha;
      cbn [Sem.sem]; rewrite E, ?ee_lift by auto with wf; reflexivity.
  - (* Group *) exact (group_sem_lift _ IH gs ctx p r [] [] o r' Hn He Hr H).
  - (* Or *) refine (choice_sem_lift _ IH [g1; g2] ctx p r o r' _ He Hr H). cbn. now rewrite H0, H1.
  - (* Choice *) destruct gs as [|g0 gs]; [|exact (choice_sem_lift _ IH (g0 :: gs) ctx p r o r' Hn He Hr H)].
    injection H as <- <-. split; [auto with wf|]. intros a Ha. fin a Ha.
  - (* ChoiceVec *) destruct gs as [|g0 gs]; [|exact (choice_sem_lift _ IH (g0 :: gs) ctx p r o r' Hn He Hr H)].
    injection H as <- <-. split; [auto with wf|]. intros a Ha. fin a Ha.
  - (* Not *) stepL IH H. destruct o0 as [[[v p1] e1]|]; injection H as <- <-.
    + destruct (nth_error toks p) eqn:Et; (split; [auto with wf|]); intros a Ha; fin a Ha; rewrite Et, ?ef_lift by auto with wf; reflexivity.
    + split; auto. intros a Ha. fin a Ha.
  - (* RepUnit *)
    destruct (sdrive toks spn (sem n) n i ctx (mk_iter i ctx) None [] [] p r) as [[ox r1]|] eqn:E; [|discriminate].
    destruct (sdrive_lift _ IH _ _ _ _ _ _ _ _ _ _ _ Hn He Hr E) as (W & Lf).
    destruct ox as [[[[its fl] p1] e1]|]; injection H as <- <-; (split; auto); intros a Ha; cbn [Sem.sem]; now rewrite (Lf a Ha).
  - (* Collect *)
    destruct (sdrive toks spn (sem n) n i ctx (mk_iter i ctx) None [] [] p r) as [[ox r1]|] eqn:E; [|discriminate].
    destruct (sdrive_lift _ IH _ _ _ _ _ _ _ _ _ _ _ Hn He Hr E) as (W & Lf).
    destruct ox as [[[[its fl] p1] e1]|]; injection H as <- <-; (split; auto); intros a Ha; cbn [Sem.sem]; now rewrite (Lf a Ha).
  - (* CollectExactly *)
    destruct n0 as [|k0]; [destruct (it_eager i ctx) as [e0|] eqn:Ef|].
    { destruct (IH _ _ _ _ _ _ (it_eager_norec _ _ _ Hn Ef) He Hr H) as (W & Lf). split; auto.
      intros a Ha. cbn [Sem.sem]. rewrite Ef. exact (Lf a Ha). }
    all: match type of H with context [sdrive ?tk ?sp ?rn ?f ?i0 ?c0 ?st ?lim [] [] ?p0 ?r0] =>
      destruct (sdrive tk sp rn f i0 c0 st lim [] [] p0 r0) as [[ox r1]|] eqn:E; [|discriminate] end;
      destruct (sdrive_lift _ IH _ _ _ _ _ _ _ _ _ _ _ Hn He Hr E) as (W & Lf);
      destruct ox as [[[[its fl] p1] e1]|]; [destruct fl|]; injection H as <- <-; (split; [auto with wf|]); intros a Ha;
      cbn [Sem.sem]; rewrite ?Ef, (Lf a Ha), ?fail_at_lift by auto with wf; reflexivity.
  - (* Foldl *) stepL IH H. destruct o0 as [[[v p1] e1]|]; [|injection H as <- <-; (split; auto); intros a Ha; fin a Ha].
    stepD IH H. destruct o0 as [[[[its fl] p2] e2]|]; injection H as <- <-; (split; auto); intros a Ha; fin a Ha.
  - (* Foldr *) stepD IH H. destruct o0 as [[[[its fl] p1] e1]|]; [|injection H as <- <-; (split; auto); intros a Ha; fin a Ha].
    stepL IH H. destruct o0 as [[[v p2] e2]|]; injection H as <- <-; (split; auto); intros a Ha; fin a Ha.
  - (* FoldlWith *) stepL IH H. destruct o0 as [[[v p1] e1]|]; [|injection H as <- <-; (split; auto); intros a Ha; fin a Ha].
    stepD IH H. destruct o0 as [[[[its fl] p2] e2]|]; injection H as <- <-; (split; auto); intros a Ha; fin a Ha.
  - (* FoldrWith *) stepD IH H. destruct o0 as [[[[its fl] p1] e1]|]; [|injection H as <- <-; (split; auto); intros a Ha; fin a Ha].
    stepL IH H. destruct o0 as [[[v p2] e2]|]; injection H as <- <-; (split; auto); intros a Ha; fin a Ha.
  - (* Labelled *) stepL IH H. injection H as <- <-. destruct r0 as [[q e]|].
    + split.
      * apply ee_wfr; auto. cbn in W. destruct (q =? p); [auto with wf|]. destruct (is_ctx && (p <? q)); auto with wf.
      * intros a Ha. fin a Ha.
    + split; auto. intros a Ha. fin a Ha.
  - (* MapErr *) stepL IH H. destruct o0 as [x|].
    + injection H as <- <-. split; [auto with wf|]. intros a Ha. fin a Ha.
    + destruct r0 as [[q e]|]; [|discriminate]. injection H as <- <-. split; [auto with wf|]. intros a Ha. fin a Ha.
  - (* JustCfg *) destruct (just_sem K toks spn (val_toks (cval ctx)) p r) as [[p1|] r1] eqn:E; injection H as <- <-;
      destruct (just_sem_lift _ _ _ _ _ Hr E) as (W & Lf); (split; auto); intros a Ha; cbn [Sem.sem]; now rewrite (Lf a Ha).
  - (* Rec *) refine (IH _ _ _ _ _ _ Hn _ Hr H). unfold envok in *. cbn. rewrite Hn. exact He.
  - (* Var *) destruct (nth_error (crec ctx) k) as [x|] eqn:Ek; [|discriminate].
    destruct (envok_nth _ _ _ He Ek) as (Hx & Hex). destruct (IH _ _ _ _ _ _ Hx Hex Hr H) as (W & Lf). split; auto.
    intros a Ha. cbn [Sem.sem]. rewrite Ek. auto.
  - (* Pratt *) exact (proj1 (pratt_lift _ IH g ops ctx H0 H1 He n) _ _ _ _ _ Hr H).
  - (* GroupArr *) exact (group_sem_lift _ IH gs ctx p r [] [] o r' Hn He Hr H).
  - (* NestedIn *) discriminate.
  - (* WithState *) discriminate.
  - (* Prog *) destruct (prog_sem toks spn ops p [] [] p) as [[[] acc] p1] eqn:E; injection H as <- <-; (split; [auto with wf|]); intros a Ha;
      cbn [Sem.sem]; rewrite E, ?ee_lift by auto with wf; reflexivity.
Qed.

(* the shelter corollary: running on an empty register and merging the result back is running on the register *)
Corollary shelter_eq n g ctx p a o new : norec g = true -> envok ctx -> wfr a ->
  sem n g ctx p None = Some (o, new) -> sem n g ctx p a = Some (o, join a new).
Proof. intros Hn He Ha H. exact (proj2 (sem_lift n g ctx p None o new Hn He I H) a Ha). Qed.

(* hence memoized() - in the specification: its parser run on an empty register, the result merged back - is the identity
   on parsers without recover_with / extension parsers, wherever the parser answers *)
Corollary sem_memo_identity n id g ctx p a o new : norec g = true -> envok ctx -> wfr a ->
  sem n g ctx p None = Some (o, new) -> sem (S n) (Memo id g) ctx p a = sem n g ctx p a.
Proof. intros Hn He Ha H. cbn [Sem.sem]. rewrite H. symmetry. now apply shelter_eq. Qed.
End Shelter.
Print Assumptions sem_lift.
