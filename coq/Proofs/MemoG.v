(* C11, the global induction: the machine WITH memo tables refines the specification, for the PEG core.

   [Q_strict] is the table-using machine with the proof device [memo_strict] on: a visit that finds its own entry in
   progress (left recursion) - or a cached failure without an error, which the code cannot tell from it - returns
   [Panic PLeftRec] instead of the cut-off failure, and a hit with less fuel than the cached run had returns [OutOfFuel].
   The theorem is about the runs of that machine that return [Ok] or [Err]: the non-left-recursive runs.

   Class ([wfm]): the PEG core - primitives, output shaping, sequencing, ordered choice (or / choice / choice over a
   vector), group, option, lookahead, filter / try_map / validate, labels and map_err, padded, extension parsers,
   recursion, memoized() anywhere and nested at will - in which (a) nothing changes the context (finding F18 is the failure
   of the theorem beyond that) and (b) every memoized() has its own id: [mt] maps an id to the memoized parser and the
   recursive definitions it was built under.  Iteration, recovery and Pratt tables are outside the class of THIS theorem
   (for them the memoization step is proved in MemoP.v and the whole is compared case by case). *)
From Chum Require Export Refine Mono Total.

Definition Q_strict : quirks := mkQ false false false false false false false false true true None.

Section WF.
Variable mt : nat -> option (G * list G).

(* the grammar g, built under the recursive definitions E, is in the class *)
Fixpoint wfm (g : G) (E : list G) {struct g} : Prop :=
  match g with
  | End | Empty | Any | Just _ | OneOf _ | NoneOf _ | Select _ _ | Custom _ _ | JustCfg _ | Skip _ | Prog _ _ => True
  | Var k => True
  | Map _ a | MapWith _ a | To _ a | Ignored a | ToSpan a | ToSlice a | Filter _ a | TryMap _ _ _ a
  | TryMapWith _ _ _ a | Validate _ _ a | OrNot a | Not a | Rewind a | Labelled _ _ a | MapErr _ a
  | Padded _ a | ExtWrap a => wfm a E
  | Memo id a => mt id = Some (a, E) /\ wfm a E
  | Rec a => wfm a (a :: E)
  | Then a b | IgnoreThen a b | ThenIgnore a b | PaddedBy a b | Or a b | AndIs a b | RecoverVia a b => wfm a E /\ wfm b E
  | DelimitedBy a b c | RecoverSkipRetry a b c | RecoverSkipUntil a b c _ => wfm a E /\ wfm b E /\ wfm c E
  | Group gs | Choice gs | ChoiceVec gs | GroupArr gs =>
      (fix all (l : list G) : Prop := match l with [] => True | x :: r => wfm x E /\ all r end) gs
  | RepUnit i | Collect _ i | CollectExactly _ i => wfm_it i E
  | Foldl a i _ | FoldlWith a i _ => wfm a E /\ wfm_it i E
  | Foldr i b _ | FoldrWith i b _ => wfm_it i E /\ wfm b E
  | Pratt atom ops =>
      wfm atom E /\ (fix all (l : list pop) : Prop := match l with [] => True | x :: r => wfm_op x E /\ all r end) ops
  | WithCtx _ _ | MapCtx _ _ | IgnoreWithCtx _ _ | ThenWithCtx _ _ => False      (* the context is the same everywhere *)
  | NestedIn _ | WithState _ _ => False        (* not part of the specification at all *)
  end
with wfm_it (i : IT) (E : list G) {struct i} : Prop :=
  match i with
  | IRep a _ _ | IOrNot a | IRepCfg a _ _ _ | IIntoIter a => wfm a E
  | ISep a s _ _ _ _ => wfm a E /\ wfm s E
  | IEnum j | IMap _ j | IMapWith _ j => wfm_it j E
  | IThen i j => wfm_it i E /\ wfm_it j E
  end
with wfm_op (o : pop) (E : list G) {struct o} : Prop :=
  match o with PInfix _ _ g _ | PPrefix _ g _ | PPostfix _ g _ => wfm g E end.

Fixpoint wfops (l : list pop) (E : list G) : Prop := match l with [] => True | x :: r => wfm_op x E /\ wfops r E end.
Lemma wfops_fix E : forall ops,
  (fix all (l : list pop) : Prop := match l with [] => True | x :: r => wfm_op x E /\ all r end) ops -> wfops ops E.
Proof. induction ops as [|o ops IH]; cbn; [auto|]. intros (A & B). split; auto. Qed.

Fixpoint wfl (gs : list G) (E : list G) : Prop := match gs with [] => True | x :: r => wfm x E /\ wfl r E end.
Definition wfenv (E : list G) : Prop := forall k a, nth_error E k = Some a -> wfm a (skipn k E).

Lemma wfl_fix E : forall gs,
  (fix all (l : list G) : Prop := match l with [] => True | x :: r => wfm x E /\ all r end) gs -> wfl gs E.
Proof. induction gs as [|g gs IH]; cbn; [auto|]. intros (A & B). split; auto. Qed.

Lemma wfenv_cons a E : wfm a (a :: E) -> wfenv E -> wfenv (a :: E).
Proof.
  intros Ha He [|k] b H; cbn in *.
  - injection H as <-. exact Ha.
  - exact (He _ _ H).
Qed.

Lemma wfenv_skipn : forall k E, wfenv E -> wfenv (skipn k E).
Proof.
  induction k as [|k IH]; intros E He; [exact He|].
  destruct E as [|a E]; [exact He|]. cbn [skipn]. apply IH.
  intros j b H. exact (He (S j) b H).
Qed.
End WF.

(* ---------- the memo table ---------- *)
Lemma memo_get_del t p id q j : memo_get (memo_del t p id) q j = if andb (Nat.eqb q p) (Nat.eqb j id) then None else memo_get t q j.
Proof.
  induction t as [|[[[q0 j0] e0] f0] t IH]; cbn [memo_del memo_get].
  - now destruct (_ && _).
  - destruct (andb (Nat.eqb p q0) (Nat.eqb id j0)) eqn:E1.
    + rewrite IH. apply andb_prop in E1. destruct E1 as (A & B). apply Nat.eqb_eq in A, B. subst q0 j0.
      destruct (andb (Nat.eqb q p) (Nat.eqb j id)); reflexivity.
    + cbn [memo_get]. rewrite IH. destruct (andb (Nat.eqb q q0) (Nat.eqb j j0)) eqn:E2; [|reflexivity].
      apply andb_prop in E2. destruct E2 as (A & B). apply Nat.eqb_eq in A, B. subst q0 j0.
      rewrite (Nat.eqb_sym q p), (Nat.eqb_sym j id). now rewrite E1.
Qed.

Lemma memo_fuel_del t p id q j : andb (Nat.eqb q p) (Nat.eqb j id) = false -> memo_fuel (memo_del t p id) q j = memo_fuel t q j.
Proof.
  intros Hne. induction t as [|[[[q0 j0] e0] f0] t IH]; cbn [memo_del memo_fuel]; [reflexivity|].
  destruct (andb (Nat.eqb p q0) (Nat.eqb id j0)) eqn:E1.
  - rewrite IH. apply andb_prop in E1. destruct E1 as (A & B). apply Nat.eqb_eq in A, B. subst q0 j0. now rewrite Hne.
  - cbn [memo_fuel]. now rewrite IH.
Qed.

Lemma memo_get_put t p id e f q j :
  memo_get (memo_put t p id e f) q j = if andb (Nat.eqb q p) (Nat.eqb j id) then Some e else memo_get t q j.
Proof. unfold memo_put. cbn [memo_get]. destruct (andb (Nat.eqb q p) (Nat.eqb j id)) eqn:E; [reflexivity|]. rewrite memo_get_del. now rewrite E. Qed.

Lemma memo_fuel_put t p id e f q j :
  memo_fuel (memo_put t p id e f) q j = if andb (Nat.eqb q p) (Nat.eqb j id) then f else memo_fuel t q j.
Proof. unfold memo_put. cbn [memo_fuel]. destruct (andb (Nat.eqb q p) (Nat.eqb j id)) eqn:E; [reflexivity|]. now apply memo_fuel_del. Qed.

Section MemoG.
Variable K : ekind.
Variable toks : list tok.
Variable spn : nat -> nat -> span.
Variable mt : nat -> option (G * list G).
Variable c0 : val.                       (* the context, the same everywhere *)

Notation go := (go Q_strict K toks spn).
Notation sem := (sem K toks spn).
Notation ust_at := (ust_at toks).
Notation inv := (inv toks).
Notation post := (post toks).

(* a cached failure is valid when the memoized parser, run from an empty register at that position with the fuel of the run
   that produced the entry, fails leaving exactly the cached error: a timeless fact *)
Definition valid_entry (p id : nat) (e : lerr) (f : nat) : Prop :=
  exists a E, mt id = Some (a, E) /\ sem f a (mkEnv c0 E) p None = Some (None, Some e).
Definition TV (t : memo_t) : Prop :=
  forall p id e, memo_get t p id = Some (Some (Some e)) -> valid_entry p id e (memo_fuel t p id).
Definition WF (g : G) (ctx : env) : Prop := wfm mt g (crec ctx) /\ wfenv mt (crec ctx) /\ cval ctx = c0.

Definition postm (m : mode) (s : st) (r : outcome) (s1 : st) (x : option sres) : Prop :=
  match r with
  | Ok _ | Err => post m s r s1 x /\ TV (memo s1)
  | _ => True
  end.

(* [Rm run srun]: the table-using interpreter refines srun and keeps the table valid *)
Definition Rm (run : run_t) (srun : srun_t) : Prop :=
  forall m g ctx s r s1, run m g ctx s = (r, s1) -> inv s -> TV (memo s) -> WF g ctx ->
    postm m s r s1 (srun g ctx (cur s) (alt s)).

Lemma TV_nil : TV [].
Proof. intros p id e H. discriminate. Qed.

Lemma TV_put_other t p id e f : TV t -> (forall x, e <> Some (Some x)) -> TV (memo_put t p id e f).
Proof.
  intros Ht Hne q j x H. rewrite memo_get_put in H. rewrite memo_fuel_put.
  destruct (andb (Nat.eqb q p) (Nat.eqb j id)); [injection H as ->; exfalso; eapply Hne; reflexivity | exact (Ht _ _ _ H)].
Qed.

Lemma TV_put_valid t p id x f : TV t -> valid_entry p id x f -> TV (memo_put t p id (Some (Some x)) f).
Proof.
  intros Ht Hv q j y H. rewrite memo_get_put in H. rewrite memo_fuel_put.
  destruct (andb (Nat.eqb q p) (Nat.eqb j id)) eqn:E; [|exact (Ht _ _ _ H)].
  injection H as <-. apply andb_prop in E. destruct E as (A & B). apply Nat.eqb_eq in A, B. subst. exact Hv.
Qed.

Lemma TV_del t p id : TV t -> TV (memo_del t p id).
Proof.
  intros Ht q j y H. rewrite memo_get_del in H.
  destruct (andb (Nat.eqb q p) (Nat.eqb j id)) eqn:E; [discriminate|]. rewrite memo_fuel_del by exact E. exact (Ht _ _ _ H).
Qed.

(* ---------- nothing but the Memo clause touches the table ---------- *)
Lemma memo_rewind s c : memo (rewind s c) = memo s.
Proof. destruct c as [[? ?] ?]; reflexivity. Qed.
Lemma memo_reposition s c : memo (reposition s c) = memo s.
Proof. destruct c as [[? ?] ?]; reflexivity. Qed.
Lemma memo_alt_ef s e f sp : memo (alt_ef K s e f sp) = memo s.
Proof. reflexivity. Qed.
Lemma memo_alt_err Q s p e : memo (alt_err Q K s p e) = memo s.
Proof. reflexivity. Qed.
Lemma memo_join_alt Q s new : memo (join_alt Q K s new) = memo s.
Proof. destruct new as [[q e]|]; reflexivity. Qed.
Lemma memo_emit s p e : memo (emit s p e) = memo s.
Proof. reflexivity. Qed.
Lemma memo_next s : memo (snd (next toks s)) = memo s.
Proof. unfold next. destruct (nth_error toks (cur s)); reflexivity. Qed.
Lemma memo_fail_here e s : memo (fail_here K toks spn e s) = memo s.
Proof. unfold fail_here, next. destruct (nth_error toks (cur s)); cbn; now rewrite memo_rewind. Qed.
Lemma memo_skip_loop : forall k s, memo (skip_loop toks k s) = memo s.
Proof. induction k as [|k IH]; intros s; cbn [skip_loop]; [reflexivity|]. now rewrite IH, memo_next. Qed.
Lemma memo_one_tok m acc e s r s1 : one_tok K toks spn m acc e s = (r, s1) -> memo s1 = memo s.
Proof.
  unfold one_tok, next. destruct (nth_error toks (cur s)) as [t|]; [destruct (acc t)|]; intros H; injection H as <- <-; cbn;
    rewrite ?memo_rewind; reflexivity.
Qed.
Lemma memo_just_loop : forall ts s b s1, just_loop K toks spn ts s = (b, s1) -> memo s1 = memo s.
Proof.
  induction ts as [|t ts IH]; intros s b s1 H; cbn [just_loop] in H; [injection H as <- <-; reflexivity|].
  unfold next in H. destruct (nth_error toks (cur s)) as [u|].
  - destruct (N.eqb t u); [apply IH in H; exact H | injection H as <- <-; cbn; now rewrite memo_rewind].
  - injection H as <- <-. cbn. now rewrite memo_rewind.
Qed.
Lemma memo_custom_loop : forall ts s b s1, custom_loop toks ts s = (b, s1) -> memo s1 = memo s.
Proof.
  induction ts as [|t ts IH]; intros s b s1 H; cbn [custom_loop] in H; [injection H as <- <-; reflexivity|].
  unfold next in H. destruct (nth_error toks (cur s)) as [u|].
  - destruct (N.eqb t u); [apply IH in H; exact H | injection H as <- <-; reflexivity].
  - injection H as <- <-. reflexivity.
Qed.

Lemma join_alt_alt' s new : alt (join_alt Q_strict K s new) = join K (alt s) new.
Proof. destruct new as [[q e]|]; reflexivity. Qed.

Hint Rewrite memo_rewind memo_reposition memo_alt_ef memo_alt_err memo_join_alt memo_emit memo_fail_here memo_skip_loop : memo.

(* ---------- proof automation (as in Refine.v, with the table invariant and the class threaded) ---------- *)
Ltac inv_pair H := injection H as <- <-.
Ltac solve_tv :=
  autorewrite with memo; cbn [memo set_alt set_cur set_sec set_ust set_memo]; autorewrite with memo;
  first [ assumption | apply TV_del; assumption ].
Ltac solve_wf :=
  match goal with Hg : wfm _ _ _, He : wfenv _ _, Hc : cval _ = _ |- _ => unfold WF; cbn [crec cval]; repeat split; try assumption; tauto end.

Ltac use HR E :=
  let P := fresh "P" in
  pose proof (HR _ _ _ _ _ _ E) as P;
  match type of P with ?A -> ?B -> ?C -> _ =>
    let Hi := fresh "Hi" in assert (Hi : A) by (eauto using ok_post_inv);
    let Ht := fresh "Ht" in assert (Ht : B) by solve_tv;
    let Hw := fresh "Hw" in assert (Hw : C) by solve_wf;
    specialize (P Hi Ht Hw); clear Hi Ht Hw end;
  cbn [postm Refine.post cur alt sec ust set_alt set_cur set_sec] in P.

Ltac ok_elim P :=
  let v' := fresh "v'" in let p' := fresh "p'" in let ems := fresh "ems" in
  let Hs := fresh "Hs" in let Hv := fresh "Hv" in let Hc := fresh "Hc" in
  let Hsec := fresh "Hsec" in let Hu := fresh "Hu" in let HT := fresh "HT" in
  destruct P as ((v' & p' & ems & Hs & Hv & Hc & Hsec & Hu) & HT);
  cbn [cur alt sec ust set_alt] in Hs, Hc, Hsec, Hu; subst p'; try rewrite Hs.

Ltac err_elim P :=
  let ext := fresh "ext" in let Hs := fresh "Hs" in let Hsec := fresh "Hsec" in let HT := fresh "HT" in
  destruct P as ((ext & Hs & Hsec) & HT); cbn [cur alt sec ust set_alt] in Hs, Hsec; try rewrite Hs.

Ltac stsimpl :=
  rewrite ?join_alt_cur, ?join_alt_sec, ?join_alt_ust, ?join_alt_alt';
  cbn [cur alt sec ust Machine.alt_ef Machine.alt_err set_alt set_sec set_cur emit].
Ltac fin_ok0 :=
  do 3 eexists; split; [reflexivity|];
  stsimpl; repeat split;
  try solve [ assumption | reflexivity
            | subst; match goal with m : mode |- _ => destruct m end; cbn; congruence
            | repeat match goal with H : sec _ = _ |- _ => rewrite H end; rewrite ?app_assoc, ?app_nil_r; reflexivity ].
Ltac fin_err0 :=
  eexists; split; [reflexivity|];
  stsimpl;
  repeat match goal with H : sec _ = _ |- _ => rewrite H end; rewrite <- ?app_assoc; reflexivity.
Ltac fin_ok := split; [fin_ok0 | solve_tv].
Ltac fin_err := split; [fin_err0 | solve_tv].
Ltac trivial_res H := inv_pair H; exact I.

Lemma postm_sec_eq m s s' r s1 x : sec s = sec s' -> postm m s r s1 x -> postm m s' r s1 x.
Proof.
  intros E. destruct r; cbn; auto; intros (P & T); (split; [|exact T]).
  - exact (post_sec_eq toks m s s' (Ok v) s1 x E P).
  - exact (post_sec_eq toks m s s' Err s1 x E P).
Qed.

Section LoopLemmas.
Variable run : run_t.
Variable srun : srun_t.
Hypothesis HR : Rm run srun.

Lemma choice_loop_refines m ctx s0 : forall gs s r s1,
  choice_loop run m gs ctx (save s0) s = (r, s1) ->
  inv s -> cur s = cur s0 -> sec s = sec s0 -> ust s = ust s0 -> TV (memo s) ->
  wfl mt gs (crec ctx) -> wfenv mt (crec ctx) -> cval ctx = c0 ->
  postm m s r s1 (choice_sem srun gs ctx (cur s) (alt s)).
Proof.
  induction gs as [|g gs IHgs]; intros s r s1 H Hi Hc Hse Hu HT Hg He Hcv; cbn in *.
  - inv_pair H. split; [|exact HT]. exists []. rewrite app_nil_r. split; reflexivity.
  - destruct Hg as (Hg & Hgs). destruct (run m g ctx s) as [r1 s2] eqn:E. use HR E.
    destruct r1; try trivial_res H.
    + inv_pair H. ok_elim P. cbn. fin_ok.
    + err_elim P.
      assert (Hrw : rewind s2 (save s0) = mkSt (cur s0) (sec s0) (alt s2) (ust s0) (memo s2)).
      { apply rewind_save with (ext := ext). now rewrite <- Hse. }
      rewrite Hrw in H.
      specialize (IHgs _ _ _ H). cbn in IHgs.
      rewrite Hc. apply postm_sec_eq with (s := mkSt (cur s0) (sec s0) (alt s2) (ust s0) (memo s2)); [cbn; auto|].
      apply IHgs; auto. unfold Base.inv in *. cbn. rewrite <- Hu, <- Hc. exact Hi.
Qed.

Lemma choicevec_loop_refines m ctx s0 (Hi0 : inv s0) : forall gs s r s1,
  choicevec_loop run m gs ctx (save s0) s = (r, s1) ->
  (exists ext, sec s = sec s0 ++ ext) -> TV (memo s) ->
  wfl mt gs (crec ctx) -> wfenv mt (crec ctx) -> cval ctx = c0 ->
  postm m s0 r s1 (choice_sem srun gs ctx (cur s0) (alt s)).
Proof.
  induction gs as [|g gs IHgs]; intros s r s1 H [ext0 Hx] HT Hg He Hcv; cbn in *.
  - inv_pair H. split; [|exact HT]. exists ext0. split; auto.
  - destruct Hg as (Hg & Hgs). rewrite (rewind_save _ _ _ Hx) in H.
    destruct (run m g ctx _) as [r1 s2] eqn:E. use HR E.
    destruct r1; try trivial_res H.
    + inv_pair H. ok_elim P. cbn. fin_ok.
    + err_elim P. apply IHgs; eauto.
Qed.

Lemma group_loop_refines m ctx s0 : forall gs acc accv acce s r s1,
  group_loop run m gs ctx acc s = (r, s1) -> inv s ->
  sec s = sec s0 ++ acce -> (m = Emit -> acc = accv) -> TV (memo s) ->
  wfl mt gs (crec ctx) -> wfenv mt (crec ctx) -> cval ctx = c0 ->
  postm m s0 r s1 (group_sem srun gs ctx (cur s) (alt s) accv acce).
Proof.
  induction gs as [|g gs IHgs]; intros acc accv acce s r s1 H Hi Hse Hacc HT Hg He Hcv; cbn in *.
  - inv_pair H. split; [|exact HT]. do 3 eexists. split; [reflexivity|]. repeat split; auto.
    destruct m; cbn; auto. now rewrite Hacc.
  - destruct Hg as (Hg & Hgs). destruct (run m g ctx s) as [r1 s2] eqn:E. use HR E.
    destruct r1; try trivial_res H.
    + ok_elim P. eapply IHgs; [exact H | exact Hu | | | exact HT0 | exact Hgs | exact He | exact Hcv].
      * rewrite Hsec, Hse, app_assoc. reflexivity.
      * intros ->. subst v. cbn. now rewrite Hacc.
    + inv_pair H. err_elim P. cbn. split; [|solve_tv]. eexists. split; [reflexivity|]. rewrite Hsec, Hse, <- app_assoc. reflexivity.
Qed.

(* ---------- the iterator protocol, with the table ---------- *)
Definition npostm {St : Type} (m : mode) (s s1 : st) (r : ires) (c' : St) (x : option (snext * St * reg)) : Prop :=
  match r with
  | ISome _ | INone | IErr => npost toks m s s1 r c' x /\ TV (memo s1)
  | _ => True
  end.

Definition WFc (ctx : env) : Prop := wfenv mt (crec ctx) /\ cval ctx = c0.

Lemma rep_next_refines m a lo hi ctx c s r c' s1 :
  rep_next run m a lo hi ctx c s = (r, c', s1) -> inv s -> TV (memo s) -> wfm mt a (crec ctx) -> WFc ctx ->
  npostm m s s1 r c' (rep_snext srun a lo hi ctx c (cur s) (alt s)).
Proof.
  unfold rep_next, rep_snext. intros H Hi HT Hg (He & Hcv). destruct (at_cap c hi).
  - injection H as <- <- <-. split; [|exact HT]. exists []. rewrite app_nil_r. repeat split; auto.
  - destruct (run m a ctx s) as [r1 s2] eqn:E. use HR E. destruct r1.
    + injection H as <- <- <-. ok_elim P. split; [|exact HT0]. exists v', ems. repeat split; auto.
    + err_elim P. destruct (Nat.leb lo c); injection H as <- <- <-; rewrite (rewind_save _ _ _ Hsec); cbn; (split; [|exact HT0]).
      * exists []. rewrite app_nil_r. repeat split; auto.
      * exists [], c. rewrite app_nil_r. repeat split; auto.
    + injection H as <- <- <-. exact I.
    + injection H as <- <- <-. exact I.
Qed.

Lemma sep_item_refines m a lo trail ctx c s s0 es r c' s1 :
  sep_item run m a lo trail ctx c (save s) s0 = (r, c', s1) ->
  inv s -> inv s0 -> sec s0 = sec s ++ es -> TV (memo s0) -> wfm mt a (crec ctx) -> WFc ctx ->
  npostm m s s1 r c' (sep_sitem srun a lo trail ctx c (cur s) (cur s0) es (alt s0)).
Proof.
  unfold sep_item, sep_sitem. intros H Hi Hi0 Hse HT Hg (He & Hcv).
  destruct (run m a ctx s0) as [r1 s2] eqn:E. use HR E. destruct r1.
  - injection H as <- <- <-. ok_elim P. split; [|exact HT0]. exists v', (es ++ ems). rewrite Hsec, Hse, app_assoc. repeat split; auto.
  - err_elim P.
    assert (Hsec' : sec s2 = sec s ++ (es ++ ext)) by (now rewrite Hsec, Hse, app_assoc).
    destruct (Nat.ltb c lo); [|destruct trail]; injection H as <- <- <-.
    + rewrite (rewind_save _ _ _ Hsec'). split; [|exact HT0]. exists [], c. cbn. rewrite app_nil_r. split; reflexivity.
    + rewrite (rewind_save _ _ _ Hsec). split; [|exact HT0]. exists es. cbn. repeat split; auto.
    + rewrite (rewind_save _ _ _ Hsec'). split; [|exact HT0]. exists []. cbn. rewrite app_nil_r. repeat split; auto.
  - injection H as <- <- <-. exact I.
  - injection H as <- <- <-. exact I.
Qed.

Lemma sep_next_refines m a sep lo hi lead trail ctx c s r c' s1 :
  sep_next run m a sep lo hi lead trail ctx c s = (r, c', s1) -> inv s -> TV (memo s) ->
  wfm mt a (crec ctx) -> wfm mt sep (crec ctx) -> WFc ctx ->
  npostm m s s1 r c' (sep_snext srun a sep lo hi lead trail ctx c (cur s) (alt s)).
Proof.
  unfold sep_next, sep_snext. intros H Hi HT Hga Hg Hc. pose proof Hc as (He & Hcv). destruct (at_cap c hi).
  { injection H as <- <- <-. split; [|exact HT]. exists []. rewrite app_nil_r. repeat split; auto. }
  destruct (andb (Nat.eqb c 0) lead).
  - destruct (run Check sep ctx s) as [r1 s2] eqn:E. use HR E. destruct r1.
    + ok_elim P. eapply sep_item_refines in H; eauto.
    + err_elim P. rewrite (rewind_save _ _ _ Hsec) in H.
      eapply sep_item_refines with (es := []) in H; eauto.
      cbn. now rewrite app_nil_r.
    + injection H as <- <- <-. exact I.
    + injection H as <- <- <-. exact I.
  - destruct (Nat.ltb 0 c).
    + destruct (run Check sep ctx s) as [r1 s2] eqn:E. use HR E. destruct r1.
      * ok_elim P. eapply sep_item_refines in H; eauto.
      * err_elim P. destruct (Nat.ltb c lo); injection H as <- <- <-; rewrite (rewind_save _ _ _ Hsec); cbn; (split; [|exact HT0]).
        -- exists [], c. rewrite app_nil_r. split; reflexivity.
        -- exists []. rewrite app_nil_r. repeat split; auto.
      * injection H as <- <- <-. exact I.
      * injection H as <- <- <-. exact I.
    + eapply sep_item_refines with (es := []) in H; eauto. now rewrite app_nil_r.
Qed.

Lemma it_next_refines : forall i m ctx its s r its' s1,
  it_next spn run m i ctx its s = (r, its', s1) -> inv s -> TV (memo s) -> wfm_it mt i (crec ctx) -> WFc ctx ->
  npostm m s s1 r its' (it_snext toks spn srun i ctx its (cur s) (alt s)).
Proof.
  induction i as [a lo hi|a sep lo hi lead trail|j IHj|f j IHj|f j IHj|a|a lo hi ck|a|i1 IHi1 i2 IHi2];
    intros m ctx its s r its' s1 H Hi HT Hg Hc; cbn [it_next it_snext] in *; simpl in Hg.
  - (* IRep *)
    destruct its; try (injection H as <- <- <-; exact I).
    destruct (rep_next run m a lo hi ctx n s) as [[r0 c'] s2] eqn:E. injection H as <- <- <-.
    pose proof (rep_next_refines _ _ _ _ _ _ _ _ _ _ E Hi HT Hg Hc) as P.
    destruct r0; cbn in *; auto; destruct P as (P & T); (split; [|exact T]).
    + destruct P as (ems & -> & ?). exists ems. auto.
    + destruct P as (v' & ems & -> & ?). exists v', ems. auto.
    + destruct P as (ext & c'' & -> & ?). exists ext, (SCount c''). auto.
  - (* ISep *)
    destruct Hg as (Hga & Hgs).
    destruct its; try (injection H as <- <- <-; exact I).
    destruct (sep_next run m a sep lo hi lead trail ctx n s) as [[r0 c'] s2] eqn:E. injection H as <- <- <-.
    pose proof (sep_next_refines _ _ _ _ _ _ _ _ _ _ _ _ _ E Hi HT Hga Hgs Hc) as P.
    destruct r0; cbn in *; auto; destruct P as (P & T); (split; [|exact T]).
    + destruct P as (ems & -> & ?). exists ems. auto.
    + destruct P as (v' & ems & -> & ?). exists v', ems. auto.
    + destruct P as (ext & c'' & -> & ?). exists ext, (SCount c''). auto.
  - (* IEnum *)
    destruct its as [|k js| | | | |]; try (injection H as <- <- <-; exact I).
    destruct (it_next spn run m j ctx js s) as [[r0 js'] s2] eqn:E.
    pose proof (IHj _ _ _ _ _ _ _ E Hi HT Hg Hc) as P.
    destruct r0; injection H as <- <- <-; cbn in *; auto; destruct P as (P & T); (split; [|exact T]).
    + destruct P as (ems & -> & ?). exists ems. auto.
    + destruct P as (v' & ems & -> & -> & ?). exists (VPair (VNat k) v'), ems. rewrite mapv_bindv. auto.
    + destruct P as (ext & c'' & -> & ?). exists ext, (SEnum k c''). auto.
  - (* IMap *)
    destruct (it_next spn run m j ctx its s) as [[r0 js'] s2] eqn:E.
    pose proof (IHj _ _ _ _ _ _ _ E Hi HT Hg Hc) as P.
    destruct r0; injection H as <- <- <-; cbn in *; auto; destruct P as (P & T); (split; [|exact T]).
    + destruct P as (ems & -> & ?). exists ems. auto.
    + destruct P as (v' & ems & -> & -> & ?). exists (ap1 f v'), ems. rewrite mapv_bindv. auto.
    + destruct P as (ext & c'' & -> & ?). exists ext, c''. auto.
  - (* IMapWith *)
    destruct (it_next spn run m j ctx its s) as [[r0 js'] s2] eqn:E.
    pose proof (IHj _ _ _ _ _ _ _ E Hi HT Hg Hc) as P.
    destruct r0; injection H as <- <- <-; cbn in *; auto; destruct P as (P & T); (split; [|exact T]).
    + destruct P as (ems & -> & ?). exists ems. auto.
    + destruct P as (v' & ems & -> & -> & Hsec & Hu). eexists _, ems. rewrite mapv_bindv, Hu. auto.
    + destruct P as (ext & c'' & -> & ?). exists ext, c''. auto.
  - (* IOrNot *)
    pose proof Hc as (He & Hcv).
    destruct its as [| |fin| | | |]; try (injection H as <- <- <-; exact I).
    destruct fin.
    + injection H as <- <- <-. split; [|exact HT]. exists []. rewrite app_nil_r. repeat split; auto.
    + destruct (run m a ctx s) as [r1 s2] eqn:E. use HR E. destruct r1; injection H as <- <- <-; try exact I.
      * ok_elim P. split; [|exact HT0]. exists v', ems. auto.
      * err_elim P. rewrite (rewind_save _ _ _ Hsec). split; [|exact HT0]. exists []. cbn. rewrite app_nil_r. repeat split; auto.
  - (* IRepCfg *)
    destruct its as [| | |c clo chi|k| |]; try (injection H as <- <- <-; exact I).
    + destruct (rep_next run m a clo chi ctx c s) as [[r0 c'] s2] eqn:E. injection H as <- <- <-.
      pose proof (rep_next_refines _ _ _ _ _ _ _ _ _ _ E Hi HT Hg Hc) as P.
      destruct r0; cbn in *; auto; destruct P as (P & T); (split; [|exact T]).
      * destruct P as (ems & -> & ?). exists ems. auto.
      * destruct P as (v' & ems & -> & ?). exists v', ems. auto.
      * destruct P as (ext & c'' & -> & ?). exists ext, (SCfg c'' clo chi). auto.
    + (* try_configure whose closure failed *)
      pose proof Hc as (He & Hcv).
      destruct (run m (TryMap PFalse FId k Empty) ctx s) as [r1 s2] eqn:E.
      pose proof (HR _ _ _ _ _ _ E Hi HT) as P.
      assert (Hw : WF (TryMap PFalse FId k Empty) ctx) by (unfold WF; cbn; auto).
      specialize (P Hw). cbn [postm Refine.post] in P.
      destruct r1; injection H as <- <- <-; try exact I.
      err_elim P. split; [|exact HT0]. exists ext, (SFail k). auto.
  - (* IIntoIter *)
    pose proof Hc as (He & Hcv).
    destruct its as [| | | | |[l|]|]; try (injection H as <- <- <-; exact I).
    + destruct l as [|x l]; injection H as <- <- <-; (split; [|exact HT]).
      * exists []. rewrite app_nil_r. repeat split; auto.
      * exists x, []. rewrite app_nil_r. repeat split; auto.
    + destruct (run Emit a ctx s) as [r1 s2] eqn:E. use HR E. destruct r1; try (injection H as <- <- <-; exact I).
      * ok_elim P. subst v. cbn [getv bindv] in H. destruct (val_items v') as [|x l]; injection H as <- <- <-; (split; [|exact HT0]).
        -- exists ems. repeat split; auto.
        -- exists x, ems. repeat split; auto.
      * injection H as <- <- <-. err_elim P. split; [|exact HT0]. exists ext, (SInto None). auto.
  - (* IThen *)
    destruct Hg as (Hg1 & Hg2).
    destruct its as [| | | | | |sa [sb|]]; try (injection H as <- <- <-; exact I).
    + destruct (it_next spn run m i2 ctx sb s) as [[r0 sb'] s2] eqn:E. injection H as <- <- <-.
      pose proof (IHi2 _ _ _ _ _ _ _ E Hi HT Hg2 Hc) as P.
      destruct r0; cbn in *; auto; destruct P as (P & T); (split; [|exact T]).
      * destruct P as (ems & -> & ?). exists ems. auto.
      * destruct P as (v' & ems & -> & ?). exists v', ems. auto.
      * destruct P as (ext & c'' & -> & ?). exists ext, (SThen sa (Some c'')). auto.
    + destruct (it_next spn run m i1 ctx sa s) as [[r0 sa'] s2] eqn:E.
      pose proof (IHi1 _ _ _ _ _ _ _ E Hi HT Hg1 Hc) as P.
      destruct r0; cbn [npostm npost] in P.
      * destruct P as ((ems & Hs & Hsec & Hu) & T). rewrite Hs.
        destruct (it_next spn run m i2 ctx (mk_iter i2 ctx) s2) as [[r1 sb'] s3] eqn:E2. injection H as <- <- <-.
        pose proof (IHi2 _ _ _ _ _ _ _ E2 Hu T Hg2 Hc) as P2.
        destruct r1; cbn in *; auto; destruct P2 as (P2 & T2); (split; [|exact T2]).
        -- destruct P2 as (ems2 & -> & Hsec2 & Hu2). exists (ems ++ ems2). rewrite Hsec2, Hsec, app_assoc. auto.
        -- destruct P2 as (v' & ems2 & -> & -> & Hsec2 & Hu2). exists v', (ems ++ ems2). rewrite Hsec2, Hsec, app_assoc. auto.
        -- destruct P2 as (ext & c'' & -> & Hsec2). exists (ems ++ ext), (SThen sa' (Some c'')). rewrite Hsec2, Hsec, app_assoc. auto.
      * injection H as <- <- <-. destruct P as ((v' & ems & -> & ?) & T). split; [|exact T]. exists v', ems. cbn. auto.
      * injection H as <- <- <-. destruct P as ((ext & c'' & -> & ?) & T). split; [|exact T]. exists ext, (SThen c'' None). auto.
      * injection H as <- <- <-. exact I.
      * injection H as <- <- <-. exact I.
Qed.

Lemma drive_refines s0 : forall fuel m i ctx its lim pa idx acc s r acc' fl s1 sacc sacce,
  drive spn run fuel m i ctx its lim pa idx acc s = (r, acc', fl, s1) -> inv s ->
  sec s = sec s0 ++ sacce -> Forall2 (irel toks m) acc sacc -> TV (memo s) -> wfm_it mt i (crec ctx) -> WFc ctx ->
  match r with
  | Ok _ => (exists sitems ems,
      sdrive toks spn srun fuel i ctx its lim sacc sacce (cur s) (alt s)
        = Some (Some (sitems, fl, cur s1, ems), alt s1) /\
      Forall2 (irel toks m) acc' sitems /\ sec s1 = sec s0 ++ ems /\ ust s1 = ust_at (cur s1)) /\ TV (memo s1)
  | Err => (exists ext,
      sdrive toks spn srun fuel i ctx its lim sacc sacce (cur s) (alt s) = Some (None, alt s1) /\
      sec s1 = sec s0 ++ ext) /\ TV (memo s1)
  | _ => True
  end.
Proof.
  induction fuel as [|fuel IHf]; intros m i ctx its lim pa idx acc s r acc' fl s1 sacc sacce H Hi Hse Hacc HT Hg Hc;
    cbn [drive sdrive] in *.
  { injection H as <- <- <- <-. exact I. }
  assert (Hstep :
    match it_next spn run m i ctx its s with
    | (ISome v, its', s2) =>
        if pa idx && (cur s =? cur s2) then (Panic PProgress, acc, false, s2)
        else drive spn run fuel m i ctx its' (option_map Nat.pred lim) pa (S idx)
               ((getv v, cur s, cur s2, ust s2) :: acc) s2
    | (INone, _, s2) => (Ok None, acc, true, s2)
    | (IErr, _, s2) => (Err, acc, false, s2)
    | (IPanic k, _, s2) => (Panic k, acc, false, s2)
    | (IOOF, _, s2) => (OutOfFuel, acc, false, s2)
    end = (r, acc', fl, s1) ->
    match r with
    | Ok _ => (exists sitems ems,
        match it_snext toks spn srun i ctx its (cur s) (alt s) with
        | Some (SSome v p1 e1, its', r1) =>
            sdrive toks spn srun fuel i ctx its' (option_map Nat.pred lim) ((v, cur s, p1) :: sacc) (sacce ++ e1) p1 r1
        | Some (SNone p1 e1, _, r1) => Some (Some (sacc, true, p1, sacce ++ e1), r1)
        | Some (SErr, _, r1) => Some (None, r1)
        | None => None
        end = Some (Some (sitems, fl, cur s1, ems), alt s1) /\
        Forall2 (irel toks m) acc' sitems /\ sec s1 = sec s0 ++ ems /\ ust s1 = ust_at (cur s1)) /\ TV (memo s1)
    | Err => (exists ext,
        match it_snext toks spn srun i ctx its (cur s) (alt s) with
        | Some (SSome v p1 e1, its', r1) =>
            sdrive toks spn srun fuel i ctx its' (option_map Nat.pred lim) ((v, cur s, p1) :: sacc) (sacce ++ e1) p1 r1
        | Some (SNone p1 e1, _, r1) => Some (Some (sacc, true, p1, sacce ++ e1), r1)
        | Some (SErr, _, r1) => Some (None, r1)
        | None => None
        end = Some (None, alt s1) /\ sec s1 = sec s0 ++ ext) /\ TV (memo s1)
    | _ => True
    end).
  { clear H. intros H.
    destruct (it_next spn run m i ctx its s) as [[r0 its'] s2] eqn:E.
    pose proof (it_next_refines _ _ _ _ _ _ _ _ E Hi HT Hg Hc) as P.
    destruct r0; cbn [npostm npost] in P.
    - (* INone *) injection H as <- <- <- <-. destruct P as ((ems & -> & Hsec & Hu) & T). split; [|exact T].
      exists sacc, (sacce ++ ems). rewrite Hsec, Hse, app_assoc. repeat split; auto.
    - (* ISome *) destruct P as ((v' & ems & -> & -> & Hsec & Hu) & T).
      destruct (pa idx && (cur s =? cur s2)); [injection H as <- <- <- <-; exact I|].
      eapply IHf in H; eauto.
      + rewrite Hsec, Hse, app_assoc. reflexivity.
      + constructor; auto. unfold irel; cbn. repeat split; auto. intros ->. reflexivity.
    - (* IErr *) injection H as <- <- <- <-. destruct P as ((ext & c'' & -> & Hsec) & T). split; [|exact T].
      exists (sacce ++ ext). rewrite Hsec, Hse, app_assoc. split; reflexivity.
    - injection H as <- <- <- <-. exact I.
    - injection H as <- <- <- <-. exact I. }
  destruct lim as [[|l]|].
  - injection H as <- <- <- <-. split; [|exact HT]. exists sacc, sacce. repeat split; auto.
  - apply Hstep. exact H.
  - apply Hstep. exact H.
Qed.

Lemma rep_fast_refines s0 a ctx m : forall fuel s r s1 c sacc sacce,
  rep_fast run fuel m a ctx s = (r, s1) -> inv s -> sec s = sec s0 ++ sacce -> TV (memo s) -> wfm mt a (crec ctx) -> WFc ctx ->
  match r with
  | Ok v => (exists sitems ems,
      sdrive toks spn srun fuel (IRep a 0 None) ctx (SCount c) None sacc sacce (cur s) (alt s)
        = Some (Some (sitems, true, cur s1, ems), alt s1) /\
      v = bindv m VUnit /\ sec s1 = sec s0 ++ ems /\ ust s1 = ust_at (cur s1)) /\ TV (memo s1)
  | Err => False
  | _ => True
  end.
Proof.
  induction fuel as [|fuel IHf]; intros s r s1 c sacc sacce H Hi Hse HT Hg Hc; cbn [rep_fast sdrive it_snext] in *.
  { injection H as <- <-. exact I. }
  pose proof Hc as (He & Hcv).
  unfold rep_snext. cbn [at_cap].
  destruct (run Check a ctx s) as [r1 s2] eqn:E. use HR E. destruct r1.
  - ok_elim P. destruct (cur s =? cur s2); [injection H as <- <-; exact I|].
    eapply IHf in H; eauto. rewrite Hsec, Hse, app_assoc. reflexivity.
  - injection H as <- <-. err_elim P. rewrite (rewind_save _ _ _ Hsec). cbn. split; [|exact HT0].
    do 2 eexists. split; [reflexivity|]. rewrite app_nil_r. repeat split; auto.
  - injection H as <- <-. exact I.
  - injection H as <- <-. exact I.
Qed.

Lemma skip_until_refines s0 m skip until fb ctx a0 : forall fuel s r s1 acce,
  skip_until_loop run fuel m skip until fb ctx a0 s = (r, s1) -> inv s -> sec s = sec s0 ++ acce ->
  TV (memo s) -> wfm mt skip (crec ctx) -> wfm mt until (crec ctx) -> WFc ctx ->
  match r with
  | Ok v => (exists ems,
      skip_until_sem srun fuel skip until ctx (cur s) (alt s) acce = Some (Some (cur s1, ems), alt s1) /\
      v = bindv m (VNat fb) /\ sec s1 = sec s0 ++ ems ++ [(cur s1, snd a0)] /\ ust s1 = ust_at (cur s1)) /\ TV (memo s1)
  | Err => (exists ext ra,
      skip_until_sem srun fuel skip until ctx (cur s) (alt s) acce = Some (None, ra) /\
      alt s1 = Some a0 /\ sec s1 = sec s0 ++ ext) /\ TV (memo s1)
  | _ => True
  end.
Proof.
  induction fuel as [|fuel IHf]; intros s r s1 acce H Hi Hse HT Hgs Hgu Hc; cbn [skip_until_loop skip_until_sem] in *.
  { injection H as <- <-. exact I. }
  pose proof Hc as (He & Hcv).
  destruct (run Check until ctx s) as [r1 s2] eqn:E1. use HR E1. destruct r1; try trivial_res H.
  - inv_pair H. ok_elim P. split; [|solve_tv]. exists (acce ++ ems). cbn. rewrite Hsec, Hse, !app_assoc. repeat split; auto.
  - err_elim P. rewrite (rewind_save _ _ _ Hsec) in H.
    match type of H with context [run Check skip ctx ?st] => destruct (run Check skip ctx st) as [r2 s3] eqn:E2 end.
    pose proof (HR _ _ _ _ _ _ E2 Hi) as P2.
    assert (Ht2 : TV (memo s2)) by exact HT0. assert (Hw2 : WF skip ctx) by (unfold WF; auto).
    specialize (P2 Ht2 Hw2). cbn [postm Refine.post cur alt sec ust] in P2.
    destruct r2; try trivial_res H.
    + ok_elim P2. eapply IHf in H; eauto. rewrite Hsec0, Hse, app_assoc. reflexivity.
    + inv_pair H. err_elim P2. cbn. split; [|solve_tv]. do 2 eexists. split; [reflexivity|]. split; [reflexivity|].
      rewrite Hsec0, Hse, <- app_assoc. reflexivity.
Qed.

Lemma skip_retry_refines s0 m p skip until ctx a0 : forall fuel s r s1 acce,
  skip_retry_loop run fuel m p skip until ctx a0 s = (r, s1) -> inv s -> sec s = sec s0 ++ acce ->
  TV (memo s) -> wfm mt p (crec ctx) -> wfm mt skip (crec ctx) -> wfm mt until (crec ctx) -> WFc ctx ->
  match r with
  | Ok v => (exists v' ems,
      skip_retry_sem srun fuel p skip until ctx (cur s) (alt s) acce = Some (Some (v', cur s1, ems), alt s1) /\
      v = bindv m v' /\ sec s1 = sec s0 ++ ems ++ [(cur s1, snd a0)] /\ ust s1 = ust_at (cur s1)) /\ TV (memo s1)
  | Err => (exists ext ra,
      skip_retry_sem srun fuel p skip until ctx (cur s) (alt s) acce = Some (None, ra) /\
      alt s1 = Some a0 /\ sec s1 = sec s0 ++ ext) /\ TV (memo s1)
  | _ => True
  end.
Proof.
  induction fuel as [|fuel IHf]; intros s r s1 acce H Hi Hse HT Hgp Hgs Hgu Hc; cbn [skip_retry_loop skip_retry_sem] in *.
  { injection H as <- <-. exact I. }
  pose proof Hc as (He & Hcv).
  destruct (run Check until ctx s) as [r1 s2] eqn:E1. use HR E1. destruct r1; try trivial_res H.
  - inv_pair H. ok_elim P.
    assert (Hrw : rewind (set_alt s2 (Some a0)) (save s) = mkSt (cur s) (sec s) (Some a0) (ust s) (memo s2)).
    { exact (rewind_save s (set_alt s2 (Some a0)) _ Hsec). }
    rewrite Hrw. cbn. split; [|exact HT0]. do 2 eexists. split; [reflexivity|]. split; [reflexivity|]. exact Hse.
  - err_elim P. rewrite (rewind_save _ _ _ Hsec) in H.
    match type of H with context [run Check skip ctx ?st] => destruct (run Check skip ctx st) as [r2 s3] eqn:E2 end.
    pose proof (HR _ _ _ _ _ _ E2 Hi) as P2.
    assert (Ht2 : TV (memo s2)) by exact HT0. assert (Hw2 : WF skip ctx) by (unfold WF; auto).
    specialize (P2 Ht2 Hw2). cbn [postm Refine.post cur alt sec ust] in P2.
    destruct r2; try trivial_res H.
    + ok_elim P2.
      destruct (run m p ctx s3) as [r3 s4] eqn:E3. use HR E3.
      assert (Hrw : forall s4 ext, sec s4 = sec s3 ++ ext ->
                rewind (set_alt s4 None) (save s3) = mkSt (cur s3) (sec s3) None (ust s3) (memo s4)).
      { intros s4' ext' Hx. exact (rewind_save s3 (set_alt s4' None) _ Hx). }
      destruct r3; try trivial_res H.
      * ok_elim P. rewrite Hsec1, leb_len_app in H. destruct ems0 as [|e0 ems0].
        -- inv_pair H. cbn. split; [|solve_tv]. do 2 eexists. split; [reflexivity|]. stsimpl.
           rewrite app_nil_r in Hsec1. rewrite Hsec1, Hsec0, Hse, !app_assoc. repeat split; auto.
        -- rewrite (Hrw _ _ Hsec1) in H. eapply IHf in H; eauto. cbn. rewrite Hsec0, Hse, app_assoc. reflexivity.
      * err_elim P. rewrite (Hrw _ _ Hsec1) in H. eapply IHf in H; eauto. cbn. rewrite Hsec0, Hse, app_assoc. reflexivity.
    + inv_pair H. err_elim P2. cbn. split; [|solve_tv]. do 2 eexists. split; [reflexivity|]. split; [reflexivity|].
      rewrite Hsec0, Hse, <- app_assoc. reflexivity.
Qed.

(* ---------- Pratt ---------- *)
Section PrattLemmas.
Variable m : mode.
Variable rec : nat -> st -> outcome * st.
Variable srec : nat -> nat -> reg -> option sres.
Hypothesis Hrec : forall minp s r s1, rec minp s = (r, s1) -> inv s -> TV (memo s) ->
  postm m s r s1 (srec minp (cur s) (alt s)).

Lemma pratt_prefix_refines ctx sl (Hil : inv sl) (HWc : WFc ctx) : forall ops s, same_point s sl -> TV (memo s) -> wfops mt ops (crec ctx) ->
  match pratt_prefix spn run rec m ops ctx (save sl) (cur sl) s with
  | PDone (Ok v) s1 => (exists v' ems,
      pratt_sprefix spn srun srec ops ctx (cur sl) (alt s) = SDone (Some (Some (v', cur s1, ems), alt s1)) /\
      v = bindv m v' /\ sec s1 = sec sl ++ ems /\ ust s1 = ust_at (cur s1)) /\ TV (memo s1)
  | PDone Err _ => False
  | PDone _ _ => True
  | PNext s1 => (pratt_sprefix spn srun srec ops ctx (cur sl) (alt s) = SNext (alt s1) /\ same_point s1 sl) /\ TV (memo s1)
  end.
Proof.
  pose proof HWc as (He & Hcv).
  induction ops as [|o ops IHo]; intros s Hsp HT Hgo; cbn [pratt_prefix pratt_sprefix]; [auto|].
  destruct Hgo as (Hg & Hgo).
  destruct o as [r bp og k|bp og k|bp og k]; try (apply IHo; assumption). simpl in Hg.
  pose proof (same_point_inv _ _ _ Hsp Hil) as Hi. destruct Hsp as (Hc & Hse & Hu).
  destruct (run m og ctx s) as [r1 s2] eqn:E1. use HR E1. rewrite Hc in P. destruct r1; auto.
  - ok_elim P.
    destruct (rec (2 * bp) s2) as [r2 s3] eqn:E2.
    pose proof (Hrec _ _ _ _ E2 Hu0 HT0) as P2. destruct r2; auto.
    + ok_elim P2. split; [|exact HT1]. do 2 eexists. split; [reflexivity|]. repeat split; auto.
      * subst. destruct m; reflexivity.
      * now rewrite Hsec0, Hsec, Hse, app_assoc.
    + err_elim P2.
      assert (Hsp' : same_point (rewind s3 (save sl)) sl).
      { eapply same_point_rewind with (s := s) (ext := ems ++ ext); [repeat split; auto|]. now rewrite Hsec0, Hsec, app_assoc. }
      assert (HT' : TV (memo (rewind s3 (save sl)))) by solve_tv.
      specialize (IHo _ Hsp' HT' Hgo). rewrite alt_rewind in IHo. exact IHo.
  - err_elim P.
    assert (Hsp' : same_point (rewind s2 (save sl)) sl).
    { eapply same_point_rewind with (s := s); [repeat split; auto|exact Hsec]. }
    assert (HT' : TV (memo (rewind s2 (save sl)))) by solve_tv.
    specialize (IHo _ Hsp' HT' Hgo). rewrite alt_rewind in IHo. exact IHo.
Qed.

Lemma pratt_postfix_refines ctx minp start lhs lhs' sl (Hil : inv sl) (Hl : lhs = bindv m lhs') (HWc : WFc ctx) : forall ops s,
  same_point s sl -> TV (memo s) -> wfops mt ops (crec ctx) ->
  match pratt_postfix spn run m ops ctx minp (save sl) start lhs s with
  | PDone (Ok v) s1 => (exists v' ems,
      pratt_spostfix spn srun ops ctx minp start lhs' (cur sl) (alt s) = SDone (Some (Some (v', cur s1, ems), alt s1)) /\
      v = bindv m v' /\ sec s1 = sec sl ++ ems /\ ust s1 = ust_at (cur s1)) /\ TV (memo s1)
  | PDone Err _ => False
  | PDone _ _ => True
  | PNext s1 => (pratt_spostfix spn srun ops ctx minp start lhs' (cur sl) (alt s) = SNext (alt s1) /\ same_point s1 sl) /\ TV (memo s1)
  end.
Proof.
  pose proof HWc as (He & Hcv).
  induction ops as [|o ops IHo]; intros s Hsp HT Hgo; cbn [pratt_postfix pratt_spostfix]; [auto|].
  destruct Hgo as (Hg & Hgo).
  destruct o as [r bp og k|bp og k|bp og k]; try (apply IHo; assumption). simpl in Hg.
  destruct (minp <=? 2 * bp + 1); [|apply IHo; assumption].
  pose proof (same_point_inv _ _ _ Hsp Hil) as Hi. destruct Hsp as (Hc & Hse & Hu).
  destruct (run m og ctx s) as [r1 s2] eqn:E1. use HR E1. rewrite Hc in P. destruct r1; auto.
  - ok_elim P. split; [|exact HT0]. do 2 eexists. split; [reflexivity|]. repeat split; auto.
    + subst. destruct m; reflexivity.
    + now rewrite Hsec, Hse.
  - err_elim P.
    assert (Hsp' : same_point (rewind s2 (save sl)) sl).
    { eapply same_point_rewind with (s := s); [repeat split; auto|exact Hsec]. }
    assert (HT' : TV (memo (rewind s2 (save sl)))) by solve_tv.
    specialize (IHo _ Hsp' HT' Hgo). rewrite alt_rewind in IHo. exact IHo.
Qed.

Lemma pratt_infix_refines ctx minp start lhs lhs' sl (Hil : inv sl) (Hl : lhs = bindv m lhs') (HWc : WFc ctx) : forall ops s,
  same_point s sl -> TV (memo s) -> wfops mt ops (crec ctx) ->
  match pratt_infix spn run rec m ops ctx minp (save sl) start lhs s with
  | PDone (Ok v) s1 => (exists v' ems,
      pratt_sinfix spn srun srec ops ctx minp start lhs' (cur sl) (alt s) = SDone (Some (Some (v', cur s1, ems), alt s1)) /\
      v = bindv m v' /\ sec s1 = sec sl ++ ems /\ ust s1 = ust_at (cur s1)) /\ TV (memo s1)
  | PDone Err _ => False
  | PDone _ _ => True
  | PNext s1 => (pratt_sinfix spn srun srec ops ctx minp start lhs' (cur sl) (alt s) = SNext (alt s1) /\ same_point s1 sl) /\ TV (memo s1)
  end.
Proof.
  pose proof HWc as (He & Hcv).
  induction ops as [|o ops IHo]; intros s Hsp HT Hgo; cbn [pratt_infix pratt_sinfix]; [auto|].
  destruct Hgo as (Hg & Hgo).
  destruct o as [r bp og k|bp og k|bp og k]; try (apply IHo; assumption). simpl in Hg.
  destruct (minp <=? lpow r bp); [|apply IHo; assumption].
  pose proof (same_point_inv _ _ _ Hsp Hil) as Hi. destruct Hsp as (Hc & Hse & Hu).
  destruct (run m og ctx s) as [r1 s2] eqn:E1. use HR E1. rewrite Hc in P. destruct r1; auto.
  - ok_elim P.
    destruct (rec (rpow r bp) s2) as [r2 s3] eqn:E2.
    pose proof (Hrec _ _ _ _ E2 Hu0 HT0) as P2. destruct r2; auto.
    + ok_elim P2. split; [|exact HT1]. do 2 eexists. split; [reflexivity|]. repeat split; auto.
      * subst. destruct m; reflexivity.
      * now rewrite Hsec0, Hsec, Hse, app_assoc.
    + err_elim P2.
      assert (Hsp' : same_point (rewind s3 (save sl)) sl).
      { eapply same_point_rewind with (s := s) (ext := ems ++ ext); [repeat split; auto|]. now rewrite Hsec0, Hsec, app_assoc. }
      assert (HT' : TV (memo (rewind s3 (save sl)))) by solve_tv.
      specialize (IHo _ Hsp' HT' Hgo). rewrite alt_rewind in IHo. exact IHo.
  - err_elim P.
    assert (Hsp' : same_point (rewind s2 (save sl)) sl).
    { eapply same_point_rewind with (s := s); [repeat split; auto|exact Hsec]. }
    assert (HT' : TV (memo (rewind s2 (save sl)))) by solve_tv.
    specialize (IHo _ Hsp' HT' Hgo). rewrite alt_rewind in IHo. exact IHo.
Qed.

End PrattLemmas.

Lemma pratt_refines m atom ops ctx (HWc : WFc ctx) (Hga : wfm mt atom (crec ctx)) (Hgo : wfops mt ops (crec ctx)) : forall fuel,
  (forall minp s r s1, pratt_go spn run fuel m atom ops ctx minp s = (r, s1) -> inv s -> TV (memo s) ->
     postm m s r s1 (pratt_sem spn srun fuel atom ops ctx minp (cur s) (alt s)))
  /\
  (forall minp s0 lhs lhs' acce s r s1,
     pratt_loop spn run fuel m atom ops ctx minp (cur s0) lhs s = (r, s1) -> inv s ->
     sec s = sec s0 ++ acce -> lhs = bindv m lhs' -> TV (memo s) ->
     postm m s0 r s1 (pratt_sloop spn srun fuel atom ops ctx minp (cur s0) lhs' acce (cur s) (alt s))).
Proof.
  pose proof HWc as (He & Hcv).
  induction fuel as [|f [IHgo IHloop]].
  { split; intros; cbn in *; match goal with H : (OutOfFuel, _) = _ |- _ => inv_pair H end; exact I. }
  split.
  - intros minp s r s1 H Hi HT. rewrite pratt_go_S in H. rewrite pratt_sem_S.
    pose proof (pratt_prefix_refines m _ _ (IHgo) ctx s Hi HWc ops s (same_point_refl s) HT Hgo) as Pp.
    destruct (pratt_prefix spn run (pratt_go spn run f m atom ops ctx) m ops ctx (save s) (cur s) s) as [rp sp|sp].
    + destruct rp; try (inv_pair H; exact I); [|contradiction].
      destruct Pp as ((v' & ems & -> & -> & Hsec & Hu) & HT2).
      eapply IHloop in H; eauto.
    + destruct Pp as ((-> & Hsp) & HT2).
      pose proof (same_point_inv _ _ _ Hsp Hi) as Hip. destruct Hsp as (Hc & Hse & Hu).
      destruct (run m atom ctx sp) as [ra sa] eqn:Ea. use HR Ea. rewrite Hc in P.
      destruct ra; try trivial_res H.
      * ok_elim P. eapply IHloop in H; eauto. now rewrite Hsec, Hse.
      * inv_pair H. err_elim P. split; [|exact HT0]. eexists. split; [reflexivity|]. now rewrite Hsec, Hse.
  - intros minp s0 lhs lhs' acce s r s1 H Hi Hse Hl HT. rewrite pratt_loop_S in H. rewrite pratt_sloop_S.
    pose proof (pratt_postfix_refines m _ _ (IHgo) ctx minp (cur s0) lhs lhs' s Hi Hl HWc ops s (same_point_refl s) HT Hgo) as Pp.
    destruct (pratt_postfix spn run m ops ctx minp (save s) (cur s0) lhs s) as [rp sp|sp].
    + destruct rp; try (inv_pair H; exact I); [|contradiction].
      destruct Pp as ((v' & ems & -> & -> & Hsec & Hu) & HT2).
      eapply IHloop in H; eauto. now rewrite Hsec, Hse, app_assoc.
    + destruct Pp as ((-> & Hsp) & HT2).
      pose proof (pratt_infix_refines m _ _ (IHgo) ctx minp (cur s0) lhs lhs' s Hi Hl HWc ops sp Hsp HT2 Hgo) as Pi.
      destruct (pratt_infix spn run (pratt_go spn run f m atom ops ctx) m ops ctx minp (save s) (cur s0) lhs sp) as [ri si|si].
      * destruct ri; try (inv_pair H; exact I); [|contradiction].
        destruct Pi as ((v' & ems & -> & -> & Hsec & Hu) & HT3).
        eapply IHloop in H; eauto. now rewrite Hsec, Hse, app_assoc.
      * destruct Pi as ((-> & Hc & Hs2 & Hu) & HT3). inv_pair H.
        rewrite (rewind_save0 s si Hs2). split; [|exact HT3]. do 3 eexists. split; [reflexivity|]. cbn. repeat split; auto.
Qed.

End LoopLemmas.

Lemma it_eager_wf ctx : forall i g E, wfm_it mt i E -> it_eager i ctx = Some g -> wfm mt g E.
Proof.
  induction i as [a lo hi|a sep lo hi lead trail|j IHj|f j IHj|f j IHj|a|a lo hi ck|a|i1 IHi1 i2 IHi2]; intros g E Hw H; cbn [it_eager] in H;
    simpl in Hw; try discriminate; eauto.
  - destruct (cfg_fails ck (val_count (cval ctx))); [|discriminate]. injection H as <-. exact I.
  - injection H as <-. simpl. auto.
  - destruct Hw as (Hw1 & _). eauto.
Qed.

Lemma prim_post m s r s1 x : post m s r s1 x -> memo s1 = memo s -> TV (memo s) -> postm m s r s1 x.
Proof. intros P M T. destruct r; cbn; auto; (split; [exact P | rewrite M; exact T]). Qed.

Lemma memo_skip_while ws : forall k s, memo (skip_while toks k ws s) = memo s.
Proof.
  induction k as [|k IH]; intros s; cbn [skip_while]; [reflexivity|].
  destruct (nth_error toks (cur s)) as [t|]; [|reflexivity]. destruct (memN t ws); [|reflexivity]. now rewrite IH.
Qed.
Hint Rewrite memo_skip_while : memo.

Theorem refine_memo : forall n, Rm (go n) (sem n).
Proof.
  induction n as [|n IH]; intros m g ctx s r s1 H Hinv HT (Hg & He & Hcv).
  { cbn in H. inv_pair H. exact I. }
  assert (HWc : WFc ctx) by (split; assumption).
  destruct g; cbn [Machine.go] in H; cbn [Sem.sem]; simpl in Hg; try (destruct Hg; fail).
  - (* End *)
    unfold next in H. destruct (nth_error toks (cur s)) as [t|] eqn:Et; inv_pair H; cbn; (split; [|solve_tv]).
    + exists []. rewrite rewind_save0 by reflexivity. cbn. rewrite app_nil_r. split; reflexivity.
    + exists VUnit, (cur s), []. rewrite app_nil_r. repeat split; auto.
  - (* Empty *)
    inv_pair H. split; [|solve_tv]. exists VUnit, (cur s), []. rewrite app_nil_r. repeat split; auto.
  - (* Any *) apply prim_post; [exact (one_tok_refines _ _ _ _ _ _ _ _ _ H Hinv) | exact (memo_one_tok _ _ _ _ _ _ H) | exact HT].
  - (* Just *)
    unfold just_go in H. destruct (just_loop K toks spn ts s) as [b s2] eqn:E.
    pose proof (memo_just_loop _ _ _ _ E) as M.
    pose proof (just_loop_refines _ _ _ _ _ _ _ E Hinv) as P.
    destruct (just_sem K toks spn ts (cur s) (alt s)) as [[p1|] a1]; destruct P as (-> & P); inv_pair H; (split; [|rewrite M; exact HT]).
    + destruct P as (<- & <- & Hsec & Hu). do 3 eexists. split; [reflexivity|].
      rewrite Hsec, app_nil_r. repeat split; auto.
    + destruct P as (<- & Hsec). exists []. rewrite Hsec, app_nil_r. split; reflexivity.
  - (* OneOf *) apply prim_post; [exact (one_tok_refines _ _ _ _ _ _ _ _ _ H Hinv) | exact (memo_one_tok _ _ _ _ _ _ H) | exact HT].
  - (* NoneOf *) apply prim_post; [exact (one_tok_refines _ _ _ _ _ _ _ _ _ H Hinv) | exact (memo_one_tok _ _ _ _ _ _ H) | exact HT].
  - (* Select *) apply prim_post; [exact (one_tok_refines _ _ _ _ _ _ _ _ _ H Hinv) | exact (memo_one_tok _ _ _ _ _ _ H) | exact HT].
  - (* Custom *)
    destruct (custom_loop toks ts s) as [b s2] eqn:E.
    pose proof (memo_custom_loop _ _ _ _ E) as M.
    destruct (custom_loop_refines _ _ _ _ _ E Hinv) as (Hc & Ha & Hsec & Hu). rewrite Hc.
    destruct b; inv_pair H; (split; [|cbn [memo Machine.alt_err set_alt]; rewrite ?M; exact HT]).
    + do 3 eexists. split; [rewrite Ha; reflexivity|]. rewrite Hsec, app_nil_r. repeat split; auto.
    + exists []. cbn. rewrite Ha, Hsec, app_nil_r. split; reflexivity.
  - (* Map *)
    destruct (go n m g ctx s) as [r1 s2] eqn:E. use IH E.
    destruct r1; try trivial_res H; inv_pair H.
    + ok_elim P. cbn. fin_ok.
    + err_elim P. cbn. fin_err.
  - (* MapWith *)
    destruct (go n m g ctx s) as [r1 s2] eqn:E. use IH E.
    destruct r1; try trivial_res H; inv_pair H.
    + ok_elim P. cbn. rewrite Hu. fin_ok.
    + err_elim P. cbn. fin_err.
  - (* To *)
    destruct (go n Check g ctx s) as [r1 s2] eqn:E. use IH E.
    destruct r1; try trivial_res H; inv_pair H.
    + ok_elim P. cbn. fin_ok.
    + err_elim P. cbn. fin_err.
  - (* Ignored *)
    destruct (go n Check g ctx s) as [r1 s2] eqn:E. use IH E.
    destruct r1; try trivial_res H; inv_pair H.
    + ok_elim P. cbn. fin_ok.
    + err_elim P. cbn. fin_err.
  - (* ToSpan *)
    destruct (go n m g ctx s) as [r1 s2] eqn:E. use IH E.
    destruct r1; try trivial_res H; inv_pair H.
    + ok_elim P. cbn. fin_ok.
    + err_elim P. cbn. fin_err.
  - (* ToSlice *)
    destruct (go n Check g ctx s) as [r1 s2] eqn:E. use IH E.
    destruct r1; try trivial_res H; inv_pair H.
    + ok_elim P. cbn. fin_ok.
    + err_elim P. cbn. fin_err.
  - (* Filter *)
    destruct (go n Emit g ctx s) as [r1 s2] eqn:E. use IH E.
    destruct r1; try trivial_res H.
    + ok_elim P. subst v. cbn in H |- *. destruct (holds p v'); inv_pair H.
      * fin_ok.
      * cbn. fin_err.
    + inv_pair H. err_elim P. cbn. fin_err.
  - (* TryMap *)
    destruct (go n Emit g ctx (set_alt s None)) as [r1 s2] eqn:E. use IH E.
    destruct r1; try trivial_res H.
    + ok_elim P. subst v. cbn in H |- *. destruct (holds p v'); inv_pair H.
      * split; [|solve_tv]. do 3 eexists. split; [rewrite join_alt_alt'; reflexivity|]. stsimpl. repeat split; auto.
      * cbn. fin_err.
    + inv_pair H. err_elim P. cbn. split; [|solve_tv]. eexists. split; [rewrite join_alt_alt'; reflexivity|]. stsimpl. exact Hsec.
  - (* TryMapWith *)
    destruct (go n Emit g ctx s) as [r1 s2] eqn:E. use IH E.
    destruct r1; try trivial_res H.
    + ok_elim P. subst v. cbn in H |- *. destruct (holds p v'); inv_pair H.
      * fin_ok.
      * cbn. fin_err.
    + inv_pair H. err_elim P. cbn. fin_err.
  - (* Validate *)
    destruct (go n Emit g ctx s) as [r1 s2] eqn:E. use IH E.
    destruct r1; try trivial_res H.
    + ok_elim P. subst v. cbn in H |- *. inv_pair H. destruct (holds p v'); cbn.
      * split; [|solve_tv]. do 3 eexists. split; [reflexivity|]. cbn. rewrite Hsec, app_assoc. repeat split; auto.
      * fin_ok.
    + inv_pair H. err_elim P. cbn. fin_err.
  - (* Then *)
    destruct Hg as (Hg1 & Hg2).
    destruct (go n m g1 ctx s) as [r1 s2] eqn:E1. use IH E1.
    destruct r1; try trivial_res H.
    + ok_elim P. cbn. destruct (go n m g2 ctx s2) as [r2 s3] eqn:E2. use IH E2.
      destruct r2; try trivial_res H; inv_pair H.
      * ok_elim P. cbn. fin_ok.
      * err_elim P. cbn. fin_err.
    + inv_pair H. err_elim P. cbn. fin_err.
  - (* IgnoreThen *)
    destruct Hg as (Hg1 & Hg2).
    destruct (go n Check g1 ctx s) as [r1 s2] eqn:E1. use IH E1.
    destruct r1; try trivial_res H.
    + ok_elim P. cbn. destruct (go n m g2 ctx s2) as [r2 s3] eqn:E2. use IH E2.
      destruct r2; try trivial_res H; inv_pair H.
      * ok_elim P. cbn. fin_ok.
      * err_elim P. cbn. fin_err.
    + inv_pair H. err_elim P. cbn. fin_err.
  - (* ThenIgnore *)
    destruct Hg as (Hg1 & Hg2).
    destruct (go n m g1 ctx s) as [r1 s2] eqn:E1. use IH E1.
    destruct r1; try trivial_res H.
    + ok_elim P. cbn. destruct (go n Check g2 ctx s2) as [r2 s3] eqn:E2. use IH E2.
      destruct r2; try trivial_res H; inv_pair H.
      * ok_elim P. cbn. fin_ok.
      * err_elim P. cbn. fin_err.
    + inv_pair H. err_elim P. cbn. fin_err.
  - (* DelimitedBy *)
    destruct Hg as (Hg1 & Hg2 & Hg3).
    destruct (go n Check g2 ctx s) as [r1 s2] eqn:E1. use IH E1.
    destruct r1; try trivial_res H.
    + ok_elim P. cbn. destruct (go n m g1 ctx s2) as [r2 s3] eqn:E2. use IH E2.
      destruct r2; try trivial_res H.
      * ok_elim P. cbn.
        destruct (go n Check g3 ctx s3) as [r3 s4] eqn:E3. use IH E3.
        destruct r3; try trivial_res H; inv_pair H.
        -- ok_elim P. cbn. fin_ok.
        -- err_elim P. cbn. fin_err.
      * inv_pair H. err_elim P. cbn. fin_err.
    + inv_pair H. err_elim P. cbn. fin_err.
  - (* PaddedBy *)
    destruct Hg as (Hg1 & Hg2).
    destruct (go n Check g2 ctx s) as [r1 s2] eqn:E1. use IH E1.
    destruct r1; try trivial_res H.
    + ok_elim P. cbn. destruct (go n m g1 ctx s2) as [r2 s3] eqn:E2. use IH E2.
      destruct r2; try trivial_res H.
      * ok_elim P. cbn.
        destruct (go n Check g2 ctx s3) as [r3 s4] eqn:E3. use IH E3.
        destruct r3; try trivial_res H; inv_pair H.
        -- ok_elim P. cbn. fin_ok.
        -- err_elim P. cbn. fin_err.
      * inv_pair H. err_elim P. cbn. fin_err.
    + inv_pair H. err_elim P. cbn. fin_err.
  - (* Group *)
    apply wfl_fix in Hg.
    eapply (group_loop_refines _ _ IH) with (acce := []) in H; eauto.
    now rewrite app_nil_r.
  - (* Or *)
    destruct Hg as (Hg1 & Hg2).
    eapply (choice_loop_refines _ _ IH) in H; eauto. cbn. tauto.
  - (* Choice *)
    apply wfl_fix in Hg.
    destruct gs as [|g1 [|g2 gs]].
    + inv_pair H. split; [|solve_tv]. exists [].
      destruct (fail_here_refines K toks spn [] s) as (Ha & Hs2). rewrite Ha, Hs2, app_nil_r. split; reflexivity.
    + destruct Hg as (Hg1 & _). cbn. destruct (go n m g1 ctx s) as [r1 s2] eqn:E1. use IH E1. inv_pair H.
      destruct r1; try exact I.
      * ok_elim P. fin_ok.
      * err_elim P. fin_err.
    + eapply (choice_loop_refines _ _ IH) in H; eauto.
  - (* ChoiceVec *)
    apply wfl_fix in Hg.
    destruct gs as [|g1 gs].
    + cbn [q_emptychoice_none Q_strict] in H. inv_pair H. split; [|solve_tv]. exists [].
      destruct (fail_here_refines K toks spn [] s) as (Ha & Hs2). rewrite Ha, Hs2, app_nil_r. split; reflexivity.
    + eapply (choicevec_loop_refines _ _ IH) in H; eauto. exists []. now rewrite app_nil_r.
  - (* OrNot *)
    destruct (go n m g ctx s) as [r1 s2] eqn:E. use IH E.
    destruct r1; try trivial_res H; inv_pair H.
    + ok_elim P. fin_ok.
    + err_elim P. rewrite (rewind_save _ _ _ Hsec). split; [|solve_tv]. do 3 eexists. split; [reflexivity|].
      cbn. rewrite app_nil_r. repeat split; auto.
  - (* Not *)
    destruct (go n Check g ctx (set_alt s None)) as [r1 s2] eqn:E. use IH E.
    destruct r1; try trivial_res H.
    + ok_elim P. rewrite (rewind_save _ _ _ Hsec) in H. cbn in H. unfold next in H. cbn in H.
      destruct (nth_error toks (cur s)) as [t|]; inv_pair H; cbn; (split; [|solve_tv]); exists []; rewrite app_nil_r; split; reflexivity.
    + inv_pair H. err_elim P. rewrite (rewind_save _ _ _ Hsec). split; [|solve_tv]. do 3 eexists. split; [reflexivity|].
      cbn. rewrite app_nil_r. repeat split; auto.
  - (* AndIs *)
    destruct Hg as (Hg1 & Hg2).
    destruct (go n m g1 ctx s) as [r1 s2] eqn:E1. use IH E1.
    destruct r1; try trivial_res H.
    + ok_elim P. cbn. cbn [q_look_trunc Q_strict] in H.
      destruct (go n Check g2 ctx (reposition s2 (save s))) as [r2 s3] eqn:E2.
      pose proof (IH _ _ _ _ _ _ E2) as P2. cbn [postm Refine.post] in P2.
      assert (Hi2 : inv (reposition s2 (save s))) by (unfold reposition, save, Base.inv; cbn; exact Hinv).
      assert (Ht2 : TV (memo (reposition s2 (save s)))) by solve_tv.
      assert (Hw2 : WF g2 ctx) by solve_wf.
      specialize (P2 Hi2 Ht2 Hw2). unfold reposition, save in P2. cbn [cur alt sec ust] in P2.
      destruct r2; try trivial_res H; inv_pair H.
      * ok_elim P2. cbn.
        assert (Hrw : rewind s3 (save s2) = mkSt (cur s2) (sec s2) (alt s3) (ust s2) (memo s3)).
        { eapply rewind_save. exact Hsec0. }
        rewrite Hrw. fin_ok.
      * err_elim P2. cbn. fin_err.
    + inv_pair H. err_elim P. rewrite (rewind_save _ _ _ Hsec). split; [|solve_tv]. exists []. cbn. rewrite app_nil_r. split; reflexivity.
  - (* Rewind *)
    destruct (go n m g ctx s) as [r1 s2] eqn:E. use IH E.
    destruct r1; try trivial_res H; inv_pair H.
    + ok_elim P. cbn. unfold reposition, save. split; [|solve_tv]. do 3 eexists. split; [reflexivity|]. cbn. repeat split; auto.
    + err_elim P. cbn. fin_err.
  - (* RepUnit *)
    assert (Hdrive : forall asserted,
      match drive spn (go n) n Check i ctx (mk_iter i ctx) None (fun _ => asserted) 0 [] s with
      | (Ok _, _, _, s2) => (Ok (bindv m VUnit), s2)
      | (res, _, _, s2) => (res, s2)
      end = (r, s1) ->
      postm m s r s1
        match sdrive toks spn (sem n) n i ctx (mk_iter i ctx) None [] [] (cur s) (alt s) with
        | Some (Some (_, _, p1, e1), a1) => Some (Some (VUnit, p1, e1), a1)
        | Some (None, a1) => Some (None, a1)
        | None => None
        end).
    { intros asserted H'.
      destruct (drive spn (go n) n Check i ctx (mk_iter i ctx) None (fun _ => asserted) 0 [] s)
        as [[[r0 acc'] fl] s2] eqn:E.
      eapply (drive_refines _ _ IH s) with (sacc := []) (sacce := []) in E; eauto; [|now rewrite app_nil_r].
      destruct r0; try trivial_res H'; inv_pair H'.
      - destruct E as ((sitems & ems & -> & _ & Hsec & Hu) & HT2). fin_ok.
      - destruct E as ((ext & -> & Hsec) & HT2). fin_err. }
    destruct i as [a lo hi| | | | | | | |]; try (eapply Hdrive; exact H).
    destruct lo as [|lo]; [|eapply Hdrive; exact H].
    destruct hi as [hi|]; [eapply Hdrive; exact H|].
    eapply (rep_fast_refines _ _ IH s) with (c := 0) (sacc := []) (sacce := []) in H; eauto; [|now rewrite app_nil_r].
    destruct r; try exact I; [|contradiction].
    destruct H as ((sitems & ems & Hs & -> & Hsec & Hu) & HT2). cbn [mk_iter]. rewrite Hs. fin_ok.
  - (* Collect *)
    match type of H with context [drive ?a ?b ?c ?d ?e ?f ?g ?h ?pa 0 [] s] =>
      destruct (drive a b c d e f g h pa 0 [] s) as [[[r0 acc'] fl] s2] eqn:E end.
    eapply (drive_refines _ _ IH s) with (sacc := []) (sacce := []) in E; eauto; [|now rewrite app_nil_r].
    destruct r0; try trivial_res H; inv_pair H.
    + destruct E as ((sitems & ems & -> & Hrel & Hsec & Hu) & HT2). split; [|solve_tv]. do 3 eexists. split; [reflexivity|].
      repeat split; auto. destruct m; [|reflexivity]. cbn.
      rewrite (irel_vals _ _ _ Hrel), (Forall2_len _ _ _ Hrel). reflexivity.
    + destruct E as ((ext & -> & Hsec) & HT2). fin_err.
  - (* CollectExactly *)
    destruct n0 as [|k0]; [destruct (it_eager i ctx) as [e0|] eqn:Ee; [apply (IH _ _ _ _ _ _ H Hinv HT); unfold WF; split; [exact (it_eager_wf _ _ _ _ Hg Ee)|split; assumption]|]|].
    + match type of H with context [drive ?a ?b ?c ?d ?e ?f ?g ?h ?pa 0 [] s] =>
        destruct (drive a b c d e f g h pa 0 [] s) as [[[r0 acc'] fl] s2] eqn:E end.
      eapply (drive_refines _ _ IH s) with (sacc := []) (sacce := []) in E; eauto; [|now rewrite app_nil_r].
      destruct r0; try (destruct fl; trivial_res H).
      * destruct E as ((sitems & ems & -> & Hrel & Hsec & Hu) & HT2). destruct fl; cbn [q_exact_noalt Q_strict] in H; inv_pair H; (split; [|solve_tv]).
        -- destruct (fail_here_refines K toks spn [pSomethingElse] s2) as (Ha & Hs2). exists ems. rewrite Ha, Hs2. split; [reflexivity|exact Hsec].
        -- do 3 eexists. split; [reflexivity|].
          repeat split; auto. destruct m; [|reflexivity]. cbn. rewrite (irel_vals _ _ _ Hrel). reflexivity.
      * destruct E as ((ext & -> & Hsec) & HT2). destruct fl; inv_pair H; fin_err.
    + match type of H with context [drive ?a ?b ?c ?d ?e ?f ?g ?h ?pa 0 [] s] =>
        destruct (drive a b c d e f g h pa 0 [] s) as [[[r0 acc'] fl] s2] eqn:E end.
      eapply (drive_refines _ _ IH s) with (sacc := []) (sacce := []) in E; eauto; [|now rewrite app_nil_r].
      destruct r0; try (destruct fl; trivial_res H).
      * destruct E as ((sitems & ems & -> & Hrel & Hsec & Hu) & HT2). destruct fl; cbn [q_exact_noalt Q_strict] in H; inv_pair H; (split; [|solve_tv]).
        -- destruct (fail_here_refines K toks spn [pSomethingElse] s2) as (Ha & Hs2). exists ems. rewrite Ha, Hs2. split; [reflexivity|exact Hsec].
        -- do 3 eexists. split; [reflexivity|].
          repeat split; auto. destruct m; [|reflexivity]. cbn. rewrite (irel_vals _ _ _ Hrel). reflexivity.
      * destruct E as ((ext & -> & Hsec) & HT2). destruct fl; inv_pair H; fin_err.
  - (* Foldl *)
    destruct Hg as (Hg1 & Hgi).
    destruct (go n m g ctx s) as [r1 s2] eqn:E1. use IH E1.
    destruct r1; try trivial_res H.
    + ok_elim P. cbn.
      match type of H with context [drive ?a ?b ?c ?d ?e ?f ?g ?h ?pa 0 [] s2] =>
        destruct (drive a b c d e f g h pa 0 [] s2) as [[[r0 acc'] fl] s3] eqn:E end.
      eapply (drive_refines _ _ IH s2) with (sacc := []) (sacce := []) in E; eauto; [|now rewrite app_nil_r].
      destruct r0; try trivial_res H; inv_pair H.
      * destruct E as ((sitems & ems0 & -> & Hrel & Hsec0 & Hu0) & HT2). split; [|solve_tv]. do 3 eexists. split; [reflexivity|].
        repeat split; auto; [|rewrite Hsec0, Hsec, app_assoc; reflexivity].
        repeat match goal with Hq : ?x = bindv _ _ |- _ => subst x end. destruct m; [|reflexivity]. cbn. f_equal.
        apply fold_left_rel with (P := irel toks Emit); [apply Forall2_rev'; exact Hrel|].
        intros a0 x y (_ & _ & _ & Hv). now rewrite Hv.
      * destruct E as ((ext & -> & Hsec0) & HT2). split; [|solve_tv]. eexists. split; [reflexivity|]. rewrite Hsec0, Hsec, <- app_assoc. reflexivity.
    + inv_pair H. err_elim P. cbn. fin_err.
  - (* Foldr *)
    destruct Hg as (Hgi & Hg1).
    match type of H with context [drive ?a ?b ?c ?d ?e ?f ?g ?h ?pa 0 [] s] =>
      destruct (drive a b c d e f g h pa 0 [] s) as [[[r0 acc'] fl] s2] eqn:E end.
    eapply (drive_refines _ _ IH s) with (sacc := []) (sacce := []) in E; eauto; [|now rewrite app_nil_r].
    destruct r0; try trivial_res H.
    + destruct E as ((sitems & ems0 & -> & Hrel & Hsec0 & Hu0) & HT2).
      destruct (go n m g ctx s2) as [r2 s3] eqn:E2. use IH E2.
      destruct r2; try trivial_res H; inv_pair H.
      * ok_elim P. cbn. split; [|solve_tv]. do 3 eexists. split; [reflexivity|].
        repeat split; auto; [|rewrite Hsec, Hsec0, app_assoc; reflexivity].
        repeat match goal with Hq : ?x = bindv _ _ |- _ => subst x end. destruct m; [|reflexivity]. cbn. f_equal.
        apply fold_left_rel with (P := irel toks Emit); [exact Hrel|].
        intros a0 x y (_ & _ & _ & Hv). now rewrite Hv.
      * err_elim P. cbn. split; [|solve_tv]. eexists. split; [reflexivity|]. rewrite Hsec, Hsec0, <- app_assoc. reflexivity.
    + inv_pair H. destruct E as ((ext & -> & Hsec) & HT2). fin_err.
  - (* FoldlWith *)
    destruct Hg as (Hg1 & Hgi).
    destruct (go n m g ctx s) as [r1 s2] eqn:E1. use IH E1.
    destruct r1; try trivial_res H.
    + ok_elim P. cbn.
      match type of H with context [drive ?a ?b ?c ?d ?e ?f ?g ?h ?pa 0 [] s2] =>
        destruct (drive a b c d e f g h pa 0 [] s2) as [[[r0 acc'] fl] s3] eqn:E end.
      eapply (drive_refines _ _ IH s2) with (sacc := []) (sacce := []) in E; eauto; [|now rewrite app_nil_r].
      destruct r0; try trivial_res H; inv_pair H.
      * destruct E as ((sitems & ems0 & -> & Hrel & Hsec0 & Hu0) & HT2). split; [|solve_tv]. do 3 eexists. split; [reflexivity|].
        repeat split; auto; [|rewrite Hsec0, Hsec, app_assoc; reflexivity].
        repeat match goal with Hq : ?x = bindv _ _ |- _ => subst x end. destruct m; [|reflexivity]. cbn. f_equal.
        apply fold_left_rel with (P := irel toks Emit); [apply Forall2_rev'; exact Hrel|].
        intros a0 x y (_ & Ha & Hust & Hv). now rewrite Hv, Hust, Ha.
      * destruct E as ((ext & -> & Hsec0) & HT2). split; [|solve_tv]. eexists. split; [reflexivity|]. rewrite Hsec0, Hsec, <- app_assoc. reflexivity.
    + inv_pair H. err_elim P. cbn. fin_err.
  - (* FoldrWith *)
    destruct Hg as (Hgi & Hg1).
    match type of H with context [drive ?a ?b ?c ?d ?e ?f ?g ?h ?pa 0 [] s] =>
      destruct (drive a b c d e f g h pa 0 [] s) as [[[r0 acc'] fl] s2] eqn:E end.
    eapply (drive_refines _ _ IH s) with (sacc := []) (sacce := []) in E; eauto; [|now rewrite app_nil_r].
    destruct r0; try trivial_res H.
    + destruct E as ((sitems & ems0 & -> & Hrel & Hsec0 & Hu0) & HT2).
      destruct (go n m g ctx s2) as [r2 s3] eqn:E2. use IH E2.
      destruct r2; try trivial_res H; inv_pair H.
      * ok_elim P. cbn. split; [|solve_tv]. do 3 eexists. split; [reflexivity|].
        repeat split; auto; [|rewrite Hsec, Hsec0, app_assoc; reflexivity].
        repeat match goal with Hq : ?x = bindv _ _ |- _ => subst x end. destruct m; [|reflexivity]. cbn. f_equal.
        apply fold_left_rel with (P := irel toks Emit); [exact Hrel|].
        intros a0 x y (Hb & _ & _ & Hv). now rewrite Hv, Hb, Hu.
      * err_elim P. cbn. split; [|solve_tv]. eexists. split; [reflexivity|]. rewrite Hsec, Hsec0, <- app_assoc. reflexivity.
    + inv_pair H. destruct E as ((ext & -> & Hsec) & HT2). fin_err.
  - (* RecoverVia *)
    destruct Hg as (Hg1 & Hg2).
    destruct (go n m g1 ctx s) as [r1 s2] eqn:E1. use IH E1.
    destruct r1; try trivial_res H.
    + inv_pair H. ok_elim P. cbn. fin_ok.
    + err_elim P. rewrite (rewind_save _ _ _ Hsec) in H. cbn in H.
      destruct (alt s2) as [a0|]; [|trivial_res H].
      match type of H with context [go n m g2 ctx ?st] => destruct (go n m g2 ctx st) as [r2 s3] eqn:E2 end.
      pose proof (IH _ _ _ _ _ _ E2 Hinv) as P2.
      assert (Ht2 : TV (memo s2)) by exact HT0. assert (Hw2 : WF g2 ctx) by (unfold WF; auto).
      specialize (P2 Ht2 Hw2). cbn [postm Refine.post cur alt sec ust] in P2.
      destruct r2; try trivial_res H; inv_pair H.
      * ok_elim P2. cbn. split; [|solve_tv]. do 3 eexists. split; [reflexivity|]. stsimpl. rewrite Hsec0, app_assoc. repeat split; auto.
      * err_elim P2. cbn.
        assert (Hrw : rewind (set_alt s3 (Some a0)) (save s) = mkSt (cur s) (sec s) (Some a0) (ust s) (memo s3)).
        { exact (rewind_save s (set_alt s3 (Some a0)) _ Hsec0). }
        rewrite Hrw. split; [|exact HT1]. exists []. cbn. rewrite app_nil_r. split; reflexivity.
  - (* RecoverSkipUntil *)
    destruct Hg as (Hg1 & Hg2 & Hg3).
    destruct (go n m g1 ctx s) as [r1 s2] eqn:E1. use IH E1.
    destruct r1; try trivial_res H.
    + inv_pair H. ok_elim P. cbn. fin_ok.
    + err_elim P. rewrite (rewind_save _ _ _ Hsec) in H. cbn in H.
      destruct (alt s2) as [a0|]; [|trivial_res H].
      match type of H with context [skip_until_loop ?a ?b ?c ?d ?e ?f ?g ?h ?st] =>
        destruct (skip_until_loop a b c d e f g h st) as [r2 s3] eqn:E2 end.
      eapply (skip_until_refines _ _ IH s) with (acce := []) in E2; eauto; [|now rewrite app_nil_r].
      cbn [cur alt set_alt] in E2. cbn.
      destruct r2; try trivial_res H; inv_pair H.
      * destruct E2 as ((ems & -> & -> & Hsec0 & Hu0) & HT2). fin_ok.
      * destruct E2 as ((ext0 & ra & -> & Ha & Hsec0) & HT2).
        rewrite (rewind_save _ _ _ Hsec0). split; [|exact HT2]. exists []. cbn. rewrite app_nil_r, Ha. split; reflexivity.
  - (* RecoverSkipRetry *)
    destruct Hg as (Hg1 & Hg2 & Hg3).
    destruct (go n m g1 ctx s) as [r1 s2] eqn:E1. use IH E1.
    destruct r1; try trivial_res H.
    + inv_pair H. ok_elim P. cbn. fin_ok.
    + err_elim P. rewrite (rewind_save _ _ _ Hsec) in H. cbn in H.
      destruct (alt s2) as [a0|]; [|trivial_res H].
      match type of H with context [skip_retry_loop ?a ?b ?c ?d ?e ?f ?g ?h ?st] =>
        destruct (skip_retry_loop a b c d e f g h st) as [r2 s3] eqn:E2 end.
      eapply (skip_retry_refines _ _ IH s) with (acce := []) in E2; eauto; [|now rewrite app_nil_r].
      cbn [cur alt set_alt] in E2. cbn.
      destruct r2; try trivial_res H; inv_pair H.
      * destruct E2 as ((v' & ems & -> & -> & Hsec0 & Hu0) & HT2). fin_ok.
      * destruct E2 as ((ext0 & ra & -> & Ha & Hsec0) & HT2).
        rewrite (rewind_save _ _ _ Hsec0). split; [|exact HT2]. exists []. cbn. rewrite app_nil_r, Ha. split; reflexivity.
  - (* Labelled *)
    destruct (go n m g ctx (set_alt s None)) as [r1 s2] eqn:E. use IH E.
    destruct r1; try trivial_res H; inv_pair H.
    + ok_elim P.
      destruct is_ctx; destruct (alt s2) as [[q e]|]; cbn; (split; [|solve_tv]); do 3 eexists; (split; [reflexivity|]);
        cbn; rewrite ?Hsec, ?firstn_app_exact, ?skipn_app_exact; repeat split; auto.
    + err_elim P.
      destruct is_ctx; destruct (alt s2) as [[q e]|]; cbn; (split; [|solve_tv]); eexists; (split; [reflexivity|]);
        cbn; rewrite ?Hsec, ?firstn_app_exact, ?skipn_app_exact; reflexivity.
  - (* MapErr *)
    destruct (go n m g ctx (set_alt s None)) as [r1 s2] eqn:E. use IH E.
    destruct r1; try trivial_res H.
    + inv_pair H. ok_elim P. cbn. split; [|solve_tv]. do 3 eexists. split; [rewrite join_alt_alt'; reflexivity|]. stsimpl. repeat split; auto.
    + err_elim P. destruct (alt s2) as [[q e]|]; [|trivial_res H]. inv_pair H. cbn. fin_err.
  - (* JustCfg *)
    unfold just_go in H. destruct (just_loop K toks spn (val_toks (cval ctx)) s) as [b s2] eqn:E.
    pose proof (memo_just_loop _ _ _ _ E) as M.
    pose proof (just_loop_refines _ _ _ _ _ _ _ E Hinv) as P.
    destruct (just_sem K toks spn (val_toks (cval ctx)) (cur s) (alt s)) as [[p1|] a1]; destruct P as (-> & P); inv_pair H; (split; [|rewrite M; exact HT]).
    + destruct P as (<- & <- & Hsec & Hu). do 3 eexists. split; [reflexivity|].
      rewrite Hsec, app_nil_r. repeat split; auto.
    + destruct P as (<- & Hsec). exists []. rewrite Hsec, app_nil_r. split; reflexivity.
  - (* Memo *)
    destruct Hg as (Hmt & Hg).
    assert (Hctx : ctx = mkEnv c0 (crec ctx)) by (destruct ctx as [cv cr]; cbn in *; now subst cv).
    cbn [memo_on Q_strict negb memo_strict q_memo_take andb] in H.
    destruct (memo_get (memo s) (cur s) id) as [[[[q e]|]|]|] eqn:Eg; try trivial_res H.
    + (* a cached failure *)
      destruct (Nat.ltb n (memo_fuel (memo s) (cur s) id)) eqn:Ef; [trivial_res H|]. inv_pair H.
      apply Nat.ltb_ge in Ef.
      destruct (HT _ _ _ Eg) as (a & E & Hmt' & Hv). rewrite Hmt in Hmt'. injection Hmt' as <- <-.
      rewrite <- Hctx in Hv. apply (sem_mono K toks spn _ n) in Hv; [|exact Ef]. rewrite Hv.
      split; [|exact HT]. exists []. rewrite app_nil_r. split; reflexivity.
    + (* first visit *)
      set (s0 := set_memo s (memo_put (memo s) (cur s) id None n)) in H.
      destruct (go n m g ctx (set_alt s0 None)) as [r1 s2] eqn:E.
      pose proof (IH _ _ _ _ _ _ E) as P.
      assert (Hi0 : inv (set_alt s0 None)) by exact Hinv.
      assert (Ht0 : TV (memo (set_alt s0 None))) by (cbn [memo set_alt s0 set_memo]; apply TV_put_other; [exact HT | discriminate]).
      assert (Hw0 : WF g ctx) by (unfold WF; auto).
      specialize (P Hi0 Ht0 Hw0). cbn [postm Refine.post cur alt sec ust set_alt s0 set_memo] in P.
      destruct r1; try trivial_res H; inv_pair H.
      * ok_elim P. cbn [cur sec] in *. split.
        -- do 3 eexists. cbn [cur alt sec ust set_memo]. rewrite join_alt_alt', join_alt_cur, join_alt_sec, join_alt_ust. cbn [cur alt sec ust set_alt].
           split; [reflexivity|]. repeat split; auto.
        -- cbn [memo set_memo]. apply TV_del. exact HT0.
      * err_elim P. cbn [cur sec] in *. split.
        -- exists ext. cbn [cur alt sec ust set_memo]. rewrite join_alt_alt', join_alt_sec. cbn [alt sec set_alt]. split; [reflexivity|exact Hsec].
        -- cbn [memo set_memo]. destruct (alt s2) as [e2|] eqn:Ea.
           ++ apply TV_put_valid; [exact HT0|]. exists g, (crec ctx). split; [exact Hmt|]. rewrite <- Hctx. exact Hs.
           ++ apply TV_put_other; [exact HT0 | discriminate].
  - (* Rec *)
    apply (IH _ _ _ _ _ _ H Hinv HT). unfold WF. cbn [crec cval]. repeat split; auto. apply wfenv_cons; auto.
  - (* Var *)
    destruct (nth_error (crec ctx) k) as [a|] eqn:Ek; [|trivial_res H].
    apply (IH _ _ _ _ _ _ H Hinv HT). unfold WF. cbn [crec cval].
    split; [exact (He _ _ Ek)|]. split; [apply wfenv_skipn; exact He | exact Hcv].
  - (* Pratt *)
    destruct Hg as (Hga & Hgo). apply wfops_fix in Hgo.
    exact (proj1 (pratt_refines _ _ IH m g ops ctx HWc Hga Hgo n) _ _ _ _ H Hinv HT).
  - (* GroupArr *)
    apply wfl_fix in Hg.
    eapply (group_loop_refines _ _ IH) with (acce := []) in H; eauto.
    now rewrite app_nil_r.
  - (* Skip *)
    inv_pair H. destruct (skip_loop_spec _ n0 s Hinv) as (Hc & Hs & Ha & Hv). split; [|solve_tv].
    exists VUnit, (cur (skip_loop toks n0 s)), []. rewrite Hc, Hs, Ha, app_nil_r. repeat split; auto.
    rewrite <- Hc. exact Hv.
  - (* ExtWrap *)
    destruct (go n m g ctx s) as [r1 s2] eqn:E. use IH E.
    destruct r1; try trivial_res H.
    + inv_pair H. ok_elim P. cbn. fin_ok.
    + err_elim P. destruct (alt s2) as [[q e]|]; [|trivial_res H]. inv_pair H. cbn. fin_err.
  - (* Prog *)
    destruct (prog_loop toks spn ops (cur s) [] [] s) as [[b acc] s2] eqn:E.
    destruct (prog_loop_refines _ _ _ _ _ _ _ _ _ _ _ E Hinv (Forall2_nil _)) as (Hp & Ha & Hsec & Hu & Hm). rewrite Hp.
    destruct b; inv_pair H; (split; [|cbn [memo Machine.alt_err set_alt]; rewrite ?Hm; exact HT]).
    + do 3 eexists. split; [rewrite Ha; reflexivity|]. rewrite Hsec, app_nil_r. repeat split; auto.
    + exists []. cbn. rewrite Ha, Hsec, app_nil_r. split; reflexivity.
  - (* Padded *)
    destruct (skip_while_spec toks ws (length toks) s Hinv) as (Hc0 & Hs0 & Ha0 & Hm0 & Hi0).
    destruct (go n m g ctx (skip_while toks (length toks) ws s)) as [r1 s2] eqn:E.
    pose proof (IH _ _ _ _ _ _ E Hi0) as P.
    assert (Ht0 : TV (memo (skip_while toks (length toks) ws s))) by (rewrite Hm0; exact HT).
    assert (Hw0 : WF g ctx) by (unfold WF; auto).
    specialize (P Ht0 Hw0). cbn [postm Refine.post] in P. rewrite Hc0, Ha0 in P.
    destruct r1; try trivial_res H; inv_pair H.
    + ok_elim P. assert (Hi2 : inv s2) by exact Hu.
      destruct (skip_while_spec toks ws (length toks) s2 Hi2) as (Hc2 & Hs2 & Ha2 & Hm2 & Hi3).
      split; [|rewrite Hm2; exact HT0].
      do 3 eexists. rewrite Ha2, Hc2, Hs2. split; [reflexivity|]. split; [assumption|]. split; [reflexivity|].
      split; [rewrite Hsec, Hs0; reflexivity|]. unfold Base.inv in Hi3. rewrite Hc2 in Hi3. exact Hi3.
    + err_elim P. cbn. split; [|exact HT0]. exists ext. split; [reflexivity|]. rewrite Hsec, Hs0. reflexivity.
Qed.

(* ---------- consequences ---------- *)
Definition answered (r : outcome) : Prop := match r with Ok _ | Err => True | _ => False end.

(* the machine with memo tables and the machine without them return the same verdict, value, end position, reported
   errors, pending error and user state whenever both answer *)
Theorem memo_tables_transparent n m g ctx s r s1 r' s1' :
  inv s -> TV (memo s) -> WF g ctx ->
  go n m g ctx s = (r, s1) -> Machine.go no_quirks K toks spn n m g ctx s = (r', s1') ->
  answered r -> answered r' ->
  r = r' /\ alt s1 = alt s1' /\ (r <> Err -> cur s1 = cur s1' /\ sec s1 = sec s1' /\ ust s1 = ust s1').
Proof.
  intros Hi HT Hw H H' A A'.
  pose proof (refine_memo n _ _ _ _ _ _ H Hi HT Hw) as P.
  pose proof (refine K toks spn n _ _ _ _ _ _ H' Hi) as P'.
  destruct r; try contradiction; destruct r'; try contradiction; cbn [postm Refine.post] in P, P'.
  - destruct P as ((v1 & p1 & e1 & Hs & Hv & Hc & Hsec & Hu) & _).
    destruct P' as (v2 & p2 & e2 & Hs' & Hv' & Hc' & Hsec' & Hu').
    rewrite Hs in Hs'. injection Hs' as <- <- <- Ha. subst. repeat split; auto; try congruence.
  - destruct P as ((v1 & p1 & e1 & Hs & _) & _). destruct P' as (ext & Hs' & _). rewrite Hs in Hs'. discriminate.
  - destruct P as ((ext & Hs & _) & _). destruct P' as (v2 & p2 & e2 & Hs' & _). rewrite Hs in Hs'. discriminate.
  - destruct P as ((ext & Hs & _) & _). destruct P' as (ext' & Hs' & _). rewrite Hs in Hs'. injection Hs' as Ha.
    split; [reflexivity|]. split; [exact Ha|]. intros X. exfalso. apply X. reflexivity.
Qed.
End MemoG.

(* at the top level: parse / check with tables = without tables (output; on success every reported error, on failure
   the primary error), for every grammar of the class, every input, whenever both answer *)
Theorem memo_run_top_transparent K toks spn mt n m g o errs o' errs' :
  wfm mt g [] ->
  run_top Q_strict K toks spn n m g = TRes o errs -> run_top no_quirks K toks spn n m g = TRes o' errs' ->
  o = o' /\ (o <> None -> errs = errs') /\ last errs (expected_found K [] None (spn 0 0)) = last errs' (expected_found K [] None (spn 0 0)).
Proof.
  intros Hw H H'. unfold run_top in H, H'.
  destruct (go Q_strict K toks spn n m (ThenIgnore g End) env0 init_st) as [r s1] eqn:E.
  destruct (go no_quirks K toks spn n m (ThenIgnore g End) env0 init_st) as [r' s1'] eqn:E'.
  assert (Hi : inv toks init_st) by reflexivity.
  assert (HT : TV K toks spn mt VUnit (memo init_st)) by apply TV_nil.
  assert (HW : WF mt VUnit (ThenIgnore g End) env0).
  { unfold WF. cbn. repeat split; auto. intros k a Hk. destruct k; discriminate. }
  destruct r; try discriminate; destruct r'; try discriminate;
    destruct (memo_tables_transparent K toks spn mt VUnit n m _ _ _ _ _ _ _ Hi HT HW E E' I I) as (Hr & Ha & Hrest).
  - injection Hr as <-. destruct (Hrest ltac:(discriminate)) as (_ & Hsec & _).
    injection H as <- <-. injection H' as <- <-. rewrite Hsec. repeat split; auto.
  - discriminate.
  - discriminate.
  - injection H as <- <-. injection H' as <- <-. split; [reflexivity|]. split; [intros X; contradiction|].
    rewrite !last_last. rewrite Ha.
    pose proof (go_good K toks spn n m (ThenIgnore g End) env0 init_st) as G. rewrite E' in G. destruct G as (G1 & _).
    cbn [fst snd] in G1. destruct (alt s1'); [reflexivity|]. exfalso. apply (G1 eq_refl). reflexivity.
Qed.

Print Assumptions refine_memo.
Print Assumptions memo_run_top_transparent.
