(* C08: what the skipping recovery strategies do, as derivations.
   skip_until: a chain of skip steps, each taken only after `until` FAILED at that position, ending at the first position
   where `until` matches - so the number of skip steps is the fewest after which `until` matches.
   skip_then_retry_until: at each position `until` is tried first (a match gives up), then one skip step, then the parser is
   retried; only an error-free retry is accepted, any other retry (failed, or successful with emitted errors) is abandoned -
   nothing of it is kept, the pending error starts afresh - and the loop goes on from after the skip. *)
From Chum Require Export SemLaws.

Section RecoveryP.
Variable K : ekind.
Variable toks : list tok.
Variable spn : nat -> nat -> span.
Variable run : srun_t.

Inductive skips (skip until : G) (ctx : env) : nat -> reg -> nat -> nat -> reg -> Prop :=
| skips_here p r v p1 e1 r1 :
    run until ctx p r = Some (Some (v, p1, e1), r1) -> skips skip until ctx p r 0 p1 r1
| skips_step p r r1 v p2 e2 r2 k p' r' :
    run until ctx p r = Some (None, r1) -> run skip ctx p r1 = Some (Some (v, p2, e2), r2) ->
    skips skip until ctx p2 r2 k p' r' -> skips skip until ctx p r (S k) p' r'.

Theorem skip_until_fewest skip until ctx : forall fuel p r acce p1 ems r',
  skip_until_sem run fuel skip until ctx p r acce = Some (Some (p1, ems), r') ->
  exists k, skips skip until ctx p r k p1 r'.
Proof.
  induction fuel as [|fuel IH]; intros p r acce p1 ems r' H; cbn [skip_until_sem] in H; [discriminate|].
  destruct (run until ctx p r) as [[[[[v q1] e1]|] r1]|] eqn:Eu; [| |discriminate].
  - injection H as <- <- <-. exists 0. eapply skips_here; eauto.
  - destruct (run skip ctx p r1) as [[[[[v q2] e2]|] r2]|] eqn:Es; try discriminate.
    destruct (IH _ _ _ _ _ _ H) as (k & Hk). exists (S k). eapply skips_step; eauto.
Qed.

(* the strategy fails exactly when a skip step fails before `until` matched *)
Theorem skip_until_gives_up_only_when_skipping_fails skip until ctx : forall fuel p r acce r',
  skip_until_sem run fuel skip until ctx p r acce = Some (None, r') ->
  exists q ra rb, run until ctx q ra = Some (None, rb) /\ run skip ctx q rb = Some (None, r').
Proof.
  induction fuel as [|fuel IH]; intros p r acce r' H; cbn [skip_until_sem] in H; [discriminate|].
  destruct (run until ctx p r) as [[[[[v q1] e1]|] r1]|] eqn:Eu; try discriminate.
  destruct (run skip ctx p r1) as [[[[[v q2] e2]|] r2]|] eqn:Es; try discriminate.
  - eapply IH; eauto.
  - injection H as <-. eauto.
Qed.

Inductive retries (g skip until : G) (ctx : env) : nat -> reg -> val -> nat -> reg -> Prop :=
| retry_ok p r r1 vs p2 e2 r2 v p3 r3 :
    run until ctx p r = Some (None, r1) -> run skip ctx p r1 = Some (Some (vs, p2, e2), r2) ->
    run g ctx p2 r2 = Some (Some (v, p3, []), r3) ->             (* an error-free retry is accepted *)
    retries g skip until ctx p r v p3 r3
| retry_again p r r1 vs p2 e2 r2 x v p' r' :
    run until ctx p r = Some (None, r1) -> run skip ctx p r1 = Some (Some (vs, p2, e2), r2) ->
    run g ctx p2 r2 = Some x ->
    (forall w q rr, x <> (Some (w, q, []), rr)) ->            (* failed, or succeeded with emitted errors: abandoned *)
    retries g skip until ctx p2 None v p' r' -> retries g skip until ctx p r v p' r'.

Theorem skip_then_retry_accepts_only_clean_retries g skip until ctx : forall fuel p r acce v p3 ems r',
  skip_retry_sem run fuel g skip until ctx p r acce = Some (Some (v, p3, ems), r') ->
  retries g skip until ctx p r v p3 r'.
Proof.
  induction fuel as [|fuel IH]; intros p r acce v p3 ems r' H; cbn [skip_retry_sem] in H; [discriminate|].
  destruct (run until ctx p r) as [[[x|] r1]|] eqn:Eu; try discriminate.
  destruct (run skip ctx p r1) as [[[[[vs p2] e2]|] r2]|] eqn:Es; try discriminate.
  destruct (run g ctx p2 r2) as [[[[[w q] eg]|] rg]|] eqn:Eg; try discriminate.
  - destruct eg as [|e0 eg].
    + injection H as <- <- <- <-. eapply retry_ok; eauto.
    + eapply retry_again; eauto. intros w' q' rr Hc. discriminate.
  - eapply retry_again; eauto. intros w' q' rr Hc. discriminate.
Qed.

(* it gives up when `until` matches (before any further skipping) or when a skip step fails *)
Theorem skip_then_retry_gives_up g skip until ctx : forall fuel p r acce r',
  skip_retry_sem run fuel g skip until ctx p r acce = Some (None, r') ->
  exists q ra, (exists x, run until ctx q ra = Some (Some x, r')) \/
               (exists rb, run until ctx q ra = Some (None, rb) /\ run skip ctx q rb = Some (None, r')).
Proof.
  induction fuel as [|fuel IH]; intros p r acce r' H; cbn [skip_retry_sem] in H; [discriminate|].
  destruct (run until ctx p r) as [[[x|] r1]|] eqn:Eu; try discriminate.
  - injection H as <-. exists p, r. left. eauto.
  - destruct (run skip ctx p r1) as [[[[[vs p2] e2]|] r2]|] eqn:Es; try discriminate.
    + destruct (run g ctx p2 r2) as [[[[[w q] eg]|] rg]|] eqn:Eg; try discriminate.
      * destruct eg; [discriminate|]. eapply IH; eauto.
      * eapply IH; eauto.
    + injection H as <-. exists p, r. right. eauto.
Qed.
End RecoveryP.
