(* C14: the languages of the text parsers, for all inputs and arbitrary character classes. *)
From Chum Require Export SemLaws Text.

Section TextP.
Variable K : ekind.
Variable toks : list tok.
Variable spn : nat -> nat -> span.
Notation sem := (sem K toks spn).

(* length of the maximal run of class-f tokens at the head of a list *)
Fixpoint span_len (f : tok -> bool) (l : list tok) : nat :=
  match l with t :: r => if f t then S (span_len f r) else 0 | [] => 0 end.
Definition run_len (f : tok -> bool) (p : nat) : nat := span_len f (skipn p toks).

Lemma skipn_nth {A} (l : list A) : forall p,
  skipn p l = match nth_error l p with Some t => t :: skipn (S p) l | None => [] end.
Proof.
  induction l as [|x l IH]; intros p.
  - destruct p; reflexivity.
  - destruct p as [|p]; [reflexivity|]. cbn [skipn nth_error]. apply IH.
Qed.

Lemma run_len_step f p :
  run_len f p = match nth_error toks p with Some t => if f t then S (run_len f (S p)) else 0 | None => 0 end.
Proof. unfold run_len. rewrite (skipn_nth toks p). destruct (nth_error toks p); reflexivity. Qed.

(* one class token: any().try_map(f) *)
Lemma class_step n f k ctx p a :
  exists a', sem (S (S n)) (t_class (PFun f) k) ctx p a =
    match nth_error toks p with
    | Some t => if f t then Some (Some (VTok t, S p, []), a) else Some (None, a')
    | None => Some (None, a')
    end.
Proof.
  unfold t_class. cbn. unfold one_tok_sem. destruct (nth_error toks p) as [t|]; cbn.
  - destruct (f t); cbn; [exists a; reflexivity | eexists; reflexivity].
  - eexists; reflexivity.
Qed.

(* the maximal run: repeated() over a class, any lower bound, no upper bound *)
Lemma rep_class n f k lo ctx : forall fuel c sacc sacce p r,
  run_len f p < fuel ->
  exists items r',
    sdrive toks spn (sem (S (S n))) fuel (IRep (t_class (PFun f) k) lo None) ctx (SCount c) None sacc sacce p r =
      if lo <=? c + run_len f p
      then Some (Some (items, true, p + run_len f p, sacce), r')
      else Some (None, r').
Proof.
  induction fuel as [|fuel IH]; intros c sacc sacce p r Hf; [lia|].
  cbn [sdrive it_snext]. unfold rep_snext. cbn [at_cap].
  destruct (class_step n f k ctx p r) as (a' & ->).
  rewrite (run_len_step f p) in *. destruct (nth_error toks p) as [t|].
  - destruct (f t); cbn [option_map].
    + destruct (IH (S c) ((VTok t, p, S p) :: sacc) (sacce ++ []) (S p) r ltac:(lia)) as (items & r' & ->).
      replace (S c + run_len f (S p)) with (c + S (run_len f (S p))) by lia.
      replace (S p + run_len f (S p)) with (p + S (run_len f (S p))) by lia.
      rewrite app_nil_r. eauto.
    + rewrite !Nat.add_0_r. destruct (lo <=? c); rewrite ?app_nil_r; eauto.
  - rewrite !Nat.add_0_r. destruct (lo <=? c); rewrite ?app_nil_r; eauto.
Qed.

(* one-step unfoldings (the fuel of sub-terms stays folded) *)
Lemma sem_ToSlice_S n x ctx p a :
  sem (S n) (ToSlice x) ctx p a =
    match sem n x ctx p a with
    | Some (Some (_, p1, e1), a1) => Some (Some (VSlice p p1, p1, e1), a1)
    | Some (None, a1) => Some (None, a1)
    | None => None
    end.
Proof. reflexivity. Qed.

Lemma sem_RepUnit_S n i ctx p a :
  sem (S n) (RepUnit i) ctx p a =
    match sdrive toks spn (sem n) n i ctx (mk_iter i ctx) None [] [] p a with
    | Some (Some (_, _, p1, e1), a1) => Some (Some (VUnit, p1, e1), a1)
    | Some (None, a1) => Some (None, a1)
    | None => None
    end.
Proof. reflexivity. Qed.

Lemma sem_Then_S n x y ctx p a :
  sem (S n) (Then x y) ctx p a =
    match sem n x ctx p a with
    | Some (Some (va, p1, e1), a1) =>
        match sem n y ctx p1 a1 with
        | Some (Some (vb, p2, e2), a2) => Some (Some (VPair va vb, p2, e1 ++ e2), a2)
        | Some (None, a2) => Some (None, a2)
        | None => None
        end
    | Some (None, a1) => Some (None, a1)
    | None => None
    end.
Proof. reflexivity. Qed.

Lemma sem_Ignored_S n x ctx p a :
  sem (S n) (Ignored x) ctx p a =
    match sem n x ctx p a with
    | Some (Some (_, p1, e1), a1) => Some (Some (VUnit, p1, e1), a1)
    | Some (None, a1) => Some (None, a1)
    | None => None
    end.
Proof. reflexivity. Qed.

Lemma sem_Or_S n x y ctx p a :
  sem (S n) (Or x y) ctx p a =
    match sem n x ctx p a with
    | Some (None, a1) => match sem n y ctx p a1 with Some (None, a2) => Some (None, a2) | res => res end
    | res => res
    end.
Proof. cbn. destruct (sem n x ctx p a) as [[[r|] a1]|]; auto. Qed.

(* text::digits(r): one or more digits, the maximal run *)
Theorem digits_lang n f ctx p a :
  run_len f p < S (S n) ->
  exists a',
    sem (S (S (S (S n)))) (ToSlice (RepUnit (text_digits (PFun f)))) ctx p a =
      if 1 <=? run_len f p then Some (Some (VSlice p (p + run_len f p), p + run_len f p, []), a') else Some (None, a').
Proof.
  intros Hf. unfold text_digits. rewrite sem_ToSlice_S, sem_RepUnit_S. cbn [mk_iter].
  destruct (rep_class n f 20 1 ctx (S (S n)) 0 [] [] p a Hf) as (items & r' & ->). cbn [Nat.add].
  destruct (1 <=? run_len f p); eauto.
Qed.

(* text::whitespace(): any run, including the empty one *)
Theorem whitespace_lang n f ctx p a :
  run_len f p < S (S n) ->
  exists a',
    sem (S (S (S (S n)))) (ToSlice (RepUnit (text_whitespace (PFun f)))) ctx p a =
      Some (Some (VSlice p (p + run_len f p), p + run_len f p, []), a').
Proof.
  intros Hf. unfold text_whitespace. rewrite sem_ToSlice_S, sem_RepUnit_S. cbn [mk_iter].
  destruct (rep_class n f 24 0 ctx (S (S n)) 0 [] [] p a Hf) as (items & r' & ->). cbn. eauto.
Qed.

(* identifiers: a start character followed by the maximal run of continue characters *)
Theorem ident_lang n fs fc ctx p a :
  run_len fc (S p) < S (S n) ->
  exists a',
    sem (S (S (S (S (S n))))) (text_ident (PFun fs) (PFun fc)) ctx p a =
      match nth_error toks p with
      | Some t => if fs t then Some (Some (VSlice p (S p + run_len fc (S p)), S p + run_len fc (S p), []), a')
                  else Some (None, a')
      | None => Some (None, a')
      end.
Proof.
  intros Hf. unfold text_ident. rewrite sem_ToSlice_S, sem_Then_S.
  destruct (class_step (S n) fs 22 ctx p a) as (a1 & ->).
  destruct (nth_error toks p) as [t|]; [|eauto]. destruct (fs t); [|eauto].
  rewrite sem_RepUnit_S. cbn [mk_iter].
  destruct (rep_class n fc 22 0 ctx (S (S n)) 0 [] [] (S p) a Hf) as (items & r' & ->). cbn. eauto.
Qed.

(* text::int(r): a non-zero digit followed by the maximal digit run, or a single zero *)
Theorem int_lang n fnz fd zero ctx p a :
  run_len fd (S p) < S (S n) ->
  exists a',
    sem (S (S (S (S (S (S (S n))))))) (text_int (PFun fd) (PFun fnz) zero) ctx p a =
      match nth_error toks p with
      | Some t =>
          if fnz t then Some (Some (VSlice p (S p + run_len fd (S p)), S p + run_len fd (S p), []), a')
          else if N.eqb zero t then Some (Some (VSlice p (S p), S p, []), a')
          else Some (None, a')
      | None => Some (None, a')
      end.
Proof.
  intros Hf. unfold text_int. rewrite sem_ToSlice_S, sem_Or_S, sem_Ignored_S, sem_Then_S.
  destruct (class_step (S n) fnz 21 ctx p a) as (a1 & ->).
  destruct (nth_error toks p) as [t|] eqn:Et.
  - destruct (fnz t).
    + rewrite sem_RepUnit_S. cbn [mk_iter].
      destruct (rep_class n fd 20 0 ctx (S (S n)) 0 [] [] (S p) a Hf) as (items & r' & ->). cbn. eauto.
    + rewrite sem_Ignored_S. cbn. rewrite Et. destruct (N.eqb zero t); cbn; eauto.
  - rewrite sem_Ignored_S. cbn. rewrite Et. cbn. eauto.
Qed.

Lemma sem_Just_S n ts ctx p a :
  sem (S n) (Just ts) ctx p a =
    Some match just_sem K toks spn ts p a with
         | (Some p1, a1) => (Some (VList (map VTok ts), p1, []), a1)
         | (None, a1) => (None, a1)
         end.
Proof. reflexivity. Qed.

Lemma sem_OrNot_S n x ctx p a :
  sem (S n) (OrNot x) ctx p a =
    match sem n x ctx p a with
    | Some (Some (v, p1, e1), a1) => Some (Some (VOpt (Some v), p1, e1), a1)
    | Some (None, a1) => Some (Some (VOpt None, p, []), a1)
    | None => None
    end.
Proof. reflexivity. Qed.

Lemma just1_sem t p a :
  just_sem K toks spn [t] p a =
    match nth_error toks p with
    | Some u => if N.eqb t u then (Some (S p), a) else (None, ef K a p [pTok t] (Some u) (spn p (S p)))
    | None => (None, ef K a p [pTok t] None (spn p p))
    end.
Proof. cbn [just_sem]. destruct (nth_error toks p) as [u|]; [destruct (N.eqb t u)|]; reflexivity. Qed.

(* text::newline(): CR LF as one terminator, a lone CR, or one character of the newline class; nothing else.
   The end position of a match, or failure: *)
Definition newline_end (fnl : tok -> bool) (cr lf : tok) (p : nat) : option nat :=
  match nth_error toks p with
  | Some t =>
      if N.eqb cr t then Some (match nth_error toks (S p) with Some u => if N.eqb lf u then S (S p) else S p | None => S p end)
      else if fnl t then Some (S p) else None
  | None => None
  end.

Theorem newline_lang n fnl cr lf ctx p a :
  exists a',
    match newline_end fnl cr lf p with
    | Some p' => exists v, sem (S (S (S (S n)))) (text_newline (PFun fnl) cr lf) ctx p a = Some (Some (v, p', []), a')
    | None => sem (S (S (S (S n)))) (text_newline (PFun fnl) cr lf) ctx p a = Some (None, a')
    end.
Proof.
  unfold text_newline, newline_end. rewrite sem_Or_S, sem_Then_S, sem_Just_S, just1_sem.
  destruct (nth_error toks p) as [t|] eqn:Et.
  - destruct (N.eqb cr t) eqn:Ec.
    + rewrite sem_OrNot_S, sem_Just_S, just1_sem.
      destruct (nth_error toks (S p)) as [u|] eqn:Eu; [destruct (N.eqb lf u)|]; eexists; eexists; reflexivity.
    + destruct (class_step (S n) fnl 26 ctx p (ef K a p [pTok cr] (Some t) (spn p (S p)))) as (a1 & Hc). rewrite Et in Hc.
      rewrite Hc. destruct (fnl t); [eexists; eexists; reflexivity | eexists; reflexivity].
  - destruct (class_step (S n) fnl 26 ctx p (ef K a p [pTok cr] None (spn p p))) as (a1 & Hc). rewrite Et in Hc.
    rewrite Hc. eexists; reflexivity.
Qed.

(* ---------- keyword ---------- *)
(* the tokens of the maximal class-f run at p *)
Definition run_toks (f : tok -> bool) (p : nat) : list tok := firstn (run_len f p) (skipn p toks).

Lemma run_toks_step f p :
  run_toks f p = match nth_error toks p with Some t => if f t then t :: run_toks f (S p) else [] | None => [] end.
Proof.
  unfold run_toks. rewrite (run_len_step f p), (skipn_nth toks p).
  destruct (nth_error toks p) as [t|]; [destruct (f t)|]; reflexivity.
Qed.

(* the maximal run again, now with the collected values: the run's tokens, in input order *)
Lemma rep_class_items n f k ctx : forall fuel c sacc sacce p r,
  run_len f p < fuel ->
  exists items r',
    sdrive toks spn (sem (S (S n))) fuel (IRep (t_class (PFun f) k) 0 None) ctx (SCount c) None sacc sacce p r =
      Some (Some (items, true, p + run_len f p, sacce), r') /\
    rev (map sitem_val items) = rev (map sitem_val sacc) ++ map VTok (run_toks f p).
Proof.
  induction fuel as [|fuel IH]; intros c sacc sacce p r Hf; [lia|].
  cbn [sdrive it_snext]. unfold rep_snext. cbn [at_cap].
  destruct (class_step n f k ctx p r) as (a' & ->).
  rewrite (run_toks_step f p). rewrite (run_len_step f p) in *. destruct (nth_error toks p) as [t|].
  - destruct (f t); cbn [option_map].
    + destruct (IH (S c) ((VTok t, p, S p) :: sacc) (sacce ++ []) (S p) r ltac:(lia)) as (items & r' & -> & Hv).
      replace (S p + run_len f (S p)) with (p + S (run_len f (S p))) by lia.
      rewrite app_nil_r. do 2 eexists. split; [reflexivity|]. rewrite Hv. cbn [map rev sitem_val]. now rewrite <- app_assoc.
    + cbn [Nat.leb]. rewrite ?Nat.add_0_r, ?app_nil_r. do 2 eexists. split; [reflexivity|]. cbn. rewrite ?app_nil_r. reflexivity.
  - cbn [Nat.leb]. rewrite ?Nat.add_0_r, ?app_nil_r. do 2 eexists. split; [reflexivity|]. cbn. rewrite ?app_nil_r. reflexivity.
Qed.

Lemma sem_TryMap_S n pr f k x ctx p a :
  sem (S n) (TryMap pr f k x) ctx p a =
    match sem n x ctx p None with
    | Some (Some (v, p1, e1), new) =>
        if holds pr v then Some (Some (ap1 f v, p1, e1), join K a new)
        else Some (None, ee K a p (custom_err K k (spn p p1)))
    | Some (None, new) => Some (None, join K a new)
    | None => None
    end.
Proof. reflexivity. Qed.

Lemma sem_Collect_S n c i ctx p a :
  sem (S n) (Collect c i) ctx p a =
    match sdrive toks spn (sem n) n i ctx (mk_iter i ctx) None [] [] p a with
    | Some (Some (items, _, p1, e1), a1) =>
        Some (Some (match c with
                    | CVec => VList (rev (map sitem_val items))
                    | CCount => VNat (length items)
                    | CUnit => VUnit
                    end, p1, e1), a1)
    | Some (None, a1) => Some (None, a1)
    | None => None
    end.
Proof. reflexivity. Qed.

Lemma flat_map_VTok l : flat_map val_toks (map VTok l) = l.
Proof. induction l as [|t l IH]; cbn; [reflexivity|now rewrite IH]. Qed.

(* text::keyword(k): the MAXIMAL identifier at p must be exactly k -- so k followed by further identifier characters
   (k as a proper prefix of a longer identifier) is not a match, and neither is a proper prefix of k *)
Theorem keyword_lang n fs fc kw ctx p a :
  run_len fc (S p) < S (S n) ->
  exists a',
    sem (S (S (S (S (S (S n)))))) (text_keyword (PFun fs) (PFun fc) kw) ctx p a =
      match nth_error toks p with
      | Some t =>
          if fs t then
            if list_eqN (t :: run_toks fc (S p)) kw
            then Some (Some (VSlice p (S p + run_len fc (S p)), S p + run_len fc (S p), []), a')
            else Some (None, a')
          else Some (None, a')
      | None => Some (None, a')
      end.
Proof.
  intros Hf. unfold text_keyword, text_ident_toks. rewrite sem_ToSlice_S, sem_TryMap_S, sem_Then_S.
  destruct (class_step (S n) fs 22 ctx p None) as (a1 & ->).
  destruct (nth_error toks p) as [t|]; [|eauto]. destruct (fs t); [|eauto].
  rewrite sem_Collect_S. cbn [mk_iter].
  destruct (rep_class_items n fc 22 ctx (S (S n)) 0 [] [] (S p) None Hf) as (items & r' & -> & Hv).
  cbn [holds val_toks]. rewrite Hv. cbn [rev map app]. rewrite flat_map_VTok. cbn [app].
  destruct (list_eqN (t :: run_toks fc (S p)) kw); eauto.
Qed.

(* a.padded(): skip the maximal whitespace run, run a, skip the maximal whitespace run *)
Lemma sem_PaddedBy_S n x pd ctx p a :
  sem (S n) (PaddedBy x pd) ctx p a =
    match sem n pd ctx p a with
    | Some (Some (_, p1, e1), a1) =>
        match sem n x ctx p1 a1 with
        | Some (Some (va, p2, e2), a2) =>
            match sem n pd ctx p2 a2 with
            | Some (Some (_, p3, e3), a3) => Some (Some (va, p3, (e1 ++ e2) ++ e3), a3)
            | Some (None, a3) => Some (None, a3)
            | None => None
            end
        | Some (None, a2) => Some (None, a2)
        | None => None
        end
    | Some (None, a1) => Some (None, a1)
    | None => None
    end.
Proof. reflexivity. Qed.

Theorem padded_lang n fws x ctx p a :
  run_len fws p < S (S n) ->
  exists a1,
    match sem (S (S (S n))) x ctx (p + run_len fws p) a1 with
    | Some (Some (va, p2, e2), a2) =>
        run_len fws p2 < S (S n) ->
        exists a3, sem (S (S (S (S n)))) (text_padded (PFun fws) x) ctx p a = Some (Some (va, p2 + run_len fws p2, e2), a3)
    | Some (None, a2) => sem (S (S (S (S n)))) (text_padded (PFun fws) x) ctx p a = Some (None, a2)
    | None => sem (S (S (S (S n)))) (text_padded (PFun fws) x) ctx p a = None
    end.
Proof.
  intros Hf. unfold text_padded, text_whitespace. rewrite sem_PaddedBy_S, sem_RepUnit_S. cbn [mk_iter].
  destruct (rep_class n fws 24 0 ctx (S (S n)) 0 [] [] p a Hf) as (items & r' & ->). cbn [Nat.leb Nat.add].
  exists r'. destruct (sem (S (S (S n))) x ctx (p + run_len fws p) r') as [[[[[va p2] e2]|] a2]|]; auto.
  intros Hf2. rewrite sem_RepUnit_S. cbn [mk_iter].
  destruct (rep_class n fws 24 0 ctx (S (S n)) 0 [] [] p2 a2 Hf2) as (items2 & r2 & ->). cbn [Nat.leb Nat.add].
  exists r2. now rewrite app_nil_r.
Qed.

End TextP.
