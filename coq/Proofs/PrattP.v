(* C09 / C12: laws of the Pratt and recursion parts of the specification. *)
From Chum Require Export SemLaws.

Section PrattP.
Variable K : ekind.
Variable toks : list tok.
Variable spn : nat -> nat -> span.
Notation sem := (sem K toks spn).

(* an infix operator that binds less tightly than required is not applied (its parser is not even run) *)
Lemma infix_below_min_skipped run rec r bp og k rest ctx minp start lhs p a :
  lpow r bp < minp ->
  pratt_sinfix spn run rec (PInfix r bp og k :: rest) ctx minp start lhs p a
  = pratt_sinfix spn run rec rest ctx minp start lhs p a.
Proof. intros H. cbn. replace (minp <=? lpow r bp) with false by (symmetry; apply Nat.leb_gt; lia). reflexivity. Qed.

Lemma postfix_below_min_skipped run bp og k rest ctx minp start lhs p a :
  2 * bp + 1 < minp ->
  pratt_spostfix spn run (PPostfix bp og k :: rest) ctx minp start lhs p a
  = pratt_spostfix spn run rest ctx minp start lhs p a.
Proof. intros H. cbn [pratt_spostfix]. replace (minp <=? 2 * bp + 1) with false by (symmetry; apply Nat.leb_gt; lia). reflexivity. Qed.

(* associativity: the right operand of a left-associative operator is parsed with a minimum power
   that excludes an equal-power operator (so equal powers group to the left) ... *)
Lemma left_assoc_excludes_equal bp : lpow false bp < rpow false bp.
Proof. unfold lpow, rpow. lia. Qed.
(* ... and that of a right-associative operator admits it (equal powers group to the right) *)
Lemma right_assoc_admits_equal bp : rpow true bp <= lpow true bp.
Proof. unfold lpow, rpow. lia. Qed.
(* a strictly tighter operator is always admitted in the operand, a strictly looser one never *)
Lemma tighter_admitted r r' bp bp' : bp < bp' -> rpow r bp <= lpow r' bp'.
Proof. unfold lpow, rpow. destruct r, r'; lia. Qed.
Lemma looser_excluded r r' bp bp' : bp' < bp -> lpow r' bp' < rpow r bp.
Proof. unfold lpow, rpow. destruct r, r'; lia. Qed.

(* an operator whose right operand is missing is left unconsumed: the next operator is tried from the
   same position, and if none applies the loop stops there *)
Lemma infix_missing_operand_unconsumed run rec r bp og k rest ctx minp start lhs p a vop p1 e1 a1 a2 :
  minp <= lpow r bp ->
  run og ctx p a = Some (Some (vop, p1, e1), a1) ->
  rec (rpow r bp) p1 a1 = Some (None, a2) ->
  pratt_sinfix spn run rec (PInfix r bp og k :: rest) ctx minp start lhs p a
  = pratt_sinfix spn run rec rest ctx minp start lhs p a2.
Proof.
  intros Hm H1 H2. cbn. replace (minp <=? lpow r bp) with true by (symmetry; apply Nat.leb_le; lia).
  now rewrite H1, H2.
Qed.

(* operators are tried in declaration order: the first applicable one wins *)
Lemma infix_first_applicable_wins run rec r bp og k rest ctx minp start lhs p a vop p1 e1 a1 vr p2 e2 a2 :
  minp <= lpow r bp ->
  run og ctx p a = Some (Some (vop, p1, e1), a1) ->
  rec (rpow r bp) p1 a1 = Some (Some (vr, p2, e2), a2) ->
  pratt_sinfix spn run rec (PInfix r bp og k :: rest) ctx minp start lhs p a
  = SDone (Some (Some (pfold_infix k lhs vop vr (spn start p2), p2, e1 ++ e2), a2)).
Proof.
  intros Hm H1 H2. cbn. replace (minp <=? lpow r bp) with true by (symmetry; apply Nat.leb_le; lia).
  now rewrite H1, H2.
Qed.

(* ---------- recursion (C12) ---------- *)
(* a recursive parser is its body with the self-reference bound to the body itself ... *)
Lemma rec_unfold n x ctx p a :
  sem (S n) (Rec x) ctx p a = sem n x (mkEnv (cval ctx) (x :: crec ctx)) p a.
Proof. reflexivity. Qed.

(* ... so a self-reference inside the body behaves exactly like the recursive parser itself
   (one more level of expansion, as deep as the input requires) *)
Lemma var_is_rec n x ctx p a :
  sem (S n) (Var 0) (mkEnv (cval ctx) (x :: crec ctx)) p a = sem (S n) (Rec x) ctx p a.
Proof. reflexivity. Qed.

(* mutual recursion: an outer reference sees the outer definition in the environment it was defined in *)
Lemma var_outer n x y c rest p a :
  sem (S n) (Var 1) (mkEnv c (y :: x :: rest)) p a = sem n x (mkEnv c (x :: rest)) p a.
Proof. reflexivity. Qed.

End PrattP.
