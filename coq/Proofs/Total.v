(* C20: the "Can't fail!" unwraps never fire, because a failing parser always leaves a pending error.
   For every grammar, context, state, mode, error type (zero-sized included) and fuel. *)
From Chum Require Export Base.

Section Total.
Variable K : ekind.
Variable toks : list tok.
Variable spn : nat -> nat -> span.
Notation go := (go no_quirks K toks spn).

(* a run is good when failure leaves a pending error and it did not panic on an unwrap *)
Definition good (x : outcome * st) : Prop :=
  (fst x = Err -> alt (snd x) <> None) /\ fst x <> Panic PUnwrapRecovery /\ fst x <> Panic PUnwrapMapErr /\ fst x <> Panic PUnwrapInputRef.
Definition GD (run : run_t) : Prop := forall m g ctx s, good (run m g ctx s).

Lemma good_ok v s : good (Ok v, s).
Proof. repeat split; cbn; intros; discriminate. Qed.
Lemma good_err s : alt s <> None -> good (Err, s).
Proof. repeat split; cbn; intros; auto; discriminate. Qed.
Lemma good_oof s : good (OutOfFuel, s).
Proof. repeat split; cbn; intros; discriminate. Qed.
Lemma good_progress s : good (Panic PProgress, s).
Proof. repeat split; cbn; intros; discriminate. Qed.

Lemma alt_ef_some s exp f sp : alt (alt_ef K s exp f sp) <> None.
Proof. cbn. unfold add_alt. destruct (is_zst K); discriminate. Qed.
Lemma alt_err_some s p e : alt (alt_err no_quirks K s p e) <> None.
Proof. cbn. unfold add_alt_err. cbn. destruct (is_zst K); discriminate. Qed.
Lemma fail_here_some exp s : alt (fail_here K toks spn exp s) <> None.
Proof. unfold fail_here. destruct (next toks s). apply alt_ef_some. Qed.
Lemma join_alt_some s new : new <> None -> alt (join_alt no_quirks K s new) <> None.
Proof. destruct new as [[q e]|]; [intros _; apply alt_err_some | contradiction]. Qed.
Lemma alt_reposition s c : alt (reposition s c) = alt s.
Proof. destruct c as [[? ?] ?]; reflexivity. Qed.

Hint Resolve good_ok good_oof good_progress alt_ef_some alt_err_some fail_here_some : gd.

Ltac good_err_tac :=
  apply good_err; rewrite ?alt_rewind, ?alt_reposition; cbn [alt set_alt set_sec set_cur emit set_memo];
  auto using alt_ef_some, alt_err_some, fail_here_some, join_alt_some.

(* use the goodness of a sub-run *)
Ltac sub HG run m g ctx s :=
  let G := fresh "G" in let r := fresh "r" in let s1 := fresh "s" in
  pose proof (HG m g ctx s) as G; destruct (run m g ctx s) as [r s1]; destruct r;
  cbn [fst snd] in G;
  [ | assert (alt s1 <> None) by (apply G; reflexivity) | | ];
  try solve [ exact G | auto with gd ].

Section L.
Variable run : run_t.
Hypothesis HG : GD run.

Lemma just_loop_good ts : forall s b s1, just_loop K toks spn ts s = (b, s1) -> b = false -> alt s1 <> None.
Proof.
  induction ts as [|t ts IH]; intros s b s1 H Hb; cbn in H.
  - injection H as <- <-. discriminate.
  - destruct (next toks s) as [[u|] s2].
    + destruct (N.eqb t u); [eapply IH; eauto|]. injection H as <- <-. rewrite ?alt_rewind. apply alt_ef_some.
    + injection H as <- <-. apply alt_ef_some.
Qed.

Lemma choice_loop_good m : forall gs ctx b s, alt s <> None -> good (choice_loop run m gs ctx b s).
Proof.
  induction gs as [|g gs IH]; intros ctx b s Ha; cbn [choice_loop]; [good_err_tac|].
  sub HG run m g ctx s. apply IH. now rewrite alt_rewind.
Qed.

Lemma choice_loop_good1 m g gs ctx b s : good (choice_loop run m (g :: gs) ctx b s).
Proof. cbn [choice_loop]. sub HG run m g ctx s. apply choice_loop_good. now rewrite alt_rewind. Qed.

Lemma choicevec_loop_good m : forall gs ctx b s, alt s <> None -> good (choicevec_loop run m gs ctx b s).
Proof.
  induction gs as [|g gs IH]; intros ctx b s Ha; cbn [choicevec_loop]; [good_err_tac|].
  sub HG run m g ctx (rewind s b).
Qed.

Lemma choicevec_loop_good1 m g gs ctx b s : good (choicevec_loop run m (g :: gs) ctx b s).
Proof. cbn [choicevec_loop]. sub HG run m g ctx (rewind s b). now apply choicevec_loop_good. Qed.

Lemma group_loop_good m : forall gs ctx acc s, good (group_loop run m gs ctx acc s).
Proof.
  induction gs as [|g gs IH]; intros; cbn [group_loop]; [auto with gd|]. sub HG run m g ctx s.
Qed.

(* iterator steps: an IErr leaves a pending error; no unwrap panics *)
Definition igood {St} (x : ires * St * st) : Prop :=
  match x with
  | (IErr, _, s1) => alt s1 <> None
  | (IPanic k, _, _) => k <> PUnwrapRecovery /\ k <> PUnwrapMapErr /\ k <> PUnwrapInputRef
  | _ => True
  end.

Lemma rep_next_good m a lo hi ctx c s : igood (rep_next run m a lo hi ctx c s).
Proof.
  unfold rep_next. destruct (at_cap c hi); [exact I|].
  pose proof (HG m a ctx s) as G. destruct (run m a ctx s) as [[] s1]; cbn [fst snd] in G; cbn; auto.
  - destruct (lo <=? c); cbn; auto. rewrite alt_rewind. apply G; reflexivity.
  - destruct G as (_ & G1 & G2 & G3). repeat split; intros ->; [apply G1|apply G2|apply G3]; reflexivity.
Qed.

Lemma igood_err {St} (c : St) s1 : alt s1 <> None -> igood (IErr, c, s1).
Proof. auto. Qed.
Lemma igood_panic {St} (c : St) k s1 : good (Panic k, s1) -> igood (IPanic k, c, s1).
Proof. intros (_ & G1 & G2 & G3). repeat split; intros ->; [apply G1|apply G2|apply G3]; reflexivity. Qed.

Lemma sep_item_good m a lo trail ctx c b s : igood (sep_item run m a lo trail ctx c b s).
Proof.
  unfold sep_item.
  pose proof (HG m a ctx s) as G. destruct (run m a ctx s) as [[] s1]; cbn [fst snd] in G.
  - exact I.
  - destruct (c <? lo); [|destruct trail; exact I].
    apply igood_err. rewrite alt_rewind. apply G; reflexivity.
  - apply igood_panic; exact G.
  - exact I.
Qed.

Lemma sep_next_good m a sep lo hi lead trail ctx c s : igood (sep_next run m a sep lo hi lead trail ctx c s).
Proof.
  unfold sep_next. destruct (at_cap c hi); [exact I|].
  destruct ((c =? 0) && lead).
  - pose proof (HG Check sep ctx s) as G. destruct (run Check sep ctx s) as [[] s1]; cbn [fst snd] in G.
    + apply sep_item_good. + apply sep_item_good. + apply igood_panic; exact G. + exact I.
  - destruct (0 <? c); [|apply sep_item_good].
    pose proof (HG Check sep ctx s) as G. destruct (run Check sep ctx s) as [[] s1]; cbn [fst snd] in G.
    + apply sep_item_good.
    + destruct (c <? lo); [|exact I]. apply igood_err. rewrite alt_rewind. apply G; reflexivity.
    + apply igood_panic; exact G.
    + exact I.
Qed.

Lemma it_next_good : forall i m ctx its s, igood (it_next spn run m i ctx its s).
Proof.
  induction i as [a lo hi|a sep lo hi lead trail|j IHj|f j IHj|f j IHj|a|a lo hi ck|a|i1 IHi1 i2 IHi2]; intros m ctx its s; cbn [it_next].
  - destruct its; try (cbn; repeat split; discriminate).
    pose proof (rep_next_good m a lo hi ctx n s) as G. destruct (rep_next run m a lo hi ctx n s) as [[[] c'] s1]; exact G.
  - destruct its; try (cbn; repeat split; discriminate).
    pose proof (sep_next_good m a sep lo hi lead trail ctx n s) as G.
    destruct (sep_next run m a sep lo hi lead trail ctx n s) as [[[] c'] s1]; exact G.
  - destruct its; try (cbn; repeat split; discriminate).
    pose proof (IHj m ctx its s) as G. destruct (it_next spn run m j ctx its s) as [[[] js'] s1]; exact G.
  - pose proof (IHj m ctx its s) as G. destruct (it_next spn run m j ctx its s) as [[[] js'] s1]; exact G.
  - pose proof (IHj m ctx its s) as G. destruct (it_next spn run m j ctx its s) as [[[] js'] s1]; exact G.
  - destruct its; try (cbn; repeat split; discriminate). destruct b; [exact I|].
    pose proof (HG m a ctx s) as G. destruct (run m a ctx s) as [[] s1]; cbn [fst snd] in G;
      [exact I | exact I | apply igood_panic; exact G | exact I].
  - destruct its; try (cbn; repeat split; discriminate).
    + pose proof (rep_next_good m a lo0 hi0 ctx n s) as G. destruct (rep_next run m a lo0 hi0 ctx n s) as [[[] c'] s1]; exact G.
    + pose proof (HG m (TryMap PFalse FId k Empty) ctx s) as G.
      destruct (run m (TryMap PFalse FId k Empty) ctx s) as [[] s1]; cbn [fst snd] in G;
        [exact I | exact (proj1 G eq_refl) | apply igood_panic; exact G | exact I].
  - destruct its as [| | | | |[l|]|]; try (cbn; repeat split; discriminate).
    + destruct l; exact I.
    + pose proof (HG Emit a ctx s) as G. destruct (run Emit a ctx s) as [[] s1]; cbn [fst snd] in G.
      * destruct (val_items (getv v)); exact I.
      * exact (proj1 G eq_refl).
      * apply igood_panic; exact G.
      * exact I.
  - destruct its as [| | | | | |sa [sb|]]; try (cbn; repeat split; discriminate).
    + pose proof (IHi2 m ctx sb s) as G. destruct (it_next spn run m i2 ctx sb s) as [[[] js'] s1]; exact G.
    + pose proof (IHi1 m ctx sa s) as G. destruct (it_next spn run m i1 ctx sa s) as [[[] sa'] s1]; try exact G.
      pose proof (IHi2 m ctx (mk_iter i2 ctx) s1) as G2. destruct (it_next spn run m i2 ctx (mk_iter i2 ctx) s1) as [[[] sb'] s2]; exact G2.
Qed.

Lemma drive_good : forall fuel m i ctx its lim pa idx acc s,
  let '(r, _, _, s1) := drive spn run fuel m i ctx its lim pa idx acc s in good (r, s1).
Proof.
  induction fuel as [|fuel IH]; intros; cbn [drive]; [auto with gd|].
  assert (Hstep :
    let '(r, _, _, s1) :=
      match it_next spn run m i ctx its s with
      | (ISome v, its', s1) =>
          if pa idx && (cur s =? cur s1) then (Panic PProgress, acc, false, s1)
          else drive spn run fuel m i ctx its' (option_map Nat.pred lim) pa (S idx) ((getv v, cur s, cur s1, ust s1) :: acc) s1
      | (INone, _, s1) => (Ok None, acc, true, s1)
      | (IErr, _, s1) => (Err, acc, false, s1)
      | (IPanic k, _, s1) => (Panic k, acc, false, s1)
      | (IOOF, _, s1) => (OutOfFuel, acc, false, s1)
      end in good (r, s1)).
  { pose proof (it_next_good i m ctx its s) as G.
    destruct (it_next spn run m i ctx its s) as [[[] its'] s1]; cbn in G; auto with gd.
    - destruct (pa idx && (cur s =? cur s1)); [auto with gd | apply IH].
    - now apply good_err.
    - repeat split; cbn; try discriminate; intros E; injection E as ->; tauto. }
  destruct lim as [[|l]|]; auto with gd.
Qed.

Lemma rep_fast_good : forall fuel m a ctx s, good (rep_fast run fuel m a ctx s).
Proof.
  induction fuel as [|fuel IH]; intros; cbn [rep_fast]; [auto with gd|].
  sub HG run Check a ctx s. destruct (cur s =? cur s0); auto with gd.
Qed.

Lemma skip_until_good : forall fuel m skip until fb ctx a0 s, good (skip_until_loop run fuel m skip until fb ctx a0 s).
Proof.
  induction fuel as [|fuel IH]; intros; cbn [skip_until_loop]; [auto with gd|].
  sub HG run Check until ctx s. sub HG run Check skip ctx (rewind s0 (save s)).
  apply good_err. cbn. discriminate.
Qed.

Lemma skip_retry_good : forall fuel m p skip until ctx a0 s, good (skip_retry_loop run fuel m p skip until ctx a0 s).
Proof.
  induction fuel as [|fuel IH]; intros; cbn [skip_retry_loop]; [auto with gd|].
  sub HG run Check until ctx s.
  - apply good_err. rewrite alt_rewind. cbn. discriminate.
  - sub HG run Check skip ctx (rewind s0 (save s)).
    + sub HG run m p ctx s1. destruct (length (sec s2) <=? length (sec s1)); auto with gd.
    + apply good_err. cbn. discriminate.
Qed.

(* Pratt *)
Definition pgood (x : presult) : Prop :=
  match x with PDone r s => good (r, s) /\ r <> Err | PNext _ => True end.

Section PG.
Variable rec : nat -> st -> outcome * st.
Hypothesis Hrec : forall minp s, good (rec minp s).

Lemma pratt_prefix_good m : forall ops ctx pre start s, pgood (pratt_prefix spn run rec m ops ctx pre start s).
Proof.
  induction ops as [|o ops IH]; intros; cbn [pratt_prefix]; [exact I|].
  destruct o as [r bp og k|bp og k|bp og k]; auto.
  pose proof (HG m og ctx s) as G. destruct (run m og ctx s) as [[] s1]; cbn [fst snd] in G; auto.
  - pose proof (Hrec (2 * bp) s1) as G2. destruct (rec (2 * bp) s1) as [[] s2]; cbn [fst snd] in G2; auto.
    + split; [auto with gd | discriminate].
    + split; [exact G2 | discriminate].
    + split; [exact G2 | discriminate].
  - split; [exact G | discriminate].
  - split; [exact G | discriminate].
Qed.

Lemma pratt_postfix_good m : forall ops ctx minp pre start lhs s, pgood (pratt_postfix spn run m ops ctx minp pre start lhs s).
Proof.
  induction ops as [|o ops IH]; intros; cbn [pratt_postfix]; [exact I|].
  destruct o as [r bp og k|bp og k|bp og k]; auto.
  destruct (minp <=? 2 * bp + 1); auto.
  pose proof (HG m og ctx s) as G. destruct (run m og ctx s) as [[] s1]; cbn [fst snd] in G; auto.
  - split; [auto with gd | discriminate].
  - split; [exact G | discriminate].
  - split; [exact G | discriminate].
Qed.

Lemma pratt_infix_good m : forall ops ctx minp pre start lhs s, pgood (pratt_infix spn run rec m ops ctx minp pre start lhs s).
Proof.
  induction ops as [|o ops IH]; intros; cbn [pratt_infix]; [exact I|].
  destruct o as [r bp og k|bp og k|bp og k]; auto.
  destruct (minp <=? lpow r bp); auto.
  pose proof (HG m og ctx s) as G. destruct (run m og ctx s) as [[] s1]; cbn [fst snd] in G; auto.
  - pose proof (Hrec (rpow r bp) s1) as G2. destruct (rec (rpow r bp) s1) as [[] s2]; cbn [fst snd] in G2; auto.
    + split; [auto with gd | discriminate].
    + split; [exact G2 | discriminate].
    + split; [exact G2 | discriminate].
  - split; [exact G | discriminate].
  - split; [exact G | discriminate].
Qed.
End PG.

Lemma pratt_go_S2 f m atom ops ctx minp s :
  pratt_go spn run (S f) m atom ops ctx minp s =
    match pratt_prefix spn run (pratt_go spn run f m atom ops ctx) m ops ctx (save s) (cur s) s with
    | PDone (Ok v) s1 => pratt_loop spn run f m atom ops ctx minp (cur s) v s1
    | PDone r s1 => (r, s1)
    | PNext s1 =>
        match run m atom ctx s1 with
        | (Ok v, s2) => pratt_loop spn run f m atom ops ctx minp (cur s) v s2
        | res => res
        end
    end.
Proof. reflexivity. Qed.

Lemma pratt_loop_S2 f m atom ops ctx minp start lhs s :
  pratt_loop spn run (S f) m atom ops ctx minp start lhs s =
    match pratt_postfix spn run m ops ctx minp (save s) start lhs s with
    | PDone (Ok v) s1 => pratt_loop spn run f m atom ops ctx minp start v s1
    | PDone r s1 => (r, s1)
    | PNext s1 =>
        match pratt_infix spn run (pratt_go spn run f m atom ops ctx) m ops ctx minp (save s) start lhs s1 with
        | PDone (Ok v) s2 => pratt_loop spn run f m atom ops ctx minp start v s2
        | PDone r s2 => (r, s2)
        | PNext s2 => (Ok lhs, rewind s2 (save s))
        end
    end.
Proof. reflexivity. Qed.

Lemma pratt_good m atom ops ctx : forall fuel,
  (forall minp s, good (pratt_go spn run fuel m atom ops ctx minp s)) /\
  (forall minp start lhs s, good (pratt_loop spn run fuel m atom ops ctx minp start lhs s)).
Proof.
  induction fuel as [|f [IHg IHl]]; [split; intros; apply good_oof|].
  split; intros.
  - rewrite pratt_go_S2.
    pose proof (pratt_prefix_good _ IHg m ops ctx (save s) (cur s) s) as P.
    destruct (pratt_prefix spn run (pratt_go spn run f m atom ops ctx) m ops ctx (save s) (cur s) s) as [[] sp|sp];
      cbn in P; try tauto; auto.
    sub HG run m atom ctx sp.
  - rewrite pratt_loop_S2.
    pose proof (pratt_postfix_good m ops ctx minp (save s) start lhs s) as P.
    destruct (pratt_postfix spn run m ops ctx minp (save s) start lhs s) as [[] sp|sp]; cbn in P; try tauto; auto.
    pose proof (pratt_infix_good _ IHg m ops ctx minp (save s) start lhs sp) as P2.
    destruct (pratt_infix spn run (pratt_go spn run f m atom ops ctx) m ops ctx minp (save s) start lhs sp) as [[] si|si];
      cbn in P2; try tauto; auto with gd.
Qed.

End L.

Ltac sg IH n m g ctx s := sub IH (go n) m g ctx s.

Theorem go_good : forall n, GD (go n).
Proof.
  induction n as [|n IH]; intros m g ctx s; [apply good_oof|].
  destruct g; cbn [Machine.go].
  - (* End *) destruct (next toks s) as [[t|] s1]; [good_err_tac | auto with gd].
  - auto with gd.
  - (* Any *) unfold one_tok. destruct (next toks s) as [[t|] s1]; [auto with gd | good_err_tac].
  - (* Just *) unfold just_go. destruct (just_loop K toks spn ts s) as [[] s1] eqn:E; [auto with gd|].
    apply good_err. eapply just_loop_good; eauto.
  - unfold one_tok. destruct (next toks s) as [[t|] s1]; [destruct (memN t ts); [auto with gd | good_err_tac] | good_err_tac].
  - unfold one_tok. destruct (next toks s) as [[t|] s1]; [destruct (memN t ts); [good_err_tac | auto with gd] | good_err_tac].
  - unfold one_tok. destruct (next toks s) as [[t|] s1]; [destruct (holds p (VTok t)); [auto with gd | good_err_tac] | good_err_tac].
  - (* Custom *) destruct (custom_loop toks ts s) as [[] s1]; [auto with gd | good_err_tac].
  - sg IH n m g ctx s.
  - sg IH n m g ctx s.
  - sg IH n Check g ctx s.
  - sg IH n Check g ctx s.
  - sg IH n m g ctx s.
  - sg IH n Check g ctx s.
  - (* Filter *) sg IH n Emit g ctx s. destruct (holds p (getv v)); [auto with gd | good_err_tac].
  - (* TryMap *) sg IH n Emit g ctx (set_alt s None).
    + destruct (holds p (getv v)); [auto with gd | good_err_tac].
    + cbn [q_trymap_drop no_quirks]. good_err_tac.
  - (* TryMapWith *) sg IH n Emit g ctx s. destruct (holds p (getv v)); [auto with gd | good_err_tac].
  - sg IH n Emit g ctx s.
  - (* Then *) sg IH n m g1 ctx s. sg IH n m g2 ctx s0.
  - sg IH n Check g1 ctx s; try apply IH.
  - sg IH n m g1 ctx s. sg IH n Check g2 ctx s0.
  - sg IH n Check g2 ctx s. sg IH n m g1 ctx s0. sg IH n Check g3 ctx s1.
  - sg IH n Check g2 ctx s. sg IH n m g1 ctx s0. sg IH n Check g2 ctx s1.
  - apply group_loop_good; exact IH.
  - apply choice_loop_good1; exact IH.
  - destruct gs as [|g1 [|g2 gs]]; [good_err_tac | apply IH | apply choice_loop_good1; exact IH].
  - destruct gs; [cbn [q_emptychoice_none no_quirks]; good_err_tac | apply choicevec_loop_good1; exact IH].
  - (* OrNot *) sg IH n m g ctx s; auto with gd.
  - (* Not *) sg IH n Check g ctx (set_alt s None).
    destruct (next toks (set_alt (rewind s0 (save s)) (alt s))) as [f s3]. good_err_tac.
  - (* AndIs *) sg IH n m g1 ctx s.
    cbn [q_look_trunc no_quirks]. sg IH n Check g2 ctx (reposition s0 (save s)); auto with gd.
  - (* Rewind *) sg IH n m g ctx s; auto with gd.
  - (* RepUnit *)
    assert (Hd : forall asserted,
      good match drive spn (go n) n Check i ctx (mk_iter i ctx) None (fun _ => asserted) 0 [] s with
           | (Ok _, _, _, s1) => (Ok (bindv m VUnit), s1)
           | (res, _, _, s1) => (res, s1)
           end).
    { intros asserted. pose proof (drive_good _ IH n Check i ctx (mk_iter i ctx) None (fun _ => asserted) 0 [] s) as G.
      destruct (drive spn (go n) n Check i ctx (mk_iter i ctx) None (fun _ => asserted) 0 [] s) as [[[[] ?] ?] ?]; auto with gd. }
    destruct i as [a lo hi| | | | | | | |]; try apply Hd.
    destruct lo; [destruct hi|]; try apply Hd. apply rep_fast_good; exact IH.
  - (* Collect *)
    match goal with |- context [drive ?a ?b ?c ?d ?e ?f ?g ?h ?pa 0 [] s] =>
      pose proof (drive_good _ IH c d e f g h pa 0 [] s) as G;
      destruct (drive a b c d e f g h pa 0 [] s) as [[[[] ?] ?] ?] end; auto with gd.
  - (* CollectExactly *)
    match goal with |- good (match ?k with 0 => match ?x with Some e0 => _ | None => ?B end | S _ => _ end) =>
      assert (HB : good B); [|destruct k; [destruct x; [apply IH|exact HB]|exact HB]] end.
    match goal with |- context [drive ?a ?b ?c ?d ?e ?f ?g ?h ?pa 0 [] s] =>
      pose proof (drive_good _ IH c d e f g h pa 0 [] s) as G;
      destruct (drive a b c d e f g h pa 0 [] s) as [[[[] ?] fl] ?] end; auto with gd;
      destruct fl; auto with gd. cbn [q_exact_noalt no_quirks]. good_err_tac.
  - (* Foldl *) sg IH n m g ctx s.
    match goal with |- context [drive ?a ?b ?c ?d ?e ?f ?g ?h ?pa 0 [] s0] =>
      pose proof (drive_good _ IH c d e f g h pa 0 [] s0) as G2;
      destruct (drive a b c d e f g h pa 0 [] s0) as [[[[] ?] ?] ?] end; auto with gd.
  - (* Foldr *)
    match goal with |- context [drive ?a ?b ?c ?d ?e ?f ?g0 ?h ?pa 0 [] s] =>
      pose proof (drive_good _ IH c d e f g0 h pa 0 [] s) as G;
      destruct (drive a b c d e f g0 h pa 0 [] s) as [[[[] ?] ?] s1] end; auto with gd.
    sg IH n m g ctx s1; auto with gd.
  - (* FoldlWith *) sg IH n m g ctx s.
    match goal with |- context [drive ?a ?b ?c ?d ?e ?f ?g ?h ?pa 0 [] s0] =>
      pose proof (drive_good _ IH c d e f g h pa 0 [] s0) as G2;
      destruct (drive a b c d e f g h pa 0 [] s0) as [[[[] ?] ?] ?] end; auto with gd.
  - (* FoldrWith *)
    match goal with |- context [drive ?a ?b ?c ?d ?e ?f ?g0 ?h ?pa 0 [] s] =>
      pose proof (drive_good _ IH c d e f g0 h pa 0 [] s) as G;
      destruct (drive a b c d e f g0 h pa 0 [] s) as [[[[] ?] ?] s1] end; auto with gd.
    sg IH n m g ctx s1; auto with gd.
  - (* RecoverVia *) sg IH n m g1 ctx s.
    rewrite <- (alt_rewind s0 (save s)) in H. destruct (alt (rewind s0 (save s))) as [a0|]; [|contradiction].
    sg IH n m g2 ctx (set_alt (rewind s0 (save s)) None).
    good_err_tac; try discriminate.
  - (* RecoverSkipUntil *) sg IH n m g1 ctx s.
    rewrite <- (alt_rewind s0 (save s)) in H. destruct (alt (rewind s0 (save s))) as [a0|]; [|contradiction].
    pose proof (skip_until_good _ IH n m g2 g3 fb ctx a0 (set_alt (rewind s0 (save s)) None)) as G2.
    destruct (skip_until_loop (go n) n m g2 g3 fb ctx a0 (set_alt (rewind s0 (save s)) None)) as [[] s2]; auto; try (apply good_err; rewrite alt_rewind; apply G2; reflexivity).
  - (* RecoverSkipRetry *) sg IH n m g1 ctx s.
    rewrite <- (alt_rewind s0 (save s)) in H. destruct (alt (rewind s0 (save s))) as [a0|]; [|contradiction].
    pose proof (skip_retry_good _ IH n m g1 g2 g3 ctx a0 (set_alt (rewind s0 (save s)) None)) as G2.
    destruct (skip_retry_loop (go n) n m g1 g2 g3 ctx a0 (set_alt (rewind s0 (save s)) None)) as [[] s2]; auto; try (apply good_err; rewrite alt_rewind; apply G2; reflexivity).
  - (* Labelled *)
    pose proof (IH m g ctx (set_alt s None)) as G. destruct (go n m g ctx (set_alt s None)) as [[] s1]; cbn [fst snd] in G; auto with gd.
    assert (Ha : alt s1 <> None) by (apply G; reflexivity).
    destruct (alt s1) as [[q e]|]; [|contradiction].
    apply good_err. destruct is_ctx; cbn; unfold add_alt_err; cbn; destruct (is_zst K); discriminate.
  - (* MapErr *) sg IH n m g ctx (set_alt s None).
    + cbn [q_maperr_drop no_quirks]. auto with gd.
    + destruct (alt s0) as [[q e]|]; [good_err_tac | contradiction].
  - apply IH.
  - sg IH n Emit g1 ctx s; try apply IH.
  - sg IH n Emit g1 ctx s. sg IH n m g2 (with_ctx ctx (getv v)) s0.
  - apply IH.
  - (* JustCfg *) unfold just_go. destruct (just_loop K toks spn (val_toks (cval ctx)) s) as [[] s1] eqn:E; [auto with gd|].
    apply good_err. eapply just_loop_good; eauto.
  - (* Memo *) cbn [memo_on no_quirks negb]. sg IH n m g ctx (set_alt s None); try (auto with gd; fail); good_err_tac.
  - apply IH.
  - destruct (nth_error (crec ctx) k); [apply IH|]. repeat split; cbn; discriminate.
  - (* Pratt *) apply (proj1 (pratt_good _ IH m g ops ctx n)).
  - (* GroupArr *) apply group_loop_good; exact IH.
  - (* NestedIn *) cbn [nested no_quirks]. repeat split; cbn; discriminate.
  - (* WithState *) cbn [nested no_quirks]. repeat split; cbn; discriminate.
  - (* Skip *) auto with gd.
  - (* ExtWrap *) sg IH n m g ctx s.
    destruct (alt s0) as [[q e]|]; [good_err_tac | contradiction].
  - (* Prog *) destruct (prog_loop toks spn ops (cur s) [] [] s) as [[[] acc] s1]; [auto with gd | good_err_tac].
  - (* Padded *) sg IH n m g ctx (skip_while toks (length toks) ws s); auto with gd.
Qed.

(* the top level always reports a failure through the error list *)
Theorem run_top_total n m g :
  match run_top no_quirks K toks spn n m g with
  | TPanic k => k <> PUnwrapRecovery /\ k <> PUnwrapMapErr /\ k <> PUnwrapInputRef
  | TRes None errs => errs <> []
  | _ => True
  end.
Proof.
  unfold run_top. pose proof (go_good n m (ThenIgnore g End) env0 init_st) as G.
  destruct (go n m (ThenIgnore g End) env0 init_st) as [[] s1]; cbn [fst snd] in G; auto.
  - destruct (map snd (sec s1)); discriminate.
  - destruct G as (_ & G1 & G2 & G3). repeat split; intros ->; [apply G1|apply G2|apply G3]; reflexivity.
Qed.

End Total.

Print Assumptions go_good.
