(* Facts about the input kinds' span functions. *)
From Chum Require Export Inputs.
From Coq Require Import Lia.

Lemma mapped_nonempty_first_to_last (spans : list span) eoi p1 p2 s1 e1 s2 e2 :
  p1 < p2 -> nth_error spans p1 = Some (s1, e1) -> nth_error spans (p2 - 1) = Some (s2, e2) ->
  spn_mapped false spans eoi p1 p2 = (s1, e2).
Proof.
  intros Hlt H1 H2. unfold spn_mapped.
  destruct (nth_error spans p1) as [[a b]|]; [|discriminate]. injection H1 as -> ->.
  replace (Nat.eqb p1 p2) with false by (symmetry; apply Nat.eqb_neq; lia). cbn.
  destruct p2 as [|k]; [lia|]. replace (S k - 1) with k in H2 by lia.
  destruct (nth_error spans k) as [[c d]|]; [|discriminate]. injection H2 as -> ->. reflexivity.
Qed.

Lemma mapped_empty_is_empty (spans : list span) eoi p :
  fst (spn_mapped false spans eoi p p) = snd (spn_mapped false spans eoi p p).
Proof.
  unfold spn_mapped. destruct (nth_error spans p) as [[s1 e1]|]; [|reflexivity].
  rewrite Nat.eqb_refl. reflexivity.
Qed.

(* ---------- &str ---------- *)
Lemma utf8_width_pos t : 1 <= utf8_width t.
Proof. unfold utf8_width. destruct (N.ltb t 128), (N.ltb t 2048), (N.ltb t 65536); lia. Qed.

(* A cursor that is the offset of character i decodes to character i and the offset of i+1:
   the byte-offset machine refines the index machine, and the unchecked decode is never reached
   off a boundary as long as cursors come from begin()/next() *)
Lemma str_refines : forall l i, i <= length l ->
  str_decode l (str_off l i) =
    Some (match nth_error l i with Some t => Some (t, str_off l (S i)) | None => None end).
Proof.
  induction l as [|t r IH]; intros i Hi; cbn in Hi.
  - destruct i; [reflexivity | lia].
  - destruct i as [|j]; [cbn; destruct r; now rewrite Nat.add_0_r|].
    cbn [str_off str_decode nth_error]. pose proof (utf8_width_pos t).
    destruct (utf8_width t + str_off r j) eqn:E; [lia|]. rewrite <- E.
    replace (utf8_width t + str_off r j <? utf8_width t) with false by (symmetry; apply Nat.ltb_ge; lia).
    replace (utf8_width t + str_off r j - utf8_width t) with (str_off r j) by lia.
    rewrite IH by lia. destruct (nth_error r j); reflexivity.
Qed.

(* offsets are strictly increasing, so the byte -> character index conversion of spans is well defined *)
Lemma str_off_mono : forall l i j, i < j -> j <= length l -> str_off l i < str_off l j.
Proof.
  induction l as [|t r IH]; intros i j Hij Hj; cbn in Hj; [lia|].
  destruct j as [|j]; [lia|]. pose proof (utf8_width_pos t).
  destruct i as [|i]; cbn [str_off]; [lia|]. specialize (IH i j). lia.
Qed.

(* ---------- any token width >= 1 (&Graphemes: width = byte length of the cluster) ---------- *)
Section WidthP.
Variable w : tok -> nat.
Hypothesis Hw : forall t, 1 <= w t.

Lemma w_refines : forall l i, i <= length l ->
  w_decode w l (w_off w l i) =
    Some (match nth_error l i with Some t => Some (t, w_off w l (S i)) | None => None end).
Proof.
  induction l as [|t r IH]; intros i Hi; cbn in Hi.
  - destruct i; [reflexivity | lia].
  - destruct i as [|j]; [cbn; destruct r; now rewrite Nat.add_0_r|].
    cbn [w_off w_decode nth_error]. pose proof (Hw t).
    destruct (w t + w_off w r j) eqn:E; [lia|]. rewrite <- E.
    replace (w t + w_off w r j <? w t) with false by (symmetry; apply Nat.ltb_ge; lia).
    replace (w t + w_off w r j - w t) with (w_off w r j) by lia.
    rewrite IH by lia. destruct (nth_error r j); reflexivity.
Qed.

Lemma w_off_mono : forall l i j, i < j -> j <= length l -> w_off w l i < w_off w l j.
Proof.
  induction l as [|t r IH]; intros i j Hij Hj; cbn in Hj; [lia|].
  destruct j as [|j]; [lia|]. pose proof (Hw t).
  destruct i as [|i]; cbn [w_off]; [lia|]. specialize (IH i j). lia.
Qed.

(* a cursor strictly inside a token is never decoded: the unchecked slicing is only reached on boundaries *)
Lemma w_decode_inside l i c : i < length l -> w_off w l i < c -> c < w_off w l (S i) -> w_decode w l c = None.
Proof.
  revert i c. induction l as [|t r IH]; intros i c Hi H1 H2; cbn in Hi; [lia|].
  destruct i as [|i]; cbn [w_off] in H1, H2.
  - cbn [w_decode]. destruct c; [lia|]. destruct r; cbn [w_off] in H2;
      (replace (S c <? w t) with true by (symmetry; apply Nat.ltb_lt; lia)); reflexivity.
  - cbn [w_decode]. pose proof (Hw t). destruct c; [lia|].
    replace (S c <? w t) with false by (symmetry; apply Nat.ltb_ge; lia).
    rewrite (IH i (S c - w t)); [reflexivity | lia | lia | ].
    cbn [w_off] in H2. lia.
Qed.
End WidthP.

Lemma str_off_is_w_off : forall l i, str_off l i = w_off utf8_width l i.
Proof. induction l as [|t r IH]; intros [|i]; cbn; auto. Qed.

(* ---------- Stream ---------- *)
(* cache ++ rest is always the token sequence; pulled = |cache| *)
Definition stream_inv (l : list tok) (s : stream) : Prop :=
  s_cache s ++ s_rest s = l /\ s_pulled s = length (s_cache s).

Lemma stream_init_inv l : stream_inv l (stream_init l).
Proof. split; reflexivity. Qed.

(* For every batch size B > 0 and every cursor obtained from earlier calls (c <= |cache|): next returns
   the token of the canonical sequence, the invariant is kept, the cache only grows (each item is pulled
   at most once and in order), however the parser moved the cursor back in between *)
Lemma stream_refines B l s c t s' :
  0 < B -> stream_inv l s -> c <= length (s_cache s) ->
  stream_next B s c = (t, s') ->
  t = nth_error l c /\ stream_inv l s' /\
  (exists more, s_cache s' = s_cache s ++ more) /\
  (match t with Some _ => S c <= length (s_cache s') | None => True end).
Proof.
  intros HB [Hl Hp] Hc H. unfold stream_next in H.
  destruct (Nat.leb (length (s_cache s)) c) eqn:E; injection H as <- <-; unfold stream_inv; cbn [s_cache s_rest s_pulled].
  - apply Nat.leb_le in E. assert (c = length (s_cache s)) by lia. subst c.
    repeat split.
    + rewrite <- Hl. rewrite !nth_error_app2 by lia. rewrite Nat.sub_diag.
      destruct (s_rest s) as [|x r]; [destruct B; reflexivity|]. destruct B; [lia|]. reflexivity.
    + rewrite <- app_assoc, firstn_skipn. exact Hl.
    + rewrite app_length, Hp. reflexivity.
    + eexists; reflexivity.
    + rewrite nth_error_app2 by lia. rewrite Nat.sub_diag.
      destruct (s_rest s) as [|x r]; [destruct B; cbn; auto|]. destruct B; [lia|]. cbn. rewrite app_length. cbn. lia.
  - apply Nat.leb_gt in E. repeat split; auto.
    + rewrite <- Hl. now rewrite nth_error_app1 by lia.
    + exists []. now rewrite app_nil_r.
    + destruct (nth_error (s_cache s) c) eqn:En; auto.
Qed.

(* ---------- IoInput ---------- *)
(* the reader stands where the remembered cursor says *)
Definition io_ok (s : ioin) : Prop := io_rpos s = Z.of_nat (io_last s).

Lemma io_init_ok : io_ok io_init.
Proof. reflexivity. Qed.

(* whatever cursor is asked for next - further on, further back, the same again - the byte at that cursor is returned
   (or the end of input), the cursor advances by one on success, and the invariant is kept *)
Lemma io_next_spec bytes s c : io_ok s ->
  fst (io_next bytes s c) = option_map (fun b => (b, S c)) (nth_error bytes c) /\ io_ok (snd (io_next bytes s c)).
Proof.
  unfold io_ok, io_next. intros H.
  destruct (Nat.eqb c (io_last s)) eqn:E.
  - apply Nat.eqb_eq in E. subst c. rewrite H.
    destruct (Z.ltb_spec (Z.of_nat (io_last s)) 0) as [L|L]; [lia|]. rewrite Nat2Z.id.
    destruct (nth_error bytes (io_last s)); cbn [fst snd io_rpos io_last option_map]; split; auto. lia.
  - cbn [io_rpos io_last]. rewrite H.
    replace (Z.of_nat (io_last s) + (Z.of_nat c - Z.of_nat (io_last s)))%Z with (Z.of_nat c) by lia.
    destruct (Z.ltb_spec (Z.of_nat c) 0) as [L|L]; [lia|]. rewrite Nat2Z.id.
    destruct (nth_error bytes c); cbn [fst snd io_rpos io_last option_map]; split; auto. lia.
Qed.

(* every history of requests is answered from the file by position *)
Theorem io_refines bytes : forall cs s, io_ok s ->
  io_run bytes s cs = map (fun c => option_map (fun b => (b, S c)) (nth_error bytes c)) cs.
Proof.
  induction cs as [|c cs IH]; intros s H; cbn [io_run map]; [reflexivity|].
  destruct (io_next_spec bytes s c H) as (Ha & Hk). rewrite Ha, (IH _ Hk). reflexivity.
Qed.

(* ---------- Input::map: the cached end offset ---------- *)
(* the cache of a cursor is the end of the token before it *)
Definition mc_ok (spans : list span) (c : mcur) : Prop :=
  mc_end c = match mc_idx c with 0 => None | S k => option_map snd (nth_error spans k) end.

Lemma mc_init_ok spans : mc_ok spans mc_init.
Proof. reflexivity. Qed.

Lemma mapped_next_ok spans c c' : mc_ok spans c -> mapped_next spans c = Some c' ->
  mc_ok spans c' /\ mc_idx c' = S (mc_idx c).
Proof.
  unfold mapped_next, mc_ok. intros _ H. destruct (nth_error spans (mc_idx c)) as [[s e]|] eqn:E; [|discriminate].
  injection H as <-. cbn [mc_idx mc_end]. rewrite E. auto.
Qed.

(* every cursor the parser can hold (k tokens after the start, however it got there) has a correct cache *)
Lemma mc_walk_ok spans : forall k c c', mc_ok spans c -> mc_walk spans k c = Some c' -> mc_ok spans c' /\ mc_idx c' = k + mc_idx c.
Proof.
  induction k as [|k IH]; intros c c' H W; cbn [mc_walk] in W.
  - injection W as <-. auto.
  - destruct (mapped_next spans c) as [c1|] eqn:E; [|discriminate].
    destruct (mapped_next_ok _ _ _ H E) as (H1 & I1). destruct (IH _ _ H1 W) as (H2 & I2). split; auto. lia.
Qed.

(* the span the code computes from two such cursors is the span formula of the model (Inputs.spn_mapped) *)
Theorem mapped_cursor_refines spans eoi c1 c2 : mc_ok spans c1 -> mc_ok spans c2 ->
  mapped_span spans eoi c1 c2 = spn_mapped false spans eoi (mc_idx c1) (mc_idx c2).
Proof.
  unfold mapped_span, spn_mapped, mc_ok. intros _ H2.
  destruct (nth_error spans (mc_idx c1)) as [[s1 e1]|]; [|reflexivity].
  cbn [negb andb]. destruct (Nat.eqb (mc_idx c1) (mc_idx c2)); [reflexivity|].
  rewrite H2. destruct (mc_idx c2) as [|k]; [reflexivity|].
  destruct (nth_error spans k) as [[s e]|]; reflexivity.
Qed.
