(* Facts about the input kinds' span functions. *)
From Chum Require Export Inputs.
From Coq Require Import Lia.

Lemma mapped_nonempty_first_to_last (spans : list span) eoi p1 p2 s1 e1 s2 e2 :
  p1 < p2 -> nth_error spans p1 = Some (s1, e1) -> nth_error spans (p2 - 1) = Some (s2, e2) ->
  spn_mapped false spans eoi p1 p2 = (s1, e2).
Proof.
  intros Hlt H1 H2. unfold spn_mapped.
  destruct (nth_error spans p1) as [[a b]|]; [|discriminate]. injection H1 as -> ->.
  replace (Nat.eqb p1 p2) with false by (symmetry; apply Nat.eqb_neq; lia). cbn.
  destruct p2 as [|k]; [lia|]. replace (S k - 1) with k in H2 by lia.
  destruct (nth_error spans k) as [[c d]|]; [|discriminate]. injection H2 as -> ->. reflexivity.
Qed.

Lemma mapped_empty_is_empty (spans : list span) eoi p :
  fst (spn_mapped false spans eoi p p) = snd (spn_mapped false spans eoi p p).
Proof.
  unfold spn_mapped. destruct (nth_error spans p) as [[s1 e1]|]; [|reflexivity].
  rewrite Nat.eqb_refl. reflexivity.
Qed.
