(* C09: flattening the tree that pratt() builds yields the consumed tokens in order.

   A parser is token-faithful when the tokens inside its output (val_toks) are exactly the tokens it consumed.  If the atom
   and every operator parser are token-faithful, so is atom.pratt(ops), for every table, binding power, associativity and
   input: the folds put operands and operators in input order and no token is lost or duplicated by the backtracking over
   operators whose operand is missing. *)
From Chum Require Export Extent.

Section PrattOrder.
Variable K : ekind.
Variable toks : list tok.
Variable spn : nat -> nat -> span.

(* the tokens from position p up to position p' *)
Definition seg (p p' : nat) : list tok := firstn (p' - p) (skipn p toks).

Lemma seg_nil p : seg p p = [].
Proof. unfold seg. now rewrite Nat.sub_diag. Qed.

Lemma firstn_add {A} (l : list A) : forall a b, firstn a l ++ firstn b (skipn a l) = firstn (a + b) l.
Proof.
  induction l as [|x l IH]; intros a b.
  - rewrite skipn_nil, !firstn_nil. reflexivity.
  - destruct a as [|a]; cbn; [reflexivity|]. now rewrite IH.
Qed.

Lemma skipn_add {A} (l : list A) : forall a b, skipn b (skipn a l) = skipn (a + b) l.
Proof.
  induction l as [|x l IH]; intros a b.
  - now rewrite !skipn_nil.
  - destruct a as [|a]; cbn; [reflexivity|]. apply IH.
Qed.

Lemma seg_app p p1 p2 : p <= p1 -> p1 <= p2 -> seg p p1 ++ seg p1 p2 = seg p p2.
Proof.
  intros H1 H2. unfold seg.
  replace (skipn p1 toks) with (skipn (p1 - p) (skipn p toks)) by (rewrite skipn_add; f_equal; lia).
  rewrite firstn_add. f_equal. lia.
Qed.

Section L.
Variable run : srun_t.
Hypothesis HE : Ext toks run.

Definition faithful (g : G) : Prop :=
  forall ctx p a v p' e a', run g ctx p a = Some (Some (v, p', e), a') -> p <= length toks -> val_toks v = seg p p'.
Definition faithful_op (o : pop) : Prop :=
  match o with PInfix _ _ g _ | PPrefix _ g _ | PPostfix _ g _ => faithful g end.

Lemma val_toks_infix k l op r sp : val_toks (pfold_infix k l op r sp) = val_toks l ++ val_toks op ++ val_toks r.
Proof. cbn. now rewrite !app_nil_r. Qed.
Lemma val_toks_prefix k op r sp : val_toks (pfold_prefix k op r sp) = val_toks op ++ val_toks r.
Proof. cbn. now rewrite !app_nil_r. Qed.
Lemma val_toks_postfix k l op sp : val_toks (pfold_postfix k l op sp) = val_toks l ++ val_toks op.
Proof. cbn. now rewrite !app_nil_r. Qed.

Section P.
Variable rec : nat -> nat -> reg -> option sres.
Hypothesis Hrec : forall minp p a v p' e a', rec minp p a = Some (Some (v, p', e), a') -> p <= length toks ->
  p <= p' <= length toks /\ val_toks v = seg p p'.

Lemma sprefix_order : forall ops ctx start a v p' e a', Forall faithful_op ops ->
  pratt_sprefix spn run rec ops ctx start a = SDone (Some (Some (v, p', e), a')) -> start <= length toks ->
  start <= p' <= length toks /\ val_toks v = seg start p'.
Proof.
  induction ops as [|o ops IH]; intros ctx start a v p' e a' Hf H Hp; cbn [pratt_sprefix] in H; [discriminate|].
  inversion Hf as [|? ? Ho Hops]; subst.
  destruct o as [r bp og k|bp og k|bp og k]; try (eapply IH; eassumption).
  destruct (run og ctx start a) as [[[[[v1 p1] e1]|] a1]|] eqn:E; [|eapply IH; eassumption|discriminate].
  pose proof (HE _ _ _ _ _ _ _ _ E Hp) as X1. pose proof (Ho _ _ _ _ _ _ _ E Hp) as F1.
  destruct (rec (2 * bp) p1 a1) as [[[[[v2 p2] e2]|] a2]|] eqn:E2; [|eapply IH; eassumption|discriminate].
  injection H as <- <- <- <-. destruct (Hrec _ _ _ _ _ _ _ E2 (proj2 X1)) as (X2 & F2).
  split; [lia|]. rewrite val_toks_prefix, F1, F2. apply seg_app; lia.
Qed.

Lemma spostfix_order : forall ops ctx minp start lhs p a v p' e a', Forall faithful_op ops ->
  pratt_spostfix spn run ops ctx minp start lhs p a = SDone (Some (Some (v, p', e), a')) ->
  start <= p -> p <= length toks -> val_toks lhs = seg start p ->
  p <= p' <= length toks /\ val_toks v = seg start p'.
Proof.
  induction ops as [|o ops IH]; intros ctx minp start lhs p a v p' e a' Hf H Hs Hp Hl; cbn [pratt_spostfix] in H; [discriminate|].
  inversion Hf as [|? ? Ho Hops]; subst.
  destruct o as [r bp og k|bp og k|bp og k]; try (eapply IH; eassumption).
  destruct (minp <=? 2 * bp + 1); [|eapply IH; eassumption].
  destruct (run og ctx p a) as [[[[[v1 p1] e1]|] a1]|] eqn:E; [|eapply IH; eassumption|discriminate].
  pose proof (HE _ _ _ _ _ _ _ _ E Hp) as X1. pose proof (Ho _ _ _ _ _ _ _ E Hp) as F1.
  injection H as <- <- <- <-. split; [lia|]. rewrite val_toks_postfix, Hl, F1. apply seg_app; lia.
Qed.

Lemma sinfix_order : forall ops ctx minp start lhs p a v p' e a', Forall faithful_op ops ->
  pratt_sinfix spn run rec ops ctx minp start lhs p a = SDone (Some (Some (v, p', e), a')) ->
  start <= p -> p <= length toks -> val_toks lhs = seg start p ->
  p <= p' <= length toks /\ val_toks v = seg start p'.
Proof.
  induction ops as [|o ops IH]; intros ctx minp start lhs p a v p' e a' Hf H Hs Hp Hl; cbn [pratt_sinfix] in H; [discriminate|].
  inversion Hf as [|? ? Ho Hops]; subst.
  destruct o as [r bp og k|bp og k|bp og k]; try (eapply IH; eassumption).
  destruct (minp <=? lpow r bp); [|eapply IH; eassumption].
  destruct (run og ctx p a) as [[[[[v1 p1] e1]|] a1]|] eqn:E; [|eapply IH; eassumption|discriminate].
  pose proof (HE _ _ _ _ _ _ _ _ E Hp) as X1. pose proof (Ho _ _ _ _ _ _ _ E Hp) as F1.
  destruct (rec (rpow r bp) p1 a1) as [[[[[v2 p2] e2]|] a2]|] eqn:E2; [|eapply IH; eassumption|discriminate].
  injection H as <- <- <- <-. destruct (Hrec _ _ _ _ _ _ _ E2 (proj2 X1)) as (X2 & F2).
  split; [lia|]. rewrite val_toks_infix, Hl, F1, F2. rewrite (seg_app p p1 p2) by lia. apply seg_app; lia.
Qed.
End P.

Theorem pratt_order atom ops ctx : faithful atom -> Forall faithful_op ops -> forall fuel,
  (forall minp p a v p' e a', pratt_sem spn run fuel atom ops ctx minp p a = Some (Some (v, p', e), a') ->
     p <= length toks -> p <= p' <= length toks /\ val_toks v = seg p p')
  /\
  (forall minp start lhs acce p a v p' e a',
     pratt_sloop spn run fuel atom ops ctx minp start lhs acce p a = Some (Some (v, p', e), a') ->
     start <= p -> p <= length toks -> val_toks lhs = seg start p ->
     p <= p' <= length toks /\ val_toks v = seg start p').
Proof.
  intros Ha Hf. induction fuel as [|f [IHs IHl]]; [split; intros; discriminate|].
  split.
  - intros minp p a v p' e a' H Hp. rewrite pratt_sem_S in H.
    destruct (pratt_sprefix spn run (pratt_sem spn run f atom ops ctx) ops ctx p a) as [[[[[[v1 p1] e1]|] a1]|]|a1] eqn:E;
      try discriminate.
    + destruct (sprefix_order _ IHs _ _ _ _ _ _ _ _ Hf E Hp) as (X & F).
      destruct (IHl _ _ _ _ _ _ _ _ _ _ H (proj1 X) (proj2 X) F) as (X2 & F2). split; [lia|exact F2].
    + destruct (run atom ctx p a1) as [[[[[v1 p1] e1]|] a2]|] eqn:Ea; try discriminate.
      pose proof (HE _ _ _ _ _ _ _ _ Ea Hp) as X. pose proof (Ha _ _ _ _ _ _ _ Ea Hp) as F.
      destruct (IHl _ _ _ _ _ _ _ _ _ _ H (proj1 X) (proj2 X) F) as (X2 & F2). split; [lia|exact F2].
  - intros minp start lhs acce p a v p' e a' H Hs Hp Hl. rewrite pratt_sloop_S in H.
    destruct (pratt_spostfix spn run ops ctx minp start lhs p a) as [[[[[[v1 p1] e1]|] a1]|]|a1] eqn:E; try discriminate.
    + destruct (spostfix_order _ _ _ _ _ _ _ _ _ _ _ Hf E Hs Hp Hl) as (X & F).
      destruct (IHl _ _ _ _ _ _ _ _ _ _ H ltac:(lia) (proj2 X) F) as (X2 & F2). split; [lia|exact F2].
    + destruct (pratt_sinfix spn run (pratt_sem spn run f atom ops ctx) ops ctx minp start lhs p a1)
        as [[[[[[v1 p1] e1]|] a2]|]|a2] eqn:EI; try discriminate.
      * destruct (sinfix_order _ IHs _ _ _ _ _ _ _ _ _ _ _ Hf EI Hs Hp Hl) as (X & F).
        destruct (IHl _ _ _ _ _ _ _ _ _ _ H ltac:(lia) (proj2 X) F) as (X2 & F2). split; [lia|exact F2].
      * injection H as <- <- <- <-. split; [lia|exact Hl].
Qed.
End L.

(* ---------- for the specification itself ---------- *)
Notation sem := (sem K toks spn).

Definition sfaithful (g : G) : Prop := forall n, faithful (sem n) g.

Lemma seg_one p t : nth_error toks p = Some t -> seg p (S p) = [t].
Proof.
  intros H. unfold seg. replace (S p - p) with 1 by lia.
  revert p H. induction toks as [|x l IH]; intros [|p] H; cbn in *; try discriminate.
  - now injection H as ->.
  - apply IH. exact H.
Qed.

(* the token primitives that keep their token are faithful *)
Lemma any_faithful : sfaithful Any.
Proof.
  intros [|n] ctx p a v p' e a' H Hp; [discriminate|]. cbn [Sem.sem] in H. unfold one_tok_sem in H.
  destruct (nth_error toks p) as [t|] eqn:Et; [|discriminate]. injection H as <- <- <- <-. cbn. symmetry. now apply seg_one.
Qed.
Lemma one_of_faithful ts : sfaithful (OneOf ts).
Proof.
  intros [|n] ctx p a v p' e a' H Hp; [discriminate|]. cbn [Sem.sem] in H. unfold one_tok_sem in H.
  destruct (nth_error toks p) as [t|] eqn:Et; [|discriminate]. destruct (memN t ts); [|discriminate].
  injection H as <- <- <- <-. cbn. symmetry. now apply seg_one.
Qed.

(* atom.pratt(ops) over faithful atoms and operators is faithful *)
Theorem pratt_faithful atom ops : sfaithful atom -> Forall (fun o => forall n, faithful_op (sem n) o) ops -> sfaithful (Pratt atom ops).
Proof.
  intros Ha Ho [|n] ctx p a v p' e a' H Hp; [discriminate|]. cbn [Sem.sem] in H.
  assert (Hf : Forall (faithful_op (sem n)) ops) by (eapply Forall_impl; [|exact Ho]; intros o X; exact (X n)).
  exact (proj2 (proj1 (pratt_order (sem n) (sem_ext K toks spn n) atom ops ctx (Ha n) Hf n) _ _ _ _ _ _ _ H Hp)).
Qed.
End PrattOrder.

Print Assumptions pratt_faithful.
