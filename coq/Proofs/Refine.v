(* The master refinement: the (quirk-free) machine computes the specification [sem].
   For every grammar, input, error type, mode, context and start state. *)
From Chum Require Export Base.

Section Refine.
Variable K : ekind.
Variable toks : list tok.
Variable spn : nat -> nat -> span.

Notation go := (go no_quirks K toks spn).
Notation sem := (sem K toks spn).
Notation ust_at := (ust_at toks).
Notation inv := (inv toks).
Notation one_tok := (one_tok K toks spn).
Notation alt_ef := (alt_ef K).
Notation alt_err := (alt_err no_quirks K).

(* what a successful / failing machine run means in terms of the specification's result x *)
Definition ok_post (m : mode) (s : st) (v : option val) (s1 : st) (x : option sres) : Prop :=
  exists v' p' ems,
    x = Some (Some (v', p', ems), alt s1) /\ v = bindv m v' /\ cur s1 = p' /\
    sec s1 = sec s ++ ems /\ ust s1 = ust_at p'.
Definition err_post (s s1 : st) (x : option sres) : Prop :=
  exists ext, x = Some (None, alt s1) /\ sec s1 = sec s ++ ext.

Definition post (m : mode) (s : st) (r : outcome) (s1 : st) (x : option sres) : Prop :=
  match r with
  | Ok v => ok_post m s v s1 x
  | Err => err_post s s1 x
  | _ => True
  end.

(* [R run srun]: the interpreter [run] refines the semantic function [srun] *)
Definition R (run : run_t) (srun : srun_t) : Prop :=
  forall m g ctx s r s1, run m g ctx s = (r, s1) -> inv s ->
    post m s r s1 (srun g ctx (cur s) (alt s)).

Lemma bindv_getv m v : bindv m (getv (bindv m v)) = bindv m v.
Proof. destruct m; reflexivity. Qed.

(* ---------- primitives ---------- *)
(* InputRef::skip n times: to min (cur + n) |input|, the inspector sees every skipped token *)
Lemma skip_loop_spec : forall k s, inv s ->
  cur (skip_loop toks k s) = Nat.max (cur s) (Nat.min (cur s + k) (length toks)) /\ sec (skip_loop toks k s) = sec s /\
  alt (skip_loop toks k s) = alt s /\ inv (skip_loop toks k s).
Proof.
  induction k as [|k IH]; intros s Hi; cbn [skip_loop].
  - repeat split; auto. lia.
  - unfold next. destruct (nth_error toks (cur s)) as [t|] eqn:Et; cbn [snd].
    + assert (Hlt : cur s < length toks) by (apply nth_error_Some; congruence).
      destruct (IH (mkSt (S (cur s)) (sec s) (alt s) (on_tok t (ust s)) (memo s))) as (Hc & Hs & Ha & Hv).
      { unfold Base.inv. cbn. rewrite (ust_at_S _ _ _ Et). now rewrite Hi. }
      cbn [cur sec alt] in *. repeat split; auto. rewrite Hc. lia.
    + assert (Hge : length toks <= cur s) by (apply nth_error_None; assumption).
      destruct (IH s Hi) as (Hc & Hs & Ha & Hv). repeat split; auto. rewrite Hc. lia.
Qed.

(* InputRef::skip_while: to the end of the run of matching tokens; nothing else changes, the inspector sees every token *)
Lemma skip_while_spec ws : forall k s, inv s ->
  cur (skip_while toks k ws s) = skip_ws toks k ws (cur s) /\ sec (skip_while toks k ws s) = sec s /\
  alt (skip_while toks k ws s) = alt s /\ memo (skip_while toks k ws s) = memo s /\ inv (skip_while toks k ws s).
Proof.
  induction k as [|k IH]; intros s Hi; cbn [skip_while skip_ws].
  - repeat split; auto.
  - destruct (nth_error toks (cur s)) as [t|] eqn:Et; [|repeat split; auto].
    destruct (memN t ws); [|repeat split; auto].
    destruct (IH (mkSt (S (cur s)) (sec s) (alt s) (on_tok t (ust s)) (memo s))) as (Hc & Hs & Ha & Hm & Hv).
    { unfold Base.inv. cbn. rewrite (ust_at_S _ _ _ Et). now rewrite Hi. }
    cbn [cur sec alt memo] in *. repeat split; auto.
Qed.

Lemma one_tok_refines m acc exp s r s1 :
  one_tok m acc exp s = (r, s1) -> inv s ->
  post m s r s1 (Some (one_tok_sem K toks spn acc exp (cur s) (alt s))).
Proof.
  unfold Machine.one_tok, one_tok_sem, next. intros H Hi.
  destruct (nth_error toks (cur s)) as [t|] eqn:Et.
  - destruct (acc t) as [v|]; inversion H; subst; cbn.
    + exists v, (S (cur s)), []. cbn. rewrite app_nil_r. repeat split; auto.
      rewrite (ust_at_S _ _ _ Et). now rewrite Hi.
    + exists []. rewrite rewind_save0 by reflexivity. cbn. rewrite app_nil_r. split; reflexivity.
  - inversion H; subst; cbn. exists []. rewrite rewind_save0 by reflexivity. cbn. rewrite app_nil_r. split; reflexivity.
Qed.


Lemma fail_here_refines exp s :
  alt (fail_here K toks spn exp s) = fail_at K toks spn (alt s) (cur s) exp /\ sec (fail_here K toks spn exp s) = sec s.
Proof.
  unfold fail_here, fail_at, next. destruct (nth_error toks (cur s)) as [t|];
    rewrite rewind_save0 by reflexivity; cbn; split; reflexivity.
Qed.

Lemma ok_post_inv m s v s1 x : ok_post m s v s1 x -> inv s1.
Proof. intros (v' & p' & ems & _ & _ & Hc & _ & Hu). unfold Base.inv. now rewrite Hc. Qed.

Lemma just_loop_refines ts : forall s b s1,
  just_loop K toks spn ts s = (b, s1) -> inv s ->
  match just_sem K toks spn ts (cur s) (alt s) with
  | (Some p1, a1) => b = true /\ cur s1 = p1 /\ alt s1 = a1 /\ sec s1 = sec s /\ ust s1 = ust_at p1
  | (None, a1) => b = false /\ alt s1 = a1 /\ sec s1 = sec s
  end.
Proof.
  induction ts as [|t ts IH]; intros s b s1 H Hi; cbn in *.
  - inversion H; subst. repeat split; auto.
  - unfold next in H. destruct (nth_error toks (cur s)) as [u|] eqn:Eu.
    + destruct (N.eqb t u).
      * specialize (IH _ _ _ H). cbn in IH. apply IH. unfold Base.inv. cbn.
        rewrite (ust_at_S _ _ _ Eu). now rewrite Hi.
      * inversion H; subst; cbn. rewrite rewind_save0 by reflexivity. repeat split; auto.
    + inversion H; subst; cbn. rewrite rewind_save0 by reflexivity. repeat split; auto.
Qed.

Lemma custom_loop_refines ts : forall s b s1,
  custom_loop toks ts s = (b, s1) -> inv s ->
  custom_sem toks ts (cur s) = (b, cur s1) /\ alt s1 = alt s /\ sec s1 = sec s /\ ust s1 = ust_at (cur s1).
Proof.
  induction ts as [|t ts IH]; intros s b s1 H Hi; cbn in *.
  - inversion H; subst. repeat split; auto.
  - unfold next in H. destruct (nth_error toks (cur s)) as [u|] eqn:Eu.
    + assert (Hi' : inv (mkSt (S (cur s)) (sec s) (alt s) (on_tok u (ust s)) (memo s))).
      { unfold Base.inv; cbn. rewrite (ust_at_S _ _ _ Eu). now rewrite Hi. }
      destruct (N.eqb t u).
      * specialize (IH _ _ _ H Hi'). cbn in IH. exact IH.
      * inversion H; subst; cbn. repeat split; auto.
    + inversion H; subst; cbn. repeat split; auto.
Qed.


(* a custom parser's program over InputRef's public API: the machine's run is the positional reading; nothing but the
   cursor and the user state moves, and the user state is the inspector's reading of the prefix before the cursor
   (save / rewind restore it, peek does not disturb it) *)
Lemma firstn_all' {A} (l : list A) : firstn (length l) l = l.
Proof. induction l; cbn; congruence. Qed.

Lemma prog_loop_refines ops : forall start stack sstack acc s b acc' s1,
  prog_loop toks spn ops start stack acc s = (b, acc', s1) -> inv s ->
  Forall2 (fun c p => c = (p, length (sec s), ust_at p)) stack sstack ->
  prog_sem toks spn ops start sstack acc (cur s) = (b, acc', cur s1) /\
  alt s1 = alt s /\ sec s1 = sec s /\ ust s1 = ust_at (cur s1) /\ memo s1 = memo s.
Proof.
  induction ops as [|o ops IH]; intros start stack sstack acc s b acc' s1 H Hi Hst; cbn [prog_loop prog_sem] in *.
  { injection H as <- <- <-. repeat split; auto. }
  assert (Hnext : forall t, nth_error toks (cur s) = Some t ->
            inv (mkSt (S (cur s)) (sec s) (alt s) (on_tok t (ust s)) (memo s))).
  { intros t Et. unfold Base.inv. cbn. rewrite (ust_at_S _ _ _ Et). now rewrite Hi. }
  destruct o.
  - (* CNext *) unfold next in H. destruct (nth_error toks (cur s)) as [t|] eqn:Et.
    + apply IH with (sstack := sstack) in H; auto.
    + apply IH with (sstack := sstack) in H; auto.
  - (* CNextRef *) unfold next in H. destruct (nth_error toks (cur s)) as [t|] eqn:Et.
    + apply IH with (sstack := sstack) in H; auto.
    + apply IH with (sstack := sstack) in H; auto.
  - (* CPeek *) apply IH with (sstack := sstack) in H; auto.
  - (* CSkip *) unfold next in H. destruct (nth_error toks (cur s)) as [t|] eqn:Et; cbn [snd] in H.
    + apply IH with (sstack := sstack) in H; auto.
    + apply IH with (sstack := sstack) in H; auto.
  - (* CSave *) apply IH with (sstack := cur s :: sstack) in H; auto.
    constructor; auto. unfold save. now rewrite Hi.
  - (* CRewind *) destruct stack as [|c stack']; inversion Hst as [|c0 q l l' Hc Hrest]; subst.
    + apply IH with (sstack := []) in H; auto.
    + unfold rewind in H. rewrite firstn_all' in H.
      apply IH with (sstack := l') in H; [exact H | reflexivity | exact Hrest].
  - (* CExpect *) unfold next in H. destruct (nth_error toks (cur s)) as [u|] eqn:Eu.
    + destruct (N.eqb t u).
      * apply IH with (sstack := sstack) in H; auto.
      * injection H as <- <- <-. cbn. repeat split; auto. now apply Hnext.
    + injection H as <- <- <-. repeat split; auto.
  - (* CSpan *) apply IH with (sstack := sstack) in H; auto.
  - (* CState *) rewrite Hi in H. apply IH with (sstack := sstack) in H; auto.
Qed.

Lemma join_alt_cur Q s new : cur (join_alt Q K s new) = cur s.
Proof. destruct new as [[q e]|]; reflexivity. Qed.
Lemma join_alt_sec Q s new : sec (join_alt Q K s new) = sec s.
Proof. destruct new as [[q e]|]; reflexivity. Qed.
Lemma join_alt_ust Q s new : ust (join_alt Q K s new) = ust s.
Proof. destruct new as [[q e]|]; reflexivity. Qed.
Lemma join_alt_alt s new : alt (join_alt no_quirks K s new) = join K (alt s) new.
Proof. destruct new as [[q e]|]; reflexivity. Qed.

(* ---------- proof automation for the per-combinator cases ---------- *)
Ltac inv_pair H := injection H as <- <-.

(* consume the result of a sub-run E : run m a ctx s = (r1, s1) using HR : R run srun *)
Ltac use HR E :=
  let P := fresh "P" in
  pose proof (HR _ _ _ _ _ _ E) as P;
  match type of P with ?A -> _ => let Hi := fresh "Hi" in assert (Hi : A) by (eauto using ok_post_inv); specialize (P Hi); clear Hi end;
  cbn [post cur alt sec ust set_alt set_cur set_sec] in P.

Ltac ok_elim P :=
  let v' := fresh "v'" in let p' := fresh "p'" in let ems := fresh "ems" in
  let Hs := fresh "Hs" in let Hv := fresh "Hv" in let Hc := fresh "Hc" in
  let Hsec := fresh "Hsec" in let Hu := fresh "Hu" in
  destruct P as (v' & p' & ems & Hs & Hv & Hc & Hsec & Hu);
  cbn [cur alt sec ust set_alt] in Hs, Hc, Hsec, Hu; subst p'; try rewrite Hs.

Ltac err_elim P :=
  let ext := fresh "ext" in let Hs := fresh "Hs" in let Hsec := fresh "Hsec" in
  destruct P as (ext & Hs & Hsec); cbn [cur alt sec ust set_alt] in Hs, Hsec; try rewrite Hs.

Ltac stsimpl :=
  rewrite ?join_alt_cur, ?join_alt_sec, ?join_alt_ust, ?join_alt_alt;
  cbn [cur alt sec ust Machine.alt_ef Machine.alt_err set_alt set_sec set_cur emit].
Ltac fin_ok :=
  do 3 eexists; split; [reflexivity|];
  stsimpl; repeat split;
  try solve [ assumption | reflexivity
            | subst; match goal with m : mode |- _ => destruct m end; cbn; congruence
            | repeat match goal with H : sec _ = _ |- _ => rewrite H end; rewrite ?app_assoc, ?app_nil_r; reflexivity ].

Ltac fin_err :=
  eexists; split; [reflexivity|];
  stsimpl;
  repeat match goal with H : sec _ = _ |- _ => rewrite H end; rewrite <- ?app_assoc; reflexivity.

Ltac trivial_res H := inv_pair H; exact I.

Lemma post_sec_eq m s s' r s1 x : sec s = sec s' -> post m s r s1 x -> post m s' r s1 x.
Proof.
  intros E. destruct r; cbn; auto.
  - intros (v' & p' & ems & ? & ? & ? & ? & ?). exists v', p', ems. rewrite <- E. auto.
  - intros (ext & ? & ?). exists ext. rewrite <- E. auto.
Qed.

Section LoopLemmas.
Variable run : run_t.
Variable srun : srun_t.
Hypothesis HR : R run srun.

Lemma choice_loop_refines m ctx s0 : forall gs s r s1,
  choice_loop run m gs ctx (save s0) s = (r, s1) ->
  inv s -> cur s = cur s0 -> sec s = sec s0 -> ust s = ust s0 ->
  post m s r s1 (choice_sem srun gs ctx (cur s) (alt s)).
Proof.
  induction gs as [|g gs IHgs]; intros s r s1 H Hi Hc Hse Hu; cbn in *.
  - inv_pair H. exists []. rewrite app_nil_r. split; reflexivity.
  - destruct (run m g ctx s) as [r1 s2] eqn:E. use HR E.
    destruct r1; try trivial_res H.
    + inv_pair H. ok_elim P. cbn. fin_ok.
    + err_elim P.
      assert (Hrw : rewind s2 (save s0) = mkSt (cur s0) (sec s0) (alt s2) (ust s0) (memo s2)).
      { apply rewind_save with (ext := ext). now rewrite <- Hse. }
      rewrite Hrw in H.
      specialize (IHgs _ _ _ H). cbn in IHgs.
      rewrite Hc. apply post_sec_eq with (s := mkSt (cur s0) (sec s0) (alt s2) (ust s0) (memo s2)); [cbn; auto|].
      apply IHgs; auto. unfold Base.inv in *. cbn. rewrite <- Hu, <- Hc. exact Hi.
Qed.

Lemma choicevec_loop_refines m ctx s0 (Hi0 : inv s0) : forall gs s r s1,
  choicevec_loop run m gs ctx (save s0) s = (r, s1) ->
  (exists ext, sec s = sec s0 ++ ext) ->
  post m s0 r s1 (choice_sem srun gs ctx (cur s0) (alt s)).
Proof.
  induction gs as [|g gs IHgs]; intros s r s1 H [ext0 He]; cbn in *.
  - inv_pair H. exists ext0. split; auto.
  - rewrite (rewind_save _ _ _ He) in H.
    destruct (run m g ctx _) as [r1 s2] eqn:E. use HR E.
    destruct r1; try trivial_res H.
    + inv_pair H. ok_elim P. cbn. fin_ok.
    + err_elim P. apply IHgs; eauto.
Qed.

Lemma group_loop_refines m ctx s0 : forall gs acc accv acce s r s1,
  group_loop run m gs ctx acc s = (r, s1) -> inv s ->
  sec s = sec s0 ++ acce -> (m = Emit -> acc = accv) ->
  post m s0 r s1 (group_sem srun gs ctx (cur s) (alt s) accv acce).
Proof.
  induction gs as [|g gs IHgs]; intros acc accv acce s r s1 H Hi Hse Hacc; cbn in *.
  - inv_pair H. do 3 eexists. split; [reflexivity|]. repeat split; auto.
    destruct m; cbn; auto. now rewrite Hacc.
  - destruct (run m g ctx s) as [r1 s2] eqn:E. use HR E.
    destruct r1; try trivial_res H.
    + ok_elim P. eapply IHgs; [exact H | exact Hu | |].
      * rewrite Hsec, Hse, app_assoc. reflexivity.
      * intros ->. subst v. cbn. now rewrite Hacc.
    + inv_pair H. err_elim P. cbn. eexists. split; [reflexivity|]. rewrite Hsec, Hse, <- app_assoc. reflexivity.
Qed.


(* ---------- the iterator protocol ---------- *)
Definition npost {St : Type} (m : mode) (s s1 : st) (r : ires) (c' : St)
           (x : option (snext * St * reg)) : Prop :=
  match r with
  | ISome v => exists v' ems,
      x = Some (SSome v' (cur s1) ems, c', alt s1) /\ v = bindv m v' /\
      sec s1 = sec s ++ ems /\ ust s1 = ust_at (cur s1)
  | INone => exists ems,
      x = Some (SNone (cur s1) ems, c', alt s1) /\ sec s1 = sec s ++ ems /\ ust s1 = ust_at (cur s1)
  | IErr => exists ext c'', x = Some (SErr, c'', alt s1) /\ sec s1 = sec s ++ ext
  | _ => True
  end.

Lemma rep_next_refines m a lo hi ctx c s r c' s1 :
  rep_next run m a lo hi ctx c s = (r, c', s1) -> inv s ->
  npost m s s1 r c' (rep_snext srun a lo hi ctx c (cur s) (alt s)).
Proof.
  unfold rep_next, rep_snext. intros H Hi. destruct (at_cap c hi).
  - injection H as <- <- <-. exists []. rewrite app_nil_r. repeat split; auto.
  - destruct (run m a ctx s) as [r1 s2] eqn:E. use HR E. destruct r1.
    + injection H as <- <- <-. ok_elim P. exists v', ems. repeat split; auto.
    + err_elim P. destruct (Nat.leb lo c); injection H as <- <- <-; rewrite (rewind_save _ _ _ Hsec); cbn.
      * exists []. rewrite app_nil_r. repeat split; auto.
      * exists [], c. rewrite app_nil_r. repeat split; auto.
    + injection H as <- <- <-. exact I.
    + injection H as <- <- <-. exact I.
Qed.

Lemma sep_item_refines m a lo trail ctx c s s0 es r c' s1 :
  sep_item run m a lo trail ctx c (save s) s0 = (r, c', s1) ->
  inv s -> inv s0 -> sec s0 = sec s ++ es ->
  npost m s s1 r c' (sep_sitem srun a lo trail ctx c (cur s) (cur s0) es (alt s0)).
Proof.
  unfold sep_item, sep_sitem. intros H Hi Hi0 Hse.
  destruct (run m a ctx s0) as [r1 s2] eqn:E. use HR E. destruct r1.
  - injection H as <- <- <-. ok_elim P. exists v', (es ++ ems). rewrite Hsec, Hse, app_assoc. repeat split; auto.
  - err_elim P.
    assert (Hsec' : sec s2 = sec s ++ (es ++ ext)) by (now rewrite Hsec, Hse, app_assoc).
    destruct (Nat.ltb c lo); [|destruct trail]; injection H as <- <- <-.
    + rewrite (rewind_save _ _ _ Hsec'). exists [], c. cbn. rewrite app_nil_r. split; reflexivity.
    + rewrite (rewind_save _ _ _ Hsec). exists es. cbn. repeat split; auto.
    + rewrite (rewind_save _ _ _ Hsec'). exists []. cbn. rewrite app_nil_r. repeat split; auto.
  - injection H as <- <- <-. exact I.
  - injection H as <- <- <-. exact I.
Qed.

Lemma sep_next_refines m a sep lo hi lead trail ctx c s r c' s1 :
  sep_next run m a sep lo hi lead trail ctx c s = (r, c', s1) -> inv s ->
  npost m s s1 r c' (sep_snext srun a sep lo hi lead trail ctx c (cur s) (alt s)).
Proof.
  unfold sep_next, sep_snext. intros H Hi. destruct (at_cap c hi).
  { injection H as <- <- <-. exists []. rewrite app_nil_r. repeat split; auto. }
  destruct (andb (Nat.eqb c 0) lead).
  - destruct (run Check sep ctx s) as [r1 s2] eqn:E. use HR E. destruct r1.
    + ok_elim P. eapply sep_item_refines in H; eauto.
    + err_elim P. rewrite (rewind_save _ _ _ Hsec) in H.
      eapply sep_item_refines with (es := []) in H; eauto.
      cbn. now rewrite app_nil_r.
    + injection H as <- <- <-. exact I.
    + injection H as <- <- <-. exact I.
  - destruct (Nat.ltb 0 c).
    + destruct (run Check sep ctx s) as [r1 s2] eqn:E. use HR E. destruct r1.
      * ok_elim P. eapply sep_item_refines in H; eauto.
      * err_elim P. destruct (Nat.ltb c lo); injection H as <- <- <-; rewrite (rewind_save _ _ _ Hsec); cbn.
        -- exists [], c. rewrite app_nil_r. split; reflexivity.
        -- exists []. rewrite app_nil_r. repeat split; auto.
      * injection H as <- <- <-. exact I.
      * injection H as <- <- <-. exact I.
    + eapply sep_item_refines with (es := []) in H; eauto. now rewrite app_nil_r.
Qed.

Lemma mapv_bindv m f v : mapv m f (bindv m v) = bindv m (f v).
Proof. destruct m; reflexivity. Qed.

Lemma it_next_refines : forall i m ctx its s r its' s1,
  it_next spn run m i ctx its s = (r, its', s1) -> inv s ->
  npost m s s1 r its' (it_snext toks spn srun i ctx its (cur s) (alt s)).
Proof.
  induction i as [a lo hi|a sep lo hi lead trail|j IHj|f j IHj|f j IHj|a|a lo hi ck|a|i1 IHi1 i2 IHi2];
    intros m ctx its s r its' s1 H Hi; cbn [it_next it_snext] in *.
  - (* IRep *)
    destruct its; try (injection H as <- <- <-; exact I).
    destruct (rep_next run m a lo hi ctx n s) as [[r0 c'] s2] eqn:E. injection H as <- <- <-.
    pose proof (rep_next_refines _ _ _ _ _ _ _ _ _ _ E Hi) as P.
    destruct r0; cbn in *; auto.
    + destruct P as (ems & -> & ?). exists ems. auto.
    + destruct P as (v' & ems & -> & ?). exists v', ems. auto.
    + destruct P as (ext & c'' & -> & ?). exists ext, (SCount c''). auto.
  - (* ISep *)
    destruct its; try (injection H as <- <- <-; exact I).
    destruct (sep_next run m a sep lo hi lead trail ctx n s) as [[r0 c'] s2] eqn:E. injection H as <- <- <-.
    pose proof (sep_next_refines _ _ _ _ _ _ _ _ _ _ _ _ _ E Hi) as P.
    destruct r0; cbn in *; auto.
    + destruct P as (ems & -> & ?). exists ems. auto.
    + destruct P as (v' & ems & -> & ?). exists v', ems. auto.
    + destruct P as (ext & c'' & -> & ?). exists ext, (SCount c''). auto.
  - (* IEnum *)
    destruct its as [|k js| | | | |]; try (injection H as <- <- <-; exact I).
    destruct (it_next spn run m j ctx js s) as [[r0 js'] s2] eqn:E.
    pose proof (IHj _ _ _ _ _ _ _ E Hi) as P.
    destruct r0; injection H as <- <- <-; cbn in *; auto.
    + destruct P as (ems & -> & ?). exists ems. auto.
    + destruct P as (v' & ems & -> & -> & ?). exists (VPair (VNat k) v'), ems. rewrite mapv_bindv. auto.
    + destruct P as (ext & c'' & -> & ?). exists ext, (SEnum k c''). auto.
  - (* IMap *)
    destruct (it_next spn run m j ctx its s) as [[r0 js'] s2] eqn:E.
    pose proof (IHj _ _ _ _ _ _ _ E Hi) as P.
    destruct r0; injection H as <- <- <-; cbn in *; auto.
    + destruct P as (ems & -> & ?). exists ems. auto.
    + destruct P as (v' & ems & -> & -> & ?). exists (ap1 f v'), ems. rewrite mapv_bindv. auto.
    + destruct P as (ext & c'' & -> & ?). exists ext, c''. auto.
  - (* IMapWith *)
    destruct (it_next spn run m j ctx its s) as [[r0 js'] s2] eqn:E.
    pose proof (IHj _ _ _ _ _ _ _ E Hi) as P.
    destruct r0; injection H as <- <- <-; cbn in *; auto.
    + destruct P as (ems & -> & ?). exists ems. auto.
    + destruct P as (v' & ems & -> & -> & Hsec & Hu). eexists _, ems. rewrite mapv_bindv, Hu. auto.
    + destruct P as (ext & c'' & -> & ?). exists ext, c''. auto.
  - (* IOrNot *)
    destruct its as [| |fin| | | |]; try (injection H as <- <- <-; exact I).
    destruct fin.
    + injection H as <- <- <-. exists []. rewrite app_nil_r. repeat split; auto.
    + destruct (run m a ctx s) as [r1 s2] eqn:E. use HR E. destruct r1; injection H as <- <- <-; try exact I.
      * ok_elim P. exists v', ems. auto.
      * err_elim P. rewrite (rewind_save _ _ _ Hsec). exists []. cbn. rewrite app_nil_r. repeat split; auto.
  - (* IRepCfg *)
    destruct its as [| | |c clo chi|k| |]; try (injection H as <- <- <-; exact I).
    + destruct (rep_next run m a clo chi ctx c s) as [[r0 c'] s2] eqn:E. injection H as <- <- <-.
      pose proof (rep_next_refines _ _ _ _ _ _ _ _ _ _ E Hi) as P.
      destruct r0; cbn in *; auto.
      * destruct P as (ems & -> & ?). exists ems. auto.
      * destruct P as (v' & ems & -> & ?). exists v', ems. auto.
      * destruct P as (ext & c'' & -> & ?). exists ext, (SCfg c'' clo chi). auto.
    + (* try_configure whose closure failed *)
      destruct (run m (TryMap PFalse FId k Empty) ctx s) as [r1 s2] eqn:E. use HR E.
      destruct r1; injection H as <- <- <-; try exact I.
      err_elim P. exists ext, (SFail k). auto.
  - (* IIntoIter *)
    destruct its as [| | | | |[l|]|]; try (injection H as <- <- <-; exact I).
    + destruct l as [|x l]; injection H as <- <- <-.
      * exists []. rewrite app_nil_r. repeat split; auto.
      * exists x, []. rewrite app_nil_r. repeat split; auto.
    + destruct (run Emit a ctx s) as [r1 s2] eqn:E. use HR E. destruct r1; try (injection H as <- <- <-; exact I).
      * ok_elim P. subst v. cbn [getv bindv] in H. destruct (val_items v') as [|x l]; injection H as <- <- <-.
        -- exists ems. repeat split; auto.
        -- exists x, ems. repeat split; auto.
      * injection H as <- <- <-. err_elim P. exists ext, (SInto None). auto.
  - (* IThen *)
    destruct its as [| | | | | |sa [sb|]]; try (injection H as <- <- <-; exact I).
    + destruct (it_next spn run m i2 ctx sb s) as [[r0 sb'] s2] eqn:E. injection H as <- <- <-.
      pose proof (IHi2 _ _ _ _ _ _ _ E Hi) as P.
      destruct r0; cbn in *; auto.
      * destruct P as (ems & -> & ?). exists ems. auto.
      * destruct P as (v' & ems & -> & ?). exists v', ems. auto.
      * destruct P as (ext & c'' & -> & ?). exists ext, (SThen sa (Some c'')). auto.
    + destruct (it_next spn run m i1 ctx sa s) as [[r0 sa'] s2] eqn:E.
      pose proof (IHi1 _ _ _ _ _ _ _ E Hi) as P.
      destruct r0; cbn [npost] in P.
      * destruct P as (ems & Hs & Hsec & Hu). rewrite Hs.
        destruct (it_next spn run m i2 ctx (mk_iter i2 ctx) s2) as [[r1 sb'] s3] eqn:E2. injection H as <- <- <-.
        pose proof (IHi2 _ _ _ _ _ _ _ E2 Hu) as P2.
        destruct r1; cbn in *; auto.
        -- destruct P2 as (ems2 & -> & Hsec2 & Hu2). exists (ems ++ ems2). rewrite Hsec2, Hsec, app_assoc. auto.
        -- destruct P2 as (v' & ems2 & -> & -> & Hsec2 & Hu2). exists v', (ems ++ ems2). rewrite Hsec2, Hsec, app_assoc. auto.
        -- destruct P2 as (ext & c'' & -> & Hsec2). exists (ems ++ ext), (SThen sa' (Some c'')). rewrite Hsec2, Hsec, app_assoc. auto.
      * injection H as <- <- <-. destruct P as (v' & ems & -> & ?). exists v', ems. cbn. auto.
      * injection H as <- <- <-. destruct P as (ext & c'' & -> & ?). exists ext, (SThen c'' None). auto.
      * injection H as <- <- <-. exact I.
      * injection H as <- <- <-. exact I.
Qed.

(* machine items vs specification items *)
Definition irel (m : mode) (it : item) (sit : sitem) : Prop :=
  item_before it = sitem_before sit /\ item_after it = sitem_after sit /\
  item_ust it = ust_at (item_after it) /\ (m = Emit -> item_val it = sitem_val sit).

Lemma drive_refines s0 : forall fuel m i ctx its lim pa idx acc s r acc' fl s1 sacc sacce,
  drive spn run fuel m i ctx its lim pa idx acc s = (r, acc', fl, s1) -> inv s ->
  sec s = sec s0 ++ sacce -> Forall2 (irel m) acc sacc ->
  match r with
  | Ok _ => exists sitems ems,
      sdrive toks spn srun fuel i ctx its lim sacc sacce (cur s) (alt s)
        = Some (Some (sitems, fl, cur s1, ems), alt s1) /\
      Forall2 (irel m) acc' sitems /\ sec s1 = sec s0 ++ ems /\ ust s1 = ust_at (cur s1)
  | Err => exists ext,
      sdrive toks spn srun fuel i ctx its lim sacc sacce (cur s) (alt s) = Some (None, alt s1) /\
      sec s1 = sec s0 ++ ext
  | _ => True
  end.
Proof.
  induction fuel as [|fuel IHf]; intros m i ctx its lim pa idx acc s r acc' fl s1 sacc sacce H Hi Hse Hacc;
    cbn [drive sdrive] in *.
  { injection H as <- <- <- <-. exact I. }
  assert (Hstep :
    match it_next spn run m i ctx its s with
    | (ISome v, its', s2) =>
        if pa idx && (cur s =? cur s2) then (Panic PProgress, acc, false, s2)
        else drive spn run fuel m i ctx its' (option_map Nat.pred lim) pa (S idx)
               ((getv v, cur s, cur s2, ust s2) :: acc) s2
    | (INone, _, s2) => (Ok None, acc, true, s2)
    | (IErr, _, s2) => (Err, acc, false, s2)
    | (IPanic k, _, s2) => (Panic k, acc, false, s2)
    | (IOOF, _, s2) => (OutOfFuel, acc, false, s2)
    end = (r, acc', fl, s1) ->
    match r with
    | Ok _ => exists sitems ems,
        match it_snext toks spn srun i ctx its (cur s) (alt s) with
        | Some (SSome v p1 e1, its', r1) =>
            sdrive toks spn srun fuel i ctx its' (option_map Nat.pred lim) ((v, cur s, p1) :: sacc) (sacce ++ e1) p1 r1
        | Some (SNone p1 e1, _, r1) => Some (Some (sacc, true, p1, sacce ++ e1), r1)
        | Some (SErr, _, r1) => Some (None, r1)
        | None => None
        end = Some (Some (sitems, fl, cur s1, ems), alt s1) /\
        Forall2 (irel m) acc' sitems /\ sec s1 = sec s0 ++ ems /\ ust s1 = ust_at (cur s1)
    | Err => exists ext,
        match it_snext toks spn srun i ctx its (cur s) (alt s) with
        | Some (SSome v p1 e1, its', r1) =>
            sdrive toks spn srun fuel i ctx its' (option_map Nat.pred lim) ((v, cur s, p1) :: sacc) (sacce ++ e1) p1 r1
        | Some (SNone p1 e1, _, r1) => Some (Some (sacc, true, p1, sacce ++ e1), r1)
        | Some (SErr, _, r1) => Some (None, r1)
        | None => None
        end = Some (None, alt s1) /\ sec s1 = sec s0 ++ ext
    | _ => True
    end).
  { clear H. intros H.
    destruct (it_next spn run m i ctx its s) as [[r0 its'] s2] eqn:E.
    pose proof (it_next_refines _ _ _ _ _ _ _ _ E Hi) as P.
    destruct r0; cbn [npost] in P.
    - (* INone *) injection H as <- <- <- <-. destruct P as (ems & -> & Hsec & Hu).
      exists sacc, (sacce ++ ems). rewrite Hsec, Hse, app_assoc. repeat split; auto.
    - (* ISome *) destruct P as (v' & ems & -> & -> & Hsec & Hu).
      destruct (pa idx && (cur s =? cur s2)); [injection H as <- <- <- <-; exact I|].
      eapply IHf in H; eauto.
      + rewrite Hsec, Hse, app_assoc. reflexivity.
      + constructor; auto. unfold irel; cbn. repeat split; auto. intros ->. reflexivity.
    - (* IErr *) injection H as <- <- <- <-. destruct P as (ext & c'' & -> & Hsec).
      exists (sacce ++ ext). rewrite Hsec, Hse, app_assoc. split; reflexivity.
    - injection H as <- <- <- <-. exact I.
    - injection H as <- <- <- <-. exact I. }
  destruct lim as [[|l]|].
  - injection H as <- <- <- <-. exists sacc, sacce. repeat split; auto.
  - apply Hstep. exact H.
  - apply Hstep. exact H.
Qed.

Lemma rep_fast_refines s0 a ctx m : forall fuel s r s1 c sacc sacce,
  rep_fast run fuel m a ctx s = (r, s1) -> inv s -> sec s = sec s0 ++ sacce ->
  match r with
  | Ok v => exists sitems ems,
      sdrive toks spn srun fuel (IRep a 0 None) ctx (SCount c) None sacc sacce (cur s) (alt s)
        = Some (Some (sitems, true, cur s1, ems), alt s1) /\
      v = bindv m VUnit /\ sec s1 = sec s0 ++ ems /\ ust s1 = ust_at (cur s1)
  | Err => False
  | _ => True
  end.
Proof.
  induction fuel as [|fuel IHf]; intros s r s1 c sacc sacce H Hi Hse; cbn [rep_fast sdrive it_snext] in *.
  { injection H as <- <-. exact I. }
  unfold rep_snext. cbn [at_cap].
  destruct (run Check a ctx s) as [r1 s2] eqn:E. use HR E. destruct r1.
  - ok_elim P. destruct (cur s =? cur s2); [injection H as <- <-; exact I|].
    eapply IHf in H; eauto. rewrite Hsec, Hse, app_assoc. reflexivity.
  - injection H as <- <-. err_elim P. rewrite (rewind_save _ _ _ Hsec). cbn.
    do 2 eexists. split; [reflexivity|]. rewrite app_nil_r. repeat split; auto.
  - injection H as <- <-. exact I.
  - injection H as <- <-. exact I.
Qed.

Lemma irel_vals acc sacc : Forall2 (irel Emit) acc sacc -> map item_val acc = map sitem_val sacc.
Proof. induction 1 as [|x y l l' Hxy _ IHl]; cbn; [reflexivity|]. destruct Hxy as (_ & _ & _ & Hv). now rewrite Hv, IHl. Qed.

Lemma Forall2_len {A B} (P : A -> B -> Prop) l l' : Forall2 P l l' -> length l = length l'.
Proof. induction 1; cbn; auto. Qed.

Lemma Forall2_rev' {A B} (P : A -> B -> Prop) l l' : Forall2 P l l' -> Forall2 P (rev l) (rev l').
Proof. induction 1; cbn; [constructor|]. apply Forall2_app; auto. Qed.

Lemma fold_left_rel {A B C} (P : B -> C -> Prop) (f : A -> B -> A) (f' : A -> C -> A) l l' :
  Forall2 P l l' -> (forall a x y, P x y -> f a x = f' a y) -> forall a, fold_left f l a = fold_left f' l' a.
Proof. induction 1 as [|x y l l' Hxy _ IHl]; intros Hf a; cbn; [reflexivity|]. rewrite (Hf _ _ _ Hxy). now apply IHl. Qed.

Lemma skip_until_refines s0 m skip until fb ctx a0 : forall fuel s r s1 acce,
  skip_until_loop run fuel m skip until fb ctx a0 s = (r, s1) -> inv s -> sec s = sec s0 ++ acce ->
  match r with
  | Ok v => exists ems,
      skip_until_sem srun fuel skip until ctx (cur s) (alt s) acce = Some (Some (cur s1, ems), alt s1) /\
      v = bindv m (VNat fb) /\ sec s1 = sec s0 ++ ems ++ [(cur s1, snd a0)] /\ ust s1 = ust_at (cur s1)
  | Err => exists ext ra,
      skip_until_sem srun fuel skip until ctx (cur s) (alt s) acce = Some (None, ra) /\
      alt s1 = Some a0 /\ sec s1 = sec s0 ++ ext
  | _ => True
  end.
Proof.
  induction fuel as [|fuel IHf]; intros s r s1 acce H Hi Hse; cbn [skip_until_loop skip_until_sem] in *.
  { injection H as <- <-. exact I. }
  destruct (run Check until ctx s) as [r1 s2] eqn:E1. use HR E1. destruct r1; try trivial_res H.
  - inv_pair H. ok_elim P. exists (acce ++ ems). cbn. rewrite Hsec, Hse, !app_assoc. repeat split; auto.
  - err_elim P. rewrite (rewind_save _ _ _ Hsec) in H.
    match type of H with context [run Check skip ctx ?st] => destruct (run Check skip ctx st) as [r2 s3] eqn:E2 end.
    pose proof (HR _ _ _ _ _ _ E2 Hi) as P2. cbn [post cur alt sec ust] in P2.
    destruct r2; try trivial_res H.
    + ok_elim P2. eapply IHf in H; eauto. rewrite Hsec0, Hse, app_assoc. reflexivity.
    + inv_pair H. err_elim P2. cbn. do 2 eexists. split; [reflexivity|]. split; [reflexivity|].
      rewrite Hsec0, Hse, <- app_assoc. reflexivity.
Qed.

Lemma leb_len_app {A} (l e : list A) : Nat.leb (length (l ++ e)) (length l) = match e with [] => true | _ => false end.
Proof.
  rewrite app_length. destruct e; cbn.
  - rewrite Nat.add_0_r. apply Nat.leb_refl.
  - apply Nat.leb_gt. lia.
Qed.

Lemma skip_retry_refines s0 m p skip until ctx a0 : forall fuel s r s1 acce,
  skip_retry_loop run fuel m p skip until ctx a0 s = (r, s1) -> inv s -> sec s = sec s0 ++ acce ->
  match r with
  | Ok v => exists v' ems,
      skip_retry_sem srun fuel p skip until ctx (cur s) (alt s) acce = Some (Some (v', cur s1, ems), alt s1) /\
      v = bindv m v' /\ sec s1 = sec s0 ++ ems ++ [(cur s1, snd a0)] /\ ust s1 = ust_at (cur s1)
  | Err => exists ext ra,
      skip_retry_sem srun fuel p skip until ctx (cur s) (alt s) acce = Some (None, ra) /\
      alt s1 = Some a0 /\ sec s1 = sec s0 ++ ext
  | _ => True
  end.
Proof.
  induction fuel as [|fuel IHf]; intros s r s1 acce H Hi Hse; cbn [skip_retry_loop skip_retry_sem] in *.
  { injection H as <- <-. exact I. }
  destruct (run Check until ctx s) as [r1 s2] eqn:E1. use HR E1. destruct r1; try trivial_res H.
  - inv_pair H. ok_elim P.
    assert (Hrw : rewind (set_alt s2 (Some a0)) (save s) = mkSt (cur s) (sec s) (Some a0) (ust s) (memo s2)).
    { exact (rewind_save s (set_alt s2 (Some a0)) _ Hsec). }
    rewrite Hrw. cbn. do 2 eexists. split; [reflexivity|]. split; [reflexivity|]. exact Hse.
  - err_elim P. rewrite (rewind_save _ _ _ Hsec) in H.
    match type of H with context [run Check skip ctx ?st] => destruct (run Check skip ctx st) as [r2 s3] eqn:E2 end.
    pose proof (HR _ _ _ _ _ _ E2 Hi) as P2. cbn [post cur alt sec ust] in P2.
    destruct r2; try trivial_res H.
    + ok_elim P2.
      destruct (run m p ctx s3) as [r3 s4] eqn:E3. use HR E3.
      assert (Hrw : forall s4 ext, sec s4 = sec s3 ++ ext ->
                rewind (set_alt s4 None) (save s3) = mkSt (cur s3) (sec s3) None (ust s3) (memo s4)).
      { intros s4' ext' Hx. exact (rewind_save s3 (set_alt s4' None) _ Hx). }
      destruct r3; try trivial_res H.
      * ok_elim P. rewrite Hsec1, leb_len_app in H. destruct ems0 as [|e0 ems0].
        -- inv_pair H. cbn. do 2 eexists. split; [reflexivity|]. stsimpl.
           rewrite app_nil_r in Hsec1. rewrite Hsec1, Hsec0, Hse, !app_assoc. repeat split; auto.
        -- rewrite (Hrw _ _ Hsec1) in H. eapply IHf in H; eauto. cbn. rewrite Hsec0, Hse, app_assoc. reflexivity.
      * err_elim P. rewrite (Hrw _ _ Hsec1) in H. eapply IHf in H; eauto. cbn. rewrite Hsec0, Hse, app_assoc. reflexivity.
    + inv_pair H. err_elim P2. cbn. do 2 eexists. split; [reflexivity|]. split; [reflexivity|].
      rewrite Hsec0, Hse, <- app_assoc. reflexivity.
Qed.

(* ---------- Pratt ---------- *)
Section PrattLemmas.
Variable m : mode.
Variable rec : nat -> st -> outcome * st.
Variable srec : nat -> nat -> reg -> option sres.
Hypothesis Hrec : forall minp s r s1, rec minp s = (r, s1) -> inv s ->
  post m s r s1 (srec minp (cur s) (alt s)).

Definition same_point (s sl : st) : Prop := cur s = cur sl /\ sec s = sec sl /\ ust s = ust sl.

Lemma same_point_inv s sl : same_point s sl -> inv sl -> inv s.
Proof. intros (Hc & _ & Hu) Hi. unfold Base.inv in *. now rewrite Hc, Hu. Qed.

Lemma same_point_rewind s sl s2 ext :
  same_point s sl -> sec s2 = sec s ++ ext -> same_point (rewind s2 (save sl)) sl.
Proof.
  intros (Hc & Hs & Hu) H2. rewrite (rewind_save sl s2 ext) by (now rewrite <- Hs). repeat split.
Qed.

Lemma pratt_prefix_refines ctx sl (Hil : inv sl) : forall ops s, same_point s sl ->
  match pratt_prefix spn run rec m ops ctx (save sl) (cur sl) s with
  | PDone (Ok v) s1 => exists v' ems,
      pratt_sprefix spn srun srec ops ctx (cur sl) (alt s) = SDone (Some (Some (v', cur s1, ems), alt s1)) /\
      v = bindv m v' /\ sec s1 = sec sl ++ ems /\ ust s1 = ust_at (cur s1)
  | PDone Err _ => False
  | PDone _ _ => True
  | PNext s1 => pratt_sprefix spn srun srec ops ctx (cur sl) (alt s) = SNext (alt s1) /\ same_point s1 sl
  end.
Proof.
  induction ops as [|o ops IHo]; intros s Hsp; cbn [pratt_prefix pratt_sprefix]; [auto|].
  destruct o as [r bp og k|bp og k|bp og k]; try (apply IHo; exact Hsp).
  pose proof (same_point_inv _ _ Hsp Hil) as Hi. destruct Hsp as (Hc & Hse & Hu).
  destruct (run m og ctx s) as [r1 s2] eqn:E1. use HR E1. rewrite Hc in P. destruct r1; auto.
  - ok_elim P.
    destruct (rec (2 * bp) s2) as [r2 s3] eqn:E2.
    pose proof (Hrec _ _ _ _ E2 Hu0) as P2. destruct r2; auto.
    + ok_elim P2. do 2 eexists. split; [reflexivity|]. repeat split; auto.
      * subst. destruct m; reflexivity.
      * now rewrite Hsec0, Hsec, Hse, app_assoc.
    + err_elim P2.
      assert (Hsp' : same_point (rewind s3 (save sl)) sl).
      { eapply same_point_rewind with (s := s) (ext := ems ++ ext); [repeat split; auto|]. now rewrite Hsec0, Hsec, app_assoc. }
      specialize (IHo _ Hsp'). rewrite alt_rewind in IHo. exact IHo.
  - err_elim P.
    assert (Hsp' : same_point (rewind s2 (save sl)) sl).
    { eapply same_point_rewind with (s := s); [repeat split; auto|exact Hsec]. }
    specialize (IHo _ Hsp'). rewrite alt_rewind in IHo. exact IHo.
Qed.

Lemma pratt_postfix_refines ctx minp start lhs lhs' sl (Hil : inv sl) (Hl : lhs = bindv m lhs') : forall ops s, same_point s sl ->
  match pratt_postfix spn run m ops ctx minp (save sl) start lhs s with
  | PDone (Ok v) s1 => exists v' ems,
      pratt_spostfix spn srun ops ctx minp start lhs' (cur sl) (alt s) = SDone (Some (Some (v', cur s1, ems), alt s1)) /\
      v = bindv m v' /\ sec s1 = sec sl ++ ems /\ ust s1 = ust_at (cur s1)
  | PDone Err _ => False
  | PDone _ _ => True
  | PNext s1 => pratt_spostfix spn srun ops ctx minp start lhs' (cur sl) (alt s) = SNext (alt s1) /\ same_point s1 sl
  end.
Proof.
  induction ops as [|o ops IHo]; intros s Hsp; cbn [pratt_postfix pratt_spostfix]; [auto|].
  destruct o as [r bp og k|bp og k|bp og k]; try (apply IHo; exact Hsp).
  destruct (minp <=? 2 * bp + 1); [|apply IHo; exact Hsp].
  pose proof (same_point_inv _ _ Hsp Hil) as Hi. destruct Hsp as (Hc & Hse & Hu).
  destruct (run m og ctx s) as [r1 s2] eqn:E1. use HR E1. rewrite Hc in P. destruct r1; auto.
  - ok_elim P. do 2 eexists. split; [reflexivity|]. repeat split; auto.
    + subst. destruct m; reflexivity.
    + now rewrite Hsec, Hse.
  - err_elim P.
    assert (Hsp' : same_point (rewind s2 (save sl)) sl).
    { eapply same_point_rewind with (s := s); [repeat split; auto|exact Hsec]. }
    specialize (IHo _ Hsp'). rewrite alt_rewind in IHo. exact IHo.
Qed.

Lemma pratt_infix_refines ctx minp start lhs lhs' sl (Hil : inv sl) (Hl : lhs = bindv m lhs') : forall ops s, same_point s sl ->
  match pratt_infix spn run rec m ops ctx minp (save sl) start lhs s with
  | PDone (Ok v) s1 => exists v' ems,
      pratt_sinfix spn srun srec ops ctx minp start lhs' (cur sl) (alt s) = SDone (Some (Some (v', cur s1, ems), alt s1)) /\
      v = bindv m v' /\ sec s1 = sec sl ++ ems /\ ust s1 = ust_at (cur s1)
  | PDone Err _ => False
  | PDone _ _ => True
  | PNext s1 => pratt_sinfix spn srun srec ops ctx minp start lhs' (cur sl) (alt s) = SNext (alt s1) /\ same_point s1 sl
  end.
Proof.
  induction ops as [|o ops IHo]; intros s Hsp; cbn [pratt_infix pratt_sinfix]; [auto|].
  destruct o as [r bp og k|bp og k|bp og k]; try (apply IHo; exact Hsp).
  destruct (minp <=? lpow r bp); [|apply IHo; exact Hsp].
  pose proof (same_point_inv _ _ Hsp Hil) as Hi. destruct Hsp as (Hc & Hse & Hu).
  destruct (run m og ctx s) as [r1 s2] eqn:E1. use HR E1. rewrite Hc in P. destruct r1; auto.
  - ok_elim P.
    destruct (rec (rpow r bp) s2) as [r2 s3] eqn:E2.
    pose proof (Hrec _ _ _ _ E2 Hu0) as P2. destruct r2; auto.
    + ok_elim P2. do 2 eexists. split; [reflexivity|]. repeat split; auto.
      * subst. destruct m; reflexivity.
      * now rewrite Hsec0, Hsec, Hse, app_assoc.
    + err_elim P2.
      assert (Hsp' : same_point (rewind s3 (save sl)) sl).
      { eapply same_point_rewind with (s := s) (ext := ems ++ ext); [repeat split; auto|]. now rewrite Hsec0, Hsec, app_assoc. }
      specialize (IHo _ Hsp'). rewrite alt_rewind in IHo. exact IHo.
  - err_elim P.
    assert (Hsp' : same_point (rewind s2 (save sl)) sl).
    { eapply same_point_rewind with (s := s); [repeat split; auto|exact Hsec]. }
    specialize (IHo _ Hsp'). rewrite alt_rewind in IHo. exact IHo.
Qed.

End PrattLemmas.

Lemma same_point_refl s : same_point s s.
Proof. repeat split. Qed.

Lemma pratt_go_S f m atom ops ctx minp s :
  pratt_go spn run (S f) m atom ops ctx minp s =
    match pratt_prefix spn run (pratt_go spn run f m atom ops ctx) m ops ctx (save s) (cur s) s with
    | PDone (Ok v) s1 => pratt_loop spn run f m atom ops ctx minp (cur s) v s1
    | PDone r s1 => (r, s1)
    | PNext s1 =>
        match run m atom ctx s1 with
        | (Ok v, s2) => pratt_loop spn run f m atom ops ctx minp (cur s) v s2
        | res => res
        end
    end.
Proof. reflexivity. Qed.

Lemma pratt_loop_S f m atom ops ctx minp start lhs s :
  pratt_loop spn run (S f) m atom ops ctx minp start lhs s =
    match pratt_postfix spn run m ops ctx minp (save s) start lhs s with
    | PDone (Ok v) s1 => pratt_loop spn run f m atom ops ctx minp start v s1
    | PDone r s1 => (r, s1)
    | PNext s1 =>
        match pratt_infix spn run (pratt_go spn run f m atom ops ctx) m ops ctx minp (save s) start lhs s1 with
        | PDone (Ok v) s2 => pratt_loop spn run f m atom ops ctx minp start v s2
        | PDone r s2 => (r, s2)
        | PNext s2 => (Ok lhs, rewind s2 (save s))
        end
    end.
Proof. reflexivity. Qed.

Lemma pratt_sem_S f atom ops ctx minp p a :
  pratt_sem spn srun (S f) atom ops ctx minp p a =
    match pratt_sprefix spn srun (pratt_sem spn srun f atom ops ctx) ops ctx p a with
    | SDone (Some (Some (v, p1, e1), a1)) => pratt_sloop spn srun f atom ops ctx minp p v e1 p1 a1
    | SDone x => x
    | SNext a1 =>
        match srun atom ctx p a1 with
        | Some (Some (v, p1, e1), a2) => pratt_sloop spn srun f atom ops ctx minp p v e1 p1 a2
        | x => x
        end
    end.
Proof. reflexivity. Qed.

Lemma pratt_sloop_S f atom ops ctx minp start lhs acce p a :
  pratt_sloop spn srun (S f) atom ops ctx minp start lhs acce p a =
    match pratt_spostfix spn srun ops ctx minp start lhs p a with
    | SDone (Some (Some (v, p1, e1), a1)) => pratt_sloop spn srun f atom ops ctx minp start v (acce ++ e1) p1 a1
    | SDone x => x
    | SNext a1 =>
        match pratt_sinfix spn srun (pratt_sem spn srun f atom ops ctx) ops ctx minp start lhs p a1 with
        | SDone (Some (Some (v, p1, e1), a2)) => pratt_sloop spn srun f atom ops ctx minp start v (acce ++ e1) p1 a2
        | SDone x => x
        | SNext a2 => Some (Some (lhs, p, acce), a2)
        end
    end.
Proof. reflexivity. Qed.

Lemma pratt_refines m atom ops ctx : forall fuel,
  (forall minp s r s1, pratt_go spn run fuel m atom ops ctx minp s = (r, s1) -> inv s ->
     post m s r s1 (pratt_sem spn srun fuel atom ops ctx minp (cur s) (alt s)))
  /\
  (forall minp s0 lhs lhs' acce s r s1,
     pratt_loop spn run fuel m atom ops ctx minp (cur s0) lhs s = (r, s1) -> inv s ->
     sec s = sec s0 ++ acce -> lhs = bindv m lhs' ->
     post m s0 r s1 (pratt_sloop spn srun fuel atom ops ctx minp (cur s0) lhs' acce (cur s) (alt s))).
Proof.
  induction fuel as [|f [IHgo IHloop]].
  { split; intros; cbn in *; match goal with H : (OutOfFuel, _) = _ |- _ => inv_pair H end; exact I. }
  split.
  - intros minp s r s1 H Hi. rewrite pratt_go_S in H. rewrite pratt_sem_S.
    pose proof (pratt_prefix_refines m _ _ (IHgo) ctx s Hi ops s (same_point_refl s)) as Pp.
    destruct (pratt_prefix spn run (pratt_go spn run f m atom ops ctx) m ops ctx (save s) (cur s) s) as [rp sp|sp].
    + destruct rp; try (inv_pair H; exact I); [|contradiction].
      destruct Pp as (v' & ems & -> & -> & Hsec & Hu).
      eapply IHloop in H; eauto.
    + destruct Pp as (-> & Hsp).
      pose proof (same_point_inv _ _ Hsp Hi) as Hip. destruct Hsp as (Hc & Hse & Hu).
      destruct (run m atom ctx sp) as [ra sa] eqn:Ea. use HR Ea. rewrite Hc in P.
      destruct ra; try trivial_res H.
      * ok_elim P. eapply IHloop in H; eauto. now rewrite Hsec, Hse.
      * inv_pair H. err_elim P. eexists. split; [reflexivity|]. now rewrite Hsec, Hse.
  - intros minp s0 lhs lhs' acce s r s1 H Hi Hse Hl. rewrite pratt_loop_S in H. rewrite pratt_sloop_S.
    pose proof (pratt_postfix_refines m _ _ (IHgo) ctx minp (cur s0) lhs lhs' s Hi Hl ops s (same_point_refl s)) as Pp.
    destruct (pratt_postfix spn run m ops ctx minp (save s) (cur s0) lhs s) as [rp sp|sp].
    + destruct rp; try (inv_pair H; exact I); [|contradiction].
      destruct Pp as (v' & ems & -> & -> & Hsec & Hu).
      eapply IHloop in H; eauto. now rewrite Hsec, Hse, app_assoc.
    + destruct Pp as (-> & Hsp).
      pose proof (pratt_infix_refines m _ _ (IHgo) ctx minp (cur s0) lhs lhs' s Hi Hl ops sp Hsp) as Pi.
      destruct (pratt_infix spn run (pratt_go spn run f m atom ops ctx) m ops ctx minp (save s) (cur s0) lhs sp) as [ri si|si].
      * destruct ri; try (inv_pair H; exact I); [|contradiction].
        destruct Pi as (v' & ems & -> & -> & Hsec & Hu).
        eapply IHloop in H; eauto. now rewrite Hsec, Hse, app_assoc.
      * destruct Pi as (-> & Hc & Hs2 & Hu). inv_pair H.
        rewrite (rewind_save0 s si Hs2). do 3 eexists. split; [reflexivity|]. cbn. repeat split; auto.
Qed.

End LoopLemmas.

Theorem refine : forall n, R (go n) (sem n).
Proof.
  induction n as [|n IH]; intros m g ctx s r s1 H Hinv.
  { cbn in H. inv_pair H. exact I. }
  destruct g; cbn [Machine.go] in H; cbn [Sem.sem].
  - (* End *)
    unfold next in H. destruct (nth_error toks (cur s)) as [t|] eqn:Et; inv_pair H; cbn.
    + exists []. rewrite rewind_save0 by reflexivity. cbn. rewrite app_nil_r. split; reflexivity.
    + exists VUnit, (cur s), []. rewrite app_nil_r. repeat split; auto.
  - (* Empty *)
    inv_pair H. exists VUnit, (cur s), []. rewrite app_nil_r. repeat split; auto.
  - (* Any *) exact (one_tok_refines _ _ _ _ _ _ H Hinv).
  - (* Just *)
    unfold just_go in H. destruct (just_loop K toks spn ts s) as [b s2] eqn:E.
    pose proof (just_loop_refines _ _ _ _ E Hinv) as P.
    destruct (just_sem K toks spn ts (cur s) (alt s)) as [[p1|] a1]; destruct P as (-> & P); inv_pair H.
    + destruct P as (<- & <- & Hsec & Hu). do 3 eexists. split; [reflexivity|].
      rewrite Hsec, app_nil_r. repeat split; auto.
    + destruct P as (<- & Hsec). exists []. rewrite Hsec, app_nil_r. split; reflexivity.
  - (* OneOf *) exact (one_tok_refines _ _ _ _ _ _ H Hinv).
  - (* NoneOf *) exact (one_tok_refines _ _ _ _ _ _ H Hinv).
  - (* Select *) exact (one_tok_refines _ _ _ _ _ _ H Hinv).
  - (* Custom *)
    destruct (custom_loop toks ts s) as [b s2] eqn:E.
    destruct (custom_loop_refines _ _ _ _ E Hinv) as (Hc & Ha & Hsec & Hu). rewrite Hc.
    destruct b; inv_pair H.
    + do 3 eexists. split; [rewrite Ha; reflexivity|]. rewrite Hsec, app_nil_r. repeat split; auto.
    + exists []. cbn. rewrite Ha, Hsec, app_nil_r. split; reflexivity.
  - (* Map *)
    destruct (go n m g ctx s) as [r1 s2] eqn:E. use IH E.
    destruct r1; try trivial_res H; inv_pair H.
    + ok_elim P. cbn. fin_ok.
    + err_elim P. cbn. fin_err.
  - (* MapWith *)
    destruct (go n m g ctx s) as [r1 s2] eqn:E. use IH E.
    destruct r1; try trivial_res H; inv_pair H.
    + ok_elim P. cbn. rewrite Hu. fin_ok.
    + err_elim P. cbn. fin_err.
  - (* To *)
    destruct (go n Check g ctx s) as [r1 s2] eqn:E. use IH E.
    destruct r1; try trivial_res H; inv_pair H.
    + ok_elim P. cbn. fin_ok.
    + err_elim P. cbn. fin_err.
  - (* Ignored *)
    destruct (go n Check g ctx s) as [r1 s2] eqn:E. use IH E.
    destruct r1; try trivial_res H; inv_pair H.
    + ok_elim P. cbn. fin_ok.
    + err_elim P. cbn. fin_err.
  - (* ToSpan *)
    destruct (go n m g ctx s) as [r1 s2] eqn:E. use IH E.
    destruct r1; try trivial_res H; inv_pair H.
    + ok_elim P. cbn. fin_ok.
    + err_elim P. cbn. fin_err.
  - (* ToSlice *)
    destruct (go n Check g ctx s) as [r1 s2] eqn:E. use IH E.
    destruct r1; try trivial_res H; inv_pair H.
    + ok_elim P. cbn. fin_ok.
    + err_elim P. cbn. fin_err.
  - (* Filter *)
    destruct (go n Emit g ctx s) as [r1 s2] eqn:E. use IH E.
    destruct r1; try trivial_res H.
    + ok_elim P. subst v. cbn in H |- *. destruct (holds p v'); inv_pair H.
      * fin_ok.
      * cbn. fin_err.
    + inv_pair H. err_elim P. cbn. fin_err.
  - (* TryMap *)
    destruct (go n Emit g ctx (set_alt s None)) as [r1 s2] eqn:E. use IH E.
    destruct r1; try trivial_res H.
    + ok_elim P. subst v. cbn in H |- *. destruct (holds p v'); inv_pair H.
      * do 3 eexists. split; [rewrite join_alt_alt; reflexivity|]. stsimpl. repeat split; auto.
      * cbn. fin_err.
    + inv_pair H. err_elim P. cbn. eexists. split; [rewrite join_alt_alt; reflexivity|]. stsimpl. exact Hsec.
  - (* TryMapWith *)
    destruct (go n Emit g ctx s) as [r1 s2] eqn:E. use IH E.
    destruct r1; try trivial_res H.
    + ok_elim P. subst v. cbn in H |- *. destruct (holds p v'); inv_pair H.
      * fin_ok.
      * cbn. fin_err.
    + inv_pair H. err_elim P. cbn. fin_err.
  - (* Validate *)
    destruct (go n Emit g ctx s) as [r1 s2] eqn:E. use IH E.
    destruct r1; try trivial_res H.
    + ok_elim P. subst v. cbn in H |- *. inv_pair H. destruct (holds p v'); cbn.
      * do 3 eexists. split; [reflexivity|]. cbn. rewrite Hsec, app_assoc. repeat split; auto.
      * fin_ok.
    + inv_pair H. err_elim P. cbn. fin_err.
  - (* Then *)
    destruct (go n m g1 ctx s) as [r1 s2] eqn:E1. use IH E1.
    destruct r1; try trivial_res H.
    + ok_elim P. cbn. destruct (go n m g2 ctx s2) as [r2 s3] eqn:E2. use IH E2.
      destruct r2; try trivial_res H; inv_pair H.
      * ok_elim P. cbn. fin_ok.
      * err_elim P. cbn. fin_err.
    + inv_pair H. err_elim P. cbn. fin_err.
  - (* IgnoreThen *)
    destruct (go n Check g1 ctx s) as [r1 s2] eqn:E1. use IH E1.
    destruct r1; try trivial_res H.
    + ok_elim P. cbn. destruct (go n m g2 ctx s2) as [r2 s3] eqn:E2. use IH E2.
      destruct r2; try trivial_res H; inv_pair H.
      * ok_elim P. cbn. fin_ok.
      * err_elim P. cbn. fin_err.
    + inv_pair H. err_elim P. cbn. fin_err.
  - (* ThenIgnore *)
    destruct (go n m g1 ctx s) as [r1 s2] eqn:E1. use IH E1.
    destruct r1; try trivial_res H.
    + ok_elim P. cbn. destruct (go n Check g2 ctx s2) as [r2 s3] eqn:E2. use IH E2.
      destruct r2; try trivial_res H; inv_pair H.
      * ok_elim P. cbn. fin_ok.
      * err_elim P. cbn. fin_err.
    + inv_pair H. err_elim P. cbn. fin_err.
  - (* DelimitedBy *)
    destruct (go n Check g2 ctx s) as [r1 s2] eqn:E1. use IH E1.
    destruct r1; try trivial_res H.
    + ok_elim P. cbn. destruct (go n m g1 ctx s2) as [r2 s3] eqn:E2. use IH E2.
      destruct r2; try trivial_res H.
      * ok_elim P. cbn.
        destruct (go n Check g3 ctx s3) as [r3 s4] eqn:E3. use IH E3.
        destruct r3; try trivial_res H; inv_pair H.
        -- ok_elim P. cbn. fin_ok.
        -- err_elim P. cbn. fin_err.
      * inv_pair H. err_elim P. cbn. fin_err.
    + inv_pair H. err_elim P. cbn. fin_err.
  - (* PaddedBy *)
    destruct (go n Check g2 ctx s) as [r1 s2] eqn:E1. use IH E1.
    destruct r1; try trivial_res H.
    + ok_elim P. cbn. destruct (go n m g1 ctx s2) as [r2 s3] eqn:E2. use IH E2.
      destruct r2; try trivial_res H.
      * ok_elim P. cbn.
        destruct (go n Check g2 ctx s3) as [r3 s4] eqn:E3. use IH E3.
        destruct r3; try trivial_res H; inv_pair H.
        -- ok_elim P. cbn. fin_ok.
        -- err_elim P. cbn. fin_err.
      * inv_pair H. err_elim P. cbn. fin_err.
    + inv_pair H. err_elim P. cbn. fin_err.
  - (* Group *)
    eapply (group_loop_refines _ _ IH) with (acce := []) in H; eauto.
    + now rewrite app_nil_r.
  - (* Or *)
    eapply (choice_loop_refines _ _ IH) in H; eauto.
  - (* Choice *)
    destruct gs as [|g1 [|g2 gs]].
    + inv_pair H. exists [].
      destruct (fail_here_refines [] s) as (Ha & Hs2). rewrite Ha, Hs2, app_nil_r. split; reflexivity.
    + cbn. destruct (go n m g1 ctx s) as [r1 s2] eqn:E1. use IH E1. inv_pair H.
      destruct r1; try exact I.
      * ok_elim P. fin_ok.
      * err_elim P. fin_err.
    + eapply (choice_loop_refines _ _ IH) in H; eauto.
  - (* ChoiceVec *)
    destruct gs as [|g1 gs].
    + cbn [q_emptychoice_none no_quirks] in H. inv_pair H. exists [].
      destruct (fail_here_refines [] s) as (Ha & Hs2). rewrite Ha, Hs2, app_nil_r. split; reflexivity.
    + eapply (choicevec_loop_refines _ _ IH) in H; eauto. exists []. now rewrite app_nil_r.
  - (* OrNot *)
    destruct (go n m g ctx s) as [r1 s2] eqn:E. use IH E.
    destruct r1; try trivial_res H; inv_pair H.
    + ok_elim P. fin_ok.
    + err_elim P. rewrite (rewind_save _ _ _ Hsec). do 3 eexists. split; [reflexivity|].
      cbn. rewrite app_nil_r. repeat split; auto.
  - (* Not *)
    destruct (go n Check g ctx (set_alt s None)) as [r1 s2] eqn:E. use IH E.
    destruct r1; try trivial_res H.
    + ok_elim P. rewrite (rewind_save _ _ _ Hsec) in H. cbn in H. unfold next in H. cbn in H.
      destruct (nth_error toks (cur s)) as [t|]; inv_pair H; cbn; exists []; rewrite app_nil_r; split; reflexivity.
    + inv_pair H. err_elim P. rewrite (rewind_save _ _ _ Hsec). do 3 eexists. split; [reflexivity|].
      cbn. rewrite app_nil_r. repeat split; auto.
  - (* AndIs *)
    destruct (go n m g1 ctx s) as [r1 s2] eqn:E1. use IH E1.
    destruct r1; try trivial_res H.
    + ok_elim P. cbn. cbn [q_look_trunc no_quirks] in H.
      destruct (go n Check g2 ctx (reposition s2 (save s))) as [r2 s3] eqn:E2.
      pose proof (IH _ _ _ _ _ _ E2) as P2. cbn [post] in P2.
      assert (Hi2 : inv (reposition s2 (save s))) by (unfold reposition, save, Base.inv; cbn; exact Hinv).
      specialize (P2 Hi2). unfold reposition, save in P2. cbn [cur alt sec ust] in P2.
      destruct r2; try trivial_res H; inv_pair H.
      * ok_elim P2. cbn.
        assert (Hrw : rewind s3 (save s2) = mkSt (cur s2) (sec s2) (alt s3) (ust s2) (memo s3)).
        { eapply rewind_save. exact Hsec0. }
        rewrite Hrw. fin_ok.
      * err_elim P2. cbn. fin_err.
    + inv_pair H. err_elim P. rewrite (rewind_save _ _ _ Hsec). exists []. cbn. rewrite app_nil_r. split; reflexivity.
  - (* Rewind *)
    destruct (go n m g ctx s) as [r1 s2] eqn:E. use IH E.
    destruct r1; try trivial_res H; inv_pair H.
    + ok_elim P. cbn. unfold reposition, save. do 3 eexists. split; [reflexivity|]. cbn. repeat split; auto.
    + err_elim P. cbn. fin_err.
  - (* RepUnit *)
    assert (Hdrive : forall asserted,
      match drive spn (go n) n Check i ctx (mk_iter i ctx) None (fun _ => asserted) 0 [] s with
      | (Ok _, _, _, s2) => (Ok (bindv m VUnit), s2)
      | (res, _, _, s2) => (res, s2)
      end = (r, s1) ->
      post m s r s1
        match sdrive toks spn (sem n) n i ctx (mk_iter i ctx) None [] [] (cur s) (alt s) with
        | Some (Some (_, _, p1, e1), a1) => Some (Some (VUnit, p1, e1), a1)
        | Some (None, a1) => Some (None, a1)
        | None => None
        end).
    { intros asserted H'.
      destruct (drive spn (go n) n Check i ctx (mk_iter i ctx) None (fun _ => asserted) 0 [] s)
        as [[[r0 acc'] fl] s2] eqn:E.
      eapply (drive_refines _ _ IH s) with (sacc := []) (sacce := []) in E; eauto; [|now rewrite app_nil_r].
      destruct r0; try trivial_res H'; inv_pair H'.
      - destruct E as (sitems & ems & -> & _ & Hsec & Hu). fin_ok.
      - destruct E as (ext & -> & Hsec). fin_err. }
    destruct i as [a lo hi| | | | | | | |]; try (eapply Hdrive; exact H).
    destruct lo as [|lo]; [|eapply Hdrive; exact H].
    destruct hi as [hi|]; [eapply Hdrive; exact H|].
    eapply (rep_fast_refines _ _ IH s) with (c := 0) (sacc := []) (sacce := []) in H; eauto; [|now rewrite app_nil_r].
    destruct r; try exact I; [|contradiction].
    destruct H as (sitems & ems & Hs & -> & Hsec & Hu). cbn [mk_iter]. rewrite Hs. fin_ok.
  - (* Collect *)
    match type of H with context [drive ?a ?b ?c ?d ?e ?f ?g ?h ?pa 0 [] s] =>
      destruct (drive a b c d e f g h pa 0 [] s) as [[[r0 acc'] fl] s2] eqn:E end.
    eapply (drive_refines _ _ IH s) with (sacc := []) (sacce := []) in E; eauto; [|now rewrite app_nil_r].
    destruct r0; try trivial_res H; inv_pair H.
    + destruct E as (sitems & ems & -> & Hrel & Hsec & Hu). do 3 eexists. split; [reflexivity|].
      repeat split; auto. destruct m; [|reflexivity]. cbn.
      rewrite (irel_vals _ _ Hrel), (Forall2_len _ _ _ Hrel). reflexivity.
    + destruct E as (ext & -> & Hsec). fin_err.
  - (* CollectExactly *)
    destruct n0 as [|k0]; [destruct (it_eager i ctx) as [e0|]; [exact (IH _ _ _ _ _ _ H Hinv)|]|].
    + match type of H with context [drive ?a ?b ?c ?d ?e ?f ?g ?h ?pa 0 [] s] =>
        destruct (drive a b c d e f g h pa 0 [] s) as [[[r0 acc'] fl] s2] eqn:E end.
      eapply (drive_refines _ _ IH s) with (sacc := []) (sacce := []) in E; eauto; [|now rewrite app_nil_r].
      destruct r0; try (destruct fl; trivial_res H).
      * destruct E as (sitems & ems & -> & Hrel & Hsec & Hu). destruct fl; cbn [q_exact_noalt no_quirks] in H; inv_pair H.
        -- destruct (fail_here_refines [pSomethingElse] s2) as (Ha & Hs2). exists ems. rewrite Ha, Hs2. split; [reflexivity|exact Hsec].
        -- do 3 eexists. split; [reflexivity|].
          repeat split; auto. destruct m; [|reflexivity]. cbn. rewrite (irel_vals _ _ Hrel). reflexivity.
      * destruct E as (ext & -> & Hsec). destruct fl; inv_pair H; fin_err.
    + match type of H with context [drive ?a ?b ?c ?d ?e ?f ?g ?h ?pa 0 [] s] =>
        destruct (drive a b c d e f g h pa 0 [] s) as [[[r0 acc'] fl] s2] eqn:E end.
      eapply (drive_refines _ _ IH s) with (sacc := []) (sacce := []) in E; eauto; [|now rewrite app_nil_r].
      destruct r0; try (destruct fl; trivial_res H).
      * destruct E as (sitems & ems & -> & Hrel & Hsec & Hu). destruct fl; cbn [q_exact_noalt no_quirks] in H; inv_pair H.
        -- destruct (fail_here_refines [pSomethingElse] s2) as (Ha & Hs2). exists ems. rewrite Ha, Hs2. split; [reflexivity|exact Hsec].
        -- do 3 eexists. split; [reflexivity|].
          repeat split; auto. destruct m; [|reflexivity]. cbn. rewrite (irel_vals _ _ Hrel). reflexivity.
      * destruct E as (ext & -> & Hsec). destruct fl; inv_pair H; fin_err.
  - (* Foldl *)
    destruct (go n m g ctx s) as [r1 s2] eqn:E1. use IH E1.
    destruct r1; try trivial_res H.
    + ok_elim P. cbn.
      match type of H with context [drive ?a ?b ?c ?d ?e ?f ?g ?h ?pa 0 [] s2] =>
        destruct (drive a b c d e f g h pa 0 [] s2) as [[[r0 acc'] fl] s3] eqn:E end.
      eapply (drive_refines _ _ IH s2) with (sacc := []) (sacce := []) in E; eauto; [|now rewrite app_nil_r].
      destruct r0; try trivial_res H; inv_pair H.
      * destruct E as (sitems & ems0 & -> & Hrel & Hsec0 & Hu0). do 3 eexists. split; [reflexivity|].
        repeat split; auto; [|rewrite Hsec0, Hsec, app_assoc; reflexivity].
        repeat match goal with Hq : ?x = bindv _ _ |- _ => subst x end. destruct m; [|reflexivity]. cbn. f_equal.
        apply fold_left_rel with (P := irel Emit); [apply Forall2_rev'; exact Hrel|].
        intros a0 x y (_ & _ & _ & Hv). now rewrite Hv.
      * destruct E as (ext & -> & Hsec0). eexists. split; [reflexivity|]. rewrite Hsec0, Hsec, <- app_assoc. reflexivity.
    + inv_pair H. err_elim P. cbn. fin_err.
  - (* Foldr *)
    match type of H with context [drive ?a ?b ?c ?d ?e ?f ?g ?h ?pa 0 [] s] =>
      destruct (drive a b c d e f g h pa 0 [] s) as [[[r0 acc'] fl] s2] eqn:E end.
    eapply (drive_refines _ _ IH s) with (sacc := []) (sacce := []) in E; eauto; [|now rewrite app_nil_r].
    destruct r0; try trivial_res H.
    + destruct E as (sitems & ems0 & -> & Hrel & Hsec0 & Hu0).
      destruct (go n m g ctx s2) as [r2 s3] eqn:E2. use IH E2.
      destruct r2; try trivial_res H; inv_pair H.
      * ok_elim P. cbn. do 3 eexists. split; [reflexivity|].
        repeat split; auto; [|rewrite Hsec, Hsec0, app_assoc; reflexivity].
        repeat match goal with Hq : ?x = bindv _ _ |- _ => subst x end. destruct m; [|reflexivity]. cbn. f_equal.
        apply fold_left_rel with (P := irel Emit); [exact Hrel|].
        intros a0 x y (_ & _ & _ & Hv). now rewrite Hv.
      * err_elim P. cbn. eexists. split; [reflexivity|]. rewrite Hsec, Hsec0, <- app_assoc. reflexivity.
    + inv_pair H. destruct E as (ext & -> & Hsec). fin_err.
  - (* FoldlWith *)
    destruct (go n m g ctx s) as [r1 s2] eqn:E1. use IH E1.
    destruct r1; try trivial_res H.
    + ok_elim P. cbn.
      match type of H with context [drive ?a ?b ?c ?d ?e ?f ?g ?h ?pa 0 [] s2] =>
        destruct (drive a b c d e f g h pa 0 [] s2) as [[[r0 acc'] fl] s3] eqn:E end.
      eapply (drive_refines _ _ IH s2) with (sacc := []) (sacce := []) in E; eauto; [|now rewrite app_nil_r].
      destruct r0; try trivial_res H; inv_pair H.
      * destruct E as (sitems & ems0 & -> & Hrel & Hsec0 & Hu0). do 3 eexists. split; [reflexivity|].
        repeat split; auto; [|rewrite Hsec0, Hsec, app_assoc; reflexivity].
        repeat match goal with Hq : ?x = bindv _ _ |- _ => subst x end. destruct m; [|reflexivity]. cbn. f_equal.
        apply fold_left_rel with (P := irel Emit); [apply Forall2_rev'; exact Hrel|].
        intros a0 x y (_ & Ha & Hust & Hv). now rewrite Hv, Hust, Ha.
      * destruct E as (ext & -> & Hsec0). eexists. split; [reflexivity|]. rewrite Hsec0, Hsec, <- app_assoc. reflexivity.
    + inv_pair H. err_elim P. cbn. fin_err.
  - (* FoldrWith *)
    match type of H with context [drive ?a ?b ?c ?d ?e ?f ?g ?h ?pa 0 [] s] =>
      destruct (drive a b c d e f g h pa 0 [] s) as [[[r0 acc'] fl] s2] eqn:E end.
    eapply (drive_refines _ _ IH s) with (sacc := []) (sacce := []) in E; eauto; [|now rewrite app_nil_r].
    destruct r0; try trivial_res H.
    + destruct E as (sitems & ems0 & -> & Hrel & Hsec0 & Hu0).
      destruct (go n m g ctx s2) as [r2 s3] eqn:E2. use IH E2.
      destruct r2; try trivial_res H; inv_pair H.
      * ok_elim P. cbn. do 3 eexists. split; [reflexivity|].
        repeat split; auto; [|rewrite Hsec, Hsec0, app_assoc; reflexivity].
        repeat match goal with Hq : ?x = bindv _ _ |- _ => subst x end. destruct m; [|reflexivity]. cbn. f_equal.
        apply fold_left_rel with (P := irel Emit); [exact Hrel|].
        intros a0 x y (Hb & _ & _ & Hv). now rewrite Hv, Hb, Hu.
      * err_elim P. cbn. eexists. split; [reflexivity|]. rewrite Hsec, Hsec0, <- app_assoc. reflexivity.
    + inv_pair H. destruct E as (ext & -> & Hsec). fin_err.
  - (* RecoverVia *)
    destruct (go n m g1 ctx s) as [r1 s2] eqn:E1. use IH E1.
    destruct r1; try trivial_res H.
    + inv_pair H. ok_elim P. cbn. fin_ok.
    + err_elim P. rewrite (rewind_save _ _ _ Hsec) in H. cbn in H.
      destruct (alt s2) as [a0|]; [|trivial_res H].
      match type of H with context [go n m g2 ctx ?st] => destruct (go n m g2 ctx st) as [r2 s3] eqn:E2 end.
      pose proof (IH _ _ _ _ _ _ E2 Hinv) as P2. cbn [post cur alt sec ust] in P2.
      destruct r2; try trivial_res H; inv_pair H.
      * ok_elim P2. cbn. do 3 eexists. split; [reflexivity|]. stsimpl. rewrite Hsec0, app_assoc. repeat split; auto.
      * err_elim P2. cbn.
        assert (Hrw : rewind (set_alt s3 (Some a0)) (save s) = mkSt (cur s) (sec s) (Some a0) (ust s) (memo s3)).
        { exact (rewind_save s (set_alt s3 (Some a0)) _ Hsec0). }
        rewrite Hrw. exists []. cbn. rewrite app_nil_r. split; reflexivity.
  - (* RecoverSkipUntil *)
    destruct (go n m g1 ctx s) as [r1 s2] eqn:E1. use IH E1.
    destruct r1; try trivial_res H.
    + inv_pair H. ok_elim P. cbn. fin_ok.
    + err_elim P. rewrite (rewind_save _ _ _ Hsec) in H. cbn in H.
      destruct (alt s2) as [a0|]; [|trivial_res H].
      match type of H with context [skip_until_loop ?a ?b ?c ?d ?e ?f ?g ?h ?st] =>
        destruct (skip_until_loop a b c d e f g h st) as [r2 s3] eqn:E2 end.
      eapply (skip_until_refines _ _ IH s) with (acce := []) in E2; eauto; [|now rewrite app_nil_r].
      cbn [cur alt set_alt] in E2. cbn.
      destruct r2; try trivial_res H; inv_pair H.
      * destruct E2 as (ems & -> & -> & Hsec0 & Hu0). fin_ok.
      * destruct E2 as (ext0 & ra & -> & Ha & Hsec0).
        rewrite (rewind_save _ _ _ Hsec0). exists []. cbn. rewrite app_nil_r, Ha. split; reflexivity.
  - (* RecoverSkipRetry *)
    destruct (go n m g1 ctx s) as [r1 s2] eqn:E1. use IH E1.
    destruct r1; try trivial_res H.
    + inv_pair H. ok_elim P. cbn. fin_ok.
    + err_elim P. rewrite (rewind_save _ _ _ Hsec) in H. cbn in H.
      destruct (alt s2) as [a0|]; [|trivial_res H].
      match type of H with context [skip_retry_loop ?a ?b ?c ?d ?e ?f ?g ?h ?st] =>
        destruct (skip_retry_loop a b c d e f g h st) as [r2 s3] eqn:E2 end.
      eapply (skip_retry_refines _ _ IH s) with (acce := []) in E2; eauto; [|now rewrite app_nil_r].
      cbn [cur alt set_alt] in E2. cbn.
      destruct r2; try trivial_res H; inv_pair H.
      * destruct E2 as (v' & ems & -> & -> & Hsec0 & Hu0). fin_ok.
      * destruct E2 as (ext0 & ra & -> & Ha & Hsec0).
        rewrite (rewind_save _ _ _ Hsec0). exists []. cbn. rewrite app_nil_r, Ha. split; reflexivity.
  - (* Labelled *)
    destruct (go n m g ctx (set_alt s None)) as [r1 s2] eqn:E. use IH E.
    destruct r1; try trivial_res H; inv_pair H.
    + ok_elim P.
      destruct is_ctx; destruct (alt s2) as [[q e]|]; cbn; do 3 eexists; (split; [reflexivity|]);
        cbn; rewrite ?Hsec, ?firstn_app_exact, ?skipn_app_exact; repeat split; auto.
    + err_elim P.
      destruct is_ctx; destruct (alt s2) as [[q e]|]; cbn; eexists; (split; [reflexivity|]);
        cbn; rewrite ?Hsec, ?firstn_app_exact, ?skipn_app_exact; reflexivity.
  - (* MapErr *)
    destruct (go n m g ctx (set_alt s None)) as [r1 s2] eqn:E. use IH E.
    destruct r1; try trivial_res H.
    + inv_pair H. ok_elim P. cbn. do 3 eexists. split; [rewrite join_alt_alt; reflexivity|]. stsimpl. repeat split; auto.
    + err_elim P. destruct (alt s2) as [[q e]|]; [|trivial_res H]. inv_pair H. cbn. fin_err.
  - (* WithCtx *)
    exact (IH _ _ _ _ _ _ H Hinv).
  - (* IgnoreWithCtx *)
    destruct (go n Emit g1 ctx s) as [r1 s2] eqn:E1. use IH E1.
    destruct r1; try trivial_res H.
    + ok_elim P. cbn. subst v. cbn in H. use IH H.
      destruct r; try exact I.
      * ok_elim P. cbn. fin_ok.
      * err_elim P. cbn. fin_err.
    + inv_pair H. err_elim P. cbn. fin_err.
  - (* ThenWithCtx *)
    destruct (go n Emit g1 ctx s) as [r1 s2] eqn:E1. use IH E1.
    destruct r1; try trivial_res H.
    + ok_elim P. cbn. subst v. cbn in H.
      destruct (go n m g2 (with_ctx ctx v') s2) as [r2 s3] eqn:E2. use IH E2.
      destruct r2; try trivial_res H; inv_pair H.
      * ok_elim P. cbn. fin_ok.
      * err_elim P. cbn. fin_err.
    + inv_pair H. err_elim P. cbn. fin_err.
  - (* MapCtx *)
    exact (IH _ _ _ _ _ _ H Hinv).
  - (* JustCfg *)
    unfold just_go in H. destruct (just_loop K toks spn (val_toks (cval ctx)) s) as [b s2] eqn:E.
    pose proof (just_loop_refines _ _ _ _ E Hinv) as P.
    destruct (just_sem K toks spn (val_toks (cval ctx)) (cur s) (alt s)) as [[p1|] a1]; destruct P as (-> & P); inv_pair H.
    + destruct P as (<- & <- & Hsec & Hu). do 3 eexists. split; [reflexivity|].
      rewrite Hsec, app_nil_r. repeat split; auto.
    + destruct P as (<- & Hsec). exists []. rewrite Hsec, app_nil_r. split; reflexivity.
  - (* Memo *)
    cbn [memo_on no_quirks negb] in H.
    destruct (go n m g ctx (set_alt s None)) as [r1 s2] eqn:E. use IH E.
    destruct r1; try trivial_res H; inv_pair H.
    + ok_elim P. cbn. do 3 eexists. split; [rewrite join_alt_alt; reflexivity|]. stsimpl. repeat split; auto.
    + err_elim P. cbn. eexists. split; [rewrite join_alt_alt; reflexivity|]. stsimpl. exact Hsec.
  - (* Rec *)
    exact (IH _ _ _ _ _ _ H Hinv).
  - (* Var *)
    destruct (nth_error (crec ctx) k) as [a|]; [exact (IH _ _ _ _ _ _ H Hinv) | trivial_res H].
  - (* Pratt *)
    exact (proj1 (pratt_refines _ _ IH m g ops ctx n) _ _ _ _ H Hinv).
  - (* GroupArr *)
    eapply (group_loop_refines _ _ IH) with (acce := []) in H; eauto.
    + now rewrite app_nil_r.
  - (* NestedIn: not available in the configuration the theorem is about *)
    cbn [nested no_quirks] in H. trivial_res H.
  - (* WithState: not available in the configuration the theorem is about *)
    cbn [nested no_quirks] in H. trivial_res H.
  - (* Skip *)
    inv_pair H. destruct (skip_loop_spec n0 s Hinv) as (Hc & Hs & Ha & Hv).
    exists VUnit, (cur (skip_loop toks n0 s)), []. rewrite Hc, Hs, Ha, app_nil_r. repeat split; auto.
    rewrite <- Hc. exact Hv.
  - (* ExtWrap *)
    destruct (go n m g ctx s) as [r1 s2] eqn:E. use IH E.
    destruct r1; try trivial_res H.
    + inv_pair H. ok_elim P. cbn. fin_ok.
    + err_elim P. destruct (alt s2) as [[q e]|]; [|trivial_res H]. inv_pair H. cbn. fin_err.
  - (* Prog *)
    destruct (prog_loop toks spn ops (cur s) [] [] s) as [[b acc] s2] eqn:E.
    destruct (prog_loop_refines _ _ _ _ _ _ _ _ _ E Hinv (Forall2_nil _)) as (Hp & Ha & Hsec & Hu & _). rewrite Hp.
    destruct b; inv_pair H.
    + do 3 eexists. split; [rewrite Ha; reflexivity|]. rewrite Hsec, app_nil_r. repeat split; auto.
    + exists []. cbn. rewrite Ha, Hsec, app_nil_r. split; reflexivity.
  - (* Padded *)
    destruct (skip_while_spec ws (length toks) s Hinv) as (Hc0 & Hs0 & Ha0 & _ & Hi0).
    destruct (go n m g ctx (skip_while toks (length toks) ws s)) as [r1 s2] eqn:E. use IH E.
    rewrite Hc0, Ha0, ?Hs0 in P.
    destruct r1; try trivial_res H; inv_pair H.
    + ok_elim P. assert (Hi2 : inv s2) by exact Hu.
      destruct (skip_while_spec ws (length toks) s2 Hi2) as (Hc2 & Hs2 & Ha2 & _ & Hi3).
      do 3 eexists. rewrite Ha2, Hc2, Hs2. split; [reflexivity|]. split; [assumption|]. split; [reflexivity|].
      split; [rewrite Hsec, Hs0; reflexivity|]. unfold Base.inv in Hi3. rewrite Hc2 in Hi3. exact Hi3.
    + err_elim P. cbn. fin_err.
Qed.

End Refine.

Print Assumptions refine.
