From Chum Require Export Ledger.

(* every value created is either handed to the caller or dropped, exactly once: nothing leaks *)
Lemma fill_balanced n : forall rs written,
  let l := fill_array false n rs written in
  l_leaked l = [] /\
  rev written ++ created n rs = match l_output l with Some o => o | None => [] end ++ l_dropped l /\
  (l_output l <> None -> l_dropped l = []).
Proof.
  induction n as [|n IH]; intros rs written; cbn.
  - repeat split; auto; now rewrite ?app_nil_r.
  - destruct rs as [|[id|] rest]; cbn.
    + repeat split; auto; try (now rewrite ?app_nil_r); intros H; contradiction.
    + specialize (IH rest (id :: written)). cbn in IH. destruct IH as (H1 & H2 & H3).
      repeat split; auto. rewrite <- H2. cbn. now rewrite <- app_assoc.
    + repeat split; auto; try (now rewrite ?app_nil_r); intros H; contradiction.
Qed.
