"""Case generator: random and exhaustive grammars (s-expressions per FORMAT.md) with inputs.

Every random choice is drawn from one random.Random seeded by the caller (VERIF_SEED)."""
import random, itertools, json

A, B, C, EA, COMMA, EURO = 97, 98, 99, 233, 44, 8364
ALPHA = [A, B, C, EA]

def sx(x):
    if isinstance(x, (list, tuple)):
        return "(" + " ".join(sx(y) for y in x) + ")"
    return str(x)

# ---------------------------------------------------------------------------------------------
# static analysis used to keep generated grammars well-formed (conservative)
# ---------------------------------------------------------------------------------------------
def head(g):
    return g[0] if isinstance(g, (list, tuple)) else g

def consuming(g):
    """True if g certainly consumes >= 1 token whenever it succeeds."""
    h = head(g)
    if h in ("Any", "AnyRef", "SelectRef"): return True
    if h in ("End", "Empty"): return False
    if h in ("Just", "Custom"): return len(g[1]) > 0
    if h in ("OneOf", "NoneOf", "Select"): return True
    if h in ("Map", "MapWith", "To", "Filter", "MapCtx", "WithCtx"): return consuming(g[2])
    if h in ("Ignored", "ToSpan", "ToSlice"): return consuming(g[1])
    if h in ("TryMap", "TryMapWith"): return consuming(g[4])
    if h == "Validate": return consuming(g[3])
    if h in ("Then", "IgnoreThen", "ThenIgnore", "IgnoreWithCtx", "ThenWithCtx"): return consuming(g[1]) or consuming(g[2])
    if h == "DelimitedBy": return consuming(g[1]) or consuming(g[2]) or consuming(g[3])
    if h == "PaddedBy": return consuming(g[1]) or consuming(g[2])
    if h in ("Group", "GroupArr"): return any(consuming(x) for x in g[1])
    if h == "Or": return consuming(g[1]) and consuming(g[2])
    if h in ("Choice", "ChoiceVec"): return len(g[1]) > 0 and all(consuming(x) for x in g[1])
    if h in ("OrNot", "Not", "Rewind", "JustCfg"): return False
    if h == "AndIs": return consuming(g[1])
    if h == "RepUnit": return it_consuming(g[1])
    if h == "Collect": return it_consuming(g[2])
    if h == "CollectExactly": return g[1] > 0 and it_item_consuming(g[2])
    if h in ("Foldl", "FoldlWith"): return consuming(g[1]) or it_consuming(g[2])
    if h in ("Foldr", "FoldrWith"): return consuming(g[2]) or it_consuming(g[1])
    if h == "RecoverVia": return consuming(g[1]) and consuming(g[2])
    if h == "RecoverSkipUntil": return False
    if h == "RecoverSkipRetry": return consuming(g[1])
    if h == "Labelled": return consuming(g[3])
    if h == "MapErr": return consuming(g[2])
    if h == "Memo": return consuming(g[2])
    if h in ("Rec", "RecDecl", "Boxed"): return consuming(g[1])
    if h in ("NestedIn", "NestedVia"): return True
    if h == "NestedDelims": return True
    if h == "ExtWrap": return consuming(g[1])
    if h == "WithState": return consuming(g[2])
    if h == "Lazy": return consuming(g[1])
    if h == "Padded": return consuming(g[2])
    if h == "Pratt": return consuming(g[2])
    return False

def it_item_consuming(i):
    h = head(i)
    if h in ("IRep", "IRepCfg", "IOrNot"): return consuming(i[1])
    if h == "ISep": return consuming(i[1])
    if h in ("IEnum",): return it_item_consuming(i[1])
    if h in ("IMap", "IMapWith"): return it_item_consuming(i[2])
    if h == "IThen": return it_item_consuming(i[1]) and it_item_consuming(i[2])
    return False

def it_consuming(i):
    h = head(i)
    if h in ("IRep",): return i[2] >= 1 and consuming(i[1])
    if h == "ISep": return i[3] >= 1 and consuming(i[1])
    if h == "IEnum": return it_consuming(i[1])
    if h in ("IMap", "IMapWith"): return it_consuming(i[2])
    if h == "IThen": return it_consuming(i[1]) or it_consuming(i[2])
    return False

# ---------------------------------------------------------------------------------------------
# random grammars
# ---------------------------------------------------------------------------------------------
CORE = ["End", "Empty", "Any", "Just", "OneOf", "NoneOf", "Select", "Custom",
        "Map", "To", "Ignored", "Filter", "TryMap",
        "Then", "IgnoreThen", "ThenIgnore", "DelimitedBy", "PaddedBy", "Group",
        "Or", "Choice", "ChoiceVec", "OrNot", "Not", "AndIs", "Rewind"]
SPANS = ["MapWith", "ToSpan", "ToSlice", "TryMapWith"]
ITER = ["RepUnit", "Collect", "CollectExactly", "Foldl", "Foldr", "FoldlWith", "FoldrWith"]
EMIT = ["Validate"]
RECOVER = ["RecoverVia", "RecoverSkipUntil", "RecoverSkipRetry"]
DECOR = ["Labelled", "MapErr"]
CTX = ["WithCtx", "IgnoreWithCtx", "ThenWithCtx", "MapCtx", "JustCfg"]
LEAVES = {"End", "Empty", "Any", "Just", "OneOf", "NoneOf", "Select", "Custom", "JustCfg", "Skip", "NestedDelims", "AnyRef", "SelectRef", "Prog"}
WS = [32, 9]        # the whitespace characters used with (Padded ws a); inputs of such grammars get them in their alphabet
DELIMS = [(40, 41), (91, 93), (123, 125)]
sexp_G_HEADS = {"End", "Empty", "Any", "Just", "OneOf", "NoneOf", "Select", "Custom", "Map", "MapWith", "To", "Ignored",
           "ToSpan", "ToSlice", "Filter", "TryMap", "TryMapWith", "Validate", "Then", "IgnoreThen", "ThenIgnore",
           "DelimitedBy", "PaddedBy", "Group", "Or", "Choice", "ChoiceVec", "OrNot", "Not", "AndIs", "Rewind",
           "RepUnit", "Collect", "CollectExactly", "Foldl", "Foldr", "FoldlWith", "FoldrWith", "RecoverVia",
           "RecoverSkipUntil", "RecoverSkipRetry", "Labelled", "MapErr", "WithCtx", "IgnoreWithCtx", "ThenWithCtx",
           "MapCtx", "JustCfg", "Memo", "Rec", "RecDecl", "Var", "Boxed", "Pratt", "Padded", "ExtWrap", "Lazy", "WithState", "GroupArr", "NestedIn", "NestedVia"}

class Gen:
    def __init__(self, rng, ctors, alpha=None, no_not=False, mw=None, slices=True):
        self.r = rng
        self.ctors = list(ctors)
        self.alpha = alpha or ALPHA
        self.leaves = [c for c in self.ctors if c in LEAVES]
        self.inner = [c for c in self.ctors if c not in LEAVES]
        if no_not and "Not" in self.inner: self.inner.remove("Not")
        self.mws = mw or ["MWSpan", "MWState", "MWCtx", "MWAll"] + (["MWSlice"] if slices else [])
        if not slices and "ToSlice" in self.inner: self.inner.remove("ToSlice")
        self.iter_adapt = True
        self.emitters = "Validate" in self.ctors
        self.emit_bias = 0.0

    def tok(self): return self.r.choice(self.alpha)
    def toks(self, lo=1, hi=2): return [self.tok() for _ in range(self.r.randint(lo, hi))]
    def k(self): return self.r.randint(1, 9)
    def fn1(self):
        if getattr(self, "track", False) and self.r.random() < 0.6: return "FNew"
        return self.r.choice(["FId", ["FTag", self.k()], ["FConst", self.k()], "FFst", "FSnd", "FDup"])
    def pred(self):
        c = self.r.random()
        if c < 0.15: return "PTrue"
        if c < 0.25: return "PFalse"
        if c < 0.65: return ["PTokIn", self.toks(1, 2)]
        return ["PTokNotIn", self.toks(1, 2)]
    def val(self, d=2):
        c = self.r.random()
        if d == 0 or c < 0.4: return ["VTok", self.tok()]
        if c < 0.5: return "VUnit"
        if c < 0.6: return ["VNat", self.r.randint(0, 3)]
        if c < 0.8: return ["VList", [self.val(d - 1) for _ in range(self.r.randint(0, 3))]]
        return ["VPair", self.val(d - 1), self.val(d - 1)]

    def leaf(self, consuming_only=False):
        for _ in range(20):
            c = self.r.choice(self.leaves)
            if consuming_only and c in ("End", "Empty", "JustCfg", "Skip", "Prog"): continue
            break
        else:
            c = "Any"
        if c in ("End", "Empty", "Any", "AnyRef"): return c
        if c == "SelectRef": return ["SelectRef", self.pred(), self.fn1()]
        if c == "Prog":
            ops = []
            for _ in range(self.r.randint(1, 6)):
                o = self.r.choice(["CNext", "CNext", "CNextRef", "CPeek", "CSkip", "CSave", "CRewind", "CSpan", "CState", "CExpect", "CExpect"])
                ops.append(["CExpect", self.tok()] if o == "CExpect" else o)
            return ["Prog", ops, self.k()]
        if c == "Just": return ["Just", self.toks(1, 2) if self.r.random() < 0.9 else self.toks(0, 3)]
        if c in ("OneOf", "NoneOf"): return [c, self.toks(1, 3)]
        if c == "Select": return ["Select", self.pred(), self.fn1()]
        if c == "Custom": return ["Custom", self.toks(1, 3), self.k()]
        if c == "JustCfg": return ["JustCfg", self.toks(1, 2)]
        if c == "Skip": return ["Skip", self.r.randint(1, 3)]
        if c == "NestedDelims":
            ps = self.r.sample(DELIMS, self.r.randint(1, 3))
            return ["NestedDelims", ps[0][0], ps[0][1], [list(x) for x in ps[1:]]]
        raise AssertionError(c)

    def g(self, d, consuming_only=False):
        # emit-then-maybe-fail templates: a validate() emission followed by something that can still fail, so that
        # abandoned attempts (last repetition attempt, rejected alternative, failed lookahead, ...) have emitted
        if self.emitters and d >= 1 and self.r.random() < self.emit_bias:
            x = self.emitter(d)
            if not consuming_only or consuming(x): return x
        for _ in range(30):
            x = self._g(d)
            if not consuming_only or consuming(x): return x
        return self.leaf(True)

    def emitter(self, d):
        k = self.k()
        head = ["Validate", "PTrue" if self.r.random() < 0.7 else self.pred(), k,
                self.r.choice(["Any", ["OneOf", self.toks(1, 3)], ["Just", self.toks(1, 1)]])]
        if "RecoverVia" in self.ctors and self.r.random() < 0.35:
            # a recovery that can succeed without consuming (insert-the-missing-token style)
            head = ["RecoverVia", ["Just", self.toks(1, 1)], self.r.choice([["To", self.k(), "Empty"], "Empty", ["To", self.k(), "Any"]])]
        c = self.r.random()
        tail = ["Just", self.toks(1, 1)] if c < 0.7 else self.g(max(d - 2, 0), True)
        if c < 0.85: return [self.r.choice(["ThenIgnore", "Then"]), head, tail]
        return head

    def _g(self, d):
        if d <= 0 or not self.inner or self.r.random() < 0.2: return self.leaf()
        c = self.r.choice(self.inner)
        G = lambda: self.g(d - 1)
        GC = lambda: self.g(d - 1, True)
        if c in ("Map",): return [c, self.fn1(), G()]
        if c == "MapWith": return [c, self.r.choice(self.mws), G()]
        if c == "To": return [c, self.k(), G()]
        if c in ("Ignored", "ToSpan", "ToSlice", "OrNot", "Not", "Rewind"): return [c, G()]
        if c == "Filter": return [c, self.pred(), G()]
        if c in ("TryMap", "TryMapWith"): return [c, self.pred(), self.fn1(), self.k(), G()]
        if c == "Validate": return [c, self.pred() if self.r.random() < 0.5 else "PTrue", self.k(), G()]
        if c == "AndIs" and self.r.random() < 0.4:
            # a lookahead that consumes less than the kept parser, followed by something that reads on (forward repositioning)
            return ["Then", ["AndIs", ["Then", self.leaf(True), G()], self.leaf(True)], G()]
        if c in ("Then", "IgnoreThen", "ThenIgnore", "Or", "AndIs", "IgnoreWithCtx", "ThenWithCtx"): return [c, G(), G()]
        if c == "DelimitedBy": return [c, G(), G(), G()]
        if c == "PaddedBy": return [c, G(), G()]
        if c == "Group": return [c, [G() for _ in range(self.r.randint(1, 4))]]
        if c == "GroupArr": return [c, [G() for _ in range(self.r.randint(1, 4))]]
        if c == "Choice": return [c, [G() for _ in range(self.r.randint(1, 4))]]
        if c == "ChoiceVec": return [c, [G() for _ in range(self.r.randint(0, 4))]]
        if c == "RepUnit": return [c, self.it(d - 1, unit=True)]
        if c == "Collect": return [c, self.r.choice(["CVec", "CVec", "CCount", "CUnit"]), self.it(d - 1)]
        if c == "CollectExactly": return [c, self.r.randint(0, 3), self.it(d - 1)]
        if c in ("Foldl", "FoldlWith"): return [c, G(), self.it(d - 1), self.k()]
        if c in ("Foldr", "FoldrWith"): return [c, self.it(d - 1), G(), self.k()]
        if c == "RecoverVia": return [c, G(), G()]
        if c == "RecoverSkipUntil": return [c, G(), GC(), G(), self.k()]
        if c == "RecoverSkipRetry": return [c, G(), GC(), G()]
        if c == "Labelled": return [c, self.k(), self.r.randint(0, 1), G()]
        if c == "MapErr": return [c, self.k(), G()]
        if c == "WithCtx": return [c, self.val(), G()]
        if c == "MapCtx": return [c, self.fn1(), G()]
        if c == "Pratt": return self.pratt()
        if c == "Rec": return self.rec(d - 1)
        if c == "Boxed": return [c, G()]
        if c in ("NestedIn", "ExtWrap", "Lazy"): return [c, G()]
        if c == "WithState": return [c, self.r.choice([0, 5, 7, 999]), G()]
        if c == "Padded": return [c, list(WS), G()]
        if c == "CollectOrNot":
            # or_not() consumed through the IterParser interface; the item can fail after consuming
            i = ["IOrNot", self.r.choice([["Then", self.leaf(True), G()], ["Just", self.toks(2, 3)], GC()])]
            if self.r.random() < 0.3: i = ["IEnum", i]
            return ["Collect", self.r.choice(["CVec", "CVec", "CCount"]), i]
        if c == "RepUnitCfg":
            # a configured repetition used directly as a unit parser (IterConfigure / TryIterConfigure as Parser<()>)
            lo, hi = self.bounds()
            return ["RepUnit", ["IRepCfg", GC(), lo, hi, self.r.choice([0, 0, 1, 2, 3, 4, 5, 6, 8, 9, 10])]]
        if c == "IntoIter":
            src = self.r.choice([lambda: ["Collect", "CVec", self.it(max(d - 2, 0), unit=True)], lambda: ["OrNot", G()],
                                 lambda: ["Group", [G() for _ in range(self.r.randint(1, 3))]], G])()
            i = ["IIntoIter", src]
            if self.r.random() < 0.3: i = ["IEnum", i]
            k = self.r.random()
            if k < 0.35: return ["Collect", self.r.choice(["CVec", "CCount", "CUnit"]), i]
            if k < 0.6: return ["CollectExactly", self.r.randint(0, 3), i]
            if k < 0.75: return ["Foldl", G(), i, self.k()]
            if k < 0.9: return ["Foldr", i, G(), self.k()]
            return ["RepUnit", ["IIntoIter", src]]
        raise AssertionError(c)

    # ----- Pratt tables -----
    PRATT_SYMS = [43, 45, 42, 94, 33, 126]      # + - * ^ ! ~
    def pratt(self, nops=None):
        atom = self.r.choice([["Just", [A]], ["OneOf", [A, B]], ["Just", [A]], ["To", 1, ["OneOf", [A, B, C]]]])
        n = nops or self.r.choice([1, 2, 2, 3, 3, 4, 5, 6])
        ops = []
        # binding powers are u16: now and then a table uses the top of the range (power arithmetic must not overflow)
        big = self.r.choice([0] * 12 + [32764, 32767, 65531])
        for _ in range(n):
            sym = self.r.choice(self.PRATT_SYMS)
            bp = self.r.randint(1, 4) + big
            kind = self.r.choice(["PInfix", "PInfix", "PInfix", "PPrefix", "PPostfix"])
            og = ["Just", [sym]]
            if self.r.random() < 0.15: og = ["Just", [sym, self.r.choice(self.PRATT_SYMS)]]       # a two-token operator: can fail after consuming
            if kind == "PInfix": ops.append(["PInfix", self.r.randint(0, 1), bp, og, self.k()])
            else: ops.append([kind, bp, og, self.k()])
        return ["Pratt", self.r.choice(["vec", "tuple"]), atom, ops]

    # ----- guarded recursion -----
    def rec(self, d):
        o, c, sep = self.r.sample([40, 41, 91, 93, 44, 59], 3)
        leaf = self.r.choice([["Just", [A]], ["OneOf", [A, B]], "Any"]) if self.r.random() < 0.7 else self.g(max(d - 1, 0), True)
        kind = self.r.random()
        R = self.r.choice(["Rec", "Rec", "RecDecl"])
        if kind < 0.3:      # nested delimiters
            return [R, ["Or", ["DelimitedBy", ["Var", 0], ["Just", [o]], ["Just", [c]]], leaf]]
        if kind < 0.5:      # right recursion: leaf (sep self)?
            return [R, ["Then", leaf, ["OrNot", ["IgnoreThen", ["Just", [sep]], ["Var", 0]]]]]
        if kind < 0.65:     # recursion under repetition: ( self* ) | leaf
            return [R, ["Or", ["DelimitedBy", ["Collect", "CVec", ["IRep", ["Var", 0], 0, "inf"]], ["Just", [o]], ["Just", [c]]], leaf]]
        if kind < 0.85:     # mutual recursion: outer = o inner c | leaf ; inner = outer (sep outer)*
            inner = [self.r.choice(["Rec", "RecDecl"]), ["Then", ["Var", 1], ["Collect", "CVec", ["IRep", ["IgnoreThen", ["Just", [sep]], ["Var", 1]], 0, "inf"]]]]
            return [R, ["Or", ["DelimitedBy", inner, ["Just", [o]], ["Just", [c]]], leaf]]
        # recursion through map/try_map/labels
        return [R, ["Or", ["Map", self.fn1(), ["Then", ["Just", [o]], ["ThenIgnore", ["Labelled", self.k(), 1, ["Var", 0]], ["Just", [c]]]]], leaf]]

    def leftrec(self):
        """expr = (expr op atom).memoized() | atom : terminates only thanks to memoization"""
        op = self.r.choice([43, 45, 42])
        atom = self.r.choice([["Just", [A]], ["OneOf", [A, B]]])
        mid = 900 + self.r.randint(0, 50)
        ref = ["Var", 0]
        # now and then the recursive reference sits under a context switch (same context value): the memo table must be the same
        # table on both sides of it, or the in-progress marker that cuts the recursion is not found
        if self.r.random() < 0.25:
            ref = self.r.choice([["MapCtx", "FId", ref], ["WithCtx", "VUnit", ref], ["IgnoreWithCtx", "Empty", ref]])
        step = ["Then", ref, ["Then", ["Just", [op]], atom]]
        k = self.r.random()
        if k < 0.4:
            return ["Rec", ["Or", ["Memo", mid, step], atom]]
        if k < 0.6:
            # the memoized step and a clone of it (same id) both take part in the recursion
            return ["Rec", ["Or", ["Memo", mid, step], ["Or", ["Memo", mid, json.loads(json.dumps(step))], atom]]]
        return ["Rec", ["Memo", mid, ["Or", step, atom]]]

    def memo_clones(self):
        """one memoized parser, cloned into several places (clones share the cache key), failing more than once at the same
        position, with something between the visits that shelters, rewrites or discards the pending error"""
        mid = 950 + self.r.randint(0, 40)
        body = self.r.choice([["Just", self.toks(1, 2)], ["OneOf", self.toks(1, 2)], ["Then", ["Just", self.toks(1, 1)], ["Just", self.toks(1, 1)]],
                              self.g(1, True)])
        M = ["Memo", mid, body]
        pre = ["Then", ["OrNot", self.leaf(True)], M]
        first = self.r.choice([
            lambda: ["Labelled", self.k(), self.r.randint(0, 1), pre],
            lambda: ["Then", ["Not", pre], self.r.choice(["Any", ["Just", self.toks(1, 1)], "End"])],
            lambda: ["Then", ["Not", M], ["Just", self.toks(1, 1)]],
            lambda: ["TryMap", "PFalse", "FId", self.k(), pre],
            lambda: ["MapErr", self.k(), pre],
            lambda: ["Rewind", pre],
            lambda: pre,
            lambda: ["Then", M, ["Just", self.toks(1, 1)]],
        ])()
        second = self.r.choice([["Then", M, self.g(1)], M, ["Then", ["OrNot", self.leaf(True)], M], ["Labelled", self.k(), 1, M]])
        if body[0] == "Then" and self.r.random() < 0.7:
            # a sibling alternative that fails at the same (deeper) position as the memoized parser: their errors must merge
            other = self.r.choice([t for t in self.alpha if [t] != body[2][1]] or self.alpha)
            sib = ["Then", body[1], ["Just", [other]]]
            second = self.r.choice([["Or", M, sib], ["Choice", [sib, M]], ["Or", ["Then", M, self.g(1)], sib]])
        c = self.r.random()
        if c < 0.4: g = ["Or", first, second]
        elif c < 0.6: g = ["Choice", [first, second, ["Then", M, M]]]
        elif c < 0.8: g = ["IgnoreThen", ["Not", M], second]      # the lookahead discards the first visit's error; the second visit is a hit
        else: g = ["Then", ["OrNot", first], second]
        return g

    def leftrec_wrapped(self):
        """a memoized left-recursive rule directly under map_err / recover_with / an extension parser / labelled: the cut-off of the
        left recursion must leave an error behind for them"""
        lr = self.leftrec()
        k = self.r.random()
        def wrap(x):
            if k < 0.3: return ["MapErr", self.k(), x]
            if k < 0.55: return ["RecoverVia", x, self.r.choice(["Empty", ["To", self.k(), "Any"]])]
            if k < 0.7: return ["ExtWrap", x]
            if k < 0.85: return ["RecoverSkipRetry", x, "Any", "End"]
            return ["Labelled", self.k(), 1, x]
        # wrap the memoized node itself (the parser that is re-entered)
        def walk(x):
            if isinstance(x, list):
                if x and x[0] == "Memo": return wrap(x)
                return [walk(a) for a in x]
            return x
        return walk(lr)

    def memoize(self, g, prob=0.3, counter=None):
        """wrap random sub-grammars (G positions only) in Memo with unique ids"""
        counter = counter if counter is not None else [0]
        def wrap(x):
            if self.r.random() < prob:
                counter[0] += 1
                return ["Memo", counter[0], x]
            return x
        def walk(x):
            if isinstance(x, str): return wrap(x) if x in LEAVES else x
            if not isinstance(x, list) or not x: return x
            h = x[0]
            if not isinstance(h, str): return [walk(y) for y in x]
            if h in sexp_G_HEADS:
                return wrap([h] + [walk_arg(h, i, a) for i, a in enumerate(x[1:])])
            if h in ("IRep", "ISep", "IEnum", "IMap", "IMapWith", "IOrNot", "IRepCfg", "IIntoIter", "IThen", "PInfix", "PPrefix", "PPostfix"):
                return [h] + [walk_arg(h, i, a) for i, a in enumerate(x[1:])]
            return x
        def walk_arg(h, i, a):
            if isinstance(a, list) and a and isinstance(a[0], str) and (a[0] in sexp_G_HEADS or a[0] in ("IRep", "ISep", "IEnum", "IMap", "IMapWith", "IOrNot", "IRepCfg", "IIntoIter", "IThen", "PInfix", "PPrefix", "PPostfix")):
                return walk(a)
            if isinstance(a, str) and a in ("End", "Empty", "Any"): return wrap(a)
            if h in ("Group", "Choice", "ChoiceVec") and isinstance(a, list): return [walk(y) for y in a]
            if h == "Pratt" and i == 2 and isinstance(a, list): return [walk(y) for y in a]
            return a
        return walk(g)

    def bounds(self):
        lo = self.r.choice([0, 0, 1, 1, 2, 3])
        c = self.r.random()
        if c < 0.4: hi = "inf"
        elif c < 0.6: hi = lo
        else: hi = lo + self.r.randint(0, 2)       # lo <= hi (at_least > at_most is finding F13)
        return lo, hi

    def it(self, d, unit=False):
        c = self.r.random()
        item = self.g(d, True)
        lo, hi = self.bounds()
        if unit and self.r.random() < 0.5: lo, hi, c = 0, "inf", 0.0     # the Repeated::go fast loop (0..inf) is separate code
        if c < 0.5: base = ["IRep", item, lo, hi]
        elif c < 0.85:
            cs = self.r.random()
            # separators that can fail after consuming input (multi-token just, sequences, padding) exercise the rewinds of SeparatedBy::next
            if cs < 0.5: sep = ["Just", [COMMA]]
            elif cs < 0.65: sep = ["Just", [COMMA, self.r.choice([COMMA, 59, self.tok()])]]
            elif cs < 0.72: sep = ["Then", ["Just", [COMMA]], ["Just", [self.tok()]]]
            elif cs < 0.78: sep = ["PaddedBy", ["Just", [COMMA]], ["RepUnit", ["IRep", ["Just", [32]], 0, "inf"]]]
            else: sep = self.g(max(d - 1, 0), True)
            base = ["ISep", item, sep, lo, hi, self.r.randint(0, 1), self.r.randint(0, 1)]
        elif c < 0.93 and "JustCfg" in self.ctors: base = ["IRepCfg", item, lo, hi, self.r.choice([0, 0, 1, 2, 3, 4, 4, 5, 6, 7, 8, 8, 9, 9, 10, 10])]
        elif c < 0.965 and not unit: base = ["IOrNot", item]
        elif not unit:
            # i.then(j) used as an iterable: the items of i, then those of (a fresh) j
            def half():
                k = self.r.random()
                l2, h2 = self.bounds()
                x = self.g(max(d - 1, 0), True)
                if k < 0.5: return ["IRep", x, l2, h2]
                if k < 0.85: return ["ISep", x, ["Just", [COMMA]], l2, h2, self.r.randint(0, 1), self.r.randint(0, 1)]
                return ["IOrNot", x]
            base = ["IThen", half(), half()]
        else: base = ["IRep", item, lo, hi]
        if unit: return base
        # adaptors: chumsky 0.10.1 only offers map/map_with on iterables whose items are `()`; enumerate goes on top
        n_ad = 0
        if self.iter_adapt and base[0] in ("IRep", "ISep", "IRepCfg") and self.r.random() < 0.2:
            base[1] = ["Ignored", base[1]]
            for _ in range(self.r.randint(1, 2)):
                if self.r.random() < 0.5: base = ["IMap", self.fn1(), base]
                else: base = ["IMapWith", self.r.choice([m for m in self.mws if m != "MWSlice"]), base]
                n_ad += 1
        if self.iter_adapt and n_ad < 2 and self.r.random() < 0.2:
            base = ["IEnum", base]
        return base

# ---------------------------------------------------------------------------------------------
# inputs: sample a probably-accepted string from the grammar, then mutate
# ---------------------------------------------------------------------------------------------
def sample(rng, g, alpha, ctx=()):
    """A token string that g plausibly accepts (ignores lookahead, predicates, bounds subtleties)."""
    h = head(g)
    S = lambda x: sample(rng, x, alpha, ctx)
    if h in ("End", "Empty"): return []
    if h == "Skip": return [rng.choice(alpha) for _ in range(g[1])]
    if h == "Prog":
        out = []
        for o in g[1]:
            if o in ("CNext", "CNextRef", "CSkip"): out.append(rng.choice(alpha))
            elif isinstance(o, list) and o[0] == "CExpect": out.append(o[1])
        return out
    if h == "NestedDelims":
        pairs = [(g[1], g[2])] + [tuple(x) for x in g[3]]
        def bal(d):
            out = []
            for _ in range(rng.randint(0, 3)):
                if d > 0 and rng.random() < 0.4:
                    o, c = rng.choice(pairs); out += [o] + bal(d - 1) + [c]
                else: out.append(rng.choice(alpha))
            return out
        return [g[1]] + bal(2) + [g[2]]
    if h in ("Any", "AnyRef"): return [rng.choice(alpha)]
    if h in ("Just", "Custom"): return list(g[1])
    if h == "JustCfg": return list(ctx) if ctx else list(g[1])
    if h == "OneOf": return [rng.choice(g[1])]
    if h == "NoneOf":
        c = [t for t in alpha if t not in g[1]]
        return [rng.choice(c)] if c else [rng.choice(alpha)]
    if h in ("Select", "SelectRef"):
        p = g[1]
        if head(p) == "PTokIn": return [rng.choice(p[1])]
        if head(p) == "PTokNotIn":
            c = [t for t in alpha if t not in p[1]]
            return [rng.choice(c)] if c else [rng.choice(alpha)]
        return [rng.choice(alpha)]
    if h in ("Map", "MapWith", "To", "Filter", "MapCtx", "WithState"): return S(g[2])
    if h == "WithCtx": return sample(rng, g[2], alpha, tuple(val_toks(g[1])))
    if h in ("Ignored", "ToSpan", "ToSlice", "ExtWrap"): return S(g[1])
    if h == "Lazy": return S(g[1]) + [rng.choice(alpha) for _ in range(rng.randint(0, 2))]
    if h == "Padded":
        sp = lambda: [rng.choice(g[1]) for _ in range(rng.choice([0, 0, 1, 2]))]
        return sp() + S(g[2]) + sp()
    if h in ("TryMap", "TryMapWith"): return S(g[4])
    if h == "Validate": return S(g[3])
    if h in ("Then", "IgnoreThen", "ThenIgnore"): return S(g[1]) + S(g[2])
    if h in ("IgnoreWithCtx", "ThenWithCtx"):
        a = S(g[1]); return a + sample(rng, g[2], alpha, tuple(a))
    if h == "DelimitedBy": return S(g[2]) + S(g[1]) + S(g[3])
    if h == "PaddedBy": return S(g[2]) + S(g[1]) + S(g[2])
    if h in ("Group", "GroupArr"): return [t for x in g[1] for t in S(x)]
    if h == "Or": return S(rng.choice([g[1], g[2]]))
    if h in ("Choice", "ChoiceVec"): return S(rng.choice(g[1])) if g[1] else []
    if h == "OrNot": return S(g[1]) if rng.random() < 0.6 else []
    if h in ("Not", "Rewind"): return []
    if h == "AndIs": return S(g[1])
    if h == "RepUnit": return sample_it(rng, g[1], alpha, ctx)
    if h == "Collect": return sample_it(rng, g[2], alpha, ctx)
    if h == "CollectExactly": return sample_it(rng, g[2], alpha, ctx, exactly=g[1])
    if h in ("Foldl", "FoldlWith"): return S(g[1]) + sample_it(rng, g[2], alpha, ctx)
    if h in ("Foldr", "FoldrWith"): return sample_it(rng, g[1], alpha, ctx) + S(g[2])
    if h == "RecoverVia": return S(g[1]) if rng.random() < 0.5 else S(g[2])
    if h == "RecoverSkipUntil":
        if rng.random() < 0.5: return S(g[1])
        return [t for _ in range(rng.randint(0, 2)) for t in S(g[2])] + S(g[3])
    if h == "RecoverSkipRetry":
        if rng.random() < 0.5: return S(g[1])
        return [t for _ in range(rng.randint(1, 2)) for t in S(g[2])] + S(g[1])
    if h == "Labelled": return S(g[3])
    if h == "MapErr": return S(g[2])
    if h == "Memo": return S(g[2])
    if h == "Boxed": return S(g[1])
    if h in ("Rec", "RecDecl"): return sample_rec(rng, g[1], alpha, ctx, [g[1]], rng.randint(0, 4))
    if h == "Var": return []
    if h == "Pratt": return sample_pratt(rng, g, alpha, ctx)
    if h in ("NestedIn", "NestedVia"): return [("G", tuple(S(g[1])))]      # a group token whose children the inner grammar accepts
    return []

def sample_rec(rng, body, alpha, ctx, envs, depth):
    """sample with recursive references expanded `depth` times"""
    def subst(x, lvl):
        if isinstance(x, list) and x and x[0] == "Var":
            k = x[1]
            if depth <= 0 or k >= len(envs): return "Empty"
            return ["__rec", k]
        if isinstance(x, list): return [subst(y, lvl) for y in x]
        return x
    def S2(x, dep):
        if isinstance(x, list) and x and x[0] == "__rec":
            return sample_rec(rng, envs[x[1]], alpha, ctx, envs[x[1]:], dep - 1)
        if isinstance(x, list) and x and x[0] in ("Rec", "RecDecl"):
            return sample_rec(rng, x[1], alpha, ctx, [x[1]] + envs, dep)
        return None
    # expand lazily: replace Var by a marker handled through a patched sample
    def go(x, dep):
        if isinstance(x, list) and x and x[0] == "Var":
            k = x[1]
            if dep <= 0 or k >= len(envs): return []
            return sample_rec(rng, envs[k], alpha, ctx, envs[k:], dep - 1)
        if isinstance(x, list) and x and x[0] in ("Rec", "RecDecl"):
            return sample_rec(rng, x[1], alpha, ctx, [x[1]] + envs, dep)
        return None
    return sample_with(rng, body, alpha, ctx, lambda x: go(x, depth))

def sample_with(rng, g, alpha, ctx, hook):
    """sample() with a hook that may override the sampling of a sub-grammar"""
    r = hook(g)
    if r is not None: return r
    if not isinstance(g, list): return sample(rng, g, alpha, ctx)
    h = g[0]
    S = lambda x: sample_with(rng, x, alpha, ctx, hook)
    if h in ("Then", "IgnoreThen", "ThenIgnore"): return S(g[1]) + S(g[2])
    if h == "DelimitedBy": return S(g[2]) + S(g[1]) + S(g[3])
    if h == "PaddedBy": return S(g[2]) + S(g[1]) + S(g[2])
    if h == "Or": return S(rng.choice([g[1], g[2]]))
    if h in ("Choice", "ChoiceVec"): return S(rng.choice(g[1])) if g[1] else []
    if h == "OrNot": return S(g[1]) if rng.random() < 0.6 else []
    if h in ("Map", "MapWith", "To", "Filter", "MapCtx", "MapErr", "Memo", "Padded"): return S(g[2])
    if h == "Labelled": return S(g[3])
    if h in ("Ignored", "ToSpan", "ToSlice", "Boxed"): return S(g[1])
    if h == "Collect":
        i = g[2]
        if i[0] == "IRep": return [t for _ in range(rng.randint(i[2], i[2] + 2)) for t in S(i[1])]
    return sample(rng, g, alpha, ctx)

def sample_pratt(rng, g, alpha, ctx):
    atom, ops = g[2], g[3]
    pre = [o for o in ops if o[0] == "PPrefix"]; post = [o for o in ops if o[0] == "PPostfix"]; inf = [o for o in ops if o[0] == "PInfix"]
    def operand():
        out = []
        if pre and rng.random() < 0.3: out += sample(rng, rng.choice(pre)[2], alpha, ctx)
        out += sample(rng, atom, alpha, ctx)
        if post and rng.random() < 0.3: out += sample(rng, rng.choice(post)[2], alpha, ctx)
        return out
    out = operand()
    for _ in range(rng.randint(0, 4)):
        if not inf: break
        out += sample(rng, rng.choice(inf)[3], alpha, ctx) + operand()
    return out

def val_toks(v):
    h = head(v)
    if h == "VTok": return [v[1]]
    if h == "VList": return [t for x in v[1] for t in val_toks(x)]
    if h == "VPair": return val_toks(v[1]) + val_toks(v[2])
    if h == "VOpt" and v[1] != "none": return val_toks(v[1])
    if h == "VTag": return val_toks(v[2])
    return []

def sample_it(rng, i, alpha, ctx, exactly=None):
    h = head(i)
    if h == "IEnum": return sample_it(rng, i[1], alpha, ctx, exactly)
    if h in ("IMap", "IMapWith"): return sample_it(rng, i[2], alpha, ctx, exactly)
    if h == "IOrNot": return sample(rng, i[1], alpha, ctx) if rng.random() < 0.6 else []
    if h == "IIntoIter": return sample(rng, i[1], alpha, ctx)
    if h == "IThen": return sample_it(rng, i[1], alpha, ctx) + sample_it(rng, i[2], alpha, ctx)
    if h in ("IRep", "IRepCfg"):
        lo, hi = i[2], i[3]
        if h == "IRepCfg":
            ck = i[4] if len(i) > 4 else 0
            if ck in (0, 1, 4, 5, 8): lo = len(ctx)
            if ck in (0, 2, 4, 6, 8): hi = len(ctx)
            if hi != "inf" and lo > hi: lo = hi
        n = exactly if exactly is not None else rng.randint(lo, (lo + 2) if hi == "inf" else hi)
        return [t for _ in range(n) for t in sample(rng, i[1], alpha, ctx)]
    if h == "ISep":
        lo, hi, lead, trail = i[3], i[4], i[5], i[6]
        n = exactly if exactly is not None else rng.randint(lo, (lo + 2) if hi == "inf" else hi)
        out = []
        if lead and rng.random() < 0.4: out += sample(rng, i[2], alpha, ctx)
        for j in range(n):
            if j > 0: out += sample(rng, i[2], alpha, ctx)
            out += sample(rng, i[1], alpha, ctx)
        if trail and n > 0 and rng.random() < 0.4: out += sample(rng, i[2], alpha, ctx)
        return out
    return []

def is_group(t): return isinstance(t, tuple) and len(t) == 2 and t[0] == "G"

def rand_tree(rng, alpha, depth=2, maxlen=4):
    return ("G", tuple(rand_tree(rng, alpha, depth - 1, 3) if (depth > 0 and rng.random() < 0.25) else rng.choice(alpha)
                       for _ in range(rng.randint(0, maxlen))))

def mutate(rng, s, alpha):
    s = list(s)
    groups = [i for i, t in enumerate(s) if is_group(t)]
    if groups and rng.random() < 0.55:         # token trees: an ill-formed inner sequence
        i = rng.choice(groups)
        s[i] = ("G", tuple(mutate(rng, list(s[i][1]), alpha)))
        return s
    if groups and rng.random() < 0.15:         # a leaf where a group is expected
        s[rng.choice(groups)] = rng.choice(alpha); return s
    c = rng.random()
    if c < 0.3 and s: del s[rng.randrange(len(s))]
    elif c < 0.6: s.insert(rng.randint(0, len(s)), rng.choice(alpha))
    elif s: s[rng.randrange(len(s))] = rng.choice(alpha)
    else: s.append(rng.choice(alpha))
    return s

def inputs_for(rng, g, alpha, n_valid=3, n_mut=4, n_rand=2, maxlen=7, extra_alpha=(), trees=False):
    al = list(alpha) + list(extra_alpha)
    pick = (lambda: rand_tree(rng, al) if rng.random() < 0.3 else rng.choice(al)) if trees else (lambda: rng.choice(al))
    seen, out = set(), []
    def add(s):
        t = tuple(s)
        if t not in seen and len(t) <= 40:
            seen.add(t); out.append(list(s))
    add([])
    for _ in range(n_valid):
        s = sample(rng, g, alpha)
        add(s)
        for _ in range(max(1, n_mut // max(n_valid, 1))): add(mutate(rng, s, al))
        if s: add(s[:-1])                       # truncated
        add(s + [pick()])               # extended by one token
    for _ in range(n_rand):
        add([pick() for _ in range(rng.randint(1, maxlen))])
    return out

def all_strings(alpha, maxlen):
    for n in range(maxlen + 1):
        for t in itertools.product(alpha, repeat=n):
            yield list(t)

# ---------------------------------------------------------------------------------------------
# exhaustive small grammars over a reduced constructor set (for the universes U(k))
# ---------------------------------------------------------------------------------------------
def enum_grammars(size, leaves, unary, binary):
    """All grammars with exactly `size` combinator nodes. unary: list of lambdas g->G; binary: (g,h)->G."""
    if size == 1:
        for l in leaves: yield l
        return
    for u in unary:
        for x in enum_grammars(size - 1, leaves, unary, binary):
            yield u(x)
    for b in binary:
        for ls in range(1, size - 1):
            for x in enum_grammars(ls, leaves, unary, binary):
                for y in enum_grammars(size - 1 - ls, leaves, unary, binary):
                    yield b(x, y)
